/-
Helper lemmas for `Props/C15Text.lean`, part 5: **documents** whose top-level blocks are pieces (`Piece2` of
`Lemmas/DocParse2.lean`: what C01b is proved on) and *reference definitions* (`DefSpec` of `Lemmas/InlineRefForms.lean`)
in any order, separated by blank lines.  The block parser appends the element of every piece to the root and collects
the definitions in document order whatever stands between them (`parse_items`); the later stages are those of
`render_elems`, with the references of the WHOLE document (`convert_items`).  Core Lean only.
-/
import MdVerif.Lemmas.DocParse2
import MdVerif.Lemmas.InlineRefForms

namespace MdVerif.RefText
open Py Inline DocParse DocParse2 Block InlineRef

/-- a top-level item of the document: a piece or a reference definition -/
inductive DItem where
  | blk (p : Piece2)
  | dfn (d : DefSpec)

/-- the lines of a definition -/
def defLinesOf (d : DefSpec) : List Str := RefDef.defLines d.indent d.label d.url false d.title d.titleOnNextLine

theorem src_eq_joinLines (d : DefSpec) : d.src = joinLines (defLinesOf d) :=
  Block.printDef_eq_joinLines _ _ _ _ _ _

def DItem.lines : DItem → List Str
  | .blk p => p.b.g
  | .dfn d => defLinesOf d

def DItem.blocks : DItem → List Str
  | .blk p => p.b.blocks
  | .dfn d => [d.src]

def blksOf : List DItem → List Piece2
  | [] => []
  | .blk p :: r => p :: blksOf r
  | .dfn _ :: r => blksOf r

def dfnsOf : List DItem → List DefSpec
  | [] => []
  | .blk _ :: r => dfnsOf r
  | .dfn d :: r => d :: dfnsOf r

def blocksOfI (is : List DItem) : List Str := is.flatMap DItem.blocks

theorem blksOf_append (a b : List DItem) : blksOf (a ++ b) = blksOf a ++ blksOf b := by
  induction a with
  | nil => rfl
  | cons x r ih => cases x <;> simp [blksOf, ih]

theorem dfnsOf_append (a b : List DItem) : dfnsOf (a ++ b) = dfnsOf a ++ dfnsOf b := by
  induction a with
  | nil => rfl
  | cons x r ih => cases x <;> simp [dfnsOf, ih]

theorem blksOf_dfns (ds : List DefSpec) : blksOf (ds.map DItem.dfn) = [] := by
  induction ds with
  | nil => rfl
  | cons d r ih => simpa [blksOf] using ih

theorem dfnsOf_dfns (ds : List DefSpec) : dfnsOf (ds.map DItem.dfn) = ds := by
  induction ds with
  | nil => rfl
  | cons d r ih => simp [dfnsOf, ih]

theorem blocksOfI_dfns (ds : List DefSpec) : blocksOfI (ds.map DItem.dfn) = ds.map DefSpec.src := by
  induction ds with
  | nil => rfl
  | cons d r ih =>
    simp only [blocksOfI, List.map_cons, List.flatMap_cons, DItem.blocks] at ih ⊢
    rw [ih]; rfl

theorem blocksOfI_append (a b : List DItem) : blocksOfI (a ++ b) = blocksOfI a ++ blocksOfI b := by
  simp [blocksOfI]

theorem mem_blksOf {p : Piece2} {is : List DItem} : p ∈ blksOf is ↔ DItem.blk p ∈ is := by
  induction is with
  | nil => simp [blksOf]
  | cons x r ih => cases x <;> simp [blksOf, ih]

theorem mem_dfnsOf {d : DefSpec} {is : List DItem} : d ∈ dfnsOf is ↔ DItem.dfn d ∈ is := by
  induction is with
  | nil => simp [dfnsOf]
  | cons x r ih => cases x <;> simp [dfnsOf, ih]

/-- items without pieces are definitions -/
theorem eq_dfns_of_no_blk (is : List DItem) (h : blksOf is = []) : is = (dfnsOf is).map DItem.dfn := by
  induction is with
  | nil => rfl
  | cons x r ih =>
    cases x with
    | blk p => simp [blksOf] at h
    | dfn d => simp only [blksOf] at h; simp only [dfnsOf, List.map_cons]; rw [← ih h]

/-- the items up to the last piece, the last piece, the definitions after it -/
theorem split_last_blk (is : List DItem) (h : blksOf is ≠ []) :
    ∃ (pre : List DItem) (p : Piece2) (trail : List DefSpec), is = pre ++ DItem.blk p :: trail.map DItem.dfn := by
  induction is with
  | nil => exact absurd rfl h
  | cons x r ih =>
    by_cases hr : blksOf r = []
    · cases x with
      | blk p => exact ⟨[], p, dfnsOf r, by rw [List.nil_append, ← eq_dfns_of_no_blk r hr]⟩
      | dfn d => simp [blksOf, hr] at h
    · obtain ⟨pre, p, trail, e⟩ := ih hr
      exact ⟨x :: pre, p, trail, by rw [e]; rfl⟩

/-! ### the block parser -/

/-- **the block parser on items that do not end the document**: the elements of the pieces are appended in order, the
    definitions join the references in order -/
theorem parse_pre (tab : Nat) : ∀ (is : List DItem), (∀ p ∈ blksOf is, BPieceOK tab p.b) →
    (∀ d ∈ dfnsOf is, d.ok tab = true) → noCodeAfterCode ((blksOf is).map (·.b)) →
    ∀ (refs : Refs) (parent : Node) (rest : List Str) (f : Nat), isItemTag parent = false →
      (∀ p, (blksOf is).head? = some p → p.b.isCode = true → cleanLast parent) →
      ∃ k, parseBlocks tab (f + k) [] refs parent (blocksOfI is ++ rest) =
        parseBlocks tab f [] (refs ++ (dfnsOf is).map DefSpec.entry)
          { parent with children := parent.children ++ (blksOf is).map (·.b.node) } rest
  | [], _, _, _, refs, parent, rest, f, _, _ => ⟨0, by cases parent; simp [blocksOfI, blksOf, dfnsOf]⟩
  | .dfn d :: r, hP, hD, hadj, refs, parent, rest, f, hpar, hhead => by
    obtain ⟨k, hk⟩ := parse_pre tab r (fun p hp => hP p (by simpa [blksOf] using hp))
      (fun x hx => hD x (by simp [dfnsOf, hx])) (by simpa [blksOf] using hadj) (refs ++ [d.entry]) parent rest f hpar
      (fun p hp => hhead p (by simpa [blksOf] using hp))
    have h1 := parseBlocks_defs tab [d] (fun x hx => hD x (by simp at hx; subst hx; simp [dfnsOf])) (f + k) refs parent
      (blocksOfI r ++ rest)
    refine ⟨k + 1, ?_⟩
    simp only [List.length_singleton, List.map_cons, List.map_nil, List.singleton_append] at h1
    have e : blocksOfI (DItem.dfn d :: r) ++ rest = d.src :: (blocksOfI r ++ rest) := by
      simp [blocksOfI, DItem.blocks]
    rw [e, ← Nat.add_assoc, h1, hk]
    simp [dfnsOf, blksOf, List.append_assoc]
  | .blk p :: r, hP, hD, hadj, refs, parent, rest, f, hpar, hhead => by
    have hp := hP p (by simp [blksOf])
    obtain ⟨k, hk⟩ := parse_pre tab r (fun q hq => hP q (by simp [blksOf, hq]))
      (fun x hx => hD x (by simpa [dfnsOf] using hx))
      (by
        simp only [blksOf, List.map_cons] at hadj
        cases hb : blksOf r with
        | nil => simp [noCodeAfterCode]
        | cons q qs => rw [hb] at hadj; exact hadj.2)
      refs (parent.append p.b.node) rest f (by rw [CodeLaw.isItemTag_append]; exact hpar)
      (by
        intro q hq hc sib hs
        rw [CodeLaw.last_append] at hs
        cases hs
        simp only [blksOf, List.map_cons] at hadj
        cases hb : blksOf r with
        | nil => rw [hb] at hq; cases hq
        | cons q' qs =>
          rw [hb] at hadj hq
          have : q = q' := by simpa using hq.symm
          subst this
          exact hp.clean (hadj.1 hc))
    obtain ⟨k2, hk2⟩ := hp.prod refs parent (blocksOfI r ++ rest) (f + k) hpar (hhead p (by simp [blksOf]))
    refine ⟨k + k2, ?_⟩
    have e : blocksOfI (DItem.blk p :: r) ++ rest = p.b.blocks ++ (blocksOfI r ++ rest) := by
      simp [blocksOfI, DItem.blocks, List.append_assoc]
    rw [e, ← Nat.add_assoc, hk2, hk]
    simp [dfnsOf, blksOf, Node.append, List.append_assoc]

theorem finalNodes_snoc (bs : List BPiece) (p : BPiece) :
    finalNodes (bs ++ [p]) = bs.map (·.node) ++ [p.nodeLast] := by
  induction bs with
  | nil => rfl
  | cons a r ih =>
    cases r with
    | nil => rfl
    | cons b r' =>
      simp only [List.cons_append, finalNodes, List.map_cons] at ih ⊢
      rw [ih]

/-- **the block parser on a document of items** -/
theorem parse_items (tab : Nat) (is : List DItem) (hne : blksOf is ≠ []) (hP : ∀ p ∈ blksOf is, BPieceOK tab p.b)
    (hD : ∀ d ∈ dfnsOf is, d.ok tab = true) (hadj : noCodeAfterCode ((blksOf is).map (·.b))) :
    ∃ F, parseBlocks tab F [] [] (Node.el "div") (blocksOfI is ++ [[]]) =
      some (divOf (finalNodes ((blksOf is).map (·.b))), (dfnsOf is).map DefSpec.entry) := by
  obtain ⟨pre, p, trail, rfl⟩ := split_last_blk is hne
  have hb : blksOf (pre ++ DItem.blk p :: trail.map DItem.dfn) = blksOf pre ++ [p] := by
    rw [blksOf_append]; simp [blksOf, blksOf_dfns]
  have hd : dfnsOf (pre ++ DItem.blk p :: trail.map DItem.dfn) = dfnsOf pre ++ trail := by
    rw [dfnsOf_append]; simp [dfnsOf, dfnsOf_dfns]
  rw [hb] at hP hadj
  rw [hd] at hD
  have hpre : blksOf (pre ++ [DItem.blk p]) = blksOf pre ++ [p] := by rw [blksOf_append]; simp [blksOf]
  have hdpre : dfnsOf (pre ++ [DItem.blk p]) = dfnsOf pre := by rw [dfnsOf_append]; simp [dfnsOf]
  obtain ⟨k, hk⟩ := parse_pre tab (pre ++ [DItem.blk p]) (by rw [hpre]; exact hP)
    (by rw [hdpre]; exact fun d hd' => hD d (by simp [hd'])) (by rw [hpre]; exact hadj) [] (Node.el "div")
    (trail.map DefSpec.src ++ [[]]) (1 + 1 + trail.length) rfl
    (fun q _ _ sib hs => by simp [Node.last?, Node.el] at hs)
  refine ⟨1 + 1 + trail.length + k, ?_⟩
  have e : blocksOfI (pre ++ DItem.blk p :: trail.map DItem.dfn) ++ [[]] =
      blocksOfI (pre ++ [DItem.blk p]) ++ (trail.map DefSpec.src ++ [[]]) := by
    rw [show pre ++ DItem.blk p :: trail.map DItem.dfn = (pre ++ [DItem.blk p]) ++ trail.map DItem.dfn by simp,
      blocksOfI_append, blocksOfI_dfns, List.append_assoc]
  rw [e, hk, hpre, hdpre, parseBlocks_defs tab trail (fun d hd' => hD d (by simp [hd']))]
  have hnode : ({ Node.el "div" with children := (Node.el "div").children ++ (blksOf pre ++ [p]).map (·.b.node) } : Node) =
      ({ Node.el "div" with children := (blksOf pre).map (·.b.node) } : Node).append p.b.node := by
    simp [Node.append, Node.el]
  rw [hnode, CodeLaw.parseBlocks_step, (hP p (by simp)).last]
  simp only [parseBlocks]
  rw [hb, hd, List.map_append, List.map_cons, List.map_nil, finalNodes_snoc]
  simp [Node.append, divOf, Node.el, List.map_map, Function.comp_def]

/-! ### the text of the document and its blocks -/

theorem mem_joinLines_of_mem' {c : Char} {l : Str} {ls : List Str} (hc : c ∈ l) (hl : l ∈ ls) :
    c ∈ joinLines ls := by
  induction ls with
  | nil => cases hl
  | cons a r ih =>
    cases r with
    | nil =>
      have : l = a := by simpa using hl
      subst this; simpa [joinLines_single] using hc
    | cons b r' =>
      rw [joinLines_cons_cons]
      rcases List.mem_cons.1 hl with rfl | hl'
      · exact List.mem_append_left _ hc
      · exact List.mem_append_right _ (List.mem_cons_of_mem _ (ih hl'))

theorem defLinesOf_facts {tab : Nat} {d : DefSpec} (h : d.ok tab = true) :
    defLinesOf d ≠ [] ∧ (∀ l ∈ defLinesOf d, PlainLine l) ∧ (joinLines (defLinesOf d)).all docCh = true := by
  obtain ⟨_, _, hl, hu, ht, hc⟩ := DefSpec.ok_facts h
  obtain ⟨r0, rl, e⟩ := Block.defLines_shape d.indent d.label d.url false d.title d.titleOnNextLine
  refine ⟨by simp [defLinesOf, e], Block.plain_defLines hl hu ht, ?_⟩
  rw [← src_eq_joinLines]
  exact printDef_docCh _ _ _ _ _ hc

theorem split_dfn {tab : Nat} {d : DefSpec} (h : d.ok tab = true) (Y : Str) :
    splitAux ['\n', '\n'] 0 (joinLines (defLinesOf d) ++ '\n' :: '\n' :: Y) = [d.src] ++ splitAux ['\n', '\n'] 0 Y := by
  obtain ⟨hne, hp, _⟩ := defLinesOf_facts h
  have hnn := noNN_snoc _ (Block.noNN_plain _ hp) (InlineRef.joinLines_getLast _ hne hp)
  rw [splitAux_sep _ _ hnn, src_eq_joinLines]
  rfl

theorem splitS_items (tab : Nat) (is : List DItem) (hne : is ≠ []) (hP : ∀ p ∈ blksOf is, BPieceOK tab p.b)
    (hD : ∀ d ∈ dfnsOf is, d.ok tab = true) :
    splitS ['\n', '\n'] (joinChunks (is.map (fun x => joinLines x.lines)) ++ ['\n', '\n']) = blocksOfI is ++ [[]] := by
  have hsplit : ∀ x ∈ is, ∀ Y, splitAux ['\n', '\n'] 0 (joinLines x.lines ++ '\n' :: '\n' :: Y) =
      x.blocks ++ splitAux ['\n', '\n'] 0 Y := by
    intro x hx Y
    cases x with
    | blk p => exact (hP p (mem_blksOf.2 hx)).split Y
    | dfn d => exact split_dfn (hD d (mem_dfnsOf.2 hx)) Y
  clear hP hD
  induction is with
  | nil => exact absurd rfl hne
  | cons x r ih =>
    have hx := hsplit x List.mem_cons_self
    cases r with
    | nil =>
      simp only [List.map_cons, List.map_nil, joinChunks, splitS, blocksOfI, List.flatMap_cons, List.flatMap_nil,
        List.append_nil]
      have := hx []
      simpa [splitAux] using this
    | cons q r' =>
      have := ih (by simp) (fun y hy => hsplit y (List.mem_cons_of_mem _ hy))
      simp only [List.map_cons, joinChunks, splitS, blocksOfI, List.flatMap_cons, List.append_assoc,
        List.cons_append, List.nil_append] at this ⊢
      rw [hx, this]

theorem parseDocument_items (tab : Nat) (is : List DItem) (hne : blksOf is ≠ [])
    (hP : ∀ p ∈ blksOf is, BPieceOK tab p.b) (hD : ∀ d ∈ dfnsOf is, d.ok tab = true)
    (hadj : noCodeAfterCode ((blksOf is).map (·.b))) :
    parseDocument tab (joinChunks (is.map (fun x => joinLines x.lines)) ++ ['\n', '\n']) =
      some (divOf (finalNodes ((blksOf is).map (·.b))), (dfnsOf is).map DefSpec.entry) := by
  obtain ⟨F, hF⟩ := parse_items tab is hne hP hD hadj
  have hine : is ≠ [] := by intro e; rw [e] at hne; exact hne rfl
  rw [← splitS_items tab is hine hP hD] at hF
  obtain ⟨r, hr⟩ := Option.isSome_iff_exists.1
    (parseDocument_total tab (joinChunks (is.map (fun x => joinLines x.lines)) ++ ['\n', '\n']))
  rw [hr]
  simp only [parseDocument, parseDocumentWith, parseChunk] at hr
  have a1 := parseBlocks_fuel_mono (fuelFor (joinChunks (is.map (fun x => joinLines x.lines)) ++ ['\n', '\n']).length) hF
  have a2 := parseBlocks_fuel_mono F hr
  rw [Nat.add_comm] at a2
  rw [a2] at a1
  rw [a1]

/-! ### the whole conversion -/

/-- a piece with its element, correct for the references `refs` -/
structure Piece2At (cfg : Pipeline.Cfg) (refs : Refs) (p : Piece2) : Prop where
  bok : BPieceOK cfg.tab p.b
  safe : ∀ l ∈ p.b.g, lineSafe l = true ∧ '<' ∉ l ∧ CodeLaw.refsClosed l = true
  vis : ∃ c ∈ joinLines p.b.g, isSpace c = false
  src : p.elem.src = p.b.node
  srcLast : p.elemLast.src = p.b.nodeLast
  eok : ElemOK { esc := cfg.esc, refs := refs } p.elem
  eokLast : ElemOK { esc := cfg.esc, refs := refs } p.elemLast
  out : p.elemLast.out = p.elem.out

/-- the pieces of C01b are correct for any references -/
theorem Piece2OK.at {cfg : Pipeline.Cfg} {p : Piece2} (h : Piece2OK cfg p) (refs : Refs) : Piece2At cfg refs p :=
  ⟨h.bok, h.safe, h.vis, h.src, h.srcLast, h.eok refs, h.eokLast refs, h.out⟩

theorem finalElems_srcAt (cfg : Pipeline.Cfg) (refs : Refs) (ps : List Piece2) (hP : ∀ p ∈ ps, Piece2At cfg refs p) :
    (finalElems ps).map (·.src) = finalNodes (ps.map (·.b)) := by
  induction ps with
  | nil => rfl
  | cons p r ih =>
    cases r with
    | nil => simp [finalElems, finalNodes, (hP p List.mem_cons_self).srcLast]
    | cons q r' =>
      have := ih (fun x hx => hP x (List.mem_cons_of_mem _ hx))
      simp only [List.map_cons] at this
      simp [finalElems, finalNodes, (hP p List.mem_cons_self).src, this]

theorem finalElems_outAt (cfg : Pipeline.Cfg) (refs : Refs) (ps : List Piece2) (hP : ∀ p ∈ ps, Piece2At cfg refs p) :
    (finalElems ps).map (·.out) = ps.map (·.elem.out) := by
  induction ps with
  | nil => rfl
  | cons p r ih =>
    cases r with
    | nil => simp [finalElems, (hP p List.mem_cons_self).out]
    | cons q r' =>
      have := ih (fun x hx => hP x (List.mem_cons_of_mem _ hx))
      simp only [List.map_cons] at this
      simp [finalElems, this]

theorem finalElems_okAt (cfg : Pipeline.Cfg) (refs : Refs) (ps : List Piece2) (hP : ∀ p ∈ ps, Piece2At cfg refs p) :
    ∀ e ∈ finalElems ps, ElemOK { esc := cfg.esc, refs := refs } e := by
  induction ps with
  | nil => intro e he; simp [finalElems] at he
  | cons p r ih =>
    cases r with
    | nil =>
      intro e he
      have : e = p.elemLast := by simpa [finalElems] using he
      subst this; exact (hP p List.mem_cons_self).eokLast
    | cons q r' =>
      intro e he
      simp only [finalElems, List.mem_cons] at he
      rcases he with rfl | he
      · exact (hP p List.mem_cons_self).eok
      · exact ih (fun x hx => hP x (List.mem_cons_of_mem _ hx)) e (by simpa [finalElems] using he)

theorem lineSafe_def {tab : Nat} {d : DefSpec} (h : d.ok tab = true) :
    ∀ l ∈ defLinesOf d, lineSafe l = true ∧ '<' ∉ l ∧ CodeLaw.refsClosed l = true := by
  obtain ⟨_, hp, hc⟩ := defLinesOf_facts h
  intro l hl
  have hch : ∀ c ∈ l, docCh c = true := fun c hc' =>
    List.all_eq_true.1 hc c (mem_joinLines_of_mem' hc' hl)
  have hnl := (hp l hl).noNl
  refine ⟨?_, fun hm => absurd (hch _ hm) (by decide), CodeLaw.refsClosed_of_no_amp l (fun hm => absurd (hch _ hm) (by decide))⟩
  obtain ⟨n, c, r, e, hpc, _⟩ := (hp l hl).ex
  simp only [lineSafe, Bool.and_eq_true, List.all_eq_true, Bool.or_eq_true, bne_iff_ne, ne_eq, List.any_eq_true]
  refine ⟨fun x hx => ?_, Or.inr ⟨c, by rw [e]; simp, ?_⟩⟩
  · have h1 := hch x hx
    have h2 := List.all_eq_true.1 hnl x hx
    simp only [docCh, Bool.and_eq_true, bne_iff_ne, ne_eq] at h1
    simp only [notNl, bne_iff_ne, ne_eq] at h2
    exact ⟨⟨⟨⟨h2, h1.1.1.1.2⟩, h1.1.1.2⟩, h1.2⟩, h1.1.2⟩
  · intro e'; subst e'; simp [Block.plainCh] at hpc

/-- **`Markdown.convert` on a document of pieces and reference definitions** in any order, separated by blank lines:
    the outputs of the pieces, one per line; every piece is rendered with the references of ALL the definitions of the
    document (in `md.references` order: the last definition of a key first) -/
theorem convert_items (cfg : Pipeline.Cfg) (hbl : cfg.blockLevel = TreeProc.defaultBlockLevel)
    (hfmt : cfg.fmt = .xhtml) (is : List DItem) (hne : blksOf is ≠ [])
    (hD : ∀ d ∈ dfnsOf is, d.ok cfg.tab = true)
    (hP : ∀ p ∈ blksOf is, Piece2At cfg (((dfnsOf is).map DefSpec.entry).reverse) p)
    (hadj : noCodeAfterCode ((blksOf is).map (·.b))) :
    Pipeline.convert cfg (joinLines (flatLines (is.map DItem.lines))) =
      .ok (joinOutS ((blksOf is).map (·.elem.out))) := by
  have hine : is ≠ [] := by intro e; rw [e] at hne; exact hne rfl
  have hgne : ∀ g ∈ is.map DItem.lines, g ≠ [] := by
    intro g hg; obtain ⟨x, hx, rfl⟩ := List.mem_map.1 hg
    cases x with
    | blk p => exact (hP p (mem_blksOf.2 hx)).bok.ne
    | dfn d => exact (defLinesOf_facts (hD d (mem_dfnsOf.2 hx))).1
  have hlines : ∀ l ∈ flatLines (is.map DItem.lines), lineSafe l = true ∧ '<' ∉ l ∧ CodeLaw.refsClosed l = true := by
    intro l hl
    rcases mem_flatLines hl with rfl | ⟨g, hg, hlg⟩
    · exact ⟨by decide, by simp, rfl⟩
    · obtain ⟨x, hx, rfl⟩ := List.mem_map.1 hg
      cases x with
      | blk p => exact (hP p (mem_blksOf.2 hx)).safe l hlg
      | dfn d => exact lineSafe_def (hD d (mem_dfnsOf.2 hx)) l hlg
  have hfl : flatLines (is.map DItem.lines) ≠ [] := by
    obtain ⟨x, r, rfl⟩ : ∃ x r, is = x :: r := by
      cases is with
      | nil => exact absurd rfl hine
      | cons x r => exact ⟨x, r, rfl⟩
    have := hgne x.lines (by simp)
    cases r with
    | nil => simpa [flatLines] using this
    | cons a b => simp [flatLines, this]
  generalize hsrc : joinLines (flatLines (is.map DItem.lines)) = src
  have hchunks : src = joinChunks (is.map (fun x => joinLines x.lines)) := by
    rw [← hsrc, joinLines_flatLines _ hgne, List.map_map]; rfl
  have hlt : ∀ c ∈ src, c ≠ '<' := by
    intro c hc
    rw [← hsrc] at hc
    rcases DocParse.mem_joinLines hc with rfl | ⟨l, hl, hcl⟩
    · decide
    · exact fun e => (hlines l hl).2.1 (e ▸ hcl)
  have h1 : src.contains '<' = false := by
    cases hc : src.contains '<' with
    | false => rfl
    | true => exact absurd rfl (hlt _ (List.contains_iff_mem.1 hc))
  have h2 : Normalize.isBlankDoc src = false := by
    rw [Normalize.isBlankDoc_eq_all]
    obtain ⟨p, hp⟩ : ∃ p, p ∈ blksOf is := by
      cases hb : blksOf is with
      | nil => exact absurd hb hne
      | cons p r => exact ⟨p, by simp⟩
    obtain ⟨c, hc, hcs⟩ := (hP p hp).vis
    have hmem : c ∈ src := by
      rw [← hsrc]
      rcases DocParse.mem_joinLines hc with rfl | ⟨l, hl, hcl⟩
      · simp [isSpace] at hcs
      · apply mem_joinLines_of_mem' hcl
        have : ∀ (gs : List (List Str)), p.b.g ∈ gs → l ∈ flatLines gs := by
          intro gs
          induction gs with
          | nil => intro h; cases h
          | cons g r ih =>
            intro hm
            cases r with
            | nil =>
              have : p.b.g = g := by simpa using hm
              subst this; simpa [flatLines] using hl
            | cons g' r' =>
              simp only [flatLines, List.mem_append, List.mem_singleton]
              rcases List.mem_cons.1 hm with rfl | hm
              · exact Or.inl (Or.inl hl)
              · exact Or.inr (ih hm)
        exact this _ (List.mem_map.2 ⟨DItem.blk p, mem_blksOf.1 hp, rfl⟩)
    cases hall : src.all isSpace with
    | false => rfl
    | true =>
      have := List.all_eq_true.1 hall c hmem
      rw [hcs] at this; cases this
  have h3 : Pipeline.prepare cfg src = src ++ ['\n', '\n'] := by
    rw [Pipeline.prepare, ← hsrc, normalize_lines cfg.tab _ hfl (fun l hl => (hlines l hl).1)]
    exact CodeLaw.extract_id _ (refsClosed_lines _ (fun l hl => (hlines l hl).2.2))
  have h4 := parseDocument_items cfg.tab is hne (fun p hp => (hP p hp).bok) hD hadj
  rw [← hchunks, ← finalElems_srcAt cfg _ (blksOf is) hP] at h4
  have h5 := render_elems cfg hbl hfmt (((dfnsOf is).map DefSpec.entry).reverse) (finalElems (blksOf is))
    (finalElems_ne _ hne) (finalElems_okAt cfg _ _ hP)
  rw [finalElems_outAt cfg _ _ hP] at h5
  rw [Probe.convert_eq_render]
  simp only [h1, h2, Bool.false_eq_true, if_false, h3, h4, h5]

end MdVerif.RefText
