/-
Lemmas for C05 on the extension model, output level with fenced_code, part 4: the end of `convertX`
(`PipelineX.finishX`) on a well-formed document tree whose HTML stash is `fenced ++ ents` — entries of
`FencedBlockPreprocessor` followed by entity references.

* `mpass_sub`: the raw-HTML restore on such a stash is an `MPass`;
* `pass_comp`, `mpass_replace`: … and so is a pass followed by one of the replacements of `FootnotePostprocessor`;
* `finishX_reads_fenced`: the statement — the output exists, is accepted by the strict reader and lies in the
  vocabulary, provided no attribute value holds the placeholder of a fenced entry (`NoFencedInAttrs`) and the
  serialisation holds no ampersand substitute.

Core Lean only.
-/
import MdVerif.Lemmas.VocabXWFFenceTree

namespace MdVerif.VocabXFence
open Py Ser Vocab2 VocabXOut PipelineX
open MdVerif.NoCtl
open BlockExt (allNodes allKids)

/-! ### the raw-HTML restore -/

/-- the stash with the fenced entries replaced by harmless entity references -/
def dummies (fenced : List Str) : List Str := fenced.map (fun _ => "&amp;".toList)

theorem allEnt_dummies {fenced ents : List Str} (he : AllEnt ents) : AllEnt (dummies fenced ++ ents) := by
  intro e hm
  rcases List.mem_append.1 hm with h | h
  · simp only [dummies, List.mem_map] at h
    obtain ⟨_, _, rfl⟩ := h
    decide
  · exact he e h

theorem mpass_sub (bl : List Str) {fenced ents : List Str} (hf : ∀ e ∈ fenced, FEntry e) (he : AllEnt ents) :
    MPass fenced.length (Post.subPass bl (fenced ++ ents) 0) (Post.subPass bl (dummies fenced ++ ents) 0) where
  nil := rfl
  copy := fun c s h1 h2 => f_copy bl _ c s h1 h2
  lt := fun s hs => f_lt bl _ s hs
  app := fun A Y hA hY => f_app bl _ A Y hA hY
  para := by
    intro ds hds
    have hm := mixStash_append hf he
    rcases pOut_mix bl hm ds with hp | ⟨e, hfe, _, hp⟩
    · left
      intro rest
      rw [f_para bl _ hds rest, hp]
      have := sub_ph bl (fenced ++ ents) hds []
      rw [List.append_nil, sub_nil, List.append_nil] at this
      rw [this]
      simp [List.append_assoc]
    · right
      exact ⟨e, hfe, fun rest => by rw [f_para bl _ hds rest, hp]⟩
  text := fun S hS => f_text bl (mixStash_append hf he) S hS
  d4 := fun Y hY => f_d4 bl (mixStash_append hf he) hY
  pass := pass_sub bl (allEnt_dummies he)
  agree := fun X hX hF => f_agree bl (by simp [dummies]) X hX hF

/-! ### a pass followed by a replacement -/

theorem pass_d4 {f : Str → Str} (hf : Pass f) {Y : Str} (hY : D4 Y) : D4 (f Y) := by
  cases Y with
  | nil => rw [hf.nil]; exact d4_nil
  | cons d r =>
    have hd := hY d rfl
    have hne : d ≠ STX := by rcases hd with h | h | h | h <;> rw [h] <;> decide
    rw [hf.copy d r hne]
    exact d4_cons hd _

theorem pass_comp {f g : Str → Str} (hf : Pass f) (hg : Pass g) : Pass (fun s => g (f s)) where
  nil := by simp only [hf.nil, hg.nil]
  copy := fun c s hc => by simp only [hf.copy c s hc, hg.copy c _ hc]
  app := fun A Y hY => by simp only [hf.app A Y hY, hg.app _ _ (pass_d4 hf hY)]
  fixC := fun s => by
    show escCdata (g (f (escCdata s))) = g (f (escCdata s))
    rw [← hf.fixC s, hg.fixC]
  fixA := fun v => by
    show escAttrHtml (g (f (escAttrHtml v))) = g (f (escAttrHtml v))
    rw [← hf.fixA v, hg.fixA]
  eqPlain := fun X K hK h1 h2 => hf.eqPlain X K (hg.eqPlain _ K hK h1 h2) h1 h2

theorem rep_d4 {pat by' : Str} (hr : RepOK pat by') {Y : Str} (hY : D4 Y) : D4 (replace Y pat by') :=
  pass_d4 (pass_replace hr) hY

theorem mpass_replace {n : Nat} {h f' : Str → Str} (hp : MPass n h f') {pat by' : Str} (hr : RepOK pat by') :
    MPass n (fun s => replace (h s) pat by') (fun s => replace (f' s) pat by') where
  nil := by simp [hp.nil]
  copy := fun c s h1 h2 => by simp only [hp.copy c s h1 h2, rep_copy hr c _ h1]
  lt := fun s hs => by simp only [hp.lt s hs, rep_copy hr '<' _ (by decide)]
  app := fun A Y hA hY => by simp only [hp.app A Y hA hY, rep_app hr _ _ (hp.d4 Y hY)]
  para := by
    intro ds hds
    rcases hp.para ds hds with e | ⟨x, hx, e⟩
    · left
      intro rest
      simp only [e]
      have e1 : '<' :: 'p' :: '>' :: (h (phStr ds) ++ '<' :: '/' :: 'p' :: '>' :: h rest) =
          ['<', 'p', '>'] ++ (h (phStr ds) ++ ['<', '/', 'p', '>'] ++ h rest) := by simp
      have hd : D4 (['<', '/', 'p', '>'] ++ h rest) := d4_cons (Or.inl rfl) _
      rw [e1, rep_plain hr _ _ (by decide), List.append_assoc,
        rep_app hr (h (phStr ds)) _ hd, rep_plain hr ['<', '/', 'p', '>'] _ (by decide)]
      simp
    · right
      exact ⟨x, hx, fun rest => by simp only [e]; exact rep_plain hr x _ (fentry_noSTX hx)⟩
  text := fun S hS => tfrag_replace hr (hp.text S hS)
  d4 := fun Y hY => rep_d4 hr (hp.d4 Y hY)
  pass := pass_comp hp.pass (pass_replace hr)
  agree := fun X hX hF => by simp only [hp.agree X hX hF]

/-! ### the end of `convertX` -/

section Final
variable {tagOk keyOk : Str → Bool}

/-- **`finishX` on a document tree whose stash holds fenced-code entries and entity references**: the output exists,
    is accepted by the strict reader, and what is read lies in the vocabulary.  A fenced placeholder may stand
    anywhere in a text or a tail (the `<pre>` element then sits in that element); it must not stand in an attribute
    value (`NoFencedInAttrs`) -/
theorem finishX_reads_fenced (x : Exts) (cfg : Pipeline.Cfg) {fenced ents : List Str}
    (hf : ∀ e ∈ fenced, FEntry e) (he : AllEnt ents) (u : Node)
    (hd : C14X.rootDiv u = true) (hk : GNL u.children = true)
    (hq : allKids (qtOf tagOk keyOk) u.children = true)
    (hvoc : tagOk "pre".toList = true ∧ tagOk "code".toList = true ∧ keyOk "class".toList = true ∧
      keyOk "id".toList = true)
    (hattr : NoFencedInAttrs fenced.length u)
    (hamp : contains (inner cfg.fmt u) Post.ampSubstitute = false) :
    ∃ out forest, finishX x cfg (fenced ++ ents) (serialize cfg.fmt u) = .ok out ∧
      readForest cfg.fmt out = some forest ∧ RXL tagOk keyOk forest = true := by
  obtain ⟨e1, _⟩ := C14X.strip_inner' cfg.fmt u (gnl_wf _ hk).1 (gnl_wf _ hk).2
  obtain ⟨hk1, hq1⟩ := trimRoot_kids u hk hq
  obtain ⟨_, hn1⟩ := trimRoot_kids u hk (qt := noFq fenced.length) hattr
  have hm := mixStash_append hf he
  have hp1 := mpass_sub cfg.blockLevel hf he
  have ht0 : Trimmed (strip (inner cfg.fmt u)) := trimmed_strip _
  have ha0 : contains (strip (inner cfg.fmt u)) Post.ampSubstitute = false := contains_infix hamp (strip_infix _)
  have ha1 := f_no_amp cfg.blockLevel hm _ _ (Nat.le_refl _) ha0
  have ht1 := (tokSub_f cfg.blockLevel hm).trimmed ht0
  unfold finishX
  rw [C14X.topLevelStrip_div _ u hd]
  simp only [postX, rawHtml_mix cfg.blockLevel hm, Option.map_some]
  by_cases hfn : x.footnotes = true
  · simp only [hfn, if_true, postprocess_eq]
    have hp2 := mpass_replace hp1 repOK_backlink
    have hp3 := mpass_replace hp2 repOK_nbsp
    have ha2 := rep_no_amp repOK_backlink (by decide) _ _ (Nat.le_refl _) ha1
    have ha3 := rep_no_amp repOK_nbsp (by decide) _ _ (Nat.le_refl _) ha2
    have ht2 := (tokSub_replace repOK_backlink).trimmed ht1
    have ht3 := (tokSub_replace repOK_nbsp).trimmed ht2
    have hr := mp_inner hp3 cfg.fmt hvoc (trimRoot u) hk1 hq1 hn1
    simp only [← e1] at hr
    obtain ⟨forest, h6, h7⟩ := hr.forest
    have h5 : Post.ampSub (replace (replace (Post.subPass cfg.blockLevel (fenced ++ ents) 0 (strip (inner cfg.fmt u)))
        FootnotesTree.fnBacklinkText "&#8617;".toList) FootnotesTree.nbspPlaceholder "&#160;".toList) = _ :=
      replace_id_of_not_contains _ ha3
    rw [h5, ht3.strip_eq]
    exact ⟨_, forest, rfl, h6, h7⟩
  · simp only [hfn, Bool.false_eq_true, if_false]
    have hr := mp_inner hp1 cfg.fmt hvoc (trimRoot u) hk1 hq1 hn1
    simp only [← e1] at hr
    obtain ⟨forest, h6, h7⟩ := hr.forest
    have h5 : Post.ampSub (Post.subPass cfg.blockLevel (fenced ++ ents) 0 (strip (inner cfg.fmt u))) = _ :=
      replace_id_of_not_contains _ ha1
    rw [h5, ht1.strip_eq]
    exact ⟨_, forest, rfl, h6, h7⟩

/-- without any hypothesis on the ampersand substitute: the output is `AndSubstitutePostprocessor` + `strip` applied
    to a well-formed fragment of the vocabulary -/
theorem finishX_shape_fenced (x : Exts) (cfg : Pipeline.Cfg) {fenced ents : List Str}
    (hf : ∀ e ∈ fenced, FEntry e) (he : AllEnt ents) (u : Node)
    (hd : C14X.rootDiv u = true) (hk : GNL u.children = true)
    (hq : allKids (qtOf tagOk keyOk) u.children = true)
    (hvoc : tagOk "pre".toList = true ∧ tagOk "code".toList = true ∧ keyOk "class".toList = true ∧
      keyOk "id".toList = true)
    (hattr : NoFencedInAttrs fenced.length u) :
    ∃ X forest, finishX x cfg (fenced ++ ents) (serialize cfg.fmt u) = .ok (strip (Post.ampSub X)) ∧
      readForest cfg.fmt X = some forest ∧ RXL tagOk keyOk forest = true := by
  obtain ⟨e1, _⟩ := C14X.strip_inner' cfg.fmt u (gnl_wf _ hk).1 (gnl_wf _ hk).2
  obtain ⟨hk1, hq1⟩ := trimRoot_kids u hk hq
  obtain ⟨_, hn1⟩ := trimRoot_kids u hk (qt := noFq fenced.length) hattr
  have hm := mixStash_append hf he
  have hp1 := mpass_sub cfg.blockLevel hf he
  unfold finishX
  rw [C14X.topLevelStrip_div _ u hd]
  simp only [postX, rawHtml_mix cfg.blockLevel hm, Option.map_some]
  by_cases hfn : x.footnotes = true
  · simp only [hfn, if_true, postprocess_eq]
    have hp3 := mpass_replace (mpass_replace hp1 repOK_backlink) repOK_nbsp
    have hr := mp_inner hp3 cfg.fmt hvoc (trimRoot u) hk1 hq1 hn1
    simp only [← e1] at hr
    obtain ⟨forest, h6, h7⟩ := hr.forest
    exact ⟨_, forest, rfl, h6, h7⟩
  · simp only [hfn, Bool.false_eq_true, if_false]
    have hr := mp_inner hp1 cfg.fmt hvoc (trimRoot u) hk1 hq1 hn1
    simp only [← e1] at hr
    obtain ⟨forest, h6, h7⟩ := hr.forest
    exact ⟨_, forest, rfl, h6, h7⟩

/-! ### the vocabulary of the output may be larger than that of the tree -/

mutual
theorem allNodes_qtOf_mono {tagOk' keyOk' : Str → Bool} (ht : ∀ t, tagOk t = true → tagOk' t = true)
    (hk : ∀ k, keyOk k = true → keyOk' k = true) :
    (n : Node) → allNodes (qtOf tagOk keyOk) n = true → allNodes (qtOf tagOk' keyOk') n = true
  | ⟨tag, attrs, text, ta, children, tail, tla⟩, h => by
    simp only [allNodes, Bool.and_eq_true] at h ⊢
    refine ⟨?_, allKids_qtOf_mono ht hk children h.2⟩
    cases tag with
    | name t =>
      have h1 := h.1
      simp only [qtOf, Bool.and_eq_true, List.all_eq_true] at h1 ⊢
      exact ⟨ht t h1.1, fun kv hkv => hk _ (h1.2 kv hkv)⟩
    | comment => simp [qtOf] at h
    | pi => simp [qtOf] at h
    | none => simp [qtOf] at h
    | qname q => simp [qtOf] at h
theorem allKids_qtOf_mono {tagOk' keyOk' : Str → Bool} (ht : ∀ t, tagOk t = true → tagOk' t = true)
    (hk : ∀ k, keyOk k = true → keyOk' k = true) :
    (l : List Node) → allKids (qtOf tagOk keyOk) l = true → allKids (qtOf tagOk' keyOk') l = true
  | [], _ => rfl
  | c :: r, h => by
    simp only [allKids, Bool.and_eq_true] at h ⊢
    exact ⟨allNodes_qtOf_mono ht hk c h.1, allKids_qtOf_mono ht hk r h.2⟩
end

/-- the vocabulary of the tree enlarged by what the fenced entries bring: `pre`, `code`, `class`, `id` -/
def tagOkF (tagOk : Str → Bool) (t : Str) : Bool := tagOk t || t = "pre".toList || t = "code".toList
def keyOkF (keyOk : Str → Bool) (k : Str) : Bool := keyOk k || k = "class".toList || k = "id".toList

/-- **`finishX_reads_fenced` with the tree in ANY vocabulary**: the output lies in that vocabulary enlarged by the
    elements `pre`, `code` and the attribute names `class`, `id` of the fenced entries -/
theorem finishX_reads_fencedF (x : Exts) (cfg : Pipeline.Cfg) {fenced ents : List Str}
    (hf : ∀ e ∈ fenced, FEntry e) (he : AllEnt ents) (u : Node)
    (hd : C14X.rootDiv u = true) (hk : GNL u.children = true)
    (hq : allKids (qtOf tagOk keyOk) u.children = true)
    (hattr : NoFencedInAttrs fenced.length u)
    (hamp : contains (inner cfg.fmt u) Post.ampSubstitute = false) :
    ∃ out forest, finishX x cfg (fenced ++ ents) (serialize cfg.fmt u) = .ok out ∧
      readForest cfg.fmt out = some forest ∧ RXL (tagOkF tagOk) (keyOkF keyOk) forest = true :=
  finishX_reads_fenced x cfg hf he u hd hk
    (allKids_qtOf_mono (fun t h => by simp [tagOkF, h]) (fun k h => by simp [keyOkF, h]) _ hq)
    ⟨by simp [tagOkF], by simp [tagOkF], by simp [keyOkF], by simp [keyOkF]⟩ hattr hamp

theorem finishX_shape_fencedF (x : Exts) (cfg : Pipeline.Cfg) {fenced ents : List Str}
    (hf : ∀ e ∈ fenced, FEntry e) (he : AllEnt ents) (u : Node)
    (hd : C14X.rootDiv u = true) (hk : GNL u.children = true)
    (hq : allKids (qtOf tagOk keyOk) u.children = true)
    (hattr : NoFencedInAttrs fenced.length u) :
    ∃ X forest, finishX x cfg (fenced ++ ents) (serialize cfg.fmt u) = .ok (strip (Post.ampSub X)) ∧
      readForest cfg.fmt X = some forest ∧ RXL (tagOkF tagOk) (keyOkF keyOk) forest = true :=
  finishX_shape_fenced x cfg hf he u hd hk
    (allKids_qtOf_mono (fun t h => by simp [tagOkF, h]) (fun k h => by simp [keyOkF, h]) _ hq)
    ⟨by simp [tagOkF], by simp [tagOkF], by simp [keyOkF], by simp [keyOkF]⟩ hattr

end Final

/-! ### the hypotheses on a concrete document, and why attribute values are excluded -/

section Examples
open Pipeline

/-- an entry with `id`, a class and a language, whose code holds `<`, an entity reference and a quotation mark -/
def exEntry : Str := Fenced.blockHtmlA "i".toList ["c".toList] "py".toList "x<y &amp; \"".toList

/-- placeholder 0 (the fenced entry) as a whole paragraph, inside a paragraph next to placeholder 1 (an entity
    reference), in a list item and in a tail -/
def exTree : Node :=
  { tag := .name "div".toList, children := [
      { tag := .name "p".toList, text := some (Fenced.placeholder 0), tail := some "\n".toList },
      { tag := .name "p".toList,
        text := some ("a ".toList ++ Fenced.placeholder 0 ++ " b &amp; ".toList ++ Fenced.placeholder 1),
        tail := some "\n".toList },
      { tag := .name "ul".toList, children := [{ tag := .name "li".toList, text := some (Fenced.placeholder 0) }],
        tail := some (Fenced.placeholder 0) },
      { tag := .name "hr".toList } ] }

example : FEntry exEntry := ⟨⟨_, _, _, _, rfl⟩, by decide⟩
example : AllEnt ["&amp;".toList] := by intro e he; simp only [List.mem_singleton] at he; subst he; decide
example : C14X.rootDiv exTree = true ∧ GNL exTree.children = true ∧
    allKids (qtOf (VocabX.tagOkX {}) (VocabX.keyOkX {})) exTree.children = true := by decide
example : NoFencedInAttrs 1 exTree := by decide
example : contains (inner .xhtml exTree) Post.ampSubstitute = false := by decide +kernel

/-- the theorem on this document -/
example : ∃ out forest, finishX {} {} ([exEntry] ++ ["&amp;".toList]) (serialize .xhtml exTree) = .ok out ∧
    readForest .xhtml out = some forest ∧
    RXL (tagOkF (VocabX.tagOkX {})) (keyOkF (VocabX.keyOkX {})) forest = true :=
  finishX_reads_fencedF {} {} (fenced := [exEntry]) (ents := ["&amp;".toList])
    (by intro e he; simp only [List.mem_singleton] at he; subst he; exact ⟨⟨_, _, _, _, rfl⟩, by decide⟩)
    (by intro e he; simp only [List.mem_singleton] at he; subst he; decide)
    exTree (by decide) (by decide) (by decide) (by decide) (by decide +kernel)

/-- the placeholder of the fenced entry in an attribute value: `NoFencedInAttrs` fails … -/
def exBad : Node :=
  { tag := .name "div".toList, children := [
      { tag := .name "p".toList, attrs := [("title".toList, Fenced.placeholder 0)], text := some "x".toList } ] }

example : ¬ NoFencedInAttrs 1 exBad := by decide
example : GNL exBad.children = true ∧
    allKids (qtOf (VocabX.tagOkX {}) (VocabX.keyOkX {})) exBad.children = true := by decide

/-- … and the output (`<p title="<pre id="i" …>…</pre>">x</p>`) is NOT accepted by the strict reader: the hypothesis
    is needed -/
example : (match finishX {} {} ([exEntry] ++ ["&amp;".toList]) (serialize .xhtml exBad) with
    | .ok out => (readForest .xhtml out).isSome
    | _ => true) = false := by decide +kernel

end Examples

end MdVerif.VocabXFence
