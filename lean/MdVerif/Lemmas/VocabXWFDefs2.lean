/-
Lemmas for C05 on the extension model, well-formedness part 0b: the auxiliary invariant `PL` that the footnote
machinery needs.  `FootnotePostTreeprocessor` (`FootnotesTree.dupLi`) appends the copies of a back-link to THE LAST
CHILD of a footnote `li` (`list(li)[-1]`), whatever it is; that this is not a void element is a property of the
elements with an `id` attribute (before `toc` and `attr_list` run these are the footnote `li`s and the `sup`s of the
references only): their last child, if any, is not void and has no truthy tail (so that the inline stage, which
inserts the elements of a tail AFTER the child, leaves it the last child).

Core Lean only.
-/
import MdVerif.Lemmas.VocabXWFDefs

namespace MdVerif.VocabXWF
open Py

/-- the element has an `id` attribute -/
def hasId (n : Node) : Bool := n.attrs.any (fun kv => kv.1 = "id".toList)

/-- an element with an `id` attribute: its last child (if any) is not void and has no truthy tail -/
def PL (n : Node) : Prop :=
  hasId n = true → ∀ l, n.last? = some l → voidT l.tag = false ∧ Node.truthy l.tail = false

/-- `PL` at every element of the tree -/
def PLF (n : Node) : Prop := n.Forall PL

theorem PLF_iff (n : Node) : PLF n ↔ PL n ∧ ∀ c ∈ n.children, PLF c := Node.forall_iff PL n

theorem PLF.pl {n : Node} (h : PLF n) : PL n := ((PLF_iff n).1 h).1
theorem PLF.kids {n : Node} (h : PLF n) : ∀ c ∈ n.children, PLF c := ((PLF_iff n).1 h).2

/-- no element of the tree has an `id` attribute (as a `BlockExt.NI` predicate) -/
def noIdQ (_ : Tag) (attrs : List (Str × Str)) : Bool := !attrs.any (fun kv => kv.1 = "id".toList)

mutual
theorem PLF_of_noId : ∀ (n : Node), BlockExt.NI noIdQ n → PLF n
  | ⟨tag, attrs, text, ta, children, tail, tla⟩, h => by
    rw [BlockExt.NI_iff] at h
    rw [PLF_iff]
    refine ⟨?_, PLF_of_noIdL children h.2⟩
    intro hid
    have := h.1
    simp only [noIdQ, Bool.not_eq_true'] at this
    simp only [hasId] at hid
    rw [this] at hid; cases hid
theorem PLF_of_noIdL : ∀ (l : List Node), (∀ c ∈ l, BlockExt.NI noIdQ c) → ∀ c ∈ l, PLF c
  | [], _, c, hc => by cases hc
  | a :: r, h, x, hx => by
    simp only [List.mem_cons] at hx
    rcases hx with rfl | hx
    · exact PLF_of_noId _ (h _ (by simp))
    · exact PLF_of_noIdL r (fun y hy => h y (by simp [hy])) x hx
end

end MdVerif.VocabXWF
