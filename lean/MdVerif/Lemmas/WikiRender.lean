/-
Helper lemmas for `C16_wikilink_renders` (`Props/C16RenderWiki.lean`): a paragraph `pre[[label]]post` through the
extension pipeline with `wikilinks`.  Core Lean only.
-/
import MdVerif.Model.PipelineX
import MdVerif.Spec.WikiDoc
import MdVerif.Lemmas.InlineRef
import MdVerif.Lemmas.InlineRefForms
import MdVerif.Lemmas.InlineX
import MdVerif.Lemmas.PipelineX
import MdVerif.Lemmas.BlockExt
import MdVerif.Lemmas.SerializerEsc

namespace MdVerif.WikiDoc
open Py Inline InlineX InlineRef

/-! ### the core link patterns on `pre[[label]]post` -/

theorem getTextLoop_skip (text rest : Str) (bc idx : Nat) (acc : Str) (hbc : bc ≠ 0) (h1 : '[' ∉ text)
    (h2 : ']' ∉ text) :
    getTextLoop (text ++ rest) bc idx acc = getTextLoop rest bc (idx + text.length) (text.reverse ++ acc) := by
  induction text generalizing idx acc with
  | nil => simp
  | cons c r ih =>
    have c1 : c ≠ '[' := fun e => h1 (e ▸ List.mem_cons_self)
    have c2 : c ≠ ']' := fun e => h2 (e ▸ List.mem_cons_self)
    simp only [List.cons_append, getTextLoop, c1, c2, if_false, hbc]
    rw [ih (idx + 1) (c :: acc) (fun hh => h1 (List.mem_cons_of_mem _ hh)) (fun hh => h2 (List.mem_cons_of_mem _ hh))]
    simp only [List.length_cons, List.reverse_cons, List.append_assoc, List.singleton_append]
    congr 1; omega

/-- `getText` from the first of two opening brackets: the text is `[label]` -/
theorem getText_outer (A label post : Str) (h1 : '[' ∉ label) (h2 : ']' ∉ label) :
    getText (A ++ '[' :: (label ++ ']' :: ']' :: post)) A.length =
      ('[' :: (label ++ [']']), A.length + label.length + 3, true) := by
  have hd : (A ++ '[' :: (label ++ ']' :: ']' :: post)).drop A.length = '[' :: (label ++ ']' :: ']' :: post) := by simp
  unfold getText
  rw [hd]
  simp only [getTextLoop, show ('[' : Char) ≠ ']' by decide, if_false, if_true, Nat.succ_ne_zero]
  rw [getTextLoop_skip label _ 2 _ _ (by omega) h1 h2]
  simp only [getTextLoop, if_true, Nat.add_one_sub_one, Nat.succ_ne_zero, if_false, Nat.sub_self]
  have e1 : (']' :: (label.reverse ++ ['['])).reverse = '[' :: (label ++ [']']) := by simp
  have e2 : A.length + 1 + label.length + 1 + 1 = A.length + label.length + 3 := by omega
  rw [e1, e2]


/-- `handleMatch` of the link patterns at the first bracket of `[[label]]post` -/
theorem linkHandle_outer (cfg : Inline.Cfg) (hrefs : cfg.refs = []) (stash : List StashItem) (A label post : Str)
    (m : Nat) (h1 : '[' ∉ label) (h2 : ']' ∉ label) (hp : '[' ∉ post) (hp2 : post.head? ≠ some '(') :
    linkHandle cfg stash 2 (A ++ '[' :: (label ++ ']' :: ']' :: post)) m A.length = none ∧
    linkHandle cfg stash 3 (A ++ '[' :: (label ++ ']' :: ']' :: post)) m A.length = none ∧
    linkHandle cfg stash 6 (A ++ '[' :: (label ++ ']' :: ']' :: post)) m A.length =
      some ⟨.none, m, ((A.length + label.length + 3 : Nat) : Int)⟩ := by
  have hg := getText_outer A label post h1 h2
  have hdrop : (A ++ '[' :: (label ++ ']' :: ']' :: post)).drop (A.length + label.length + 3) = post := by
    have : A ++ '[' :: (label ++ ']' :: ']' :: post) = (A ++ '[' :: (label ++ [']', ']'])) ++ post := by simp
    rw [this]; apply List.drop_left'; simp; omega
  have he := evalId_plain_none _ _ ('[' :: (label ++ [']'])) post hdrop hp
  have hidx : (A ++ '[' :: (label ++ ']' :: ']' :: post))[A.length + label.length + 3]? = post.head? := by
    have : A ++ '[' :: (label ++ ']' :: ']' :: post) = (A ++ '[' :: (label ++ [']', ']'])) ++ post := by simp
    rw [this, List.getElem?_append_right (by simp; omega)]
    have : A.length + label.length + 3 - (A ++ '[' :: (label ++ [']', ']'])).length = 0 := by simp; omega
    rw [this]; cases post <;> rfl
  have hne : ((A ++ '[' :: (label ++ ']' :: ']' :: post))[A.length + label.length + 3]? != some '(') = true := by
    rw [hidx]; simpa using hp2
  refine ⟨?_, ?_, ?_⟩
  · unfold linkHandle
    rw [hg]
    simp only [Bool.not_true, Bool.false_eq_true, if_false, Nat.reduceEqDiff, decide_false, Bool.or_self, he]
  · unfold linkHandle
    rw [hg]
    simp only [Bool.not_true, Bool.false_eq_true, if_false, decide_true, Bool.true_or, if_true, getLink, getLinkRaw,
      hne]
    simp
  · unfold linkHandle
    rw [hg]
    simp only [Bool.not_true, Bool.false_eq_true, if_false, Nat.reduceEqDiff, decide_false, Bool.or_self,
      decide_true, Bool.or_false, if_true, hrefs, List.find?_nil]

/-- characters of the three parts -/
structure Parts (pre label post : Str) : Prop where
  pre : PlainText pre = true
  post : PlainText post = true
  lab : ∀ c ∈ label, isAsciiAlnum c = true ∨ c = ' ' ∨ c = '-'

theorem Parts.lab_not_mem {pre label post : Str} (h : Parts pre label post) {x : Char}
    (hx : isAsciiAlnum x = false) (h1 : x ≠ ' ') (h2 : x ≠ '-') : x ∉ label := by
  intro hm
  rcases h.lab x hm with e | e | e
  · rw [e] at hx; cases hx
  · exact h1 e
  · exact h2 e

theorem printWiki_not_mem {pre label post : Str} (h : Parts pre label post) {x : Char} (hx : inlPlain x = false)
    (hd : x ≠ '-') (hb1 : x ≠ '[') (hb2 : x ≠ ']') : x ∉ printWiki pre label post := by
  have hal : isAsciiAlnum x = false := by
    cases ha : isAsciiAlnum x with
    | false => rfl
    | true => simp [inlPlain, ha] at hx
  have hsp : x ≠ ' ' := by intro e; subst e; exact absurd hx (by decide)
  simp only [printWiki, List.mem_append, List.mem_cons, not_or]
  exact ⟨plain_not_mem h.pre hx, hb1, hb1, h.lab_not_mem hal hsp hd, hb2, hb2, plain_not_mem h.post hx⟩

/-- the core link patterns on `pre[[label]]post` (no reference is defined): `reference` (2) and `link` (3) find
    nothing; `short_reference` (6) matches `[[label]]` as a reference to the undefined `[label]` — a match without a
    node, after which the search goes on behind it and finds nothing -/
theorem findMatch_wiki (cfg : Inline.Cfg) (hrefs : cfg.refs = []) (st : St) {pre label post : Str}
    (h : Parts pre label post) :
    findMatch cfg 2 (printWiki pre label post) 0 st = some (none, st) ∧
    findMatch cfg 3 (printWiki pre label post) 0 st = some (none, st) ∧
    findMatch cfg 6 (printWiki pre label post) 0 st =
      some (some ⟨.none, pre.length, ((pre.length + label.length + 4 : Nat) : Int)⟩, st) ∧
    findMatch cfg 6 (printWiki pre label post) (pre.length + label.length + 4) st = some (none, st) := by
  have l1 : '[' ∉ label := h.lab_not_mem (by decide) (by decide) (by decide)
  have l2 : ']' ∉ label := h.lab_not_mem (by decide) (by decide) (by decide)
  have p1 : '[' ∉ post := plain_not_mem h.post (by decide)
  have p2 : post.head? ≠ some '(' := plain_head_ne h.post (by decide)
  have hD1 : printWiki pre label post = (pre ++ ['[']) ++ '[' :: (label ++ ']' :: ']' :: post) := by
    simp [printWiki]
  have hD2 : printWiki pre label post = (pre ++ ['[', '[']) ++ label ++ ']' :: (']' :: post) := by
    simp [printWiki]
  have hD0 : printWiki pre label post = pre ++ '[' :: ('[' :: (label ++ ']' :: ']' :: post)) := rfl
  obtain ⟨o2, o3, o6⟩ := linkHandle_outer cfg hrefs st.stash (pre ++ ['[']) label post pre.length l1 l2 p1 p2
  rw [← hD1] at o2 o3 o6
  have hrest : '[' ∉ label ++ ']' :: ']' :: post := by
    simp only [List.mem_append, List.mem_cons, not_or]
    exact ⟨l1, by decide, by decide, p1⟩
  -- the scan: first bracket, then second bracket, then nothing
  have scan : ∀ pi, ¬ (pi = 4 ∨ pi = 5 ∨ pi = 7) →
      linkScan cfg st.stash pi (printWiki pre label post) none (printWiki pre label post) 0 =
        match linkHandle cfg st.stash pi (printWiki pre label post) pre.length (pre ++ ['[']).length with
        | some f => some f
        | none => linkHandle cfg st.stash pi (printWiki pre label post) (pre ++ ['[']).length (pre ++ ['[', '[']).length := by
    intro pi hni
    have s1 := linkScan_bracket cfg st.stash pi hni (printWiki pre label post) [] pre
      ('[' :: (label ++ ']' :: ']' :: post)) none
      (plain_not_mem h.pre (by decide)) (plain_not_mem h.pre (by decide)) (by simp)
    have s2 := linkScan_bracket cfg st.stash pi hni (printWiki pre label post) (pre ++ ['[']) []
      (label ++ ']' :: ']' :: post) (some '[') (by simp) (by simp) (by simp)
    have s3 : linkScan cfg st.stash pi (printWiki pre label post) (some '[') (label ++ ']' :: ']' :: post)
        (pre ++ ['['] ++ [] ++ ['[']).length = none := by
      apply linkScan_none; simp only [hni, if_false]; exact hrest
    rw [s3] at s2
    simp only [List.nil_append, List.append_nil, List.length_nil] at s1 s2
    rw [← hD0] at s1
    rw [s1, s2]
    have e : pre ++ ['['] ++ ['['] = pre ++ ['[', '['] := by simp
    rw [e]
    cases linkHandle cfg st.stash pi (printWiki pre label post) pre.length (pre ++ ['[']).length with
    | some f => rfl
    | none =>
      simp only
      cases linkHandle cfg st.stash pi (printWiki pre label post) (pre ++ ['[']).length (pre ++ ['[', '[']).length <;> rfl
  refine ⟨?_, ?_, ?_, ?_⟩
  · have := scan 2 (by decide)
    rw [o2] at this
    simp only at this
    rw [linkHandle_ref_reject' cfg st.stash 2 (Or.inl rfl) _ _ label (']' :: post) _ hD2 l1 l2
      (by simp only [List.mem_cons, not_or]; exact ⟨by decide, p1⟩)] at this
    unfold findMatch; simp [this]
  · have := scan 3 (by decide)
    rw [o3] at this
    simp only at this
    rw [linkHandle_link_reject cfg st.stash 3 (Or.inl rfl) _ _ label (']' :: post) _ hD2 l1 l2 (by simp)] at this
    unfold findMatch; simp [this]
  · have := scan 6 (by decide)
    rw [o6] at this
    unfold findMatch
    simp [this]; omega
  · apply findMatch_link_tail cfg 6 (Or.inr (Or.inr rfl))
    have : (printWiki pre label post).drop (pre.length + label.length + 4) = post := by
      have e : printWiki pre label post = (pre ++ '[' :: '[' :: (label ++ [']', ']'])) ++ post := by simp [printWiki]
      rw [e]; apply List.drop_left'; simp; omega
    rw [this]; exact p1


/-! ### the wiki-link pattern -/

theorem alnum_lt {c : Char} (h : isAsciiAlnum c = true) : c.toNat < 128 := by
  simp only [isAsciiAlnum, isAsciiAlpha, isAsciiLower, isAsciiUpper, isAsciiDigit, Bool.or_eq_true,
    Bool.and_eq_true, decide_eq_true_eq] at h
  rcases h with (h | h) | h
  · exact Nat.lt_of_le_of_lt (show c.toNat ≤ 'z'.toNat from h.2) (by decide)
  · exact Nat.lt_of_le_of_lt (show c.toNat ≤ 'Z'.toNat from h.2) (by decide)
  · exact Nat.lt_of_le_of_lt (show c.toNat ≤ '9'.toNat from h.2) (by decide)

theorem Parts.wiki {pre label post : Str} (h : Parts pre label post) : label.all isWikiChar = true := by
  apply List.all_eq_true.2
  intro c hc
  rcases h.lab c hc with e | e | e
  · simp [isWikiChar, isWord_of_isAsciiAlnum (alnum_lt e) e]
  · subst e; decide
  · subst e; decide

theorem wikiAt_ne (c : Char) (r : Str) (hc : c ≠ '[') : wikiAt (c :: r) = none := by
  unfold wikiAt
  split
  · rename_i r' heq
    exact absurd (List.cons.inj heq).1 hc
  · rfl

theorem wikiScan_none (s : Str) (h : '[' ∉ s) (i : Nat) : wikiScan s i = none := by
  induction s generalizing i with
  | nil => rfl
  | cons c r ih =>
    have hc : c ≠ '[' := fun e => h (e ▸ List.mem_cons_self)
    simp only [wikiScan, wikiAt_ne c r hc]
    exact ih (fun hh => h (List.mem_cons_of_mem _ hh)) _

theorem wikiAt_label (label post : Str) (hl : label.all isWikiChar = true) (hne : label ≠ []) :
    wikiAt ('[' :: '[' :: (label ++ ']' :: ']' :: post)) = some (label, label.length + 4) := by
  have hs : spanLen isWikiChar (label ++ ']' :: ']' :: post) = label.length := by
    rw [spanLen_append_of_all hl]
    have : isWikiChar ']' = false := by decide
    simp [spanLen_cons, this]
  have hpos : 0 < label.length := by cases label with | nil => exact absurd rfl hne | cons a b => simp
  have g1 : (label ++ ']' :: ']' :: post)[label.length]? = some ']' := by simp
  have g2 : (label ++ ']' :: ']' :: post)[label.length + 1]? = some ']' := by
    rw [List.getElem?_append_right (by omega)]; simp
  have ht : (label ++ ']' :: ']' :: post).take label.length = label := by simp
  simp only [wikiAt, hs, g1, g2, ht, beq_self_eq_true, Bool.and_true, decide_eq_true_eq, gt_iff_lt, hpos, if_true]

theorem wikiScan_at (pre label post : Str) (hpre : '[' ∉ pre) (hl : label.all isWikiChar = true) (hne : label ≠ [])
    (i : Nat) :
    wikiScan (printWiki pre label post) i = some (label, i + pre.length, i + pre.length + (label.length + 4)) := by
  induction pre generalizing i with
  | nil =>
    simp only [printWiki, List.nil_append, wikiScan, wikiAt_label label post hl hne, List.length_nil, Nat.add_zero]
  | cons c r ih =>
    have hc : c ≠ '[' := fun e => hpre (e ▸ List.mem_cons_self)
    have := ih (fun hh => hpre (List.mem_cons_of_mem _ hh)) (i + 1)
    simp only [printWiki, List.cons_append, wikiScan, wikiAt_ne c _ hc] at this ⊢
    rw [this]
    simp only [List.length_cons]
    have e : i + 1 + r.length = i + (r.length + 1) := by omega
    rw [e]

/-- the element `WikiLinksInlineProcessor.handleMatch` builds -/
def wikiEl (label : Str) : Node :=
  { tag := .name "a".toList, attrs := [("href".toList, wikiUrl label), ("class".toList, "wikilink".toList)],
    text := some label }

theorem singleSpaced_cons (c : Char) (r : Str) :
    singleSpaced (c :: r) = (!(c == ' ' && r.head? == some ' ') && singleSpaced r) := rfl

theorem cleanLabel_map (label : Str) (hu : '_' ∉ label) (hs : singleSpaced label = true) :
    cleanLabel 0 label = label.map (fun c => if c = ' ' then '_' else c) := by
  induction label with
  | nil => rfl
  | cons c r ih =>
    have hur : '_' ∉ r := fun hh => hu (List.mem_cons_of_mem _ hh)
    have hcu : c ≠ '_' := fun e => hu (e ▸ List.mem_cons_self)
    rw [singleSpaced_cons, Bool.and_eq_true] at hs
    obtain ⟨hs1, hs2⟩ := hs
    by_cases hc : c = ' '
    · subst hc
      have hh : r.head? ≠ some ' ' := by simpa using hs1
      have hsp : countPrefix ' ' none r = 0 := by
        cases r with
        | nil => rfl
        | cons d t =>
          have : d ≠ ' ' := by simpa using hh
          simp [countPrefix, this]
      have h0 : (r[0]? == some '_') = false := by
        cases r with
        | nil => rfl
        | cons d t =>
          have : d ≠ '_' := fun e => hur (e ▸ List.mem_cons_self)
          simpa using this
      simp only [cleanLabel, if_true, hsp, h0, Bool.false_eq_true, if_false, List.map_cons]
      rw [ih hur hs2]
    · simp only [cleanLabel, hc, hcu, if_false, List.map_cons]
      rw [ih hur hs2]

theorem labelOK_facts {label : Str} (h : LabelOK label = true) :
    label ≠ [] ∧ label.all labelCh = true ∧ label.head? ≠ some ' ' ∧ label.getLast? ≠ some ' ' ∧
      singleSpaced label = true := by
  simp only [LabelOK, Bool.and_eq_true, Bool.not_eq_true', bne_iff_ne, ne_eq] at h
  obtain ⟨⟨⟨⟨h1, h2⟩, h3⟩, h4⟩, h5⟩ := h
  refine ⟨?_, h2, h3, h4, h5⟩
  intro e; rw [e] at h1; cases h1

theorem labelCh_cases {c : Char} (h : labelCh c = true) : isAsciiAlnum c = true ∨ c = ' ' ∨ c = '-' := by
  simpa [labelCh, or_assoc] using h

theorem labelCh_space {c : Char} (h : labelCh c = true) (hs : isSpace c = true) : c = ' ' := by
  rcases labelCh_cases h with e | e | e
  · exfalso
    have hlt := alnum_lt e
    revert hs e
    exact RefDef.char_of_ascii (fun x => isSpace x = true → isAsciiAlnum x = true → False) (by decide) c hlt
  · exact e
  · subst e; exact absurd hs (by decide)


theorem labelOK_parts {pre label post : Str} (hpre : pre.all textCh = true) (hpost : post.all textCh = true)
    (hl : LabelOK label = true) : Parts pre label post :=
  ⟨hpre, hpost, fun c hc => labelCh_cases (List.all_eq_true.1 (labelOK_facts hl).2.1 c hc)⟩

theorem strip_label {label : Str} (hl : LabelOK label = true) : strip label = label := by
  obtain ⟨_, h2, h3, h4, _⟩ := labelOK_facts hl
  apply strip_eq_self
  · intro c hc
    cases hs : isSpace c with
    | false => rfl
    | true =>
      have hm : c ∈ label := List.mem_of_mem_head? hc
      have := labelCh_space (List.all_eq_true.1 h2 c hm) hs
      subst this; exact absurd hc h3
  · intro c hc
    cases hs : isSpace c with
    | false => rfl
    | true =>
      have hm : c ∈ label := List.mem_of_getLast? hc
      have := labelCh_space (List.all_eq_true.1 h2 c hm) hs
      subst this; exact absurd hc h4

/-- `handleMatch` of the wiki-link pattern on a well-formed label -/
theorem wikiNode_el {label : Str} (hl : LabelOK label = true) : wikiNode label = .el (wikiEl label) := by
  obtain ⟨hne, h2, _, _, h5⟩ := labelOK_facts hl
  have hu : '_' ∉ label := fun hm => absurd (List.all_eq_true.1 h2 _ hm) (by decide)
  have he : label.isEmpty = false := by cases label with | nil => exact absurd rfl hne | cons a b => rfl
  unfold wikiNode
  simp only [strip_label hl, he, Bool.false_eq_true, if_false, cleanLabel_map label hu h5]
  simp [Node.setAttr, mkEl, wikiEl, wikiUrl]

/-! ### the pattern loop over the table with `wikilinks` -/

theorem hiLoopX_step (count : Nat) (ap : Nat → Str → Nat → XSt → Option (Str × Bool × Nat × XSt)) (g : Nat)
    (data : Str) (pi si : Nat) (x : XSt) (hpi : pi < count) (d : Str) (m : Bool) (si' : Nat) (x' : XSt)
    (h : ap pi data si x = some (d, m, si', x')) :
    hiLoopX count ap (g + 1) data pi si x = hiLoopX count ap g d (if m then pi else pi + 1) si' x' := by
  simp [hiLoopX, hpi, h]

theorem hiLoopX_end (count : Nat) (ap : Nat → Str → Nat → XSt → Option (Str × Bool × Nat × XSt)) (g : Nat)
    (data : Str) (si : Nat) (x : XSt) : hiLoopX count ap (g + 1) data count si x = some (data, x) := by
  simp [hiLoopX]

theorem loopX_core_none (xc : XCfg) (hi : HIX) (n g : Nat) (D : Str) (pi i si : Nat) (x : XSt) (hlen : pi < n)
    (ht : xc.table[pi]? = some (.core i)) (h : findMatch xc.cfg i D si x.st = some (none, x.st)) :
    hiLoopX n (applyPatternX xc hi) (g + 1) D pi si x = hiLoopX n (applyPatternX xc hi) g D (pi + 1) 0 x := by
  have : applyPatternX xc hi pi D si x = some (D, false, 0, x) := by simp [applyPatternX, ht, findX, h]
  rw [hiLoopX_step _ _ _ _ pi si x hlen _ _ _ _ this]
  simp

theorem loopX_core_skip (xc : XCfg) (hi : HIX) (n g : Nat) (D : Str) (pi i si : Nat) (x : XSt) (hlen : pi < n)
    (ht : xc.table[pi]? = some (.core i)) (s e : Nat)
    (h : findMatch xc.cfg i D si x.st = some (some ⟨.none, s, (e : Nat)⟩, x.st)) :
    hiLoopX n (applyPatternX xc hi) (g + 1) D pi si x = hiLoopX n (applyPatternX xc hi) g D pi e x := by
  have : applyPatternX xc hi pi D si x = some (D, true, e, x) := by simp [applyPatternX, ht, findX, h]
  rw [hiLoopX_step _ _ _ _ pi si x hlen _ _ _ _ this]
  simp

/-- the table of `Markdown(extensions=['wikilinks'])`, no reference defined -/
structure WCfg (xc : XCfg) : Prop where
  tab : xc.table = InlineX.table false true false
  refs : xc.cfg.refs = []

theorem WCfg.len {xc : XCfg} (h : WCfg xc) : xc.table.length = 17 := by rw [h.tab]; rfl

theorem WCfg.core {xc : XCfg} (h : WCfg xc) (i : Nat) (hi : i < 13) : xc.table[i]? = some (.core i) := by
  rw [h.tab]
  have : i = 0 ∨ i = 1 ∨ i = 2 ∨ i = 3 ∨ i = 4 ∨ i = 5 ∨ i = 6 ∨ i = 7 ∨ i = 8 ∨ i = 9 ∨ i = 10 ∨ i = 11 ∨
    i = 12 := by omega
  rcases this with rfl | rfl | rfl | rfl | rfl | rfl | rfl | rfl | rfl | rfl | rfl | rfl | rfl <;> rfl

/-- the patterns after the wiki-link pattern (`not_strong`, `em_strong`, `em_strong2`) on quiet text -/
theorem loopX_quiet_tail (xc : XCfg) (hx : WCfg xc) (hi : HIX) (D : Str) (x : XSt) (hD : Quiet D) (g : Nat)
    (hg : 4 ≤ g) : hiLoopX 17 (applyPatternX xc hi) g D 14 0 x = some (D, x) := by
  obtain ⟨g, rfl⟩ : ∃ g', g = g' + 4 := ⟨g - 4, by omega⟩
  rw [loopX_core_none xc hi 17 _ D 14 13 0 x (by omega) (by rw [hx.tab]; rfl) (findMatch_quiet _ 13 (by omega) D _ hD),
    loopX_core_none xc hi 17 _ D 15 14 0 x (by omega) (by rw [hx.tab]; rfl) (findMatch_quiet _ 14 (by omega) D _ hD),
    loopX_core_none xc hi 17 _ D 16 15 0 x (by omega) (by rw [hx.tab]; rfl) (findMatch_quiet _ 15 (by omega) D _ hD)]
  exact hiLoopX_end 17 _ g D 0 x

theorem loopFuelX_ge (n : Nat) : 68 ≤ loopFuelX 17 n := by
  unfold loopFuelX
  have : 4 ≤ (n + 2) * (n + 2) := Nat.mul_le_mul (by omega : 2 ≤ n + 2) (by omega : 2 ≤ n + 2)
  rw [Nat.mul_assoc]
  omega

theorem handleInlineX_quiet_tail (xc : XCfg) (hx : WCfg xc) (f : Nat) (D : Str) (x : XSt) (hD : Quiet D) :
    handleInlineX xc (f + 1) D 14 x = some (D, x) := by
  simp only [handleInlineX, hx.len]
  exact loopX_quiet_tail xc hx _ D x hD _ (by have := loopFuelX_ge D.length; omega)

theorem applyPatternX_leaf (xc : XCfg) (hi : HIX) (pi : Nat) (k : PatK) (D : Str) (si : Nat) (x : XSt) (n : Node)
    (start stop : Nat) (ht : xc.table[pi]? = some k)
    (hf : findX xc k D si x = some (some ⟨.el n, start, (stop : Nat)⟩, x))
    (hc : n.children = []) (htl : n.tail = none) (hta : n.textAtomic = false)
    (hhi : ∀ t, n.text = some t → t ≠ [] → hi t (pi + 1) x = some (t, x)) :
    applyPatternX xc hi pi D si x =
      some (D.take start ++ placeholder x.st.stash.length ++ D.drop stop, true, 0,
        { x with st := { x.st with stash := x.st.stash ++ [.node n] } }) := by
  obtain ⟨tag, attrs, text, ta, children, tail, tla⟩ := n
  simp only at hc htl hta hhi
  subst hc htl hta
  have hr : hiOptX hi text false (pi + 1) x = some (text, x) := by
    unfold hiOptX
    cases text with
    | none => simp [Node.truthy]
    | some t =>
      cases t with
      | nil => simp [Node.truthy]
      | cons a b => simp [Node.truthy, hhi (a :: b) rfl (by simp)]
  have hr2 : ∀ b x', hiOptX hi none b pi x' = some (none, x') := by intro b x'; simp [hiOptX, Node.truthy]
  simp only [applyPatternX, ht, hf, Bool.and_false, Bool.false_eq_true, if_false, hiNodeX, hr, hr2, hiNodesX, stashX,
    stashNode, pyDrop_nat]

theorem printWiki_take (pre label post : Str) : (printWiki pre label post).take pre.length = pre := by
  simp [printWiki]

theorem printWiki_drop (pre label post : Str) :
    (printWiki pre label post).drop (pre.length + (label.length + 4)) = post := by
  have e : printWiki pre label post = (pre ++ '[' :: '[' :: (label ++ [']', ']'])) ++ post := by simp [printWiki]
  rw [e]; apply List.drop_left'; simp

/-- **`__handleInline`** on `pre[[label]]post` with the `wikilinks` table: the link is stashed -/
theorem handleInlineX_wiki (xc : XCfg) (hx : WCfg xc) (f : Nat) (x : XSt) {pre label post : Str}
    (h : Parts pre label post) (hl : LabelOK label = true) :
    handleInlineX xc (f + 2) (printWiki pre label post) 0 x =
      some (pre ++ placeholder x.st.stash.length ++ post,
        { x with st := { x.st with stash := x.st.stash ++ [.node (wikiEl label)] } }) := by
  have nm : ∀ {c : Char}, inlPlain c = false → c ≠ '-' → c ≠ '[' → c ≠ ']' → c ∉ printWiki pre label post :=
    fun hc h1 h2 h3 => printWiki_not_mem h hc h1 h2 h3
  have q1 : '`' ∉ printWiki pre label post := nm (by decide) (by decide) (by decide) (by decide)
  have q2 : '\\' ∉ printWiki pre label post := nm (by decide) (by decide) (by decide) (by decide)
  have hqb : QuietB (printWiki pre label post) :=
    ⟨nm (by decide) (by decide) (by decide) (by decide), nm (by decide) (by decide) (by decide) (by decide),
     nm (by decide) (by decide) (by decide) (by decide), nm (by decide) (by decide) (by decide) (by decide),
     nm (by decide) (by decide) (by decide) (by decide)⟩
  obtain ⟨m2, m3, m6, m6'⟩ := findMatch_wiki xc.cfg hx.refs x.st h
  obtain ⟨hne, _, _, _, _⟩ := labelOK_facts hl
  have hql : Quiet label :=
    ⟨h.lab_not_mem (by decide) (by decide) (by decide), h.lab_not_mem (by decide) (by decide) (by decide),
     h.lab_not_mem (by decide) (by decide) (by decide), h.lab_not_mem (by decide) (by decide) (by decide),
     h.lab_not_mem (by decide) (by decide) (by decide), h.lab_not_mem (by decide) (by decide) (by decide)⟩
  -- the wiki-link pattern
  have hfw : findX xc .wikilink (printWiki pre label post) 0 x =
      some (some ⟨.el (wikiEl label), pre.length, ((pre.length + (label.length + 4) : Nat) : Int)⟩, x) := by
    have := wikiScan_at pre label post (plain_not_mem h.pre (by decide)) h.wiki hne 0
    simp only [findX, Nat.not_lt_zero, gt_iff_lt, if_false, List.drop_zero, this, wikiNode_el hl, Nat.zero_add]
  have hap := applyPatternX_leaf xc (fun d p s => handleInlineX xc (f + 1) d p s) 13 .wikilink _ 0 x (wikiEl label)
    _ _ (by rw [hx.tab]; rfl) hfw rfl rfl rfl
    (fun t ht _ => by
      have : t = label := by simpa [wikiEl] using ht.symm
      subst this
      exact handleInlineX_quiet_tail xc hx f t x hql)
  rw [printWiki_take, printWiki_drop] at hap
  -- afterwards
  have hq' : Quiet (pre ++ placeholder x.st.stash.length ++ post) :=
    quiet_append (quiet_append (plain_quiet h.pre) (quiet_placeholder _)) (plain_quiet h.post)
  have hfw' : ∀ x' : XSt, findX xc .wikilink (pre ++ placeholder x.st.stash.length ++ post) 0 x' = some (none, x') := by
    intro x'
    have : wikiScan (pre ++ placeholder x.st.stash.length ++ post) 0 = none := wikiScan_none _ hq'.1 0
    simp only [findX, Nat.not_lt_zero, gt_iff_lt, if_false, List.drop_zero, this]
  have hap' : ∀ x' : XSt, applyPatternX xc (fun d p s => handleInlineX xc (f + 1) d p s) 13
      (pre ++ placeholder x.st.stash.length ++ post) 0 x' =
      some (pre ++ placeholder x.st.stash.length ++ post, false, 0, x') := by
    intro x'
    have ht : xc.table[13]? = some .wikilink := by rw [hx.tab]; rfl
    simp only [applyPatternX, ht, hfw' x']
  obtain ⟨g, hg⟩ : ∃ g, loopFuelX 17 (printWiki pre label post).length = g + 20 :=
    ⟨loopFuelX 17 (printWiki pre label post).length - 20, by have := loopFuelX_ge (printWiki pre label post).length; omega⟩
  rw [show handleInlineX xc (f + 2) (printWiki pre label post) 0 x =
    hiLoopX xc.table.length (applyPatternX xc fun d p s => handleInlineX xc (f + 1) d p s)
      (loopFuelX xc.table.length (printWiki pre label post).length) (printWiki pre label post) 0 0 x from rfl,
    hx.len, hg]
  rw [loopX_core_none xc _ 17 _ _ 0 0 0 x (by omega) (hx.core 0 (by omega)) (findMatch0_none _ _ _ q1),
    loopX_core_none xc _ 17 _ _ 1 1 0 x (by omega) (hx.core 1 (by omega)) (findMatch1_none _ _ _ q2),
    loopX_core_none xc _ 17 _ _ 2 2 0 x (by omega) (hx.core 2 (by omega)) m2,
    loopX_core_none xc _ 17 _ _ 3 3 0 x (by omega) (hx.core 3 (by omega)) m3,
    loopX_core_none xc _ 17 _ _ 4 4 0 x (by omega) (hx.core 4 (by omega)) (findMatch_quietB _ 4 (by omega) _ _ hqb),
    loopX_core_none xc _ 17 _ _ 5 5 0 x (by omega) (hx.core 5 (by omega)) (findMatch_quietB _ 5 (by omega) _ _ hqb),
    loopX_core_skip xc _ 17 _ _ 6 6 0 x (by omega) (hx.core 6 (by omega)) _ _ m6,
    loopX_core_none xc _ 17 _ _ 6 6 _ x (by omega) (hx.core 6 (by omega)) m6',
    loopX_core_none xc _ 17 _ _ 7 7 0 x (by omega) (hx.core 7 (by omega)) (findMatch_quietB _ 7 (by omega) _ _ hqb),
    loopX_core_none xc _ 17 _ _ 8 8 0 x (by omega) (hx.core 8 (by omega)) (findMatch_quietB _ 8 (by omega) _ _ hqb),
    loopX_core_none xc _ 17 _ _ 9 9 0 x (by omega) (hx.core 9 (by omega)) (findMatch_quietB _ 9 (by omega) _ _ hqb),
    loopX_core_none xc _ 17 _ _ 10 10 0 x (by omega) (hx.core 10 (by omega))
      (findMatch_quietB _ 10 (by omega) _ _ hqb),
    loopX_core_none xc _ 17 _ _ 11 11 0 x (by omega) (hx.core 11 (by omega))
      (findMatch_quietB _ 11 (by omega) _ _ hqb),
    loopX_core_none xc _ 17 _ _ 12 12 0 x (by omega) (hx.core 12 (by omega))
      (findMatch_quietB _ 12 (by omega) _ _ hqb),
    hiLoopX_step 17 _ _ _ 13 0 x (by omega) _ _ _ _ hap]
  simp only [if_true]
  rw [hiLoopX_step 17 _ _ _ 13 0 _ (by omega) _ _ _ _ (hap' _)]
  simp only [Bool.false_eq_true, if_false]
  exact loopX_quiet_tail xc hx _ _ _ hq' _ (by omega)


/-! ### `InlineProcessor.run` -/

/-- **`InlineProcessor.run`** (any pattern table) on `<div><p>D</p></div>` when `__handleInline` turns `D` into
    `pre‹placeholder 0›post` with one stashed leaf element -/
theorem runX_one (xc : XCfg) (D pre post : Str) (a : Node) (hD : D ≠ [])
    (h1 : handleInlineTopX xc D { st := { html := [] } } =
      some (pre ++ placeholder 0 ++ post, { st := { stash := [.node a], html := [] } }))
    (hc : a.children = []) (htl : a.tail = none) (hta : a.textAtomic = false) (htla : a.tailAtomic = false)
    (htx : ∀ t, a.text = some t → STX ∉ t) (hpre : STX ∉ pre) (hpost : STX ∉ post) :
    runX xc ((Node.el "div").append (Block.mkText "p" D)) =
      some ((Node.el "div").append (linkPara pre post a), { st := { stash := [.node a], html := [] } }) := by
  have h2 := ppTop_one [] [] a hc htl hta htla htx pre post hpre hpost
    { Block.mkText "p" D with text := none, textAtomic := false } rfl rfl
  simp only [List.nil_append, List.length_nil] at h2
  have htr : Node.truthy (some D) = true := by
    cases D with
    | nil => exact absurd rfl hD
    | cons x y => rfl
  have hv : visitChildX xc (Block.mkText "p" D) { x := { st := { html := [] } } } =
      some (linkPara pre post a, [], { x := { st := { stash := [.node a], html := [] } }, pushes := [[0, 0]] }) := by
    simp only [visitChildX, Block.mkText, Node.el, htr, Bool.not_false, Bool.and_self, if_true, Option.getD_some, h1]
      at h2 ⊢
    rw [h2]
    simp [Node.truthy, linkPara, Node.el]
  obtain ⟨n, hn⟩ : ∃ n, runFuel ((Node.el "div").append (Block.mkText "p" D)) = n + 3 :=
    ⟨runFuel ((Node.el "div").append (Block.mkText "p" D)) - 3,
      by have := runFuel_ge ((Node.el "div").append (Block.mkText "p" D)); omega⟩
  simp only [runX, hn]
  simp only [runLoopX, getAt, Node.append, Node.el, List.nil_append, withIdx, visitLoopX]
  rw [hv]
  simp [setAt, visitLoopX, runLoopX, getAt, linkPara, hc, withIdx, Node.el]


/-! ### front end -/

theorem wikiOK_facts {pre label post : Str} (h : WikiOK pre label post = true) :
    PlainText pre = true ∧ ParaStartOK pre = true ∧ LabelOK label = true ∧ PlainText post = true := by
  simp only [WikiOK, Bool.and_eq_true] at h
  obtain ⟨⟨⟨h1, h2⟩, h3⟩, h4⟩ := h
  exact ⟨h1, h2, h3, h4⟩

theorem paraOK_printWiki {pre label post : Str} (h : Parts pre label post) (hstart : ParaStartOK pre = true) :
    ParaOK (printWiki pre label post) := by
  have hnl : '\n' ∉ printWiki pre label post := printWiki_not_mem h (by decide) (by decide) (by decide) (by decide)
  have hch : (printWiki pre label post).all docCh = true := by
    apply List.all_eq_true.2
    intro c hc
    simp only [printWiki, List.mem_append, List.mem_cons] at hc
    rcases hc with hc | rfl | rfl | hc | rfl | rfl | hc
    · exact List.all_eq_true.1 (plain_docCh h.pre) c hc
    · decide
    · decide
    · rcases h.lab c hc with e | e | e
      · have hlt := alnum_lt e
        revert e
        exact RefDef.char_of_ascii (fun x => isAsciiAlnum x = true → docCh x = true) (by decide) c hlt
      · subst e; decide
      · subst e; decide
    · decide
    · decide
    · exact List.all_eq_true.1 (plain_docCh h.post) c hc
  cases pre with
  | cons d pre' =>
    have hd : inlPlain d = true := by
      have := h.pre
      simp only [PlainText, List.all_cons, Bool.and_eq_true] at this; exact this.1
    have hs := hstart
    simp only [ParaStartOK, Bool.and_eq_true, bne_iff_ne, ne_eq, Bool.not_eq_true'] at hs
    refine ⟨?_, hnl, hch, ?_⟩
    · obtain ⟨c', r', e', h1, h2⟩ := refSrc_shape (text := []) (sp := []) (label := []) (post := []) h.pre hstart
      simp only [refSrc, List.cons_append] at e'
      obtain ⟨rfl, _⟩ := List.cons.inj e'
      exact ⟨d, pre' ++ '[' :: '[' :: (label ++ ']' :: ']' :: post), by simp [printWiki], h1, h2⟩
    · have hdb : d ≠ '[' := by intro e; subst e; exact absurd hd (by decide)
      have e : printWiki (d :: pre') label post = d :: (pre' ++ '[' :: '[' :: (label ++ ']' :: ']' :: post)) := by
        simp [printWiki]
      rw [e]
      simp [Block.refMatchAt, countPrefix, hs.1, hdb]
  | nil =>
    refine ⟨⟨'[', '[' :: (label ++ ']' :: ']' :: post), by simp [printWiki], by decide, by decide⟩, hnl, hch, ?_⟩
    have e : printWiki [] label post = '[' :: '[' :: (label ++ ']' :: ']' :: post) := by simp [printWiki]
    rw [e]
    simp [Block.refMatchAt, countPrefix, spanLen_cons]

theorem parseDocumentXT_core (tab : Nat) (text : Str) :
    BlockExt.parseDocumentXT false BlockExt.XCfg.core tab text = Block.parseDocument tab text := by
  unfold BlockExt.parseDocumentXT Block.parseDocument Block.parseDocumentWith
  rw [BlockExt.parseBlocksXT_false, BlockExt.parseBlocksX_core]
  rfl

/-! ### back end -/

/-- `<a class="wikilink" href="/Label/">label</a>` -/
def wikiHtml (label : Str) : Str :=
  "<a class=\"wikilink\" href=\"".toList ++ (wikiUrl label ++ ("\">".toList ++ (label ++ "</a>".toList)))

theorem serPlain_label {pre label post : Str} (h : Parts pre label post) : ∀ c ∈ label, Ser.plain c = true := by
  intro c hc
  have n1 : c ≠ '&' := fun e => h.lab_not_mem (x := '&') (by decide) (by decide) (by decide) (e ▸ hc)
  have n2 : c ≠ '<' := fun e => h.lab_not_mem (x := '<') (by decide) (by decide) (by decide) (e ▸ hc)
  have n3 : c ≠ '>' := fun e => h.lab_not_mem (x := '>') (by decide) (by decide) (by decide) (e ▸ hc)
  have n4 : c ≠ '"' := fun e => h.lab_not_mem (x := '"') (by decide) (by decide) (by decide) (e ▸ hc)
  have n5 : c ≠ '\n' := fun e => h.lab_not_mem (x := '\n') (by decide) (by decide) (by decide) (e ▸ hc)
  simp [Ser.plain, n1, n2, n3, n4, n5]

theorem mem_wikiUrl {label : Str} {c : Char} (hc : c ∈ wikiUrl label) : c = '/' ∨ c = '_' ∨ (c ∈ label ∧ c ≠ ' ') := by
  simp only [wikiUrl, List.mem_cons, List.mem_append, List.mem_map, List.not_mem_nil, or_false] at hc
  rcases hc with rfl | ⟨a, ha, rfl⟩ | rfl
  · exact Or.inl rfl
  · by_cases e : a = ' '
    · simp [e]
    · simp [e, ha]
  · exact Or.inl rfl

theorem serPlain_url {pre label post : Str} (h : Parts pre label post) : ∀ c ∈ wikiUrl label, Ser.plain c = true := by
  intro c hc
  rcases mem_wikiUrl hc with rfl | rfl | ⟨hm, _⟩
  · decide
  · decide
  · exact serPlain_label h c hm

theorem escCdata_of_plain (s : Str) (h : ∀ c ∈ s, Ser.plain c = true) : Ser.escCdata s = s := by
  have := Ser.esc1_body false false s [] h
  rw [Ser.onepass_cdata']
  simpa [Ser.esc1] using this

theorem escAttr_of_plain (s : Str) (h : ∀ c ∈ s, Ser.plain c = true) : Ser.escAttrHtml s = s := by
  have := Ser.esc1_body true false s [] h
  rw [Ser.onepass_attr']
  simpa [Ser.esc1] using this

theorem serialize_wiki (fmt : Ser.Fmt) {pre label post : Str} (h : Parts pre label post) (hne : label ≠ []) :
    Ser.serialize fmt { wikiEl label with tail := optStr post } = wikiHtml label ++ post := by
  have h2a : Ser.isEmptyTag ['a'] = false := by decide
  have h4a : Ser.isRawTextTag ['a'] = false := by decide
  have hlt : Ser.strLt "href".toList "class".toList = false := by decide
  have hs : Ser.sortAttrs [("href".toList, wikiUrl label), ("class".toList, "wikilink".toList)] =
      [("class".toList, "wikilink".toList), ("href".toList, wikiUrl label)] := by
    simp only [Ser.sortAttrs, List.foldr, Ser.insAttr, hlt, Bool.false_eq_true, if_false]
  have e : ({ wikiEl label with tail := optStr post } : Node) =
      ⟨.name ['a'], [("href".toList, wikiUrl label), ("class".toList, "wikilink".toList)], some label, false, [],
        optStr post, false⟩ := rfl
  have htxt : (if Node.truthy (some label) = true then Ser.escCdata ((some label).getD []) else []) = label := by
    cases label with
    | nil => exact absurd rfl hne
    | cons a b => simp [Node.truthy, escCdata_of_plain _ (serPlain_label h)]
  have ha1 : attrHtml fmt "class".toList "wikilink".toList = " class=\"wikilink\"".toList := by
    have : ("class".toList = Ser.escAttrHtml "wikilink".toList) = False := by decide
    simp only [attrHtml, this, decide_false, Bool.false_and, Bool.false_eq_true, if_false]
    decide
  have ha2 : attrHtml fmt "href".toList (wikiUrl label) = " href=\"".toList ++ (wikiUrl label ++ ['"']) := by
    have hu := escAttr_of_plain _ (serPlain_url h)
    have : ("href".toList = wikiUrl label) = False := by simp [wikiUrl]
    simp only [attrHtml, hu, this, decide_false, Bool.false_and, Bool.false_eq_true, if_false]
    simp
  rw [e, serialize_name, element_nonempty _ _ _ _ _ h2a h4a, hs, htxt, txt_optStr post h.post, serializeList_nil,
    writeAttrs_cons, writeAttrs_cons, ha1, ha2]
  unfold wikiHtml
  simp only [Ser.writeAttrs, List.append_assoc, List.append_nil]
  rfl

theorem inlKid_wiki {pre label post : Str} (h : Parts pre label post) :
    InlKid { wikiEl label with tail := optStr post } := by
  have hst : TreeProc.STX ∉ label := h.lab_not_mem (by decide) (by decide) (by decide)
  refine ⟨rfl, inl_a.1, inl_a.2.1, inl_a.2.2, rfl, rfl, ?_, ?_, ?_⟩
  · intro s hs
    have : s = label := by simpa [wikiEl] using hs.symm
    subst this; exact hst
  · intro s hs
    have hp : TreeProc.STX ∉ post := plain_no_stx h.post
    cases post with
    | nil => simp [optStr] at hs
    | cons a b =>
      have : s = a :: b := by simpa [optStr] using hs.symm
      subst this; exact hp
  · intro kv hkv
    simp only [wikiEl, List.mem_cons, List.not_mem_nil, or_false] at hkv
    rcases hkv with rfl | rfl
    · intro hm
      rcases mem_wikiUrl hm with e | e | ⟨e, _⟩
      · exact absurd e (by decide)
      · exact absurd e (by decide)
      · exact hst e
    · decide

theorem stx_wikiHtml {pre label post : Str} (h : Parts pre label post) : Post.STX ∉ wikiHtml label ++ post := by
  have hst : Post.STX ∉ label := h.lab_not_mem (by decide) (by decide) (by decide)
  have hp : Post.STX ∉ post := plain_no_stx h.post
  have l1 : Post.STX ∉ "<a class=\"wikilink\" href=\"".toList := by decide
  have l2 : Post.STX ∉ "\">".toList := by decide
  have l3 : Post.STX ∉ "</a>".toList := by decide
  have hu : Post.STX ∉ wikiUrl label := by
    intro hm
    rcases mem_wikiUrl hm with e | e | ⟨e, _⟩
    · exact absurd e (by decide)
    · exact absurd e (by decide)
    · exact hst e
  unfold wikiHtml
  simp only [List.mem_append, not_or]
  exact ⟨⟨l1, hu, l2, hst, l3⟩, hp⟩

theorem finishX_para (x : PipelineX.Exts) (hfn : x.footnotes = false) (cfg : Pipeline.Cfg) (E : Str)
    (hstx : Post.STX ∉ E) :
    PipelineX.finishX x cfg []
      ("<div>".toList ++ ('\n' :: "<p>".toList ++ E ++ "</p>".toList ++ ['\n']) ++ "</div>\n".toList) =
      .ok ("<p>".toList ++ E ++ "</p>".toList) := by
  have hE : Post.STX ∉ "<p>".toList ++ E ++ "</p>".toList := by
    simp only [List.mem_append, not_or]
    exact ⟨⟨by decide, hstx⟩, by decide⟩
  simp only [PipelineX.finishX, topLevelStrip_div, strip_paragraph, PipelineX.postX, Post.rawHtmlFuel, List.length_nil,
    Post.rawHtml, List.isEmpty_nil, if_true, Option.map_some, hfn, Bool.false_eq_true, if_false, ampSub_id _ hE,
    strip_p_self]

/-! ### the whole pipeline -/

theorem specWiki_eq (pre label post : Str) :
    specWiki pre label post = "<p>".toList ++ (pre ++ (wikiHtml label ++ post)) ++ "</p>".toList := by
  unfold specWiki wikiHtml
  simp only [List.append_assoc]

/-- **`Markdown(extensions=['wikilinks']).convert`** on a paragraph with one wiki link -/
theorem convertX_wiki (cfg : Pipeline.Cfg) (hbl : cfg.blockLevel = TreeProc.defaultBlockLevel) (htab : 0 < cfg.tab)
    {pre label post : Str} (h : WikiOK pre label post = true) :
    PipelineX.convertX { wikilinks := true } cfg (printWiki pre label post) = .ok (specWiki pre label post) := by
  obtain ⟨hpre, hstart, hl, hpost⟩ := wikiOK_facts h
  have hparts : Parts pre label post := labelOK_parts hpre hpost hl
  obtain ⟨hne, _, _, _, _⟩ := labelOK_facts hl
  have hpara := paraOK_printWiki hparts hstart
  obtain ⟨h1, h2, h3⟩ := front_doc cfg htab [] [] (by simp) (by simp) hpara
  have hdoc : docOf [] (printWiki pre label post) [] = printWiki pre label post := by simp [docOf, joinPar]
  rw [hdoc] at h1 h2 h3
  rw [show List.map DefSpec.entry (([] : List DefSpec) ++ []) = [] from rfl] at h3
  have hprepX : PipelineX.prepareX { wikilinks := true } cfg (printWiki pre label post) =
      .ok (Pipeline.prepare cfg (printWiki pre label post), []) := by
    simp only [PipelineX.prepareX, Bool.false_and, Bool.false_eq_true, if_false, Pipeline.prepare]
  have hcore : PipelineX.Exts.blockCfg { wikilinks := true } = BlockExt.XCfg.core := rfl
  have hxc : WCfg
      { cfg := { esc := PipelineX.escX { wikilinks := true } cfg,
                 refs := (PipelineX.refsX { wikilinks := true } []).reverse }
        table := InlineX.table false true false
        fnKeys := (BlockExt.footnotesOf []).map (·.1) } := ⟨rfl, rfl⟩
  have hhi := handleInlineX_wiki _ hxc ((printWiki pre label post).length + 19) { st := { html := [] } } hparts hl
  have hrun := runX_one _ (printWiki pre label post) pre post (wikiEl label) (by simp [printWiki])
    (by
      rw [handleInlineTopX, hxc.len]
      exact hhi)
    rfl rfl rfl rfl
    (fun t ht => by
      have : t = label := by simpa [wikiEl] using ht.symm
      subst this; exact hparts.lab_not_mem (by decide) (by decide) (by decide))
    (plain_no_stx hpre) (plain_no_stx hpost)
  have hk : ∀ k ∈ [({ wikiEl label with tail := optStr post } : Node)], InlKid k := by
    intro k hk
    have : k = { wikiEl label with tail := optStr post } := by simpa using hk
    subst this; exact inlKid_wiki hparts
  have h6 := prettify_paraOf pre _ hk
  have h7 := unescapeTree_paraDoc pre _ hk (plain_no_stx hpre)
  have h8 := serialize_paraDoc cfg.fmt pre [{ wikiEl label with tail := optStr post }] hpre
  rw [serializeList_one, serialize_wiki cfg.fmt hparts hne] at h8
  have h9 := finishX_para { wikilinks := true } rfl cfg (pre ++ (wikiHtml label ++ post)) (by
    simp only [List.mem_append, not_or]
    have := stx_wikiHtml hparts
    simp only [List.mem_append, not_or] at this
    exact ⟨plain_no_stx hpre, this⟩)
  have hlp : linkPara pre post (wikiEl label) = paraOf pre [{ wikiEl label with tail := optStr post }] := rfl
  rw [hlp] at hrun
  simp only [PipelineX.convertX, h1, h2, PipelineX.Exts.unsupported, Bool.false_eq_true, if_false, PipelineX.treeX,
    hprepX, hcore, parseDocumentXT_core, h3, hrun, hbl, h6, h7, h8, h9, specWiki_eq]

end MdVerif.WikiDoc
