/-
Helper lemmas for C02 on the extension pipeline (`Model/PipelineX.lean`): which stages of `treeX` / `convertX` can
answer `oof` (a fuel of the model ran out) and which cannot.  Core Lean only.

* `prepareX` (preprocessors, fenced_code included) never answers `oof`;
* the block parser never answers `none` (`Lemmas/BlockExtFuelTotal.lean`);
* `FootnotesTree.makeDiv` with the block parser as its `parse` never answers `oof`;
* `TocTree.run` answers `oof` only when its `post` (the postprocessors run on a heading name) does;
* so `treeX = oof` means: `InlineX.runX` ran out of fuel, or the raw-HTML restore did on a heading name (toc).
-/
import MdVerif.Lemmas.BlockExtFuelTotal
import MdVerif.Lemmas.PipelineX
import MdVerif.Lemmas.FencedCodeAttrs
import MdVerif.Lemmas.BlockExtFuelHtml

namespace MdVerif.PipelineX
open Py Pipeline

/-! ### the stages of `treeX`, named -/

/-- `FootnoteTreeprocessor` (priority 50) as `treeX` runs it: the new root and the (possibly extended) log -/
def fnStageX (x : Exts) (cfg : Cfg) (root : Node) (log : Block.Refs) : FootnotesTree.R (Node × Block.Refs) :=
  if x.footnotes then
    match FootnotesTree.makeDiv (parseChunkX x cfg) fnCount (BlockExt.footnotesOf log) log with
    | .ok (some div, log') => .ok (FootnotesTree.placeDiv root div, log')
    | .ok (none, log') => .ok (root, log')
    | .oof => .oof
    | .ood => .ood
  else .ok (root, log)

/-- the configuration of the inline stage -/
def inlineCfgX (x : Exts) (cfg : Cfg) (log : Block.Refs) : InlineX.XCfg :=
  { cfg := { esc := escX x cfg, refs := (refsX x log).reverse }
    table := InlineX.table x.footnotes x.wikilinks x.nl2br
    fnKeys := (BlockExt.footnotesOf log).map (·.1) }

/-- the stages of `treeX` up to the inline processor: the tree, the log of table writes, the HTML stash -/
def blockStageX (x : Exts) (cfg : Cfg) (src : Str) : FootnotesTree.R (Node × Block.Refs × List Str) :=
  match prepareX x cfg src with
  | .oof => .oof
  | .ood => .ood
  | .ok (text, stash) =>
    match BlockExt.parseDocumentXT x.tables x.blockCfg cfg.tab text with
    | none => .oof
    | some (root, log) =>
      match fnStageX x cfg root log with
      | .oof => .oof
      | .ood => .ood
      | .ok (root, log) => .ok (root, log, stash)

/-- the tree processors between the inline stage and `toc`: footnote-duplicate 15, prettify 10, attr_list 8, abbr 7;
    `none` = `FootnotePostTreeprocessor` raises -/
def midStageX (x : Exts) (cfg : Cfg) (log : Block.Refs) (t : Node) (fn : Footnotes.State) : Option Node :=
  match (if x.footnotes then FootnotesTree.duplicates fn t else some t) with
  | none => none
  | some t =>
    let t := TreeProc.prettify t cfg.blockLevel
    let t := if x.attrList then AttrListTree.run cfg.blockLevel t else t
    some (if x.abbr then AbbrTree.run (BlockExt.abbrsOf log) t else t)

/-- `toc` (5) as `treeX` runs it -/
def tocStageX (x : Exts) (cfg : Cfg) (html : List Str) (t : Node) : TocTree.R Node :=
  if x.toc then TocTree.run { fmt := cfg.fmt, post := postX x cfg html } cfg.blockLevel t else .ok t

/-- the stages of `treeX` after the inline processor -/
def lateStageX (x : Exts) (cfg : Cfg) (log : Block.Refs) (t : Node) (xs : InlineX.XSt) : TreeResult :=
  match midStageX x cfg log t xs.fn with
  | none => .err
  | some t =>
    match tocStageX x cfg xs.st.html t with
    | .oof => .oof
    | .err => .err
    | .ood => .ood
    | .ok t =>
      match TreeProc.unescapeTree t with
      | none => .err
      | some u => .ok u xs.st.html

/-- `treeX` is the composition of the named stages -/
theorem treeX_eq (x : Exts) (cfg : Cfg) (src : Str) : treeX x cfg src =
    match blockStageX x cfg src with
    | .oof => .oof
    | .ood => .ood
    | .ok (root, log, stash) =>
      match InlineX.runX (inlineCfgX x cfg log) root stash with
      | none => .oof
      | some (t, xs) => lateStageX x cfg log t xs := by
  have tail : ∀ (root : Node) (log : Block.Refs) (stash : List Str),
      (match InlineX.runX { cfg := { esc := escX x cfg, refs := (refsX x log).reverse },
                            table := InlineX.table x.footnotes x.wikilinks x.nl2br,
                            fnKeys := (BlockExt.footnotesOf log).map (·.1) } root stash with
        | none => TreeResult.oof
        | some (t, xs) =>
          match (if x.footnotes then FootnotesTree.duplicates xs.fn t else some t) with
          | none => TreeResult.err
          | some t =>
            let t := TreeProc.prettify t cfg.blockLevel
            let t := if x.attrList then AttrListTree.run cfg.blockLevel t else t
            let t := if x.abbr then AbbrTree.run (BlockExt.abbrsOf log) t else t
            let tocStage : TocTree.R Node :=
              if x.toc then
                TocTree.run { fmt := cfg.fmt, post := postX x cfg xs.st.html } cfg.blockLevel t
              else .ok t
            match tocStage with
            | .oof => TreeResult.oof
            | .err => TreeResult.err
            | .ood => TreeResult.ood
            | .ok t =>
              match TreeProc.unescapeTree t with
              | none => TreeResult.err
              | some u => TreeResult.ok u xs.st.html) =
      (match InlineX.runX (inlineCfgX x cfg log) root stash with
        | none => TreeResult.oof
        | some (t, xs) => lateStageX x cfg log t xs) := by
    intro root log stash
    simp only [inlineCfgX]
    cases InlineX.runX { cfg := { esc := escX x cfg, refs := (refsX x log).reverse },
                         table := InlineX.table x.footnotes x.wikilinks x.nl2br,
                         fnKeys := (BlockExt.footnotesOf log).map (·.1) } root stash with
    | none => rfl
    | some txs =>
      obtain ⟨t, xs⟩ := txs
      simp only [lateStageX, midStageX, tocStageX]
      cases (if x.footnotes then FootnotesTree.duplicates xs.fn t else some t) with
      | none => rfl
      | some t2 => rfl
  unfold treeX blockStageX
  cases prepareX x cfg src with
  | oof => rfl
  | ood => rfl
  | ok ts =>
    obtain ⟨text, stash⟩ := ts
    simp only
    cases BlockExt.parseDocumentXT x.tables x.blockCfg cfg.tab text with
    | none => rfl
    | some rl =>
      obtain ⟨root, log⟩ := rl
      simp only
      by_cases hx : x.footnotes = true
      · simp only [fnStageX, if_pos hx] at tail ⊢
        cases FootnotesTree.makeDiv (parseChunkX x cfg) fnCount (BlockExt.footnotesOf log) log with
        | oof => rfl
        | ood => rfl
        | ok dl =>
          obtain ⟨d, log'⟩ := dl
          cases d with
          | none => exact tail root log' stash
          | some div => exact tail _ log' stash
      · simp only [fnStageX, if_neg hx] at tail ⊢
        exact tail root log stash

/-! ### stages that never answer `oof` -/

/-- the preprocessors never run out of fuel (`fencedRunA` is total, `Lemmas/FencedCodeAttrs.lean`) -/
theorem prepareX_ne_oof (x : Exts) (cfg : Cfg) (src : Str) : prepareX x cfg src ≠ .oof := by
  simp only [prepareX]
  generalize Normalize.normalize cfg.tab src = t
  split
  · intro h; cases h
  · split
    · split
      · intro h; cases h
      · have hst := Fenced.fencedLoopA_stable (t.length + 1) (t.length + 1) t 0 [] (by omega) (by omega)
        cases hf : Fenced.fencedRunA t with
        | ok t' st => simp
        | ood => exact absurd hf hst.2.2
        | fuel => exact absurd hf hst.2.1
    · intro h; cases h

theorem makeLis_ne_oof {parse : Block.Refs → Str → Option (Node × Block.Refs)} {fnCount : Block.Refs → Nat}
    (hp : ∀ log text, parse log text ≠ none) : ∀ (l : List (Str × Str)) (idx : Nat) (log : Block.Refs),
    FootnotesTree.makeLis parse fnCount l idx log ≠ .oof := by
  intro l
  induction l with
  | nil => intro idx log h; simp [FootnotesTree.makeLis] at h
  | cons a rest ih =>
    intro idx log
    obtain ⟨id, text⟩ := a
    simp only [FootnotesTree.makeLis]
    cases hparse : parse log text with
    | none => exact absurd hparse (hp log text)
    | some sl =>
      obtain ⟨sur, log'⟩ := sl
      simp only
      split
      · intro h; cases h
      · split
        · intro h; cases h
        · cases hrec : FootnotesTree.makeLis parse fnCount rest (idx + 1) log' with
          | ok r => intro h; cases h
          | oof => exact absurd hrec (ih _ _)
          | ood => intro h; cases h

/-- `makeFootnotesDiv` answers `oof` only when the block parser it calls on a footnote text does -/
theorem makeDiv_ne_oof {parse : Block.Refs → Str → Option (Node × Block.Refs)} {fnCount : Block.Refs → Nat}
    (hp : ∀ log text, parse log text ≠ none) (footnotes : List (Str × Str)) (log : Block.Refs) :
    FootnotesTree.makeDiv parse fnCount footnotes log ≠ .oof := by
  simp only [FootnotesTree.makeDiv]
  split
  · intro h; cases h
  · cases hrec : FootnotesTree.makeLis parse fnCount footnotes 1 log with
    | ok r => intro h; cases h
    | oof => exact absurd hrec (makeLis_ne_oof hp _ _ _)
    | ood => intro h; cases h

/-- the block parser that the footnote tree processor calls always answers -/
theorem parseChunkX_ne_none (x : Exts) (cfg : Cfg) (htab : x.admonition = true → 0 < cfg.tab) (log : Block.Refs)
    (text : Str) : parseChunkX x cfg log text ≠ none := by
  have := BlockExt.Fuel.parseChunkXT_total x.tables x.blockCfg cfg.tab htab [] log (Node.el "div") text _ (Nat.le_refl _)
  intro h
  simp only [parseChunkX] at h
  rw [h] at this; cases this

theorem fnStageX_ne_oof (x : Exts) (cfg : Cfg) (htab : x.admonition = true → 0 < cfg.tab) (root : Node)
    (log : Block.Refs) : fnStageX x cfg root log ≠ .oof := by
  simp only [fnStageX]
  split
  · cases hm : FootnotesTree.makeDiv (parseChunkX x cfg) fnCount (BlockExt.footnotesOf log) log with
    | ok r =>
      obtain ⟨d, log'⟩ := r
      cases d <;> (intro h; cases h)
    | oof => exact absurd hm (makeDiv_ne_oof (parseChunkX_ne_none x cfg htab) _ _)
    | ood => intro h; cases h
  · intro h; cases h

/-- **the stages before the inline processor never run out of fuel** -/
theorem blockStageX_ne_oof (x : Exts) (cfg : Cfg) (src : Str) (htab : x.admonition = true → 0 < cfg.tab) :
    blockStageX x cfg src ≠ .oof := by
  simp only [blockStageX]
  cases hp : prepareX x cfg src with
  | oof => exact absurd hp (prepareX_ne_oof x cfg src)
  | ood => intro h; cases h
  | ok ts =>
    obtain ⟨text, stash⟩ := ts
    simp only
    cases hd : BlockExt.parseDocumentXT x.tables x.blockCfg cfg.tab text with
    | none =>
      have := BlockExt.Fuel.parseDocumentXT_total x.tables x.blockCfg cfg.tab htab text
      rw [hd] at this; cases this
    | some rl =>
      obtain ⟨root, log⟩ := rl
      simp only
      cases hf : fnStageX x cfg root log with
      | oof => exact absurd hf (fnStageX_ne_oof x cfg htab root log)
      | ood => intro h; cases h
      | ok r => intro h; cases h

end MdVerif.PipelineX

/-! ### `TocTreeprocessor.run`: `oof` only through `post` -/
namespace MdVerif.TocTree
open Py

theorem renderInner_oof {env : Env} {el : Node} (h : renderInner env el = .oof) : ∃ s, env.post s = none := by
  simp only [renderInner] at h
  split at h
  · cases h
  · split at h
    · split at h
      · cases h
      · next hp => exact ⟨_, hp⟩
    · cases h

theorem heading_oof {env : Env} {el : Node} {st : St} (h : heading env el st = .oof) : ∃ s, env.post s = none := by
  simp only [heading] at h
  split at h
  · next hr => exact renderInner_oof hr
  · cases h
  · cases h
  · next inner hr =>
    split at h
    · next hidr =>
      exfalso
      split at hidr
      · cases hidr
      · split at hidr
        · cases hidr
        · split at hidr <;> cases hidr
    · cases h
    · cases h
    · next attrs used hidr =>
      split at h
      · next hnr =>
        split at hnr
        · cases hnr
        · split at hnr
          · cases hnr
          · split at hnr
            · next hp => exact ⟨_, hp⟩
            · cases hnr
      · cases h
      · cases h
      · split at h <;> cases h

mutual
theorem walkNode_oof (env : Env) : ∀ (n : Node) (st : St), walkNode env n st = .oof → ∃ s, env.post s = none
  | ⟨tag, attrs, text, ta, children, tail, tla⟩, st => by
    intro h
    simp only [walkNode] at h
    split at h
    · next hhr =>
      split at hhr
      · exact heading_oof hhr
      · cases hhr
    · cases h
    · cases h
    · next attrs' st1 hhr =>
      split at h
      · next hk => exact walkKids_oof env children st1 hk
      · cases h
      · cases h
      · cases h
theorem walkKids_oof (env : Env) : ∀ (l : List Node) (st : St), walkKids env l st = .oof → ∃ s, env.post s = none
  | [], st => by intro h; simp [walkKids] at h
  | c :: r, st => by
    intro h
    simp only [walkKids] at h
    split at h
    · next hc => exact walkNode_oof env c st hc
    · cases h
    · cases h
    · next c' st1 hc =>
      split at h
      · next hr => exact walkKids_oof env r st1 hr
      · cases h
      · cases h
      · cases h
end

/-- **`TocTreeprocessor.run` runs out of fuel only when the postprocessors it applies to a heading name (or to a
    `data-toc-label`) do** -/
theorem run_oof {env : Env} {bl : List Str} {root : Node} (h : run env bl root = .oof) : ∃ s, env.post s = none := by
  simp only [run] at h
  split at h
  · cases h
  · split at h
    · next hw => exact walkNode_oof env root _ hw
    · cases h
    · cases h
    · cases h

end MdVerif.TocTree

namespace MdVerif.PipelineX
open Py Pipeline

theorem postX_none {x : Exts} {cfg : Cfg} {stash : List Str} {s : Str} (h : postX x cfg stash s = none) :
    Post.rawHtml cfg.blockLevel stash (Post.rawHtmlFuel stash) s = none := by
  simpa [postX] using h

theorem lateStageX_oof {x : Exts} {cfg : Cfg} {log : Block.Refs} {t : Node} {xs : InlineX.XSt}
    (h : lateStageX x cfg log t xs = .oof) :
    x.toc = true ∧ ∃ t', midStageX x cfg log t xs.fn = some t' ∧
      TocTree.run { fmt := cfg.fmt, post := postX x cfg xs.st.html } cfg.blockLevel t' = .oof ∧
      ∃ s, Post.rawHtml cfg.blockLevel xs.st.html (Post.rawHtmlFuel xs.st.html) s = none := by
  simp only [lateStageX] at h
  split at h
  · cases h
  · next t' hm =>
    split at h
    · next htoc =>
      simp only [tocStageX] at htoc
      split at htoc
      · next hx =>
        obtain ⟨s, hs⟩ := TocTree.run_oof htoc
        exact ⟨hx, t', hm, htoc, s, postX_none hs⟩
      · cases htoc
    · cases h
    · cases h
    · split at h <;> cases h

/-- **the `oof` answers of `treeX`**: the stages before the inline processor always answer; `treeX = oof` means that
    the inline processor ran out of fuel, or — toc only — the raw-HTML restore did on a heading name -/
theorem treeX_oof {x : Exts} {cfg : Cfg} {src : Str} (htab : x.admonition = true → 0 < cfg.tab)
    (h : treeX x cfg src = .oof) :
    ∃ root log stash, blockStageX x cfg src = .ok (root, log, stash) ∧
      (InlineX.runX (inlineCfgX x cfg log) root stash = none ∨
       ∃ t xs, InlineX.runX (inlineCfgX x cfg log) root stash = some (t, xs) ∧ lateStageX x cfg log t xs = .oof) := by
  rw [treeX_eq] at h
  cases hb : blockStageX x cfg src with
  | oof => exact absurd hb (blockStageX_ne_oof x cfg src htab)
  | ood => rw [hb] at h; cases h
  | ok r =>
    obtain ⟨root, log, stash⟩ := r
    rw [hb] at h
    simp only at h
    refine ⟨root, log, stash, rfl, ?_⟩
    cases hr : InlineX.runX (inlineCfgX x cfg log) root stash with
    | none => exact Or.inl rfl
    | some txs =>
      obtain ⟨t, xs⟩ := txs
      rw [hr] at h
      exact Or.inr ⟨t, xs, rfl, h⟩

/-! ### without fenced_code the raw-HTML restore always terminates -/

theorem prepareX_stash {x : Exts} {cfg : Cfg} {src text : Str} {stash : List Str} (hf : x.fencedCode = false)
    (h : prepareX x cfg src = .ok (text, stash)) : stash = [] := by
  simp only [prepareX, hf, Bool.false_eq_true, if_false] at h
  split at h
  · cases h
  · simp only [FootnotesTree.R.ok.injEq, Prod.mk.injEq] at h
    exact h.2.symm

theorem blockStageX_stash {x : Exts} {cfg : Cfg} {src : Str} {root : Node} {log : Block.Refs} {stash : List Str}
    (h : blockStageX x cfg src = .ok (root, log, stash)) : ∃ text, prepareX x cfg src = .ok (text, stash) := by
  simp only [blockStageX] at h
  split at h
  · cases h
  · cases h
  · next text stash' hp =>
    split at h
    · cases h
    · split at h
      · cases h
      · cases h
      · simp only [FootnotesTree.R.ok.injEq, Prod.mk.injEq] at h
        obtain ⟨-, -, rfl⟩ := h
        exact ⟨text, hp⟩

theorem postX_ne_none (x : Exts) (cfg : Cfg) {stash : List Str} (he : ∀ e ∈ stash, NoCtl.entityLike e = true) (s : Str) :
    postX x cfg stash s ≠ none := by
  obtain ⟨out, hout⟩ := NoCtl.rawHtml_total (bl := cfg.blockLevel) he s
  simp [postX, hout]

theorem rawHtml_ne_none {bl : List Str} {stash : List Str} (he : ∀ e ∈ stash, NoCtl.entityLike e = true) (s : Str) :
    Post.rawHtml bl stash (Post.rawHtmlFuel stash) s ≠ none := by
  obtain ⟨out, hout⟩ := NoCtl.rawHtml_total (bl := bl) he s
  simp [hout]

/-- the HTML stash after the inline stage when `runX` started from the empty stash: entity references -/
theorem runX_html_nil {xc : InlineX.XCfg} {tree t : Node} {xs : InlineX.XSt}
    (h : InlineX.runX xc tree [] = some (t, xs)) : ∀ e ∈ xs.st.html, NoCtl.entityLike e = true := by
  intro e he
  rcases InlineX.Html.runX_html xc h e he with h1 | h1
  · cases h1
  · exact h1

/-- **without fenced_code, `treeX = oof` means that the inline processor ran out of fuel** -/
theorem treeX_oof_nofence {x : Exts} {cfg : Cfg} {src : Str} (hf : x.fencedCode = false)
    (htab : x.admonition = true → 0 < cfg.tab) (h : treeX x cfg src = .oof) :
    ∃ root log, blockStageX x cfg src = .ok (root, log, []) ∧
      InlineX.runX (inlineCfgX x cfg log) root [] = none := by
  obtain ⟨root, log, stash, hb, hor⟩ := treeX_oof htab h
  obtain ⟨text, hp⟩ := blockStageX_stash hb
  have := prepareX_stash hf hp
  subst this
  refine ⟨root, log, hb, ?_⟩
  rcases hor with h1 | ⟨t, xs, hr, hl⟩
  · exact h1
  · exfalso
    obtain ⟨-, t', -, -, s, hs⟩ := lateStageX_oof hl
    exact rawHtml_ne_none (runX_html_nil hr) s hs

theorem lateStageX_ok {x : Exts} {cfg : Cfg} {log : Block.Refs} {t : Node} {xs : InlineX.XSt} {u : Node}
    {html : List Str} (h : lateStageX x cfg log t xs = .ok u html) : html = xs.st.html := by
  simp only [lateStageX] at h
  split at h
  · cases h
  · split at h
    · cases h
    · cases h
    · cases h
    · split at h
      · cases h
      · simp only [TreeResult.ok.injEq] at h
        exact h.2.symm

theorem treeX_ok {x : Exts} {cfg : Cfg} {src : Str} {u : Node} {html : List Str} (h : treeX x cfg src = .ok u html) :
    ∃ root log stash t xs, blockStageX x cfg src = .ok (root, log, stash) ∧
      InlineX.runX (inlineCfgX x cfg log) root stash = some (t, xs) ∧ lateStageX x cfg log t xs = .ok u html := by
  rw [treeX_eq] at h
  cases hb : blockStageX x cfg src with
  | oof => rw [hb] at h; cases h
  | ood => rw [hb] at h; cases h
  | ok r =>
    obtain ⟨root, log, stash⟩ := r
    rw [hb] at h
    simp only at h
    cases hr : InlineX.runX (inlineCfgX x cfg log) root stash with
    | none => rw [hr] at h; cases h
    | some txs =>
      obtain ⟨t, xs⟩ := txs
      rw [hr] at h
      exact ⟨root, log, stash, t, xs, rfl, hr, h⟩

/-- **the `oof` answers of `convertX`**: those of `treeX`, and the raw-HTML restore on the serialised document -/
theorem convertX_oof {x : Exts} {cfg : Cfg} {src : Str} (h : convertX x cfg src = .oof) :
    treeX x cfg src = .oof ∨
    ∃ u html s, treeX x cfg src = .ok u html ∧ Post.rawHtml cfg.blockLevel html (Post.rawHtmlFuel html) s = none := by
  simp only [convertX] at h
  split at h
  · cases h
  · split at h
    · cases h
    · split at h
      · cases h
      · split at h
        · next ht => exact Or.inl ht
        · cases h
        · cases h
        · next u html ht =>
          right
          simp only [finishX] at h
          split at h
          · cases h
          · next s0 _ =>
            split at h
            · next hp => exact ⟨u, html, s0, ht, postX_none hp⟩
            · cases h

/-- **without fenced_code, `convertX = oof` means that the inline processor ran out of fuel** -/
theorem convertX_oof_nofence {x : Exts} {cfg : Cfg} {src : Str} (hf : x.fencedCode = false)
    (htab : x.admonition = true → 0 < cfg.tab) (h : convertX x cfg src = .oof) :
    ∃ root log, blockStageX x cfg src = .ok (root, log, []) ∧
      InlineX.runX (inlineCfgX x cfg log) root [] = none := by
  rcases convertX_oof h with h1 | ⟨u, html, s, ht, hs⟩
  · exact treeX_oof_nofence hf htab h1
  · exfalso
    obtain ⟨root, log, stash, t, xs, hb, hr, hl⟩ := treeX_ok ht
    obtain ⟨text, hp⟩ := blockStageX_stash hb
    have := prepareX_stash hf hp
    subst this
    have := lateStageX_ok hl
    subst this
    exact rawHtml_ne_none (runX_html_nil hr) s hs

/-! ### the inline stage over the core table -/

/-- without footnotes, wikilinks and nl2br the pattern table is the core one -/
theorem inlineCfgX_core {x : Exts} (cfg : Cfg) (log : Block.Refs)
    (hx : x.footnotes = false ∧ x.wikilinks = false ∧ x.nl2br = false) :
    inlineCfgX x cfg log =
      InlineX.xcCore { esc := escX x cfg, refs := (refsX x log).reverse } ((BlockExt.footnotesOf log).map (·.1)) := by
  simp only [inlineCfgX, InlineX.xcCore, hx.1, hx.2.1, hx.2.2, table_core]

/-- … and the two loops of `runX` terminate on a tree without STX/ETX: the live loop within the model's fuel, the stack
    loop within `Inline.bigFuel` (`Inline.run_total_big`) -/
theorem runLoopX_total_core_table {x : Exts} (cfg : Cfg) (log : Block.Refs)
    (hx : x.footnotes = false ∧ x.wikilinks = false ∧ x.nl2br = false) (tree : Node) (html : List Str)
    (h : NoCtl.TreeNoCtl tree) (g : Nat) (hg : Inline.bigFuel tree ≤ g) :
    (InlineX.runLoopX (inlineCfgX x cfg log) (Inline.runFuel tree) g tree [[]] { st := { html := html } }).isSome
      = true := by
  rw [inlineCfgX_core cfg log hx]
  have e := InlineX.runLoopX_core { esc := escX x cfg, refs := (refsX x log).reverse }
    ((BlockExt.footnotesOf log).map (·.1)) Footnotes.State.empty (Inline.runFuel tree) g tree [[]] { html := html }
  have e2 : ({ st := { html := html } } : InlineX.XSt) = InlineX.lift Footnotes.State.empty { html := html } := rfl
  rw [e2, e, Option.isSome_map]
  exact Inline.run_total_big _ tree html (Inline.deep_of_treeNoCtl h) (Inline.runFuel tree)
    (by unfold Inline.runFuel; omega) g hg

/-- whenever the model's `runX` answers over the core table, it agrees with the run on any larger stack-loop fuel -/
theorem runX_agrees_core_table {x : Exts} (cfg : Cfg) (log : Block.Refs)
    (hx : x.footnotes = false ∧ x.wikilinks = false ∧ x.nl2br = false) (tree : Node) (html : List Str)
    (r : Node × InlineX.XSt) (h : InlineX.runX (inlineCfgX x cfg log) tree html = some r) (g : Nat)
    (hg : Inline.runFuel tree ≤ g) :
    InlineX.runLoopX (inlineCfgX x cfg log) (Inline.runFuel tree) g tree [[]] { st := { html := html } } = some r := by
  rw [inlineCfgX_core cfg log hx] at h ⊢
  have e2 : ({ st := { html := html } } : InlineX.XSt) = InlineX.lift Footnotes.State.empty { html := html } := rfl
  simp only [InlineX.runX] at h
  rw [e2, InlineX.runLoopX_core] at h ⊢
  cases hr : Inline.runLoop { esc := escX x cfg, refs := (refsX x log).reverse } (Inline.runFuel tree)
      (Inline.runFuel tree) tree [[]] { html := html } with
  | none => rw [hr] at h; cases h
  | some q =>
    rw [hr] at h
    rw [Inline.runLoop_mono _ (Nat.le_refl _) _ _ _ _ _ _ hg hr]
    exact h

end MdVerif.PipelineX
