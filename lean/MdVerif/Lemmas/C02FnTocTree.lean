/-
Helper lemmas for `Props/C02Fn.lean`, part 3: `TocTreeprocessor.run` (`Model/Ext/TocTree.lean`) on a tree without bad
tokens whose HEADINGS hold no STX.

`hdClean fmt el`: the serialisation of the heading `el` (after `remove_fnrefs`) holds no STX, and no attribute value of
`el` does.  Then everything `TocTreeprocessor` computes for `el` is free of STX: `unescape` is the identity on the
serialised heading, the postprocessors (raw-HTML restore, footnote postprocessor, `&` substitute) are the identity on
the inner HTML, `strip_tags`, `html.unescape`, `slugify`, `unique` write no STX (`Lemmas/C02FnTocStr.lean`); the name, the
id and the label of the token hold no STX.  So

* `run_clean`  — on a tree without bad tokens (`C02BigNB.NodeNB` at every element) all of whose headings are clean,
                 `run` answers `ok t'` (or `ood`: `html.unescape` / `slugify` outside the model), never `err`, `t'` holds
                 no bad token (the `div.toc` built from the tokens included), and the root keeps its tag and (when it is
                 no heading) its attributes.
Core Lean only.
-/
import MdVerif.Lemmas.C02FnTocStr
import MdVerif.Lemmas.C02FnOk
import MdVerif.Lemmas.BlockExtFuelErr
import MdVerif.Lemmas.Toc

namespace MdVerif.C02Toc
open Py TocTree C02BigNB

/-- the heading `el` is free of STX: its serialisation after `remove_fnrefs`, and its attribute values -/
def hdClean (fmt : Ser.Fmt) (el : Node) : Bool :=
  !(Ser.serialize fmt (rmFnNode el)).contains TreeProc.STX && el.attrs.all (fun kv => !kv.2.contains TreeProc.STX)

mutual
/-- every heading element `[Hh][1-6]` of the tree is free of STX -/
def hdsClean (fmt : Ser.Fmt) : Node → Bool
  | ⟨tag, attrs, text, ta, children, tail, tla⟩ =>
    (!isHeaderTag tag || hdClean fmt ⟨tag, attrs, text, ta, children, tail, tla⟩) && hdsCleanKids fmt children
def hdsCleanKids (fmt : Ser.Fmt) : List Node → Bool
  | [] => true
  | c :: r => hdsClean fmt c && hdsCleanKids fmt r
end

def ToksClean (toks : List Toc.Tok) : Prop := ∀ k ∈ toks, TreeProc.STX ∉ k.id ∧ TreeProc.STX ∉ k.name

theorem hdClean_iff {fmt : Ser.Fmt} {el : Node} : hdClean fmt el = true ↔
    TreeProc.STX ∉ Ser.serialize fmt (rmFnNode el) ∧ ∀ kv ∈ el.attrs, TreeProc.STX ∉ kv.2 := by
  simp [hdClean, List.all_eq_true]

/-! ### one heading -/

theorem renderInner_clean {env : Env} (hpost : ∀ s, TreeProc.STX ∉ s → env.post s = some s) {el : Node} {t : Str}
    (ht : el.tag = .name t) (hs : TreeProc.STX ∉ Ser.serialize env.fmt el) :
    ∃ inner, renderInner env el = .ok inner ∧ TreeProc.STX ∉ inner := by
  obtain ⟨m1, m2⟩ := Ser.serialize_name_mem env.fmt el t ht
  unfold renderInner
  rw [unescapeText_noSTX hs]
  simp only
  cases hf : find ['>'] (Ser.serialize env.fmt el) with
  | none => exact absurd hf (mem_find_ne_none m2)
  | some s =>
    cases hr : Post.rfind ['<'] (Ser.serialize env.fmt el) with
    | none => exact absurd hr (mem_rfind_ne_none m1)
    | some e =>
      simp only
      have hmid : TreeProc.STX ∉ strip (((Ser.serialize env.fmt el).take e).drop (s + 1)) :=
        strip_noSTX (drop_noSTX _ (take_noSTX _ hs))
      rw [hpost _ hmid]
      exact ⟨_, rfl, strip_noSTX hmid⟩

theorem find?_value_clean {attrs : List (Str × Str)} (h : ∀ kv ∈ attrs, TreeProc.STX ∉ kv.2) (k : Str) :
    TreeProc.STX ∉ ((attrs.find? (fun kv => kv.1 = k)).map (·.2)).getD [] := by
  cases hf : attrs.find? (fun kv => kv.1 = k) with
  | none => simp
  | some kv => simpa using h kv (List.mem_of_find?_eq_some hf)

/-- the `if "id" not in el.attrib` part of the loop body (as in `TocTree.heading`) -/
def idrOf (el : Node) (st : St) (name0 : Str) : R (List (Str × Str) × List Str) :=
  match el.getAttr idKey with
  | some _ => .ok (el.attrs, st.used)
  | none =>
    match htmlUnescape 0 name0 with
    | none => .ood
    | some u =>
      match slugify u with
      | none => .ood
      | some slug =>
        let r := Toc.unique slug st.used
        .ok (el.attrs ++ [(idKey, r.1)], r.2)

/-- **one heading whose strings hold no STX**: `ood` (outside the model) or `ok` with attribute values and a token free
    of STX -/
theorem heading_clean {env : Env} (hpost : ∀ s, TreeProc.STX ∉ s → env.post s = some s) {el : Node}
    (hh : isHeaderTag el.tag = true) (hc : hdClean env.fmt el = true) (st : St) (hst : ToksClean st.toks) :
    heading env el st = .ood ∨ ∃ attrs' st', heading env el st = .ok (attrs', st') ∧
      (∀ kv ∈ attrs', TreeProc.STX ∉ kv.2) ∧ ToksClean st'.toks := by
  obtain ⟨hser, hat⟩ := hdClean_iff.1 hc
  obtain ⟨t, ht⟩ := isHeaderTag_name hh
  obtain ⟨inner, hri, hin⟩ := renderInner_clean hpost (el := rmFnNode el) (t := t) (by rw [rmFnNode_tag, ht]) hser
  have hn0 : TreeProc.STX ∉ stripTags inner := stripTags_noSTX hin
  unfold heading
  rw [hri]
  simp only
  -- the id
  have hidr : idrOf el st (stripTags inner) = .ood ∨
      ∃ attrs used, idrOf el st (stripTags inner) = .ok (attrs, used) ∧ ∀ kv ∈ attrs, TreeProc.STX ∉ kv.2 := by
    unfold idrOf
    cases el.getAttr idKey with
    | some _ => exact Or.inr ⟨_, _, rfl, hat⟩
    | none =>
      simp only
      cases hu : htmlUnescape 0 (stripTags inner) with
      | none => exact Or.inl rfl
      | some u =>
        simp only
        cases hsl : slugify u with
        | none => exact Or.inl rfl
        | some slug =>
          refine Or.inr ⟨_, _, rfl, ?_⟩
          intro kv hkv
          rcases List.mem_append.1 hkv with hkv | hkv
          · exact hat kv hkv
          · simp only [List.mem_singleton] at hkv
            subst hkv
            exact unique_noSTX st.used (slugify_noSTX hsl)
  split
  · next hq =>
    exfalso
    have e : idrOf el st (stripTags inner) = .oof := hq
    rcases hidr with h | ⟨_, _, h, _⟩ <;> rw [h] at e <;> cases e
  · next hq =>
    exfalso
    have e : idrOf el st (stripTags inner) = .err := hq
    rcases hidr with h | ⟨_, _, h, _⟩ <;> rw [h] at e <;> cases e
  · exact Or.inl rfl
  · next attrs used hq =>
    right
    have e : idrOf el st (stripTags inner) = .ok (attrs, used) := hq
    have hattrs : ∀ kv ∈ attrs, TreeProc.STX ∉ kv.2 := by
      rcases hidr with h | ⟨a, u, h, ha⟩
      · rw [h] at e; cases e
      · rw [h] at e
        simp only [R.ok.injEq, Prod.mk.injEq] at e
        rw [← e.1]; exact ha
    -- the label
    have hlbl : TreeProc.STX ∉ ((attrs.find? (fun kv => kv.1 = labelKey)).map (·.2)).getD [] :=
      find?_value_clean hattrs labelKey
    have hidv : TreeProc.STX ∉ ((attrs.find? (fun kv => kv.1 = idKey)).map (·.2)).getD [] :=
      find?_value_clean hattrs idKey
    cases hf : (attrs.find? (fun kv => kv.1 = labelKey)).map (·.2) with
    | none =>
      simp only
      rw [unescapeText_noSTX hidv]
      refine ⟨_, _, rfl, hattrs, ?_⟩
      intro k hk
      rcases List.mem_append.1 hk with hk | hk
      · exact hst k hk
      · simp only [List.mem_singleton] at hk
        subst hk
        exact ⟨hidv, hn0⟩
    | some lbl =>
      rw [hf] at hlbl
      simp only [Option.getD_some] at hlbl
      simp only
      rw [unescapeText_noSTX hlbl]
      simp only
      rw [hpost _ hlbl]
      simp only
      have hdel : ∀ kv ∈ attrDel attrs labelKey, TreeProc.STX ∉ kv.2 := fun kv hkv =>
        hattrs kv (List.mem_filter.1 hkv).1
      have hidv' : TreeProc.STX ∉ (((attrDel attrs labelKey).find? (fun kv => kv.1 = idKey)).map (·.2)).getD [] :=
        find?_value_clean hdel idKey
      rw [unescapeText_noSTX hidv']
      refine ⟨_, _, rfl, hdel, ?_⟩
      intro k hk
      rcases List.mem_append.1 hk with hk | hk
      · exact hst k hk
      · simp only [List.mem_singleton] at hk
        subst hk
        exact ⟨hidv', escCdata_noSTX (stripTags_noSTX (strip_noSTX hlbl))⟩

/-! ### the walk -/

theorem nodeNB_attrs {n : Node} (h : NodeNB n) {attrs' : List (Str × Str)} (ha : ∀ kv ∈ attrs', NB kv.2) :
    NodeNB { n with attrs := attrs' } := ⟨h.1, h.2.1, ha⟩

mutual
theorem walkNode_clean {env : Env} (hpost : ∀ s, TreeProc.STX ∉ s → env.post s = some s) :
    ∀ (n : Node) (st : St), hdsClean env.fmt n = true → n.Forall NodeNB → ToksClean st.toks →
      walkNode env n st = .ood ∨ ∃ n' st', walkNode env n st = .ok (n', st') ∧ n'.Forall NodeNB ∧
        ToksClean st'.toks ∧ n'.tag = n.tag ∧ (isHeaderTag n.tag = false → n'.attrs = n.attrs)
  | ⟨tag, attrs, text, ta, children, tail, tla⟩, st, hc, hnb, hst => by
    simp only [hdsClean, Bool.and_eq_true, Bool.or_eq_true, Bool.not_eq_true'] at hc
    simp only [Node.Forall] at hnb
    unfold walkNode
    -- the heading part
    have hhr : (if isHeaderTag tag then heading env ⟨tag, attrs, text, ta, children, tail, tla⟩ st
          else (R.ok (attrs, st) : R (List (Str × Str) × St))) = .ood ∨
        ∃ attrs' st1, (if isHeaderTag tag then heading env ⟨tag, attrs, text, ta, children, tail, tla⟩ st
          else (R.ok (attrs, st) : R (List (Str × Str) × St))) = .ok (attrs', st1) ∧
          (∀ kv ∈ attrs', NB kv.2) ∧ ToksClean st1.toks ∧ (isHeaderTag tag = false → attrs' = attrs) := by
      cases hh : isHeaderTag tag with
      | false =>
        simp only [Bool.false_eq_true, if_false]
        exact Or.inr ⟨attrs, st, rfl, hnb.1.2.2, hst, fun _ => rfl⟩
      | true =>
        simp only [if_true]
        have hcl : hdClean env.fmt ⟨tag, attrs, text, ta, children, tail, tla⟩ = true := by
          rcases hc.1 with h | h
          · rw [hh] at h; cases h
          · exact h
        rcases heading_clean hpost (el := ⟨tag, attrs, text, ta, children, tail, tla⟩) hh hcl st hst with h | ⟨a, s1, h, ha, hs1⟩
        · exact Or.inl h
        · exact Or.inr ⟨a, s1, h, fun kv hkv => nb_of_noSTX (ha kv hkv), hs1, fun hf => by cases hf⟩
    rcases hhr with hood | ⟨attrs', st1, hok, hattrs', hst1, hsame⟩
    · left; rw [hood]
    · rw [hok]
      simp only
      rcases walkKids_clean hpost children st1 hc.2 hnb.2 hst1 with hk | ⟨ks, st2, hk, hks, hst2⟩
      · left; rw [hk]
      · right
        rw [hk]
        refine ⟨_, _, rfl, ?_, hst2, rfl, hsame⟩
        simp only [Node.Forall]
        exact ⟨⟨hnb.1.1, hnb.1.2.1, hattrs'⟩, hks⟩
theorem walkKids_clean {env : Env} (hpost : ∀ s, TreeProc.STX ∉ s → env.post s = some s) :
    ∀ (l : List Node) (st : St), hdsCleanKids env.fmt l = true → Node.ForallL NodeNB l → ToksClean st.toks →
      walkKids env l st = .ood ∨ ∃ l' st', walkKids env l st = .ok (l', st') ∧ Node.ForallL NodeNB l' ∧
        ToksClean st'.toks
  | [], st, _, _, hst => by
    right
    exact ⟨[], st, by simp [walkKids], by simp [Node.ForallL], hst⟩
  | c :: r, st, hc, hnb, hst => by
    simp only [hdsCleanKids, Bool.and_eq_true] at hc
    simp only [Node.ForallL] at hnb
    unfold walkKids
    rcases walkNode_clean hpost c st hc.1 hnb.1 hst with h | ⟨c', st1, h, hc', hst1, _, _⟩
    · left; rw [h]
    · rw [h]
      simp only
      rcases walkKids_clean hpost r st1 hc.2 hnb.2 hst1 with hk | ⟨r', st2, hk, hr', hst2⟩
      · left; rw [hk]
      · right
        rw [hk]
        exact ⟨_, _, rfl, by simp only [Node.ForallL]; exact ⟨hc', hr'⟩, hst2⟩
end

/-! ### the `div.toc` -/

theorem nodeS_leaf (tag : String) : TokG.NodeS (el tag) := ⟨rfl, rfl, fun _ h => by cases h⟩

mutual
theorem buildLi_S : (t : Toc.TokTree) → (∀ k ∈ t.flatten, TreeProc.STX ∉ k.id ∧ TreeProc.STX ∉ k.name) →
    (buildLi t).Forall TokG.NodeS
  | .mk t cs, h => by
    have ht := h t (by simp [Toc.TokTree.flatten])
    have hcs : ∀ k ∈ Toc.flattenList cs, TreeProc.STX ∉ k.id ∧ TreeProc.STX ∉ k.name := fun k hk =>
      h k (by simp [Toc.TokTree.flatten, hk])
    have ha : ({ el "a" with text := some t.name, attrs := [("href".toList, '#' :: t.id)] } : Node).Forall TokG.NodeS := by
      rw [Node.forall_iff]
      refine ⟨⟨TokG.SOk_of_noSTX ht.2, rfl, ?_⟩, fun c hc => by cases hc⟩
      intro kv hkv
      simp only [List.mem_singleton] at hkv
      subst hkv
      refine TokG.SOkA_of_noSTX ?_
      intro hm
      rcases List.mem_cons.1 hm with hm | hm
      · revert hm; decide
      · exact ht.1 hm
    unfold buildLi
    rw [Node.forall_iff]
    refine ⟨⟨rfl, rfl, fun _ h => by cases h⟩, ?_⟩
    intro c hc
    simp only [List.mem_cons] at hc
    rcases hc with rfl | hc
    · exact ha
    · cases cs with
      | nil => cases hc
      | cons c0 cs0 =>
        simp only [List.mem_singleton] at hc
        subst hc
        rw [Node.forall_iff]
        exact ⟨⟨rfl, rfl, fun _ h => by cases h⟩, (Node.forallL_iff _ _).1 (buildLis_S (c0 :: cs0) hcs)⟩
theorem buildLis_S : (cs : List Toc.TokTree) → (∀ k ∈ Toc.flattenList cs, TreeProc.STX ∉ k.id ∧ TreeProc.STX ∉ k.name) →
    Node.ForallL TokG.NodeS (buildLis cs)
  | [], _ => by simp [buildLis, Node.ForallL]
  | c :: r, h => by
    simp only [buildLis, Node.ForallL]
    exact ⟨buildLi_S c (fun k hk => h k (by simp [Toc.flattenList, hk])),
      buildLis_S r (fun k hk => h k (by simp [Toc.flattenList, hk]))⟩
end

/-- `build_toc_div` from tokens without STX: no bad token -/
theorem buildDiv_NB (bl : List Str) {toks : List Toc.Tok} (h : ToksClean toks) : (buildDiv bl toks).Forall NodeNB := by
  unfold buildDiv
  refine C02Fn.forallNB_of_S (TokG.prettify_S ?_ bl)
  rw [Node.forall_iff]
  refine ⟨⟨rfl, rfl, ?_⟩, ?_⟩
  · intro kv hkv
    simp only [List.mem_singleton] at hkv
    subst hkv; decide
  · intro c hc
    simp only [List.mem_singleton] at hc
    subst hc
    unfold buildUl
    rw [Node.forall_iff]
    refine ⟨⟨rfl, rfl, fun _ h => by cases h⟩, ?_⟩
    refine (Node.forallL_iff _ _).1 (buildLis_S _ ?_)
    rw [Toc.nestToc_flatten]
    exact h

mutual
theorem replNode_NB {div : Node} (hd : div.Forall NodeNB) : (n : Node) → n.Forall NodeNB → (replNode div n).Forall NodeNB
  | ⟨tag, attrs, text, ta, children, tail, tla⟩, h => by
    simp only [Node.Forall] at h
    simp only [replNode, Node.Forall]
    exact ⟨h.1, replKids_NB hd children h.2⟩
theorem replKids_NB {div : Node} (hd : div.Forall NodeNB) : (l : List Node) → Node.ForallL NodeNB l →
    Node.ForallL NodeNB (replKids div l)
  | [], _ => by simp [replKids, Node.ForallL]
  | c :: r, h => by
    simp only [Node.ForallL] at h
    simp only [replKids]
    split
    · simp only [Node.ForallL]; exact ⟨h.1, replKids_NB hd r h.2⟩
    · split
      · simp only [Node.ForallL]; exact ⟨hd, replKids_NB hd r h.2⟩
      · simp only [Node.ForallL]; exact ⟨replNode_NB hd c h.1, replKids_NB hd r h.2⟩
end

theorem replNode_shell (div n : Node) : (replNode div n).tag = n.tag ∧ (replNode div n).attrs = n.attrs := by
  obtain ⟨tag, attrs, text, ta, children, tail, tla⟩ := n
  simp [replNode]

/-! ### `run` -/

mutual
theorem idsOf_NB : (n : Node) → n.Forall NodeNB → ∀ i ∈ idsOf n, NB i
  | ⟨tag, attrs, text, ta, children, tail, tla⟩, h => by
    simp only [Node.Forall] at h
    intro i hi
    simp only [idsOf, List.mem_append] at hi
    rcases hi with hi | hi
    · cases hf : attrs.find? (fun kv => kv.1 = idKey) with
      | none => rw [hf] at hi; cases hi
      | some kv =>
        rw [hf] at hi
        simp only [List.mem_singleton] at hi
        subst hi
        exact h.1.2.2 kv (List.mem_of_find?_eq_some hf)
    · exact idsOfKids_NB children h.2 i hi
theorem idsOfKids_NB : (l : List Node) → Node.ForallL NodeNB l → ∀ i ∈ idsOfKids l, NB i
  | [], _ => by intro i hi; simp [idsOfKids] at hi
  | c :: r, h => by
    simp only [Node.ForallL] at h
    intro i hi
    simp only [idsOfKids, List.mem_append] at hi
    rcases hi with hi | hi
    · exact idsOf_NB c h.1 i hi
    · exact idsOfKids_NB r h.2 i hi
end

theorem usedIds_NB : ∀ (l : List Str), (∀ i ∈ l, NB i) → usedIds l ≠ none := by
  intro l
  induction l with
  | nil => intro _ h; simp [usedIds] at h
  | cons i r ih =>
    intro h hn
    have hi : TreeProc.unescapeText 0 i ≠ none := fun e => h i List.mem_cons_self ((TreeProc.C02_unescape_raises_iff i).1 e)
    have hr := ih (fun j hj => h j (List.mem_cons_of_mem _ hj))
    unfold usedIds at hn
    cases hu : TreeProc.unescapeText 0 i with
    | none => exact hi hu
    | some u =>
      cases hv : usedIds r with
      | none => exact hr hv
      | some v => rw [hu, hv] at hn; cases hn

/-- **`TocTreeprocessor.run` on a tree without bad tokens whose headings hold no STX**: never `err`; `ok t'` with `t'`
    free of bad tokens and the root's tag (and, when the root is no heading, attributes) kept — or `ood` -/
theorem run_clean {env : Env} (hpost : ∀ s, TreeProc.STX ∉ s → env.post s = some s) (bl : List Str) (root : Node)
    (hc : hdsClean env.fmt root = true) (hnb : root.Forall NodeNB) :
    run env bl root = .ood ∨ ∃ t', run env bl root = .ok t' ∧ t'.Forall NodeNB ∧ t'.tag = root.tag ∧
      (isHeaderTag root.tag = false → t'.attrs = root.attrs) := by
  unfold run
  cases hu : usedIds (idsOf root) with
  | none => exact absurd hu (usedIds_NB _ (idsOf_NB root hnb))
  | some used =>
    simp only
    rcases walkNode_clean hpost root { used := used, toks := [] } hc hnb (by intro k hk; cases hk) with
      h | ⟨r', st', h, hr', hst', htag, hattrs⟩
    · left; rw [h]
    · right
      rw [h]
      refine ⟨_, rfl, replNode_NB (buildDiv_NB bl hst') r' hr', ?_, ?_⟩
      · rw [(replNode_shell _ r').1, htag]
      · intro hh
        rw [(replNode_shell _ r').2, hattrs hh]

end MdVerif.C02Toc
