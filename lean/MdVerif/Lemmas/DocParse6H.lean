/-
Helper lemmas for C01 with inline links in ATX and Setext headings (`Props/C01iH.lean`): the heading as an `Elem`
(the stages of `Lemmas/RefTextInl*.lean`, which are stated for the tag `p`, for the tags `h1` … `h6`), the block stage on
a heading line whose content may start with `[`, the pieces, the blocks and the document.  Mirrors
`Lemmas/DocParse5.lean`.  Core Lean only.
-/
import MdVerif.Lemmas.DocParse5
import MdVerif.Spec.DocFlat3

namespace MdVerif.DocLinkH
open Py Inline Escape DocSpec CodeLaw DocParse Block DocParse2 RefText DocLink

/-! ### 1. the heading as an element -/

/-- what the stages need of the tag of the element -/
structure HTagOK (tg : Str) : Prop where
  block : TreeProc.isBlockLevel TreeProc.defaultBlockLevel (.name tg) = true
  br : (Tag.name tg == Tag.name "br".toList) = false
  pre : (Tag.name tg == Tag.name "pre".toList) = false
  code : (Tag.name tg == Tag.name "code".toList) = false
  empty : Ser.isEmptyTag tg = false
  rawText : Ser.isRawTextTag tg = false
  stx : Post.STX ∉ tg
  ul : tg ≠ ['u', 'l']
  ol : tg ≠ ['o', 'l']
  npre : tg ≠ ['p', 'r', 'e']

theorem hTagOK (lv : Nat) (h1 : 1 ≤ lv) (h6 : lv ≤ 6) : HTagOK ('h' :: natToDec lv) := by
  have : lv = 1 ∨ lv = 2 ∨ lv = 3 ∨ lv = 4 ∨ lv = 5 ∨ lv = 6 := by omega
  rcases this with rfl | rfl | rfl | rfl | rfl | rfl <;>
    exact ⟨by decide, by decide, by decide, by decide, by decide, by decide, by decide, by decide, by decide, by decide⟩

/-- the heading element after the inline processor -/
def hMid (tg : Str) (esc : List Char) (C0 : Chunk) (us : List RUse) : Node :=
  { tag := .name tg, text := optStr (coded esc C0.t0),
    children := C0.segs.map (tailedM esc) ++ usKids esc us }

/-- the heading after prettify -/
def hPretty (tg : Str) (esc : List Char) (C0 : Chunk) (us : List RUse) : Node :=
  { tag := .name tg, text := optStr (coded esc C0.t0),
    children := C0.segs.map (tailedM esc) ++ usKids esc us, tail := some ['\n'] }

/-- the heading after unescape -/
def hFin (tg : Str) (C0 : Chunk) (us : List RUse) : Node :=
  { tag := .name tg, text := optStr C0.t0, children := C0.segs.map tailedFinM ++ usKidsFin us,
    tail := some ['\n'] }

def hSrc (tg : Str) (X : Str) : Node := { tag := .name tg, text := some X }

/-- **the heading through `__handleInline` and `__processPlaceholders`** -/
theorem visitChild_lineIH (tg : Str) (cfg : Inline.Cfg) (hE : EscOK cfg.esc) (hrb : ']' ∈ cfg.esc) (C0 : Chunk)
    (is : List IUse)
    (h0 : ChunkOK cfg.esc C0) (hus : ∀ u ∈ is, IUseOK cfg.esc u) (hvis : ∀ u ∈ is, u.T.Vis) (hne : is ≠ []) (v : Visit) :
    visitChild cfg (hSrc tg (lineRawI cfg.esc C0 is)) v =
      some (hMid tg cfg.esc C0 (is.map IUse.toR), [],
        { v with pushes := ((List.range (C0.segs.map (tailedM cfg.esc) ++ usKids cfg.esc (is.map IUse.toR)).length).map
                    (fun k => [v.done.length, k])).reverse ++ v.pushes,
                 st := { v.st with stash := v.st.stash ++ lineStash cfg.esc v.st.stash.length C0 (is.map IUse.toR) } }) := by
  have hrne : is.map IUse.toR ≠ [] := by simpa using hne
  have h1 := handleInlineTop_lineI cfg hE hrb C0 is v.st h0 hus
  obtain ⟨hat0, hatU⟩ := line_at cfg.esc v.st.stash C0 (is.map IUse.toR)
  obtain ⟨f, hf⟩ : ∃ f, (v.st.stash ++ lineStash cfg.esc v.st.stash.length C0 (is.map IUse.toR)).length = f + 1 := by
    have := lineStash_length_pos cfg.esc v.st.stash.length C0 (is.map IUse.toR) hrne
    exact ⟨(v.st.stash ++ lineStash cfg.esc v.st.stash.length C0 (is.map IUse.toR)).length - 1, by
      rw [List.length_append]; omega⟩
  have hpp : ∀ r ∈ is.map IUse.toR, UsePP r := by
    intro r hr
    obtain ⟨u, hu, rfl⟩ := List.mem_map.1 hr
    exact ⟨hvis u hu, (chunkOK_pp (hus u hu).text).1, (chunkOK_pp (hus u hu).text).2,
      (chunkOK_pp (hus u hu).after).1, (chunkOK_pp (hus u hu).after).2⟩
  have h2 := ppTop_line cfg.esc { v.st with stash := v.st.stash ++ lineStash cfg.esc v.st.stash.length C0 (is.map IUse.toR) }
    f hf C0 (is.map IUse.toR) hrne { hSrc tg (lineRawI cfg.esc C0 is) with text := none, textAtomic := false }
    rfl rfl (mStart v.st.stash.length C0 (is.map IUse.toR)) v.st.stash.length
    (lStart cfg.esc v.st.stash.length C0 (is.map IUse.toR))
    (o1Start cfg.esc v.st.stash.length C0 (is.map IUse.toR)) (o2Start cfg.esc v.st.stash.length C0 (is.map IUse.toR))
    hat0 hatU (chunkOK_pp h0).1 (chunkOK_pp h0).2 hpp
  have hres : lineRes cfg.esc v.st.stash.length C0 (is.map IUse.toR) =
      C0.stage cfg.esc 3 true (mStart v.st.stash.length C0 (is.map IUse.toR)) v.st.stash.length
        (o1Start cfg.esc v.st.stash.length C0 (is.map IUse.toR)) (o2Start cfg.esc v.st.stash.length C0 (is.map IUse.toR)) ++
      outStage cfg.esc 3 (o1Start cfg.esc v.st.stash.length C0 (is.map IUse.toR) + C0.cnt 1)
        (o2Start cfg.esc v.st.stash.length C0 (is.map IUse.toR) + C0.cnt 2)
        (usOuter cfg.esc (mStart v.st.stash.length C0 (is.map IUse.toR) + C0.escs cfg.esc) (v.st.stash.length + C0.cnt 0)
          (lStart cfg.esc v.st.stash.length C0 (is.map IUse.toR)) (is.map IUse.toR)) := rfl
  rw [← hres] at h2
  have htr := truthy_some (lineRawI_ne_nil cfg.esc C0 is hne)
  simp only [visitChild, hSrc, htr, Bool.not_false, Bool.and_self, if_true, Option.getD_some, h1]
    at h2 ⊢
  rw [h2]
  simp [hMid, Node.truthy]

theorem pretty_hMid (tg : Str) (hT : HTagOK tg) (esc : List Char) (C0 : Chunk) (us : List RUse) :
    TreeProc.mapTree TreeProc.preRule (TreeProc.mapTree TreeProc.brRule
      (TreeProc.prettifyETree TreeProc.defaultBlockLevel (hMid tg esc C0 us))) = hPretty tg esc C0 us := by
  have hp := hT.block
  have hbr := hT.br
  have hpre := hT.pre
  have hcode := hT.code
  have hkids : TreeProc.prettifyKids TreeProc.defaultBlockLevel (C0.segs.map (tailedM esc) ++ usKids esc us) =
      C0.segs.map (tailedM esc) ++ usKids esc us := by
    rw [prettifyKids_append, prettifyKids_tailedM, prettifyKids_usKids]
  have hfirst : ∀ c r, C0.segs.map (tailedM esc) ++ usKids esc us = c :: r →
      TreeProc.isBlockLevel TreeProc.defaultBlockLevel c.tag = false := by
    intro c r h
    cases hs : C0.segs with
    | nil =>
      cases us with
      | nil => simp [hs, usKids] at h
      | cons u r' =>
        simp only [hs, List.map_nil, List.nil_append, usKids_cons, List.cons.injEq] at h
        rw [← h.1]; exact bl_a
    | cons s r' =>
      simp only [hs, List.map_cons, List.cons_append, List.cons.injEq] at h
      rw [← h.1]; exact bl_tailedM esc s
  have h1 : TreeProc.prettifyETree TreeProc.defaultBlockLevel (hMid tg esc C0 us) = hPretty tg esc C0 us := by
    simp only [hMid, hPretty]
    generalize hK : C0.segs.map (tailedM esc) ++ usKids esc us = K at hkids hfirst
    cases K with
    | nil => simp [TreeProc.prettifyETree, TreeProc.prettifyKids, TreeProc.blankOrNone, Node.truthy]
    | cons c r =>
      have hb := hfirst c r rfl
      simp only [TreeProc.prettifyETree, hp, hcode, hpre, Bool.not_false, Bool.and_self, if_true, hkids, hb,
        Bool.and_false, Bool.false_eq_true, if_false, TreeProc.blankOrNone, Node.truthy, Bool.true_or]
  rw [h1]
  simp only [hPretty, TreeProc.mapTree, TreeProc.brRule, TreeProc.preRule, TreeProc.tagIs, hbr, hpre,
    Bool.false_eq_true, if_false, mapKids_append, mapKids_tailedM, mapKids_usKids]

theorem unesc_hPrettyG (tg : Str) (hT : HTagOK tg) {cfg : Inline.Cfg} (C0 : Chunk) (us : List RUse)
    (h0 : ChunkOK cfg.esc C0)
    (hus : ∀ u ∈ us, UseCh cfg.esc u) (ha : ∀ u ∈ us, UseAttrOK u) :
    TreeProc.unescapeTree (hPretty tg cfg.esc C0 us) = some (hFin tg C0 us) := by
  have hcode := hT.code
  have hnl : TreeProc.unescapeText 0 ['\n'] = some ['\n'] := by decide
  have h := unescOpt_coded cfg.esc C0.t0 (chunkOK_pp h0).1
  have hk0 := unescapeKids_tailedM cfg.esc C0.segs
    (fun s hs => ⟨((chunkOK_pp h0).2 s hs).1, fine_of_ok s.k (h0.ok s hs) (h0.clean s hs)⟩)
  have hk := unescapeKids_append _ _ _ _ hk0 (unescapeKids_usKidsG us hus ha)
  have t1 : Node.truthy (some ['\n']) = true := rfl
  simp only [hPretty, hFin, TreeProc.unescapeTree, hcode, Bool.not_false, Bool.and_true, h, hk, TreeProc.unescAttrs, t1,
    if_true, Option.getD_some, hnl, Option.map_some]
  by_cases ht : Node.truthy (optStr (coded cfg.esc C0.t0)) = true <;> simp [ht]

def hOut (tg : Str) (C0 : Chunk) (is : List IUse) : Str :=
  '<' :: tg ++ ['>'] ++ (C0.out ++ usOut (is.map IUse.toR)) ++ ('<' :: '/' :: tg ++ ['>'])

theorem ser_hFinG (tg : Str) (hT : HTagOK tg) {cfg : Inline.Cfg} (C0 : Chunk) (is : List IUse)
    (h0 : ChunkOK cfg.esc C0)
    (hus : ∀ u ∈ is.map IUse.toR, UseCh cfg.esc u) :
    Ser.serialize .xhtml (hFin tg C0 (is.map IUse.toR)) = hOut tg C0 is ++ ['\n'] := by
  have h2 := hT.empty
  have h4 := hT.rawText
  have e7 : Ser.escCdata ['\n'] = ['\n'] := by decide
  have t1 : Node.truthy (some ['\n']) = true := rfl
  have hk0 := serializeList_tailedM C0.segs (fun s hs => fine_of_ok s.k (h0.ok s hs) (h0.clean s hs))
  simp only [hFin]
  rw [serialize_plain _ _ _ _ _ _ _ h2 h4, serializeList_append, hk0, serializeList_usKidsFinG _ hus, optEsc_optStr]
  simp [t1, e7, Chunk.out, hOut, List.append_assoc]

def hElem (tg : Str) (esc : List Char) (C0 : Chunk) (is : List IUse) : Elem :=
  ⟨hSrc tg (lineRawI esc C0 is), hMid tg esc C0 (is.map IUse.toR),
   fun n => lineStash esc n C0 (is.map IUse.toR),
   fun i => ((List.range (lKids esc C0 is).length).map (fun k => [i, k])).reverse,
   hPretty tg esc C0 (is.map IUse.toR), hFin tg C0 (is.map IUse.toR), hOut tg C0 is⟩

theorem hElem_ok (tg : Str) (hT : HTagOK tg) (cfg : Inline.Cfg) (hE : EscOK cfg.esc) (hrb : ']' ∈ cfg.esc)
    (C0 : Chunk) (is : List IUse)
    (h0 : ChunkOK cfg.esc C0) (hus : ∀ u ∈ is, IUseOK cfg.esc u) (hvis : ∀ u ∈ is, u.T.Vis) (hne : is ≠ []) :
    ElemOK cfg (hElem tg cfg.esc C0 is) := by
  have hch := useCh_map hus
  have hattr := useAttrOK_map hus
  have hlenraw : C0.escs cfg.esc + C0.cnt 0 + C0.cnt 1 + C0.cnt 2 + (usEscs cfg.esc (is.map IUse.toR) +
      usCnt0 (is.map IUse.toR) + usLinkLen (is.map IUse.toR) + usOutCnt 1 (is.map IUse.toR) +
      usOutCnt 2 (is.map IUse.toR)) ≤ (lineRawI cfg.esc C0 is).length := by
    have h1 := chunk_raw_length cfg.esc C0 h0.ok
    have h2 := usRawI_length is hus 0 0
    rw [lineRawI, List.length_append]; omega
  have hsize : Inline.size (hElem tg cfg.esc C0 is).src = 1 + (lineRawI cfg.esc C0 is).length := by
    simp [hElem, hSrc, Inline.size, Inline.sizeList]
  have hw : ((lKids cfg.esc C0 is).map (fun c => 1 + below c)).sum ≤ (lineRawI cfg.esc C0 is).length := by
    have h1 := weight_usKids cfg.esc (is.map IUse.toR) (fun u hu => ⟨(hch u hu).text.ok, (hch u hu).after.ok⟩)
    have h2 := nodes_length C0.segs h0.ok
    simp only [lKids, List.map_append, List.sum_append, weight_tailedM, h1]
    simp only [Chunk.cnt] at hlenraw
    omega
  have hklen : (lKids cfg.esc C0 is).length ≤ (lineRawI cfg.esc C0 is).length := by
    have h1 := usKids_length cfg.esc (is.map IUse.toR) (fun u hu => (hch u hu).after.ok)
    have h2 := nodes_length C0.segs h0.ok
    simp only [lKids, List.length_append, List.length_map]
    simp only [Chunk.cnt] at hlenraw
    omega
  refine ⟨fun v => visitChild_lineIH tg cfg hE hrb C0 is h0 hus hvis hne v, fun i => ?_, fun i => ?_, fun i q hq => ?_,
    hT.block,
    pretty_hMid tg hT cfg.esc C0 (is.map IUse.toR), unesc_hPrettyG tg hT C0 (is.map IUse.toR) h0 hch hattr,
    ser_hFinG tg hT C0 is h0 hch, ?_⟩
  · rw [hsize]
    simp only [hElem, List.length_reverse, List.length_map, List.length_range]
    omega
  · rw [hsize]
    have := mStack_range_all (hMid tg cfg.esc C0 (is.map IUse.toR)) i
    have e1 : (hMid tg cfg.esc C0 (is.map IUse.toR)).children = lKids cfg.esc C0 is := rfl
    rw [e1] at this
    show mStack (hMid tg cfg.esc C0 (is.map IUse.toR)) _ ≤ _
    simp only [hElem]
    rw [this]
    omega
  · simp only [hElem, List.mem_reverse, List.mem_map, List.mem_range] at hq
    obtain ⟨k, hk, rfl⟩ := hq
    obtain ⟨kid, hkid⟩ : ∃ kid, (lKids cfg.esc C0 is)[k]? = some kid := by
      cases hx : (lKids cfg.esc C0 is)[k]? with
      | none => rw [List.getElem?_eq_none_iff] at hx; omega
      | some kid => exact ⟨kid, rfl⟩
    have hmem : kid ∈ C0.segs.map (tailedM cfg.esc) ++ usKids cfg.esc (is.map IUse.toR) := List.mem_of_getElem? hkid
    obtain ⟨hs1, hs2⟩ := kids_softG hE C0 (is.map IUse.toR) hch kid hmem
    refine ⟨[k], kid, rfl, ?_, ?_⟩
    · simp only [hElem, hMid, getAt]
      have : (C0.segs.map (tailedM cfg.esc) ++ usKids cfg.esc (is.map IUse.toR))[k]? = some kid := hkid
      rw [this]
    · apply stillBelow_of_childless cfg _ kid
      · rw [hsize]; omega
      · intro c hc
        exact ⟨fun v => visitChild_soft cfg c v (hs1 c hc).1, (hs1 c hc).2⟩
  · refine ⟨?_, rfl, ?_⟩
    · intro hm
      have hstx := hT.stx
      have e1 : Post.STX ≠ '<' := by decide
      have e2 : Post.STX ≠ '>' := by decide
      have e3 : Post.STX ≠ '/' := by decide
      have e4 := stx_not_mem_chunkOut C0 h0
      have e5 := stx_not_mem_usOutG (cfg := cfg) (is.map IUse.toR) hch hattr
      simp only [hElem, hOut, List.mem_append, List.mem_cons, List.not_mem_nil, e1, e2, e3, e4, e5, hstx,
        or_self] at hm
    · have e : (hElem tg cfg.esc C0 is).out =
          ('<' :: tg ++ ['>'] ++ (C0.out ++ usOut (is.map IUse.toR)) ++ ('<' :: '/' :: tg)) ++ ['>'] := by
        simp [hElem, hOut]
      rw [e, List.getLast?_append]; rfl

/-! ### 2. the block stage on a heading whose content may start with `[` -/

/-- what the heading processors need of the content `X` of a heading -/
structure RawH (X : Str) : Prop where
  shape : ∃ c tail, X = c :: tail ∧ isSpace c = false ∧ c ≠ '#'
  nl : '\n' ∉ X
  last : ∀ d, X.getLast? = some d → isSpace d = false
  walk : Walk X

/-- **A Setext heading**: as `produces_setext_raw`, for content that may start with `[` -/
theorem produces_setext_rawH (tab i : Nat) (hi : i < tab) (X : Str) (hX : RawH X) (lv k : Nat)
    (hlv : lv = 1 ∨ lv = 2) :
    Produces tab (spaces i ++ X ++ '\n' :: List.replicate (k + 1) (if lv = 1 then '=' else '-'))
      { tag := .name ('h' :: natToDec lv), text := some X } := by
  intro pb refs parent rest
  obtain ⟨c, tail, he, hcs, hch⟩ := hX.shape
  have hnl := hX.nl
  have hlast := hX.last
  have hcsp : c ≠ ' ' := by intro e; subst e; exact absurd hcs (by decide)
  have hcnl : c ≠ '\n' := by intro e; subst e; exact absurd hcs (by decide)
  generalize hu : (if lv = 1 then '=' else '-') = ch
  have hch2 : ch = '=' ∨ ch = '-' := by rw [← hu]; split <;> simp
  have hl1nl : '\n' ∉ spaces i ++ X := by
    intro hm; rcases List.mem_append.1 hm with hm | hm
    · exact absurd (List.eq_of_mem_replicate hm) (by decide)
    · exact hnl hm
  have hunl : '\n' ∉ List.replicate (k + 1) ch := by
    intro hm; have := List.eq_of_mem_replicate hm
    rcases hch2 with h | h <;> rw [h] at this <;> exact absurd this (by decide)
  have hlines : lines (spaces i ++ X ++ '\n' :: List.replicate (k + 1) ch) =
      [spaces i ++ X, List.replicate (k + 1) ch] := by
    unfold lines
    rw [splitC_append_nl _ _ (notNl_of_not_mem hl1nl), splitC_noNl _ (notNl_of_not_mem hunl)]
  have h4 : hashSearch (spaces i ++ X ++ '\n' :: List.replicate (k + 1) ch) = none := by
    have hh1 : (spaces i ++ X ++ '\n' :: List.replicate (k + 1) ch).head? ≠ some '#' := by
      rw [he, List.append_assoc, List.cons_append, head?_spaces_cons]; split <;> simp [hch]
    have hh2 : (List.replicate (k + 1) ch).head? ≠ some '#' := by
      rcases hch2 with h | h <;> simp [List.replicate_succ, h]
    have s1 := hashSearchNl_skip (spaces i ++ X) ('\n' :: List.replicate (k + 1) ch) 0
      (notNl_of_not_mem hl1nl)
    have s2 := hashSearchNl_skip (List.replicate (k + 1) ch) [] (0 + (spaces i ++ X).length + 1)
      (notNl_of_not_mem hunl)
    simp only [List.append_nil] at s2
    simp only [hashSearch, hashAt_none _ hh1, s1, hashSearchNl, if_true, hashAt_none _ hh2, s2]
  have h5 : setextMatch (spaces i ++ X ++ '\n' :: List.replicate (k + 1) ch) = true := by
    rw [setextMatch_eq]
    simp only [secondLine, hlines, List.getElem?_cons_succ, List.getElem?_cons_zero, setextLine2]
    have hp : (fun c => decide (c = '=') || decide (c = '-')) ch = true := by rcases hch2 with h | h <;> simp [h]
    rw [spanLen_replicate _ _ _ hp]
    simp
  generalize hb : spaces i ++ X ++ '\n' :: List.replicate (k + 1) ch = b at *
  have hb' : b = spaces i ++ c :: (tail ++ '\n' :: List.replicate (k + 1) ch) := by rw [← hb, he]; simp
  have h1 : b.isEmpty = false := by rw [hb']; cases i <;> simp [spaces, List.replicate_succ]
  have h2 : startsWith b ['\n'] = false := by
    rw [hb']; cases i <;> simp [spaces, List.replicate_succ, hcnl]
  have h3 : startsWith b (spaces tab) = false := by
    rw [hb']; exact startsWith_spaces_false _ tab c _ hi hcsp
  have hstrip : strip (spaces i ++ X) = X := by
    have := strip_append_of_blank (a := spaces i) (b := []) (by simp [isBlank, spaces]) (by simp [isBlank]) X
    simp only [List.append_nil] at this
    rw [this]
    exact strip_eq_self (fun d hd => by rw [he] at hd; cases hd; exact hcs) hlast
  have hlevel : (if startsWith (List.replicate (k + 1) ch) ['='] = true then 1 else 2) = lv := by
    rcases hlv with h | h
    · subst h; simp only [if_true] at hu; subst hu; simp [List.replicate_succ]
    · subst h; simp only [show (2 : Nat) ≠ 1 by decide, if_false] at hu; subst hu; simp [List.replicate_succ]
  unfold dispatch
  simp only [h1, h2, h3, h4, h5, Bool.or_self, Bool.false_eq_true, if_false, Bool.false_and, if_true]
  simp [setextP, hlines, hstrip, hlevel, hTag]

/-- **An ATX heading**: as `produces_atx_raw`, for content that may start with `[` -/
theorem produces_atx_rawH (tab : Nat) (htab : 0 < tab) (X : Str) (hX : RawH X) (lv : Nat) (h1 : 1 ≤ lv)
    (h6 : lv ≤ 6) (Y : Str) (hY : Y = [] ∨ ∃ m, Y = ' ' :: List.replicate m '#') :
    Produces tab (List.replicate lv '#' ++ ' ' :: (X ++ Y)) { tag := .name ('h' :: natToDec lv), text := some X } := by
  intro pb refs parent rest
  obtain ⟨c, tail, he, hcs, _⟩ := hX.shape
  have hlast := hX.last
  obtain ⟨ys, hys, hclose⟩ : ∃ ys, (ys = [] ∨ ys = [' ']) ∧ ∀ f, hashHeader (f + 2) Y = some (ys, Y.length) := by
    rcases hY with rfl | ⟨m, rfl⟩
    · exact ⟨[], Or.inl rfl, fun f => hashHeader_closing_nil (f + 1)⟩
    · exact ⟨[' '], Or.inr rfl, fun f => by rw [hashHeader_closing]; simp⟩
  generalize hb : List.replicate lv '#' ++ ' ' :: (X ++ Y) = b
  have hlen : b.length = lv + 1 + X.length + Y.length := by rw [← hb]; simp; omega
  have hdrop : b.drop lv = ' ' :: (X ++ Y) := by
    rw [← hb, List.drop_left' (by simp)]
  have hcount : countPrefix '#' (some 6) b = lv := by rw [← hb]; exact countHash_level lv 6 h6 _
  obtain ⟨f0, hf0⟩ : ∃ f0, b.length + 1 = ((f0 + 2) + X.length) + 1 := ⟨b.length - X.length - 2, by omega⟩
  have hhdr : hashHeader (b.length + 1) (b.drop lv) = some (' ' :: (X ++ ys), Y.length + X.length + 1) := by
    rw [hdrop, hf0]
    have hw := hX.walk (f0 + 2) Y ys Y.length (hclose f0)
    have hcl : hashClose (' ' :: (X ++ Y)) = none := hashClose_none_of_head _ _ (by decide) (by decide)
    simp [hashHeader, hcl, hw]
  have hat : hashAt b = some (lv, ' ' :: (X ++ ys), lv + (Y.length + X.length + 1)) := by
    unfold hashAt
    rw [hcount]
    apply firstDown_top _ 1 lv _ h1
    simp only [hhdr]
  have hen : lv + (Y.length + X.length + 1) = b.length := by rw [hlen]; omega
  have hsearch : hashSearch b = some (0, b.length, lv, ' ' :: (X ++ ys)) := by
    simp only [hashSearch, hat, hen]
  have hstrip : strip (' ' :: (X ++ ys)) = X := by
    have hbl : isBlank ys = true := by rcases hys with rfl | rfl <;> decide
    have := strip_append_of_blank (a := [' ']) (b := ys) (by decide) hbl X
    simp only [List.cons_append, List.nil_append] at this
    rw [this]
    exact strip_eq_self (fun d hd => by rw [he] at hd; cases hd; exact hcs) hlast
  have hb1 : ∃ r, b = '#' :: r := by
    obtain ⟨l', rfl⟩ : ∃ l', lv = l' + 1 := ⟨lv - 1, by omega⟩
    exact ⟨List.replicate l' '#' ++ ' ' :: (X ++ Y), by rw [← hb]; simp [List.replicate_succ]⟩
  obtain ⟨r0, hr0⟩ := hb1
  have g1 : b.isEmpty = false := by rw [hr0]; rfl
  have g2 : startsWith b ['\n'] = false := by rw [hr0]; simp
  have g3 : startsWith b (spaces tab) = false := by
    obtain ⟨tb, rfl⟩ : ∃ tb, tab = tb + 1 := ⟨tab - 1, by omega⟩
    rw [hr0]; simp [spaces, List.replicate_succ]
  unfold dispatch
  simp only [g1, g2, g3, Bool.or_self, Bool.false_eq_true, if_false, Bool.false_and, hsearch]
  simp [hashP, hstrip, hTag]

/-! ### 3. the printed line of a heading: characters, references, start, end, the header group -/

theorem endsOk_cons_ne (x : DocSpec.Inline) (R : List DocSpec.Inline) (h : R ≠ []) : endsOk (x :: R) = endsOk R := by
  cases R with
  | nil => exact absurd rfl h
  | cons y R' => cases x <;> rfl

theorem endsOk_append_ne (A R : List DocSpec.Inline) (h : R ≠ []) : endsOk (A ++ R) = endsOk R := by
  induction A with
  | nil => rfl
  | cons a A' ih => rw [List.cons_append, endsOk_cons_ne a _ (by simp [h]), ih]

theorem chunkW_last {c : List DocSpec.Inline} {C : Chunk} (h : ChunkW c C) (hen : endsOk c = true) :
    ∀ d, (C.raw ESC).getLast? = some d → isSpace d = false := by
  apply mix_raw_last ESC C.segs C.t0 h.ok.ok
  intro z hz
  rw [lastTextM_eq, h.smap, h.t0eq] at hz
  exact splitMix_last c h.items hen z hz

theorem chunkW_walk {c : List DocSpec.Inline} {C : Chunk} (h : ChunkW c C) : Walk (C.raw ESC) := by
  apply walk_append (walk_escAll escOK_generated C.t0 (fun hm => (plainCh_facts (h.plain _ (Or.inl hm))).2.1 rfl))
  apply walk_rawM escOK_generated
  intro s hs
  exact ⟨h.ok.ok s hs, fun hm => (src_chars s.k (h.q s hs) (h.printed s hs) _ hm).1 rfl,
    fun hm => (plainCh_facts (h.plain _ (Or.inr ⟨s, hs, hm⟩))).2.1 rfl⟩

theorem walk_paren (X : Str) (hnl : '\n' ∉ X) : Walk (X ++ [')']) := by
  apply hashHeader_walk _ _ (Nat.le_refl _) (by simp)
  · intro hm
    rcases List.mem_append.1 hm with hm | hm
    · exact hnl hm
    · simp at hm
  · intro z hz
    rw [List.getLast?_append] at hz
    simp at hz
    subst hz; exact ⟨by decide, by decide⟩

theorem usStageI_parts (m n0 : Nat) (u : IUse) (us : List IUse) :
    usStageI ESC 0 false m n0 (u :: us) =
      ['['] ++ (u.T.raw ESC ++ (((']' :: '(' :: destSrc u.url u.dtitle) ++ [')']) ++ (u.C.raw ESC ++
        usStageI ESC 0 false (m + u.T.escs ESC + u.C.escs ESC) (n0 + u.T.cnt 0 + u.C.cnt 0) us))) := by
  simp [usStageI, Chunk.stage_raw]

/-- the header group walks over the uses -/
theorem uses_walk : ∀ (ls : List LinkIt) (is : List IUse), LinksW ls is → ∀ (m n0 : Nat),
    '<' ∉ usStageI ESC 0 false m n0 is → Walk (usStageI ESC 0 false m n0 is) := by
  intro ls
  induction ls with
  | nil =>
    intro is h m n0 _
    cases is with
    | nil => simpa [usStageI] using walk_nil
    | cons _ _ => exact absurd h (by simp [LinksW])
  | cons l r ih =>
    intro is h m n0 hlt
    cases is with
    | nil => exact absurd h (by simp [LinksW])
    | cons u us =>
      rw [linksW_cons] at h
      obtain ⟨hu, hr⟩ := h
      rw [usStageI_parts] at hlt ⊢
      have hd : '\n' ∉ ']' :: '(' :: destSrc u.url u.dtitle := by
        intro hm
        simp only [List.mem_cons] at hm
        rcases hm with hm | hm | hm
        · exact absurd hm (by decide)
        · exact absurd hm (by decide)
        · exact (destSrc_chars hu.dest _ hm (by decide)).1 rfl
      have hb : Walk ['['] := by
        apply hashHeader_walk _ _ (Nat.le_refl _) (by simp) (by decide)
        intro z hz
        simp at hz
        subst hz; exact ⟨by decide, by decide⟩
      exact walk_append hb (walk_append (chunkW_walk hu.T) (walk_append (walk_paren _ hd) (walk_append (chunkW_walk hu.C)
        (ih us hr _ _ (fun hm => hlt (by simp [hm]))))))

/-- the last character of the uses -/
theorem uses_last : ∀ (ls : List LinkIt) (is : List IUse), LinksW ls is → ∀ (A : List DocSpec.Inline), ls ≠ [] →
    endsOk (joinLinks A ls) = true → ∀ (m n0 : Nat) (d : Char),
      (usStageI ESC 0 false m n0 is).getLast? = some d → isSpace d = false := by
  intro ls
  induction ls with
  | nil => intro is _ A hne; exact absurd rfl hne
  | cons l r ih =>
    intro is h A _ hen m n0 d hd
    cases is with
    | nil => exact absurd h (by simp [LinksW])
    | cons u us =>
      rw [linksW_cons] at h
      obtain ⟨hu, hr⟩ := h
      have e : usStageI ESC 0 false m n0 (u :: us) =
          (('[' :: u.T.raw ESC ++ ']' :: '(' :: destSrc u.url u.dtitle) ++ [')']) ++ (u.C.raw ESC ++
            usStageI ESC 0 false (m + u.T.escs ESC + u.C.escs ESC) (n0 + u.T.cnt 0 + u.C.cnt 0) us) := by
        simp [usStageI, Chunk.stage_raw]
      rw [e, List.getLast?_append] at hd
      have hp : (('[' :: u.T.raw ESC ++ ']' :: '(' :: destSrc u.url u.dtitle) ++ [')']).getLast? = some ')' := by
        rw [List.getLast?_append]; rfl
      rw [hp] at hd
      rw [joinLinks] at hen
      cases r with
      | nil =>
        cases us with
        | cons _ _ => exact absurd hr (by simp [LinksW])
        | nil =>
          simp only [usStageI, List.append_nil] at hd
          cases hy : (u.C.raw ESC).getLast? with
          | none => rw [hy] at hd; simp at hd; subst hd; decide
          | some y =>
            rw [hy] at hd
            simp at hd; subst hd
            have hane : l.after ≠ [] := by
              intro ea
              have hC := hu.C
              rw [ea] at hC
              rw [chunkW_nil hC] at hy
              simp at hy
            simp only [joinLinks] at hen
            rw [endsOk_append_ne _ _ (by simp), endsOk_cons_ne _ _ hane] at hen
            exact chunkW_last hu.C hen _ hy
      | cons l2 r2 =>
        cases us with
        | nil => exact absurd hr (by simp [LinksW])
        | cons u2 us2 =>
          have hjne : joinLinks l.after (l2 :: r2) ≠ [] := by simp [joinLinks]
          rw [endsOk_append_ne _ _ (by simp), endsOk_cons_ne _ _ hjne] at hen
          have hrne : usStageI ESC 0 false (m + u.T.escs ESC + u.C.escs ESC) (n0 + u.T.cnt 0 + u.C.cnt 0)
              (u2 :: us2) ≠ [] := by simp [usStageI]
          rw [List.getLast?_append] at hd
          cases hz : (usStageI ESC 0 false (m + u.T.escs ESC + u.C.escs ESC) (n0 + u.T.cnt 0 + u.C.cnt 0)
              (u2 :: us2)).getLast? with
          | none => exact absurd (List.getLast?_eq_none_iff.1 hz) hrne
          | some z =>
            rw [hz] at hd
            simp at hd; subst hd
            exact ih (u2 :: us2) hr l.after (by simp) hen _ _ _ hz

/-- everything the block stage and the preprocessors need of the printed content of a heading -/
theorem line_factsH (A : List DocSpec.Inline) (ls : List LinkIt) (C0 : Chunk) (is : List IUse) (hW : ChunkW A C0)
    (hL : LinksW ls is) (hne : ls ≠ []) (hst : startsOk (joinLinks A ls) = true)
    (hen : endsOk (joinLinks A ls) = true) (hlt : '<' ∉ lineRawI ESC C0 is) :
    (∀ ch ∈ lineRawI ESC C0 is, DocParse2.okCh ch) ∧ refsClosed (lineRawI ESC C0 is) = true ∧
      RawH (lineRawI ESC C0 is) := by
  obtain ⟨u1, u2⟩ := uses_chars ls is hL 0 0
  have hltu : '<' ∉ usStageI ESC 0 false 0 0 is := fun hm => hlt (by simp [lineRawI, hm])
  have hch : ∀ ch ∈ lineRawI ESC C0 is, DocParse2.okCh ch := by
    intro ch hch
    rcases List.mem_append.1 hch with hch | hch
    · exact hW.chars ch hch
    · exact u1 hltu ch hch
  have hwalk : Walk (lineRawI ESC C0 is) := walk_append (chunkW_walk hW) (uses_walk ls is hL 0 0 hltu)
  have hlast : ∀ d, (lineRawI ESC C0 is).getLast? = some d → isSpace d = false := by
    intro d hd
    have hune : usStageI ESC 0 false 0 0 is ≠ [] := by
      cases is with
      | nil =>
        cases ls with
        | nil => exact absurd rfl hne
        | cons _ _ => exact absurd hL (by simp [LinksW])
      | cons u us => simp [usStageI]
    rw [lineRawI, List.getLast?_append] at hd
    cases hz : (usStageI ESC 0 false 0 0 is).getLast? with
    | none => exact absurd (List.getLast?_eq_none_iff.1 hz) hune
    | some z =>
      rw [hz] at hd
      simp at hd; subst hd
      exact uses_last ls is hL A hne hen 0 0 _ hz
  obtain ⟨l, r, rfl⟩ : ∃ l r, ls = l :: r := by
    cases ls with
    | nil => exact absurd rfl hne
    | cons l r => exact ⟨l, r, rfl⟩
  obtain ⟨u, us, rfl⟩ : ∃ u us, is = u :: us := by
    cases is with
    | nil => exact absurd hL (by simp [LinksW])
    | cons u us => exact ⟨u, us, rfl⟩
  refine ⟨hch, hW.refs _ u2, ?_, fun hm => (hch _ hm).1 rfl, hlast, hwalk⟩
  cases A with
  | nil =>
    have hr := chunkW_nil hW
    exact ⟨'[', _, by simp only [lineRawI, hr, usStageI, List.nil_append]; rfl, by decide, by decide⟩
  | cons a A' =>
    have hst' : startsOk (a :: A') = true := by
      cases r <;> cases a <;> simp_all [joinLinks, startsOk]
    obtain ⟨c, tail, he, hcs, _, hce⟩ := hW.start hst' (usStageI ESC 0 false 0 0 (u :: us))
    refine ⟨c, tail, he, hcs, ?_⟩
    rcases hce with hce | ⟨d, m, x, tl, hx, hd, hm1, _, _⟩
    · exact fun e => hce (by rw [e]; decide)
    · obtain ⟨m', rfl⟩ : ∃ m', m = m' + 1 := ⟨m - 1, by omega⟩
      rw [he] at hx
      simp only [List.replicate_succ, List.cons_append, List.cons.injEq] at hx
      rw [hx.1]; rcases hd with e | e <;> rw [e] <;> decide

/-! ### 4. the heading as a piece -/

def hPiece (tg : Str) (g : List Str) (C0 : Chunk) (is : List IUse) : Piece2 :=
  ⟨chunkB g (hSrc tg (lineRawI ESC C0 is)), hElem tg ESC C0 is, hElem tg ESC C0 is⟩

theorem hSrc_clean (tg : Str) (hT : HTagOK tg) (X : Str) :
    isListTag (hSrc tg X) = false ∧ preCode (hSrc tg X) = none := by
  have b1 := hT.ul
  have b2 := hT.ol
  have b3 := hT.npre
  constructor
  · simp [hSrc, isListTag, Node.isTag, b1, b2]
  · simp [hSrc, preCode, Node.isTag, b3]

theorem hElems_ok (tg : Str) (hT : HTagOK tg) (ls : List LinkIt) (C0 : Chunk) (is : List IUse)
    {A : List DocSpec.Inline} (hW : ChunkW A C0) (hL : LinksW ls is) (hne : ls ≠ []) :
    ∀ refs, ElemOK { esc := ESC, refs := refs } (hElem tg ESC C0 is) := by
  have hine : is ≠ [] := by
    intro e
    have := linksW_length ls is hL
    rw [e] at this
    cases ls with
    | nil => exact hne rfl
    | cons _ _ => simp at this
  exact fun refs =>
    hElem_ok tg hT { esc := ESC, refs := refs } escOK_generated rbr_ESC C0 is hW.ok
      (fun u hu => by obtain ⟨l, _, hw⟩ := linksW_mem ls is hL u hu; exact (iuseOK_of hw).1)
      (fun u hu => by obtain ⟨l, _, hw⟩ := linksW_mem ls is hL u hu; exact (iuseOK_of hw).2) hine

/-- a Setext heading with inline links -/
theorem hSetext_ok (C0 : Chunk) (is : List IUse) (hch : ∀ ch ∈ lineRawI ESC C0 is, DocParse2.okCh ch)
    (hrefs : refsClosed (lineRawI ESC C0 is) = true) (hraw : RawH (lineRawI ESC C0 is))
    (i : Nat) (hi : i < 4) (lv k : Nat) (hlv : lv = 1 ∨ lv = 2)
    (hok : ∀ refs, ElemOK { esc := ESC, refs := refs } (hElem ('h' :: natToDec lv) ESC C0 is)) :
    Piece2OK {} (hPiece ('h' :: natToDec lv) [spaces i ++ lineRawI ESC C0 is,
      List.replicate (k + 1) (if lv = 1 then '=' else '-')] C0 is) := by
  have hT := hTagOK lv (by omega) (by omega)
  have hprod := produces_setext_rawH 4 i hi _ hraw lv k hlv
  obtain ⟨c0, tl, hX, hcs, _⟩ := hraw.shape
  have hnl := hraw.nl
  generalize hu : (if lv = 1 then '=' else '-') = ch at *
  have hch2 : ch = '=' ∨ ch = '-' := by rw [← hu]; split <;> simp
  have hunl : '\n' ∉ List.replicate (k + 1) ch := by
    intro hm; have := List.eq_of_mem_replicate hm
    rcases hch2 with h' | h' <;> rw [h'] at this <;> exact absurd this (by decide)
  have hjoin : joinLines [spaces i ++ lineRawI ESC C0 is, List.replicate (k + 1) ch] =
      spaces i ++ lineRawI ESC C0 is ++ '\n' :: List.replicate (k + 1) ch := by
    simp [joinLines, join]
  have hline : ∀ x ∈ spaces i ++ lineRawI ESC C0 is, DocParse2.okCh x := by
    intro x hx
    rcases List.mem_append.1 hx with hx | hx
    · exact (okCh_spaces i x hx).1
    · exact hch x hx
  have hc0 : c0 ∈ spaces i ++ lineRawI ESC C0 is := by rw [hX]; simp
  have hsafe := safe_of_okCh _ hline ⟨c0, hc0, by intro e; subst e; exact absurd hcs (by decide)⟩
  have hrefsL : refsClosed (spaces i ++ lineRawI ESC C0 is) = true :=
    refsClosed_noamp_append _ _ (fun hm => (okCh_spaces i _ hm).2 rfl) hrefs
  have hl1nl : '\n' ∉ spaces i ++ lineRawI ESC C0 is := fun hm => (hline _ hm).1 rfl
  have hlne : spaces i ++ lineRawI ESC C0 is ≠ [] := by
    intro e; rw [e] at hc0; simp at hc0
  refine ⟨chunkB_ok 4 _ _ (by simp) ?_ ?_ (hSrc_clean _ hT _).1 (hSrc_clean _ hT _).2, ?_, ?_, rfl, rfl, hok, hok, rfl⟩
  · rw [hjoin]
    exact nel_two_lines _ _ hlne (by simp [List.replicate_succ]) hl1nl hunl
  · rw [hjoin]; exact hprod
  · intro l hl
    simp only [hPiece, chunkB, List.mem_cons, List.not_mem_nil, or_false] at hl
    rcases hl with rfl | rfl
    · exact ⟨hsafe.1, hsafe.2, hrefsL⟩
    · have hall : ∀ x ∈ List.replicate (k + 1) ch, DocParse2.okCh x ∧ x ≠ '&' := by
        intro x hx; rw [List.eq_of_mem_replicate hx]
        rcases hch2 with h' | h' <;> rw [h'] <;>
          exact ⟨⟨by decide, by decide, by decide, by decide, by decide, by decide⟩, by decide⟩
      have := safe_of_okCh _ (fun x hx => (hall x hx).1)
        ⟨ch, by simp [List.replicate_succ], by rcases hch2 with h' | h' <;> rw [h'] <;> decide⟩
      exact ⟨this.1, this.2, refsClosed_of_no_amp _ (fun hm => (hall _ hm).2 rfl)⟩
  · refine ⟨c0, ?_, hcs⟩
    show c0 ∈ joinLines [spaces i ++ lineRawI ESC C0 is, List.replicate (k + 1) ch]
    rw [hjoin]; exact List.mem_append_left _ hc0

/-- an ATX heading with inline links -/
theorem hAtx_ok (C0 : Chunk) (is : List IUse) (hch : ∀ ch ∈ lineRawI ESC C0 is, DocParse2.okCh ch)
    (hrefs : refsClosed (lineRawI ESC C0 is) = true) (hraw : RawH (lineRawI ESC C0 is))
    (lv : Nat) (h1 : 1 ≤ lv) (h6 : lv ≤ 6) (Y : Str) (hY : Y = [] ∨ ∃ m, Y = ' ' :: List.replicate m '#')
    (hok : ∀ refs, ElemOK { esc := ESC, refs := refs } (hElem ('h' :: natToDec lv) ESC C0 is)) :
    Piece2OK {} (hPiece ('h' :: natToDec lv) [List.replicate lv '#' ++ ' ' :: (lineRawI ESC C0 is ++ Y)] C0 is) := by
  have hT := hTagOK lv h1 h6
  have hprod := produces_atx_rawH 4 (by omega) _ hraw lv h1 h6 Y hY
  obtain ⟨c0, tl, hX, hcs, _⟩ := hraw.shape
  have hhash : DocParse2.okCh '#' ∧ ('#' : Char) ≠ '&' :=
    ⟨⟨by decide, by decide, by decide, by decide, by decide, by decide⟩, by decide⟩
  have hQ : ∀ x ∈ Y, DocParse2.okCh x ∧ x ≠ '&' := by
    intro x hx
    rcases hY with rfl | ⟨m, rfl⟩
    · simp at hx
    · rcases List.mem_cons.1 hx with hx | hx
      · rw [hx]; exact DocParse2.okCh_space
      · rw [List.eq_of_mem_replicate hx]; exact hhash
  have hline : ∀ x ∈ List.replicate lv '#' ++ ' ' :: (lineRawI ESC C0 is ++ Y), DocParse2.okCh x := by
    intro x hx
    simp only [List.mem_append, List.mem_cons] at hx
    rcases hx with hx | hx | hx | hx
    · rw [List.eq_of_mem_replicate hx]; exact hhash.1
    · rw [hx]; exact DocParse2.okCh_space.1
    · exact hch x hx
    · exact (hQ x hx).1
  have hc0 : c0 ∈ List.replicate lv '#' ++ ' ' :: (lineRawI ESC C0 is ++ Y) := by rw [hX]; simp
  have hsafe := safe_of_okCh _ hline ⟨c0, hc0, by intro e; subst e; exact absurd hcs (by decide)⟩
  have hrefsY : refsClosed (lineRawI ESC C0 is ++ Y) = true := by
    rcases hY with rfl | ⟨m, rfl⟩
    · simpa using hrefs
    · exact refsClosed_append _ ' ' _ (by decide) hrefs (refsClosed_of_no_amp _ (fun hm => by
        rcases List.mem_cons.1 hm with hm | hm
        · exact absurd hm (by decide)
        · exact absurd (List.eq_of_mem_replicate hm) (by decide)))
  have hrefsL : refsClosed (List.replicate lv '#' ++ ' ' :: (lineRawI ESC C0 is ++ Y)) = true := by
    have : List.replicate lv '#' ++ ' ' :: (lineRawI ESC C0 is ++ Y) =
        (List.replicate lv '#' ++ [' ']) ++ (lineRawI ESC C0 is ++ Y) := by simp
    rw [this]
    apply refsClosed_noamp_append _ _ _ hrefsY
    intro hm
    rcases List.mem_append.1 hm with hm | hm
    · exact absurd (List.eq_of_mem_replicate hm) (by decide)
    · simp at hm
  have hnl : '\n' ∉ List.replicate lv '#' ++ ' ' :: (lineRawI ESC C0 is ++ Y) := fun hm => (hline _ hm).1 rfl
  have hlne : List.replicate lv '#' ++ ' ' :: (lineRawI ESC C0 is ++ Y) ≠ [] := by simp
  refine ⟨chunkB_ok 4 _ _ (by simp) ?_ ?_ (hSrc_clean _ hT _).1 (hSrc_clean _ hT _).2, ?_, ?_, rfl, rfl, hok, hok, rfl⟩
  · simp only [joinLines, join_singleton]
    exact nel_line _ hlne hnl
  · simp only [joinLines, join_singleton]; exact hprod
  · intro l hl
    have : l = List.replicate lv '#' ++ ' ' :: (lineRawI ESC C0 is ++ Y) := by simpa [hPiece, chunkB] using hl
    subst this; exact ⟨hsafe.1, hsafe.2, hrefsL⟩
  · exact ⟨c0, by simpa [hPiece, chunkB, joinLines] using hc0, hcs⟩

/-! ### 5. the headings, the document -/

/-- `itemOK_of_wf` whether hard breaks are allowed or not -/
theorem itemOK_of_wfB (brOk : Bool) (x : DocSpec.Inline) (hp : isLinkItem x = true)
    (hw : wfInline false .none brOk x = true) : ItemOK x := by
  cases x with
  | link t d ti =>
    simp only [isLinkItem, Bool.and_eq_true] at hp
    simp only [wfInline, wfRun, Bool.and_eq_true] at hw
    obtain ⟨⟨⟨⟨_, hd⟩, hti⟩, ⟨⟨⟨hst, _⟩, hadj⟩, _⟩⟩, hlist⟩ := hw
    have hitems := mixItemsOK_of_wfL t true brOk hp.1.1 hlist
    obtain ⟨d1, d2, d3⟩ := dest_of_wf d ti hd hti hp.2
    exact ⟨by simp [mixOK, hitems, hadj, hp.1.2], hst, d1, d2, d3⟩
  | text w => exact mixItemsOK_of_wfL [.text w] false brOk (by simp [isMixItem]) (by simp [wfInlineList, hw])
  | esc c => exact mixItemsOK_of_wfL [.esc c] false brOk (by simp [isMixItem]) (by simp [wfInlineList, hw])
  | code b =>
    exact mixItemsOK_of_wfL [.code b] false brOk (by simpa [isLinkItem] using hp) (by simp [wfInlineList, hw])
  | em l =>
    exact mixItemsOK_of_wfL [.em l] false brOk (by simpa [isLinkItem] using hp) (by simp [wfInlineList, hw])
  | strong l =>
    exact mixItemsOK_of_wfL [.strong l] false brOk (by simpa [isLinkItem] using hp) (by simp [wfInlineList, hw])
  | image _ _ _ => simp [isLinkItem, isMixItem] at hp
  | autolink _ => simp [isLinkItem, isMixItem] at hp
  | br => simp [isLinkItem, isMixItem] at hp

/-- what the printed content of a heading with links is, when no definition is added and no `<` is printed -/
structure HeadGood (c : List DocSpec.Inline) (s : Str) (C0 : Chunk) (is : List IUse) : Prop where
  eq : s = lineRawI ESC C0 is
  chars : ∀ ch ∈ lineRawI ESC C0 is, DocParse2.okCh ch
  refs : refsClosed (lineRawI ESC C0 is) = true
  raw : RawH (lineRawI ESC C0 is)
  elem : ∀ tg, HTagOK tg → ∀ refs, ElemOK { esc := ESC, refs := refs } (hElem tg ESC C0 is)
  out : C0.out ++ usOut (is.map IUse.toR) = specInlines c

theorem content_linksH (c : List DocSpec.Inline) (hp : linkRunH c = true)
    (hw : wfInlines false .none false c = true) (hl : (linkSplit c).2 ≠ []) (st : PSt) :
    ∃ (s : Str) (st' : PSt) (extra : List Str), printInlines none true true c st = (s, st') ∧
      st'.defs = st.defs ++ extra ∧ (extra = [] → '<' ∉ s → ∃ C0 is, HeadGood c s C0 is) := by
  simp only [linkRunH, Bool.and_eq_true, List.all_eq_true] at hp
  simp only [wfInlines, wfRun, Bool.and_eq_true] at hw
  obtain ⟨⟨⟨⟨hst, hen⟩, hadj⟩, _⟩, hlist⟩ := hw
  obtain ⟨hitems, hnb⟩ := hp
  have hit : ∀ x ∈ c, ItemOK x := fun x hx => itemOK_of_wfB false x (hitems x hx) (wfInlineList_mem hlist x hx)
  obtain ⟨hA, hls⟩ := split_facts c hit hadj hnb
  obtain ⟨s, st', extra, hpr, hd, hgood⟩ := printLinks_rel (linkSplit c).2 (linkSplit c).1 st hA hls
  rw [joinLinks_split] at hpr
  refine ⟨s, st', extra, hpr, hd, ?_⟩
  intro hex hlts
  obtain ⟨C0, is, hs, hW, hL⟩ := hgood hex hlts
  have hs0 : s = lineRawI ESC C0 is := hs 0 0
  have hst' : startsOk (joinLinks (linkSplit c).1 (linkSplit c).2) = true := by rw [joinLinks_split]; exact hst
  have hen' : endsOk (joinLinks (linkSplit c).1 (linkSplit c).2) = true := by rw [joinLinks_split]; exact hen
  have hltr : '<' ∉ lineRawI ESC C0 is := by rw [← hs0]; exact hlts
  obtain ⟨hch, hrefs, hraw⟩ := line_factsH _ _ C0 is hW hL hl hst' hen' hltr
  have hout := usOut_spec _ _ hL _ _ hW
  rw [joinLinks_split] at hout
  exact ⟨C0, is, hs0, hch, hrefs, hraw, fun tg hT => hElems_ok tg hT _ C0 is hW hL hl, hout⟩

theorem lt_of_join {s : Str} (hm : '<' ∈ s) : ∃ l ∈ splitC '\n' s, '<' ∈ l := by
  have hj : '<' ∈ joinLines (splitC '\n' s) := by
    have := splitC_join '\n' s
    rw [joinLines, this]; exact hm
  rcases DocParse.mem_joinLines hj with e | ⟨l, hl', hc⟩
  · exact absurd e (by decide)
  · exact ⟨l, hl', hc⟩

theorem hOut_spec (l : Nat) (c : List DocSpec.Inline) (C0 : Chunk) (is : List IUse)
    (h : C0.out ++ usOut (is.map IUse.toR) = specInlines c) :
    hOut ('h' :: natToDec l) C0 is =
      S "<h" ++ natToDec l ++ S ">" ++ specInlines c ++ S "</h" ++ natToDec l ++ S ">" := by
  rw [← h]
  have e1 : S "<h" = ['<', 'h'] := by decide
  have e2 : S ">" = ['>'] := by decide
  have e3 : S "</h" = ['<', '/', 'h'] := by decide
  rw [e1, e2, e3]
  simp [hOut, List.append_assoc]

/-- **an ATX heading with inline links** -/
theorem blockPrints_linkAtx (l : Nat) (c : List DocSpec.Inline) (hp : linkRunH c = true)
    (hw : wfBlock none (.atx l c) = true) (hl : (linkSplit c).2 ≠ []) : BlockPrints (.atx l c) := by
  simp only [wfBlock, Bool.and_eq_true, decide_eq_true_eq] at hw
  intro st
  obtain ⟨s, st', extra, hpr, hd, hgood⟩ := content_linksH c hp hw.2 hl (draw st).2
  have hjoin : join ['\n'] (splitC '\n' s) = s := splitC_join '\n' s
  refine ⟨[rep l '#' ++ [' '] ++ s ++ atxClosing (draw st).1 l], st', extra, ?_, by rw [hd, draw_defs], ?_⟩
  · rw [printBlock_atx]; simp only [printContent, hpr, atxLine, hjoin]
  · intro hex hlt
    have hlts : '<' ∉ s := fun hm =>
      hlt (rep l '#' ++ [' '] ++ s ++ atxClosing (draw st).1 l) List.mem_cons_self (by simp [hm])
    obtain ⟨C0, is, hG⟩ := hgood hex hlts
    have hY : atxClosing (draw st).1 l = [] ∨ ∃ m, atxClosing (draw st).1 l = ' ' :: List.replicate m '#' := by
      unfold atxClosing
      split
      · exact Or.inl rfl
      · split
        · exact Or.inr ⟨1, rfl⟩
        · exact Or.inr ⟨l, rfl⟩
    refine ⟨hPiece ('h' :: natToDec l) [List.replicate l '#' ++ ' ' :: (lineRawI ESC C0 is ++
        atxClosing (draw st).1 l)] C0 is, ?_,
      hAtx_ok C0 is hG.chars hG.refs hG.raw l hw.1.1 hw.1.2 _ hY (hG.elem _ (hTagOK l hw.1.1 hw.1.2)), ?_, rfl⟩
    · rw [hG.eq]
      simp [hPiece, chunkB, rep, List.append_assoc]
    · show hOut ('h' :: natToDec l) C0 is = specBlock (.atx l c)
      rw [specBlock_atx, hOut_spec l c C0 is hG.out]

/-- **a Setext heading with inline links** -/
theorem blockPrints_linkSetext (l : Nat) (c : List DocSpec.Inline) (hp : linkRunH c = true)
    (hw : wfBlock none (.setext l c) = true) (hl : (linkSplit c).2 ≠ []) : BlockPrints (.setext l c) := by
  simp only [wfBlock, Bool.and_eq_true, Bool.or_eq_true, decide_eq_true_eq] at hw
  intro st
  obtain ⟨s, st', extra, hpr, hd, hgood⟩ := content_linksH c hp hw.2 hl (draw (draw st).2).2
  refine ⟨indentTop true (draw st).1 (splitC '\n' s) ++ [setextUnderline l (draw (draw st).2).1], st', extra, ?_,
    by rw [hd]; simp [draw_defs], ?_⟩
  · rw [printBlock_setext]; simp only [printContent, hpr]
  · intro hex hlt
    have hlts : '<' ∉ s := by
      intro hm
      obtain ⟨x, hx, hc⟩ := lt_of_join hm
      cases hsp : splitC '\n' s with
      | nil => rw [hsp] at hx; cases hx
      | cons a r =>
        rw [hsp] at hx
        rcases List.mem_cons.1 hx with rfl | hx
        · exact hlt (rep ((draw st).1 % 4) ' ' ++ x) (by simp [indentTop, indentFirst, hsp]) (by simp [hc])
        · exact hlt x (by simp [indentTop, indentFirst, hsp, hx]) hc
    obtain ⟨C0, is, hG⟩ := hgood hex hlts
    have hnl : '\n' ∉ s := by rw [hG.eq]; exact hG.raw.nl
    have h16 : 1 ≤ l ∧ l ≤ 6 := by rcases hw.1 with h | h <;> omega
    refine ⟨hPiece ('h' :: natToDec l) [spaces ((draw st).1 % 4) ++ lineRawI ESC C0 is,
          List.replicate ((draw (draw st).2).1 % 8 + 1) (if l = 1 then '=' else '-')] C0 is, ?_,
      hSetext_ok C0 is hG.chars hG.refs hG.raw _ (Nat.mod_lt _ (by omega)) l _ hw.1
        (hG.elem _ (hTagOK l h16.1 h16.2)), ?_, rfl⟩
    · rw [splitC_noNl _ (notNl_of_not_mem hnl), hG.eq]
      simp [hPiece, chunkB, indentTop, indentFirst, rep, spaces, setextUnderline]
    · show hOut ('h' :: natToDec l) C0 is = specBlock (.setext l c)
      rw [specBlock_setext, hOut_spec l c C0 is hG.out]

theorem deep2Item_of_linkItem (x : DocSpec.Inline) (h : isLinkItem x = true) (hl : isLinkI x = false) :
    isDeep2Item x = true := by
  have hb := brItem_of_linkItem x h hl
  cases x with
  | br => simp [isLinkItem, isMixItem] at h
  | _ => exact hb

theorem deep2Run_of_noLinks (c : List DocSpec.Inline) (hp : linkRunH c = true) (hl : (linkSplit c).2 = []) :
    deep2Run c = true := by
  have hno := noLinks_of_split c hl
  simp only [linkRunH, Bool.and_eq_true, List.all_eq_true] at hp
  simp only [deep2Run, Bool.and_eq_true, List.all_eq_true]
  exact ⟨fun x hx => deep2Item_of_linkItem x (hp.1 x hx) (hno x hx), hp.2⟩

theorem blockPrints_linkHBlock (b : DocSpec.Block) (hf : isLinkHBlock b = true) (hw : wfBlock none b = true) :
    DocLink.BlockPrints b := by
  cases b with
  | para c => exact blockPrints_linkBlock (.para c) hf hw
  | rule => exact blockPrints_of _ (fun st => printBlock_br .rule rfl hw st)
  | code ls => exact blockPrints_of _ (fun st => printBlock_br (.code ls) hf hw st)
  | atx l c =>
    simp only [isLinkHBlock, Bool.or_eq_true] at hf
    by_cases hd : deep2Run c = true
    · exact blockPrints_of _ (fun st => printBlock_br (.atx l c) hd hw st)
    · have hlr : linkRunH c = true := by
        rcases hf with h | h
        · exact absurd h hd
        · exact h
      by_cases hl : (linkSplit c).2 = []
      · exact absurd (deep2Run_of_noLinks c hlr hl) hd
      · exact blockPrints_linkAtx l c hlr hw hl
  | setext l c =>
    simp only [isLinkHBlock, Bool.or_eq_true] at hf
    by_cases hd : deep2Run c = true
    · exact blockPrints_of _ (fun st => printBlock_br (.setext l c) hd hw st)
    · have hlr : linkRunH c = true := by
        rcases hf with h | h
        · exact absurd h hd
        · exact h
      by_cases hl : (linkSplit c).2 = []
      · exact absurd (deep2Run_of_noLinks c hlr hl) hd
      · exact blockPrints_linkSetext l c hlr hw hl
  | quote _ => simp [isLinkHBlock, isDeep2Block] at hf
  | ulist _ _ => simp [isLinkHBlock, isDeep2Block] at hf
  | olist _ _ => simp [isLinkHBlock, isDeep2Block] at hf

/-- **C01 on documents with inline links in paragraphs and headings**: a well-formed document of the sub-grammar,
    under every spelling that draws the inline style for every link, converts to what `spec` prescribes -/
theorem convert_linkHDoc (d : Doc) (sp : Spelling) (hwf : WF d = true) (hs : DocSpec.LinkHDoc d = true)
    (hsp : DocSpec.inlineStyle d sp = true) : Pipeline.convert {} (print d sp) = .ok (spec d) := by
  simp only [WF, Bool.and_eq_true, Bool.not_eq_true', List.isEmpty_eq_false_iff] at hwf
  obtain ⟨⟨⟨hne, hnx⟩, hbl⟩, _⟩ := hwf
  have hf : ∀ b ∈ d, isLinkHBlock b = true := by
    simpa [DocSpec.LinkHDoc, List.all_eq_true] using hs
  obtain ⟨L, st', extra, hps, hdefs, hgood⟩ :=
    printBlocks_gen2 d hne (fun b hb => blockPrints_linkHBlock b (hf b hb) (wfBlockList_mem hbl b hb)) hnx
      ⟨sp.choices, 1, []⟩
  simp only [DocSpec.inlineStyle, Bool.and_eq_true, List.all_eq_true, bne_iff_ne, ne_eq, hps,
    List.isEmpty_iff] at hsp
  obtain ⟨hlt, hde⟩ := hsp
  have hprint : print d sp = joinLines L := by
    simp only [print, hps]
    simp [hde, joinLines]
  have hex : extra = [] := by
    rw [hde] at hdefs
    simpa using hdefs.symm
  obtain ⟨ps, hL, hpsne, hoks, houts, hadj, _⟩ := hgood hex (fun l hl hm =>
    hlt '<' (by rw [hprint]; exact mem_joinLines_of_mem' hm hl) rfl)
  rw [hprint, hL, spec, ← houts]
  exact convert_pieces2 {} rfl rfl ps hpsne hoks hadj

end MdVerif.DocLinkH
