/-
C10c: copy of `Lemmas/PlaceholdersBHI.lean` with the invariant `Adj3` (no `](`, no `![`) replaced by `AdjC true` (simple regions
behind `](` and `![`, `Spec/NoCtlC.lean`).  Declarations that do not depend on the invariant are imported from the
original file.  Core Lean only.
-/
import MdVerif.Lemmas.PlaceholdersBHI
import MdVerif.Lemmas.PlaceholdersCAdj
import MdVerif.Lemmas.PlaceholdersCRun

namespace MdVerif.NoCtl
open Py Inline

/-! ### contracts -/

/-- the data of `handleInline` while pattern `pi` is at work -/
structure DataC (pi k : Nat) (d : Str) : Prop where
  wf : WF true k d
  dom : DomB d
  adj : (AdjC true) d
  bt : BtInv pi d

/-- the data around a match, with any placeholder-like string in place of the match -/
def SpliceC (k pi : Nat) (data : Str) (start : Nat) (stop : Int) : Prop :=
  WF true k (data.take start) ∧ WF true k (pyDrop data stop) ∧
  ∀ T, SepOK3 T → (AdjC true) (data.take start ++ T ++ pyDrop data stop) ∧ BtInv pi (data.take start ++ T ++ pyDrop data stop)

/-- the contract of one match -/
def FoundOKC (k pi : Nat) (data : Str) (f : Found) : Prop :=
  match f.node with
  | .none => 1 ≤ pi
  | .str s => SpliceC k pi data f.start f.stop ∧ WF true 0 s ∧ DomB s ∧ SepOK3 s
  | .el n => SpliceC k pi data f.start f.stop ∧ n.Forall (SNodeC k) ∧ n.tail = none ∧ (pi = 0 → isCode n = true)

/-- the contract of the matchers -/
def FMSpecC (cfg : Cfg) : Prop :=
  ∀ (pi : Nat) (data : Str) (si : Nat) (st : St) (fo : Option Found) (st' : St), pi < patternCount →
    (pi = 0 → si = 0) → DataC pi st.stash.length data → findMatch cfg pi data si st = some (fo, st') →
    st' = st ∧ (∀ f, fo = some f → FoundOKC st.stash.length pi data f) ∧ (fo = none → BtDone data)

structure HIOutC (st : St) (d : Str) (st' : St) : Prop where
  str : StrC st'.stash.length (some d)
  stOK : StOKC st'.stash
  le : st.stash.length ≤ st'.stash.length
  html : st'.html = st.html

/-- the contract of the nested `handleInline` -/
def HIokC (hi : HI) : Prop :=
  ∀ (data : Str) (pi : Nat) (st : St) (d : Str) (st' : St), DataC pi st.stash.length data → StOKC st.stash →
    hi data pi st = some (d, st') → HIOutC st d st'

/-! ### `hiNode`, `hiNodes` -/

theorem StOKC.push {stash : List StashItem} (h : StOKC stash) {it : StashItem}
    (hit : ItemOKC stash.length it) : StOKC (stash ++ [it]) := by
  intro i x hx
  rcases Nat.lt_or_ge i stash.length with hlt | hge
  · rw [List.getElem?_append_left hlt] at hx
    exact h i x hx
  · rw [List.getElem?_append_right hge] at hx
    rcases Nat.eq_zero_or_pos (i - stash.length) with h0 | hpos
    · rw [h0] at hx
      simp only [List.getElem?_cons_zero, Option.some.injEq] at hx
      subst hx
      have : i = stash.length := by omega
      rw [this]; exact hit
    · rw [List.getElem?_eq_none (by simp only [List.length_cons, List.length_nil]; omega)] at hx; cases hx

theorem SNodeC.mono {k k' : Nat} (hk : k ≤ k') {n : Node} (h : SNodeC k n) : SNodeC k' n := by
  obtain ⟨h1, h2, h3, h4, h5⟩ := h
  refine ⟨h1, h2, h3, h4.mono hk, ?_⟩
  split
  · rename_i hc; rw [if_pos hc] at h5; exact h5
  · rename_i hc; rw [if_neg hc] at h5; exact ⟨h5.1, h5.2.mono hk⟩

theorem forall_SNodeC_mono {k k' : Nat} (hk : k ≤ k') {n : Node} (h : n.Forall (SNodeC k)) : n.Forall (SNodeC k') :=
  Node.Forall.mono (fun _ hm => hm.mono hk) n h

theorem dataC_of_strC {pi k : Nat} {s : Str} (h : StrC k (some s)) : DataC pi k s :=
  ⟨h.1, h.2.1, h.2.2.1, btInv_of_done h.2.2.2⟩

theorem hiOptC_spec {hi : HI} (hhi : HIokC hi) {t t' : Option Str} {atomic : Bool} {pi : Nat} {st st' : St}
    (ht : atomic = false → StrC st.stash.length t) (hst : StOKC st.stash)
    (h : hiOpt hi t atomic pi st = some (t', st')) :
    (atomic = false → StrC st'.stash.length t') ∧ (atomic = true → t' = t) ∧ StOKC st'.stash ∧
      st.stash.length ≤ st'.stash.length ∧ st'.html = st.html := by
  unfold hiOpt at h
  split at h
  · rename_i hc
    simp only [Bool.and_eq_true, Bool.not_eq_true'] at hc
    cases hh : hi (t.getD []) pi st with
    | none => simp [hh] at h
    | some r =>
      obtain ⟨d, s'⟩ := r
      simp only [hh, Option.some.injEq, Prod.mk.injEq] at h
      obtain ⟨rfl, rfl⟩ := h
      have := hhi _ _ _ _ _ (dataC_of_strC (ht hc.2)) hst hh
      exact ⟨fun _ => this.str, fun ha => by rw [ha] at hc; exact absurd hc.2 (by decide), this.stOK, this.le, this.html⟩
  · simp only [Option.some.injEq, Prod.mk.injEq] at h
    obtain ⟨rfl, rfl⟩ := h
    exact ⟨ht, fun _ => rfl, hst, Nat.le_refl _, rfl⟩

theorem hiNodeC_spec {hi : HI} (hhi : HIokC hi) {pi : Nat} {n n' : Node} {st st' : St}
    (hn : SNodeC st.stash.length n) (hst : StOKC st.stash) (h : hiNode hi pi n st = some (n', st')) :
    SNodeC st'.stash.length n' ∧ n'.children = n.children ∧ (n.tail = none → n'.tail = none) ∧
    StOKC st'.stash ∧ st.stash.length ≤ st'.stash.length ∧ st'.html = st.html := by
  unfold hiNode at h
  cases h1 : hiOpt hi n.text n.textAtomic (pi + 1) st with
  | none => simp [h1] at h
  | some r1 =>
    obtain ⟨t, st1⟩ := r1
    simp only [h1] at h
    cases h2 : hiOpt hi n.tail n.tailAtomic pi st1 with
    | none => simp [h2] at h
    | some r2 =>
      obtain ⟨tl, st2⟩ := r2
      simp only [h2, Option.some.injEq, Prod.mk.injEq] at h
      obtain ⟨rfl, rfl⟩ := h
      obtain ⟨g1, g2, g3, g4, g5⟩ := hn
      have htext : n.textAtomic = false → StrC st.stash.length n.text := by
        intro ha
        by_cases hc : isCode n = true
        · rw [if_pos hc] at g5; rw [g5.1] at ha; cases ha
        · rw [if_neg hc] at g5; exact g5.2
      obtain ⟨a1, a1', a2, a3, a4⟩ := hiOptC_spec hhi htext hst h1
      obtain ⟨b1, -, b2, b3, b4⟩ := hiOptC_spec hhi (fun _ => g4.mono a3) a2 h2
      refine ⟨⟨g1, g2, g3, b1 g3, ?_⟩, rfl, ?_, b2, Nat.le_trans a3 b3, b4.trans a4⟩
      · by_cases hc : isCode n = true
        · have hc' : isCode ({ n with text := t, tail := tl } : Node) = true := hc
          rw [if_pos hc] at g5; rw [if_pos hc']
          have ht : t = n.text := a1' g5.1
          have htl : tl = n.tail := by
            unfold hiOpt at h2
            rw [g5.2.2.2] at h2
            simp only [Node.truthy, Bool.false_and, Bool.false_eq_true, if_false, Option.some.injEq,
              Prod.mk.injEq] at h2
            rw [← h2.1, g5.2.2.2]
          exact ⟨g5.1, by rw [ht]; exact g5.2.1, g5.2.2.1, by rw [htl]; exact g5.2.2.2⟩
        · have hc' : ¬ isCode ({ n with text := t, tail := tl } : Node) = true := hc
          rw [if_neg hc] at g5; rw [if_neg hc']
          exact ⟨g5.1, (a1 g5.1).mono b3⟩
      · intro hn
        unfold hiOpt at h2
        rw [hn] at h2
        simp only [Node.truthy, Bool.false_and, Bool.false_eq_true, if_false, Option.some.injEq, Prod.mk.injEq] at h2
        exact h2.1.symm

theorem hiNodesC_spec {hi : HI} (hhi : HIokC hi) {pi : Nat} :
    ∀ (l l' : List Node) (st st' : St), (∀ c ∈ l, c.Forall (SNodeC st.stash.length)) → StOKC st.stash →
      hiNodes hi pi l st = some (l', st') →
      (∀ c ∈ l', c.Forall (SNodeC st'.stash.length)) ∧ StOKC st'.stash ∧
        st.stash.length ≤ st'.stash.length ∧ st'.html = st.html := by
  intro l
  induction l with
  | nil =>
    intro l' st st' _ hst h
    simp only [hiNodes, Option.some.injEq, Prod.mk.injEq] at h
    obtain ⟨rfl, rfl⟩ := h
    exact ⟨by simp, hst, Nat.le_refl _, rfl⟩
  | cons n r ih =>
    intro l' st st' hl hst h
    simp only [hiNodes] at h
    cases h1 : hiNode hi pi n st with
    | none => simp [h1] at h
    | some r1 =>
      obtain ⟨n', st1⟩ := r1
      simp only [h1] at h
      cases h2 : hiNodes hi pi r st1 with
      | none => simp [h2] at h
      | some r2 =>
        obtain ⟨r', st2⟩ := r2
        simp only [h2, Option.some.injEq, Prod.mk.injEq] at h
        obtain ⟨rfl, rfl⟩ := h
        have hn := hl n (by simp)
        rw [Node.forall_iff] at hn
        obtain ⟨a1, a2, -, a4, a5, a6⟩ := hiNodeC_spec hhi hn.1 hst h1
        obtain ⟨b1, b2, b3, b4⟩ := ih r' st1 st2
          (fun c hc => forall_SNodeC_mono a5 (hl c (by simp [hc]))) a4 h2
        refine ⟨?_, b2, Nat.le_trans a5 b3, b4.trans a6⟩
        intro c hc
        rcases List.mem_cons.1 hc with rfl | hc
        · rw [Node.forall_iff]
          refine ⟨a1.mono b3, ?_⟩
          intro g hg
          rw [a2] at hg
          exact forall_SNodeC_mono (Nat.le_trans a5 b3) (hn.2 g hg)
        · exact b1 c hc

/-! ### `applyPattern`, `hiLoop`, `handleInline` -/

theorem elStepC_spec {hi : HI} (hhi : HIokC hi) {pi : Nat} {n n' : Node} {st st1 : St}
    (hraw : n.Forall (SNodeC st.stash.length)) (htl : n.tail = none) (hst : StOKC st.stash)
    (h : elStep hi pi n st = some (n', st1)) :
    ItemOKC st1.stash.length (.node n') ∧ StOKC st1.stash ∧ st.stash.length ≤ st1.stash.length ∧
      st1.html = st.html := by
  unfold elStep at h
  split at h
  · simp only [Option.some.injEq, Prod.mk.injEq] at h
    obtain ⟨rfl, rfl⟩ := h
    exact ⟨⟨hraw, htl⟩, hst, Nat.le_refl _, rfl⟩
  · cases h1 : hiNode hi pi { n with children := [] } st with
    | none => simp [h1] at h
    | some r1 =>
      obtain ⟨n1, sa⟩ := r1
      simp only [h1] at h
      cases h2 : hiNodes hi pi n.children sa with
      | none => simp [h2] at h
      | some r2 =>
        obtain ⟨kids, sb⟩ := r2
        simp only [h2, Option.some.injEq, Prod.mk.injEq] at h
        obtain ⟨rfl, rfl⟩ := h
        rw [Node.forall_iff] at hraw
        have hs' : SNodeC st.stash.length { n with children := [] } := by
          obtain ⟨a1, a2, a3, a4, a5⟩ := hraw.1
          refine ⟨a1, a2, a3, a4, ?_⟩
          by_cases hc : isCode n = true
          · have hc' : isCode ({ n with children := [] } : Node) = true := hc
            rw [if_pos hc] at a5; rw [if_pos hc']
            exact ⟨a5.1, a5.2.1, rfl, a5.2.2.2⟩
          · have hc' : ¬ isCode ({ n with children := [] } : Node) = true := hc
            rw [if_neg hc] at a5; rw [if_neg hc']; exact a5
        obtain ⟨a1, a2, a3, a4, a5, a6⟩ := hiNodeC_spec hhi hs' hst h1
        obtain ⟨b1, b2, b3, b4⟩ := hiNodesC_spec hhi n.children kids sa _
          (fun c hc => forall_SNodeC_mono a5 (hraw.2 c hc)) a4 h2
        refine ⟨⟨?_, a3 htl⟩, b2, Nat.le_trans a5 b3, b4.trans a6⟩
        rw [Node.forall_iff]
        refine ⟨?_, b1⟩
        -- the element with its new children: a `code` element has none and keeps none
        obtain ⟨c1, c2, c3, c4, c5⟩ := a1.mono b3
        refine ⟨c1, c2, c3, c4, ?_⟩
        by_cases hc : isCode n1 = true
        · have hc' : isCode ({ n1 with children := kids } : Node) = true := hc
          rw [if_pos hc] at c5; rw [if_pos hc']
          refine ⟨c5.1, c5.2.1, ?_, c5.2.2.2⟩
          have hcn : isCode n = true := by
            have : n1.tag = n.tag := by
              unfold hiNode at h1
              cases x1 : hiOpt hi n.text n.textAtomic (pi + 1) st with
              | none => simp [x1] at h1
              | some y1 =>
                simp only [x1] at h1
                cases x2 : hiOpt hi n.tail n.tailAtomic pi y1.2 with
                | none => simp [x2] at h1
                | some y2 =>
                  simp only [x2, Option.some.injEq, Prod.mk.injEq] at h1
                  rw [← h1.1]
            simpa [isCode, this] using hc
          have := hraw.1.2.2.2.2
          rw [if_pos hcn] at this
          have hk : n.children = [] := this.2.2.1
          rw [hk] at h2
          simp only [hiNodes, Option.some.injEq, Prod.mk.injEq] at h2
          exact h2.1.symm
        · have hc' : ¬ isCode ({ n1 with children := kids } : Node) = true := hc
          rw [if_neg hc] at c5; rw [if_neg hc']; exact c5

theorem spliceC_out {pi : Nat} {data : Str} {start : Nat} {stop : Int} {st st1 : St} {it : StashItem}
    (hd : DomB data) (hs : SpliceC st.stash.length pi data start stop) (hle : st.stash.length ≤ st1.stash.length)
    (hst : StOKC st1.stash) (hit : ItemOKC st1.stash.length it) :
    DataC pi (stashNode st1 it).2.stash.length (data.take start ++ (stashNode st1 it).1 ++ pyDrop data stop) ∧
      StOKC (stashNode st1 it).2.stash := by
  obtain ⟨s1, s2, s3⟩ := hs
  obtain ⟨j1, j2⟩ := s3 _ (sepOK3_placeholder st1.stash.length)
  refine ⟨⟨?_, ?_, j1, j2⟩, hst.push hit⟩
  · simp only [stashNode, List.length_append, List.length_cons, List.length_nil]
    exact WF.append (WF.append (s1.mono (by omega) id) (wf_placeholder (by omega))) (s2.mono (by omega) id)
  · exact domB_append.2 ⟨domB_append.2 ⟨hd.take _, domB_placeholder _⟩, hd.subset (pyDrop_subset _ _)⟩

/-- one step of the pattern loop: the new data, with the invariant of the pattern index that is tried next -/
theorem applyPatternC_spec {cfg : Cfg} (hfm : FMSpecC cfg) {hi : HI} (hhi : HIokC hi) {pi : Nat}
    (hpi : pi < patternCount) {data : Str} {si : Nat} {st : St} {d : Str} {m : Bool} {si' : Nat} {st' : St}
    (hsi : pi = 0 → si = 0) (hdat : DataC pi st.stash.length data) (hst : StOKC st.stash)
    (h : applyPattern cfg hi pi data si st = some (d, m, si', st')) :
    DataC (if m then pi else pi + 1) st'.stash.length d ∧ ((if m then pi else pi + 1) = 0 → si' = 0) ∧
      StOKC st'.stash ∧ st.stash.length ≤ st'.stash.length ∧ st'.html = st.html := by
  rw [applyPattern_eq] at h
  cases hf : findMatch cfg pi data si st with
  | none => simp [hf] at h
  | some r =>
    obtain ⟨fo, st0⟩ := r
    obtain ⟨e, hfo, hno⟩ := hfm pi data si st fo st0 hpi hsi hdat hf
    subst e
    cases fo with
    | none =>
      simp only [hf, Option.some.injEq, Prod.mk.injEq] at h
      obtain ⟨rfl, rfl, rfl, rfl⟩ := h
      simp only [Bool.false_eq_true, if_false]
      refine ⟨⟨hdat.wf, hdat.dom, hdat.adj, btInv_of_done (hno rfl)⟩, fun h => by omega, hst, Nat.le_refl _, by first | rfl | trivial⟩
    | some f =>
      have hfo := hfo f rfl
      simp only [hf] at h
      unfold FoundOKC at hfo
      cases hnode : f.node with
      | none =>
        simp only [hnode, Option.some.injEq, Prod.mk.injEq] at h hfo
        obtain ⟨rfl, rfl, rfl, rfl⟩ := h
        simp only [if_true]
        exact ⟨hdat, fun h => by omega, hst, Nat.le_refl _, by first | rfl | trivial⟩
      | str s =>
        simp only [hnode] at h hfo
        simp only [Option.some.injEq, Prod.mk.injEq] at h
        obtain ⟨rfl, rfl, rfl, rfl⟩ := h
        simp only [if_true]
        obtain ⟨o1, o2⟩ := spliceC_out hdat.dom hfo.1 (Nat.le_refl _) hst (it := .str s) hfo.2
        exact ⟨o1, by first | trivial | exact fun _ => trivial | exact fun _ => rfl, o2, by simp [stashNode], by first | rfl | trivial⟩
      | el n =>
        simp only [hnode] at h hfo
        cases hel : elStep hi pi n st0 with
        | none => simp [hel] at h
        | some r =>
          obtain ⟨n', st1⟩ := r
          simp only [hel, Option.some.injEq, Prod.mk.injEq] at h
          obtain ⟨rfl, rfl, rfl, rfl⟩ := h
          simp only [if_true]
          obtain ⟨k1, k2, k3, k4⟩ := elStepC_spec hhi hfo.2.1 hfo.2.2.1 hst hel
          obtain ⟨o1, o2⟩ := spliceC_out hdat.dom hfo.1 k3 k2 k1
          exact ⟨o1, by first | trivial | exact fun _ => trivial | exact fun _ => rfl, o2, by simp [stashNode]; omega, k4⟩

theorem hiLoopC_spec {ap : Nat → Str → Nat → St → Option (Str × Bool × Nat × St)}
    (hap : ∀ pi data si st d m si' st', pi < patternCount → (pi = 0 → si = 0) → DataC pi st.stash.length data →
      StOKC st.stash → ap pi data si st = some (d, m, si', st') →
      DataC (if m then pi else pi + 1) st'.stash.length d ∧ ((if m then pi else pi + 1) = 0 → si' = 0) ∧
        StOKC st'.stash ∧ st.stash.length ≤ st'.stash.length ∧ st'.html = st.html) :
    ∀ (g : Nat) (data : Str) (pi si : Nat) (st : St) (d : Str) (st' : St), (pi = 0 → si = 0) →
      DataC pi st.stash.length data → StOKC st.stash → hiLoop ap g data pi si st = some (d, st') →
      HIOutC st d st' := by
  intro g
  induction g with
  | zero => intro data pi si st d st' _ _ _ h; simp [hiLoop] at h
  | succ g ih =>
    intro data pi si st d st' hsi hdat hst h
    simp only [hiLoop] at h
    split at h
    · rename_i hpi
      cases ha : ap pi data si st with
      | none => simp [ha] at h
      | some r =>
        obtain ⟨d1, m, si1, st1⟩ := r
        simp only [ha] at h
        obtain ⟨o1, o2, o3, o4, o5⟩ := hap pi data si st d1 m si1 st1 hpi hsi hdat hst ha
        have := ih _ _ _ _ _ _ o2 o1 o3 h
        exact ⟨this.str, this.stOK, Nat.le_trans o4 this.le, this.html.trans o5⟩
    · rename_i hpi
      simp only [Option.some.injEq, Prod.mk.injEq] at h
      obtain ⟨rfl, rfl⟩ := h
      have hbt : BtDone data := by
        have := hdat.bt
        unfold BtInv at this
        rw [if_neg (by unfold patternCount at hpi; omega)] at this
        exact this
      exact ⟨⟨hdat.wf, hdat.dom, hdat.adj, hbt⟩, hst, Nat.le_refl _, rfl⟩

theorem handleInlineC_spec {cfg : Cfg} (hfm : FMSpecC cfg) :
    ∀ f, HIokC (fun d p s => handleInline cfg f d p s) := by
  intro f
  induction f with
  | zero => intro data pi st d st' _ _ h; simp [handleInline] at h
  | succ f ih =>
    intro data pi st d st' hdat hst h
    simp only [handleInline] at h
    exact hiLoopC_spec (fun pi data si st d m si' st' hpi hsi hdat hst ha =>
      applyPatternC_spec hfm ih hpi hsi hdat hst ha) _ _ _ _ _ _ _ (fun _ => rfl) hdat hst h

theorem hiSpecC_of_fmSpecC {cfg : Cfg} (hfm : FMSpecC cfg) : HISpecC cfg := by
  intro data st d st' hs hst h
  have hdat : DataC 0 st.stash.length data := ⟨hs.1, hs.2.1, hs.2.2.1, by unfold BtInv; simpa using hs.2.2.2⟩
  have := handleInlineC_spec hfm _ data 0 st d st' hdat hst h
  exact ⟨this.str, this.stOK, this.le, this.html⟩

end MdVerif.NoCtl
