/-
Helper lemmas for `Props/C02Fn.lean`, part 4: the extension pipeline WITH TOC never answers `err` when the headings of
the tree handed to `TocTreeprocessor` hold no STX (`tocClean`, decidable by evaluation), and the combined statement for
every flag set.

* `lateStageX_toc`        — the tree processors behind the inline stage when toc is on;
* `tocInput`, `tocClean`  — the tree handed to `TocTreeprocessor` (on the sufficient fuel) and the hypothesis on it;
* `lateStageX_ne_err_toc`, `lateStageX_shell_toc`, `treeXBig_ne_err_toc`, `treeXBig_rootDiv_toc`;
* `treeOod`               — the model's domain: `treeXBig` does not answer `ood`;
* `convertXBig_ok_all`    — every flag set.
Core Lean only.
-/
import MdVerif.Lemmas.C02FnTocTree
import MdVerif.Lemmas.C02FnDup2

namespace MdVerif.C02Toc
open Py Pipeline PipelineX NoCtl C02BigSh C02BigNB C02BigX C02Fn

theorem lateStageX_toc {x : Exts} (htoc : x.toc = true) (cfg : Cfg) (log : Block.Refs) (t : Node) (xs : InlineX.XSt) :
    lateStageX x cfg log t xs =
      match dupStage x t xs.fn with
      | none => .err
      | some t1 =>
        match TocTree.run { fmt := cfg.fmt, post := postX x cfg xs.st.html } cfg.blockLevel (late3 x cfg log t1) with
        | .oof => .oof
        | .err => .err
        | .ood => .ood
        | .ok t6 =>
          match TreeProc.unescapeTree t6 with
          | none => .err
          | some u => .ok u xs.st.html := by
  simp only [lateStageX, midStageX, tocStageX, htoc, if_true, late3, dupStage]
  cases (if x.footnotes = true then FootnotesTree.duplicates xs.fn t else some t) with
  | none => rfl
  | some t1 => rfl

/-- `midStageX` is `dupStage` followed by prettify, attr_list, abbr -/
theorem midStageX_eq (x : Exts) (cfg : Cfg) (log : Block.Refs) (t : Node) (fn : Footnotes.State) :
    midStageX x cfg log t fn = (dupStage x t fn).map (late3 x cfg log) := by
  simp only [midStageX, dupStage, late3]
  cases (if x.footnotes = true then FootnotesTree.duplicates fn t else some t) <;> rfl

/-- the tree handed to `TocTreeprocessor` (inline stage on the sufficient fuel); `none` when an earlier stage does not
    answer `ok` -/
def tocInput (x : Exts) (cfg : Cfg) (src : Str) : Option Node :=
  match blockStageX x cfg src with
  | .ok (root, log, stash) =>
    match runXBig (inlineCfgX x cfg log) root stash with
    | some (t, xs) => midStageX x cfg log t xs.fn
    | none => none
  | _ => none

/-- **the hypothesis of the partial theorem**: no heading element of the tree handed to `TocTreeprocessor` holds an STX —
    neither its serialisation (after `remove_fnrefs`) nor an attribute value.  (A heading holds an STX when its text
    has a backslash escape, an entity reference or a leaked placeholder.) -/
def tocClean (x : Exts) (cfg : Cfg) (src : Str) : Bool :=
  match tocInput x cfg src with
  | some t => hdsClean cfg.fmt t
  | none => true

theorem div_not_header : TocTree.isHeaderTag (.name "div".toList) = false := by decide

/-- behind the inline stage, toc on: no `err` -/
theorem lateStageX_ne_err_toc {x : Exts} (htoc : x.toc = true) (cfg : Cfg) {log : Block.Refs} (hlog : LogOk log)
    {t : Node} (hS : t.Forall TokG.NodeS) (xs : InlineX.XSt) (hdup : dupStage x t xs.fn ≠ none)
    (hcl : ∀ t5, midStageX x cfg log t xs.fn = some t5 → hdsClean cfg.fmt t5 = true) :
    lateStageX x cfg log t xs ≠ .err := by
  rw [lateStageX_toc htoc]
  cases hd : dupStage x t xs.fn with
  | none => exact absurd hd hdup
  | some t1 =>
    simp only
    have hnb := late3_NB_G (x := x) cfg hlog (dupStage_S hS hd)
    have hc := hcl (late3 x cfg log t1) (by rw [midStageX_eq, hd]; rfl)
    rcases run_clean (env := { fmt := cfg.fmt, post := postX x cfg xs.st.html })
        (fun s hs => postX_noSTX x cfg xs.st.html hs) cfg.blockLevel _ hc hnb with h | ⟨t6, h, h6, _, _⟩
    · rw [h]; intro e; cases e
    · rw [h]
      simp only
      have hu := unescapeTree_NB h6
      cases hun : TreeProc.unescapeTree t6 with
      | none => exact absurd hun hu
      | some u => intro e; cases e

/-- `run` keeps the tag of the root and, the root being no heading, its attributes -/
theorem run_shell {env : TocTree.Env} {bl : List Str} {n t6 : Node} (hn : Shell n)
    (hr : TocTree.run env bl n = .ok t6) : Shell t6 := by
  obtain ⟨tag, attrs, text, ta, children, tail, tla⟩ := n
  obtain ⟨e1, e2⟩ := hn
  simp only at e1 e2
  subst e1; subst e2
  unfold TocTree.run at hr
  split at hr
  · cases hr
  · split at hr
    · cases hr
    · cases hr
    · cases hr
    · next r' st' hw =>
      simp only [TocTree.R.ok.injEq] at hr
      subst hr
      unfold TocTree.walkNode at hw
      simp only [div_not_header, Bool.false_eq_true, if_false] at hw
      split at hw
      · cases hw
      · cases hw
      · cases hw
      · simp only [TocTree.R.ok.injEq, Prod.mk.injEq] at hw
        obtain ⟨rfl, _⟩ := hw
        exact ⟨(replNode_shell _ _).1, (replNode_shell _ _).2⟩

theorem lateStageX_shell_toc {x : Exts} (htoc : x.toc = true) (cfg : Cfg) (log : Block.Refs) {t : Node}
    (ht : Root0 t) (xs : InlineX.XSt) {u : Node} {html : List Str} (h : lateStageX x cfg log t xs = .ok u html) :
    Shell u := by
  rw [lateStageX_toc htoc] at h
  cases hd : dupStage x t xs.fn with
  | none => rw [hd] at h; cases h
  | some t1 =>
    rw [hd] at h
    simp only at h
    have hq := late3_shell (x := x) cfg log (dupStage_root0 ht hd)
    cases hr : TocTree.run { fmt := cfg.fmt, post := postX x cfg xs.st.html } cfg.blockLevel (late3 x cfg log t1) with
    | oof => rw [hr] at h; cases h
    | err => rw [hr] at h; cases h
    | ood => rw [hr] at h; cases h
    | ok t6 =>
      rw [hr] at h
      simp only at h
      have h6 : Shell t6 := run_shell hq hr
      cases hun : TreeProc.unescapeTree t6 with
      | none => rw [hun] at h; cases h
      | some u' =>
        rw [hun] at h
        simp only [TreeResult.ok.injEq] at h
        obtain ⟨rfl, _⟩ := h
        exact unescapeTree_shell hun h6

/-- the root is the bare `div` — every flag set -/
theorem treeXBig_rootDiv_all {x : Exts} {cfg : Cfg} {src : Str}
    {u : Node} {html : List Str} (h : treeXBig x cfg src = .ok u html) : C14X.rootDiv u = true := by
  cases htoc : x.toc with
  | false => exact treeXBig_rootDiv_fn htoc h
  | true =>
    unfold treeXBig at h
    cases hb : blockStageX x cfg src with
    | oof => rw [hb] at h; cases h
    | ood => rw [hb] at h; cases h
    | ok r =>
      obtain ⟨root, log, stash⟩ := r
      rw [hb] at h
      simp only at h
      have h0 := blockStageX_root0_fn hb
      cases hr : runXBig (inlineCfgX x cfg log) root stash with
      | none => rw [hr] at h; cases h
      | some ts =>
        obtain ⟨t, xs⟩ := ts
        rw [hr] at h
        simp only at h
        obtain ⟨e1, e2⟩ := lateStageX_shell_toc htoc cfg log (runXBig_root0 hr h0) xs h
        simp [C14X.rootDiv, e1, e2]

/-- **no tree processor raises with toc** when the headings handed to `TocTreeprocessor` hold no STX -/
theorem treeXBig_ne_err_toc {x : Exts} (htoc : x.toc = true) (cfg : Cfg) (src : Str)
    (htab : x.fencedCode = true → 0 < cfg.tab) (hcl : tocClean x cfg src = true) : treeXBig x cfg src ≠ .err := by
  unfold treeXBig
  cases hb : blockStageX x cfg src with
  | oof => intro h; cases h
  | ood => intro h; cases h
  | ok r =>
    obtain ⟨root, log, stash⟩ := r
    obtain ⟨hS0, hlog⟩ := blockStageX_tokG htab hb
    simp only
    cases hr : runXBig (inlineCfgX x cfg log) root stash with
    | none => intro h; cases h
    | some ts =>
      obtain ⟨t, xs⟩ := ts
      simp only
      have hS : t.Forall TokG.NodeS :=
        TokG.runLoopX_S (xokG_inlineCfgX x cfg hlog) _ _ _ _ _ _ _ hr hS0 TokG.stashS_nil
      have hdup : dupStage x t xs.fn ≠ none := by
        unfold dupStage
        split
        · unfold runXBig at hr
          exact C02FnDup.duplicates_ne_none hb _ _ _ rfl hr xs.fn
        · intro h; cases h
      refine lateStageX_ne_err_toc htoc cfg hlog hS xs hdup ?_
      intro t5 h5
      simp only [tocClean, tocInput, hb, hr, h5] at hcl
      exact hcl

/-- `DupOk` holds (as `Props/C02Fn.lean` states it) -/
theorem dupOk (x : Exts) (cfg : Cfg) (src : Str) : DupOk x cfg src := by
  intro root log stash t xs hb hr
  unfold dupStage
  split
  · unfold runXBig at hr
    exact C02FnDup.duplicates_ne_none hb _ _ _ rfl hr xs.fn
  · intro h; cases h

/-- **`Markdown.convert` does not raise** — every flag set; with toc under `tocClean` -/
theorem convertXBig_ne_err_all {x : Exts} (cfg : Cfg) (src : Str) (htab : x.fencedCode = true → 0 < cfg.tab)
    (hcl : x.toc = true → tocClean x cfg src = true) : convertXBig x cfg src ≠ .err := by
  intro h
  rcases convertXBig_err_cases h with ht | ⟨u, html, ht, hs⟩
  · cases htoc : x.toc with
    | false => exact treeXBig_ne_err_fn htoc cfg src htab (dupOk x cfg src) ht
    | true => exact treeXBig_ne_err_toc htoc cfg src htab (hcl htoc) ht
  · rw [C14X.topLevelStrip_div _ u (treeXBig_rootDiv_all ht)] at hs
    cases hs

/-- the model's domain: the stages up to the serializer do not answer "out of domain" (admonition: `!!!` + non-ASCII;
    fenced_code with attr_list: a fenced block with options; footnotes: a footnote body that defines a footnote; toc:
    a heading name with an `&` that starts none of `&amp;` `&lt;` `&gt;` `&quot;`, or a non-ASCII character) -/
def treeOod (x : Exts) (cfg : Cfg) (src : Str) : Bool :=
  match treeXBig x cfg src with
  | .ood => true
  | _ => false

theorem treeOod_of_inDomainFn {x : Exts} (htoc : x.toc = false) {cfg : Cfg} {src : Str} (hd : InDomainFn x cfg src) :
    treeOod x cfg src = false := by
  unfold treeOod
  cases h : treeXBig x cfg src with
  | ood => exact absurd h (treeXBig_ne_ood_fn htoc hd)
  | _ => rfl

theorem convertXBig_ne_ood_all {x : Exts} {cfg : Cfg} {src : Str} (hlt : '<' ∉ src)
    (hd : treeOod x cfg src = false) : convertXBig x cfg src ≠ .ood := by
  unfold convertXBig
  split
  · next hc => exact absurd (by simpa using hc) hlt
  · split
    · next hc => cases hc
    · split
      · intro h; cases h
      · cases ht : treeXBig x cfg src with
        | oof => intro h; cases h
        | err => intro h; cases h
        | ood => simp only [treeOod, ht] at hd; cases hd
        | ok u html =>
          simp only [finishX]
          split
          · intro h; cases h
          · split <;> (intro h; cases h)

/-- **C02: `convertXBig` returns a string** — every flag set; with toc under `tocClean` -/
theorem convertXBig_ok_all {x : Exts} (cfg : Cfg) (src : Str) (hlt : '<' ∉ src)
    (htab : x.admonition = true ∨ x.fencedCode = true → 0 < cfg.tab) (hd : treeOod x cfg src = false)
    (hw : x.wikilinks = true → WikiSrc cfg src) (hcl : x.toc = true → tocClean x cfg src = true) :
    ∃ out, convertXBig x cfg src = .ok out := by
  have h1 := convertXBig_ne_oof_any (x := x) cfg src htab hw
  have h2 := convertXBig_ne_err_all (x := x) cfg src (fun h => htab (.inr h)) hcl
  have h3 := convertXBig_ne_ood_all hlt hd
  cases hc : convertXBig x cfg src with
  | ok out => exact ⟨out, rfl⟩
  | oof => exact absurd hc h1
  | err => exact absurd hc h2
  | ood => exact absurd hc h3

end MdVerif.C02Toc
