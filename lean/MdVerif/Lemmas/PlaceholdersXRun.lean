/-
Helper lemmas for C10 on the extension model, part 2: `InlineX.runX` (the tree walk of `InlineProcessor.run` over a
pattern table) — port of `Lemmas/PlaceholdersBRun.lean`: given the contract `HISpecXB` of `handleInlineTopX`, every
placeholder is replaced and every element of the result satisfies `WNodeB 0`; the exclusion of blank wikilink labels
(`QN wl`, `QSt wl`, `Lemmas/PlaceholdersXQ.lean`) is carried along.  The placeholder machinery (`ppTop`) and
the path/coverage machinery are shared with `Model/Inline.lean`, so `ppTopB_spec`, `all_cleanB`, `setAt_frame`, … apply
unchanged.  Core Lean only.
-/
import MdVerif.Lemmas.PlaceholdersXHI

namespace MdVerif.NoCtlX
open MdVerif.NoCtl Py Inline InlineX

/-! ### `visitChildX` -/

/-- the text step of `visitChildX` -/
theorem visit_textXB {wl : Bool} {xc : XCfg} (hhi : HISpecXB wl xc) {child : Node} {x : XSt}
    (hc : WNodeB x.st.stash.length child) (hst : StOKB x.st.stash) (hcq : QN wl child) (hqs : QSt wl x.st.stash)
    {c1 : Node} {lst : List Node} {x1 : XSt}
    (h : (if Node.truthy child.text && !child.textAtomic then
            match handleInlineTopX xc (child.text.getD []) x with
            | none => none
            | some (data, x1) =>
              match ppTop x1.st data false { child with text := none, textAtomic := false } true with
              | none => none
              | some (lst, c1) => some (c1, lst, x1)
          else some (child, [], x)) = some (c1, lst, x1)) :
    x.st.stash.length ≤ x1.st.stash.length ∧ StOKB x1.st.stash ∧ x1.st.html = x.st.html ∧
    WNodeB x1.st.stash.length c1 ∧ WFO true 0 c1.text ∧ c1.children = child.children ∧ c1.tail = child.tail ∧
    c1.tailAtomic = child.tailAtomic ∧ (∀ n ∈ lst, OutB x1.st.stash.length n) ∧
    QN wl c1 ∧ QSt wl x1.st.stash ∧ ∀ n ∈ lst, n.Forall (QN wl) := by
  split at h
  · rename_i hcond
    simp only [Bool.and_eq_true, Bool.not_eq_true'] at hcond
    cases hh : handleInlineTopX xc (child.text.getD []) x with
    | none => simp [hh] at h
    | some r =>
      obtain ⟨data, x1'⟩ := r
      simp only [hh] at h
      cases hp : ppTop x1'.st data false { child with text := none, textAtomic := false } true with
      | none => simp [hp] at h
      | some r2 =>
        obtain ⟨lst', c1'⟩ := r2
        simp only [hp, Option.some.injEq, Prod.mk.injEq] at h
        obtain ⟨rfl, rfl, rfl⟩ := h
        obtain ⟨t1, t2, t3, t4, t5, t6⟩ := hc
        rw [hcond.2] at t5
        simp only [Bool.false_eq_true, if_false] at t5
        obtain ⟨w1, w3, w4, w5, w6, w7⟩ := hhi _ _ _ _ t5 hst (hcq.1 hcond.2) hqs hh
        have inv := ppTopB_spec w3 (isText := true) (parent := { child with text := none, textAtomic := false })
          w1 rfl rfl hp
        obtain ⟨iq1, iq2⟩ := ppTopQ_spec w3 w7 (isText := true)
          (parent := { child with text := none, textAtomic := false }) w1 w6 rfl hp
        have hs : StrB 0 c1'.text := inv.slotOK
        have hfl : c1'.textAtomic = false := inv.flag
        have hcode : isCode c1' = isCode child := by simp only [isCode, ← inv.frame.1]
        refine ⟨w4, w3, w5, ?_, hs.1, inv.frame.2.2.symm, inv.other.1, inv.other.2, inv.res,
          ⟨fun _ => iq1, by rw [inv.other.1]; exact hcq.2⟩, w7, iq2⟩
        refine ⟨by rw [← inv.frame.1]; exact t1, by rw [← inv.frame.2.1]; exact t2,
          by rw [inv.other.2]; exact t3, by rw [inv.other.1]; exact t4.mono w4, ?_, ?_⟩
        · rw [hfl]; simp only [Bool.false_eq_true, if_false]
          exact (hs.mono (Nat.zero_le _)).toT
        · intro hcd
          rw [hcode] at hcd
          have := t6 hcd
          rw [this] at hcond; exact absurd hcond.2 (by decide)
  · rename_i hcond
    simp only [Option.some.injEq, Prod.mk.injEq] at h
    obtain ⟨rfl, rfl, rfl⟩ := h
    refine ⟨Nat.le_refl _, hst, rfl, hc, ?_, rfl, rfl, rfl, by simp, hcq, hqs, by simp⟩
    by_cases hat : child.textAtomic = true
    · have := hc.2.2.2.2.1
      rw [if_pos hat] at this
      exact WF.of_noCtl this
    · have : Node.truthy child.text = false := by
        simp only [Bool.and_eq_true, Bool.not_eq_true', not_and, Bool.not_eq_false] at hcond
        cases htr : Node.truthy child.text with
        | false => rfl
        | true => exact absurd (hcond htr) hat
      unfold WFO
      cases htx : child.text with
      | none => exact .nil
      | some s =>
        cases s with
        | nil => exact .nil
        | cons a b => rw [htx] at this; simp [Node.truthy] at this

/-- the tail step of `visitChildX` -/
theorem visit_tailXB {wl : Bool} {xc : XCfg} (hhi : HISpecXB wl xc) {c1 : Node} {x1 : XSt}
    (hc : WNodeB x1.st.stash.length c1) (hst : StOKB x1.st.stash) (hcq : QN wl c1) (hqs : QSt wl x1.st.stash)
    {c2 : Node} {tr : List Node} {x2 : XSt}
    (h : (if Node.truthy c1.tail then
            match (if c1.tailAtomic then some (c1.tail.getD [], x1) else handleInlineTopX xc (c1.tail.getD []) x1) with
            | none => none
            | some (data, x2) =>
              match ppTop x2.st data c1.tailAtomic (mkEl "d") false with
              | none => none
              | some (tr, dumby) =>
                some ((if Node.truthy dumby.tail then { c1 with tail := dumby.tail, tailAtomic := dumby.tailAtomic }
                       else { c1 with tail := none, tailAtomic := false }), tr, x2)
          else some (c1, [], x1)) = some (c2, tr, x2)) :
    x1.st.stash.length ≤ x2.st.stash.length ∧ StOKB x2.st.stash ∧ x2.st.html = x1.st.html ∧
    WNodeB x2.st.stash.length c2 ∧ WFO true 0 c2.tail ∧ c2.text = c1.text ∧ c2.children = c1.children ∧
    (∀ n ∈ tr, OutB x2.st.stash.length n) ∧
    QN wl c2 ∧ QSt wl x2.st.stash ∧ ∀ n ∈ tr, n.Forall (QN wl) := by
  have hta : c1.tailAtomic = false := hc.2.2.1
  rw [hta] at h
  simp only [Bool.false_eq_true, if_false] at h
  split at h
  · cases hx : handleInlineTopX xc (c1.tail.getD []) x1 with
    | none => simp [hx] at h
    | some r =>
      obtain ⟨data, x2'⟩ := r
      simp only [hx] at h
      obtain ⟨w1, w3, w4, w5, w6, w7⟩ := hhi _ _ _ _ hc.2.2.2.1 hst hcq.2 hqs hx
      cases hp : ppTop x2'.st data false (mkEl "d") false with
      | none => simp [hp] at h
      | some r2 =>
        obtain ⟨tr', dumby⟩ := r2
        simp only [hp, Option.some.injEq, Prod.mk.injEq] at h
        obtain ⟨rfl, rfl, rfl⟩ := h
        have inv := ppTopB_spec w3 (isText := false) (parent := mkEl "d") w1 rfl rfl hp
        obtain ⟨iq1, iq2⟩ := ppTopQ_spec w3 w7 (isText := false) (parent := mkEl "d") w1 w6 rfl hp
        have hs : StrB 0 dumby.tail := inv.slotOK
        have hfl : dumby.tailAtomic = false := inv.flag
        have hcm := hc.mono w4
        refine ⟨w4, w3, w5, ?_, ?_, ?_, ?_, inv.res, ?_, w7, iq2⟩
        rotate_left 4
        · split
          · exact ⟨hcq.1, iq1⟩
          · exact ⟨hcq.1, qw_nil wl⟩
        · split
          · rw [hfl]; exact hcm.set_tail (hs.mono (Nat.zero_le _)).toT
          · exact hcm.set_tail (strT_none _)
        · split
          · exact hs.1
          · exact .nil
        · split <;> rfl
        · split <;> rfl
  · rename_i hcond
    simp only [Option.some.injEq, Prod.mk.injEq] at h
    obtain ⟨rfl, rfl, rfl⟩ := h
    refine ⟨Nat.le_refl _, hst, rfl, hc, ?_, rfl, rfl, by simp, hcq, hqs, by simp⟩
    unfold WFO
    cases htx : c1.tail with
    | none => exact .nil
    | some s =>
      cases s with
      | nil => exact .nil
      | cons a b => rw [htx] at hcond; simp [Node.truthy] at hcond

theorem visitChildX_specB {wl : Bool} {xc : XCfg} (hhi : HISpecXB wl xc) {child : Node} {v : VisitX} {c3 : Node}
    {tr : List Node} {v' : VisitX} (hc : child.Forall (WNodeB v.x.st.stash.length)) (hst : StOKB v.x.st.stash)
    (hcq : child.Forall (QN wl)) (hqs : QSt wl v.x.st.stash)
    (h : visitChildX xc child v = some (c3, tr, v')) :
    v.x.st.stash.length ≤ v'.x.st.stash.length ∧ StOKB v'.x.st.stash ∧ v'.x.st.html = v.x.st.html ∧ v'.done = v.done ∧
    v'.posmap = v.posmap ∧ c3.Forall (WNodeB v'.x.st.stash.length) ∧ Clean true c3 ∧
    (∀ n ∈ tr, OutB v'.x.st.stash.length n) ∧ (∀ q ∈ v.pushes, q ∈ v'.pushes) ∧
    (∀ r, Unclean true c3 r → ∃ q ∈ v'.pushes, q <+: v.done.length :: r) ∧
    c3.Forall (QN wl) ∧ (∀ n ∈ tr, n.Forall (QN wl)) ∧ QSt wl v'.x.st.stash := by
  rw [Node.forall_iff] at hc hcq
  unfold visitChildX at h
  simp only at h
  split at h
  · simp at h
  · rename_i c1 lst x1 h1
    obtain ⟨a1, a2, a3, a4, a5, a6, a7, a8, a9, aq1, aq2, aq3⟩ := visit_textXB hhi hc.1 hst hcq.1 hqs h1
    split at h
    · simp at h
    · rename_i c2 tr' x2 h2
      obtain ⟨b1, b2, b3, b4, b5, b6, b7, b8, bq1, bq2, bq3⟩ := visit_tailXB hhi a4 a2 aq1 aq2 h2
      simp only [Option.some.injEq, Prod.mk.injEq] at h
      obtain ⟨rfl, rfl, rfl⟩ := h
      have hkids : c2.children = child.children := b7.trans a6
      refine ⟨Nat.le_trans a1 b1, b2, b3.trans a3, rfl, rfl, ?_, ⟨by show WFO true 0 c2.text; rw [b6]; exact a5, b5⟩,
        b8, ?_, ?_, ?_, bq3, bq2⟩
      rotate_left 3
      · rw [Node.forall_iff]
        refine ⟨bq1, ?_⟩
        intro g hg
        simp only [List.mem_append] at hg
        rcases hg with hg | hg
        · exact aq3 g hg
        · rw [hkids] at hg
          exact hcq.2 g hg
      · rw [Node.forall_iff]
        refine ⟨b4, ?_⟩
        intro g hg
        simp only [List.mem_append] at hg
        rcases hg with hg | hg
        · exact forall_WNode_monoB b1 (a9 g hg).1
        · rw [hkids] at hg
          exact forall_WNode_monoB (Nat.le_trans a1 b1) (hc.2 g hg)
      · intro q hq
        split
        · simp [hq]
        · simp [hq]
      · intro r hu
        obtain ⟨n, hn, d, hd, hnc⟩ := hu
        have hpush1 : child.children ≠ [] → [v.done.length] ∈
            (if child.children.isEmpty = true then
              (List.map (fun k => [v.done.length, k]) (List.range lst.length)).reverse ++ v.pushes
            else [v.done.length] ::
              ((List.map (fun k => [v.done.length, k]) (List.range lst.length)).reverse ++ v.pushes)) := by
          intro hne
          have : child.children.isEmpty = false := by
            cases hch : child.children with
            | nil => exact absurd hch hne
            | cons _ _ => rfl
          simp [this]
        have hpush2 : ∀ j, j < lst.length → [v.done.length, j] ∈
            (if child.children.isEmpty = true then
              (List.map (fun k => [v.done.length, k]) (List.range lst.length)).reverse ++ v.pushes
            else [v.done.length] ::
              ((List.map (fun k => [v.done.length, k]) (List.range lst.length)).reverse ++ v.pushes)) := by
          intro j hj
          split <;> simp <;> first | exact .inl hj | exact .inr (.inl hj)
        cases r with
        | nil =>
          rw [getAt_nil] at hn
          cases hn
          simp only [List.mem_append] at hd
          rcases hd with hd | hd
          · exact absurd (a9 d hd).2 hnc
          · rw [hkids] at hd
            exact ⟨_, hpush1 (List.ne_nil_of_mem hd), List.prefix_refl _⟩
        | cons j r' =>
          rw [getAt_cons] at hn
          simp only at hn
          rcases Nat.lt_or_ge j lst.length with hj | hj
          · exact ⟨_, hpush2 j hj, ⟨r', rfl⟩⟩
          · rw [List.getElem?_append_right hj, hkids] at hn
            cases hg : child.children[j - lst.length]? with
            | none => simp [hg] at hn
            | some g =>
              exact ⟨_, hpush1 (List.ne_nil_of_mem (List.mem_of_getElem? hg)), ⟨j :: r', rfl⟩⟩

/-! ### `visitLoopX`, `runLoopX`, `runX` -/

structure VInvXB (wl : Bool) (v : VisitX) : Prop where
  stOK : StOKB v.x.st.stash
  qs : QSt wl v.x.st.stash
  doneQ : ∀ c ∈ v.done, c.Forall (QN wl)
  done : ∀ c ∈ v.done, c.Forall (WNodeB v.x.st.stash.length) ∧ Clean true c
  cov : ∀ (idx : Nat) (c : Node) (r : Path), v.done.reverse[idx]? = some c → Unclean true c r →
    ∃ q ∈ v.pushes, q <+: idx :: r

theorem visitLoopX_specB {wl : Bool} {xc : XCfg} (hhi : HISpecXB wl xc) :
    ∀ (g : Nat) (todo : List (Node × Option Nat)) (v v' : VisitX), VInvXB wl v →
      (∀ y ∈ todo, y.1.Forall (WNodeB v.x.st.stash.length)) → (∀ y ∈ todo, y.1.Forall (QN wl)) →
      visitLoopX xc g todo v = some v' →
      VInvXB wl v' ∧ v.x.st.stash.length ≤ v'.x.st.stash.length ∧ v'.x.st.html = v.x.st.html := by
  intro g
  induction g with
  | zero => intro todo v v' _ _ _ h; simp [visitLoopX] at h
  | succ g ih =>
    intro todo v v' inv htodo htodoq h
    cases todo with
    | nil =>
      simp only [visitLoopX, Option.some.injEq] at h
      subst h
      exact ⟨inv, Nat.le_refl _, rfl⟩
    | cons y todo =>
      obtain ⟨child, orig⟩ := y
      simp only [visitLoopX] at h
      cases hv : visitChildX xc child v with
      | none => simp [hv] at h
      | some r =>
        obtain ⟨c, tr, v1⟩ := r
        simp only [hv] at h
        obtain ⟨a1, a2, a3, a4, a5, a6, a7, a8, a9, a10, aq1, aq2, aq3⟩ :=
          visitChildX_specB hhi (htodo (child, orig) (by simp)) inv.stOK (htodoq (child, orig) (by simp)) inv.qs hv
        have inv2 : ∀ pm, VInvXB wl { v1 with done := c :: v1.done, posmap := pm } := by
          intro pm
          refine ⟨a2, aq3, ?_, ?_, ?_⟩
          · intro d hd
            simp only [List.mem_cons] at hd
            rcases hd with rfl | hd
            · exact aq1
            · rw [a4] at hd
              exact inv.doneQ d hd
          · intro d hd
            simp only [List.mem_cons] at hd
            rcases hd with rfl | hd
            · exact ⟨a6, a7⟩
            · rw [a4] at hd
              exact ⟨forall_WNode_monoB a1 (inv.done d hd).1, (inv.done d hd).2⟩
          · intro idx d r hidx hu
            simp only [List.reverse_cons, a4] at hidx
            have hL : v.done.reverse.length = v.done.length := List.length_reverse
            rcases Nat.lt_or_ge idx v.done.reverse.length with hlt | hge
            · rw [List.getElem?_append_left hlt] at hidx
              obtain ⟨q, hq, hpre⟩ := inv.cov idx d r hidx hu
              exact ⟨q, a9 q hq, hpre⟩
            · rw [List.getElem?_append_right hge] at hidx
              have h0 : idx - v.done.reverse.length = 0 := by
                rcases Nat.eq_zero_or_pos (idx - v.done.reverse.length) with h0 | hpos
                · exact h0
                · rw [List.getElem?_eq_none (by simp only [List.length_cons, List.length_nil]; omega)] at hidx; cases hidx
              rw [h0] at hidx
              simp only [List.getElem?_cons_zero, Option.some.injEq] at hidx
              subst hidx
              have hidx' : idx = v.done.length := by omega
              subst hidx'
              exact a10 r hu
        have htodo2 : ∀ y ∈ tr.map (fun n => (n, (none : Option Nat))) ++ todo,
            y.1.Forall (WNodeB v1.x.st.stash.length) := by
          intro y hy
          rcases List.mem_append.1 hy with hy | hy
          · obtain ⟨n, hn, rfl⟩ := List.mem_map.1 hy
            exact (a8 n hn).1
          · exact forall_WNode_monoB a1 (htodo y (by simp [hy]))
        have htodo2q : ∀ y ∈ tr.map (fun n => (n, (none : Option Nat))) ++ todo, y.1.Forall (QN wl) := by
          intro y hy
          rcases List.mem_append.1 hy with hy | hy
          · obtain ⟨n, hn, rfl⟩ := List.mem_map.1 hy
            exact aq2 n hn
          · exact htodoq y (by simp [hy])
        obtain ⟨r1, r2, r3⟩ := ih _ _ v' (inv2 _) htodo2 htodo2q h
        exact ⟨r1, Nat.le_trans a1 r2, r3.trans a3⟩

/-- state of the `while stack` loop -/
structure RInvXB (wl : Bool) (root : Node) (stack : List Path) (x : XSt) : Prop where
  stOK : StOKB x.st.stash
  qs : QSt wl x.st.stash
  treeQ : root.Forall (QN wl)
  tree : root.Forall (WNodeB x.st.stash.length)
  rootClean : Clean true root
  cov : Covered true root stack

theorem runLoopX_specB {wl : Bool} {xc : XCfg} (hhi : HISpecXB wl xc) (g2 : Nat) :
    ∀ (g : Nat) (root : Node) (stack : List Path) (x : XSt) (root' : Node) (x' : XSt), RInvXB wl root stack x →
      runLoopX xc g2 g root stack x = some (root', x') →
      root'.Forall (WNodeB 0) ∧ x'.st.html = x.st.html := by
  intro g
  induction g with
  | zero => intro root stack x root' x' _ h; simp [runLoopX] at h
  | succ g ih =>
    intro root stack x root' x' inv h
    cases stack with
    | nil =>
      simp only [runLoopX, Option.some.injEq, Prod.mk.injEq] at h
      obtain ⟨rfl, rfl⟩ := h
      refine ⟨all_cleanB _ root inv.tree inv.rootClean ?_, rfl⟩
      intro m hu
      obtain ⟨q, hq, _⟩ := inv.cov m hu
      simp at hq
    | cons p stack =>
      simp only [runLoopX] at h
      cases hg : getAt root p with
      | none =>
        simp only [hg] at h
        refine ih _ _ _ _ _ ⟨inv.stOK, inv.qs, inv.treeQ, inv.tree, inv.rootClean, ?_⟩ h
        intro m hu
        obtain ⟨q, hq, hpre⟩ := inv.cov m hu
        rcases List.mem_cons.1 hq with rfl | hq
        · obtain ⟨n, hn, _⟩ := hu
          obtain ⟨n', hn'⟩ := getAt_prefix hn hpre
          rw [hg] at hn'; cases hn'
        · exact ⟨q, hq, hpre⟩
      | some cur =>
        simp only [hg] at h
        cases hv : visitLoopX xc g2 (withIdx cur.children 0) { x := x } with
        | none => simp [hv] at h
        | some v =>
          simp only [hv] at h
          have hcur := forall_getAt inv.tree hg
          have hcurq := forall_getAt inv.treeQ hg
          rw [Node.forall_iff] at hcur hcurq
          have vinv0 : VInvXB wl ({ x := x } : VisitX) := ⟨inv.stOK, inv.qs, by simp, by simp, by simp⟩
          obtain ⟨vinv, hle, hhtml⟩ := visitLoopX_specB hhi g2 _ _ v vinv0
            (fun y hy => hcur.2 _ (mem_withIdx hy)) (fun y hy => hcurq.2 _ (mem_withIdx hy)) hv
          simp only at hle hhtml
          -- the new subtree
          have hnew : ({ cur with children := v.done.reverse } : Node).Forall (WNodeB v.x.st.stash.length) := by
            rw [Node.forall_iff]
            exact ⟨hcur.1.mono hle, fun c hc => (vinv.done c (List.mem_reverse.1 hc)).1⟩
          have hframe := setAt_frame (root := root) (new := { cur with children := v.done.reverse }) hg rfl rfl rfl rfl rfl rfl
          have hnewq : ({ cur with children := v.done.reverse } : Node).Forall (QN wl) := by
            rw [Node.forall_iff]
            exact ⟨hcurq.1, fun c hc => vinv.doneQ c (List.mem_reverse.1 hc)⟩
          have inv' : RInvXB wl (setAt root p { cur with children := v.done.reverse })
              (v.pushes.map (p ++ ·) ++ stack.map (remap p v.posmap)) v.x := by
            refine ⟨vinv.stOK, vinv.qs, forall_setAt (fun _ _ hn => hn) inv.treeQ hnewq hg,
              forall_setAt WNodeB.children_irrel (forall_WNode_monoB hle inv.tree) hnew hg, ?_, ?_⟩
            · unfold Clean; rw [hframe.1, hframe.2.2.1]; exact inv.rootClean
            · intro m hu
              by_cases hpm : p <+: m
              · obtain ⟨r, rfl⟩ := hpm
                obtain ⟨n, hn, d, hd, hnc⟩ := hu
                rw [getAt_setAt_append hg] at hn
                -- an unclean element inside the new subtree is below one of the pushes
                cases r with
                | nil =>
                  rw [getAt_nil] at hn; cases hn
                  exact absurd (vinv.done d (List.mem_reverse.1 hd)).2 hnc
                | cons j r' =>
                  rw [getAt_cons] at hn
                  simp only at hn
                  cases hj : v.done.reverse[j]? with
                  | none => simp [hj] at hn
                  | some c =>
                    simp only [hj] at hn
                    obtain ⟨q, hq, hpre⟩ := vinv.cov j c r' hj ⟨n, hn, d, hd, hnc⟩
                    refine ⟨p ++ q, List.mem_append_left _ (List.mem_map.2 ⟨q, hq, rfl⟩), ?_⟩
                    exact (List.prefix_append_right_inj p).2 hpre
              · have hu' := unclean_setAt_outside (new := { cur with children := v.done.reverse }) hg rfl rfl hpm hu
                obtain ⟨q, hq, hpre⟩ := inv.cov m hu'
                rcases List.mem_cons.1 hq with rfl | hq
                · exact absurd hpre hpm
                · refine ⟨q, List.mem_append_right _ (List.mem_map.2 ⟨q, hq, ?_⟩), hpre⟩
                  exact remap_of_not_prefix _ (fun hpq => hpm (hpq.trans hpre))
          obtain ⟨r1, r2⟩ := ih _ _ _ _ _ inv' h
          exact ⟨r1, r2.trans hhtml⟩

/-- `runX` on a tree of `WNodeB 0` elements: every element of the result is `WNodeB 0` (no placeholder left), and
    the HTML stash is the initial one -/
theorem runX_specB {wl : Bool} {xc : XCfg} (hhi : HISpecXB wl xc) {tree t : Node} {html : List Str} {xs : XSt}
    (ht : tree.Forall (WNodeB 0)) (htq : tree.Forall (QN wl)) (h : runX xc tree html = some (t, xs)) :
    t.Forall (WNodeB 0) ∧ xs.st.html = html := by
  unfold runX at h
  have hcl : Clean true tree := by
    rw [Node.forall_iff] at ht
    obtain ⟨-, -, -, t4, t5, -⟩ := ht.1
    refine ⟨?_, t4.1⟩
    by_cases hc : tree.textAtomic = true
    · rw [if_pos hc] at t5; exact WF.of_noCtl t5
    · rw [if_neg hc] at t5; exact t5.1
  have inv : RInvXB wl tree [[]] { st := { html := html } } := by
    refine ⟨by intro i it hi; simp at hi, qst_nil wl, htq, ht, hcl, ?_⟩
    intro m _
    exact ⟨[], by simp, List.nil_prefix⟩
  exact runLoopX_specB hhi _ _ _ _ _ _ _ inv h

end MdVerif.NoCtlX
