/-
Helper lemmas for the command-line model (C20, `MdVerif/Model/Cli.lean`): what each flag of the canonical command line
does to the parser state.  The facts about the option table are decided by the kernel over the table regenerated
from the source.  Core Lean only.
-/
import MdVerif.Model.Cli

namespace MdVerif.Cli
open MdVerif

theorem lookupShort_tbl :
    lookupShort 'f' = some .file ∧ lookupShort 'e' = some .encoding ∧ lookupShort 'o' = some .outputFormat ∧
    lookupShort 'n' = some .noLazyOl ∧ lookupShort 'x' = some .extension ∧ lookupShort 'c' = some .configfile ∧
    lookupShort 'q' = some (.level 60) ∧ lookupShort 'v' = some (.level 30) ∧ lookupShort 'h' = some .help := by
  decide +kernel

theorem matchAbbrev_noisy : matchAbbrev ['n', 'o', 'i', 's', 'y'] = some (.level 10) := by decide +kernel

variable (v : Str) (rest : List Str) (o : Opts) (pos : List Str)

theorem go_f : go false (['-', 'f'] :: v :: rest) o pos = go false rest { o with output := some v } pos := by
  simp [go, shortOpts, lookupShort_tbl.1, Act.takesValue, applyVal]

theorem go_e : go false (['-', 'e'] :: v :: rest) o pos = go false rest { o with encoding := some v } pos := by
  simp [go, shortOpts, lookupShort_tbl.2.1, Act.takesValue, applyVal]

theorem go_o : go false (['-', 'o'] :: v :: rest) o pos = go false rest { o with outputFormat := v } pos := by
  simp [go, shortOpts, lookupShort_tbl.2.2.1, Act.takesValue, applyVal]

theorem go_n : go false (['-', 'n'] :: rest) o pos = go false rest { o with lazyOl := false } pos := by
  simp [go, shortOpts, lookupShort_tbl.2.2.2.1, Act.takesValue, applyFlag]

theorem go_x :
    go false (['-', 'x'] :: v :: rest) o pos = go false rest { o with extensions := o.extensions ++ [v] } pos := by
  simp [go, shortOpts, lookupShort_tbl.2.2.2.2.1, Act.takesValue, applyVal]

theorem go_c : go false (['-', 'c'] :: v :: rest) o pos = go false rest { o with configfile := some v } pos := by
  simp [go, shortOpts, lookupShort_tbl.2.2.2.2.2.1, Act.takesValue, applyVal]

theorem go_q : go false (['-', 'q'] :: rest) o pos = go false rest { o with verbose := 60 } pos := by
  simp [go, shortOpts, lookupShort_tbl.2.2.2.2.2.2.1, Act.takesValue, applyFlag]

theorem go_v : go false (['-', 'v'] :: rest) o pos = go false rest { o with verbose := 30 } pos := by
  simp [go, shortOpts, lookupShort_tbl.2.2.2.2.2.2.2.1, Act.takesValue, applyFlag]

theorem go_noisy :
    go false (['-', '-', 'n', 'o', 'i', 's', 'y'] :: rest) o pos = go false rest { o with verbose := 10 } pos := by
  simp [go, longOpt, splitEq, matchAbbrev_noisy, Act.takesValue, applyFlag]

theorem go_dashdash : go false (['-', '-'] :: rest) o pos = .ok (o, pos ++ rest) := by
  simp [go]

theorem go_nil : go false [] o pos = .ok (o, pos) := by simp [go]

theorem go_exts (exts : List Str) :
    ∀ o : Opts, go false (exts.flatMap (fun e => [['-', 'x'], e]) ++ rest) o pos
      = go false rest { o with extensions := o.extensions ++ exts } pos := by
  induction exts with
  | nil => intro o; simp
  | cons e exts ih =>
    intro o
    simp only [List.flatMap_cons, List.cons_append, List.nil_append]
    rw [go_x, ih]
    simp [List.append_assoc]

theorem go_exts_end (exts : List Str) (o : Opts) :
    go false (exts.flatMap (fun e => [['-', 'x'], e])) o pos
      = .ok ({ o with extensions := o.extensions ++ exts }, pos) := by
  have := go_exts [] pos exts o
  simpa [go_nil] using this

/-- **print / parse.** -/
theorem parseArgs_render (o : Opts) (h : WF o) : parseArgs (render o) = .ok o := by
  obtain ⟨inp, out, exts, cfg, enc, fmt, lazy, verb⟩ := o
  simp only [WF] at h
  rcases h with rfl | rfl | rfl | rfl <;> cases inp <;> cases out <;> cases cfg <;> cases enc <;> cases lazy <;>
    simp [parseArgs, render, optArg, levelFlag, defaults, go_f, go_e, go_o, go_n, go_c, go_q, go_v, go_noisy,
      go_dashdash, go_nil, go_exts, go_exts_end]

end MdVerif.Cli
