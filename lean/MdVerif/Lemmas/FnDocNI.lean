/-
C17 (footnotes) at the document level: the node invariant "every `a.footnote-ref` links to `#fn:K` for a defined
footnote `K`" through the stages of `PipelineX.treeX` (block parser, footnote `div`, inline stage, duplicates,
prettify).  Core Lean only.
-/
import MdVerif.Lemmas.InlineXPat
import MdVerif.Lemmas.BlockExtProc
import MdVerif.Lemmas.PipelineX
import MdVerif.Lemmas.TocTreeDoc
namespace MdVerif.FnDocNI
open MdVerif.Py MdVerif.Inline MdVerif.InlineX MdVerif.Vocab2 MdVerif.InlineXNodes MdVerif.FnTreeDoc MdVerif.TocTreeDoc
open MdVerif.BlockExt (NI NI_iff allNodes allKids TagsOk NI_append NI_setLast NI_last)
open MdVerif.FootnotesTree

/-! ### the predicate -/

def isATag (tag : Tag) : Bool := tag == .name ['a']
def clsRef : Str := "footnote-ref".toList
def clsBack : Str := "footnote-backref".toList
def clsWiki : Str := "wikilink".toList

/-- the link of a reference to the footnote `k` -/
def refHref (k : Str) : Str := '#' :: Footnotes.footnoteId k

/-- every `a` element has no class, or is a back-link, a wikilink, or a footnote reference that links to `#fn:K` for a
    key `K` of the footnote table -/
def qtS (keys : List Str) (tag : Tag) (attrs : List (Str × Str)) : Bool :=
  !isATag tag ||
    match classOf attrs with
    | none => true
    | some c => c == clsBack || c == clsWiki || (c == clsRef && keys.any (fun k => hrefOf attrs == some (refHref k)))

theorem qtS_not_a (keys : List Str) (tag : Tag) (attrs : List (Str × Str)) (h : isATag tag = false) :
    qtS keys tag attrs = true := by simp [qtS, h]

theorem classOf_attrsOk (attrs : List (Str × Str)) (h : attrsOk attrs = true) : classOf attrs = none := by
  simp only [attrsOk, Bool.and_eq_true, List.all_eq_true] at h
  simp only [classOf, Option.map_eq_none_iff, List.find?_eq_none]
  intro kv hkv hc
  have h1 := h.1 kv hkv
  have hc' : kv.1 = "class".toList := by simpa using hc
  rw [hc'] at h1
  revert h1; decide

theorem qtS_core (keys : List Str) (t : Str) (attrs : List (Str × Str)) (_ : hasTag inlineTags t = true)
    (ha : attrsOk attrs = true) : qtS keys (.name t) attrs = true := by
  simp only [qtS, classOf_attrsOk attrs ha, Bool.or_true]

theorem fnRefNode_eq (keys : List Str) (id refId : Str) :
    fnRefNode keys id refId =
      { tag := .name "sup".toList, attrs := [("id".toList, refId)],
        children := [{ tag := .name "a".toList, attrs := [("href".toList, refHref id), ("class".toList, clsRef)],
                       text := some (natToDec (indexOf keys id + 1)) }] } := rfl

theorem qtS_ref (keys : List Str) (h : Str) :
    qtS keys (.name "a".toList) [("href".toList, h), ("class".toList, clsRef)] =
      keys.any (fun k => some h == some (refHref k)) := rfl

theorem qtS_fnRef (keys : List Str) (id : Str) (hid : id ∈ keys) (refId : Str) :
    NI (qtS keys) (fnRefNode keys id refId) := by
  rw [fnRefNode_eq]
  unfold NI
  simp only [allNodes, allKids, Bool.and_true, qtS_ref]
  rw [Bool.and_eq_true]
  refine ⟨rfl, ?_⟩
  rw [List.any_eq_true]
  exact ⟨id, hid, by simp⟩

theorem qtS_wiki (keys : List Str) (g : Str) (n : Node) (h : wikiNode g = .el n) : NI (qtS keys) n := by
  unfold wikiNode at h
  simp only [] at h
  split at h
  · cases h
  · simp only [PNode.el.injEq] at h
    subst h
    rfl

theorem qtS_br (keys : List Str) : NI (qtS keys) (mkEl "br") := rfl

theorem patOk_fn (xc : XCfg) : PatOk (qtS xc.fnKeys) xc :=
  patOk_table xc (qtS_core _) (fun id hid refId => qtS_fnRef _ id hid refId) (qtS_wiki _) (qtS_br _)

/-! ### the block parser -/

theorem closed_true : BlockExt.Closed (fun _ : Str => True) := ⟨trivial, fun _ _ => trivial, fun _ _ => trivial⟩

theorem tagsOk_qtS (keys : List Str) (cfg : BlockExt.XCfg) : TagsOk (qtS keys) cfg where
  p := fun _ => qtS_not_a _ _ _ rfl
  pre := fun _ => qtS_not_a _ _ _ rfl
  code := fun _ => qtS_not_a _ _ _ rfl
  hr := fun _ => qtS_not_a _ _ _ rfl
  ol := fun _ => qtS_not_a _ _ _ rfl
  ul := fun _ => qtS_not_a _ _ _ rfl
  li := fun _ => qtS_not_a _ _ _ rfl
  blockquote := fun _ => qtS_not_a _ _ _ rfl
  h := fun lv _ => qtS_not_a _ _ _ (by simp [isATag, Block.hTag])
  div := fun _ _ => qtS_not_a _ _ _ rfl
  dl := fun _ _ => qtS_not_a _ _ _ rfl
  dt := fun _ _ => qtS_not_a _ _ _ rfl
  dd := fun _ _ => qtS_not_a _ _ _ rfl

/-- the extended block parser (tables off) keeps a node invariant that accepts its tags -/
theorem parseChunk_NI {qt : Tag → List (Str × Str) → Bool} {cfg : BlockExt.XCfg} (ht : TagsOk qt cfg)
    (tab fuel : Nat) (st : List Block.BState) (log : Block.Refs) (p : Node) (text : Str) (n : Node)
    (log' : Block.Refs)
    (h : Block.parseChunk (BlockExt.parseBlocksXT false cfg tab fuel) st log p text = some (n, log'))
    (hp : NI qt p) : NI qt n := by
  rw [BlockExt.parseBlocksXT_false] at h
  have hg := BlockExt.parseBlocksX_good (Ok := fun _ => True) (qt := qt) closed_true ht cfg tab
    (fun _ _ _ _ _ _ _ _ => rfl) fuel
  exact (hg.chunk closed_true st log p (text := text) trivial hp).2 n log' h

variable {qt : Tag → List (Str × Str) → Bool}

/-! ### the footnote `div` -/

theorem NI_leaf (tag : Tag) (attrs : List (Str × Str)) (text : Option Str) (ta : Bool) (tail : Option Str) (tla : Bool)
    (h : qt tag attrs = true) : NI qt ⟨tag, attrs, text, ta, [], tail, tla⟩ := by
  unfold NI; simp [allNodes, allKids, h]

theorem addBacklink_NI (li bl li' : Node) (h : addBacklink li bl = some li') (hli : NI qt li) (hbl : NI qt bl)
    (hp : qt (.name "p".toList) [] = true) : NI qt li' := by
  unfold addBacklink at h
  split at h
  · simp only [Option.some.injEq] at h; subst h; exact hli
  · rename_i node hl
    have hnode : NI qt node := NI_last hli hl
    split at h
    · split at h
      · simp only [Option.some.injEq] at h; subst h
        refine NI_setLast hli (NI_of (a := node) hnode rfl rfl ?_)
        intro c hc
        rcases List.mem_append.1 hc with hc | hc
        · exact NI_kids hnode c hc
        · simp only [List.mem_singleton] at hc; subst hc; exact hbl
      · cases h
    · simp only [Option.some.injEq] at h; subst h
      refine NI_append hli ?_
      rw [NI_iff]
      refine ⟨hp, ?_⟩
      intro c hc
      simp only [List.mem_singleton] at hc; subst hc; exact hbl

theorem makeLis_NI (parse : Block.Refs → Str → Option (Node × Block.Refs)) (fnCount : Block.Refs → Nat)
    (hparse : ∀ lg text sur lg', parse lg text = some (sur, lg') → ∀ c ∈ sur.children, NI qt c)
    (hli : ∀ attrs, qt (.name "li".toList) attrs = true) (hp : qt (.name "p".toList) [] = true)
    (hbl : ∀ id index, NI qt (backlink id index)) :
    ∀ (fns : List (Str × Str)) (index : Nat) (log : Block.Refs) (lis : List Node) (log' : Block.Refs),
      makeLis parse fnCount fns index log = .ok (lis, log') → ∀ li ∈ lis, NI qt li := by
  intro fns
  induction fns with
  | nil =>
    intro index log lis log' h
    simp only [makeLis, R.ok.injEq, Prod.mk.injEq] at h
    rw [← h.1]; simp
  | cons f rest ih =>
    intro index log lis log' h
    obtain ⟨id, text⟩ := f
    simp only [makeLis] at h
    split at h
    · cases h
    · rename_i sur lg' hpr
      split at h
      · cases h
      · split at h
        · cases h
        · rename_i li' hadd
          split at h
          · rename_i lis' log'' hrest
            simp only [R.ok.injEq, Prod.mk.injEq] at h
            rw [← h.1]
            intro li hli'
            rcases List.mem_cons.1 hli' with e | hm
            · subst e
              refine addBacklink_NI _ _ _ hadd ?_ (hbl _ _) hp
              rw [NI_iff]
              exact ⟨hli _, hparse log text sur lg' hpr⟩
            · exact ih _ _ _ _ hrest li hm
          · cases h
          · cases h

theorem makeDiv_NI (parse : Block.Refs → Str → Option (Node × Block.Refs)) (fnCount : Block.Refs → Nat)
    (hparse : ∀ lg text sur lg', parse lg text = some (sur, lg') → ∀ c ∈ sur.children, NI qt c)
    (hli : ∀ attrs, qt (.name "li".toList) attrs = true) (hp : qt (.name "p".toList) [] = true)
    (hbl : ∀ id index, NI qt (backlink id index))
    (hdiv : ∀ attrs, qt (.name "div".toList) attrs = true) (hhr : qt (.name "hr".toList) [] = true)
    (hol : qt (.name "ol".toList) [] = true)
    (fns : List (Str × Str)) (log log' : Block.Refs) (div : Node)
    (h : makeDiv parse fnCount fns log = .ok (some div, log')) : NI qt div := by
  unfold makeDiv at h
  split at h
  · cases h
  · split at h
    · rename_i lis lg hl
      simp only [R.ok.injEq, Prod.mk.injEq, Option.some.injEq] at h
      rw [← h.1]
      have hlis := makeLis_NI parse fnCount hparse hli hp hbl _ _ _ _ _ hl
      rw [NI_iff]
      refine ⟨hdiv _, ?_⟩
      intro c hc
      simp only [List.mem_cons, List.not_mem_nil, or_false] at hc
      rcases hc with e | e
      · subst e; exact NI_leaf _ _ _ _ _ _ hhr
      · subst e
        rw [NI_iff]
        exact ⟨hol, hlis⟩
    · cases h
    · cases h

mutual
theorem placeNode_NI (div : Node) (hd : NI qt div) : (n n' : Node) → placeNode div n = some n' → NI qt n → NI qt n'
  | ⟨tag, attrs, text, ta, children, tail, tla⟩, n', h, hn => by
    simp only [placeNode] at h
    split at h
    · rename_i ks hk
      simp only [Option.some.injEq] at h; subst h
      rw [NI_iff] at hn ⊢
      exact ⟨hn.1, placeKids_NI div hd children ks hk hn.2⟩
    · cases h
theorem placeKids_NI (div : Node) (hd : NI qt div) : (l l' : List Node) → placeKids div l = some l' →
    (∀ c ∈ l, NI qt c) → ∀ c ∈ l', NI qt c
  | [], l', h, _ => by simp [placeKids] at h
  | c :: r, l', h, hl => by
    simp only [placeKids] at h
    have hc := hl c List.mem_cons_self
    have hr : ∀ x ∈ r, NI qt x := fun x hx => hl x (List.mem_cons_of_mem _ hx)
    split at h
    · simp only [Option.some.injEq] at h; subst h
      intro x hx
      rcases List.mem_cons.1 hx with e | hx
      · subst e; exact hd
      · exact hr x hx
    · split at h
      · simp only [Option.some.injEq] at h; subst h
        intro x hx
        rcases List.mem_cons.1 hx with e | hx
        · subst e; exact NI_upd (a := c) hc rfl rfl rfl
        · rcases List.mem_cons.1 hx with e | hx
          · subst e; exact hd
          · exact hr x hx
      · split at h
        · rename_i c1 hc1
          simp only [Option.some.injEq] at h; subst h
          intro x hx
          rcases List.mem_cons.1 hx with e | hx
          · subst e; exact placeNode_NI div hd c _ hc1 hc
          · exact hr x hx
        · split at h
          · rename_i r1 hr1
            simp only [Option.some.injEq] at h; subst h
            intro x hx
            rcases List.mem_cons.1 hx with e | hx
            · subst e; exact hc
            · exact placeKids_NI div hd r _ hr1 hr x hx
          · cases h
end

theorem placeDiv_NI (root div : Node) (hr : NI qt root) (hd : NI qt div) : NI qt (placeDiv root div) := by
  unfold placeDiv
  split
  · rename_i r h; exact placeNode_NI div hd root r h hr
  · exact NI_append hr hd

/-! ### `FootnotePostTreeprocessor` -/

/-- a back-link element: an `a` whose class is `footnote-backref` -/
def IsBackref (l : Node) : Prop :=
  l.tag = .name "a".toList ∧
    ((l.attrs.find? (fun kv => kv.1 = "class".toList)).map (·.2)).getD [] = "footnote-backref".toList

mutual
theorem firstBackref_spec : (n l : Node) → firstBackref n = some l → NI qt n → NI qt l ∧ IsBackref l
  | ⟨tag, attrs, text, ta, children, tail, tla⟩, l, h, hn => by
    simp only [firstBackref] at h
    split at h
    · rename_i hc
      simp only [Option.some.injEq] at h; subst h
      simp only [Bool.and_eq_true, beq_iff_eq] at hc
      exact ⟨hn, hc.1, hc.2⟩
    · exact firstBackrefKids_spec children l h (NI_kids hn)
theorem firstBackrefKids_spec : (ks : List Node) → (l : Node) → firstBackrefKids ks = some l →
    (∀ c ∈ ks, NI qt c) → NI qt l ∧ IsBackref l
  | [], l, h, _ => by simp [firstBackrefKids] at h
  | c :: r, l, h, hk => by
    simp only [firstBackrefKids] at h
    split at h
    · rename_i a ha
      simp only [Option.some.injEq] at h; subst h
      exact firstBackref_spec c _ ha (hk c List.mem_cons_self)
    · exact firstBackrefKids_spec r l h (fun x hx => hk x (List.mem_cons_of_mem _ hx))
end

/-- `qt` does not look at the `href` of a back-link -/
def BackrefFree (qt : Tag → List (Str × Str) → Bool) : Prop :=
  ∀ l h, NI qt l → IsBackref l → NI qt (l.setAttr "href".toList h)

theorem dupLi_NI (hq : BackrefFree qt) (fn : Footnotes.State) (li li' : Node) (h : dupLi fn li = some li')
    (hli : NI qt li) : NI qt li' := by
  unfold dupLi at h
  simp only [] at h
  split at h
  · cases h
  · split at h
    · split at h
      · simp only [Option.some.injEq] at h; subst h; exact hli
      · rename_i link hlink
        split at h
        · cases h
        · split at h
          · rename_i last hlast
            simp only [Option.some.injEq] at h; subst h
            have hl := firstBackref_spec li link hlink hli
            have hlastNI : NI qt last := NI_last hli hlast
            refine NI_setLast hli (NI_of (a := last) hlastNI rfl rfl ?_)
            intro c hc
            rcases List.mem_append.1 hc with hc | hc
            · exact NI_kids hlastNI c hc
            · obtain ⟨hh, _, rfl⟩ := List.mem_map.1 hc
              exact hq _ _ hl.1 hl.2
          · cases h
    · simp only [Option.some.injEq] at h; subst h; exact hli

theorem dupLis_NI (hq : BackrefFree qt) (fn : Footnotes.State) : (l l' : List Node) → dupLis fn l = some l' →
    (∀ c ∈ l, NI qt c) → ∀ c ∈ l', NI qt c
  | [], l', h, _ => by simp only [dupLis, Option.some.injEq] at h; subst h; simp
  | li :: r, l', h, hl => by
    simp only [dupLis] at h
    split at h
    · rename_i li' r' h1 h2
      simp only [Option.some.injEq] at h; subst h
      intro c hc
      rcases List.mem_cons.1 hc with e | hc
      · subst e; exact dupLi_NI hq fn li _ h1 (hl li List.mem_cons_self)
      · exact dupLis_NI hq fn r r' h2 (fun x hx => hl x (List.mem_cons_of_mem _ hx)) c hc
    · cases h

mutual
theorem dupFirstOl_NI (hq : BackrefFree qt) (fn : Footnotes.State) : (n n' : Node) → (b : Bool) →
    dupFirstOl fn n = some (n', b) → NI qt n → NI qt n'
  | ⟨tag, attrs, text, ta, children, tail, tla⟩, n', b, h, hn => by
    simp only [dupFirstOl] at h
    rw [NI_iff] at hn
    split at h
    · split at h
      · rename_i ks hk
        simp only [Option.some.injEq, Prod.mk.injEq] at h
        rw [← h.1, NI_iff]
        exact ⟨hn.1, dupLis_NI hq fn children ks hk hn.2⟩
      · cases h
    · split at h
      · rename_i ks found hk
        simp only [Option.some.injEq, Prod.mk.injEq] at h
        rw [← h.1, NI_iff]
        exact ⟨hn.1, dupFirstOlKids_NI hq fn children ks found hk hn.2⟩
      · cases h
theorem dupFirstOlKids_NI (hq : BackrefFree qt) (fn : Footnotes.State) : (l l' : List Node) → (b : Bool) →
    dupFirstOlKids fn l = some (l', b) → (∀ c ∈ l, NI qt c) → ∀ c ∈ l', NI qt c
  | [], l', b, h, _ => by
    simp only [dupFirstOlKids, Option.some.injEq, Prod.mk.injEq] at h
    rw [← h.1]; simp
  | c :: r, l', b, h, hl => by
    simp only [dupFirstOlKids] at h
    have hc := hl c List.mem_cons_self
    have hr : ∀ x ∈ r, NI qt x := fun x hx => hl x (List.mem_cons_of_mem _ hx)
    split at h
    · cases h
    · rename_i c1 h1
      simp only [Option.some.injEq, Prod.mk.injEq] at h
      rw [← h.1]
      intro x hx
      rcases List.mem_cons.1 hx with e | hx
      · subst e; exact dupFirstOl_NI hq fn c _ true h1 hc
      · exact hr x hx
    · rename_i c1 h1
      split at h
      · rename_i r1 found h2
        simp only [Option.some.injEq, Prod.mk.injEq] at h
        rw [← h.1]
        intro x hx
        rcases List.mem_cons.1 hx with e | hx
        · subst e; exact dupFirstOl_NI hq fn c _ false h1 hc
        · exact dupFirstOlKids_NI hq fn r r1 found h2 hr x hx
      · cases h
end

mutual
theorem duplicates_NI (hq : BackrefFree qt) (fn : Footnotes.State) : (n n' : Node) → duplicates fn n = some n' →
    NI qt n → NI qt n'
  | ⟨tag, attrs, text, ta, children, tail, tla⟩, n', h, hn => by
    simp only [duplicates] at h
    rw [NI_iff] at hn
    split at h
    · cases h
    · rename_i ks hk
      have hks := duplicatesKids_NI hq fn children ks hk hn.2
      have hn1 : NI qt ⟨tag, attrs, text, ta, ks, tail, tla⟩ := by rw [NI_iff]; exact ⟨hn.1, hks⟩
      split at h
      · cases hd : dupFirstOl fn ⟨tag, attrs, text, ta, ks, tail, tla⟩ with
        | none => rw [hd] at h; cases h
        | some r =>
          obtain ⟨m, b⟩ := r
          rw [hd] at h
          simp only [Option.map_some, Option.some.injEq] at h
          subst h
          exact dupFirstOl_NI hq fn _ _ b hd hn1
      · simp only [Option.some.injEq] at h; subst h; exact hn1
theorem duplicatesKids_NI (hq : BackrefFree qt) (fn : Footnotes.State) : (l l' : List Node) →
    duplicatesKids fn l = some l' → (∀ c ∈ l, NI qt c) → ∀ c ∈ l', NI qt c
  | [], l', h, _ => by simp only [duplicatesKids, Option.some.injEq] at h; subst h; simp
  | c :: r, l', h, hl => by
    simp only [duplicatesKids] at h
    split at h
    · rename_i c1 r1 h1 h2
      simp only [Option.some.injEq] at h; subst h
      intro x hx
      rcases List.mem_cons.1 hx with e | hx
      · subst e; exact duplicates_NI hq fn c _ h1 (hl c List.mem_cons_self)
      · exact duplicatesKids_NI hq fn r r1 h2 (fun y hy => hl y (List.mem_cons_of_mem _ hy)) x hx
    · cases h
end

/-! ### prettify -/

mutual
theorem NI_iff_shape : (n : Node) → (NI qt n ↔ ∀ p ∈ shape n, qt p.1 p.2 = true)
  | ⟨tag, attrs, text, ta, children, tail, tla⟩ => by
    unfold NI
    simp only [allNodes, shape, Bool.and_eq_true, List.mem_cons, forall_eq_or_imp]
    rw [allKids_iff_shape children]
theorem allKids_iff_shape : (l : List Node) → (allKids qt l = true ↔ ∀ p ∈ shapeKids l, qt p.1 p.2 = true)
  | [] => by simp [allKids, shapeKids]
  | c :: r => by
    simp only [allKids, shapeKids, Bool.and_eq_true, List.mem_append]
    have h1 : allNodes qt c = true ↔ ∀ p ∈ shape c, qt p.1 p.2 = true := NI_iff_shape c
    rw [h1, allKids_iff_shape r]
    constructor
    · rintro ⟨ha, hb⟩ p (hp | hp)
      · exact ha p hp
      · exact hb p hp
    · intro h
      exact ⟨fun p hp => h p (Or.inl hp), fun p hp => h p (Or.inr hp)⟩
end

theorem prettify_NI (n : Node) (bl : List Str) (h : NI qt n) : NI qt (TreeProc.prettify n bl) := by
  rw [NI_iff_shape] at h ⊢
  rw [shape_prettify]; exact h

end MdVerif.FnDocNI
