/-
Locality lemmas for the block parser model (`MdVerif/Model/Block.lean`), used by `Props/C08Block.lean`.
Core Lean only.
-/
import MdVerif.Model.Block

namespace MdVerif.Block
open Py

/-! ### vocabulary of `Props/C08Block.lean` (the lemmas are in the namespace `MdVerif.Block.Local`) -/

/-- `p` with the children replaced -/
def withKids (p : Node) (ks : List Node) : Node := { p with children := ks }

/-- `b` begins with a paragraph, a heading or a rule -/
def startsPHRAux (tab : Nat) : Nat → Str → Bool
  | 0, _ => false
  | n + 1, b =>
    !b.isEmpty && !startsWith b ['\n'] && !startsWith b (spaces tab) && !isBlank b &&
    match hashSearch b with
    | some (s, _, _, _) => (b.take s).isEmpty || startsPHRAux tab n (b.take s)
    | none =>
      setextMatch b ||
      match hrSearch b with
      | some (s, _) => (rstripC '\n' (b.take s)).isEmpty || startsPHRAux tab n (rstripC '\n' (b.take s))
      | none =>
        !(listItemMatch tab true false b).isSome && !(listItemMatch tab false true b).isSome &&
        match quoteSearch b with
        | some q => startsPHRAux tab n (b.take q)
        | none => (refSearch b).isNone

def startsPHR (tab : Nat) (b : Str) : Bool := startsPHRAux tab (b.length + 1) b

/-- the blank-line separator -/
abbrev nn : Str := ['\n', '\n']

/-- what the empty block at the end of a text does to the tree: a trailing code block gets `"\n\n"` appended -/
def fillCode (p : Node) : Node := (emptyP [] p [] []).1

/-- the non-recursive special case: the block is not empty, not indented, not blank, does not start with a newline,
    and is a heading at offset 0, a Setext heading, a rule on its first line, or a plain paragraph -/
def startsPHR0 (tab : Nat) (b : Str) : Bool :=
  !b.isEmpty && !startsWith b ['\n'] && !startsWith b (spaces tab) && !isBlank b &&
  match hashSearch b with
  | some (s, _, _, _) => s == 0
  | none =>
    setextMatch b ||
    match hrSearch b with
    | some (s, _) => s == 0
    | none =>
      !(listItemMatch tab true false b).isSome && !(listItemMatch tab false true b).isSome &&
      (quoteSearch b).isNone && (refSearch b).isNone

/-- tags of the children -/
def kidTags (p : Node) : List Str := p.children.map Node.tagStr

/-- text of the `code` in the first child -/
def firstCodeText (p : Node) : Option Str :=
  match p.children with
  | pre :: _ => match pre.children with
                | code :: _ => code.text
                | [] => none
  | [] => none

end MdVerif.Block

namespace MdVerif.Block.Local
open Py

/-! ### `dispatch` as a choice followed by a run -/

/-- which processor `dispatch` runs -/
inductive Choice
  | empty | indent | code | hash (m : Nat × Nat × Nat × Str) | setext | hr (m : Nat × Nat) | ol | ul
  | quote (q : Nat) | ref (m : Nat × Nat × Str × Str × Option Str × Option Str) | para

/-- the test of `ListIndentProcessor`: the only test that looks at the parent -/
def indentTest (tab : Nat) (state : List BState) (parent : Node) (b : Str) : Bool :=
  startsWith b (spaces tab) && !isstate state .detabbed &&
      (isItemTag parent || (match parent.last? with | some c => isListTag c | none => false))

/-- the tests of the other processors, in priority order: they look at the block only -/
def chooseText (tab : Nat) (b : Str) : Choice :=
  if startsWith b (spaces tab) then .code else
  match hashSearch b with
  | some m => .hash m
  | none =>
  if setextMatch b then .setext else
  match hrSearch b with
  | some m => .hr m
  | none =>
  if (listItemMatch tab true false b).isSome then .ol
  else if (listItemMatch tab false true b).isSome then .ul
  else
  match quoteSearch b with
  | some q => .quote q
  | none =>
  match refSearch b with
  | some m => .ref m
  | none => .para

def choose (tab : Nat) (state : List BState) (parent : Node) (b : Str) : Choice :=
  if b.isEmpty || startsWith b ['\n'] then .empty
  else if indentTest tab state parent b then .indent
  else chooseText tab b

def runChoice (tab : Nat) (pb : PB) (state : List BState) (refs : Refs) (parent : Node) (b : Str) (rest : List Str) :
    Choice → Option (Node × Refs × List Str)
  | .empty => some (emptyP refs parent b rest)
  | .indent => indentP tab pb state refs parent b rest
  | .code => some (codeP tab refs parent b rest)
  | .hash m => hashP tab pb state refs parent b rest m
  | .setext => some (setextP refs parent b rest)
  | .hr m => hrP pb state refs parent b rest m
  | .ol => listP tab pb state refs parent b rest "ol"
  | .ul => listP tab pb state refs parent b rest "ul"
  | .quote q => quoteP pb state refs parent b rest q
  | .ref m => some (referenceP refs parent b rest m)
  | .para => some (paraP state refs parent b rest)

theorem dispatch_eq (tab : Nat) (pb : PB) (state : List BState) (refs : Refs) (parent : Node) (b : Str)
    (rest : List Str) :
    dispatch tab pb state refs parent b rest = runChoice tab pb state refs parent b rest (choose tab state parent b) := by
  unfold dispatch choose
  by_cases h1 : (b.isEmpty || startsWith b ['\n']) = true
  · rw [if_pos h1, if_pos h1]; rfl
  · rw [if_neg h1, if_neg h1]
    by_cases h2 : indentTest tab state parent b = true
    · rw [if_pos h2]; exact (if_pos h2).trans rfl
    · rw [if_neg h2]; refine (if_neg h2).trans ?_
      unfold chooseText
      by_cases h3 : startsWith b (spaces tab) = true
      · rw [if_pos h3, if_pos h3]; rfl
      · rw [if_neg h3, if_neg h3]
        cases hashSearch b with
        | some m => rfl
        | none =>
          dsimp only
          by_cases h4 : setextMatch b = true
          · rw [if_pos h4, if_pos h4]; rfl
          · rw [if_neg h4, if_neg h4]
            cases hrSearch b with
            | some m => rfl
            | none =>
              dsimp only
              by_cases h5 : (listItemMatch tab true false b).isSome = true
              · rw [if_pos h5, if_pos h5]; rfl
              · rw [if_neg h5, if_neg h5]
                by_cases h6 : (listItemMatch tab false true b).isSome = true
                · rw [if_pos h6, if_pos h6]; rfl
                · rw [if_neg h6, if_neg h6]
                  cases quoteSearch b with
                  | some q => rfl
                  | none =>
                    dsimp only
                    cases refSearch b with
                    | some m => rfl
                    | none => rfl

/-! ### fuel monotonicity -/

/-- `pb'` succeeds wherever `pb` does, with the same result -/
def PBLe (pb pb' : PB) : Prop := ∀ st refs p bs r, pb st refs p bs = some r → pb' st refs p bs = some r

theorem hashP_mono {pb pb' : PB} (h : PBLe pb pb') {tab st refs p b rest m r}
    (hr : hashP tab pb st refs p b rest m = some r) : hashP tab pb' st refs p b rest m = some r := by
  obtain ⟨s, e, lv, hd⟩ := m
  simp only [hashP] at hr ⊢
  by_cases hb : (List.take s b).isEmpty = true
  · simp only [hb, if_true] at hr ⊢; exact hr
  · simp only [hb] at hr ⊢
    cases hpb : pb st refs p [List.take s b] with
    | none => simp [hpb] at hr
    | some v => rw [hpb] at hr; rw [h _ _ _ _ _ hpb]; exact hr

theorem hrP_mono {pb pb' : PB} (h : PBLe pb pb') {st refs p b rest m r}
    (hr : hrP pb st refs p b rest m = some r) : hrP pb' st refs p b rest m = some r := by
  obtain ⟨s, e⟩ := m
  simp only [hrP] at hr ⊢
  by_cases hb : (rstripC '\n' (List.take s b)).isEmpty = true
  · simp only [hb, if_true] at hr ⊢; exact hr
  · simp only [hb] at hr ⊢
    cases hpb : pb st refs p [rstripC '\n' (List.take s b)] with
    | none => simp [hpb] at hr
    | some v => rw [hpb] at hr; rw [h _ _ _ _ _ hpb]; exact hr

theorem listItems_mono {pb pb' : PB} (h : PBLe pb pb') {tab st2} : ∀ {items refs lst r},
    listItems tab pb st2 refs lst items = some r → listItems tab pb' st2 refs lst items = some r := by
  intro items
  induction items with
  | nil => intro refs lst r hr; simpa [listItems] using hr
  | cons item items ih =>
    intro refs lst r hr
    simp only [listItems] at hr ⊢
    split
    · rename_i hsw
      simp only [hsw, if_true] at hr
      cases hl : lst.last? with
      | none => simp only [hl] at hr ⊢; exact ih hr
      | some l =>
        simp only [hl] at hr ⊢
        cases hpb : pb st2 refs l [item] with
        | none => simp [hpb] at hr
        | some v => rw [hpb] at hr; rw [h _ _ _ _ _ hpb]; exact ih hr
    · rename_i hsw
      simp only [hsw] at hr
      cases hpb : pb st2 refs (Node.el "li") [item] with
      | none => simp [hpb] at hr
      | some v => rw [hpb] at hr; rw [h _ _ _ _ _ hpb]; exact ih hr

theorem listP_mono {pb pb' : PB} (h : PBLe pb pb') {tab st refs p b rest tag r}
    (hr : listP tab pb st refs p b rest tag = some r) : listP tab pb' st refs p b rest tag = some r := by
  simp only [listP] at hr ⊢
  split at hr
  · rename_i lst hlst
    split at hr
    · simp at hr
    · rename_i newli refs' hpb
      rw [h _ _ _ _ _ hpb]; dsimp only
      split at hr
      · rename_i hli; rw [listItems_mono h hli]; exact hr
      · simp at hr
  · rename_i hlst
    split at hr
    · rename_i hp
      rw [if_pos hp]
      split at hr
      · rename_i hli; rw [listItems_mono h hli]; exact hr
      · simp at hr
    · rename_i hp
      rw [if_neg hp]
      split at hr
      · rename_i hli; rw [listItems_mono h hli]; exact hr
      · simp at hr

theorem quoteP_mono {pb pb' : PB} (h : PBLe pb pb') {st refs p b rest q r}
    (hr : quoteP pb st refs p b rest q = some r) : quoteP pb' st refs p b rest q = some r := by
  simp only [quoteP, parseChunk] at hr ⊢
  split at hr
  · simp at hr
  · rename_i p1 refs1 hpb
    rw [h _ _ _ _ _ hpb]; dsimp only
    split at hr
    · rename_i sib hsib
      split at hr
      · rename_i hq; rw [h _ _ _ _ _ hq]; exact hr
      · simp at hr
    · rename_i hsib
      split at hr
      · rename_i hq; rw [h _ _ _ _ _ hq]; exact hr
      · simp at hr

theorem indentP_mono {pb pb' : PB} (h : PBLe pb pb') {tab st refs p b rest r}
    (hr : indentP tab pb st refs p b rest = some r) : indentP tab pb' st refs p b rest = some r := by
  simp only [indentP, parseChunk] at hr ⊢
  split at hr
  · rename_i hp
    rw [if_pos hp]
    split at hr
    · split at hr
      · rename_i hq; rw [h _ _ _ _ _ hq]; exact hr
      · simp at hr
    · split at hr
      · rename_i hq; rw [h _ _ _ _ _ hq]; exact hr
      · simp at hr
  · rename_i hp
    rw [if_neg hp]
    split at hr
    · rename_i hs
      rw [if_pos hs]
      split at hr
      · rename_i hq; rw [h _ _ _ _ _ hq]; exact hr
      · simp at hr
    · rename_i hs
      rw [if_neg hs]
      split at hr
      · split at hr
        · rename_i hq; rw [h _ _ _ _ _ hq]; exact hr
        · simp at hr
      · split at hr
        · rename_i hq; rw [h _ _ _ _ _ hq]; exact hr
        · simp at hr

theorem dispatch_mono {pb pb' : PB} (h : PBLe pb pb') {tab st refs p b rest r}
    (hr : dispatch tab pb st refs p b rest = some r) : dispatch tab pb' st refs p b rest = some r := by
  rw [dispatch_eq] at hr ⊢
  cases hc : choose tab st p b <;> rw [hc] at hr <;> simp only [runChoice] at hr ⊢
  all_goals first
    | exact hr
    | exact indentP_mono h hr
    | exact hashP_mono h hr
    | exact hrP_mono h hr
    | exact listP_mono h hr
    | exact quoteP_mono h hr

theorem parseBlocks_le_succ (tab : Nat) : ∀ f, PBLe (parseBlocks tab f) (parseBlocks tab (f + 1)) := by
  intro f
  induction f with
  | zero =>
    intro st refs p bs r hr
    cases bs with
    | nil => simpa [parseBlocks] using hr
    | cons b rest => simp [parseBlocks] at hr
  | succ f ih =>
    intro st refs p bs
    induction bs generalizing refs p with
    | nil => intro r hr; simpa [parseBlocks] using hr
    | cons b rest _ =>
      intro r hr
      rw [parseBlocks] at hr ⊢
      split at hr
      · rename_i p1 r1 bl hd
        rw [dispatch_mono ih hd]
        exact ih _ _ _ _ _ hr
      · simp at hr

/-- **Fuel monotonicity**: a result obtained with fuel `f` is obtained with any larger fuel. -/
theorem parseBlocks_fuel_mono (tab : Nat) {f g : Nat} (hfg : f ≤ g) : PBLe (parseBlocks tab f) (parseBlocks tab g) := by
  induction hfg with
  | refl => intro _ _ _ _ _ h; exact h
  | step _ ih => intro st refs p bs r hr; exact parseBlocks_le_succ tab _ _ _ _ _ _ (ih _ _ _ _ _ hr)

/-- the result does not depend on the fuel, once there is one -/
theorem parseBlocks_fuel_det (tab : Nat) {f g : Nat} {st refs p bs r r'}
    (h1 : parseBlocks tab f st refs p bs = some r) (h2 : parseBlocks tab g st refs p bs = some r') : r = r' := by
  have a := parseBlocks_fuel_mono tab (Nat.le_max_left f g) _ _ _ _ _ h1
  have b := parseBlocks_fuel_mono tab (Nat.le_max_right f g) _ _ _ _ _ h2
  rw [a] at b; exact Option.some.inj b

/-! ### no processor looks past `blocks[0]` -/

/-- put `extra` behind the pending blocks of a `dispatch` result -/
def addRest (extra : List Str) (r : Node × Refs × List Str) : Node × Refs × List Str := (r.1, r.2.1, r.2.2 ++ extra)

theorem emptyP_rest (refs p b rest extra) :
    emptyP refs p b (rest ++ extra) = addRest extra (emptyP refs p b rest) := by
  simp only [emptyP]
  (repeat' split) <;> simp [addRest]

theorem codeP_rest (tab refs p b rest extra) :
    codeP tab refs p b (rest ++ extra) = addRest extra (codeP tab refs p b rest) := by
  simp only [codeP]
  (repeat' split) <;> simp [addRest]

theorem setextP_rest (refs p b rest extra) :
    setextP refs p b (rest ++ extra) = addRest extra (setextP refs p b rest) := by
  simp only [setextP]
  (repeat' split) <;> simp [addRest]

theorem referenceP_rest (refs p b rest extra m) :
    referenceP refs p b (rest ++ extra) m = addRest extra (referenceP refs p b rest m) := by
  obtain ⟨s, e, i, l, t5, t6⟩ := m
  simp only [referenceP]
  (repeat' split) <;> simp [addRest]

theorem paraP_rest (st refs p b rest extra) :
    paraP st refs p b (rest ++ extra) = addRest extra (paraP st refs p b rest) := by
  simp only [paraP]
  (repeat' split) <;> simp [addRest]

theorem hashP_rest (tab pb st refs p b rest extra m) :
    hashP tab pb st refs p b (rest ++ extra) m = (hashP tab pb st refs p b rest m).map (addRest extra) := by
  obtain ⟨s, e, lv, hd⟩ := m
  simp only [hashP]
  (repeat' split) <;> simp [addRest]

theorem hrP_rest (pb st refs p b rest extra m) :
    hrP pb st refs p b (rest ++ extra) m = (hrP pb st refs p b rest m).map (addRest extra) := by
  obtain ⟨s, e⟩ := m
  simp only [hrP]
  (repeat' split) <;> simp [addRest]

theorem listP_rest (tab pb st refs p b rest extra tag) :
    listP tab pb st refs p b (rest ++ extra) tag = (listP tab pb st refs p b rest tag).map (addRest extra) := by
  simp only [listP]
  (repeat' split) <;> simp [addRest]

theorem quoteP_rest (pb st refs p b rest extra q) :
    quoteP pb st refs p b (rest ++ extra) q = (quoteP pb st refs p b rest q).map (addRest extra) := by
  simp only [quoteP]
  (repeat' split) <;> simp [addRest]

theorem indentP_rest (tab pb st refs p b rest extra) :
    indentP tab pb st refs p b (rest ++ extra) = (indentP tab pb st refs p b rest).map (addRest extra) := by
  simp only [indentP]
  (repeat' split) <;> simp [addRest]

/-- **No processor looks past `blocks[0]`**: the blocks behind the current one are handed back untouched. -/
theorem dispatch_rest (tab pb st refs p b rest extra) :
    dispatch tab pb st refs p b (rest ++ extra) = (dispatch tab pb st refs p b rest).map (addRest extra) := by
  rw [dispatch_eq, dispatch_eq]
  cases choose tab st p b <;> simp only [runChoice, Option.map_some]
  · rw [emptyP_rest]
  · rw [indentP_rest]
  · rw [codeP_rest]
  · rw [hashP_rest]
  · rw [setextP_rest]
  · rw [hrP_rest]
  · rw [listP_rest]
  · rw [listP_rest]
  · rw [quoteP_rest]
  · rw [referenceP_rest]
  · rw [paraP_rest]

theorem parseBlocks_nil (tab f st refs p) : parseBlocks tab f st refs p [] = some (p, refs) := by
  cases f <;> rfl

/-- the loop on `bs ++ extra` is the loop on `bs` followed by the loop on `extra` (enough fuel) -/
theorem parseBlocks_append {tab : Nat} : ∀ {f g st refs p bs extra p1 r1 res},
    parseBlocks tab f st refs p bs = some (p1, r1) → parseBlocks tab g st r1 p1 extra = some res →
    parseBlocks tab (f + g) st refs p (bs ++ extra) = some res := by
  intro f
  induction f with
  | zero =>
    intro g st refs p bs extra p1 r1 res h1 h2
    cases bs with
    | nil =>
      rw [parseBlocks_nil] at h1
      cases h1
      simpa using h2
    | cons b rest => simp [parseBlocks] at h1
  | succ f ih =>
    intro g st refs p bs extra p1 r1 res h1 h2
    cases bs with
    | nil =>
      rw [parseBlocks_nil] at h1
      cases h1
      exact parseBlocks_fuel_mono tab (by omega) _ _ _ _ _ h2
    | cons b rest =>
      rw [parseBlocks] at h1
      split at h1
      · rename_i p' r' bl hd
        have e : f + 1 + g = (f + g) + 1 := by omega
        rw [e, List.cons_append, parseBlocks, dispatch_rest,
          dispatch_mono (parseBlocks_fuel_mono tab (Nat.le_add_right f g)) hd]
        simp only [Option.map_some, addRest]
        exact ih h1 h2
      · simp at h1

/-- conversely: a run on `bs ++ extra` splits into a run on `bs` and a run on `extra` -/
theorem parseBlocks_append_inv {tab : Nat} : ∀ {f st refs p bs extra res},
    parseBlocks tab f st refs p (bs ++ extra) = some res →
    ∃ p1 r1, parseBlocks tab f st refs p bs = some (p1, r1) ∧ parseBlocks tab f st r1 p1 extra = some res := by
  intro f
  induction f with
  | zero =>
    intro st refs p bs extra res h
    cases bs with
    | nil => exact ⟨p, refs, parseBlocks_nil .., by simpa using h⟩
    | cons b rest => simp [parseBlocks] at h
  | succ f ih =>
    intro st refs p bs extra res h
    cases bs with
    | nil => exact ⟨p, refs, parseBlocks_nil .., by simpa using h⟩
    | cons b rest =>
      rw [List.cons_append, parseBlocks, dispatch_rest] at h
      cases hd : dispatch tab (parseBlocks tab f) st refs p b rest with
      | none => simp [hd] at h
      | some v =>
        obtain ⟨p', r', bl⟩ := v
        rw [hd] at h
        simp only [Option.map_some, addRest] at h
        obtain ⟨p1, r1, ha, hb⟩ := ih h
        refine ⟨p1, r1, ?_, parseBlocks_le_succ tab f _ _ _ _ _ hb⟩
        rw [parseBlocks, hd]
        exact ha

/-! ### what a run leaves of the parent: its own fields (outside list state) and the fact that it has children -/

/-- the element without its children -/
def shell (p : Node) : Node := { p with children := [] }

/-- `q` is what a processor may make of `p` in state `st`: children are not lost, and outside the tight-list state
    the element's own tag, attributes, text and tail are not touched -/
def Good (st : List BState) (p q : Node) : Prop :=
  (p.children ≠ [] → q.children ≠ []) ∧ (isstate st .list = false → shell q = shell p)

theorem Good.refl (st p) : Good st p p := ⟨id, fun _ => rfl⟩

theorem Good.trans {st p q r} (h1 : Good st p q) (h2 : Good st q r) : Good st p r :=
  ⟨fun h => h2.1 (h1.1 h), fun h => (h2.2 h).trans (h1.2 h)⟩

theorem Good.append {st p q} (h : Good st p q) (c : Node) : Good st p (q.append c) :=
  ⟨fun _ => by simp [Node.append], fun hs => by have := h.2 hs; simp only [shell, Node.append] at this ⊢; simpa using this⟩

theorem Good.setLast {st p q} (h : Good st p q) (c : Node) : Good st p (q.setLast c) :=
  ⟨fun _ => by simp [Node.setLast], fun hs => by have := h.2 hs; simp only [shell, Node.setLast] at this ⊢; simpa using this⟩

/-- `pb` keeps the parent `Good` -/
def PBGood (pb : PB) : Prop := ∀ st refs p bs q r, pb st refs p bs = some (q, r) → Good st p q

theorem hashP_good {pb : PB} (h : PBGood pb) {tab st refs p b rest m q r bl}
    (hr : hashP tab pb st refs p b rest m = some (q, r, bl)) : Good st p q := by
  obtain ⟨s, e, lv, hd⟩ := m
  simp only [hashP] at hr
  split at hr
  · simp at hr
  · rename_i p1 r1 h1
    simp only [Option.some.injEq, Prod.mk.injEq] at hr
    obtain ⟨rfl, -, -⟩ := hr
    refine Good.append ?_ _
    split at h1
    · simp only [Option.some.injEq, Prod.mk.injEq] at h1; rw [← h1.1]; exact Good.refl ..
    · exact h _ _ _ _ _ _ h1

theorem Good.weaken {st st' p q} (hs : isstate st' .list = false) (h : Good st' p q) : Good st p q :=
  ⟨h.1, fun _ => h.2 hs⟩

theorem isstate_snoc_ne (st : List BState) (a b : BState) (h : a ≠ b) : isstate (st ++ [a]) b = false := by
  simp [isstate, h]

theorem updPath_good {st p f} (k : Nat) (h : k = 0 → Good st p (f p)) : Good st p (updPath f k p) := by
  cases k with
  | zero => exact h rfl
  | succ k =>
    simp only [updPath]
    split
    · exact Good.setLast (Good.refl ..) _
    · exact Good.refl ..

theorem emptyP_good (st refs p b rest) : Good st p (emptyP refs p b rest).1 := by
  simp only [emptyP]
  (repeat' split) <;> first | exact Good.refl .. | exact Good.setLast (Good.refl ..) _

theorem codeP_good (tab st refs p b rest) : Good st p (codeP tab refs p b rest).1 := by
  simp only [codeP]
  (repeat' split) <;> first | exact Good.append (Good.refl ..) _ | exact Good.setLast (Good.refl ..) _

theorem setextP_good (st refs p b rest) : Good st p (setextP refs p b rest).1 := by
  simp only [setextP]
  exact Good.append (Good.refl ..) _

theorem referenceP_good (st refs p b rest m) : Good st p (referenceP refs p b rest m).1 := by
  obtain ⟨s, e, i, l, t5, t6⟩ := m
  exact Good.refl ..

theorem paraP_good (st refs p b rest) : Good st p (paraP st refs p b rest).1 := by
  simp only [paraP]
  split
  · exact Good.refl ..
  · split
    · rename_i hl
      split
      · exact Good.setLast (Good.refl ..) _
      · exact ⟨id, fun h => by simp [h] at hl⟩
    · exact Good.append (Good.refl ..) _

theorem hrP_good {pb : PB} (h : PBGood pb) {st refs p b rest m q r bl}
    (hr : hrP pb st refs p b rest m = some (q, r, bl)) : Good st p q := by
  obtain ⟨s, e⟩ := m
  simp only [hrP] at hr
  split at hr
  · simp at hr
  · rename_i p1 r1 h1
    simp only [Option.some.injEq, Prod.mk.injEq] at hr
    obtain ⟨rfl, -, -⟩ := hr
    refine Good.append ?_ _
    split at h1
    · simp only [Option.some.injEq, Prod.mk.injEq] at h1; rw [← h1.1]; exact Good.refl ..
    · exact h _ _ _ _ _ _ h1

theorem listItems_good {tab pb st2} : ∀ {items refs lst q r},
    listItems tab pb st2 refs lst items = some (q, r) → Good [] lst q := by
  intro items
  induction items with
  | nil => intro refs lst q r hr; simp only [listItems, Option.some.injEq, Prod.mk.injEq] at hr; rw [hr.1]; exact Good.refl ..
  | cons item items ih =>
    intro refs lst q r hr
    simp only [listItems] at hr
    split at hr
    · split at hr
      · split at hr
        · exact Good.trans (Good.setLast (Good.refl ..) _) (ih hr)
        · simp at hr
      · exact ih hr
    · split at hr
      · exact Good.trans (Good.append (Good.refl ..) _) (ih hr)
      · simp at hr

theorem listP_good {pb : PB} {tab st refs p b rest tag q r bl}
    (hr : listP tab pb st refs p b rest tag = some (q, r, bl)) : Good st p q := by
  simp only [listP] at hr
  (repeat' split at hr) <;> simp only [Option.some.injEq, Prod.mk.injEq, reduceCtorEq] at hr
  · rw [← hr.1]; exact Good.setLast (Good.refl ..) _
  · rename_i hli; rw [← hr.1]; exact Good.weaken rfl (listItems_good hli)
  · rw [← hr.1]; exact Good.append (Good.refl ..) _

theorem quoteP_good {pb : PB} (h : PBGood pb) {st refs p b rest n q r bl}
    (hr : quoteP pb st refs p b rest n = some (q, r, bl)) : Good st p q := by
  simp only [quoteP] at hr
  split at hr
  · simp at hr
  · rename_i p1 r1 h1
    have g := h _ _ _ _ _ _ h1
    (repeat' split at hr) <;> simp only [Option.some.injEq, Prod.mk.injEq, reduceCtorEq] at hr
    · rw [← hr.1]; exact Good.setLast g _
    · rw [← hr.1]; exact Good.append g _

theorem indentP_good {pb : PB} (h : PBGood pb) {tab st refs p b rest q r bl}
    (hr : indentP tab pb st refs p b rest = some (q, r, bl)) : Good st p q := by
  simp only [indentP] at hr
  (repeat' split at hr) <;> simp only [Option.some.injEq, Prod.mk.injEq, reduceCtorEq] at hr
  · rw [← hr.1]; exact Good.setLast (Good.refl ..) _
  · rename_i h1; rw [← hr.1]; exact Good.weaken (isstate_snoc_ne _ _ _ (by decide)) (h _ _ _ _ _ _ h1)
  · rename_i h1; rw [← hr.1]
    refine updPath_good _ fun h0 => ?_
    rw [h0] at h1
    exact Good.weaken (isstate_snoc_ne _ _ _ (by decide)) (h _ _ _ _ _ _ h1)
  · rw [← hr.1]; exact updPath_good _ fun _ => Good.setLast (Good.refl ..) _
  · rw [← hr.1]; exact updPath_good _ fun _ => Good.append (Good.refl ..) _

theorem dispatch_good {pb : PB} (h : PBGood pb) {tab st refs p b rest q r bl}
    (hr : dispatch tab pb st refs p b rest = some (q, r, bl)) : Good st p q := by
  rw [dispatch_eq] at hr
  cases hc : choose tab st p b <;> rw [hc] at hr <;> simp only [runChoice] at hr
  · have := emptyP_good st refs p b rest; simp only [Option.some.injEq] at hr; rwa [hr] at this
  · exact indentP_good h hr
  · have := codeP_good tab st refs p b rest; simp only [Option.some.injEq] at hr; rwa [hr] at this
  · exact hashP_good h hr
  · have := setextP_good st refs p b rest; simp only [Option.some.injEq] at hr; rwa [hr] at this
  · exact hrP_good h hr
  · exact listP_good hr
  · exact listP_good hr
  · exact quoteP_good h hr
  · rename_i m; have := referenceP_good st refs p b rest m; simp only [Option.some.injEq] at hr; rwa [hr] at this
  · have := paraP_good st refs p b rest; simp only [Option.some.injEq] at hr; rwa [hr] at this

theorem parseBlocks_good (tab : Nat) : ∀ f, PBGood (parseBlocks tab f) := by
  intro f
  induction f with
  | zero =>
    intro st refs p bs q r hr
    cases bs with
    | nil => simp only [parseBlocks, Option.some.injEq, Prod.mk.injEq] at hr; rw [hr.1]; exact Good.refl ..
    | cons b rest => simp [parseBlocks] at hr
  | succ f ih =>
    intro st refs p bs q r hr
    cases bs with
    | nil => simp only [parseBlocks, Option.some.injEq, Prod.mk.injEq] at hr; rw [hr.1]; exact Good.refl ..
    | cons b rest =>
      rw [parseBlocks] at hr
      split at hr
      · rename_i p' r' bl hd
        exact Good.trans (dispatch_good ih hd) (ih _ _ _ _ _ _ hr)
      · simp at hr

/-! ### the references are only appended to, never read -/

def addRefs2 (r0 : Refs) (x : Node × Refs) : Node × Refs := (x.1, r0 ++ x.2)
def addRefs (r0 : Refs) (x : Node × Refs × List Str) : Node × Refs × List Str := (x.1, r0 ++ x.2.1, x.2.2)

/-- `pb` does not read the references it is given -/
def PBRefs (pb : PB) : Prop :=
  ∀ st r0 refs p bs, pb st (r0 ++ refs) p bs = (pb st refs p bs).map (addRefs2 r0)

theorem emptyP_refs (r0 refs p b rest) : emptyP (r0 ++ refs) p b rest = addRefs r0 (emptyP refs p b rest) := by
  simp only [emptyP]
  (repeat' split) <;> simp [addRefs]

theorem codeP_refs (tab r0 refs p b rest) : codeP tab (r0 ++ refs) p b rest = addRefs r0 (codeP tab refs p b rest) := by
  simp only [codeP]
  (repeat' split) <;> simp [addRefs]

theorem setextP_refs (r0 refs p b rest) : setextP (r0 ++ refs) p b rest = addRefs r0 (setextP refs p b rest) := by
  simp [setextP, addRefs]

theorem referenceP_refs (r0 refs p b rest m) :
    referenceP (r0 ++ refs) p b rest m = addRefs r0 (referenceP refs p b rest m) := by
  obtain ⟨s, e, i, l, t5, t6⟩ := m
  simp [referenceP, addRefs]

theorem paraP_refs (st r0 refs p b rest) : paraP st (r0 ++ refs) p b rest = addRefs r0 (paraP st refs p b rest) := by
  simp only [paraP]
  (repeat' split) <;> simp [addRefs]

theorem hashP_refs {pb : PB} (h : PBRefs pb) (tab st r0 refs p b rest m) :
    hashP tab pb st (r0 ++ refs) p b rest m = (hashP tab pb st refs p b rest m).map (addRefs r0) := by
  obtain ⟨s, e, lv, hd⟩ := m
  simp only [hashP]
  by_cases hb : (List.take s b).isEmpty = true
  · simp [hb, addRefs]
  · simp only [hb]; rw [h]
    cases pb st refs p [List.take s b] <;> simp [addRefs, addRefs2]

theorem hrP_refs {pb : PB} (h : PBRefs pb) (st r0 refs p b rest m) :
    hrP pb st (r0 ++ refs) p b rest m = (hrP pb st refs p b rest m).map (addRefs r0) := by
  obtain ⟨s, e⟩ := m
  simp only [hrP]
  by_cases hb : (rstripC '\n' (List.take s b)).isEmpty = true
  · simp [hb, addRefs]
  · simp only [hb]; rw [h]
    cases pb st refs p [rstripC '\n' (List.take s b)] <;> simp [addRefs, addRefs2]

theorem listItems_refs {pb : PB} (h : PBRefs pb) (tab st2 r0) : ∀ items refs lst,
    listItems tab pb st2 (r0 ++ refs) lst items = (listItems tab pb st2 refs lst items).map (addRefs2 r0) := by
  intro items
  induction items with
  | nil => intro refs lst; simp [listItems, addRefs2]
  | cons item items ih =>
    intro refs lst
    simp only [listItems]
    split
    · split
      · rename_i l hl
        rw [h]
        cases pb st2 refs l [item] with
        | none => simp
        | some v => simp only [Option.map_some, addRefs2]; exact ih ..
      · exact ih ..
    · rw [h]
      cases pb st2 refs (Node.el "li") [item] with
      | none => simp
      | some v => simp only [Option.map_some, addRefs2]; exact ih ..

theorem listP_refs {pb : PB} (h : PBRefs pb) (tab st r0 refs p b rest tag) :
    listP tab pb st (r0 ++ refs) p b rest tag = (listP tab pb st refs p b rest tag).map (addRefs r0) := by
  simp only [listP]
  split
  · rw [h]
    cases pb (st ++ [.looselist]) refs (Node.el "li") [(getItems tab b).headD []] with
    | none => simp
    | some v =>
      simp only [Option.map_some, addRefs2, listItems_refs h]
      generalize listItems tab pb (st ++ [BState.list]) _ _ _ = x
      cases x <;> simp [addRefs, addRefs2]
  · split
    · simp only [listItems_refs h]
      generalize listItems tab pb (st ++ [BState.list]) _ _ _ = x
      cases x <;> simp [addRefs, addRefs2]
    · simp only [listItems_refs h]
      generalize listItems tab pb (st ++ [BState.list]) _ _ _ = x
      cases x <;> simp [addRefs, addRefs2]

theorem quoteP_refs {pb : PB} (h : PBRefs pb) (st r0 refs p b rest q) :
    quoteP pb st (r0 ++ refs) p b rest q = (quoteP pb st refs p b rest q).map (addRefs r0) := by
  simp only [quoteP, parseChunk]
  rw [h]
  cases pb st refs p [List.take q b] with
  | none => simp
  | some v =>
    simp only [Option.map_some, addRefs2]
    split
    · rw [h]
      generalize pb (st ++ [BState.blockquote]) _ _ _ = x
      cases x <;> simp [addRefs, addRefs2]
    · rw [h]
      generalize pb (st ++ [BState.blockquote]) _ _ _ = x
      cases x <;> simp [addRefs, addRefs2]

theorem indentP_refs {pb : PB} (h : PBRefs pb) (tab st r0 refs p b rest) :
    indentP tab pb st (r0 ++ refs) p b rest = (indentP tab pb st refs p b rest).map (addRefs r0) := by
  have h' : ∀ st r0 refs p bs, pb st (r0 ++ refs) p bs = (pb st refs p bs).map (addRefs2 r0) := h
  simp only [indentP, parseChunk, h']
  split
  · split <;> generalize pb (st ++ [BState.detabbed]) _ _ _ = x <;> cases x <;> simp [addRefs, addRefs2]
  · split
    · generalize pb (st ++ [BState.detabbed]) _ _ _ = x; cases x <;> simp [addRefs, addRefs2]
    · split <;> generalize pb (st ++ [BState.detabbed]) _ _ _ = x <;> cases x <;> simp [addRefs, addRefs2]

theorem dispatch_refs {pb : PB} (h : PBRefs pb) (tab st r0 refs p b rest) :
    dispatch tab pb st (r0 ++ refs) p b rest = (dispatch tab pb st refs p b rest).map (addRefs r0) := by
  rw [dispatch_eq, dispatch_eq]
  cases choose tab st p b <;> simp only [runChoice, Option.map_some]
  · rw [emptyP_refs]
  · rw [indentP_refs h]
  · rw [codeP_refs]
  · rw [hashP_refs h]
  · rw [setextP_refs]
  · rw [hrP_refs h]
  · rw [listP_refs h]
  · rw [listP_refs h]
  · rw [quoteP_refs h]
  · rw [referenceP_refs]
  · rw [paraP_refs]

theorem parseBlocks_refs (tab : Nat) : ∀ f, PBRefs (parseBlocks tab f) := by
  intro f
  induction f with
  | zero =>
    intro st r0 refs p bs
    cases bs <;> simp [parseBlocks, addRefs2]
  | succ f ih =>
    intro st r0 refs p bs
    cases bs with
    | nil => simp [parseBlocks, addRefs2]
    | cons b rest =>
      rw [parseBlocks, parseBlocks, dispatch_refs ih]
      cases dispatch tab (parseBlocks tab f) st refs p b rest with
      | none => simp
      | some v => simp only [Option.map_some, addRefs]; exact ih ..

/-! ### the frame: with at least one child, the parent is read only through its tag, text and last child -/

/-- `p` with the children `cs` put in front of its own -/
def pre (cs : List Node) (p : Node) : Node := { p with children := cs ++ p.children }
def pre2 (cs : List Node) (x : Node × Refs) : Node × Refs := (pre cs x.1, x.2)
def pre3 (cs : List Node) (x : Node × Refs × List Str) : Node × Refs × List Str := (pre cs x.1, x.2.1, x.2.2)

/-- earlier siblings are invisible to `pb` as soon as there is a last child -/
def PBFrame (pb : PB) : Prop :=
  ∀ st refs p cs bs, p.children ≠ [] → pb st refs (pre cs p) bs = (pb st refs p bs).map (pre2 cs)

theorem pre_nil (p : Node) : pre [] p = p := by cases p; rfl
@[simp] theorem pre_children (cs p) : (pre cs p).children = cs ++ p.children := rfl
@[simp] theorem pre_text (cs p) : (pre cs p).text = p.text := rfl
@[simp] theorem pre_tag (cs p) : (pre cs p).tag = p.tag := rfl
@[simp] theorem pre_isTag (cs p t) : (pre cs p).isTag t = p.isTag t := rfl
@[simp] theorem pre_isListTag (cs p) : isListTag (pre cs p) = isListTag p := rfl
@[simp] theorem pre_isItemTag (cs p) : isItemTag (pre cs p) = isItemTag p := rfl
@[simp] theorem pre_append (cs p c) : (pre cs p).append c = pre cs (p.append c) := by
  simp [pre, Node.append]

theorem pre_last? {p : Node} (hp : p.children ≠ []) (cs) : (pre cs p).last? = p.last? := by
  simp [pre, Node.last?, List.getLast?_append]
  cases h : p.children.getLast? with
  | none => simp [List.getLast?_eq_none_iff] at h; exact absurd h hp
  | some v => simp

theorem pre_setLast {p : Node} (hp : p.children ≠ []) (cs c) : (pre cs p).setLast c = pre cs (p.setLast c) := by
  simp [pre, Node.setLast, List.dropLast_append_of_ne_nil hp]

theorem pre_setCodeText {p : Node} (hp : p.children ≠ []) (cs sib code t) :
    setCodeText (pre cs p) sib code t = pre cs (setCodeText p sib code t) := by
  simp only [setCodeText, pre_setLast hp]

theorem getLevelKids_append (il level : Nat) {ks : List Node} (hk : ks ≠ []) :
    ∀ cs, getLevelKids il level (cs ++ ks) = getLevelKids il level ks := by
  intro cs
  induction cs with
  | nil => rfl
  | cons c cs ih =>
    cases hcs : cs ++ ks with
    | nil => simp at hcs; exact absurd hcs.2 hk
    | cons d r =>
      rw [List.cons_append, hcs, getLevelKids, ← hcs, ih]

theorem getLevelNode_pre (il level : Nat) {p : Node} (hp : p.children ≠ []) (cs) :
    getLevelNode il level (pre cs p) = getLevelNode il level p := by
  cases p with
  | mk tag attrs text ta children tail tla =>
    simp only [pre, getLevelNode]
    exact getLevelKids_append il level hp cs

theorem getLevel_pre (tab st b) {p : Node} (hp : p.children ≠ []) (cs) :
    getLevel tab st (pre cs p) b = getLevel tab st p b := by
  simp only [getLevel, getLevelNode_pre _ _ hp]

theorem nodeAt_pre {p : Node} (hp : p.children ≠ []) (cs k) :
    nodeAt (k + 1) (pre cs p) = nodeAt (k + 1) p := by
  simp only [nodeAt, pre_last? hp]
  have : p.last? ≠ none := by simp [Node.last?, List.getLast?_eq_none_iff, hp]
  cases h : p.last? with
  | none => exact absurd h this
  | some c => rfl

theorem updPath_pre {p : Node} (hp : p.children ≠ []) (f cs k) :
    updPath f (k + 1) (pre cs p) = pre cs (updPath f (k + 1) p) := by
  simp only [updPath, pre_last? hp]
  cases h : p.last? with
  | none => rfl
  | some c => simp only [pre_setLast hp]

theorem emptyP_frame {p : Node} (hp : p.children ≠ []) (cs refs b rest) :
    emptyP refs (pre cs p) b rest = pre3 cs (emptyP refs p b rest) := by
  simp only [emptyP, pre_last? hp, pre_setCodeText hp]
  (repeat' split) <;> simp [pre3]

theorem codeP_frame {p : Node} (hp : p.children ≠ []) (cs tab refs b rest) :
    codeP tab refs (pre cs p) b rest = pre3 cs (codeP tab refs p b rest) := by
  simp only [codeP, pre_last? hp, pre_setCodeText hp, pre_append]
  (repeat' split) <;> simp [pre3]

theorem setextP_frame (p : Node) (cs refs b rest) :
    setextP refs (pre cs p) b rest = pre3 cs (setextP refs p b rest) := by
  simp [setextP, pre3]

theorem referenceP_frame (p : Node) (cs refs b rest m) :
    referenceP refs (pre cs p) b rest m = pre3 cs (referenceP refs p b rest m) := by
  obtain ⟨s, e, i, l, t5, t6⟩ := m
  simp [referenceP, pre3]

theorem paraP_frame {p : Node} (hp : p.children ≠ []) (cs st refs b rest) :
    paraP st refs (pre cs p) b rest = pre3 cs (paraP st refs p b rest) := by
  have : p.last? ≠ none := by simp [Node.last?, List.getLast?_eq_none_iff, hp]
  simp only [paraP, pre_last? hp, pre_setLast hp, pre_append]
  cases h : p.last? with
  | none => exact absurd h this
  | some c =>
    dsimp only
    (repeat' split) <;> simp [pre3]

theorem hashP_frame {pb : PB} (h : PBFrame pb) {p : Node} (hp : p.children ≠ []) (cs tab st refs b rest m) :
    hashP tab pb st refs (pre cs p) b rest m = (hashP tab pb st refs p b rest m).map (pre3 cs) := by
  obtain ⟨s, e, lv, hd⟩ := m
  simp only [hashP]
  by_cases hb : (List.take s b).isEmpty = true
  · simp [hb, pre3]
  · simp only [hb]; rw [h _ _ _ _ _ hp]
    cases pb st refs p [List.take s b] <;> simp [pre3, pre2]

theorem hrP_frame {pb : PB} (h : PBFrame pb) {p : Node} (hp : p.children ≠ []) (cs st refs b rest m) :
    hrP pb st refs (pre cs p) b rest m = (hrP pb st refs p b rest m).map (pre3 cs) := by
  obtain ⟨s, e⟩ := m
  simp only [hrP]
  by_cases hb : (rstripC '\n' (List.take s b)).isEmpty = true
  · simp [hb, pre3]
  · simp only [hb]; rw [h _ _ _ _ _ hp]
    cases pb st refs p [rstripC '\n' (List.take s b)] <;> simp [pre3, pre2]

theorem setLast_children_ne (p c : Node) : (p.setLast c).children ≠ [] := by simp [Node.setLast]
theorem append_children_ne (p c : Node) : (p.append c).children ≠ [] := by simp [Node.append]

theorem listItems_frame (tab pb st2 cs) : ∀ items refs (lst : Node), lst.children ≠ [] →
    listItems tab pb st2 refs (pre cs lst) items = (listItems tab pb st2 refs lst items).map (pre2 cs) := by
  intro items
  induction items with
  | nil => intro refs lst _; simp [listItems, pre2]
  | cons item items ih =>
    intro refs lst hl
    simp only [listItems, pre_last? hl, pre_setLast hl, pre_append]
    split
    · split
      · rename_i l _
        cases pb st2 refs l [item] with
        | none => simp
        | some v => exact ih _ _ (setLast_children_ne _ _)
      · exact ih _ _ hl
    · cases pb st2 refs (Node.el "li") [item] with
      | none => simp
      | some v => exact ih _ _ (append_children_ne _ _)

theorem listP_frame {pb : PB} {p : Node} (hp : p.children ≠ []) (cs tab st refs b rest tag) :
    listP tab pb st refs (pre cs p) b rest tag = (listP tab pb st refs p b rest tag).map (pre3 cs) := by
  simp only [listP, pre_last? hp, pre_setLast hp, pre_append, pre_isListTag]
  split
  · cases pb (st ++ [.looselist]) refs (Node.el "li") [(getItems tab b).headD []] with
    | none => simp
    | some v =>
      dsimp only
      generalize listItems tab pb (st ++ [BState.list]) _ _ _ = x
      cases x <;> simp [pre3]
  · split
    · rw [listItems_frame _ _ _ _ _ _ _ hp]
      generalize listItems tab pb (st ++ [BState.list]) _ _ _ = x
      cases x <;> simp [pre3, pre2]
    · generalize listItems tab pb (st ++ [BState.list]) _ _ _ = x
      cases x <;> simp [pre3]

theorem quoteP_frame {pb : PB} (h : PBFrame pb) (hg : PBGood pb) {p : Node} (hp : p.children ≠ [])
    (cs st refs b rest q) :
    quoteP pb st refs (pre cs p) b rest q = (quoteP pb st refs p b rest q).map (pre3 cs) := by
  simp only [quoteP, parseChunk]
  rw [h _ _ _ _ _ hp]
  cases hpb : pb st refs p [List.take q b] with
  | none => simp
  | some v =>
    have hv : v.1.children ≠ [] := (hg _ _ _ _ _ _ hpb).1 hp
    simp only [Option.map_some, pre2, pre_last? hv, pre_setLast hv, pre_append]
    split
    · generalize pb (st ++ [BState.blockquote]) _ _ _ = x
      cases x <;> simp [pre3]
    · generalize pb (st ++ [BState.blockquote]) _ _ _ = x
      cases x <;> simp [pre3]

theorem indentP_frame {pb : PB} (h : PBFrame pb) {p : Node} (hp : p.children ≠ []) (cs tab st refs b rest) :
    indentP tab pb st refs (pre cs p) b rest = (indentP tab pb st refs p b rest).map (pre3 cs) := by
  simp only [indentP, parseChunk, getLevel_pre _ _ _ hp, pre_isItemTag, pre_last? hp, pre_setLast hp]
  generalize getLevel tab st p b = lv
  obtain ⟨level, steps⟩ := lv
  dsimp only
  split
  · split
    · generalize pb (st ++ [BState.detabbed]) _ _ _ = x
      cases x <;> simp [pre3]
    · rw [h _ _ _ _ _ hp]
      generalize pb (st ++ [BState.detabbed]) _ _ _ = x
      cases x <;> simp [pre3, pre2]
  · rename_i hni
    cases steps with
    | zero =>
      have hni' : isItemTag p = false := by simpa using hni
      simp only [nodeAt, updPath, pre_isItemTag, hni', Bool.false_eq_true, ↓reduceIte, pre_last? hp, pre_setLast hp,
        pre_append]
      split
      · generalize pb (st ++ [BState.detabbed]) _ _ _ = x
        cases x <;> simp [pre3]
      · generalize pb (st ++ [BState.detabbed]) _ _ _ = x
        cases x <;> simp [pre3]
    | succ k =>
      simp only [nodeAt_pre hp, updPath_pre hp]
      split
      · generalize pb (st ++ [BState.detabbed]) _ _ _ = x
        cases x <;> simp [pre3]
      · split
        · generalize pb (st ++ [BState.detabbed]) _ _ _ = x
          cases x <;> simp [pre3]
        · generalize pb (st ++ [BState.detabbed]) _ _ _ = x
          cases x <;> simp [pre3]

theorem indentTest_pre {p : Node} (hp : p.children ≠ []) (cs tab st b) :
    indentTest tab st (pre cs p) b = indentTest tab st p b := by
  simp only [indentTest, pre_isItemTag, pre_last? hp]

theorem choose_pre {p : Node} (hp : p.children ≠ []) (cs tab st b) :
    choose tab st (pre cs p) b = choose tab st p b := by
  simp only [choose, indentTest_pre hp]

theorem dispatch_frame {pb : PB} (h : PBFrame pb) (hg : PBGood pb) {p : Node} (hp : p.children ≠ [])
    (cs tab st refs b rest) :
    dispatch tab pb st refs (pre cs p) b rest = (dispatch tab pb st refs p b rest).map (pre3 cs) := by
  rw [dispatch_eq, dispatch_eq, choose_pre hp]
  cases choose tab st p b <;> simp only [runChoice, Option.map_some]
  · rw [emptyP_frame hp]
  · rw [indentP_frame h hp]
  · rw [codeP_frame hp]
  · rw [hashP_frame h hp]
  · rw [setextP_frame]
  · rw [hrP_frame h hp]
  · rw [listP_frame hp]
  · rw [listP_frame hp]
  · rw [quoteP_frame h hg hp]
  · rw [referenceP_frame]
  · rw [paraP_frame hp]

theorem parseBlocks_frame (tab : Nat) : ∀ f, PBFrame (parseBlocks tab f) := by
  intro f
  induction f with
  | zero =>
    intro st refs p cs bs _
    cases bs <;> simp [parseBlocks, pre2]
  | succ f ih =>
    intro st refs p cs bs hp
    cases bs with
    | nil => simp [parseBlocks, pre2]
    | cons b rest =>
      rw [parseBlocks, parseBlocks, dispatch_frame ih (parseBlocks_good tab f) hp]
      cases hd : dispatch tab (parseBlocks tab f) st refs p b rest with
      | none => simp
      | some v =>
        simp only [Option.map_some, pre3]
        exact ih _ _ _ _ _ ((dispatch_good (parseBlocks_good tab f) hd).1 hp)

/-! ### blocks that begin with a paragraph, a heading or a rule are blind to the siblings -/

/-- on a single block that `startsPHRAux`, outside list state, `pb` ignores the children of the parent altogether
    and leaves at least one child -/
def PBBlind (tab : Nat) (pb : PB) : Prop :=
  ∀ n st refs p cs b, isstate st .list = false → startsPHRAux tab n b = true →
    pb st refs (pre cs p) [b] = (pb st refs p [b]).map (pre2 cs) ∧
    ∀ q r, pb st refs p [b] = some (q, r) → q.children ≠ []

theorem startsPHRAux_succ (tab n b) : startsPHRAux tab (n + 1) b =
    (!b.isEmpty && !startsWith b ['\n'] && !startsWith b (spaces tab) && !isBlank b &&
    match hashSearch b with
    | some (s, _, _, _) => (b.take s).isEmpty || startsPHRAux tab n (b.take s)
    | none =>
      setextMatch b ||
      match hrSearch b with
      | some (s, _) => (rstripC '\n' (b.take s)).isEmpty || startsPHRAux tab n (rstripC '\n' (b.take s))
      | none =>
        !(listItemMatch tab true false b).isSome && !(listItemMatch tab false true b).isSome &&
        match quoteSearch b with
        | some q => startsPHRAux tab n (b.take q)
        | none => (refSearch b).isNone) := by
  rw [startsPHRAux]

theorem choose_of_phr {tab n b} (h : startsPHRAux tab (n + 1) b = true) (st p) :
    choose tab st p b = chooseText tab b := by
  rw [startsPHRAux_succ] at h
  simp only [Bool.and_eq_true, Bool.not_eq_eq_eq_not, Bool.not_true] at h
  obtain ⟨⟨⟨⟨h1, h2⟩, h3⟩, h4⟩, -⟩ := h
  simp [choose, indentTest, h1, h2, h3]

theorem dispatch_blind {tab : Nat} {pb : PB} (hb : PBBlind tab pb)
    {st : List BState} (hs : isstate st .list = false) {n b} (h : startsPHRAux tab (n + 1) b = true)
    (refs p cs rest) :
    dispatch tab pb st refs (pre cs p) b rest = (dispatch tab pb st refs p b rest).map (pre3 cs) ∧
    ∀ q r bl, dispatch tab pb st refs p b rest = some (q, r, bl) → q.children ≠ [] := by
  rw [dispatch_eq, dispatch_eq, choose_of_phr h, choose_of_phr h]
  rw [startsPHRAux_succ] at h
  simp only [Bool.and_eq_true, Bool.not_eq_eq_eq_not, Bool.not_true] at h
  obtain ⟨⟨⟨⟨h1, h2⟩, h3⟩, h4⟩, h5⟩ := h
  unfold chooseText
  rw [if_neg (by simp [h3])]
  cases hh : hashSearch b with
  | some m =>
    obtain ⟨s, e, lv, hd⟩ := m
    rw [hh] at h5
    dsimp only at h5 ⊢
    simp only [runChoice, hashP]
    by_cases he : (b.take s).isEmpty = true
    · simp [he, pre3, append_children_ne]
    · simp only [he, Bool.false_or] at h5
      obtain ⟨e1, -⟩ := hb n st refs p cs _ hs h5
      simp only [he]; rw [e1]
      cases pb st refs p [b.take s] <;> simp [pre3, pre2, append_children_ne]
  | none =>
    rw [hh] at h5
    dsimp only at h5 ⊢
    by_cases hx : setextMatch b = true
    · rw [if_pos hx]
      simp [runChoice, setextP, pre3, append_children_ne]
    · rw [if_neg hx]
      simp only [hx, Bool.false_or] at h5
      cases hr : hrSearch b with
      | some m =>
        obtain ⟨s, e⟩ := m
        rw [hr] at h5
        dsimp only at h5 ⊢
        simp only [runChoice, hrP]
        by_cases he : (rstripC '\n' (b.take s)).isEmpty = true
        · simp [he, pre3, append_children_ne]
        · simp only [he, Bool.false_or] at h5
          obtain ⟨e1, -⟩ := hb n st refs p cs _ hs h5
          simp only [he]; rw [e1]
          cases pb st refs p [rstripC '\n' (b.take s)] <;> simp [pre3, pre2, append_children_ne]
      | none =>
        rw [hr] at h5
        simp only [Bool.and_eq_true, Bool.not_eq_eq_eq_not, Bool.not_true] at h5
        obtain ⟨⟨h6, h7⟩, h8⟩ := h5
        dsimp only
        rw [if_neg (by simp [h6]), if_neg (by simp [h7])]
        cases hq : quoteSearch b with
        | some q =>
          rw [hq] at h8
          dsimp only at h8 ⊢
          obtain ⟨e1, e2⟩ := hb n st refs p cs _ hs h8
          simp only [runChoice, quoteP, parseChunk]
          rw [e1]
          cases hpb : pb st refs p [b.take q] with
          | none => simp
          | some v =>
            have hv : v.1.children ≠ [] := e2 _ _ hpb
            simp only [Option.map_some, pre2, pre_last? hv, pre_setLast hv, pre_append]
            split
            · generalize pb (st ++ [BState.blockquote]) _ _ _ = x
              cases x <;> simp [pre3, setLast_children_ne]
            · generalize pb (st ++ [BState.blockquote]) _ _ _ = x
              cases x <;> simp [pre3, append_children_ne]
        | none =>
          rw [hq] at h8
          dsimp only at h8 ⊢
          cases hrf : refSearch b with
          | some m => simp [hrf] at h8
          | none =>
            simp only [runChoice, paraP, h4, hs]
            simp [pre3, append_children_ne]

/-- the whole loop started on a block that begins with a paragraph, heading or rule is blind to the children the
    parent already has, and leaves at least one child -/
theorem parseBlocks_blind (tab : Nat) : ∀ f n st refs p cs b rest, isstate st .list = false →
    startsPHRAux tab n b = true →
    parseBlocks tab f st refs (pre cs p) (b :: rest) = (parseBlocks tab f st refs p (b :: rest)).map (pre2 cs) ∧
    ∀ q r, parseBlocks tab f st refs p (b :: rest) = some (q, r) → q.children ≠ [] := by
  intro f
  induction f with
  | zero => intro n st refs p cs b rest _ _; simp [parseBlocks]
  | succ f ih =>
    intro n st refs p cs b rest hs h
    cases n with
    | zero => simp [startsPHRAux] at h
    | succ n =>
      have hb : PBBlind tab (parseBlocks tab f) := fun n st refs p cs b hs h => ih n st refs p cs b [] hs h
      obtain ⟨e1, e2⟩ := dispatch_blind hb hs h refs p cs rest
      rw [parseBlocks, parseBlocks, e1]
      cases hd : dispatch tab (parseBlocks tab f) st refs p b rest with
      | none => simp
      | some v =>
        obtain ⟨p1, r1, bl⟩ := v
        have hv : p1.children ≠ [] := e2 _ _ _ hd
        simp only [Option.map_some, pre3]
        refine ⟨parseBlocks_frame tab f _ _ _ _ _ hv, fun q r hq => ?_⟩
        exact (parseBlocks_good tab f _ _ _ _ _ _ hq).1 hv

/-! ### composition -/

theorem pre_withKids (cs p ks) : pre cs (withKids p ks) = withKids p (cs ++ ks) := rfl
theorem shell_eq_withKids (p) : shell p = withKids p [] := rfl
theorem pre_children_shell (p : Node) : pre p.children (shell p) = p := by cases p; simp [pre, shell]

/-- running the loop on `as ++ b :: bs`, where `b` begins with a paragraph, heading or rule: what `as` built stays
    in front, and `b :: bs` is parsed as if `as` had not been there -/
theorem parseBlocks_compose {tab f g : Nat} {st : List BState} {refs : Refs} {p : Node} {as : List Str} {b : Str}
    {bs : List Str} {p1 r1 p2 r2} (hs : isstate st .list = false) (hb : startsPHR tab b = true)
    (h1 : parseBlocks tab f st refs p as = some (p1, r1))
    (h2 : parseBlocks tab g st [] (shell p) (b :: bs) = some (p2, r2)) :
    parseBlocks tab (f + g) st refs p (as ++ b :: bs) = some (pre p1.children p2, r1 ++ r2) := by
  refine parseBlocks_append h1 ?_
  have hsh : shell p1 = shell p := (parseBlocks_good tab f _ _ _ _ _ _ h1).2 hs
  have e1 := (parseBlocks_blind tab g _ st r1 (shell p1) p1.children b bs hs hb).1
  rw [pre_children_shell] at e1
  have e2 := parseBlocks_refs tab g st r1 [] (shell p1) (b :: bs)
  rw [List.append_nil] at e2
  rw [e1, e2, hsh, h2]
  rfl

/-- conversely, a successful run on `as ++ b :: bs` splits -/
theorem parseBlocks_compose_inv {tab f : Nat} {st : List BState} {refs : Refs} {p : Node} {as : List Str} {b : Str}
    {bs : List Str} {q r} (hs : isstate st .list = false) (hb : startsPHR tab b = true)
    (h : parseBlocks tab f st refs p (as ++ b :: bs) = some (q, r)) :
    ∃ p1 r1 p2 r2, parseBlocks tab f st refs p as = some (p1, r1) ∧
      parseBlocks tab f st [] (shell p) (b :: bs) = some (p2, r2) ∧ q = pre p1.children p2 ∧ r = r1 ++ r2 := by
  obtain ⟨p1, r1, h1, h2⟩ := parseBlocks_append_inv h
  have hsh : shell p1 = shell p := (parseBlocks_good tab f _ _ _ _ _ _ h1).2 hs
  have e1 := (parseBlocks_blind tab f _ st r1 (shell p1) p1.children b bs hs hb).1
  rw [pre_children_shell] at e1
  have e2 := parseBlocks_refs tab f st r1 [] (shell p1) (b :: bs)
  rw [List.append_nil] at e2
  rw [e1, e2, hsh] at h2
  cases h3 : parseBlocks tab f st [] (shell p) (b :: bs) with
  | none => rw [h3] at h2; simp at h2
  | some v =>
    rw [h3] at h2
    simp only [Option.map_some, Option.some.injEq, pre2, addRefs2, Prod.mk.injEq] at h2
    exact ⟨p1, r1, v.1, v.2, h1, rfl, h2.1.symm, h2.2.symm⟩

/-! ### splitting a concatenated text at blank lines -/

theorem splitAux_ne_nil (sep : Str) : ∀ (s : Str) (k : Nat), splitAux sep k s ≠ [] := by
  intro s
  induction s with
  | nil => intro k; simp [splitAux]
  | cons c s ih =>
    intro k
    cases k with
    | succ k => simpa [splitAux] using ih k
    | zero =>
      simp only [splitAux]
      split
      · simp
      · split <;> simp

theorem startsWith_nn_cons (c d : Char) (s : Str) : startsWith (c :: d :: s) nn = (c = '\n' && d = '\n') := by
  simp [startsWith]

theorem splitAux_nn_match (c d : Char) (s : Str) (h : (c = '\n' && d = '\n') = true) :
    splitAux nn 0 (c :: d :: s) = [] :: splitAux nn 0 s := by
  rw [splitAux, startsWith_nn_cons, if_pos h]; rfl

theorem splitAux_nn_nomatch (c d : Char) (s : Str) (h : ¬ (c = '\n' && d = '\n') = true) :
    splitAux nn 0 (c :: d :: s) =
      match splitAux nn 0 (d :: s) with
      | [] => [[c]]
      | p :: ps => (c :: p) :: ps := by
  rw [splitAux, startsWith_nn_cons, if_neg h]; rfl

/-- `A` ends right after a separator: the text behind it is split on its own -/
theorem splitAux_nn_append_sync (B : Str) : ∀ (A : Str) (k : Nat), k ≤ A.length →
    (splitAux nn k A).getLast? = some [] →
    splitAux nn k (A ++ B) = (splitAux nn k A).dropLast ++ splitAux nn 0 B := by
  intro A
  induction A with
  | nil =>
    intro k hk _
    have : k = 0 := by simpa using hk
    subst this
    simp [splitAux]
  | cons c s ih =>
    intro k hk hl
    cases k with
    | succ k =>
      simp only [splitAux, List.cons_append] at hl ⊢
      exact ih k (by simpa using hk) hl
    | zero =>
      cases s with
      | nil => simp [splitAux, startsWith] at hl
      | cons d s' =>
        by_cases hm : (c = '\n' && d = '\n') = true
        · rw [List.cons_append, List.cons_append, splitAux_nn_match _ _ _ hm, splitAux_nn_match _ _ _ hm]
          rw [splitAux_nn_match _ _ _ hm] at hl
          obtain ⟨x, xs, hx⟩ := List.exists_cons_of_ne_nil (splitAux_ne_nil nn s' 0)
          have ih1 := ih 1 (by simp)
          rw [show splitAux nn 1 (d :: s') = splitAux nn 0 s' from rfl,
            show splitAux nn 1 (d :: s' ++ B) = splitAux nn 0 (s' ++ B) from rfl] at ih1
          rw [hx] at hl ih1
          rw [List.getLast?_cons_cons] at hl
          rw [ih1 hl, hx]
          simp
        · rw [List.cons_append, List.cons_append, splitAux_nn_nomatch _ _ _ hm, splitAux_nn_nomatch _ _ _ hm]
          rw [splitAux_nn_nomatch _ _ _ hm] at hl
          obtain ⟨x, xs, hx⟩ := List.exists_cons_of_ne_nil (splitAux_ne_nil nn (d :: s') 0)
          have ih0 := ih 0 (by simp)
          rw [hx] at hl ih0
          dsimp only at hl
          cases xs with
          | nil => simp at hl
          | cons y ys =>
            rw [List.getLast?_cons_cons] at hl
            rw [List.getLast?_cons_cons] at ih0
            rw [show d :: (s' ++ B) = d :: s' ++ B from rfl, ih0 hl, hx]
            simp

/-- put `l` in front of the first piece -/
def glue (l : Str) : List Str → List Str
  | [] => [l]
  | h :: t => (l ++ h) :: t

/-- `B` does not begin with a newline: the last piece of `A` and the first piece of `B` are joined -/
theorem splitAux_nn_append_glue (B : Str) (hB : B.head? ≠ some '\n') : ∀ (A : Str) (k : Nat), k ≤ A.length →
    splitAux nn k (A ++ B) =
      (splitAux nn k A).dropLast ++ glue ((splitAux nn k A).getLast?.getD []) (splitAux nn 0 B) := by
  intro A
  induction A with
  | nil =>
    intro k hk
    have : k = 0 := by simpa using hk
    subst this
    obtain ⟨y, ys, hy⟩ := List.exists_cons_of_ne_nil (splitAux_ne_nil nn B 0)
    simp [splitAux, hy, glue]
  | cons c s ih =>
    intro k hk
    cases k with
    | succ k =>
      simp only [splitAux, List.cons_append]
      exact ih k (by simpa using hk)
    | zero =>
      cases s with
      | nil =>
        cases B with
        | nil => simp [splitAux, startsWith, glue]
        | cons d B' =>
          have hd : ¬ (c = '\n' && d = '\n') = true := by
            simp only [List.head?_cons, ne_eq, Option.some.injEq] at hB
            simp [hB]
          rw [show [c] ++ d :: B' = c :: d :: B' from rfl, splitAux_nn_nomatch _ _ _ hd]
          obtain ⟨y, ys, hy⟩ := List.exists_cons_of_ne_nil (splitAux_ne_nil nn (d :: B') 0)
          rw [hy]
          simp [splitAux, startsWith, glue]
      | cons d s' =>
        by_cases hm : (c = '\n' && d = '\n') = true
        · rw [List.cons_append, List.cons_append, splitAux_nn_match _ _ _ hm, splitAux_nn_match _ _ _ hm]
          obtain ⟨x, xs, hx⟩ := List.exists_cons_of_ne_nil (splitAux_ne_nil nn s' 0)
          have ih1 := ih 1 (by simp)
          rw [show splitAux nn 1 (d :: s') = splitAux nn 0 s' from rfl,
            show splitAux nn 1 (d :: s' ++ B) = splitAux nn 0 (s' ++ B) from rfl] at ih1
          rw [ih1, hx]
          simp
        · rw [List.cons_append, List.cons_append, splitAux_nn_nomatch _ _ _ hm, splitAux_nn_nomatch _ _ _ hm]
          obtain ⟨x, xs, hx⟩ := List.exists_cons_of_ne_nil (splitAux_ne_nil nn (d :: s') 0)
          have ih0 := ih 0 (by simp)
          rw [show d :: (s' ++ B) = d :: s' ++ B from rfl, ih0, hx]
          obtain ⟨y, ys, hy⟩ := List.exists_cons_of_ne_nil (splitAux_ne_nil nn B 0)
          rw [hy]
          cases xs with
          | nil => simp [glue]
          | cons x' xs' => simp [glue]

theorem splitAux_nn_head (c : Char) (s : Str) :
    ∃ h t, splitAux nn 0 (c :: s) = h :: t ∧ (h = [] ∨ h.head? = some c) := by
  cases s with
  | nil => exact ⟨[c], [], by simp [splitAux, startsWith], Or.inr rfl⟩
  | cons d s' =>
    by_cases hm : (c = '\n' && d = '\n') = true
    · exact ⟨[], _, splitAux_nn_match _ _ _ hm, Or.inl rfl⟩
    · rw [splitAux_nn_nomatch _ _ _ hm]
      obtain ⟨x, xs, hx⟩ := List.exists_cons_of_ne_nil (splitAux_ne_nil nn (d :: s') 0)
      rw [hx]
      exact ⟨c :: x, xs, rfl, Or.inr rfl⟩

/-! ### the empty-block steps at the seam -/

theorem dispatch_nl (tab pb st refs p rest) :
    dispatch tab pb st refs p ['\n'] rest = some ((emptyP refs p ['\n'] []).1, refs, rest) := by
  simp only [dispatch, emptyP]
  (repeat' split) <;> simp_all [startsWith]

theorem dispatch_nl_cons (tab pb st refs p) {b : Str} (hb : b ≠ []) (rest) :
    dispatch tab pb st refs p ('\n' :: b) rest = some ((emptyP refs p ['\n'] []).1, refs, b :: rest) := by
  simp only [dispatch, emptyP]
  (repeat' split) <;> simp_all [startsWith]

theorem dispatch_empty (tab pb st refs p rest) :
    dispatch tab pb st refs p [] rest = some ((emptyP refs p [] []).1, refs, rest) := by
  simp only [dispatch, emptyP]
  (repeat' split) <;> simp_all

/-- a block `"\n" ++ b` is handled as the block `"\n"` followed by the block `b` -/
theorem parseBlocks_nl_cons (tab f st refs p) {b : Str} (hb : b ≠ []) (rest) :
    parseBlocks tab f st refs p (('\n' :: b) :: rest) = parseBlocks tab f st refs p (['\n'] :: b :: rest) := by
  cases f with
  | zero => rfl
  | succ f => rw [parseBlocks, parseBlocks, dispatch_nl_cons _ _ _ _ _ hb, dispatch_nl]

/-- blocks behind a common prefix may be replaced by blocks the loop treats alike -/
theorem parseBlocks_congr_suffix (tab : Nat) {X X' : List Str}
    (h : ∀ f st refs p, parseBlocks tab f st refs p X = parseBlocks tab f st refs p X') :
    ∀ f st refs p as, parseBlocks tab f st refs p (as ++ X) = parseBlocks tab f st refs p (as ++ X') := by
  intro f
  induction f with
  | zero =>
    intro st refs p as
    cases as with
    | nil => exact h ..
    | cons a as => rfl
  | succ f ih =>
    intro st refs p as
    cases as with
    | nil => exact h ..
    | cons a as =>
      rw [List.cons_append, List.cons_append, parseBlocks, parseBlocks, dispatch_rest, dispatch_rest]
      cases dispatch tab (parseBlocks tab f) st refs p a as with
      | none => rfl
      | some v => simp only [Option.map_some, addRest]; exact ih ..

/-! ### text level -/

theorem dropLast_append_of_getLast? {α} {l : List α} {a : α} (h : l.getLast? = some a) : l.dropLast ++ [a] = l := by
  have hne : l ≠ [] := by rintro rfl; simp at h
  have := List.dropLast_concat_getLast hne
  rw [List.getLast?_eq_some_getLast hne] at h
  injection h with h
  rw [← h]; exact this

theorem emptyP_fst (refs p b rest) : (emptyP refs p b rest).1 = (emptyP [] p b []).1 := by
  simp only [emptyP]
  (repeat' split) <;> rfl

theorem fillCode_eq_self {p : Node} (h : ∀ sib, p.last? = some sib → preCode sib = none) : fillCode p = p := by
  simp only [fillCode, emptyP]
  split
  · rename_i sib hs
    rw [h sib hs]
  · rfl

theorem parseDocumentWith_eq (tab f T) :
    parseDocumentWith tab f T = parseBlocks tab f [] [] (Node.el "div") (splitS nn T) := rfl

theorem startsPHR_ne {tab b} (h : startsPHR tab b = true) : b ≠ [] ∧ startsWith b ['\n'] = false := by
  rw [startsPHR, startsPHRAux_succ] at h
  simp only [Bool.and_eq_true, Bool.not_eq_eq_eq_not, Bool.not_true] at h
  obtain ⟨⟨⟨⟨h1, h2⟩, -⟩, -⟩, -⟩ := h
  exact ⟨by simpa using h1, h2⟩

theorem head_ne_nl_of_phr {tab : Nat} {TB : Str} (hb : startsPHR tab ((splitS nn TB).headD []) = true) :
    TB.head? ≠ some '\n' := by
  cases TB with
  | nil => simp
  | cons c s =>
    obtain ⟨h, t, e, hh⟩ := splitAux_nn_head c s
    rw [splitS, e] at hb
    obtain ⟨h1, h2⟩ := startsPHR_ne hb
    simp only [List.headD_cons] at h1 h2
    rcases hh with rfl | hh
    · exact absurd rfl h1
    · cases h with
      | nil => exact absurd rfl h1
      | cons x xs =>
        simp only [List.head?_cons, Option.some.injEq] at hh
        subst hh
        intro hc
        simp only [List.head?_cons, Option.some.injEq] at hc
        subst hc
        simp [startsWith] at h2

theorem isstate_nil (s : BState) : isstate [] s = false := rfl

theorem shell_div : shell (Node.el "div") = Node.el "div" := rfl

/-- text level, the last block of `TA` is `"\n"` (an odd number of newlines at its end) -/
theorem parseDocumentWith_append_odd {tab f g : Nat} {TA TB : Str} {pa ra pb rb}
    (hl : (splitS nn TA).getLast? = some ['\n'])
    (hb : startsPHR tab ((splitS nn TB).headD []) = true)
    (hA : parseDocumentWith tab f TA = some (pa, ra)) (hB : parseDocumentWith tab g TB = some (pb, rb)) :
    parseDocumentWith tab (f + g) (TA ++ TB) = some (pre pa.children pb, ra ++ rb) := by
  rw [parseDocumentWith_eq] at hA hB ⊢
  have hsplit := splitAux_nn_append_glue TB (head_ne_nl_of_phr hb) TA 0 (Nat.zero_le _)
  obtain ⟨b, bs, e⟩ := List.exists_cons_of_ne_nil (splitAux_ne_nil nn TB 0)
  have eA : splitS nn TA = (splitS nn TA).dropLast ++ [['\n']] := by
    exact (dropLast_append_of_getLast? hl).symm
  rw [splitS] at hl eA hb hA hB
  rw [e] at hb hB hsplit
  simp only [List.headD_cons] at hb
  rw [splitS, hsplit, hl]
  simp only [Option.getD_some, glue, List.singleton_append]
  rw [parseBlocks_congr_suffix tab (fun f st refs p => parseBlocks_nl_cons tab f st refs p (startsPHR_ne hb).1 bs)]
  rw [show (splitAux nn 0 TA).dropLast ++ ['\n'] :: b :: bs = ((splitAux nn 0 TA).dropLast ++ [['\n']]) ++ b :: bs by simp,
    ← eA]
  exact parseBlocks_compose (isstate_nil _) hb hA (by rw [shell_div]; exact hB)

/-- text level, the last block of `TA` is empty (an even number of newlines at its end): the tree of `TA ++ TB` has
    in front the tree of `TA` *before* the final empty block put its `"\n\n"` into a trailing code block -/
theorem parseDocumentWith_append_even {tab f g : Nat} {TA TB : Str} {pa ra pb rb}
    (hl : (splitS nn TA).getLast? = some [])
    (hb : startsPHR tab ((splitS nn TB).headD []) = true)
    (hA : parseDocumentWith tab f TA = some (pa, ra)) (hB : parseDocumentWith tab g TB = some (pb, rb)) :
    ∃ pa', pa = fillCode pa' ∧
      parseDocumentWith tab (f + g) (TA ++ TB) = some (pre pa'.children pb, ra ++ rb) := by
  rw [parseDocumentWith_eq] at hA hB ⊢
  have hsplit := splitAux_nn_append_sync TB TA 0 (Nat.zero_le _) hl
  obtain ⟨b, bs, e⟩ := List.exists_cons_of_ne_nil (splitAux_ne_nil nn TB 0)
  have eA : splitS nn TA = (splitS nn TA).dropLast ++ [[]] := (dropLast_append_of_getLast? hl).symm
  rw [splitS] at hl eA hb hA hB
  rw [e] at hb hB hsplit
  simp only [List.headD_cons] at hb
  rw [eA] at hA
  obtain ⟨pa', ra', h1, h2⟩ := parseBlocks_append_inv hA
  cases f with
  | zero => simp [parseBlocks] at h2
  | succ f =>
    rw [parseBlocks, dispatch_empty] at h2
    simp only [parseBlocks_nil, Option.some.injEq, Prod.mk.injEq] at h2
    obtain ⟨rfl, rfl⟩ := h2
    refine ⟨pa', emptyP_fst .., ?_⟩
    rw [splitS, hsplit]
    exact parseBlocks_compose (isstate_nil _) hb h1 (by rw [shell_div]; exact hB)

/-! ### a text that ends with a blank line ends with the block `""` or the block `"\n"` -/

theorem append_nn_cons (X : Str) : ∃ d s, X ++ nn = d :: s := by
  cases X with
  | nil => exact ⟨_, _, rfl⟩
  | cons c X => exact ⟨_, _, rfl⟩

theorem splitAux_nn_two : ∀ X : Str, ∃ a b t, splitAux nn 0 (X ++ nn) = a :: b :: t := by
  intro X
  induction X with
  | nil => exact ⟨[], [], [], by simp [splitAux, startsWith]⟩
  | cons c X ih =>
    obtain ⟨d, s, e⟩ := append_nn_cons X
    obtain ⟨a, b, t, h⟩ := ih
    rw [List.cons_append, e]
    rw [e] at h
    by_cases hm : (c = '\n' && d = '\n') = true
    · rw [splitAux_nn_match _ _ _ hm]
      obtain ⟨x, xs, hx⟩ := List.exists_cons_of_ne_nil (splitAux_ne_nil nn s 0)
      exact ⟨_, _, _, by rw [hx]⟩
    · rw [splitAux_nn_nomatch _ _ _ hm, h]
      exact ⟨_, _, _, rfl⟩

theorem splitAux_nn_last : ∀ (X : Str) (k : Nat),
    (splitAux nn k (X ++ nn)).getLast? = some [] ∨ (splitAux nn k (X ++ nn)).getLast? = some ['\n'] := by
  intro X
  induction X with
  | nil =>
    intro k
    match k with
    | 0 => left; simp [splitAux, startsWith]
    | 1 => right; simp [splitAux, startsWith]
    | 2 => left; simp [splitAux]
    | k + 3 => left; simp [splitAux]
  | cons c X ih =>
    intro k
    cases k with
    | succ k => simpa [splitAux] using ih k
    | zero =>
      obtain ⟨d, s, e⟩ := append_nn_cons X
      rw [List.cons_append, e]
      by_cases hm : (c = '\n' && d = '\n') = true
      · rw [splitAux_nn_match _ _ _ hm]
        have h1 := ih 1
        rw [e, show splitAux nn 1 (d :: s) = splitAux nn 0 s from rfl] at h1
        obtain ⟨x, xs, hx⟩ := List.exists_cons_of_ne_nil (splitAux_ne_nil nn s 0)
        rw [hx] at h1 ⊢
        rw [List.getLast?_cons_cons]
        exact h1
      · rw [splitAux_nn_nomatch _ _ _ hm]
        obtain ⟨a, b, t, h⟩ := splitAux_nn_two X
        have h0 := ih 0
        rw [e] at h h0
        rw [h] at h0 ⊢
        dsimp only
        rw [List.getLast?_cons_cons] at h0 ⊢
        exact h0

/-- the last block of a text that ends with a blank line -/
theorem last_block_of_ends_nn (X : Str) :
    (splitS nn (X ++ nn)).getLast? = some [] ∨ (splitS nn (X ++ nn)).getLast? = some ['\n'] :=
  splitAux_nn_last X 0

end MdVerif.Block.Local
