/-
Helper lemmas for `C16_fence_renders` (`Props/C16RenderFence.lean`): a fenced code block with an optional language, alone
in the document, through the extension pipeline with `fenced_code`.  Core Lean only.
-/
import MdVerif.Model.PipelineX
import MdVerif.Spec.FenceDoc
import MdVerif.Lemmas.StashAtomic
import MdVerif.Lemmas.FencedCode
import MdVerif.Lemmas.FencedCodeAttrs
import MdVerif.Lemmas.InlineRef
import MdVerif.Lemmas.InlineEsc
import MdVerif.Lemmas.TableRender2
import MdVerif.Lemmas.TableRender3
import MdVerif.Lemmas.PipelineX
import MdVerif.Lemmas.BlockExt
import MdVerif.Lemmas.Code
import MdVerif.Lemmas.BlockConserveStr
import MdVerif.Lemmas.SerializerEsc

namespace MdVerif.FenceDoc
open Py Fenced

/-! ### the opening line with a language -/

theorem descTo_head (n : Nat) : ∃ t, descTo n = n :: t := by cases n <;> exact ⟨_, rfl⟩

theorem langOK_facts {lang : Str} (h : LangOK lang = true) : lang.all isLangChar = true ∧ lang.head? ≠ some '.' := by
  simpa [LangOK] using h

theorem spanLen_lang (lang r : Str) (h : lang.all isLangChar = true) :
    spanLen isLangChar (lang ++ '\n' :: r) = lang.length := by
  rw [spanLen_append_of_all h]
  simp [spanLen_cons, isLangChar_nl]

/-- the first way of matching the opening line `lang⏎`: the whole name as the language -/
theorem openCands_lang (lang r : Str) (h : LangOK lang = true) :
    ∃ tail, openCands (lang ++ '\n' :: r) = ⟨none, some lang, none, lang.length⟩ :: tail := by
  obtain ⟨hl, hd⟩ := langOK_facts h
  cases lang with
  | nil => exact ⟨_, openCands_newline r⟩
  | cons c l =>
    have hc : isLangChar c = true := by simp only [List.all_cons, Bool.and_eq_true] at hl; exact hl.1
    have hsp0 : spanLen isSp ((c :: l) ++ '\n' :: r) = 0 := by
      have : c ≠ ' ' := by intro e; subst e; exact absurd hc (by decide)
      simp [spanLen_cons, isSp, this]
    have hdot : startsWith ((c :: l) ++ '\n' :: r) ['.'] = false := by
      have : c ≠ '.' := by simpa using hd
      simp [this]
    have hattr : attrCands ((c :: l) ++ '\n' :: r) 0 = [] := by
      have : c ≠ '{' := by intro e; subst e; exact absurd hc (by decide)
      unfold attrCands
      split
      · rename_i heq; simp at heq; exact absurd heq.1 this
      · rfl
    have hspan := spanLen_lang (c :: l) r hl
    obtain ⟨t1, ht1⟩ := descTo_head (c :: l).length
    have hdrop : ((c :: l) ++ '\n' :: r).drop (0 + (c :: l).length) = '\n' :: r := by simp
    have hsp1 : spanLen isSp ('\n' :: r) = 0 := by simp [spanLen_cons, isSp]
    have htake : (((c :: l) ++ '\n' :: r).drop 0).take (c :: l).length = c :: l := by simp
    unfold openCands
    rw [hsp0]
    simp only [descTo, List.flatMap_cons, List.flatMap_nil, List.drop_zero, hattr, List.nil_append, List.append_nil]
    unfold langCands
    rw [hdot]
    simp only [Bool.false_eq_true, if_false, List.flatMap_cons, List.flatMap_nil, List.drop_zero, hspan, ht1,
      List.append_nil]
    rw [show ((c :: l) ++ '\n' :: r).drop (0 + (c :: l).length) = '\n' :: r from hdrop, hsp1]
    simp only [descTo, List.flatMap_cons, List.flatMap_nil, List.append_nil, Nat.add_zero]
    rw [hdrop, hlCands_nl]
    simp only [List.map_cons, List.map_nil, List.cons_append, List.nil_append, List.map_append]
    have ht2 : (c :: (l ++ '\n' :: r)).take (c :: l).length = c :: l := by simp
    rw [ht2, Nat.zero_add]
    exact ⟨_, rfl⟩


/-! ### the recogniser and the preprocessor on the block -/

theorem fenceRun_fence' (n : Nat) (ch d : Char) (r : Str) (hch : ch = '~' ∨ ch = '`') (hn : 1 ≤ n) (hd : d ≠ ch) :
    fenceRun (List.replicate n ch ++ d :: r) = n := by
  obtain ⟨k, rfl⟩ : ∃ k, n = k + 1 := ⟨n - 1, by omega⟩
  rcases hch with rfl | rfl
  · have := spanLen_replicate (· = '~') (k + 1) '~' d r (by decide) (by simpa using hd)
    simpa [fenceRun, List.replicate_succ] using this
  · have := spanLen_replicate (· = '`') (k + 1) '`' d r (by decide) (by simpa using hd)
    simpa [fenceRun, List.replicate_succ] using this


theorem fenceAt_block_lang (n : Nat) (ch : Char) (lang b post : Str) (hch : ch = '~' ∨ ch = '`') (hn : 3 ≤ n)
    (hl : LangOK lang = true) (hb : ∀ l ∈ lines b, isClose (List.replicate n ch) l = false) :
    fenceAt (List.replicate n ch ++ (lang ++ '\n' :: (b ++ '\n' :: (List.replicate n ch ++ '\n' :: post)))) =
      some ⟨0, n + lang.length + 1 + (b.length + 1) + n, List.replicate n ch, none, some lang, none, b ++ ['\n']⟩ := by
  have hrun : fenceRun (List.replicate n ch ++ (lang ++ '\n' :: (b ++ '\n' :: (List.replicate n ch ++ '\n' :: post)))) = n := by
    cases lang with
    | nil => exact fenceRun_fence n ch _ hch (by omega)
    | cons c l =>
      have hc : isLangChar c = true := by
        have := (langOK_facts hl).1; simp only [List.all_cons, Bool.and_eq_true] at this; exact this.1
      have : c ≠ ch := by
        intro e; subst e
        rcases hch with rfl | rfl <;> exact absurd hc (by decide)
      exact fenceRun_fence' n ch c _ hch (by omega) this
  have hlines : lines (b ++ '\n' :: (List.replicate n ch ++ '\n' :: post)) =
      lines b ++ (List.replicate n ch :: lines post) := by
    simp only [lines]
    rw [splitC_append, splitC_append, splitC_no_sep _ _ (mem_replicate_ne_nl n ch hch)]
    rfl
  obtain ⟨tail, hoc⟩ := openCands_lang lang (b ++ '\n' :: (List.replicate n ch ++ '\n' :: post)) hl
  unfold fenceAt
  simp only [hrun]
  rw [if_neg (by omega)]
  have hdrop : (List.replicate n ch ++ (lang ++ '\n' :: (b ++ '\n' :: (List.replicate n ch ++ '\n' :: post)))).drop n =
      lang ++ '\n' :: (b ++ '\n' :: (List.replicate n ch ++ '\n' :: post)) := by
    rw [List.drop_append_of_le_length (by simp)]; simp
  have htake : (List.replicate n ch ++ (lang ++ '\n' :: (b ++ '\n' :: (List.replicate n ch ++ '\n' :: post)))).take n =
      List.replicate n ch := by
    rw [List.take_append_of_le_length (by simp)]; simp
  have hdl : (lang ++ '\n' :: (b ++ '\n' :: (List.replicate n ch ++ '\n' :: post))).drop lang.length =
      '\n' :: (b ++ '\n' :: (List.replicate n ch ++ '\n' :: post)) := by simp
  rw [hdrop, htake, hoc]
  simp only [List.findSome?_cons, tryCand, hdl, hlines]
  rw [closeLines_skip _ _ _ _ hb]
  simp only [closeLines, isClose_self, if_true, lines, total_splitC, List.length_replicate, Nat.zero_add,
    take_body]

theorem blockHtml_eq (lang code : Str) :
    blockHtmlA [] [] lang code =
      "<pre><code".toList ++ (if lang.isEmpty then [] else " class=\"language-".toList ++ Ser.escAttrHtml lang ++ ['"']) ++
        ['>'] ++ Code.fenceEscape code ++ "</code></pre>".toList := by
  rw [blockHtmlA_plain]; rfl

theorem find_after_placeholder3 :
    fenceFindFrom ('\n' :: (placeholder 0 ++ ['\n', '\n', '\n'])) (0 + 1 + (placeholder 0).length) = none := by
  decide

/-- **`FencedBlockPreprocessor.run`** on the normalised document of one fenced block -/
theorem fencedRunA_block (n : Nat) (ch : Char) (lang b : Str) (hch : ch = '~' ∨ ch = '`') (hn : 3 ≤ n)
    (hl : LangOK lang = true) (hb : noCloseLine (List.replicate n ch) b = true) :
    fencedRunA (printFence n ch lang b ++ ['\n', '\n']) =
      .ok ('\n' :: (placeholder 0 ++ ['\n', '\n', '\n'])) [blockHtmlA [] [] lang (b ++ ['\n'])] := by
  have hb' : ∀ l ∈ lines b, isClose (List.replicate n ch) l = false := by simpa [noCloseLine] using hb
  have hsrc : printFence n ch lang b ++ ['\n', '\n'] =
      List.replicate n ch ++ (lang ++ '\n' :: (b ++ '\n' :: (List.replicate n ch ++ '\n' :: ['\n']))) := by
    simp [printFence, List.append_assoc]
  have hf : fenceFindFrom (printFence n ch lang b ++ ['\n', '\n']) 0 =
      some ⟨0, n + lang.length + 1 + (b.length + 1) + n, List.replicate n ch, none, some lang, none, b ++ ['\n']⟩ := by
    have h := fenceScan_at _ 0 _ (fenceAt_block_lang n ch lang b ['\n'] hch hn hl hb')
    rw [hsrc]
    simp only [fenceFindFrom, List.drop_zero]
    simpa using h
  have hdrop : (printFence n ch lang b ++ ['\n', '\n']).drop (n + lang.length + 1 + (b.length + 1) + n) =
      ['\n', '\n'] := by
    apply List.drop_left'
    simp [printFence]; omega
  obtain ⟨f, hfuel⟩ : ∃ f, (printFence n ch lang b ++ ['\n', '\n']).length + 1 = f + 2 :=
    ⟨(printFence n ch lang b ++ ['\n', '\n']).length - 1, by simp [printFence]; omega⟩
  unfold fencedRunA
  rw [hfuel, fencedLoopA, hf]
  simp only [Option.getD_none, Option.getD_some, List.isEmpty_nil, if_true, List.take_zero, List.nil_append, hdrop,
    List.length_nil]
  rw [fencedLoopA, find_after_placeholder3]


/-! ### the placeholder paragraph through block parser and inline processor -/

open InlineRef Inline in
/-- `__handleInline` on text in which no pattern can match -/
theorem handleInlineTop_quiet (cfg : Inline.Cfg) (t : Str) (st : St) (h01 : Quiet01 t) (hq : Quiet t) :
    handleInlineTop cfg t st = some (t, st) := by
  obtain ⟨g, hg⟩ : ∃ g, loopFuel t.length = g + 2 := ⟨loopFuel t.length - 2, by have := loopFuel_ge t.length; omega⟩
  have hg' : 15 ≤ g := by have := loopFuel_ge t.length; omega
  unfold handleInlineTop depthFuel
  rw [show handleInline cfg (t.length + 20) t 0 st =
    hiLoop (applyPattern cfg fun d p s => handleInline cfg (t.length + 19) d p s) (loopFuel t.length) t 0 0 st from rfl,
    hg, hiLoop_none_step cfg _ _ _ 0 0 st (by omega) (findMatch0_none cfg _ st h01.1),
    hiLoop_none_step cfg _ _ _ 1 0 st (by omega) (findMatch1_none cfg _ st h01.2)]
  exact hiLoop_quiet cfg _ _ st hq 14 2 g rfl (by omega) (by omega)

open Inline in
theorem processPlaceholders_nofind (stash : List StashItem) (f : Nat) (t : Str) (p : Node)
    (h : find phPrefix t = none) (ht : t ≠ []) (hp : p.text = none) :
    processPlaceholders stash (f + 1) t false p true = some ([], { p with text := some t, textAtomic := false }) := by
  have hne : t.isEmpty = false := by cases t with | nil => exact absurd rfl ht | cons a b => rfl
  simp only [processPlaceholders, hne, Bool.false_eq_true, if_false, ppLoop, Nat.not_lt_zero, gt_iff_lt,
    List.drop_zero, h, linkText, hp, Node.truthy, Bool.not_true]
  simp

/-- the placeholder text of the first stashed block -/
def PH : Str := Fenced.placeholder 0

open Inline Settled in
/-- the paragraph that holds the placeholder is settled -/
theorem settled_phPara (cfg : Inline.Cfg) (st : St) : Settled cfg st (Block.mkText "p" PH) := by
  refine .mk _ ?_ (by intro c hc; simp [Block.mkText, Node.el] at hc)
  intro v hv
  subst hv
  have h1 := handleInlineTop_quiet cfg PH v.st (by unfold InlineRef.Quiet01; decide) (by unfold InlineRef.Quiet; decide)
  have h2 := processPlaceholders_nofind v.st.stash (v.st.stash.length + 1) PH
    { Block.mkText "p" PH with text := none, textAtomic := false } (by decide) (by decide) rfl
  have htr : Node.truthy (some PH) = true := by decide
  simp only [visitChild, Block.mkText, Node.el, htr, Bool.not_false, Bool.and_self, if_true, Option.getD_some, h1,
    ppTop] at h2 ⊢
  rw [h2]
  simp [Node.truthy]

theorem dispatch_nl (tab : Nat) (pb : Block.PB) (refs : Block.Refs) (parent : Node) (r : Str) (rest : List Str) :
    Block.dispatch tab pb [] refs parent ('\n' :: r) rest = some (Block.emptyP refs parent ('\n' :: r) rest) := by
  simp [Block.dispatch, startsWith]

/-- **The block parser on the text the preprocessor leaves**: one paragraph with the placeholder -/
theorem parseBlocks_ph (tab : Nat) (htab : 0 < tab) (f : Nat) :
    Block.parseBlocks tab (f + 4) [] [] (Node.el "div") ['\n' :: PH, ['\n']] =
      some ((Node.el "div").append (Block.mkText "p" PH), []) := by
  have hpl : Block.PlainLine PH := ⟨⟨0, Char.ofNat 2, "wzxhzdk:0".toList ++ [Char.ofNat 3], by decide, by decide, by decide⟩⟩
  have hd2 : ∀ (pb : Block.PB) rest, Block.dispatch tab pb [] [] (Node.el "div") PH rest =
      some ((Node.el "div").append (Block.mkText "p" PH), [], rest) := by
    intro pb rest
    have := Block.dispatch_plain tab pb [] [] (Node.el "div") rest PH [] 0 (Char.ofNat 2)
      ("wzxhzdk:0".toList ++ [Char.ofNat 3]) (by decide) (by decide) htab
      (by intro l hl; simp at hl; subst hl; exact hpl)
    rw [Block.joinLines_single] at this
    rw [this, show Block.refSearch PH = none by decide]
    have hb : isBlank PH = false := by decide
    have hl : lstrip PH = PH := by decide
    simp [Block.paraP, hb, hl, Block.isstate]
  rw [Block.parseBlocks, dispatch_nl]
  simp only []
  have he1 : Block.emptyP [] (Node.el "div") ('\n' :: PH) [['\n']] = (Node.el "div", [], [PH, ['\n']]) := by
    simp [Block.emptyP, Node.last?, Node.el]; decide
  rw [he1, Block.parseBlocks, hd2]
  simp only []
  rw [Block.parseBlocks, dispatch_nl]
  simp only []
  have he2 : Block.emptyP [] ((Node.el "div").append (Block.mkText "p" PH)) ['\n'] [] =
      ((Node.el "div").append (Block.mkText "p" PH), [], []) := by
    have hp : Block.preCode (Block.mkText "p" PH) = none := by
      have : (Block.mkText "p" PH).isTag "pre" = false := by
        simp only [Block.mkText, Node.isTag, Node.el]; decide
      simp [Block.preCode, this]
    simp [Block.emptyP, Node.last?, Node.append, hp]
  rw [he2, Block.parseBlocks]

theorem parseDocumentXT_ph (tab : Nat) (htab : 0 < tab) :
    BlockExt.parseDocumentXT false BlockExt.XCfg.core tab ('\n' :: (PH ++ ['\n', '\n', '\n'])) =
      some ((Node.el "div").append (Block.mkText "p" PH), []) := by
  have hsplit : splitS ['\n', '\n'] ('\n' :: (PH ++ ['\n', '\n', '\n'])) = ['\n' :: PH, ['\n']] := by decide
  unfold BlockExt.parseDocumentXT Block.parseChunk
  rw [hsplit, BlockExt.parseBlocksXT_false, BlockExt.parseBlocksX_core]
  obtain ⟨f, hf⟩ : ∃ f, BlockExt.fuelForX ('\n' :: (PH ++ ['\n', '\n', '\n'])).length = f + 4 :=
    ⟨2 * ('\n' :: (PH ++ ['\n', '\n', '\n'])).length + 6, by unfold BlockExt.fuelForX; omega⟩
  rw [hf]
  exact parseBlocks_ph tab htab f

/-! ### the preprocessors -/

theorem ne_of_pred {p : Char → Bool} {c x : Char} (h : p c = true) (hx : p x = false) : c ≠ x := by
  intro e; subst e; rw [h] at hx; cases hx

open InlineRef in
theorem inkE_nl (b R : Str) : ∀ b0 a0, inkE b0 a0 (b ++ '\n' :: R) = (inkE b0 a0 b && inkE false false R) := by
  induction b with
  | nil => intro b0 a0; simp [inkE]
  | cons c r ih =>
    intro b0 a0
    by_cases hc : c = '\n'
    · simp [inkE, hc, ih, Bool.and_assoc]
    · simp [inkE, hc, ih]

open InlineRef in
theorem inkE_inkLine (l : Str) (hnl : l.all Block.notNl = true) (hany : l.any (· != ' ') = true) :
    inkE false false l = true := by
  have := inkE_line l [] false false hnl
  rw [List.append_nil] at this
  rw [this]
  simp [inkE, hany]

open InlineRef in
theorem inkE_body (b : Str) (h : (lines b).all lineOK = true) : inkE false false b = true := by
  have := inkE_joinLines (lines b) (fun l hl => by
    have hn : '\n' ∉ l := Letters.mem_lines_no_nl hl
    refine ⟨List.all_eq_true.2 (fun c hc => ?_), ?_⟩
    · have : c ≠ '\n' := fun e => hn (e ▸ hc)
      simp [Block.notNl, this]
    · have := List.all_eq_true.1 h l hl
      simp only [lineOK, Bool.or_eq_true] at this
      rcases this with h1 | h1
      · exact Or.inl (List.isEmpty_iff.1 h1)
      · exact Or.inr h1)
  rwa [Py.lines_joinLines] at this

open InlineRef in
/-- the first preprocessor leaves a text alone that has no character it rewrites and no line of spaces -/
theorem normalize_src (tab : Nat) (s : Str)
    (hmem : ∀ c ∈ s, c ≠ Normalize.STX ∧ c ≠ Normalize.ETX ∧ c ≠ '\r' ∧ c ≠ '\t')
    (hl : inkE false false s = true) : Normalize.normalize tab s = s ++ ['\n', '\n'] := by
  have h1 : Normalize.stripCtl s = s := by
    rw [Normalize.stripCtl_eq_filter, List.filter_eq_self]
    intro c hc
    have := hmem c hc
    simp [Normalize.notCtl, this.1, this.2.1]
  have h2 : Normalize.nlAux false s = s := Normalize.nlAux_id _ (fun c hc => (hmem c hc).2.2.1)
  have h3 : expandtabsAux tab 0 (s ++ ['\n', '\n']) = s ++ ['\n', '\n'] := by
    apply Normalize.expandtabsAux_id
    intro c hc
    rcases List.mem_append.1 hc with hc | hc
    · exact (hmem c hc).2.2.2
    · have : c = '\n' := by simpa using hc
      subst this; decide
  rw [Normalize.normalize_eq, h1, h2, h3]
  have := (wsLinesAux_inkE s).2 0 (by simpa using hl)
  simpa using this

theorem fenceOK_facts {n : Nat} {ch : Char} {lang b : Str} (h : FenceOK n ch lang b = true) :
    (ch = '~' ∨ ch = '`') ∧ 3 ≤ n ∧ LangOK lang = true ∧ noCloseLine (List.replicate n ch) b = true ∧
      b.all srcCh = true ∧ (lines b).all lineOK = true := by
  simp only [FenceOK, Bool.and_eq_true, Bool.or_eq_true, beq_iff_eq, decide_eq_true_eq] at h
  obtain ⟨⟨⟨⟨⟨h1, h2⟩, h3⟩, h4⟩, h5⟩, h6⟩ := h
  exact ⟨h1.symm, h2, h3, h4, h5, h6⟩

theorem langChar_srcCh {c : Char} (h : isLangChar c = true) : srcCh c = true := by
  have h1 : c ≠ '<' := ne_of_pred h (by decide)
  have h2 : c ≠ Char.ofNat 2 := ne_of_pred h (by decide)
  have h3 : c ≠ Char.ofNat 3 := ne_of_pred h (by decide)
  have h4 : c ≠ '\t' := ne_of_pred h (by decide)
  have h5 : c ≠ '\r' := ne_of_pred h (by decide)
  simp [srcCh, h1, h2, h3, h4, h5]

/-- the characters of the printed block -/
theorem printFence_chars {n : Nat} {ch : Char} {lang b : Str} (h : FenceOK n ch lang b = true) :
    ∀ c ∈ printFence n ch lang b, c = '\n' ∨ srcCh c = true := by
  obtain ⟨hch, _, hl, _, hb, _⟩ := fenceOK_facts h
  intro c hc
  simp only [printFence, List.mem_append, List.mem_cons, List.mem_replicate] at hc
  have hchs : srcCh ch = true := by rcases hch with rfl | rfl <;> decide
  rcases hc with (⟨_, rfl⟩ | hc) | rfl | hc | rfl | ⟨_, rfl⟩
  · exact Or.inr hchs
  · exact Or.inr (langChar_srcCh (List.all_eq_true.1 (langOK_facts hl).1 c hc))
  · exact Or.inl rfl
  · exact Or.inr (List.all_eq_true.1 hb c hc)
  · exact Or.inl rfl
  · exact Or.inr hchs

theorem fenceLine_ink (n : Nat) (ch : Char) (lang : Str) (hch : ch = '~' ∨ ch = '`') (hn : 3 ≤ n)
    (hl : lang.all isLangChar = true) :
    (List.replicate n ch ++ lang).all Block.notNl = true ∧ (List.replicate n ch ++ lang).any (· != ' ') = true := by
  obtain ⟨m, rfl⟩ : ∃ m, n = m + 1 := ⟨n - 1, by omega⟩
  constructor
  · rw [List.all_append, Bool.and_eq_true]
    constructor
    · apply List.all_eq_true.2
      intro c hc
      rw [(List.mem_replicate.1 hc).2]
      rcases hch with rfl | rfl <;> decide
    · apply List.all_eq_true.2
      intro c hc
      have : c ≠ '\n' := ne_of_pred (List.all_eq_true.1 hl c hc) (by decide)
      simp [Block.notNl, this]
  · have : (ch != ' ') = true := by rcases hch with rfl | rfl <;> decide
    simp [List.replicate_succ, this]

open InlineRef in
theorem printFence_inkE {n : Nat} {ch : Char} {lang b : Str} (h : FenceOK n ch lang b = true) :
    inkE false false (printFence n ch lang b) = true := by
  obtain ⟨hch, hn, hl, _, _, hlines⟩ := fenceOK_facts h
  have h1 := fenceLine_ink n ch lang hch hn (langOK_facts hl).1
  have h2 := fenceLine_ink n ch [] hch hn rfl
  rw [List.append_nil] at h2
  unfold printFence
  rw [inkE_nl, inkE_nl, inkE_inkLine _ h1.1 h1.2, inkE_inkLine _ h2.1 h2.2, inkE_body b hlines]
  rfl

/-- **The preprocessors** on a printed block: the text becomes the placeholder, the stash holds the HTML -/
theorem prepareX_fence (cfg : Pipeline.Cfg) {n : Nat} {ch : Char} {lang b : Str} (h : FenceOK n ch lang b = true) :
    PipelineX.prepareX { fencedCode := true } cfg (printFence n ch lang b) =
      .ok ('\n' :: (PH ++ ['\n', '\n', '\n']), [blockHtmlA [] [] lang (b ++ ['\n'])]) := by
  obtain ⟨hch, hn, hl, hb, _, _⟩ := fenceOK_facts h
  have hnorm : Normalize.normalize cfg.tab (printFence n ch lang b) = printFence n ch lang b ++ ['\n', '\n'] := by
    apply normalize_src _ _ _ (printFence_inkE h)
    intro c hc
    rcases printFence_chars h c hc with rfl | hs
    · decide
    · exact ⟨ne_of_pred hs (by decide), ne_of_pred hs (by decide), ne_of_pred hs (by decide),
        ne_of_pred hs (by decide)⟩
  have hext : Extract.extract ('\n' :: (PH ++ ['\n', '\n', '\n'])) = '\n' :: (PH ++ ['\n', '\n', '\n']) :=
    InlineRef.extract_no_amp _ (by decide)
  simp only [PipelineX.prepareX, Bool.false_and, Bool.false_eq_true, if_false, if_true, hnorm,
    fencedRunA_block n ch lang b hch hn hl hb]
  rw [show placeholder 0 = PH from rfl, hext]

/-! ### the stashed HTML -/

theorem escAttr_lang {lang : Str} (h : lang.all isLangChar = true) : Ser.escAttrHtml lang = lang := by
  have := Ser.esc1_body true false lang [] (fun c hc => by
    have hp := List.all_eq_true.1 h c hc
    have h1 : c ≠ '&' := ne_of_pred hp (by decide)
    have h2 : c ≠ '<' := ne_of_pred hp (by decide)
    have h3 : c ≠ '>' := ne_of_pred hp (by decide)
    have h4 : c ≠ '"' := ne_of_pred hp (by decide)
    have h5 : c ≠ '\n' := ne_of_pred hp (by decide)
    simp [Ser.plain, h1, h2, h3, h4, h5])
  rw [Ser.onepass_attr']
  simpa [Ser.esc1] using this

/-- the HTML that `FencedBlockPreprocessor` stores is the documented HTML -/
theorem blockHtml_spec {lang : Str} (h : lang.all isLangChar = true) (b : Str) :
    blockHtmlA [] [] lang (b ++ ['\n']) = specFence lang b := by
  rw [blockHtml_eq, escAttr_lang h, Code.fenceEscape_onepass]
  unfold specFence
  simp only [List.append_assoc, List.cons_append, List.nil_append]

theorem stx_fenceEscape1 (s : Str) (h : Post.STX ∉ s) : Post.STX ∉ Code.fenceEscape1 s := by
  induction s with
  | nil => simp [Code.fenceEscape1]
  | cons c r ih =>
    have hc : c ≠ Post.STX := fun e => h (by simp [e])
    have hr : Post.STX ∉ r := fun e => h (by simp [e])
    simp only [Code.fenceEscape1, List.mem_append, not_or]
    refine ⟨?_, ih hr⟩
    unfold Code.fesc1Char
    split
    · decide
    · split
      · decide
      · split
        · decide
        · split
          · decide
          · simpa using hc.symm

theorem specFence_stx {n : Nat} {ch : Char} {lang b : Str} (h : FenceOK n ch lang b = true) :
    Post.STX ∉ specFence lang b := by
  obtain ⟨_, _, hl, _, hb, _⟩ := fenceOK_facts h
  have h1 : Post.STX ∉ lang := fun hm =>
    ne_of_pred (List.all_eq_true.1 (langOK_facts hl).1 _ hm) (by decide) rfl
  have h2 : Post.STX ∉ b ++ ['\n'] := by
    intro hm
    rcases List.mem_append.1 hm with hm | hm
    · exact ne_of_pred (List.all_eq_true.1 hb _ hm) (by decide) rfl
    · exact absurd hm (by decide)
  have h3 := stx_fenceEscape1 _ h2
  have l1 : Post.STX ∉ "<pre><code".toList := by decide
  have l2 : Post.STX ∉ " class=\"language-".toList := by decide
  have l3 : Post.STX ∉ "</code></pre>".toList := by decide
  have l4 : Post.STX ≠ '"' := by decide
  have l5 : Post.STX ≠ '>' := by decide
  unfold specFence
  intro hm
  simp only [List.mem_append, List.mem_cons] at hm
  rcases hm with hm | hm | hm
  · exact l1 hm
  · split at hm
    · cases hm
    · simp only [List.mem_append, List.mem_cons, List.not_mem_nil, or_false] at hm
      rcases hm with hm | hm | hm
      · exact l2 hm
      · exact h1 hm
      · exact l4 hm
  · rcases hm with hm | hm | hm
    · exact l5 hm
    · exact h3 hm
    · exact l3 hm

theorem specFence_head (lang b : Str) : ∃ r, specFence lang b = '<' :: 'p' :: 'r' :: 'e' :: '>' :: r := ⟨_, rfl⟩

theorem specFence_last (lang b : Str) : (specFence lang b).getLast? = some '>' := by
  unfold specFence
  rw [← List.append_assoc, ← List.cons_append, ← List.append_assoc]
  rw [List.getLast?_append]
  rfl

theorem strip_specFence (lang b : Str) : strip (specFence lang b) = specFence lang b := by
  apply strip_eq_self
  · intro c hc
    obtain ⟨r, hr⟩ := specFence_head lang b
    rw [hr] at hc
    have : c = '<' := by simpa using hc.symm
    subst this; decide
  · intro c hc
    rw [specFence_last] at hc
    have : c = '>' := (Option.some.inj hc).symm
    subst this; decide

theorem blockLevel_specFence (lang b : Str) :
    Post.isBlockLevelHtml TreeProc.defaultBlockLevel (specFence lang b) = true := by
  obtain ⟨r, hr⟩ := specFence_head lang b
  rw [hr]
  have hg : Post.blockLevelGroup ('<' :: 'p' :: 'r' :: 'e' :: '>' :: r) = some ['p', 'r', 'e'] := by
    simp [Post.blockLevelGroup, spanLen_cons]
  unfold Post.isBlockLevelHtml
  rw [hg]
  decide

/-- **The end of `convert`** on the serialised placeholder paragraph -/
theorem finishX_fence (cfg : Pipeline.Cfg) (hbl : cfg.blockLevel = TreeProc.defaultBlockLevel)
    {n : Nat} {ch : Char} {lang b : Str} (h : FenceOK n ch lang b = true) :
    PipelineX.finishX { fencedCode := true } cfg [specFence lang b]
      ("<div>".toList ++ ('\n' :: "<p>".toList ++ PH ++ "</p>".toList ++ ['\n']) ++ "</div>\n".toList) =
      .ok (specFence lang b) := by
  have hstx := specFence_stx h
  have hpass1 : Post.subPass TreeProc.defaultBlockLevel [specFence lang b] 0 ("<p>".toList ++ PH ++ "</p>".toList) =
      specFence lang b := by
    have := StashAtomic.subPass_wrapped TreeProc.defaultBlockLevel [specFence lang b] 0 (specFence lang b) [] [] rfl
      (by simp)
    rw [blockLevel_specFence, if_pos rfl] at this
    have e : "<p>".toList ++ PH ++ "</p>".toList =
        [] ++ (Probe.pOpen ++ (Probe.htmlPlaceholder 0 ++ (Probe.pClose ++ []))) := by decide
    rw [e, this]
    simp [Post.subPass]
  have hpass2 : Post.subPass TreeProc.defaultBlockLevel [specFence lang b] 0 (specFence lang b) = specFence lang b := by
    have := StashAtomic.subPass_prefix TreeProc.defaultBlockLevel [specFence lang b] [] (specFence lang b) hstx
      (by
        intro a b' hab hne
        apply StashAtomic.alt1_none_of_drop3
        intro hh
        have hm : Post.STX ∈ (b' ++ []).drop 3 := by
          cases hd : (b' ++ []).drop 3 with
          | nil => rw [hd] at hh; cases hh
          | cons x t => rw [hd] at hh; simp at hh; simp [hh]
        have hm2 : Post.STX ∈ b' := by
          rw [List.append_nil] at hm; exact List.mem_of_mem_drop hm
        exact hstx (by rw [hab]; exact List.mem_append_right _ hm2))
    simpa [Post.subPass] using this
  have hne : specFence lang b ≠ "<p>".toList ++ PH ++ "</p>".toList := by
    obtain ⟨r, hr⟩ := specFence_head lang b
    rw [hr]; intro e
    have e2 : some 'r' = ("<p>".toList ++ PH ++ "</p>".toList)[2]? := by rw [← e]; rfl
    exact absurd e2 (by decide)
  have hraw : Post.rawHtml TreeProc.defaultBlockLevel [specFence lang b] (Post.rawHtmlFuel [specFence lang b])
      ("<p>".toList ++ PH ++ "</p>".toList) = some (specFence lang b) := by
    show Post.rawHtml _ _ (2 + 1 + 1) _ = _
    rw [Post.rawHtml]
    simp only [List.isEmpty_cons, Bool.false_eq_true, if_false, hpass1, hne]
    rw [Post.rawHtml]
    simp only [List.isEmpty_cons, Bool.false_eq_true, if_false, hpass2, if_true]
  simp only [PipelineX.finishX, InlineRef.topLevelStrip_div, InlineRef.strip_paragraph, PipelineX.postX, hbl, hraw,
    Option.map_some, Bool.false_eq_true, if_false, InlineRef.ampSub_id _ hstx, strip_specFence]

/-! ### the whole pipeline -/

/-- **`Markdown(extensions=['fenced_code']).convert`** on a printed fenced block -/
theorem convertX_fence (cfg : Pipeline.Cfg) (hbl : cfg.blockLevel = TreeProc.defaultBlockLevel) (htab : 0 < cfg.tab)
    {n : Nat} {ch : Char} {lang b : Str} (h : FenceOK n ch lang b = true) :
    PipelineX.convertX { fencedCode := true } cfg (printFence n ch lang b) = .ok (specFence lang b) := by
  obtain ⟨hch, hn, hl, _, _, _⟩ := fenceOK_facts h
  have hchars := printFence_chars h
  have h1 : (printFence n ch lang b).contains '<' = false := by
    cases hc : (printFence n ch lang b).contains '<' with
    | false => rfl
    | true =>
      rcases hchars _ (List.contains_iff_mem.1 hc) with e | e
      · exact absurd e (by decide)
      · exact absurd e (by decide)
  have h2 : Normalize.isBlankDoc (printFence n ch lang b) = false := by
    rw [Normalize.isBlankDoc_eq_all]
    cases hb : (printFence n ch lang b).all isSpace with
    | false => rfl
    | true =>
      have hm : ch ∈ printFence n ch lang b := by
        unfold printFence
        exact List.mem_append_left _ (List.mem_append_left _ (List.mem_replicate.2 ⟨by omega, rfl⟩))
      have := List.all_eq_true.mp hb _ hm
      rcases hch with rfl | rfl <;> exact absurd this (by decide)
  have hprep := prepareX_fence cfg h
  rw [blockHtml_spec (langOK_facts hl).1] at hprep
  have hparse := parseDocumentXT_ph cfg.tab htab
  have hset : Settled.KidsSettled
      { esc := PipelineX.escX { fencedCode := true } cfg, refs := (PipelineX.refsX { fencedCode := true } []).reverse }
      { html := [specFence lang b] } ((Node.el "div").append (Block.mkText "p" PH)) := by
    intro c hc
    have : c = Block.mkText "p" PH := by simpa [Node.append, Node.el] using hc
    subst this
    exact settled_phPara _ _
  have hrun := Settled.run_settled _ _ [specFence lang b] hset
  have hrunX := InlineX.runX_core
    { esc := PipelineX.escX { fencedCode := true } cfg, refs := (PipelineX.refsX { fencedCode := true } []).reverse }
    ((BlockExt.footnotesOf []).map (·.1))
    ((Node.el "div").append (Block.mkText "p" PH)) [specFence lang b]
  rw [hrun] at hrunX
  have hun := Escape.unescapeTree_prettyDoc PH PH (by decide) (by decide)
  have hser := Escape.serialize_prettyDoc cfg.fmt PH (by decide)
  rw [show Ser.escCdata PH = PH by decide] at hser
  have hfin := finishX_fence cfg hbl h
  have hcore : PipelineX.Exts.blockCfg { fencedCode := true } = BlockExt.XCfg.core := rfl
  simp only [PipelineX.convertX, h1, h2, PipelineX.Exts.unsupported, Bool.false_eq_true, if_false, PipelineX.treeX,
    hprep, hcore, hparse, PipelineX.table_core]
  simp only [InlineX.xcCore] at hrunX
  rw [hrunX]
  simp only [Option.map_some, InlineX.lift, hbl, Escape.prettify_paragraph, hun, hser, hfin]

end MdVerif.FenceDoc
