/-
Helper lemmas for `Props/C07X.lean`, `nl2br` with line feeds in the text — inline stage.  After the escape pass the
`nl` entry of the pattern table (`SubstituteTagInlineProcessor('\n', 'br')`, the last entry) replaces every line feed
of the residue by the placeholder of a stashed `br` element; `__processPlaceholders` then makes the `br` elements
children of the paragraph, each with the (coded) text of the following line as its tail.  Core Lean only.
-/
import MdVerif.Lemmas.EscXInline

namespace MdVerif.EscX
open Py Inline InlineX Escape

/-! ### vocabulary -/

/-- number of line feeds -/
def nlCount : Str → Nat
  | [] => 0
  | c :: r => if c = '\n' then nlCount r + 1 else nlCount r

/-- the stash entries the `nl` pattern makes -/
def brStash (t : Str) : List StashItem := List.replicate (nlCount t) (.node (mkEl "br"))

/-- the text after the escape pass and the `nl` pass: the escapable characters are placeholders `n, n+1, …`, the line
    feeds placeholders `k, k+1, …` -/
def resid2 (esc : List Char) : Nat → Nat → Str → Str
  | _, _, [] => []
  | n, k, c :: r =>
    if esc.contains c then placeholder n ++ resid2 esc (n + 1) k r
    else if c = '\n' then placeholder k ++ resid2 esc n (k + 1) r
    else c :: resid2 esc n k r

theorem nl_not_mem_placeholder (n : Nat) : '\n' ∉ placeholder n :=
  fun h => (phChar_facts (phChar_of_mem_placeholder h)).2.2.2.2.2.2.2 rfl

/-! ### the `nl` entry -/

theorem applyPatternX_nl_none (xc : XCfg) (hiX : HIX) (pi : Nat) (A : Str) (x : XSt)
    (ht : xc.table[pi]? = some .nl) (h : '\n' ∉ A) :
    applyPatternX xc hiX pi A 0 x = some (A, false, 0, x) := by
  simp [applyPatternX, ht, findX, find_nl_none h]

theorem applyPatternX_nl_found (xc : XCfg) (hiX : HIX) (pi : Nat) (A R : Str) (x : XSt)
    (ht : xc.table[pi]? = some .nl) (h : '\n' ∉ A) :
    applyPatternX xc hiX pi (A ++ '\n' :: R) 0 x =
      some (A ++ placeholder x.st.stash.length ++ R, true, 0,
        { x with st := { x.st with stash := x.st.stash ++ [.node (mkEl "br")] } }) := by
  have hf : find ['\n'] (A ++ '\n' :: R) = some A.length := by
    have := find_prefix_after (ph := '\n') (pt := []) A R h
    simpa using this
  have hd : pyDrop (A ++ '\n' :: R) ((A.length : Int) + 1) = R := by
    have := pyDrop_append (A ++ ['\n']) R
    simpa using this
  simp only [applyPatternX, ht, findX, Nat.not_lt_zero, if_false, List.drop_zero, hf, Nat.zero_add]
  simp [mkEl, hiNodeX, hiOptX, hiNodesX, Node.truthy, stashX, stashNode, hd]

/-- the `nl` pass: every line feed of the residue becomes the placeholder of a `br`, one iteration of the loop each -/
theorem nl_passX (xc : XCfg) (hiX : HIX) (pi : Nat) (hpi : pi < xc.table.length) (ht : xc.table[pi]? = some .nl)
    (hnl : '\n' ∉ xc.cfg.esc) (r : Str) :
    ∀ (A : Str) (n : Nat) (x : XSt) (g : Nat), '\n' ∉ A →
      hiLoopX xc.table.length (applyPatternX xc hiX) (g + nlCount r + 1) (A ++ resid xc.cfg.esc n r) pi 0 x =
      hiLoopX xc.table.length (applyPatternX xc hiX) g (A ++ resid2 xc.cfg.esc n x.st.stash.length r) (pi + 1) 0
        { x with st := { x.st with stash := x.st.stash ++ brStash r } } := by
  induction r with
  | nil =>
    intro A n x g hA
    simp only [resid, resid2, nlCount, brStash, List.replicate_zero, Nat.add_zero, List.append_nil]
    rw [hiLoopX_step _ _ g A pi 0 x hpi _ _ _ _ (applyPatternX_nl_none xc hiX pi A x ht hA)]
    simp
  | cons c r ih =>
    intro A n x g hA
    by_cases h : c ∈ xc.cfg.esc
    · have hc : c ≠ '\n' := fun e => hnl (e ▸ h)
      have hA' : '\n' ∉ A ++ placeholder n := by
        intro hh; rcases List.mem_append.1 hh with hh | hh
        · exact hA hh
        · exact nl_not_mem_placeholder _ hh
      have := ih (A ++ placeholder n) (n + 1) x g hA'
      simp only [resid, resid2, nlCount, brStash, List.contains_eq_mem, h, decide_true, if_true, hc, if_false,
        List.append_assoc] at this ⊢
      exact this
    · by_cases hc : c = '\n'
      · subst hc
        have hA' : '\n' ∉ A ++ placeholder x.st.stash.length := by
          intro hh; rcases List.mem_append.1 hh with hh | hh
          · exact hA hh
          · exact nl_not_mem_placeholder _ hh
        have hres : resid xc.cfg.esc n ('\n' :: r) = '\n' :: resid xc.cfg.esc n r := by simp [resid, h]
        rw [hres, show nlCount ('\n' :: r) = nlCount r + 1 by simp [nlCount],
          show g + (nlCount r + 1) + 1 = (g + nlCount r + 1) + 1 by omega,
          hiLoopX_step _ _ _ _ pi 0 x hpi _ _ _ _ (applyPatternX_nl_found xc hiX pi A _ x ht hA)]
        simp only [if_true]
        have := ih (A ++ placeholder x.st.stash.length) n
          { x with st := { x.st with stash := x.st.stash ++ [.node (mkEl "br")] } } g hA'
        rw [this]
        simp [resid2, h, brStash, nlCount, List.replicate_succ, List.append_assoc]
      · have hA' : '\n' ∉ A ++ [c] := by
          intro hh; rcases List.mem_append.1 hh with hh | hh
          · exact hA hh
          · have e : '\n' = c := by simpa using hh
            exact hc e.symm
        have := ih (A ++ [c]) n x g hA'
        simp only [resid, resid2, nlCount, brStash, List.contains_eq_mem, h, decide_false, Bool.false_eq_true,
          if_false, hc, List.append_assoc, List.singleton_append] at this ⊢
        exact this

/-- skipping `k` table entries that find nothing -/
theorem hiLoopX_skip (count : Nat) (ap : Nat → Str → Nat → XSt → Option (Str × Bool × Nat × XSt)) (D : Str)
    (x : XSt) (g : Nat) :
    ∀ (k pi : Nat), (∀ j, pi ≤ j → j < pi + k → j < count ∧ ap j D 0 x = some (D, false, 0, x)) →
      hiLoopX count ap (g + k) D pi 0 x = hiLoopX count ap g D (pi + k) 0 x := by
  intro k
  induction k with
  | zero => intro pi _; rfl
  | succ k ih =>
    intro pi h
    obtain ⟨h1, h2⟩ := h pi (Nat.le_refl _) (by omega)
    rw [show g + (k + 1) = (g + k) + 1 by omega, hiLoopX_step _ _ _ D pi 0 x h1 _ _ _ _ h2]
    simp only [Bool.false_eq_true, if_false]
    rw [ih (pi + 1) (fun j hj1 hj2 => h j (by omega) (by omega))]
    congr 1; omega

/-! ### the table with `nl` -/

theorem table_nl_last (fn wl : Bool) : (table fn wl true)[(table fn wl true).length - 1]? = some .nl := by
  cases fn <;> cases wl <;> rfl

theorem table_mid_not_nl (fn wl : Bool) :
    (((table fn wl true).take ((table fn wl true).length - 1)).drop 2).all (fun k => laterK k && k != .nl) = true := by
  cases fn <;> cases wl <;> decide

theorem table_get_mid (fn wl : Bool) (pi : Nat) (h2 : 2 ≤ pi) (hlt : pi < (table fn wl true).length - 1) (k : PatK)
    (h : (table fn wl true)[pi]? = some k) : laterK k = true ∧ k ≠ .nl := by
  have : k ∈ ((table fn wl true).take ((table fn wl true).length - 1)).drop 2 := by
    obtain ⟨j, rfl⟩ : ∃ j, pi = 2 + j := ⟨pi - 2, by omega⟩
    have : (((table fn wl true).take ((table fn wl true).length - 1)).drop 2)[j]? = some k := by
      rw [List.getElem?_drop, List.getElem?_take]
      simp [hlt, h]
    exact List.mem_of_getElem? this
  have := List.all_eq_true.1 (table_mid_not_nl fn wl) k this
  simpa using this

/-! ### `__handleInline` -/

theorem nlCount_add_escCount_le (esc : List Char) (t : Str) :
    escCount esc t + nlCount t ≤ (escAll esc t).length := by
  induction t with
  | nil => simp [escCount, stashOf, nlCount]
  | cons c r ih =>
    by_cases h : c ∈ esc
    · rw [escAll_cons_mem h]
      simp only [escCount, stashOf, nlCount, List.contains_eq_mem, h, decide_true, if_true, List.length_cons] at ih ⊢
      split <;> omega
    · rw [escAll_cons_not_mem h]
      simp only [escCount, stashOf, nlCount, List.contains_eq_mem, h, decide_false, Bool.false_eq_true, if_false,
        List.length_cons] at ih ⊢
      split <;> omega

/-- **`__handleInline` over the table with `nl`, on a fully escaped text** -/
theorem handleInlineX_escAll_nl (fn wl : Bool) (cfg : Inline.Cfg) (keys : List Str) (f : Nat) (t : Str) (x : XSt)
    (hnl : '\n' ∉ cfg.esc)
    (m0 : '\\' ∈ cfg.esc) (mt : '`' ∈ cfg.esc) (m1 : '[' ∈ cfg.esc) (m2 : '!' ∈ cfg.esc) (m3 : '*' ∈ cfg.esc)
    (m4 : '_' ∈ cfg.esc) (hamp : '&' ∉ t) (hbr : find [' ', ' ', '\n'] t = none) :
    handleInlineX { cfg := cfg, table := table fn wl true, fnKeys := keys } (f + 1) (escAll cfg.esc t) 0 x =
      some (resid2 cfg.esc x.st.stash.length (x.st.stash.length + escCount cfg.esc t) t,
        { x with st := { x.st with stash := x.st.stash ++ stashOf cfg.esc t ++ brStash t } }) := by
  obtain ⟨hlo, hhi⟩ := table_length fn wl true
  generalize hxc : ({ cfg := cfg, table := table fn wl true, fnKeys := keys } : XCfg) = xc
  have hcfg : xc.cfg = cfg := by rw [← hxc]
  have htab : xc.table = table fn wl true := by rw [← hxc]
  have hle := nlCount_add_escCount_le cfg.esc t
  have hfuel : xc.table.length + (escAll cfg.esc t).length + 2 ≤ loopFuelX xc.table.length (escAll cfg.esc t).length :=
    fuel_bound _ _ (by rw [htab]; omega)
  -- fuel: 1 (pattern 0) + escapes + 1 + (count - 3) inert + line feeds + 1 + 1 (exit)
  obtain ⟨y, hy⟩ : ∃ y, loopFuelX xc.table.length (escAll cfg.esc t).length =
      ((((y + 1) + nlCount t + 1) + (xc.table.length - 3)) + escCount cfg.esc t + 1) + 1 :=
    ⟨loopFuelX xc.table.length (escAll cfg.esc t).length - escCount cfg.esc t - nlCount t - xc.table.length - 1, by
      rw [htab] at hfuel ⊢; omega⟩
  simp only [handleInlineX]
  rw [hy, hiLoopX_step _ _ _ _ 0 0 x (by rw [htab]; omega) _ _ _ _
    (applyPatternX_zero_none xc _ 0 _ x (by rw [htab]; exact table_zero fn wl true) (btFind_escAll m0 mt t))]
  simp only [Bool.false_eq_true, if_false, Nat.zero_add]
  have h1 := escape_passX xc (fun d p s => handleInlineX xc f d p s) (by rw [htab]; omega)
    (by rw [htab]; exact table_one fn wl true) (by rw [hcfg]; exact m0) t [] x
    (((y + 1) + nlCount t + 1) + (xc.table.length - 3)) (by simp)
  simp only [List.nil_append, hcfg] at h1
  rw [h1]
  -- the entries 2 … count - 2
  have hInert := inert_resid m1 m2 m3 m4 t hamp x.st.stash.length
  rw [hiLoopX_skip _ _ _ _ _ (xc.table.length - 3) 2 (by
    intro j hj1 hj2
    have hjlt : j < xc.table.length := by omega
    refine ⟨hjlt, ?_⟩
    obtain ⟨k, hk⟩ : ∃ k, xc.table[j]? = some k := ⟨xc.table[j], List.getElem?_eq_getElem hjlt⟩
    have hk' := hk
    rw [htab] at hk'
    obtain ⟨hl, hne⟩ := table_get_mid fn wl j hj1 (by rw [htab] at hj2; omega) k hk'
    exact applyPatternX_later xc _ j k _ _ hk hl hInert (find_break_resid t hbr _) (fun e => absurd e hne))]
  -- the `nl` entry
  have hlast : 2 + (xc.table.length - 3) = xc.table.length - 1 := by rw [htab]; omega
  rw [hlast]
  have h2 := nl_passX xc (fun d p s => handleInlineX xc f d p s) (xc.table.length - 1) (by rw [htab]; omega)
    (by rw [htab]; exact table_nl_last fn wl) (by rw [hcfg]; exact hnl) t [] x.st.stash.length
    { x with st := { x.st with stash := x.st.stash ++ stashOf cfg.esc t } } (y + 1) (by simp)
  simp only [List.nil_append, hcfg] at h2
  rw [h2]
  have hexit : xc.table.length - 1 + 1 = xc.table.length := by rw [htab]; omega
  rw [hexit]
  simp [hiLoopX, escCount, List.append_assoc]

/-! ### `__processPlaceholders` on the result -/

/-- `linkText(text)` on the pair (result so far — reversed —, parent), for a plain `str` in text position -/
def link (s : Str) (st : List Node × Node) : List Node × Node := linkText s false true st.1 st.2

theorem link_nil (st : List Node × Node) : link [] st = st := by
  simp [link, linkText]

theorem link_link (x y : Str) (st : List Node × Node) : link y (link x st) = link (x ++ y) st := by
  cases x with
  | nil => simp [link_nil]
  | cons a x =>
    cases y with
    | nil => simp [link_nil]
    | cons b y =>
      obtain ⟨res, par⟩ := st
      cases res with
      | nil =>
        simp only [link, linkText_text, appendText_appendText]
      | cons l rest =>
        obtain ⟨tag, attrs, text, ta, children, tail, tla⟩ := l
        rcases tail with _ | _ | ⟨h, tl⟩ <;> simp [link, linkText, Node.truthy]

/-- what the `while data` loop of `__processPlaceholders` does with the rest `r` of the text, `B` being the plain
    characters read since the last placeholder -/
def ppOut (esc : List Char) : Str → Str → List Node × Node → List Node × Node
  | B, [], st => link B st
  | B, c :: r, st =>
    if esc.contains c then ppOut esc [] r (link (escCode c) (link B st))
    else if c = '\n' then ppOut esc [] r (mkEl "br" :: (link B st).1, (link B st).2)
    else ppOut esc (B ++ [c]) r st

/-- one turn of the loop at a placeholder whose stash entry is a string -/
theorem ppLoop_step_str (S : List StashItem) (nested : Node → Option Node) (data : Str) (g start : Nat)
    (res : List Node) (parent : Node)
    (off : Nat) (id : Str) (phEnd : Nat) (s : Str) (h1 : start ≤ data.length)
    (h2 : find phPrefix (data.drop start) = some off) (h3 : findPh data (start + off) = (some id, phEnd))
    (h4 : stashGet S id = some (.str s)) :
    ppLoop S nested data false true (g + 1) start res parent =
      ppLoop S nested data false true g phEnd
        (link s (link (Inline.slice data start (start + off)) (res, parent))).1
        (link s (link (Inline.slice data start (start + off)) (res, parent))).2 := by
  have hle : ¬ start > data.length := by omega
  simp only [ppLoop, hle, if_false, h2, h3, Option.bind_some, h4]
  by_cases hi : start + off > 0
  · simp [hi, link]
  · have h0 : start = 0 ∧ off = 0 := by omega
    simp [h0.1, h0.2, Inline.slice, link, linkText]

/-- one turn of the loop at a placeholder whose stash entry is an element -/
theorem ppLoop_step_node (S : List StashItem) (nested : Node → Option Node) (data : Str) (g start : Nat)
    (res : List Node) (parent : Node)
    (off : Nat) (id : Str) (phEnd : Nat) (n n' : Node) (h1 : start ≤ data.length)
    (h2 : find phPrefix (data.drop start) = some off) (h3 : findPh data (start + off) = (some id, phEnd))
    (h4 : stashGet S id = some (.node n)) (h5 : nested n = some n') :
    ppLoop S nested data false true (g + 1) start res parent =
      ppLoop S nested data false true g phEnd
        (n' :: (link (Inline.slice data start (start + off)) (res, parent)).1)
        (link (Inline.slice data start (start + off)) (res, parent)).2 := by
  have hle : ¬ start > data.length := by omega
  simp only [ppLoop, hle, if_false, h2, h3, Option.bind_some, h4, h5]
  by_cases hi : start + off > 0
  · simp [hi, link]
  · have h0 : start = 0 ∧ off = 0 := by omega
    simp [h0.1, h0.2, Inline.slice, link, linkText]

theorem ppLoop_end' (S : List StashItem) (nested : Node → Option Node) (data : Str) (g start : Nat)
    (res : List Node) (parent : Node)
    (h1 : start ≤ data.length) (h2 : find phPrefix (data.drop start) = none) :
    ppLoop S nested data false true (g + 1) start res parent =
      some ((link (data.drop start) (res, parent)).1.reverse, (link (data.drop start) (res, parent)).2) := by
  have hle : ¬ start > data.length := by omega
  simp [ppLoop, hle, h2, link]

theorem ppLoop_resid2 (esc : List Char) (hnle : '\n' ∉ esc) (S : List StashItem) (nested : Node → Option Node)
    (hbr : nested (mkEl "br") = some (mkEl "br")) (r : Str) :
    ∀ (P B : Str) (n k : Nat) (res : List Node) (parent : Node) (g : Nat), STX ∉ B → STX ∉ r →
      (∀ i, i < escCount esc r → S[n + i]? = (stashOf esc r)[i]?) →
      (∀ j, j < nlCount r → S[k + j]? = some (.node (mkEl "br"))) →
      ppLoop S nested (P ++ B ++ resid2 esc n k r) false true (g + escCount esc r + nlCount r + 1) P.length res parent =
        some ((ppOut esc B r (res, parent)).1.reverse, (ppOut esc B r (res, parent)).2) := by
  induction r with
  | nil =>
    intro P B n k res parent g hB _ _ _
    have hd : (P ++ B).drop P.length = B := by simp
    simp only [resid2, List.append_nil, ppOut]
    rw [ppLoop_end' _ _ _ _ _ _ _ (by simp) (by rw [hd]; exact find_none_of_head hB), hd]
  | cons c r ih =>
    intro P B n k res parent g hB hr hS1 hS2
    have hr' : STX ∉ r := fun h => hr (List.mem_cons_of_mem _ h)
    -- the common part of the two placeholder cases
    have hcommon : ∀ (q : Nat) (X : Str),
        find phPrefix ((P ++ B ++ placeholder q ++ X).drop P.length) = some B.length ∧
        findPh (P ++ B ++ placeholder q ++ X) (P.length + B.length) = (some (pad4 q), (P ++ B ++ placeholder q).length) ∧
        Inline.slice (P ++ B ++ placeholder q ++ X) P.length (P.length + B.length) = B := by
      intro q X
      have hdrop : (P ++ B ++ placeholder q ++ X).drop P.length = B ++ phPrefix ++ ((pad4 q ++ [ETX]) ++ X) := by
        rw [placeholder_eq]; simp [List.append_assoc]
      refine ⟨by rw [hdrop]; exact find_prefix_after B _ hB, ?_, ?_⟩
      · have hph := findPh_placeholder (P ++ B) q X
        rw [List.length_append] at hph
        exact hph
      · have : (P ++ B ++ placeholder q ++ X).take (P.length + B.length) = P ++ B := by
          rw [← List.length_append, List.append_assoc (P ++ B)]; exact List.take_left' rfl
        rw [Inline.slice, this]; simp
    by_cases hc : c ∈ esc
    · have hcount : escCount esc (c :: r) = escCount esc r + 1 := by simp [escCount, stashOf, hc]
      have hst : stashOf esc (c :: r) = .str (escCode c) :: stashOf esc r := by simp [stashOf, hc]
      have hSn : S[n]? = some (.str (escCode c)) := by
        have := hS1 0 (by omega)
        simpa [hst] using this
      have hS1' : ∀ i, i < escCount esc r → S[n + 1 + i]? = (stashOf esc r)[i]? := by
        intro i hi
        have := hS1 (i + 1) (by omega)
        rw [hst] at this
        simpa [Nat.add_assoc, Nat.add_comm 1 i] using this
      have hnl : c ≠ '\n' := fun e => hnle (e ▸ hc)
      have hres : resid2 esc n k (c :: r) = placeholder n ++ resid2 esc (n + 1) k r := by simp [resid2, hc]
      have hnlc : nlCount (c :: r) = nlCount r := by simp [nlCount, hnl]
      have hS2' : ∀ j, j < nlCount r → S[k + j]? = some (.node (mkEl "br")) :=
        fun j hj => hS2 j (by omega)
      generalize hX : resid2 esc (n + 1) k r = X at *
      obtain ⟨hfind, hph, hslice⟩ := hcommon n X
      have hdata : P ++ B ++ resid2 esc n k (c :: r) = (P ++ B) ++ placeholder n ++ X := by
        rw [hres]; simp [List.append_assoc]
      rw [hdata, hcount, hnlc,
        show g + (escCount esc r + 1) + nlCount r + 1 = (g + escCount esc r + nlCount r + 1) + 1 by omega,
        ppLoop_step_str S nested _ _ P.length res parent B.length (pad4 n) _ (escCode c) (by simp) hfind hph
          (by rw [stashGet_pad4]; exact hSn), hslice]
      have := ih (P ++ B ++ placeholder n) [] (n + 1) k (link (escCode c) (link B (res, parent))).1
        (link (escCode c) (link B (res, parent))).2 g (by simp) hr' hS1' hS2'
      simp only [List.append_nil] at this
      rw [hX] at this
      rw [this]
      simp [ppOut, hc]
    · have hcount : escCount esc (c :: r) = escCount esc r := by simp [escCount, stashOf, hc]
      have hst : stashOf esc (c :: r) = stashOf esc r := by simp [stashOf, hc]
      rw [hst, hcount] at hS1
      by_cases hnl : c = '\n'
      · subst hnl
        have hres : resid2 esc n k ('\n' :: r) = placeholder k ++ resid2 esc n (k + 1) r := by simp [resid2, hc]
        have hnlc : nlCount ('\n' :: r) = nlCount r + 1 := by simp [nlCount]
        have hSk : S[k]? = some (.node (mkEl "br")) := by
          have := hS2 0 (by omega)
          simpa using this
        have hS2' : ∀ j, j < nlCount r → S[k + 1 + j]? = some (.node (mkEl "br")) := by
          intro j hj
          have := hS2 (j + 1) (by omega)
          simpa [Nat.add_assoc, Nat.add_comm 1 j] using this
        generalize hX : resid2 esc n (k + 1) r = X at *
        obtain ⟨hfind, hph, hslice⟩ := hcommon k X
        have hdata : P ++ B ++ resid2 esc n k ('\n' :: r) = (P ++ B) ++ placeholder k ++ X := by
          rw [hres]; simp [List.append_assoc]
        rw [hdata, hcount, hnlc,
          show g + escCount esc r + (nlCount r + 1) + 1 = (g + escCount esc r + nlCount r + 1) + 1 by omega,
          ppLoop_step_node S nested _ _ P.length res parent B.length (pad4 k) _ (mkEl "br") (mkEl "br") (by simp)
            hfind hph (by rw [stashGet_pad4]; exact hSk) hbr, hslice]
        have := ih (P ++ B ++ placeholder k) [] n (k + 1) (mkEl "br" :: (link B (res, parent)).1)
          (link B (res, parent)).2 g (by simp) hr' hS1 hS2'
        simp only [List.append_nil] at this
        rw [hX] at this
        rw [this]
        simp [ppOut, hc]
      · have hcs : c ≠ STX := fun e => hr (e ▸ List.mem_cons_self)
        have hB' : STX ∉ B ++ [c] := by
          intro hh; rcases List.mem_append.1 hh with hh | hh
          · exact hB hh
          · have e : STX = c := by simpa using hh
            exact hcs e.symm
        have hnlc : nlCount (c :: r) = nlCount r := by simp [nlCount, hnl]
        rw [hnlc] at hS2
        have := ih P (B ++ [c]) n k res parent g hB' hr' hS1 hS2
        simp only [List.append_assoc, List.singleton_append] at this
        simp only [resid2, ppOut, List.contains_eq_mem, hc, decide_false, Bool.false_eq_true, if_false, hnl, hcount,
          hnlc, List.append_assoc]
        exact this

/-! ### the paragraph with its `br` children -/

/-- a `br` whose tail is `X` (no tail when `X` is empty) -/
def brTail (X : Str) : Node := if X.isEmpty then mkEl "br" else { mkEl "br" with tail := some X }

/-- one `br` per line feed of `t`, its tail being the coded text of the line that follows -/
def brNodes (esc : List Char) : Str → List Node
  | [] => []
  | c :: r => if c = '\n' then brTail (coded esc (Block.firstLine r)) :: brNodes esc r else brNodes esc r

theorem link_br (X : Str) (res : List Node) (par : Node) :
    link X (mkEl "br" :: res, par) = (brTail X :: res, par) := by
  cases X with
  | nil => simp [link, linkText, brTail]
  | cons a X => simp [link, linkText, brTail, mkEl, Node.truthy]

theorem ppOut_eq (esc : List Char) (hnle : '\n' ∉ esc) (t : Str) : ∀ (B : Str) (st : List Node × Node),
    ppOut esc B t st =
      ((brNodes esc t).reverse ++ (link (B ++ coded esc (Block.firstLine t)) st).1,
       (link (B ++ coded esc (Block.firstLine t)) st).2) := by
  induction t with
  | nil => intro B st; simp [ppOut, brNodes, Block.firstLine, coded]
  | cons c r ih =>
    intro B st
    rw [firstLine_cons]
    by_cases hc : c ∈ esc
    · have hnl : c ≠ '\n' := fun e => hnle (e ▸ hc)
      simp only [ppOut, List.contains_eq_mem, hc, decide_true, if_true, ih, brNodes, hnl, if_false, link_link,
        coded, List.nil_append, List.append_assoc]
    · by_cases hnl : c = '\n'
      · subst hnl
        simp only [ppOut, List.contains_eq_mem, hc, decide_false, Bool.false_eq_true, if_false, if_true, ih, brNodes,
          List.nil_append, link_br, coded, List.append_nil, List.reverse_cons, List.append_assoc,
          List.singleton_append]
      · simp only [ppOut, List.contains_eq_mem, hc, decide_false, Bool.false_eq_true, if_false, hnl, ih, brNodes,
          coded, List.append_assoc, List.singleton_append]

theorem procNode_br (pp : PP) : procNode pp (mkEl "br") = some (mkEl "br") := by
  simp [procNode, petTail, petText, procKids, mkEl, Node.truthy]

theorem count_le_resid2 (esc : List Char) (hnle : '\n' ∉ esc) (t : Str) (n k : Nat) :
    escCount esc t + nlCount t ≤ (resid2 esc n k t).length := by
  induction t generalizing n k with
  | nil => simp [escCount, stashOf, nlCount]
  | cons c r ih =>
    by_cases h : c ∈ esc
    · have hcn : c ≠ '\n' := fun e => hnle (e ▸ h)
      have h2 := ih (n + 1) k
      have p1 := placeholder_length_pos n
      have hc : escCount esc (c :: r) = escCount esc r + 1 := by simp [escCount, stashOf, h]
      have hn : nlCount (c :: r) = nlCount r := by simp [nlCount, hcn]
      have hr : resid2 esc n k (c :: r) = placeholder n ++ resid2 esc (n + 1) k r := by simp [resid2, h]
      rw [hc, hn, hr, List.length_append]; omega
    · have hc : escCount esc (c :: r) = escCount esc r := by simp [escCount, stashOf, h]
      by_cases hn : c = '\n'
      · subst hn
        have h3 := ih n (k + 1)
        have p2 := placeholder_length_pos k
        have hn' : nlCount ('\n' :: r) = nlCount r + 1 := by simp [nlCount]
        have hr : resid2 esc n k ('\n' :: r) = placeholder k ++ resid2 esc n (k + 1) r := by simp [resid2, h]
        rw [hc, hn', hr, List.length_append]; omega
      · have h1 := ih n k
        have hn' : nlCount (c :: r) = nlCount r := by simp [nlCount, hn]
        have hr : resid2 esc n k (c :: r) = c :: resid2 esc n k r := by simp [resid2, h, hn]
        rw [hc, hn', hr, List.length_cons]; omega

theorem resid2_eq_nil (esc : List Char) (t : Str) (n k : Nat) (h : resid2 esc n k t = []) : t = [] := by
  cases t with
  | nil => rfl
  | cons c r =>
    exfalso
    have p1 := placeholder_length_pos n
    have p2 := placeholder_length_pos k
    by_cases hc : c ∈ esc
    · rw [show resid2 esc n k (c :: r) = placeholder n ++ resid2 esc (n + 1) k r by simp [resid2, hc]] at h
      have := congrArg List.length h
      simp only [List.length_append, List.length_nil] at this; omega
    · by_cases hn : c = '\n'
      · subst hn
        rw [show resid2 esc n k ('\n' :: r) = placeholder k ++ resid2 esc n (k + 1) r by simp [resid2, hc]] at h
        have := congrArg List.length h
        simp only [List.length_append, List.length_nil] at this; omega
      · simp [resid2, hc, hn] at h

theorem ppTop_resid2 (esc : List Char) (hnle : '\n' ∉ esc) (t : Str) (hstx : STX ∉ t) (html : List Str)
    (parent : Node) :
    ppTop { stash := stashOf esc t ++ brStash t, html := html } (resid2 esc 0 (escCount esc t) t) false parent true =
      some (brNodes esc t, appendText parent (coded esc (Block.firstLine t))) := by
  simp only [ppTop]
  unfold processPlaceholders
  by_cases he : (resid2 esc 0 (escCount esc t) t).isEmpty = true
  · have ht : t = [] := resid2_eq_nil esc t _ _ (by simpa using he)
    subst ht
    simp [resid2, brNodes, Block.firstLine, coded, appendText_nil]
  · simp only [he, Bool.false_eq_true, if_false]
    have hle := count_le_resid2 esc hnle t 0 (escCount esc t)
    obtain ⟨g, hg⟩ : ∃ g, (resid2 esc 0 (escCount esc t) t).length + 2 = g + escCount esc t + nlCount t + 1 :=
      ⟨(resid2 esc 0 (escCount esc t) t).length + 1 - escCount esc t - nlCount t, by omega⟩
    rw [hg]
    have := ppLoop_resid2 esc hnle (stashOf esc t ++ brStash t)
      (procNode fun d a p t_1 =>
        processPlaceholders (stashOf esc t ++ brStash t) ((stashOf esc t ++ brStash t).length + 1) d a p t_1)
      (procNode_br _) t [] [] 0 (escCount esc t) [] parent g (by simp) hstx
      (by
        intro i hi
        simp only [Nat.zero_add]
        rw [List.getElem?_append_left (by simpa [escCount] using hi)])
      (by
        intro j hj
        have hlen : (stashOf esc t).length = escCount esc t := rfl
        rw [List.getElem?_append_right (by omega)]
        simp [brStash, hlen, hj])
    simp only [List.append_nil, List.nil_append, List.length_nil] at this
    rw [this, ppOut_eq esc hnle]
    simp [link, linkText_text]

/-- `<p>` with the coded first line as text and the `br` elements as children -/
def pNode (esc : List Char) (t : Str) : Node :=
  { Block.mkText "p" (coded esc (Block.firstLine t)) with children := brNodes esc t }

theorem firstLine_ne_nil {t : Str} (h : startsVisible t = true) : Block.firstLine t ≠ [] := by
  cases t with
  | nil => simp [startsVisible] at h
  | cons c r =>
    have hc : c ≠ '\n' := by
      intro e; subst e; simp [startsVisible] at h
    rw [firstLine_cons]; simp [hc]

/-- the paragraph, visited as a child of the root -/
theorem visitChildX_paragraph_nl (fn wl : Bool) (cfg : Inline.Cfg) (keys : List Str) (t : Str)
    (hv : startsVisible t = true) (hnle : '\n' ∉ cfg.esc)
    (m0 : '\\' ∈ cfg.esc) (mt : '`' ∈ cfg.esc) (m1 : '[' ∈ cfg.esc) (m2 : '!' ∈ cfg.esc) (m3 : '*' ∈ cfg.esc)
    (m4 : '_' ∈ cfg.esc) (hamp : '&' ∉ t) (hbr : find [' ', ' ', '\n'] t = none) (hstx : STX ∉ t) :
    visitChildX { cfg := cfg, table := table fn wl true, fnKeys := keys } (Block.mkText "p" (escAll cfg.esc t))
        { x := { st := { html := [] } } } =
      some (pNode cfg.esc t, [],
        { x := { st := { stash := stashOf cfg.esc t ++ brStash t, html := [] } },
          pushes := ((List.range (brNodes cfg.esc t).length).map (fun k => [0, k])).reverse }) := by
  have ht : t ≠ [] := by intro e; subst e; simp [startsVisible] at hv
  have h1 := handleInlineX_escAll_nl fn wl cfg keys
    ((escAll cfg.esc t).length + (table fn wl true).length + 3) t { st := { html := [] } }
    hnle m0 mt m1 m2 m3 m4 hamp hbr
  simp only [List.length_nil, List.nil_append, Nat.zero_add] at h1
  have h2 := ppTop_resid2 cfg.esc hnle t hstx []
    { Block.mkText "p" (escAll cfg.esc t) with text := none, textAtomic := false }
  simp only [visitChildX, handleInlineTopX, Block.mkText, Node.el, truthy_some (escAll_ne_nil ht), Bool.not_false,
    Bool.and_self, if_true, Option.getD_some, h1] at h2 ⊢
  rw [h2]
  have hcn : (coded cfg.esc (Block.firstLine t)).isEmpty = false := by
    cases hcd : coded cfg.esc (Block.firstLine t) with
    | nil => exact absurd hcd (coded_ne_nil (firstLine_ne_nil hv))
    | cons a b => rfl
  simp [appendText, hcn, Node.truthy, pNode, Block.mkText, Node.el]

/-! ### the stack loop -/

theorem set_self' {α : Type} (l : List α) (i : Nat) (c : α) (h : l[i]? = some c) : l.set i c = l := by
  induction l generalizing i with
  | nil => rfl
  | cons a l ih =>
    cases i with
    | zero => simp at h; subst h; rfl
    | succ i => simp at h; simp [ih i h]

theorem setAt_getAt' (root : Node) (p : Path) (cur : Node) (h : getAt root p = some cur) : setAt root p cur = root := by
  induction p generalizing root with
  | nil => simp only [getAt, Option.some.injEq] at h; subst h; rfl
  | cons i q ih =>
    simp only [getAt] at h
    cases hc : root.children[i]? with
    | none => rw [hc] at h; cases h
    | some c =>
      rw [hc] at h
      simp only at h
      simp only [setAt, hc, ih c h]
      cases root
      simp only [Node.mk.injEq, true_and]
      simp only at hc
      exact ⟨set_self' _ _ _ hc, trivial⟩

theorem remap_nil_map (p q : Path) : remap p [] q = q := by
  unfold remap
  split
  · split <;> rfl
  · rfl

theorem map_remap_nil (p : Path) (l : List Path) : l.map (remap p []) = l := by
  induction l with
  | nil => rfl
  | cons q rest ih => simp [remap_nil_map, ih]

/-- popping elements without children changes nothing -/
theorem runLoopX_leaves (xc : XCfg) (g2 : Nat) (hg2 : 0 < g2) (root : Node) (x : XSt) :
    ∀ (stack : List Path) (g : Nat), stack.length < g →
      (∀ p ∈ stack, ∃ cur, getAt root p = some cur ∧ cur.children = []) →
      runLoopX xc g2 g root stack x = some (root, x) := by
  obtain ⟨g2', rfl⟩ : ∃ k, g2 = k + 1 := ⟨g2 - 1, by omega⟩
  intro stack
  induction stack with
  | nil =>
    intro g hg _
    obtain ⟨g', rfl⟩ : ∃ k, g = k + 1 := ⟨g - 1, by simp at hg; omega⟩
    rfl
  | cons p stack ih =>
    intro g hg h
    obtain ⟨g', rfl⟩ : ∃ k, g = k + 1 := ⟨g - 1, by simp at hg; omega⟩
    obtain ⟨cur, hcur, hkids⟩ := h p List.mem_cons_self
    have hcur' : { cur with children := ([] : List Node).reverse } = cur := by
      cases cur; simp only [List.reverse_nil] at *; simp_all
    simp only [runLoopX, hcur, hkids, withIdx, visitLoopX, List.map_nil, List.nil_append, hcur',
      setAt_getAt' root p cur hcur]
    rw [map_remap_nil]
    exact ih g' (by simp at hg; omega) (fun q hq => h q (List.mem_cons_of_mem _ hq))

theorem brNodes_children (esc : List Char) (t : Str) : ∀ b ∈ brNodes esc t, b.children = [] := by
  induction t with
  | nil => intro b hb; simp [brNodes] at hb
  | cons c r ih =>
    intro b hb
    by_cases hc : c = '\n'
    · simp only [brNodes, hc, if_true, List.mem_cons] at hb
      rcases hb with rfl | hb
      · unfold brTail; split <;> rfl
      · exact ih b hb
    · simp only [brNodes, hc, if_false] at hb
      exact ih b hb

theorem brNodes_length_le (esc : List Char) (t : Str) : (brNodes esc t).length ≤ t.length := by
  induction t with
  | nil => simp [brNodes]
  | cons c r ih => by_cases hc : c = '\n' <;> simp [brNodes, hc] <;> omega

theorem length_le_escAll (esc : List Char) (t : Str) : t.length ≤ (escAll esc t).length := by
  induction t with
  | nil => simp
  | cons c r ih =>
    by_cases hc : c ∈ esc
    · rw [escAll_cons_mem hc]; simp only [List.length_cons]; omega
    · rw [escAll_cons_not_mem hc]; simp only [List.length_cons]; omega

/-- **`InlineProcessor.run` with the `nl` entry** on `<div><p>escaped text</p></div>` -/
theorem runX_paragraph_nl (fn wl : Bool) (cfg : Inline.Cfg) (keys : List Str) (t : Str)
    (hv : startsVisible t = true) (hnle : '\n' ∉ cfg.esc)
    (m0 : '\\' ∈ cfg.esc) (mt : '`' ∈ cfg.esc) (m1 : '[' ∈ cfg.esc) (m2 : '!' ∈ cfg.esc) (m3 : '*' ∈ cfg.esc)
    (m4 : '_' ∈ cfg.esc) (hamp : '&' ∉ t) (hbr : find [' ', ' ', '\n'] t = none) (hstx : STX ∉ t) :
    runX { cfg := cfg, table := table fn wl true, fnKeys := keys }
        ((Node.el "div").append (Block.mkText "p" (escAll cfg.esc t))) [] =
      some ((Node.el "div").append (pNode cfg.esc t),
        { st := { stash := stashOf cfg.esc t ++ brStash t, html := [] } }) := by
  have hvc := visitChildX_paragraph_nl fn wl cfg keys t hv hnle m0 mt m1 m2 m3 m4 hamp hbr hstx
  have hlen : t.length ≤ (escAll cfg.esc t).length := length_le_escAll cfg.esc t
  have hbl := brNodes_length_le cfg.esc t
  obtain ⟨n, hn⟩ : ∃ n, runFuel ((Node.el "div").append (Block.mkText "p" (escAll cfg.esc t))) =
      (n + (brNodes cfg.esc t).length + 1) + 1 := by
    refine ⟨runFuel ((Node.el "div").append (Block.mkText "p" (escAll cfg.esc t))) - (brNodes cfg.esc t).length - 2, ?_⟩
    simp only [runFuel, Node.append, Node.el, Block.mkText, List.nil_append, size, sizeList, Option.getD_some,
      Option.getD_none, List.length_nil]
    omega
  simp only [runX, hn]
  simp only [runLoopX, getAt, Node.append, Node.el, List.nil_append, withIdx, visitLoopX]
  rw [hvc]
  simp only [visitLoopX, List.map_nil, List.nil_append, List.reverse_cons, List.reverse_nil, setAt]
  rw [show ∀ L : List Path, (List.map (fun x => x) L ++ []) = L from fun L => by simp]
  apply runLoopX_leaves _ _ (by omega)
  · simp only [List.length_reverse, List.length_map, List.length_range]; omega
  · intro p hp
    simp only [List.mem_reverse, List.mem_map, List.mem_range] at hp
    obtain ⟨k, hk, rfl⟩ := hp
    refine ⟨(brNodes cfg.esc t)[k], ?_, brNodes_children cfg.esc t _ (List.getElem_mem hk)⟩
    simp [getAt, pNode, Block.mkText, Node.el, hk]

end MdVerif.EscX
