/-
Whole documents made of tokens of `Spec/HtmlFrag.lean` under the tokenizer model: such a document is in the domain,
and its event list is the list of the tokens' events followed by `close` (`events_of_toks`); the events of a block
`<tag attrs> body </tag>` at a line start form a `BalancedBlock` (`Lemmas/ExtractEv.lean`).  Core Lean only.
-/
import MdVerif.Lemmas.HtmlTokGo
import MdVerif.Model.ExtractText
import MdVerif.Props.C04

namespace MdVerif.HtmlTok
open Py Extract HtmlFrag
set_option linter.unusedSimpArgs false
set_option linter.unnecessarySimpa false

/-! ### whole documents made of tokens -/

theorem render_ne_nil (t : Tok) (h : t.ok = true) : t.render ≠ [] := by
  cases t with
  | text s =>
    simp only [Tok.ok, Bool.and_eq_true, Bool.not_eq_true', List.isEmpty_eq_false_iff] at h
    simpa [Tok.render] using h.1.1
  | _ => simp [Tok.render]

theorem toks_length_le : ∀ (ts : List Tok), toksOk ts = true → ts.length ≤ (renderToks ts).length := by
  intro ts
  induction ts with
  | nil => intro _; simp
  | cons t ts ih =>
    intro h
    obtain ⟨ht, hts, _⟩ := toksOk_cons h
    have := ih hts
    have := List.length_pos_iff.2 (render_ne_nil t ht)
    simp [renderToks]; omega

theorem renderToks_append (a b : List Tok) : renderToks (a ++ b) = renderToks a ++ renderToks b := by
  induction a with
  | nil => rfl
  | cons t a ih => simp [renderToks, ih]

theorem toksEvents_append (raw : Str) (a b : List Tok) (pre : Str) :
    toksEvents raw pre (a ++ b) = toksEvents raw pre a ++ toksEvents raw (pre ++ renderToks a) b := by
  induction a generalizing pre with
  | nil => simp [toksEvents, renderToks]
  | cons t a ih => simp [toksEvents, renderToks, ih]

theorem followOk_of_not_bare {t u : Tok} (h : isBare t = false) : followOk t u = true := by
  cases t <;> simp [isBare] at h <;> rfl

theorem toksOk_cons_of' {t : Tok} {ts : List Tok} (ht : t.ok = true) (hts : toksOk ts = true)
    (h : isText t = true → ∀ u r, ts = u :: r → isText u = false)
    (hf : ∀ c, t = .bare c → ∃ u r, ts = u :: r ∧ followOk t u = true) : toksOk (t :: ts) = true := by
  cases ts with
  | nil =>
    have hnb : isBare t = false := by
      cases hb : isBare t with
      | false => rfl
      | true =>
        cases t <;> simp [isBare] at hb
        rename_i c
        obtain ⟨u, r, he, _⟩ := hf c rfl
        cases he
    simp [toksOk, ht, hnb]
  | cons u r =>
    simp only [toksOk, Bool.and_eq_true, Bool.not_eq_true', Bool.and_eq_false_iff]
    refine ⟨⟨⟨ht, ?_⟩, ?_⟩, hts⟩
    · cases hx : isText t with
      | false => exact Or.inl rfl
      | true => exact Or.inr (h hx u r rfl)
    · cases hb : isBare t with
      | false => exact followOk_of_not_bare hb
      | true =>
        cases t <;> simp [isBare] at hb
        rename_i c
        obtain ⟨u', r', he, hfo⟩ := hf c rfl
        cases he; exact hfo

/-- a token that is not a bare `<` / `&` in front of a well-formed sequence -/
theorem toksOk_cons_of {t : Tok} {ts : List Tok} (ht : t.ok = true) (hts : toksOk ts = true)
    (h : isText t = true → ∀ u r, ts = u :: r → isText u = false) (hnb : isBare t = false := by rfl) :
    toksOk (t :: ts) = true :=
  toksOk_cons_of' ht hts h (by intro c hc; rw [hc] at hnb; simp [isBare] at hnb)

theorem toksOk_append_nontext : ∀ (a : List Tok) (u : Tok) (b : List Tok), toksOk a = true → toksOk (u :: b) = true →
    isText u = false → toksOk (a ++ u :: b) = true := by
  intro a
  induction a with
  | nil => intro u b _ h _; simpa using h
  | cons t a ih =>
    intro u b ha hb hu
    obtain ⟨ht, hts, hadj, hfol⟩ := toksOk_cons ha
    refine toksOk_cons_of' ht (ih u b hts hb hu) ?_ ?_
    · intro htx v r hv
      cases a with
      | nil => simp at hv; rw [← hv.1]; exact hu
      | cons w a' => simp at hv; exact hadj htx w a' rfl |> fun h => hv.1 ▸ h
    · intro c hc
      obtain ⟨w, a', ha', hfo⟩ := hfol c hc
      subst ha'
      exact ⟨w, a' ++ u :: b, rfl, hfo⟩

theorem toksOk_single {t : Tok} (ht : t.ok = true) (hnb : isBare t = false := by rfl) : toksOk [t] = true := by
  simp [toksOk, ht, hnb]

theorem toksOk_close_text (name s : Str) (hn : nameOk name = true) (hs : (Tok.text s).ok = true) :
    toksOk [.close name, .text s] = true :=
  toksOk_cons_of (t := .close name) hn (toksOk_single hs) (by intro h; cases h)

/-- a document that is the text of a token sequence lies in the domain of the model; its events are the events of the
    tokens, then the `close` -/
theorem events_of_toks (ts : List Tok) (h : toksOk ts = true) :
    events (renderToks ts) = some (toksEvents (renderToks ts) [] ts ++ [.close []]) := by
  have hlen := toks_length_le ts h
  obtain ⟨f, hf⟩ : ∃ f, (renderToks ts).length + 1 = (f + 1) + ts.length := ⟨(renderToks ts).length - ts.length, by omega⟩
  have hgo := go1_toks (renderToks ts) ts [] [] (f + 1) init h (by intro c hc; simp at hc)
  simp only [List.append_nil, List.nil_append, posOf_nil] at hgo
  unfold events
  rw [hf, hgo]
  simp [go1, consEvs, go2]


theorem blankLine_nn (p : Str) : blankLine (nn ++ p) = true := by
  simp [blankLine, nn, spanLen_cons]

theorem plain_text_ok (p : Str) (hp : plainOk p = true) (hne : p ≠ []) : (Tok.text p).ok = true := by
  simp only [plainOk, Bool.and_eq_true, Bool.not_eq_true'] at hp
  simp only [Tok.ok, Bool.and_eq_true, Bool.not_eq_true', List.isEmpty_eq_false_iff]
  exact ⟨⟨hne, hp.1⟩, hp.2⟩

theorem plain_append_nn (p : Str) (hp : plainOk p = true) : plainOk (p ++ nn) = true ∧ plainOk (nn ++ p) = true := by
  simp only [plainOk, Bool.and_eq_true, Bool.not_eq_true', List.contains_eq_mem, decide_eq_false_iff_not] at hp ⊢
  simp [nn, hp.1, hp.2]

/-- the stack condition, unpacked -/
theorem closesOk_spec {tag : Str} {body : List Tok} (h : closesOk tag body = true) :
    ∃ extra, stackRun [tag] body = some (extra ++ [tag]) ∧ tag ∉ extra := by
  unfold closesOk at h
  cases hs : stackRun [tag] body with
  | none => rw [hs] at h; cases h
  | some S =>
    rw [hs] at h
    simp only [Bool.and_eq_true, decide_eq_true_eq, Bool.not_eq_true', List.contains_eq_mem,
      decide_eq_false_iff_not] at h
    obtain ⟨ys, rfl⟩ := List.getLast?_eq_some_iff.1 h.1
    exact ⟨ys, rfl, by simpa using h.2⟩

/-- the extractor state after a document `p1 ¶ block ¶ p2` -/
theorem extract_block_state (p1 p2 name : Str) (attrs : List Attr) (trail : Str) (body : List Tok)
    (hp1 : plainOk p1 = true) (hp2 : plainOk p2 = true)
    (hopen : (Tok.open_ name attrs trail).ok = true) (hblock : isBlockLevelTag (lower name) = true)
    (hhr : lower name ≠ hrTag) (hbody : toksOk body = true) (hcl : closesOk (lower name) body = true) :
    extractText (p1 ++ nn ++ blockText name attrs trail body ++ nn ++ p2) =
      some { inraw := false, intail := false, stack := [], cache := [],
             cleandoc := [p1 ++ nn, ['\n'], placeholder 0, nn, nn ++ p2],
             stash := [blockText name attrs trail body ++ ['\n']] } := by
  -- the document as a token sequence
  let toks : List Tok := .text (p1 ++ nn) :: .open_ name attrs trail :: (body ++ (.close name :: [.text (nn ++ p2)]))
  have hnameok : nameOk name = true := by
    simp only [Tok.ok, Bool.and_eq_true] at hopen; exact hopen.1.1.1
  have hrender : renderToks toks = p1 ++ nn ++ blockText name attrs trail body ++ nn ++ p2 := by
    simp [toks, renderToks, renderToks_append, blockText, blockToks, Tok.render]
  have ht1 : (Tok.text (p1 ++ nn)).ok = true := plain_text_ok _ (plain_append_nn p1 hp1).1 (by simp [nn])
  have ht2 : (Tok.text (nn ++ p2)).ok = true := plain_text_ok _ (plain_append_nn p2 hp2).2 (by simp [nn])
  have htoks : toksOk toks = true := by
    refine toksOk_cons_of ht1 (toksOk_cons_of hopen ?_ (by intro h; cases h)) (by intro _ u r h; cases h; rfl)
    exact toksOk_append_nontext body (.close name) [.text (nn ++ p2)] hbody
      (toksOk_close_text _ _ hnameok ht2) rfl
  have hev := events_of_toks toks htoks
  rw [hrender] at hev
  -- the events
  generalize hdoc : p1 ++ nn ++ blockText name attrs trail body ++ nn ++ p2 = doc at hev ⊢
  have hpre1 : ([] : Str) ++ (Tok.text (p1 ++ nn)).render = (p1 ++ ['\n']) ++ ['\n'] := by simp [Tok.render, nn]
  have hals : atLineStart doc (posOf (([] : Str) ++ (Tok.text (p1 ++ nn)).render)) = true := by
    rw [hpre1]; exact atLineStart_after_nl doc _
  -- the prefix in front of the end tag
  have hlook : look doc (posOf (([] : Str) ++ (Tok.text (p1 ++ nn)).render ++ (Tok.open_ name attrs trail).render ++
      renderToks body)) (Tok.close name).render = true := by
    have : doc = (([] : Str) ++ (Tok.text (p1 ++ nn)).render ++ (Tok.open_ name attrs trail).render ++ renderToks body) ++
        ((Tok.close name).render ++ (nn ++ p2)) := by
      rw [← hdoc]; simp [blockText, blockToks, renderToks, renderToks_append, Tok.render]
    rw [this, look_posOf, blankLine_nn]
  obtain ⟨extra, hrun, hnot⟩ := closesOk_spec hcl
  have hcontent := content_of_stackRun doc body
    (([] : Str) ++ (Tok.text (p1 ++ nn)).render ++ (Tok.open_ name attrs trail).render) _ _ hrun
  -- the block's events form a balanced block
  have hbal : BalancedBlock (lower name)
      (tokEvent doc (posOf (([] : Str) ++ (Tok.text (p1 ++ nn)).render)) (.open_ name attrs trail) ::
        (toksEvents doc (([] : Str) ++ (Tok.text (p1 ++ nn)).render ++ (Tok.open_ name attrs trail).render) body ++
          [tokEvent doc (posOf (([] : Str) ++ (Tok.text (p1 ++ nn)).render ++ (Tok.open_ name attrs trail).render ++
            renderToks body)) (.close name)])) := by
    have hnhr : ¬ (lower name = ['h', 'r']) := hhr
    simp only [tokEvent, tagEvent, Bool.false_eq_true, if_false, hals, hblock, hnhr, decide_false]
    exact BalancedBlock.mk _ _ _ _ _ extra hcontent hnot
  have hblockText : evsText
      (tokEvent doc (posOf (([] : Str) ++ (Tok.text (p1 ++ nn)).render)) (.open_ name attrs trail) ::
        (toksEvents doc (([] : Str) ++ (Tok.text (p1 ++ nn)).render ++ (Tok.open_ name attrs trail).render) body ++
          [tokEvent doc (posOf (([] : Str) ++ (Tok.text (p1 ++ nn)).render ++ (Tok.open_ name attrs trail).render ++
            renderToks body)) (.close name)])) = blockText name attrs trail body := by
    have h1 := tokEvent_text doc (posOf (([] : Str) ++ (Tok.text (p1 ++ nn)).render)) _ hopen
    have h2 := evsText_toksEvents doc body
      (([] : Str) ++ (Tok.text (p1 ++ nn)).render ++ (Tok.open_ name attrs trail).render) hbody
    have h3 := tokEvent_text doc (posOf (([] : Str) ++ (Tok.text (p1 ++ nn)).render ++
      (Tok.open_ name attrs trail).render ++ renderToks body)) (.close name) hnameok
    simp only [evsText, List.map_cons, List.map_append, List.flatten_cons, List.flatten_append, List.map_nil,
      List.flatten_nil, List.append_nil] at h2 ⊢
    rw [h1, h2, h3]
    simp [blockText, blockToks, renderToks, renderToks_append]
  have hlast : lastBlankFollows
      (tokEvent doc (posOf (([] : Str) ++ (Tok.text (p1 ++ nn)).render)) (.open_ name attrs trail) ::
        (toksEvents doc (([] : Str) ++ (Tok.text (p1 ++ nn)).render ++ (Tok.open_ name attrs trail).render) body ++
          [tokEvent doc (posOf (([] : Str) ++ (Tok.text (p1 ++ nn)).render ++ (Tok.open_ name attrs trail).render ++
            renderToks body)) (.close name)])) = true := by
    rw [← List.cons_append]
    simp only [tokEvent]
    rw [lastBlankFollows_append_end, hlook]
  unfold extractText
  rw [hev]
  simp only [Option.map_some, Option.some.injEq]
  -- run the callbacks
  have hsplit : toksEvents doc [] toks ++ [Event.close []] =
      [.data (p1 ++ nn)] ++
      ((tokEvent doc (posOf (([] : Str) ++ (Tok.text (p1 ++ nn)).render)) (.open_ name attrs trail) ::
        (toksEvents doc (([] : Str) ++ (Tok.text (p1 ++ nn)).render ++ (Tok.open_ name attrs trail).render) body ++
          [tokEvent doc (posOf (([] : Str) ++ (Tok.text (p1 ++ nn)).render ++ (Tok.open_ name attrs trail).render ++
            renderToks body)) (.close name)])) ++ [.data (nn ++ p2), .close []]) := by
    simp [toks, toksEvents, toksEvents_append, tokEvent, List.append_assoc]
  rw [hsplit]
  unfold runEvents
  rw [runFrom_append, runFrom_append]
  have hst1 : runFrom init [.data (p1 ++ nn)] = { cleandoc := [p1 ++ nn] } := by
    simp [runFrom, step, handleData, init]
  rw [hst1, C04_block_once hbal _ rfl rfl rfl rfl, hblockText, hlast]
  simp [runFrom, step, handleData, handleClose, nn]

/-! ### inline tokens stay in the text -/

theorem step_inline (raw : Str) (pos : Pos) (t : Tok) (hin : inlineTok t = true) (st : ExSt)
    (hraw : st.inraw = false) (htail : st.intail = false) :
    step st (tokEvent raw pos t) = { st with cleandoc := st.cleandoc ++ [t.render] } := by
  cases t with
  | text s => simp [tokEvent, step, handleData, hraw, htail, Tok.render]
  | entity n => simp [tokEvent, step, handleEmpty, hraw, htail, Tok.render, entityrefText]
  | charref n => simp [tokEvent, step, handleEmpty, hraw, htail, Tok.render, charrefText]
  | comment b => simp [inlineTok] at hin
  | open_ n as tr =>
    simp only [inlineTok, Bool.not_eq_true'] at hin
    by_cases hh : lower n = ['h', 'r']
    · rw [hh] at hin; exact absurd hin (by decide)
    · simp [tokEvent, tagEvent, step, handleStart, handleEmpty, hraw, htail, hin, hh]
  | close n => simp [tokEvent, step, handleEnd, hraw]
  | selfClose n as tr =>
    simp only [inlineTok, Bool.not_eq_true'] at hin
    simp [tokEvent, tagEvent, step, handleEmpty, hraw, htail, hin]
  | bare c => simp [tokEvent, step, handleData, hraw, htail, Tok.render]

theorem run_inline (raw : Str) : ∀ (ts : List Tok) (pre : Str) (st : ExSt), ts.all inlineTok = true →
    st.inraw = false → st.intail = false →
    runFrom st (toksEvents raw pre ts) = { st with cleandoc := st.cleandoc ++ ts.map Tok.render } := by
  intro ts
  induction ts with
  | nil => intro pre st _ _ _; simp [toksEvents, runFrom]
  | cons t ts ih =>
    intro pre st hall hraw htail
    simp only [List.all_cons, Bool.and_eq_true] at hall
    rw [toksEvents, runFrom_cons, step_inline raw _ t hall.1 st hraw htail,
      ih (pre ++ t.render) { st with cleandoc := st.cleandoc ++ [t.render] } hall.2 hraw htail]
    simp

theorem flatten_map_render (ts : List Tok) : (ts.map Tok.render).flatten = renderToks ts := by
  induction ts with
  | nil => rfl
  | cons t ts ih => simp [renderToks, ih]

/-- the extractor state after a document made of inline tokens -/
theorem extract_inline_state (ts : List Tok) (hok : toksOk ts = true) (hin : ts.all inlineTok = true) :
    extractText (renderToks ts) = some { cleandoc := ts.map Tok.render } := by
  unfold extractText
  rw [events_of_toks ts hok]
  simp only [Option.map_some, Option.some.injEq]
  unfold runEvents
  rw [runFrom_append, run_inline _ ts [] init hin rfl rfl]
  simp [runFrom, step, handleClose, init]
end MdVerif.HtmlTok
