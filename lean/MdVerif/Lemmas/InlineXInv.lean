/-
A character that the inline stage does not introduce stays out of every string the inline stage handles.

`SafeC c`: `c` is none of the characters the inline processor writes itself (placeholders, escape tokens, the entity
spellings of `code_escape`, digits).  `DeepC c n`: `c` occurs in no text and no tail of `n` and its descendants;
`StashC c`: in no stashed string / element.  Every pattern (`findX_inv`) builds its element from parts of the text,
so on a `c`-free text with a `c`-free stash the found node is `c`-free and the stash unchanged.  Core Lean only.
-/
import MdVerif.Model.InlineX
import MdVerif.Lemmas.InlineFuel
import MdVerif.Lemmas.Code
import MdVerif.Lemmas.BlockExtStr

namespace MdVerif.InlineX
open Py Inline

/-- `c` is not a character the inline stage introduces -/
structure SafeC (c : Char) : Prop where
  stx : c ≠ STX
  etx : c ≠ ETX
  digit : isAsciiDigit c = false
  ph : c ∉ ['k', 'l', 'z', 'w', 'x', 'h', ':', 'd']
  ent : c ∉ ['&', 'a', 'm', 'p', ';', 'l', 't', 'g']

def optC (c : Char) (t : Option Str) : Bool :=
  match t with
  | some s => !s.contains c
  | none => true

mutual
/-- `c` occurs in no text / tail of the element and its descendants -/
def deepC (c : Char) : Node → Bool
  | ⟨_, _, text, _, children, tail, _⟩ => optC c text && optC c tail && deepCs c children
def deepCs (c : Char) : List Node → Bool
  | [] => true
  | n :: r => deepC c n && deepCs c r
end

def DeepC (c : Char) (n : Node) : Prop := deepC c n = true

def ItemC (c : Char) (it : StashItem) : Prop :=
  match it with
  | .str s => c ∉ s
  | .node n => DeepC c n

def StashC (c : Char) (stash : List StashItem) : Prop := ∀ it ∈ stash, ItemC c it

variable {c : Char}

theorem optC_iff (t : Option Str) : optC c t = true ↔ ∀ s, t = some s → c ∉ s := by
  cases t with
  | none => simp [optC]
  | some s => simp [optC, List.contains_iff_mem]

theorem deepCs_iff (l : List Node) : deepCs c l = true ↔ ∀ n ∈ l, deepC c n = true := by
  induction l with
  | nil => simp [deepCs]
  | cons a r ih => simp [deepCs, ih]

theorem deepC_eq (n : Node) : deepC c n = (optC c n.text && optC c n.tail && deepCs c n.children) := by
  cases n; simp [deepC]

theorem DeepC_iff (n : Node) :
    DeepC c n ↔ (∀ s, n.text = some s → c ∉ s) ∧ (∀ s, n.tail = some s → c ∉ s) ∧ ∀ k ∈ n.children, DeepC c k := by
  unfold DeepC
  rw [deepC_eq, Bool.and_eq_true, Bool.and_eq_true, optC_iff, optC_iff, deepCs_iff]
  exact and_assoc

theorem DeepC_mkEl (tag : String) : DeepC c (mkEl tag) := by
  rw [DeepC_iff]; refine ⟨?_, ?_, ?_⟩ <;> intro s h <;> cases h

theorem DeepC_append {p el : Node} (hp : DeepC c p) (he : DeepC c el) : DeepC c (p.append el) := by
  rw [DeepC_iff] at hp ⊢
  refine ⟨hp.1, hp.2.1, ?_⟩
  intro k hk
  simp only [Node.append, List.mem_append, List.mem_singleton] at hk
  rcases hk with hk | hk
  · exact hp.2.2 k hk
  · exact hk ▸ he

theorem DeepC_setLast {p el : Node} (hp : DeepC c p) (he : DeepC c el) : DeepC c (p.setLast el) := by
  rw [DeepC_iff] at hp ⊢
  refine ⟨hp.1, hp.2.1, ?_⟩
  intro k hk
  simp only [Node.setLast, List.mem_append, List.mem_singleton] at hk
  rcases hk with hk | hk
  · exact hp.2.2 k ((List.dropLast_prefix _).subset hk)
  · exact hk ▸ he

theorem DeepC_setAttr {n : Node} (a b : Str) (h : DeepC c n) : DeepC c (n.setAttr a b) := by
  unfold Node.setAttr
  split <;> (rw [DeepC_iff] at h ⊢; exact h)

/-- new text, tail and children -/
theorem DeepC_mk {n : Node} (text : Option Str) (ta : Bool) (kids : List Node) (tail : Option Str) (tla : Bool)
    (h1 : ∀ s, text = some s → c ∉ s) (h2 : ∀ s, tail = some s → c ∉ s) (h3 : ∀ k ∈ kids, DeepC c k) :
    DeepC c { n with text := text, textAtomic := ta, children := kids, tail := tail, tailAtomic := tla } := by
  rw [DeepC_iff]; exact ⟨h1, h2, h3⟩

theorem DeepC_setTextOrTail {p : Node} {text : Str} (hasLast : Bool) (hp : DeepC c p) (ht : c ∉ text) :
    DeepC c (setTextOrTail p hasLast text) := by
  unfold setTextOrTail
  split
  · exact hp
  · split
    · split
      · rename_i l hl
        apply DeepC_setLast hp
        have hlD : DeepC c l := ((DeepC_iff p).mp hp).2.2 l (List.mem_of_getLast? hl)
        rw [DeepC_iff] at hlD ⊢
        exact ⟨hlD.1, by intro s hs; cases hs; exact ht, hlD.2.2⟩
      · exact hp
    · rw [DeepC_iff] at hp ⊢
      exact ⟨by intro s hs; cases hs; exact ht, hp.2.1, hp.2.2⟩

/-! ### emphasis -/

theorem slice_notin {s : Str} (a b : Nat) (h : c ∉ s) : c ∉ Inline.slice s a b :=
  fun hm => h ((Inline.slice_infix s a b).subset hm)

theorem subTry_deep {b : List Str → EmItem → Nat → Option Node} {data : Str} {ch : Char} {idx : Nat}
    (hb : ∀ groups item i n, (∀ g ∈ groups, c ∉ g) → b groups item i = some n → DeepC c n) (hd : c ∉ data) :
    ∀ (items : List EmItem) (index : Nat) (s s' : SubSt), DeepC c s.parent →
      subTry b data ch idx items index s = some s' → DeepC c s'.parent := by
  intro items
  induction items with
  | nil => intro index s s' hs h; simp only [subTry] at h; cases h; exact hs
  | cons item rest ih =>
    intro index s s' hs h
    unfold subTry at h
    split at h
    · exact ih _ _ _ hs h
    · split at h
      · exact ih _ _ _ hs h
      · rename_i e groups hm
        have hinf := seqMatch_infix hm
        split at h
        · cases h
        · rename_i el hel
          have hel' := hb groups item index el (fun g hg hmem => hd ((hinf g hg).subset hmem)) hel
          exact ih _ _ _ (DeepC_append (DeepC_setTextOrTail _ hs (slice_notin _ _ hd)) hel') h

theorem subLoop_deep {b : List Str → EmItem → Nat → Option Node} {data : Str} {ch : Char} {idx : Nat}
    (hb : ∀ groups item i n, (∀ g ∈ groups, c ∉ g) → b groups item i = some n → DeepC c n) (hd : c ∉ data) :
    ∀ (g : Nat) (s s' : SubSt), DeepC c s.parent → subLoop b data ch idx g s = some s' → DeepC c s'.parent := by
  intro g
  induction g with
  | zero => intro s s' _ h; simp [subLoop] at h
  | succ g ih =>
    intro s s' hs h
    unfold subLoop at h
    split at h
    · split at h
      · split at h
        · cases h
        · rename_i s1 hs1
          have h1 := subTry_deep hb hd _ _ _ _ (by exact hs) hs1
          exact ih _ _ (by split <;> exact h1) h
      · exact ih _ _ (by exact hs) h
    · cases h; exact hs

theorem parseSub_deep {b : List Str → EmItem → Nat → Option Node} {data : Str} {ch : Char}
    (hb : ∀ groups item i n, (∀ g ∈ groups, c ∉ g) → b groups item i = some n → DeepC c n) (hd : c ∉ data)
    (parent : Node) (hasLast : Bool) (idx : Nat) (hp : DeepC c parent) {n : Node}
    (h : parseSub b data parent hasLast idx ch = some n) : DeepC c n := by
  unfold parseSub at h
  split at h
  · cases h
  · rename_i s hs
    injection h with h
    rw [← h]
    exact DeepC_setTextOrTail _ (subLoop_deep hb hd _ _ _ hp hs) (fun hm => hd ((List.drop_suffix _ _).subset hm))

theorem build_deep (ch : Char) : ∀ (f : Nat) (groups : List Str) (item : EmItem) (idx : Nat) (n : Node),
    (∀ g ∈ groups, c ∉ g) → build ch f groups item idx = some n → DeepC c n := by
  intro f
  induction f with
  | zero => intro groups item idx n _ h; simp [build] at h
  | succ f ih =>
    intro groups item idx n hg h
    have hget : ∀ j, c ∉ groups.getD j [] := by
      intro j
      rcases Nat.lt_or_ge j groups.length with hj | hj
      · have hm : groups.getD j [] ∈ groups := by
          rw [List.getD_eq_getElem?_getD, List.getElem?_eq_getElem hj]; exact List.getElem_mem hj
        exact hg _ hm
      · rw [List.getD_eq_getElem?_getD, List.getElem?_eq_none hj]; simp
    have hhead : groups.headD [] = groups.getD 0 [] := by cases groups <;> rfl
    have h0 : c ∉ groups.headD [] := hhead ▸ hget 0
    have hsub : ∀ (d : Str) (p : Node) (hl : Bool) (m : Node), c ∉ d → DeepC c p →
        parseSub (fun g i j => build ch f g i j) d p hl idx ch = some m → DeepC c m :=
      fun d p hl m hd hp hm => parseSub_deep (fun groups item i n hg' hb' => ih groups item i n hg' hb') hd p hl idx hp hm
    unfold build at h
    simp only at h
    split at h
    · exact hsub _ _ _ _ h0 (DeepC_mkEl _) h
    · split at h
      · cases h
      · rename_i el2 hel2
        have hD2 := hsub _ _ _ _ h0 (DeepC_mkEl _) hel2
        have hD1 : DeepC c ((mkEl item.tag1).append el2) := DeepC_append (DeepC_mkEl _) hD2
        split at h
        · rename_i a g1
          have h1 := hget 1
          simp only [List.getD_cons_succ, List.getD_cons_zero] at h1
          exact hsub _ _ _ _ h1 hD1 h
        · cases h; exact hD1
    · split at h
      · rename_i el1 el2 hel1 hel2
        cases h
        exact DeepC_append (hsub _ _ _ _ h0 (DeepC_mkEl _) hel1) (hsub _ _ _ _ (hget 1) (DeepC_mkEl _) hel2)
      · cases h

theorem emHandle_deep {data : Str} {i : Nat} {ch : Char} (hd : c ∉ data) :
    ∀ (items : List EmItem) (idx : Nat) el e, emHandle data i ch items idx = some (some (el, e)) → DeepC c el := by
  intro items
  induction items with
  | nil => intro idx el e h; simp [emHandle] at h
  | cons item rest ih =>
    intro idx el e h
    unfold emHandle at h
    split at h
    · rename_i e' groups hm
      have hinf := seqMatch_infix hm
      split at h
      · rename_i el' hel
        simp only [Option.some.injEq, Prod.mk.injEq] at h
        rw [← h.1]
        exact build_deep ch _ groups item idx el' (fun g hg hmem => hd ((hinf g hg).subset hmem)) hel
      · cases h
    · exact ih _ _ _ h

theorem emScan_deep {data : Str} {ch : Char} (hd : c ∉ data) :
    ∀ (suf : Str) (i : Nat) el s e, emScan data ch suf i = some (some (el, s, e)) → DeepC c el := by
  intro suf
  induction suf with
  | nil => intro i el s e h; simp [emScan] at h
  | cons x r ih =>
    intro i el s e h
    unfold emScan at h
    split at h
    · split at h
      · cases h
      · rename_i el' e' hx
        simp only [Option.some.injEq, Prod.mk.injEq] at h
        rw [← h.1]
        exact emHandle_deep hd _ _ _ _ hx
      · exact ih _ _ _ _ h
    · exact ih _ _ _ _ h

/-! ### strings -/

theorem mem_replaceAux {pat by' : Str} : ∀ (s : Str) (k : Nat) {x : Char}, x ∈ replaceAux pat by' k s → x ∈ s ∨ x ∈ by' := by
  intro s
  induction s with
  | nil => intro k x h; simp [replaceAux] at h
  | cons a r ih =>
    intro k x h
    cases k with
    | succ k =>
      simp only [replaceAux] at h
      rcases ih k h with h | h
      · exact Or.inl (List.mem_cons_of_mem _ h)
      · exact Or.inr h
    | zero =>
      simp only [replaceAux] at h
      split at h
      · rcases List.mem_append.mp h with h | h
        · exact Or.inr h
        · rcases ih _ h with h | h
          · exact Or.inl (List.mem_cons_of_mem _ h)
          · exact Or.inr h
      · rcases List.mem_cons.mp h with h | h
        · exact Or.inl (h ▸ List.mem_cons_self)
        · rcases ih _ h with h | h
          · exact Or.inl (List.mem_cons_of_mem _ h)
          · exact Or.inr h

theorem mem_replace {s pat by' : Str} {x : Char} (h : x ∈ replace s pat by') : x ∈ s ∨ x ∈ by' := by
  simp only [replace] at h
  split at h
  · exact Or.inl h
  · exact mem_replaceAux s 0 h

theorem codeEscape_notin (hs : SafeC c) {t : Str} (h : c ∉ t) : c ∉ Inline.codeEscape t := by
  intro hm
  simp only [Inline.codeEscape] at hm
  have hent := hs.ent
  rcases mem_replace hm with hm | hm
  · rcases mem_replace hm with hm | hm
    · rcases mem_replace hm with hm | hm
      · exact h hm
      · simp at hm hent; simp_all
    · simp at hm hent; simp_all
  · simp at hm hent; simp_all

theorem natToDec_notin (hs : SafeC c) (n : Nat) : c ∉ natToDec n := by
  intro hm
  have := natToDec_digits n c hm
  rw [hs.digit] at this; cases this

theorem pad4_notin (hs : SafeC c) (n : Nat) : c ∉ pad4 n := by
  intro hm
  simp only [pad4, List.mem_append, List.mem_replicate] at hm
  rcases hm with ⟨_, hm⟩ | hm
  · have := hs.digit; rw [hm] at this; simp [isAsciiDigit] at this
  · exact natToDec_notin hs n hm

theorem placeholder_notin (hs : SafeC c) (n : Nat) : c ∉ placeholder n := by
  intro hm
  simp only [placeholder, phPrefix, List.mem_append, List.mem_cons, List.mem_singleton, List.not_mem_nil, or_false] at hm
  rcases hm with (hm | hm) | hm
  · rcases hm with hm | hm
    · exact hs.stx hm
    · have hph := hs.ph
      simp at hm hph; simp_all
  · exact pad4_notin hs n hm
  · exact hs.etx hm

/-! ### what a pattern finds -/

/-- the node a pattern returns is `c`-free -/
def FoundC (c : Char) (f : Found) : Prop :=
  match f.node with
  | .none => True
  | .str s => c ∉ s
  | .el n => DeepC c n

theorem DeepC_text {tag : String} {text : Str} (h : c ∉ text) : DeepC c { mkEl tag with text := some text } := by
  unfold DeepC
  rw [deepC_eq]
  simp [mkEl, optC, deepCs, List.contains_iff_mem, h]

theorem DeepC_with_text {n : Node} {text : Str} (hn : DeepC c n) (h : c ∉ text) : DeepC c { n with text := some text } := by
  rw [DeepC_iff] at hn ⊢
  exact ⟨by intro s hs; cases hs; exact h, hn.2.1, hn.2.2⟩

theorem linkHandle_deep {cfg : Cfg} {stash : List StashItem} {pi : Nat} {data : Str} {mstart mend : Nat} {f : Found}
    (hd : c ∉ data) (h : linkHandle cfg stash pi data mstart mend = some f) : FoundC c f := by
  have hgt := getText_infix data mend
  unfold linkHandle at h
  revert h hgt
  generalize getText data mend = r
  obtain ⟨text, index, handled⟩ := r
  simp only
  intro h hgt
  have htext : c ∉ text := fun hm => hd (hgt.subset hm)
  split at h
  · cases h
  · split at h
    · revert h
      generalize getLink (unescape stash) data index = gl
      obtain ⟨href, title, idx, ok⟩ := gl
      simp only
      intro h
      split at h
      · cases h
      · cases h
        simp only [FoundC]
        split
        · split
          · exact DeepC_setAttr _ _ (DeepC_setAttr _ _ (DeepC_setAttr _ _ (DeepC_mkEl _)))
          · exact DeepC_setAttr _ _ (DeepC_setAttr _ _ (DeepC_mkEl _))
        · split
          · exact DeepC_setAttr _ _ (DeepC_setAttr _ _ (DeepC_text htext))
          · exact DeepC_setAttr _ _ (DeepC_text htext)
    · split at h
      · cases h
      · split at h
        · cases h
          simp only [FoundC]
        · cases h
          simp only [FoundC]
          split
          · split
            · exact DeepC_setAttr _ _ (DeepC_setAttr _ _ (DeepC_setAttr _ _ (DeepC_mkEl _)))
            · exact DeepC_setAttr _ _ (DeepC_setAttr _ _ (DeepC_mkEl _))
          · split
            · exact DeepC_with_text (DeepC_setAttr _ _ (DeepC_setAttr _ _ (DeepC_mkEl _))) htext
            · exact DeepC_with_text (DeepC_setAttr _ _ (DeepC_mkEl _)) htext

theorem linkScan_deep {cfg : Cfg} {stash : List StashItem} {pi : Nat} {data : Str} (hd : c ∉ data) :
    ∀ {suf : Str} {prev : Option Char} {i : Nat} {f : Found},
      linkScan cfg stash pi data prev suf i = some f → FoundC c f := by
  intro suf
  induction suf with
  | nil => intro prev i f h; simp [linkScan] at h
  | cons ch r ih =>
    intro prev i f h
    rw [linkScan_cons] at h
    split at h
    · rename_i f' hf'
      cases h
      unfold linkHere at hf'
      split at hf'
      · split at hf'
        · exact linkHandle_deep hd hf'
        · cases hf'
      · split at hf'
        · exact linkHandle_deep hd hf'
        · cases hf'
    · exact ih h

theorem btFind_group_infix {data : Str} {si : Nat} {m : BtMatch} (h : btFind data si = some m) : m.group <:+: data := by
  unfold btFind at h
  split at h
  · cases h
  · exact (btScan_infix h).trans (List.drop_suffix _ _).isInfix

/-- every core pattern: the found node is `c`-free on a `c`-free text, the inline stash is untouched -/
theorem findMatch_inv (hs : SafeC c) (cfg : Cfg) (pi : Nat) (data : Str) (si : Nat) (st : St) (hd : c ∉ data)
    {r : Option Found} {st' : St} (h : findMatch cfg pi data si st = some (r, st')) :
    st'.stash = st.stash ∧ ∀ f, r = some f → FoundC c f := by
  unfold findMatch at h
  simp only at h
  have hnone : ∀ {x : Option Found × St}, some (none, st) = some x → x.2.stash = st.stash ∧ ∀ f, x.1 = some f → FoundC c f := by
    intro x hx; cases hx; exact ⟨rfl, by intro f hf; cases hf⟩
  split at h
  · exact hnone h
  · split at h
    · -- backtick
      split at h
      · rename_i m hm
        have hg : c ∉ m.group := fun hmem => hd ((btFind_group_infix hm).subset hmem)
        split at h
        · cases h
          refine ⟨rfl, ?_⟩
          intro f hf; cases hf
          simp only [FoundC]
          have hce : c ∉ Inline.codeEscape (strip m.group) :=
            codeEscape_notin hs (fun hmem => hg ((BlockExt.stripP_infix _ _).subset hmem))
          unfold DeepC
          rw [deepC_eq]
          simp [mkEl, optC, deepCs, List.contains_iff_mem, hce]
        · cases h
          refine ⟨rfl, ?_⟩
          intro f hf; cases hf
          simp only [FoundC]
          intro hmem
          rcases mem_replace hmem with hmem | hmem
          · exact hg hmem
          · simp only [List.mem_cons, List.not_mem_nil, or_false] at hmem
            rcases hmem with hmem | hmem | hmem | hmem
            · exact hs.stx hmem
            · have := hs.digit; rw [hmem] at this; simp [isAsciiDigit] at this
            · have := hs.digit; rw [hmem] at this; simp [isAsciiDigit] at this
            · exact hs.etx hmem
      · exact hnone h
    · -- escape
      split at h
      · cases h
        refine ⟨rfl, ?_⟩
        intro f hf; cases hf
        rename_i i ch _
        by_cases he : cfg.esc.contains ch = true
        · simp only [FoundC, he, if_true]
          intro hmem
          simp only [List.mem_cons, List.mem_append, List.mem_singleton, List.not_mem_nil, or_false] at hmem
          rcases hmem with (hmem | hmem) | hmem
          · exact hs.stx hmem
          · exact natToDec_notin hs _ hmem
          · exact hs.etx hmem
        · simp only [FoundC, he, Bool.false_eq_true, if_false]
      · exact hnone h
    · -- linebreak
      split at h
      · cases h
        exact ⟨rfl, by intro f hf; cases hf; exact DeepC_mkEl _⟩
      · exact hnone h
    · -- entity
      split at h
      · cases h
        refine ⟨rfl, ?_⟩
        intro f hf; cases hf
        simp only [FoundC]
        intro hmem
        simp only [htmlPrefix, List.mem_append, List.mem_cons, List.mem_singleton, List.not_mem_nil, or_false] at hmem
        rcases hmem with (hmem | hmem) | hmem
        · rcases hmem with hmem | hmem
          · exact hs.stx hmem
          · have hph := hs.ph
            simp at hmem hph; simp_all
        · exact natToDec_notin hs _ hmem
        · exact hs.etx hmem
      · exact hnone h
    · -- not_strong
      split at h
      · cases h
        exact ⟨rfl, by intro f hf; cases hf; exact slice_notin _ _ hd⟩
      · exact hnone h
    · -- emphasis
      split at h
      · cases h
      · exact hnone h
      · rename_i el s e hx
        cases h
        exact ⟨rfl, by intro f hf; cases hf; exact emScan_deep hd _ _ _ _ _ hx⟩
    · split at h
      · cases h
      · exact hnone h
      · rename_i el s e hx
        cases h
        exact ⟨rfl, by intro f hf; cases hf; exact emScan_deep hd _ _ _ _ _ hx⟩
    · exact hnone h
    · exact hnone h
    · exact hnone h
    · -- links
      split at h
      · cases h
        refine ⟨rfl, ?_⟩
        intro f hf
        exact linkScan_deep hd hf
      · exact hnone h

/-! ### the extension patterns -/

theorem wikiAt_infix : ∀ (suf : Str) {g : Str} {len : Nat}, wikiAt suf = some (g, len) → g <:+: suf
  | [], _, _, h => by simp [wikiAt] at h
  | [_], _, _, h => by simp [wikiAt] at h
  | a :: b :: r, g, len, h => by
    simp only [wikiAt] at h
    split at h
    · rename_i r' heq
      split at h
      · injection h with h
        injection h with h _
        rw [← h]
        injection heq with h1 heq
        injection heq with h2 h3
        rw [h3]
        exact List.IsInfix.trans (List.take_prefix _ _).isInfix
          (List.IsInfix.trans (List.suffix_cons _ _).isInfix (List.suffix_cons _ _).isInfix)
      · cases h
    · cases h

theorem wikiScan_infix : ∀ (suf : Str) (i : Nat) {g : Str} {s e : Nat}, wikiScan suf i = some (g, s, e) → g <:+: suf := by
  intro suf
  induction suf with
  | nil => intro i g s e h; simp [wikiScan] at h
  | cons a r ih =>
    intro i g s e h
    simp only [wikiScan] at h
    split at h
    · rename_i g' len hw
      injection h with h
      injection h with h _
      subst h
      exact wikiAt_infix _ hw
    · exact List.infix_cons (ih _ h)

theorem findX_inv (hs : SafeC c) (xc : XCfg) (k : PatK) (data : Str) (si : Nat) (x : XSt) (hd : c ∉ data)
    {r : Option Found} {x' : XSt} (h : findX xc k data si x = some (r, x')) :
    x'.st.stash = x.st.stash ∧ ∀ f, r = some f → FoundC c f := by
  cases k with
  | core i =>
    simp only [findX] at h
    split at h
    · cases h
    · rename_i f st hm
      injection h with h
      injection h with h1 h2
      subst h1; subst h2
      exact findMatch_inv hs xc.cfg i data si x.st hd hm
  | footnote =>
    simp only [findX] at h
    split at h
    · cases h; exact ⟨rfl, by intro f hf; cases hf⟩
    · split at h
      · rename_i id s0 e0 _
        cases h
        refine ⟨rfl, ?_⟩
        intro f hf; cases hf
        simp only [FoundC, fnRefNode]
        have ha : DeepC c ((({ mkEl "a" with text := some (natToDec (indexOf xc.fnKeys id + 1)) } : Node).setAttr
            "href".toList ('#' :: Footnotes.footnoteId id)).setAttr "class".toList "footnote-ref".toList) :=
          DeepC_setAttr _ _ (DeepC_setAttr _ _ (DeepC_text (natToDec_notin hs _)))
        have hsup := DeepC_setAttr (c := c) "id".toList (Footnotes.footnoteRefId id true x.fn).1 (DeepC_mkEl "sup")
        rw [DeepC_iff] at hsup ⊢
        refine ⟨hsup.1, hsup.2.1, ?_⟩
        intro k' hk'
        simp only [List.mem_singleton] at hk'
        exact hk' ▸ ha
      · cases h; exact ⟨rfl, by intro f hf; cases hf⟩
  | wikilink =>
    simp only [findX] at h
    split at h
    · cases h; exact ⟨rfl, by intro f hf; cases hf⟩
    · split at h
      · rename_i g s e hw
        cases h
        refine ⟨rfl, ?_⟩
        intro f hf; cases hf
        have hg : c ∉ strip g := fun hm =>
          hd (((BlockExt.stripP_infix _ _).trans ((wikiScan_infix _ _ hw).trans (List.drop_suffix _ _).isInfix)).subset hm)
        by_cases he : (strip g).isEmpty = true
        · simp [FoundC, wikiNode, he]
        · simp only [FoundC, wikiNode, he, Bool.false_eq_true, if_false]
          exact DeepC_setAttr _ _ (DeepC_setAttr _ _ (DeepC_text hg))
      · cases h; exact ⟨rfl, by intro f hf; cases hf⟩
  | nl =>
    simp only [findX] at h
    split at h
    · cases h; exact ⟨rfl, by intro f hf; cases hf⟩
    · split at h
      · cases h
        exact ⟨rfl, by intro f hf; cases hf; exact DeepC_mkEl _⟩
      · cases h; exact ⟨rfl, by intro f hf; cases hf⟩

/-! ### `processPlaceholders` -/

theorem StashC_get {stash : List StashItem} (h : StashC c stash) {id : Str} {it : StashItem}
    (hg : stashGet stash id = some it) : ItemC c it := by
  simp only [stashGet] at hg
  split at hg
  · exact h it (List.mem_of_getElem? hg)
  · cases hg

theorem DeepC_kids {n : Node} (h : DeepC c n) : ∀ k ∈ n.children, DeepC c k := ((DeepC_iff n).mp h).2.2

theorem linkText_inv {text : Str} {atomic isText : Bool} {result : List Node} {parent : Node} (ht : c ∉ text)
    (hr : ∀ n ∈ result, DeepC c n) (hp : DeepC c parent) :
    (∀ n ∈ (linkText text atomic isText result parent).1, DeepC c n) ∧
      DeepC c (linkText text atomic isText result parent).2 := by
  unfold linkText
  split
  · exact ⟨hr, hp⟩
  · split
    · rename_i l r
      have hl := hr l List.mem_cons_self
      have hr' : ∀ n ∈ r, DeepC c n := fun n hn => hr n (List.mem_cons_of_mem _ hn)
      have hl' := (DeepC_iff l).mp hl
      split
      · refine ⟨?_, hp⟩
        intro n hn
        rcases List.mem_cons.mp hn with hn | hn
        · rw [hn, DeepC_iff]
          refine ⟨hl'.1, ?_, hl'.2.2⟩
          intro s hs'; cases hs'
          intro hm
          rcases List.mem_append.mp hm with hm | hm
          · cases ht' : l.tail with
            | none => simp [ht'] at hm
            | some t => exact hl'.2.1 t ht' (by simpa [ht'] using hm)
          · exact ht hm
        · exact hr' n hn
      · refine ⟨?_, hp⟩
        intro n hn
        rcases List.mem_cons.mp hn with hn | hn
        · rw [hn, DeepC_iff]
          exact ⟨hl'.1, by intro s hs'; cases hs'; exact ht, hl'.2.2⟩
        · exact hr' n hn
    · have hp' := (DeepC_iff parent).mp hp
      split
      · split
        · refine ⟨hr, ?_⟩
          rw [DeepC_iff]
          refine ⟨hp'.1, ?_, hp'.2.2⟩
          intro s hs'; cases hs'
          intro hm
          rcases List.mem_append.mp hm with hm | hm
          · cases ht' : parent.tail with
            | none => simp [ht'] at hm
            | some t => exact hp'.2.1 t ht' (by simpa [ht'] using hm)
          · exact ht hm
        · refine ⟨hr, ?_⟩
          rw [DeepC_iff]
          exact ⟨hp'.1, by intro s hs'; cases hs'; exact ht, hp'.2.2⟩
      · split
        · refine ⟨hr, ?_⟩
          rw [DeepC_iff]
          refine ⟨?_, hp'.2.1, hp'.2.2⟩
          intro s hs'; cases hs'
          intro hm
          rcases List.mem_append.mp hm with hm | hm
          · cases ht' : parent.text with
            | none => simp [ht'] at hm
            | some t => exact hp'.1 t ht' (by simpa [ht'] using hm)
          · exact ht hm
        · refine ⟨hr, ?_⟩
          rw [DeepC_iff]
          exact ⟨by intro s hs'; cases hs'; exact ht, hp'.2.1, hp'.2.2⟩

theorem ppLoop_inv {stash : List StashItem} {nested : Node → Option Node} {data : Str} {atomic isText : Bool}
    (hst : StashC c stash) (hd : c ∉ data) (hn : ∀ n n', DeepC c n → nested n = some n' → DeepC c n') :
    ∀ (g start : Nat) (result : List Node) (parent : Node) {res : List Node} {p' : Node},
      (∀ n ∈ result, DeepC c n) → DeepC c parent →
      ppLoop stash nested data atomic isText g start result parent = some (res, p') →
      (∀ n ∈ res, DeepC c n) ∧ DeepC c p' := by
  intro g
  induction g with
  | zero => intro start result parent res p' _ _ h; simp [ppLoop] at h
  | succ g ih =>
    intro start result parent res p' hr hp h
    unfold ppLoop at h
    simp only at h
    split at h
    · rename_i off _
      have h1 : (∀ n ∈ (if start + off > 0 then linkText (Inline.slice data start (start + off)) false isText result parent
            else (result, parent)).1, DeepC c n) ∧
          DeepC c (if start + off > 0 then linkText (Inline.slice data start (start + off)) false isText result parent
            else (result, parent)).2 := by
        split
        · exact linkText_inv (slice_notin _ _ hd) hr hp
        · exact ⟨hr, hp⟩
      split at h
      · rename_i item hitem
        have hitemC : ItemC c item := by
          cases hfp : (findPh data (start + off)).1 with
          | none => rw [hfp] at hitem; simp at hitem
          | some id' => rw [hfp] at hitem; exact StashC_get hst (by simpa using hitem)
        cases item with
        | node n =>
          simp only at h
          split at h
          · cases h
          · rename_i n' hn'
            exact ih _ _ _ (by
              intro m hm
              rcases List.mem_cons.mp hm with hm | hm
              · exact hm ▸ hn n n' hitemC hn'
              · exact h1.1 m hm) h1.2 h
        | str s =>
          simp only at h
          have h2 := linkText_inv (atomic := false) (isText := isText) (show c ∉ s from hitemC) h1.1 h1.2
          exact ih _ _ _ h2.1 h2.2 h
      · have h2 := linkText_inv (atomic := false) (isText := isText)
          (slice_notin start (start + off + phPrefixLen) hd) hr hp
        exact ih _ _ _ h2.1 h2.2 h
    · have h2 := linkText_inv (atomic := atomic) (isText := isText)
        (show c ∉ data.drop start from fun hm => hd ((List.drop_suffix _ _).subset hm)) hr hp
      injection h with h
      injection h with h3 h4
      subst h3; subst h4
      exact ⟨(by intro n hn'; exact h2.1 n (List.mem_reverse.mp hn')), h2.2⟩

/-- a `processPlaceholders` that keeps elements `c`-free -/
def PPinv (c : Char) (pp : PP) : Prop :=
  ∀ data atomic parent isText res p', c ∉ data → DeepC c parent → pp data atomic parent isText = some (res, p') →
    (∀ n ∈ res, DeepC c n) ∧ DeepC c p'

theorem optC_of_DeepC_text {n : Node} (h : DeepC c n) : c ∉ n.text.getD [] := by
  have := ((DeepC_iff n).mp h).1
  cases ht : n.text with
  | none => simp
  | some t => simpa using this t ht

theorem optC_of_DeepC_tail {n : Node} (h : DeepC c n) : c ∉ n.tail.getD [] := by
  have := ((DeepC_iff n).mp h).2.1
  cases ht : n.tail with
  | none => simp
  | some t => simpa using this t ht

theorem DeepC_noTail {n : Node} (h : DeepC c n) : DeepC c { n with tail := none, tailAtomic := false } := by
  rw [DeepC_iff] at h ⊢
  exact ⟨h.1, (by intro s hs; simp at hs), h.2.2⟩

theorem DeepC_noText {n : Node} (h : DeepC c n) : DeepC c { n with text := none, textAtomic := false } := by
  rw [DeepC_iff] at h ⊢
  exact ⟨(by intro s hs; simp at hs), h.2.1, h.2.2⟩

theorem DeepC_children {n : Node} (kids : List Node) (h : DeepC c n) (hk : ∀ k ∈ kids, DeepC c k) :
    DeepC c { n with children := kids } := by
  rw [DeepC_iff] at h ⊢
  exact ⟨h.1, h.2.1, hk⟩

theorem petTail_inv {pp : PP} (hpp : PPinv c pp) {k k' : Node} {res : List Node} (hk : DeepC c k)
    (h : petTail pp k = some (k', res)) : DeepC c k' ∧ ∀ n ∈ res, DeepC c n := by
  unfold petTail at h
  split at h
  · split at h
    · rename_i res' c' hp
      injection h with h
      injection h with h1 h2
      subst h1; subst h2
      have := hpp _ _ _ _ _ _ (optC_of_DeepC_tail hk) (DeepC_noTail hk) hp
      exact ⟨this.2, this.1⟩
    · cases h
  · injection h with h
    injection h with h1 h2
    subst h1; subst h2
    exact ⟨hk, (by intro n hn; cases hn)⟩

theorem petText_inv {pp : PP} (hpp : PPinv c pp) {k k' : Node} (hk : DeepC c k) (h : petText pp k = some k') :
    DeepC c k' := by
  unfold petText at h
  split at h
  · split at h
    · rename_i res c' hp
      injection h with h
      subst h
      have := hpp _ _ _ _ _ _ (optC_of_DeepC_text hk) (DeepC_noText hk) hp
      apply DeepC_children _ this.2
      intro n hn
      rcases List.mem_append.mp hn with hn | hn
      · exact this.1 n hn
      · exact DeepC_kids this.2 n hn
    · cases h
  · injection h with h
    exact h ▸ hk

theorem procKids_inv {pp : PP} (hpp : PPinv c pp) : ∀ (l : List Node) {l' : List Node}, (∀ n ∈ l, DeepC c n) →
    procKids pp l = some l' → ∀ n ∈ l', DeepC c n := by
  intro l
  induction l with
  | nil => intro l' _ h; simp only [procKids] at h; cases h; intro n hn; cases hn
  | cons k r ih =>
    intro l' hl h
    simp only [procKids] at h
    split at h
    · cases h
    · rename_i c1 res hpt
      have h1 := petTail_inv hpp (hl k List.mem_cons_self) hpt
      split at h
      · cases h
      · rename_i c2 hpx
        have h2 := petText_inv hpp h1.1 hpx
        split at h
        · cases h
        · rename_i r' hr'
          injection h with h
          subst h
          intro n hn
          rcases List.mem_cons.mp hn with hn | hn
          · exact hn ▸ h2
          · rcases List.mem_append.mp hn with hn | hn
            · exact h1.2 n hn
            · exact ih (fun m hm => hl m (List.mem_cons_of_mem _ hm)) hr' n hn

theorem procNode_inv {pp : PP} (hpp : PPinv c pp) {node node' : Node} (hn : DeepC c node)
    (h : procNode pp node = some node') : DeepC c node' := by
  unfold procNode at h
  simp only at h
  split at h
  · cases h
  · rename_i n1 tailRes hpt
    have h1 := petTail_inv hpp (DeepC_children [] hn (by intro k hk; cases hk)) hpt
    split at h
    · cases h
    · rename_i n2 hpx
      have h2 := petText_inv hpp h1.1 hpx
      split at h
      · cases h
      · rename_i kids hk
        injection h with h
        subst h
        have h3 := procKids_inv hpp _ (DeepC_kids hn) hk
        apply DeepC_children _ h2
        intro n hn'
        rcases List.mem_append.mp hn' with hn' | hn'
        · rcases List.mem_append.mp hn' with hn' | hn'
          · exact DeepC_kids h2 n hn'
          · exact h1.2 n hn'
        · exact h3 n hn'

theorem processPlaceholders_inv {stash : List StashItem} (hst : StashC c stash) :
    ∀ f, PPinv c (processPlaceholders stash f) := by
  intro f
  induction f with
  | zero => intro data atomic parent isText res p' _ _ h; simp [processPlaceholders] at h
  | succ f ih =>
    intro data atomic parent isText res p' hd hp h
    simp only [processPlaceholders] at h
    split at h
    · injection h with h
      injection h with h1 h2
      subst h1; subst h2
      exact ⟨(by intro n hn; cases hn), hp⟩
    · exact ppLoop_inv hst hd (fun n n' hn hn' => procNode_inv ih hn hn') _ _ _ _ (by intro n hn; cases hn) hp h

theorem ppTop_inv {st : St} (hst : StashC c st.stash) {data : Str} {atomic isText : Bool} {parent : Node}
    {res : List Node} {p' : Node} (hd : c ∉ data) (hp : DeepC c parent)
    (h : ppTop st data atomic parent isText = some (res, p')) : (∀ n ∈ res, DeepC c n) ∧ DeepC c p' :=
  processPlaceholders_inv hst _ _ _ _ _ _ _ hd hp h

end MdVerif.InlineX
