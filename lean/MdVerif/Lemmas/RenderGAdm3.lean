/-
Helper lemmas for `Props/C16RenderG.lean`, part 14: an admonition whose body has several paragraphs, followed by
ordinary paragraphs — prettify, unescape, the serializer, and `convertX` end to end.

Core Lean only.
-/
import MdVerif.Lemmas.RenderGAdm2

namespace MdVerif.RenderG
open Py Block BlockExt MdVerif.RenderX

/-! ### the trees -/

/-- a paragraph after prettify -/
def pFin (t : Str) : Node := ⟨.name "p".toList, [], some t, false, [], some ['\n'], false⟩

def titleNode (t : Str) : Node := { mkText "p" t with attrs := [(strClass, "admonition-title".toList)] }

def titleFin (t : Str) : Node :=
  ⟨.name "p".toList, [(strClass, "admonition-title".toList)], some t, false, [], some ['\n'], false⟩

/-- the title paragraph, if any -/
def titleKids (ttl : Option Str) : List Node := if Node.truthy ttl then [titleNode (ttl.getD [])] else []

def titleKidsFin (ttl : Option Str) : List Node := if Node.truthy ttl then [titleFin (ttl.getD [])] else []

theorem admDivG_eq (kl : Str) (ttl : Option Str) (texts : List Str) :
    admDivG kl ttl texts = ⟨.name "div".toList, [(strClass, strAdmonition ++ ' ' :: kl)], none, false,
      titleKids ttl ++ texts.map (mkText "p"), none, false⟩ := rfl

def admFinG (kl : Str) (ttl : Option Str) (texts : List Str) : Node :=
  ⟨.name "div".toList, [(strClass, strAdmonition ++ ' ' :: kl)], some ['\n'], false,
    titleKidsFin ttl ++ texts.map pFin, some ['\n'], false⟩

def admRootFinG (kl : Str) (ttl : Option Str) (texts qtexts : List Str) : Node :=
  ⟨.name "div".toList, [], some ['\n'], false, admFinG kl ttl texts :: qtexts.map pFin, some ['\n'], false⟩

/-! ### prettify -/

theorem prettifyKids_append (a b : List Node) :
    TreeProc.prettifyKids TreeProc.defaultBlockLevel (a ++ b) =
      TreeProc.prettifyKids TreeProc.defaultBlockLevel a ++ TreeProc.prettifyKids TreeProc.defaultBlockLevel b := by
  induction a with
  | nil => rfl
  | cons c r ih => simp only [List.cons_append, TreeProc.prettifyKids, ih]

theorem prettify_p (attrs : List (Str × Str)) (t : Str) :
    TreeProc.prettifyETree TreeProc.defaultBlockLevel ⟨.name "p".toList, attrs, some t, false, [], none, false⟩ =
      ⟨.name "p".toList, attrs, some t, false, [], some ['\n'], false⟩ := by
  have h := prettify_keep (.name "p".toList) attrs (some t) false [] false bl_pS tn_p.1 tn_p.2 rfl
  simp only [TreeProc.prettifyKids] at h
  exact h

theorem prettifyKids_ps (ts : List Str) :
    TreeProc.prettifyKids TreeProc.defaultBlockLevel (ts.map (mkText "p")) = ts.map pFin := by
  induction ts with
  | nil => rfl
  | cons t r ih =>
    have hb : TreeProc.isBlockLevel TreeProc.defaultBlockLevel (mkText "p" t).tag = true := bl_pS
    have hp : TreeProc.prettifyETree TreeProc.defaultBlockLevel (mkText "p" t) = pFin t := prettify_p [] t
    simp only [List.map_cons, TreeProc.prettifyKids, hb, if_true, hp, ih]

theorem prettifyKids_title (ttl : Option Str) :
    TreeProc.prettifyKids TreeProc.defaultBlockLevel (titleKids ttl) = titleKidsFin ttl := by
  unfold titleKids titleKidsFin
  split
  · have hb : TreeProc.isBlockLevel TreeProc.defaultBlockLevel (titleNode (ttl.getD [])).tag = true := bl_pS
    have hp : TreeProc.prettifyETree TreeProc.defaultBlockLevel (titleNode (ttl.getD [])) = titleFin (ttl.getD []) :=
      prettify_p _ _
    simp only [TreeProc.prettifyKids, hb, if_true, hp]
  · rfl

theorem firstBlock_adm (ttl : Option Str) (t : Str) (r : List Str) :
    firstBlock (titleKids ttl ++ (t :: r).map (mkText "p")) = true := by
  unfold titleKids
  split
  · simp only [firstBlock, List.cons_append, List.head?_cons, Option.map_some, Option.getD_some]
    exact bl_pS
  · simp only [firstBlock, List.nil_append, List.map_cons, List.head?_cons, Option.map_some, Option.getD_some]
    exact bl_pS

theorem noBP_ps (ts : List Str) : noBPKids (ts.map pFin) = true := by
  induction ts with
  | nil => rfl
  | cons t r ih =>
    simp only [List.map_cons, noBPKids, ih, Bool.and_true]
    simp only [pFin, noBP, noBPKids]; decide

theorem noBPKids_append (a b : List Node) (ha : noBPKids a = true) (hb : noBPKids b = true) : noBPKids (a ++ b) = true := by
  induction a with
  | nil => exact hb
  | cons c r ih =>
    simp only [noBPKids, Bool.and_eq_true] at ha
    simp only [List.cons_append, noBPKids, Bool.and_eq_true]
    exact ⟨ha.1, ih ha.2⟩

theorem noBP_title (ttl : Option Str) : noBPKids (titleKidsFin ttl) = true := by
  unfold titleKidsFin
  split
  · simp only [noBPKids, Bool.and_true]
    simp only [titleFin, noBP, noBPKids]; decide
  · rfl

theorem prettify_admG (kl : Str) (ttl : Option Str) (t : Str) (r qtexts : List Str) :
    TreeProc.prettify (rootOf (admDivG kl ttl (t :: r) :: qtexts.map (mkText "p"))) =
      admRootFinG kl ttl (t :: r) qtexts := by
  have hD := prettify_set (.name "div".toList) [(strClass, strAdmonition ++ ' ' :: kl)] false
    (titleKids ttl ++ (t :: r).map (mkText "p")) false bl_divS tn_div.1 tn_div.2 (firstBlock_adm ttl t r)
  rw [prettifyKids_append, prettifyKids_title, prettifyKids_ps] at hD
  have hbD : TreeProc.isBlockLevel TreeProc.defaultBlockLevel (admDivG kl ttl (t :: r)).tag = true := bl_divS
  have hk : TreeProc.prettifyKids TreeProc.defaultBlockLevel (admDivG kl ttl (t :: r) :: qtexts.map (mkText "p")) =
      admFinG kl ttl (t :: r) :: qtexts.map pFin := by
    simp only [TreeProc.prettifyKids, hbD, if_true, prettifyKids_ps]
    rw [admDivG_eq, hD]
    rfl
  have hR := prettify_set (.name "div".toList) [] false (admDivG kl ttl (t :: r) :: qtexts.map (mkText "p")) false
    bl_divS tn_div.1 tn_div.2 (by
      simp only [firstBlock, List.head?_cons, Option.map_some, Option.getD_some]; exact bl_divS)
  rw [hk] at hR
  have hE : TreeProc.prettifyETree TreeProc.defaultBlockLevel (rootOf (admDivG kl ttl (t :: r) :: qtexts.map (mkText "p"))) =
      admRootFinG kl ttl (t :: r) qtexts := hR
  have hnb : noBP (admRootFinG kl ttl (t :: r) qtexts) = true := by
    have h1 : noBP (admFinG kl ttl (t :: r)) = true := by
      simp only [admFinG, noBP, noBPKids_append _ _ (noBP_title ttl) (noBP_ps (t :: r)), Bool.and_true]; decide
    simp only [admRootFinG, noBP, noBPKids, h1, noBP_ps, Bool.and_true]; decide
  have h1 := mapTree_noBP TreeProc.brRule brRule_fix _ hnb
  have h2 := mapTree_noBP TreeProc.preRule preRule_fix _ hnb
  unfold TreeProc.prettify
  rw [hE, h1, h2]

/-! ### unescape -/

theorem unescape_pFin (t : Str) (h : TreeProc.STX ∉ t) : TreeProc.unescapeTree (pFin t) = some (pFin t) :=
  unescape_el _ _ _ _ _ rfl rfl (fun s hs => by cases hs; exact CodeLaw.unescapeText_id _ h)
    (fun s hs => by cases hs; decide)

theorem unescapeKids_ps (ts : List Str) (h : ∀ t ∈ ts, TreeProc.STX ∉ t) :
    TreeProc.unescapeKids (ts.map pFin) = some (ts.map pFin) :=
  unescapeKids_all _ (by
    intro c hc
    obtain ⟨t, ht, rfl⟩ := List.mem_map.1 hc
    exact unescape_pFin t (h t ht))

theorem stx_title_class : TreeProc.STX ∉ "admonition-title".toList := by decide +kernel

theorem unescapeKids_title (ttl : Option Str) (h : TreeProc.STX ∉ ttl.getD []) :
    TreeProc.unescapeKids (titleKidsFin ttl) = some (titleKidsFin ttl) := by
  unfold titleKidsFin
  split
  · apply unescapeKids_all
    intro c hc
    simp only [List.mem_singleton] at hc
    subst hc
    exact unescape_el _ _ _ _ _ (unescAttrs_id _ (by intro kv hkv; simp at hkv; subst hkv; exact stx_title_class)) rfl
      (fun s hs => by cases hs; exact CodeLaw.unescapeText_id _ h) (fun s hs => by cases hs; decide)
  · rfl

theorem unescapeKids_append (a b : List Node) (ha : TreeProc.unescapeKids a = some a) (hb : TreeProc.unescapeKids b = some b) :
    TreeProc.unescapeKids (a ++ b) = some (a ++ b) := by
  induction a with
  | nil => exact hb
  | cons c r ih =>
    simp only [TreeProc.unescapeKids] at ha
    cases hc : TreeProc.unescapeTree c with
    | none => simp [hc] at ha
    | some c' =>
      cases hr : TreeProc.unescapeKids r with
      | none => simp [hc, hr] at ha
      | some r' =>
        simp only [hc, hr, Option.some.injEq, List.cons.injEq] at ha
        obtain ⟨rfl, rfl⟩ := ha
        simp only [List.cons_append, TreeProc.unescapeKids, hc, ih hr]

theorem stx_strAdm : TreeProc.STX ∉ strAdmonition := by decide +kernel

theorem unescapeTree_admG (kl : Str) (ttl : Option Str) (texts qtexts : List Str) (hk : TreeProc.STX ∉ kl)
    (ht : TreeProc.STX ∉ ttl.getD []) (hb : ∀ t ∈ texts, TreeProc.STX ∉ t) (hq : ∀ t ∈ qtexts, TreeProc.STX ∉ t) :
    TreeProc.unescapeTree (admRootFinG kl ttl texts qtexts) = some (admRootFinG kl ttl texts qtexts) := by
  have t3 : TreeProc.unescapeText 0 ['\n'] = some ['\n'] := by decide
  have hcls : TreeProc.STX ∉ strAdmonition ++ ' ' :: kl := by
    intro hm
    rcases List.mem_append.1 hm with h | h
    · exact stx_strAdm h
    · rcases List.mem_cons.1 h with h | h
      · exact absurd h (by decide)
      · exact hk h
  have hD : TreeProc.unescapeTree (admFinG kl ttl texts) = some (admFinG kl ttl texts) :=
    unescape_el _ _ _ _ _ (unescAttrs_id _ (by intro kv hkv; simp at hkv; subst hkv; exact hcls))
      (unescapeKids_append _ _ (unescapeKids_title ttl ht) (unescapeKids_ps texts hb))
      (fun s hs => by cases hs; exact t3) (fun s hs => by cases hs; exact t3)
  exact unescape_el _ _ _ _ _ rfl (by simp only [TreeProc.unescapeKids, hD, unescapeKids_ps qtexts hq])
    (fun s hs => by cases hs; exact t3) (fun s hs => by cases hs; exact t3)

/-! ### the serializer -/

def lP1 : Str := "<p>".toList
def lP2 : Str := "</p>".toList
def lT1 : Str := "<p class=\"admonition-title\">".toList
def lV1 : Str := "<div class=\"admonition ".toList
def lV2 : Str := "\">\n".toList
def lV3 : Str := "</div>".toList

/-- `<p>t</p>` and a line feed for every text -/
def psHtml : List Str → Str
  | [] => []
  | t :: r => lP1 ++ t ++ lP2 ++ '\n' :: psHtml r

/-- a line feed and `<p>t</p>` for every text -/
def psHtmlAfter : List Str → Str
  | [] => []
  | t :: r => '\n' :: lP1 ++ t ++ lP2 ++ psHtmlAfter r

def titleHtml (ttl : Option Str) : Str := if Node.truthy ttl then lT1 ++ ttl.getD [] ++ lP2 ++ ['\n'] else []

/-- the admonition `div` -/
def admHtml (kl : Str) (ttl : Option Str) (texts : List Str) : Str :=
  lV1 ++ kl ++ lV2 ++ titleHtml ttl ++ psHtml texts ++ lV3

/-- the rendering: the admonition, then the paragraphs after it -/
def admOutG (kl : Str) (ttl : Option Str) (texts qtexts : List Str) : Str := admHtml kl ttl texts ++ psHtmlAfter qtexts

theorem psHtml_shift (ts : List Str) : '\n' :: psHtml ts = psHtmlAfter ts ++ ['\n'] := by
  induction ts with
  | nil => rfl
  | cons t r ih =>
    simp only [psHtml, psHtmlAfter, List.cons_append, List.append_assoc]
    rw [ih]

theorem serialize_pFin (fmt : Ser.Fmt) (t : Str) (h : Ser.escCdata t = t) :
    Ser.serialize fmt (pFin t) = lP1 ++ t ++ lP2 ++ ['\n'] := by
  unfold pFin
  rw [CodeLaw.serialize_plain fmt _ _ _ _ _ _ et_p.1 et_p.2, ifText_some t h, ifText_some _ ec_nl]
  unfold lP1 lP2
  simp only [Ser.serializeList, String.reduceToList]
  simp only [List.cons_append, List.append_assoc, List.nil_append, List.append_nil]

theorem serializeList_ps (fmt : Ser.Fmt) (ts : List Str) (h : ∀ t ∈ ts, Ser.escCdata t = t) :
    Ser.serializeList fmt (ts.map pFin) = psHtml ts := by
  induction ts with
  | nil => rfl
  | cons t r ih =>
    simp only [List.map_cons, Ser.serializeList, serialize_pFin fmt t (h t List.mem_cons_self),
      ih (fun x hx => h x (List.mem_cons_of_mem _ hx)), psHtml]
    simp only [List.cons_append, List.append_assoc, List.nil_append]

theorem class_ne_title : strClass ≠ Ser.escAttrHtml "admonition-title".toList := by decide +kernel
theorem esc_title_class : Ser.escAttrHtml "admonition-title".toList = "admonition-title".toList := by decide +kernel

theorem serializeList_title (fmt : Ser.Fmt) (ttl : Option Str) (h : Ser.escCdata (ttl.getD []) = ttl.getD []) :
    Ser.serializeList fmt (titleKidsFin ttl) = titleHtml ttl := by
  unfold titleKidsFin titleHtml
  split
  · simp only [Ser.serializeList, titleFin, List.append_nil]
    rw [serialize_attr1 fmt "p".toList strClass "admonition-title".toList _ _ _ _ _ et_p.1 et_p.2 class_ne_title,
      ifText_some _ h, ifText_some _ ec_nl, esc_title_class]
    unfold lT1 lP2 strClass
    generalize ttl.getD [] = T
    simp only [Ser.serializeList, String.reduceToList]
    simp only [List.cons_append, List.append_assoc, List.nil_append, List.append_nil]
  · rfl

theorem serializeList_append (fmt : Ser.Fmt) (a b : List Node) :
    Ser.serializeList fmt (a ++ b) = Ser.serializeList fmt a ++ Ser.serializeList fmt b := by
  induction a with
  | nil => rfl
  | cons c r ih => simp only [List.cons_append, Ser.serializeList, ih, List.append_assoc]

theorem class_ne_adm (kl : Str) : strClass ≠ Ser.escAttrHtml (strAdmonition ++ ' ' :: kl) → True := fun _ => trivial

theorem serialize_admG (fmt : Ser.Fmt) (kl : Str) (ttl : Option Str) (texts qtexts : List Str)
    (hk : ∀ c ∈ kl, c ≠ '&' ∧ c ≠ '<' ∧ c ≠ '>' ∧ c ≠ '"') (ht : Ser.escCdata (ttl.getD []) = ttl.getD [])
    (hb : ∀ t ∈ texts, Ser.escCdata t = t) (hq : ∀ t ∈ qtexts, Ser.escCdata t = t) :
    Ser.serialize fmt (admRootFinG kl ttl texts qtexts) =
      "<div>".toList ++ ('\n' :: admOutG kl ttl texts qtexts ++ ['\n']) ++ "</div>\n".toList := by
  have hesc : Ser.escAttrHtml (strAdmonition ++ ' ' :: kl) = strAdmonition ++ ' ' :: kl := by
    apply escAttrHtml_plain
    intro c hc
    rcases List.mem_append.1 hc with h | h
    · have : ∀ x ∈ strAdmonition, x ≠ '&' ∧ x ≠ '<' ∧ x ≠ '>' ∧ x ≠ '"' := by decide +kernel
      exact this c h
    · rcases List.mem_cons.1 h with rfl | h
      · decide
      · exact hk c h
  have hne : strClass ≠ Ser.escAttrHtml (strAdmonition ++ ' ' :: kl) := by
    rw [hesc]
    have h1 : strClass = 'c' :: "lass".toList := by decide +kernel
    have h2 : strAdmonition = 'a' :: "dmonition".toList := by decide +kernel
    rw [h1, h2]
    intro e
    simp only [List.cons_append, List.cons.injEq] at e
    exact absurd e.1 (by decide)
  have hD : Ser.serialize fmt (admFinG kl ttl texts) = admHtml kl ttl texts ++ ['\n'] := by
    unfold admFinG
    rw [serialize_attr1 fmt "div".toList strClass _ _ _ _ _ _ et_div.1 et_div.2 hne, hesc, ifText_some _ ec_nl,
      serializeList_append, serializeList_title fmt ttl ht, serializeList_ps fmt texts hb]
    unfold admHtml lV1 lV2 lV3 strClass strAdmonition
    generalize titleHtml ttl = TT
    generalize psHtml texts = PP
    simp only [String.reduceToList]
    simp only [List.cons_append, List.append_assoc, List.nil_append, List.append_nil]
  unfold admRootFinG
  rw [CodeLaw.serialize_plain fmt _ _ _ _ _ _ et_div.1 et_div.2, ifText_some _ ec_nl]
  simp only [Ser.serializeList, hD, serializeList_ps fmt qtexts hq]
  unfold admOutG
  have hs := psHtml_shift qtexts
  generalize admHtml kl ttl texts = A at *
  generalize psHtml qtexts = P at *
  generalize psHtmlAfter qtexts = Q at *
  simp only [String.reduceToList]
  simp only [List.cons_append, List.append_assoc, List.nil_append, List.append_nil, List.singleton_append]
  simp only [List.cons.injEq, true_and, List.append_cancel_left_eq]
  rw [show '\n' :: (P ++ ['<', '/', 'd', 'i', 'v', '>', '\n']) = ('\n' :: P) ++ ['<', '/', 'd', 'i', 'v', '>', '\n'] from rfl, hs]
  simp only [List.append_assoc, List.cons_append, List.nil_append]

end MdVerif.RenderG
