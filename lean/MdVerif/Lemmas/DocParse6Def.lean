/-
Helper definitions for C01 with inline images (`Props/C01i.lean`): a line `C₀ ![alt₁](d₁) C₁ … ![altₘ](dₘ) Cₘ` — mixed
content (`Chunk` of `Lemmas/RefTextPass.lean`) around `m` inline images with plain alt texts and simple destinations —
at every stage of the inline pattern loop, what the loop returns for it and what it leaves in the stash, the children
it becomes, the output.  Shared by `Lemmas/DocParse6Loop.lean` (pattern loop), `Lemmas/DocParse6Back.lean` (the stages
after the loop), `Lemmas/DocParse6Print.lean` (printer and specification).  Core Lean only.
-/
import MdVerif.Lemmas.DocParse5

namespace MdVerif.DocImg
open Py Inline Escape DocSpec CodeLaw DocParse Block DocParse2 RefText DocLink

/-- an inline image in a line: the alt text, the destination, the title with its quote character, and the content
    that follows -/
structure MUse where
  alt : Str
  url : Str
  dtitle : Option (Char × Str)
  C : Chunk

/-- what the stages need of an image: an alt text of letters, digits and spaces (no inline pattern reacts to it),
    a simple destination, well-formed content after it -/
structure MUseOK (esc : List Char) (u : MUse) : Prop where
  alt : ∀ c ∈ u.alt, isAlnumSp c = true
  after : ChunkOK esc u.C
  dest : DestOK u.url u.dtitle

/-- `](dest)` -/
def closerM (u : MUse) : Str := ']' :: '(' :: (destSrc u.url u.dtitle ++ [')'])

/-- the images with the content after each, after the classes below `lv` have been taken out (as `usStageI`) -/
def imStage (esc : List Char) (lv : Nat) (pe : Bool) : Nat → Nat → List MUse → Str
  | _, _, [] => []
  | m, n0, u :: r =>
    '!' :: '[' :: (u.alt ++ (']' :: '(' :: (destSrc u.url u.dtitle ++ (')' ::
      (u.C.stage esc lv pe m n0 0 0 ++ imStage esc lv pe (m + u.C.escs esc) (n0 + u.C.cnt 0) r)))))

theorem imStage_cons (esc : List Char) (lv : Nat) (pe : Bool) (m n0 : Nat) (u : MUse) (r : List MUse) :
    imStage esc lv pe m n0 (u :: r) =
      ['!', '['] ++ (u.alt ++ (closerM u ++ (u.C.stage esc lv pe m n0 0 0 ++
        imStage esc lv pe (m + u.C.escs esc) (n0 + u.C.cnt 0) r))) := by
  simp [imStage, closerM, List.append_assoc]

/-- the source of the line -/
def imgRaw (esc : List Char) (C0 : Chunk) (us : List MUse) : Str := C0.raw esc ++ imStage esc 0 false 0 0 us

def imCnt0 : List MUse → Nat
  | [] => 0
  | u :: r => u.C.cnt 0 + imCnt0 r

def imNodes0 : List MUse → List StashItem
  | [] => []
  | u :: r => nodesOf 0 u.C.segs ++ imNodes0 r

def imEscs (esc : List Char) : List MUse → Nat
  | [] => 0
  | u :: r => u.C.escs esc + imEscs esc r

def imEscStash (esc : List Char) : List MUse → List StashItem
  | [] => []
  | u :: r => u.C.escStash esc ++ imEscStash esc r

def imOutCnt (k : Nat) : List MUse → Nat
  | [] => 0
  | u :: r => u.C.cnt k + imOutCnt k r

/-- what is left of the images once pattern 4 has run: the placeholder (number `s`, `s + 1`, …) of each `<img>`
    element, then the content after it with the numbers of its first escape and first code span -/
def imOuter (esc : List Char) : Nat → Nat → Nat → List MUse → List OItem
  | _, _, _, [] => []
  | m, n0, s, u :: r => ⟨s, u.C, m, n0⟩ :: imOuter esc (m + u.C.escs esc) (n0 + u.C.cnt 0) (s + 1) r

/-- the `<img>` element as the image pattern makes it -/
def imgNode (u : MUse) : Node := InlineRef.imgEl u.url (titleOf u.dtitle) u.alt

/-- first escape, first image, first `*` emphasis, first `_` emphasis in the stash (`s0` entries before the line) -/
def mStartM (s0 : Nat) (C0 : Chunk) (us : List MUse) : Nat := s0 + C0.cnt 0 + imCnt0 us
def lStartM (esc : List Char) (s0 : Nat) (C0 : Chunk) (us : List MUse) : Nat :=
  mStartM s0 C0 us + C0.escs esc + imEscs esc us
def o1StartM (esc : List Char) (s0 : Nat) (C0 : Chunk) (us : List MUse) : Nat := lStartM esc s0 C0 us + us.length
def o2StartM (esc : List Char) (s0 : Nat) (C0 : Chunk) (us : List MUse) : Nat :=
  o1StartM esc s0 C0 us + C0.cnt 1 + imOutCnt 1 us

def lineOuterM (esc : List Char) (s0 : Nat) (C0 : Chunk) (us : List MUse) : List OItem :=
  imOuter esc (mStartM s0 C0 us + C0.escs esc) (s0 + C0.cnt 0) (lStartM esc s0 C0 us) us

/-- what `__handleInline` returns for the line: every item and every image a placeholder -/
def imRes (esc : List Char) (s0 : Nat) (C0 : Chunk) (us : List MUse) : Str :=
  C0.stage esc 3 true (mStartM s0 C0 us) s0 (o1StartM esc s0 C0 us) (o2StartM esc s0 C0 us) ++
    outStage esc 3 (o1StartM esc s0 C0 us + C0.cnt 1) (o2StartM esc s0 C0 us + C0.cnt 2) (lineOuterM esc s0 C0 us)

/-- what it adds to the stash: the code spans, the escapes, the `<img>` elements, the `*` emphases, the `_` emphases -/
def imStash (esc : List Char) (s0 : Nat) (C0 : Chunk) (us : List MUse) : List StashItem :=
  (nodesOf 0 C0.segs ++ imNodes0 us) ++ ((C0.escStash esc ++ imEscStash esc us) ++
    (us.map (fun u => StashItem.node (imgNode u)) ++
      ((nodesOf 1 C0.segs ++ outNodes 1 (lineOuterM esc s0 C0 us)) ++
        (nodesOf 2 C0.segs ++ outNodes 2 (lineOuterM esc s0 C0 us)))))

/-- **what the pattern loop does on the line** (proved in `Lemmas/DocParse6Loop.lean`; the stages after the loop take
    it as a hypothesis) -/
def LoopOK (cfg : Inline.Cfg) (C0 : Chunk) (us : List MUse) : Prop :=
  ∀ st : St, handleInlineTop cfg (imgRaw cfg.esc C0 us) st =
    some (imRes cfg.esc st.stash.length C0 us,
      { st with stash := st.stash ++ imStash cfg.esc st.stash.length C0 us })

/-- the children the images give: each `<img>` element with the text after it as tail, then the items of that
    content -/
def imKids (esc : List Char) : List MUse → List Node
  | [] => []
  | u :: r => { imgNode u with tail := optStr (coded esc u.C.t0) } :: (u.C.segs.map (tailedM esc) ++ imKids esc r)

/-- the `<p>` / `<h1>` … `<h6>` element (tag `tg`) after the inline processor -/
def iMid (tg : Str) (esc : List Char) (C0 : Chunk) (us : List MUse) : Node :=
  { tag := .name tg, text := optStr (coded esc C0.t0), children := C0.segs.map (tailedM esc) ++ imKids esc us }

/-- `<img alt="…" src="…" title="…" />` -/
def imgHtml (u : MUse) : Str := InlineRef.imgHtmlF .xhtml u.url (titleOf u.dtitle) u.alt

def imOut : List MUse → Str
  | [] => []
  | u :: r => imgHtml u ++ (u.C.out ++ imOut r)

theorem imOut_cons (u : MUse) (r : List MUse) : imOut (u :: r) = imgHtml u ++ (u.C.out ++ imOut r) := rfl
theorem imOut_nil : imOut [] = [] := rfl

/-- the output of the element -/
def iOut (tg : Str) (C0 : Chunk) (us : List MUse) : Str :=
  '<' :: tg ++ ['>'] ++ (C0.out ++ imOut us) ++ ('<' :: '/' :: tg ++ ['>'])

end MdVerif.DocImg
