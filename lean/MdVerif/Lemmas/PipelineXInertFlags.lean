/-
`dispatchXT` (dispatcher with the table processor) with a flag switched on, on a block without the trigger of that
flag: the analogues of the `dispatchX_*` lemmas of `BlockExtFlags.lean`, and the table processor itself.
Core Lean only.
-/
import MdVerif.Lemmas.PipelineXInertBlock

namespace MdVerif.BlockExt
open Py Block

variable (tables : Bool) (cfg : XCfg) (tab : Nat) (pb : PB) (state : List BState) (refs : Refs) (parent : Node) (b : Str)
  (rest : List Str)

theorem dispatchXT_footnotes (hb : contains b trigFootnote = false) :
    dispatchXT tables { cfg with footnotes := true } tab pb state refs parent b rest =
      dispatchXT tables cfg tab pb state refs parent b rest := by
  have h1 : tailFootnote { cfg with footnotes := true } state refs parent b rest =
      tailFootnote cfg state refs parent b rest := by
    simp only [tailFootnote, footnoteP_none hb, tailAbbr]
    simp
  simp only [dispatchXT, tailEmptyT, tailList, tailDef, tailQuote, h1]

theorem dispatchXT_abbr (hb : contains b trigAbbr = false) :
    dispatchXT tables { cfg with abbr := true } tab pb state refs parent b rest =
      dispatchXT tables cfg tab pb state refs parent b rest := by
  have h1 : tailAbbr { cfg with abbr := true } state refs parent b rest = tailAbbr cfg state refs parent b rest := by
    simp only [tailAbbr, abbrP, abbrSearch_none hb]
    simp
  simp only [dispatchXT, tailEmptyT, tailList, tailDef, tailQuote, tailFootnote, h1]

theorem dispatchXT_admonition (hcfg : cfg.admonition = false) (hb : contains b trigAdmonition = false)
    (hp : NI qtAdm parent) :
    dispatchXT tables { cfg with admonition := true } tab pb state refs parent b rest =
      dispatchXT tables cfg tab pb state refs parent b rest := by
  have h1 : tailEmptyT tables { cfg with admonition := true } tab pb state refs parent b rest =
      tailEmptyT tables cfg tab pb state refs parent b rest := by
    simp only [tailEmptyT, tailList, tailDef, tailQuote, tailFootnote, tailAbbr]
  simp only [dispatchXT, admTest_none hb hp, hcfg, h1]
  simp

theorem dispatchXT_defList (hb : contains b trigDefList = false) (hp : NI qtDef parent) :
    dispatchXT tables { cfg with defList := true } tab pb state refs parent b rest =
      dispatchXT tables cfg tab pb state refs parent b rest := by
  have h0 : tailQuote { cfg with defList := true } pb state refs parent b rest =
      tailQuote cfg pb state refs parent b rest := by
    simp only [tailQuote, tailFootnote, tailAbbr]
  have h1 : tailDef { cfg with defList := true } tab pb state refs parent b rest =
      tailDef cfg tab pb state refs parent b rest := by
    simp only [tailDef, defSearch_none hb, h0]
    simp
  have h2 : tailList { cfg with defList := true } tab pb state refs parent b rest =
      tailList cfg tab pb state refs parent b rest := by
    simp only [tailList, h1]
  simp only [dispatchXT, tailEmptyT, h2, indentTestX, isItemTagD_noDef hp]
  cases hl : parent.last? with
  | none =>
    simp only []
    cases startsWith b (spaces tab) <;> cases isstate state .detabbed <;> cases isItemTag parent <;>
      cases cfg.defList <;> simp
  | some c =>
    simp only [isListTagD_noDef (NI_last hp hl)]
    cases startsWith b (spaces tab) <;> cases isstate state .detabbed <;> cases isItemTag parent <;>
      cases isListTag c <;> cases cfg.defList <;> simp

theorem dispatchXT_saneLists (hb : noListMarker b) :
    dispatchXT tables { cfg with saneLists := true } tab pb state refs parent b rest =
      dispatchXT tables cfg tab pb state refs parent b rest := by
  have h1 : tailList { cfg with saneLists := true } tab pb state refs parent b rest =
      tailList cfg tab pb state refs parent b rest := by
    simp only [tailList, listItemMatch_none hb, tailDef, tailQuote, tailFootnote, tailAbbr]
    simp
  simp only [dispatchXT, tailEmptyT, h1]

end MdVerif.BlockExt
