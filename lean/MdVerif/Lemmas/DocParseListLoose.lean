/-
Helper lemmas for C01 on documents with LOOSE lists (`Props/C01d.lean`): the block parser.

A loose list is spread over many chunks: every item starts a chunk of its own, and every further block of an item is a
chunk indented by four spaces per level.  `ListIndentProcessor` finds the item such a chunk belongs to by walking down
the last children of the parent (`get_level`); the chunk, with the indentation removed, is then parsed into that item
in the state `detabbed`.  A later item of a list is added by the "sibling" branch of `OListProcessor.run`, which first
moves the text of the previous item into a `p`.  Core Lean only.
-/
import MdVerif.Lemmas.DocParseList

namespace MdVerif.DocParse
open Py Block Escape

/-! ### contexts: the chain of last children from the parent down to the open item -/

/-- `X` with one more child: the list `U` with one more item `T` -/
def plugF (X U T : Node) : Node := X.append (U.append T)

/-- frames from the outside in; each is an element and the list that is its last child; the hole is the last item -/
def plug : List (Node × Node) → Node → Node
  | [], T => T
  | (X, U) :: C, T => plugF X U (plug C T)

theorem plug_cons (X U : Node) (C : List (Node × Node)) (T : Node) :
    plug ((X, U) :: C) T = X.append (U.append (plug C T)) := rfl

theorem plug_snoc (C : List (Node × Node)) (X U T : Node) : plug (C ++ [(X, U)]) T = plug C (plugF X U T) := by
  induction C with
  | nil => rfl
  | cons f C ih => obtain ⟨X', U'⟩ := f; simp only [List.cons_append, plug, ih]

theorem isItemTag_append' (p c : Node) : isItemTag (p.append c) = isItemTag p := rfl
theorem isListTag_append' (p c : Node) : isListTag (p.append c) = isListTag p := rfl

theorem not_list_of_item {n : Node} (h : isItemTag n = true) : isListTag n = false := by
  simp only [isItemTag, Node.isTag, beq_iff_eq] at h
  simp [isListTag, Node.isTag, h]

theorem isItemTag_plug (X U : Node) (C : List (Node × Node)) (T : Node) :
    isItemTag (plug ((X, U) :: C) T) = isItemTag X := rfl

theorem getLevelNode_eq (il level : Nat) (n : Node) : getLevelNode il level n = getLevelKids il level n.children := by
  cases n; rw [getLevelNode]

theorem getLevelKids_snoc (il level : Nat) (pre : List Node) (c : Node) :
    getLevelKids il level (pre ++ [c]) =
      if il > level && (isListTag c || isItemTag c) then
        ((getLevelNode il (if isListTag c then level + 1 else level) c).1,
         (getLevelNode il (if isListTag c then level + 1 else level) c).2 + 1)
      else (level, 0) := by
  induction pre with
  | nil => simp only [List.nil_append]; rw [getLevelKids]
  | cons a r ih =>
    cases hr : r ++ [c] with
    | nil => simp at hr
    | cons b r' =>
      rw [List.cons_append, hr, getLevelKids, ← hr, ih]

theorem getLevelNode_append (il level : Nat) (p c : Node) :
    getLevelNode il level (p.append c) =
      if il > level && (isListTag c || isItemTag c) then
        ((getLevelNode il (if isListTag c then level + 1 else level) c).1,
         (getLevelNode il (if isListTag c then level + 1 else level) c).2 + 1)
      else (level, 0) := by
  rw [getLevelNode_eq]; exact getLevelKids_snoc il level p.children c

/-- the inner frames are items holding lists; the hole is an item -/
def FramesOK (C : List (Node × Node)) : Prop := ∀ xu ∈ C, isItemTag xu.1 = true ∧ isListTag xu.2 = true

/-- **`get_level`** on a chain of lists and items: as deep as the indentation says -/
theorem getLevelNode_plug (C : List (Node × Node)) (hC : FramesOK C) (T : Node) :
    ∀ (X U : Node), isListTag U = true → ∀ level : Nat,
      getLevelNode (level + C.length + 1) level (plug ((X, U) :: C) T) = (level + C.length + 1, 2 * C.length + 1) := by
  induction C with
  | nil =>
    intro X U hU level
    rw [plug_cons, getLevelNode_append]
    simp only [plug, List.length_nil, Nat.add_zero, isListTag_append', hU, Bool.true_or, Bool.and_true, if_true,
      show (level + 1 > level) = True from eq_true (Nat.lt_succ_self _), decide_true]
    rw [getLevelNode_append]
    simp
  | cons f C ih =>
    obtain ⟨X', U'⟩ := f
    intro X U hU level
    have hf := hC (X', U') List.mem_cons_self
    have hC' : FramesOK C := fun xu h => hC xu (List.mem_cons_of_mem _ h)
    rw [plug_cons, getLevelNode_append]
    have h1 : (level + (List.length ((X', U') :: C)) + 1 > level) = True := eq_true (by simp; omega)
    simp only [isListTag_append', hU, Bool.true_or, Bool.and_true, if_true, h1, decide_true]
    rw [getLevelNode_append]
    have h2 : (level + (List.length ((X', U') :: C)) + 1 > level + 1) = True := eq_true (by simp)
    have h3 : isItemTag (plug ((X', U') :: C) T) = true := hf.1
    have h4 : isListTag (plug ((X', U') :: C) T) = false := not_list_of_item h3
    simp only [h2, h3, h4, Bool.or_true, Bool.and_true, decide_true, if_true, Bool.false_eq_true, if_false]
    have := ih hC' X' U' hf.2 (level + 1)
    rw [show level + 1 + C.length + 1 = level + ((X', U') :: C).length + 1 by simp; omega] at this
    rw [this]
    simp; omega

theorem nodeAt_succ_append (k : Nat) (p c : Node) : nodeAt (k + 1) (p.append c) = nodeAt k c := by
  simp [nodeAt, last_append]

theorem updPath_succ_append (f : Node → Node) (k : Nat) (p c : Node) :
    updPath f (k + 1) (p.append c) = p.append (updPath f k c) := by
  simp [updPath, last_append, setLast_append]

/-- the list reached by `get_level`, and what replacing its last item does -/
theorem nodeAt_plug (C : List (Node × Node)) (T : Node) :
    ∀ (X U : Node), isListTag U = true → (∀ xu ∈ C, isListTag xu.2 = true) →
      ∃ Ul, isListTag Ul = true ∧ nodeAt (2 * C.length + 1) (plug ((X, U) :: C) T) = Ul.append T ∧
        ∀ T', updPath (fun s => s.setLast T') (2 * C.length + 1) (plug ((X, U) :: C) T) = plug ((X, U) :: C) T' := by
  induction C with
  | nil =>
    intro X U hU _
    refine ⟨U, hU, ?_, ?_⟩
    · rw [plug_cons, show 2 * ([] : List (Node × Node)).length + 1 = 0 + 1 by rfl, nodeAt_succ_append]; rfl
    · intro T'
      rw [plug_cons, show 2 * ([] : List (Node × Node)).length + 1 = 0 + 1 by rfl, updPath_succ_append]
      simp only [updPath, plug, setLast_append]; rfl
  | cons f C ih =>
    obtain ⟨X', U'⟩ := f
    intro X U hU hC
    obtain ⟨Ul, h1, h2, h3⟩ := ih X' U' (hC _ List.mem_cons_self) (fun xu h => hC xu (List.mem_cons_of_mem _ h))
    refine ⟨Ul, h1, ?_, ?_⟩
    · rw [plug_cons, show 2 * ((X', U') :: C).length + 1 = (2 * C.length + 1) + 1 + 1 by simp; omega,
        nodeAt_succ_append, nodeAt_succ_append, h2]
    · intro T'
      rw [plug_cons, show 2 * ((X', U') :: C).length + 1 = (2 * C.length + 1) + 1 + 1 by simp; omega,
        updPath_succ_append, updPath_succ_append, h3]; rfl

/-! ### `ListIndentProcessor`: an indented chunk goes to the open item -/

/-- the lines `g`, indented by `k` levels -/
def ind (k : Nat) (g : List Str) : List Str := g.map (spaces (4 * k) ++ ·)

theorem sw_append (p s : Str) : startsWith (p ++ s) p = true := by
  induction p with
  | nil => cases s <;> rfl
  | cons c p ih => simp [ih]

theorem looseDetab_ind (k : Nat) (g : List Str) (hne : g ≠ []) (hnl : ∀ l ∈ g, '\n' ∉ l) :
    looseDetab 4 (joinLines (ind k g)) k = joinLines g := by
  unfold looseDetab ind
  rw [lines_joinLines _ (by simpa using hne)
    (by intro l hl; obtain ⟨x, hx, rfl⟩ := List.mem_map.1 hl
        apply notNl_of_not_mem
        intro hm; rcases List.mem_append.1 hm with hm | hm
        · exact absurd (List.eq_of_mem_replicate hm) (by decide)
        · exact hnl x hx hm)]
  rw [List.map_map]
  congr 1
  rw [List.map_congr_left (g := id)]
  · simp
  · intro l _
    simp [spaces]

/-- **routing**: a chunk indented by as many levels as there are open lists is parsed, without the indentation and in
    the state `detabbed`, into the innermost open item, whose text is first moved into a `p` -/
theorem dispatch_routed (X U : Node) (C : List (Node × Node)) (hC : FramesOK C) (hU : isListTag U = true)
    (hX : isItemTag X = false) (T : Node) (hT : isItemTag T = true) (st : List BState)
    (hl : isstate st .list = false) (hd : isstate st .detabbed = false)
    (d : Char) (l0 : Str) (gr : List Str) (hnl : ∀ l ∈ (d :: l0) :: gr, '\n' ∉ l) (hsp : d ≠ ' ')
    (pb : PB) (refs : Refs) (rest : List Str) :
    dispatch 4 pb st refs (plug ((X, U) :: C) T) (joinLines (ind (C.length + 1) ((d :: l0) :: gr))) rest =
      match parseChunk pb (st ++ [.detabbed]) refs (textToP T) (joinLines ((d :: l0) :: gr)) with
      | some (T', refs') => some (plug ((X, U) :: C) T', refs', rest)
      | none => none := by
  have hdnl : d ≠ '\n' := by
    intro e; exact hnl (d :: l0) List.mem_cons_self (by rw [e]; exact List.mem_cons_self)
  have hdetab := looseDetab_ind (C.length + 1) ((d :: l0) :: gr) (by simp) hnl
  obtain ⟨tail, hshape⟩ : ∃ tail, joinLines (ind (C.length + 1) ((d :: l0) :: gr)) =
      spaces (4 * (C.length + 1)) ++ (d :: tail) := by
    cases hr : ind (C.length + 1) gr with
    | nil => exact ⟨l0, by simp [ind] at hr; simp [ind, hr, joinLines_single]⟩
    | cons a b =>
      refine ⟨l0 ++ '\n' :: joinLines (a :: b), ?_⟩
      have : ind (C.length + 1) ((d :: l0) :: gr) = (spaces (4 * (C.length + 1)) ++ d :: l0) :: a :: b := by
        simp only [ind, List.map_cons] at hr ⊢; rw [hr]
      rw [this, joinLines_cons_cons]; simp
  generalize hB : joinLines (ind (C.length + 1) ((d :: l0) :: gr)) = B at *
  have h4 : spaces (4 * (C.length + 1)) = ' ' :: ' ' :: ' ' :: ' ' :: spaces (4 * C.length) := by
    simp [spaces, Nat.mul_add, List.replicate_succ]
  have h1 : B.isEmpty = false := by rw [hshape, h4]; rfl
  have h2 : startsWith B ['\n'] = false := by rw [hshape, h4]; simp [startsWith]
  have h3 : startsWith B (spaces 4) = true := by
    rw [hshape, h4]; simp [startsWith, spaces, List.replicate_succ]
  have hcs : countSp B = 4 * (C.length + 1) := by
    rw [hshape]; exact countSp_spaces _ _ (by simpa using hsp)
  have hlast : (plug ((X, U) :: C) T).last? = some (U.append (plug C T)) := by rw [plug_cons, last_append]
  have hPX : isItemTag (plug ((X, U) :: C) T) = false := hX
  have hlevel : getLevel 4 st (plug ((X, U) :: C) T) B = (C.length + 1, 2 * C.length + 1) := by
    have := getLevelNode_plug C hC T X U hU 0
    simp only [Nat.zero_add] at this
    simp only [getLevel, hcs, hl, Bool.false_eq_true, if_false]
    rw [if_pos (by omega), Nat.mul_div_cancel_left _ (by omega : 0 < 4), this]
  obtain ⟨Ul, hUl, hnode, hupd⟩ := nodeAt_plug C T X U hU (fun xu h => (hC xu h).2)
  have hsib : isItemTag (Ul.append T) = false := by
    cases hx : isItemTag (Ul.append T) with
    | false => rfl
    | true => have := not_list_of_item hx; rw [isListTag_append', hUl] at this; cases this
  unfold dispatch
  simp only [h1, h2, h3, hd, hlast, isListTag_append', hU, hPX, Bool.or_self, Bool.false_eq_true, if_false,
    Bool.not_false, Bool.and_self, Bool.or_true, if_true]
  simp only [indentP, hlevel, hdetab, hnode, hPX, hsib, Bool.false_eq_true, if_false, last_append, hT, if_true]
  cases parseChunk pb (st ++ [.detabbed]) refs (textToP T) (joinLines ((d :: l0) :: gr)) with
  | none => rfl
  | some r => obtain ⟨T', refs'⟩ := r; simp only [hupd]

/-! ### the nodes of a loose list -/

/-- the paragraph of an item -/
def pN (esc : List Char) (t : Str) : Node := mkText "p" (escAll esc t)

/-- an item of a loose list: its text is `''` when it was moved into a `p` (`first`: the item was created by a chunk
    that started a list), `None` otherwise -/
def liN (first : Bool) (kids : List Node) : Node :=
  { tag := .name "li".toList, text := if first then some [] else none, children := kids }

/-- the list element -/
def ulE (o : Bool) : Node := Node.el (if o then "ol" else "ul")

theorem isListTag_ulE (o : Bool) : isListTag (ulE o) = true := by cases o <;> rfl
theorem isItemTag_liN (first : Bool) (kids : List Node) : isItemTag (liN first kids) = true := rfl
theorem isItemTag_liText (esc : List Char) (t : Str) : isItemTag (liText esc t) = true := rfl

theorem textToP_liText {esc : List Char} {t : Str} (hne : t ≠ []) : textToP (liText esc t) = liN true [pN esc t] := by
  have := truthy_some (escAll_ne_nil (esc := esc) hne)
  simp [textToP, liText, this, liN, pN, mkText, Node.el]

theorem textToP_liN (first : Bool) (kids : List Node) : textToP (liN first kids) = liN first kids := by
  cases first <;> simp [textToP, liN, Node.truthy]

theorem liN_append (first : Bool) (kids : List Node) (n : Node) : (liN first kids).append n = liN first (kids ++ [n]) := rfl

theorem el_li_append (n : Node) : (Node.el "li").append n = liN false [n] := rfl

/-- an item with no nested list, as an item of a tight list -/
def oneItem (m t : Str) : LItem := ⟨m, t, [], []⟩

theorem oneItem_ok {esc : List Char} {o : Bool} {m t : Str} (hm : IsMarker o m) (ht : lineText t = true) :
    LItemOK esc o (oneItem m t) :=
  ⟨⟨hm, ht, Or.inl rfl, by intro l hl; cases hl⟩, Or.inl ⟨rfl, rfl⟩⟩

theorem oneItem_lines (esc : List Char) (m t : Str) : joinLines (listLines esc [oneItem m t]) = m ++ escAll esc t := by
  simp [listLines, LItem.lines, oneItem, joinLines_single]

theorem oneItem_src (esc : List Char) (o : Bool) (m t : Str) :
    (listTree o [oneItem m t]).src esc = (ulE o).append (liText esc t) := by
  rw [listTree_src]
  have := item_src_nil (esc := esc) (oneItem m t) rfl
  simp only [List.map_cons, List.map_nil, this]
  simp [oneItem, ulE, Node.append, Node.el]

/-- the chunk that starts a list appends the list with one item, whose text stays in the `li` for now -/
theorem effX_first_item {esc : List Char} (hE : EscOK esc) {o : Bool} {m t : Str} (hm : IsMarker o m)
    (ht : lineText t = true) : EffX [m ++ escAll esc t] ((ulE o).append (liText esc t)) := by
  have := effX_list hE o [oneItem m t] (by simp) (by intro it hit; simp at hit; subst hit; exact oneItem_ok hm ht)
  rwa [oneItem_lines, oneItem_src] at this

/-- a paragraph parsed in a state other than `list` becomes a `p` -/
theorem parse_para {esc : List Char} (hE : EscOK esc) (t : Str) (ht : lineText t = true) (f : Nat)
    (st : List BState) (hst : isstate st .list = false) (refs : Refs) (parent : Node) :
    parseBlocks 4 (f + 1) st refs parent [escAll esc t] = some (parent.append (pN esc t), refs) := by
  obtain ⟨hne, _, _, _, hnl, _, hv, _⟩ := lineText_facts ht
  have hve := startsVisible_escAll (esc := esc) t hv
  obtain ⟨_, _, _, _, _, hnle, _⟩ := escLine_facts hE ht
  have hsec : (match secondLine (escAll esc t) with | some l => isEqUnderline l | none => false) = false := by
    have : secondLine (escAll esc t) = none := by
      simp [secondLine, lines, splitC_noNl _ (notNl_of_not_mem hnle)]
    rw [this]
  have hd := dispatch_paragraph hE.hash hE.dash hE.under hE.star hE.plus hE.dot hE.gt hE.lbr 4 (by omega)
    (parseBlocks 4 f) st refs parent (escAll esc t) []
    (guardedFrom_escAll esc t false) (lineStartsOk_escAll esc hE.nl t) hve hsec
  have hpara : paraP st refs parent (escAll esc t) [] = (parent.append (pN esc t), refs, []) := by
    simp [paraP, isBlank_of_visible hve, hst, lstrip_of_visible hve, pN]
  simp only [parseBlocks, hd, hpara]

/-- **a later item of a loose list**: the chunk with its marker finds the list as the last child of the parent; the
    text of the previous item is moved into a `p`, and the new item is parsed in the state `looselist` -/
theorem dispatch_next_item {esc : List Char} (hE : EscOK esc) {o : Bool} {m : Str} (hm : IsMarker o m) (t : Str)
    (ht : lineText t = true) (Q Uq cur : Node) (hUq : isListTag Uq = true)
    (htl : ∀ c, (textToP cur).last? = some c → Node.truthy c.tail = false)
    (st : List BState) (refs : Refs) (rest : List Str) (f : Nat) :
    dispatch 4 (parseBlocks 4 (f + 1)) st refs (Q.append (Uq.append cur)) (m ++ escAll esc t) rest =
      some (Q.append ((Uq.append (textToP cur)).append (liN false [pN esc t])), refs, rest) := by
  have hshape : ∀ it ∈ [oneItem m t], LItemShape esc o it := by
    intro it hit; simp at hit; subst hit; exact (oneItem_ok hm ht).shape
  have hd := dispatch_list hE o [oneItem m t] (by simp) hshape (parseBlocks 4 (f + 1)) st refs
    (Q.append (Uq.append cur)) rest
  have hgi := getItems_list hE [oneItem m t] (by simp) hshape
  rw [oneItem_lines] at hd hgi
  have hent : [oneItem m t].flatMap (LItem.entries esc) = [escAll esc t] := by simp [LItem.entries, oneItem]
  rw [hent] at hgi
  rw [hd, listP, hgi]
  have hnew := parse_para hE t ht f (st ++ [.looselist]) (by simp [isstate]) refs (Node.el "li")
  simp only [last_append, isListTag_append', hUq, if_true, List.headD_cons, hnew, List.drop_one, List.tail_cons,
    listItems, setLast_append, el_li_append]
  cases hx : (textToP cur).last? with
  | none => rfl
  | some lch => simp [htl lch hx]

/-! ### the steps in a context -/

/-- a chain of open lists below a parent that is not an item -/
def TopOK (F : List (Node × Node)) : Prop :=
  ∃ X U C, F = (X, U) :: C ∧ isItemTag X = false ∧ isListTag U = true ∧ FramesOK C

/-- `Q` holds a list: it is the parent itself, or an open item (whose text is already in a `p`) -/
def CtxOK (F0 : List (Node × Node)) (Q : Node) : Prop :=
  (F0 = [] ∧ isItemTag Q = false) ∨ (TopOK F0 ∧ isItemTag Q = true ∧ Node.truthy Q.text = false)

theorem topOK_snoc {F0 : List (Node × Node)} {Q : Node} (h : CtxOK F0 Q) {Uq : Node} (hU : isListTag Uq = true) :
    TopOK (F0 ++ [(Q, Uq)]) := by
  rcases h with ⟨rfl, hq⟩ | ⟨⟨X, U, C, rfl, hX, hU', hC⟩, hq, _⟩
  · exact ⟨Q, Uq, [], rfl, hq, hU, by intro xu h; cases h⟩
  · refine ⟨X, U, C ++ [(Q, Uq)], rfl, hX, hU', ?_⟩
    intro xu h
    rcases List.mem_append.1 h with h | h
    · exact hC xu h
    · simp only [List.mem_singleton] at h; subst h; exact ⟨hq, hU⟩

theorem ind_zero (g : List Str) : ind 0 g = g := by simp [ind, spaces]

/-- **a further block of an item**: the indented chunk is routed to the open item `T` -/
theorem step_x {F : List (Node × Node)} (hF : TopOK F) (T : Node) (hT : isItemTag T = true) (st : List BState)
    (hl : isstate st .list = false) (hd : isstate st .detabbed = false)
    (g : List Str) (hg : GoodGroup g) (hsp : ∀ l, g.head? = some l → l.head? ≠ some ' ')
    (n : Node) (heff : EffX [joinLines g] n) (hpok : POK (textToP T) n) (refs : Refs) (cont : List Str)
    (res : Node × Refs) (hr : RunsE st refs (plug F ((textToP T).append n)) cont res) :
    RunsE st refs (plug F T) (joinLines (ind F.length g) :: cont) res := by
  obtain ⟨X, U, C, rfl, hX, hU, hC⟩ := hF
  obtain ⟨l, gr, rfl⟩ : ∃ l gr, g = l :: gr := by
    cases g with
    | nil => exact absurd rfl hg.1
    | cons l gr => exact ⟨l, gr, rfl⟩
  have hl0 := hg.2 l List.mem_cons_self
  obtain ⟨d, l0, rfl⟩ : ∃ d l0, l = d :: l0 := by
    cases l with
    | nil => exact absurd rfl hl0.1
    | cons d l0 => exact ⟨d, l0, rfl⟩
  have hdsp : d ≠ ' ' := by simpa using hsp (d :: l0) rfl
  have hnl : ∀ x ∈ (d :: l0) :: gr, '\n' ∉ x := fun x hx => (lineSafe_facts (hg.2 x hx).2.1).1
  obtain ⟨f1, hf1⟩ := heff (st ++ [.detabbed]) refs (textToP T) [] ((textToP T).append n, refs) (by simp [isstate])
    hpok (runsE_nil _ _ _)
  have hsplit : splitS ['\n', '\n'] (joinLines ((d :: l0) :: gr)) = [joinLines ((d :: l0) :: gr)] :=
    splitAux_single true _ (nel_group _ hg)
  have hdisp := dispatch_routed X U C hC hU hX T hT st hl hd d l0 gr hnl hdsp (parseBlocks 4 f1) refs cont
  simp only [List.append_nil] at hf1
  simp only [parseChunk, hsplit, hf1] at hdisp
  exact runsE_step hdisp hr

/-- **a later item** of the list that is the last child of `Q` -/
theorem step_item {esc : List Char} (hE : EscOK esc) {o : Bool} {m : Str} (hm : IsMarker o m) (t : Str)
    (ht : lineText t = true) {F0 : List (Node × Node)} {Q : Node} (hctx : CtxOK F0 Q) (Uq cur : Node)
    (hUq : isListTag Uq = true) (htl : ∀ c, (textToP cur).last? = some c → Node.truthy c.tail = false)
    (st : List BState) (hl : isstate st .list = false) (hd : isstate st .detabbed = false)
    (refs : Refs) (cont : List Str) (res : Node × Refs)
    (hr : RunsE st refs (plug F0 (Q.append ((Uq.append (textToP cur)).append (liN false [pN esc t])))) cont res) :
    RunsE st refs (plug F0 (Q.append (Uq.append cur))) (joinLines (ind F0.length [m ++ escAll esc t]) :: cont) res := by
  rcases hctx with ⟨rfl, _⟩ | ⟨hF, hq, hqt⟩
  · rw [List.length_nil, ind_zero, joinLines_single]
    exact runsE_step (dispatch_next_item hE hm t ht Q Uq cur hUq htl st refs cont 0) hr
  · obtain ⟨X, U, C, rfl, hX, hU, hC⟩ := hF
    obtain ⟨d, dr, hmr, hdsp, _, hdnl, _⟩ := marker_head hm
    have hT : isItemTag (Q.append (Uq.append cur)) = true := hq
    have htp : textToP (Q.append (Uq.append cur)) = Q.append (Uq.append cur) := by
      have : Node.truthy (Q.append (Uq.append cur)).text = false := hqt
      simp [textToP, this]
    have hnlx : '\n' ∉ m ++ escAll esc t := by
      have := listLines_noNl hE [oneItem m t]
        (by intro it hit; simp at hit; subst hit; exact (oneItem_ok (esc := esc) hm ht).shape) (m ++ escAll esc t)
        (by simp [listLines, LItem.lines, oneItem])
      exact this
    have hne : m ++ escAll esc t ≠ [] := by rw [hmr]; simp
    have hsplit : splitS ['\n', '\n'] (m ++ escAll esc t) = [m ++ escAll esc t] :=
      splitAux_single true _ (nel_line _ hne hnlx)
    have hdisp := dispatch_routed X U C hC hU hX _ hT st hl hd d (dr ++ escAll esc t) [] (by
        intro x hx; simp only [List.mem_singleton] at hx; subst hx
        have := hnlx; rw [hmr] at this; simpa using this)
      (by simpa using hdsp) (parseBlocks 4 (0 + 1 + 1)) refs cont
    have hin := dispatch_next_item hE hm t ht Q Uq cur hUq htl (st ++ [.detabbed]) refs [] 0
    have e : (d :: (dr ++ escAll esc t)) = m ++ escAll esc t := by rw [hmr]; rfl
    rw [joinLines_single, e] at hdisp
    rw [htp] at hdisp
    simp only [parseChunk, hsplit] at hdisp
    rw [show parseBlocks 4 (0 + 1 + 1) (st ++ [.detabbed]) refs (Q.append (Uq.append cur)) [m ++ escAll esc t] =
      some (Q.append ((Uq.append (textToP cur)).append (liN false [pN esc t])), refs) by
        simp only [parseBlocks, hin]] at hdisp
    exact runsE_step hdisp hr

/-! ### loose lists as data -/

/-- `x`: a block of one group of lines `g` with its tree; `l`: a loose list of items; `it`: an item — marker, text of
    the first paragraph, the further blocks -/
inductive LL where
  | x (g : List Str) (t : GT)
  | l (o : Bool) (items : List LL)
  | it (m t : Str) (rest : List LL)

mutual
/-- the groups of lines (chunks) at the indentation level `k` -/
def LL.groups (esc : List Char) (k : Nat) : LL → List (List Str)
  | .x g _ => [ind k g]
  | .l _ items => LL.groupsL esc k items
  | .it m t rest => ind k [m ++ escAll esc t] :: LL.groupsL esc (k + 1) rest
def LL.groupsL (esc : List Char) (k : Nat) : List LL → List (List Str)
  | [] => []
  | b :: r => b.groups esc k ++ LL.groupsL esc k r
end

mutual
/-- the tree; `first`: for an item, whether it is the first of its list -/
def LL.tree (first : Bool) : LL → GT
  | .x _ t => t
  | .l o items => .el (if o then "ol".toList else "ul".toList) none (LL.treeItems true items)
  | .it _ t rest => .el "li".toList (if first then some [] else none) (.el "p".toList (some t) [] :: LL.trees rest)
def LL.trees : List LL → List GT
  | [] => []
  | b :: r => b.tree false :: LL.trees r
def LL.treeItems (first : Bool) : List LL → List GT
  | [] => []
  | i :: r => i.tree first :: LL.treeItems false r
end

def LL.isBq (b : LL) : Bool := (b.tree false).isBqG
def LL.isList (b : LL) : Bool := (b.tree false).isListG

/-- no two quotes and no two lists next to each other -/
def adjOK (pb pl : Bool) : List LL → Bool
  | [] => true
  | b :: r => !(pb && b.isBq) && !(pl && b.isList) && adjOK b.isBq b.isList r

/-- a list has two items, or its only item has a second block -/
def LL.firstOK : List LL → Bool
  | .it _ _ rest :: is => !rest.isEmpty || !is.isEmpty
  | _ => false

mutual
inductive OkB (esc : List Char) : LL → Prop
  | x {g : List Str} {t : GT} : GoodGroup g → (∀ l, g.head? = some l → l.head? ≠ some ' ') →
      EffX [joinLines g] (t.src esc) → t.ok = true → t.isListG = false → OkB esc (.x g t)
  | l {o : Bool} {items : List LL} : OkIs esc o items → LL.firstOK items = true → OkB esc (.l o items)
inductive OkBs (esc : List Char) : List LL → Prop
  | nil : OkBs esc []
  | cons {b : LL} {r : List LL} : OkB esc b → OkBs esc r → OkBs esc (b :: r)
inductive OkI (esc : List Char) : Bool → LL → Prop
  | it {o : Bool} {m t : Str} {rest : List LL} : IsMarker o m → lineText t = true → OkBs esc rest →
      adjOK false false rest = true → OkI esc o (.it m t rest)
inductive OkIs (esc : List Char) : Bool → List LL → Prop
  | nil {o : Bool} : OkIs esc o []
  | cons {o : Bool} {i : LL} {r : List LL} : OkI esc o i → OkIs esc o r → OkIs esc o (i :: r)
end

/-! ### shapes -/

theorem groups_x (esc : List Char) (k : Nat) (g : List Str) (t : GT) : (LL.x g t).groups esc k = [ind k g] := by
  rw [LL.groups]
theorem groups_l (esc : List Char) (k : Nat) (o : Bool) (items : List LL) :
    (LL.l o items).groups esc k = LL.groupsL esc k items := by rw [LL.groups]
theorem groups_it (esc : List Char) (k : Nat) (m t : Str) (rest : List LL) :
    (LL.it m t rest).groups esc k = ind k [m ++ escAll esc t] :: LL.groupsL esc (k + 1) rest := by rw [LL.groups]
theorem groupsL_nil (esc : List Char) (k : Nat) : LL.groupsL esc k [] = [] := by rw [LL.groupsL]
theorem groupsL_cons (esc : List Char) (k : Nat) (b : LL) (r : List LL) :
    LL.groupsL esc k (b :: r) = b.groups esc k ++ LL.groupsL esc k r := by rw [LL.groupsL]

theorem tree_x (first : Bool) (g : List Str) (t : GT) : (LL.x g t).tree first = t := by rw [LL.tree]
theorem tree_l (first : Bool) (o : Bool) (items : List LL) :
    (LL.l o items).tree first = .el (if o then "ol".toList else "ul".toList) none (LL.treeItems true items) := by
  rw [LL.tree]
theorem tree_it (first : Bool) (m t : Str) (rest : List LL) :
    (LL.it m t rest).tree first =
      .el "li".toList (if first then some [] else none) (.el "p".toList (some t) [] :: LL.trees rest) := by
  rw [LL.tree]
theorem trees_nil : LL.trees [] = [] := by rw [LL.trees]
theorem trees_cons (b : LL) (r : List LL) : LL.trees (b :: r) = b.tree false :: LL.trees r := by rw [LL.trees]
theorem treeItems_nil (first : Bool) : LL.treeItems first [] = [] := by rw [LL.treeItems]
theorem treeItems_cons (first : Bool) (i : LL) (r : List LL) :
    LL.treeItems first (i :: r) = i.tree first :: LL.treeItems false r := by rw [LL.treeItems]

theorem gsrcs_append (esc : List Char) (a b : List GT) : GT.srcs esc (a ++ b) = GT.srcs esc a ++ GT.srcs esc b := by
  simp [gsrcs_eq_map]

theorem gsrcs_single (esc : List Char) (a : GT) : GT.srcs esc [a] = [a.src esc] := by simp [gsrcs_eq_map]

theorem src_it (esc : List Char) (first : Bool) (m t : Str) (rest : List LL) :
    ((LL.it m t rest).tree first).src esc = liN first (pN esc t :: GT.srcs esc (LL.trees rest)) := by
  rw [tree_it]
  cases first <;> simp [GT.src, GT.srcs, liN, pN, mkText, Node.el, escAll]

theorem src_l (esc : List Char) (first : Bool) (o : Bool) (items : List LL) :
    ((LL.l o items).tree first).src esc =
      { ulE o with children := GT.srcs esc (LL.treeItems true items) } := by
  rw [tree_l]
  cases o <;> simp [GT.src, ulE, Node.el]

theorem isList_l (o : Bool) (items : List LL) : (LL.l o items).isList = true := by
  rw [LL.isList, tree_l]; cases o <;> simp [GT.isListG, GT.tag]

theorem isBq_l (o : Bool) (items : List LL) : (LL.l o items).isBq = false := by
  rw [LL.isBq, tree_l]; cases o <;> simp [GT.isBqG, GT.tag]

theorem gsrc_tail (esc : List Char) (t : GT) : (t.src esc).tail = none := by cases t; simp [GT.src]

def lastBq (done : List GT) : Bool := match done.getLast? with | some d => d.isBqG | none => false
def lastList (done : List GT) : Bool := match done.getLast? with | some d => d.isListG | none => false

theorem lastBq_snoc (done : List GT) (d : GT) : lastBq (done ++ [d]) = d.isBqG := by simp [lastBq]
theorem lastList_snoc (done : List GT) (d : GT) : lastList (done ++ [d]) = d.isListG := by simp [lastList]

/-- the last child of an open item: the paragraph or the last block so far -/
theorem last_kids (esc : List Char) (t : Str) (done : List GT) (sib : Node)
    (h : (pN esc t :: GT.srcs esc done).getLast? = some sib) :
    (done = [] ∧ sib = pN esc t) ∨ (∃ d' d, done = d' ++ [d] ∧ sib = d.src esc) := by
  rcases List.eq_nil_or_concat done with rfl | ⟨d', d, hdd⟩
  · left; simp [GT.srcs] at h; exact ⟨rfl, h.symm⟩
  · right
    rw [List.concat_eq_append] at hdd
    subst hdd
    refine ⟨d', d, rfl, ?_⟩
    rw [gsrcs_append, gsrcs_single, ← List.cons_append, List.getLast?_append] at h
    simpa using h.symm

theorem goks_append {a b : List GT} (ha : GT.oks a = true) (hb : GT.oks b = true) : GT.oks (a ++ b) = true := by
  induction a with
  | nil => exact hb
  | cons x r ih =>
    simp only [GT.oks, Bool.and_eq_true] at ha
    simp only [List.cons_append, GT.oks, Bool.and_eq_true]
    exact ⟨ha.1, ih ha.2⟩

theorem pok_li (esc : List Char) (first : Bool) (t : Str) (done : List GT) (hok : GT.oks done = true) (n : Node)
    (hbq : n.isTag "blockquote" = true → lastBq done = false) (hli : isListTag n = true → lastList done = false) :
    POK (liN first (pN esc t :: GT.srcs esc done)) n := by
  refine ⟨rfl, ?_⟩
  intro sib hs
  rcases last_kids esc t done sib hs with ⟨_, rfl⟩ | ⟨d', d, rfl, rfl⟩
  · exact ⟨rfl, fun _ => rfl, fun _ => rfl⟩
  · have hd : d.ok = true := goks_mem hok d (by simp)
    refine ⟨preCode_gsrc esc d hd, ?_, ?_⟩
    · intro h; rw [isTag_bq_gsrc, ← lastBq_snoc d' d]; exact hbq h
    · intro h; rw [isListTag_gsrc, ← lastList_snoc d' d]; exact hli h

theorem tails_li (esc : List Char) (first : Bool) (t : Str) (done : List GT) :
    ∀ c, (liN first (pN esc t :: GT.srcs esc done)).last? = some c → Node.truthy c.tail = false := by
  intro c hc
  rcases last_kids esc t done c hc with ⟨_, rfl⟩ | ⟨d', d, rfl, rfl⟩
  · rfl
  · rw [gsrc_tail]; rfl

/-! ### the trees are in the family -/

mutual
theorem tree_okB {esc : List Char} : (b : LL) → OkB esc b → (b.tree false).ok = true
  | .x g t, h => by
    cases h with
    | x _ _ _ hok _ => rw [tree_x]; exact hok
  | .l o items, h => by
    cases h with
    | l hi _ =>
      have := tree_okIs items o hi true
      rw [tree_l, GT.ok]
      cases o <;> simp [this, gtTags]
  | .it _ _ _, h => by cases h
theorem tree_okBs {esc : List Char} : (bs : List LL) → OkBs esc bs → GT.oks (LL.trees bs) = true
  | [], _ => by rw [trees_nil]; rfl
  | b :: r, h => by
    cases h with
    | cons hb hr => rw [trees_cons, GT.oks, tree_okB b hb, tree_okBs r hr]; rfl
theorem tree_okI {esc : List Char} : (i : LL) → (o : Bool) → OkI esc o i → ∀ first : Bool, (i.tree first).ok = true
  | .it m t rest, o, h, first => by
    cases h with
    | it hm ht hrest _ =>
      have := tree_okBs rest hrest
      rw [tree_it]
      cases first <;> simp [this, gtTags, GT.oks, GT.ok, ht]
  | .x _ _, _, h, _ => by cases h
  | .l _ _, _, h, _ => by cases h
theorem tree_okIs {esc : List Char} : (is : List LL) → (o : Bool) → OkIs esc o is → ∀ first : Bool,
    GT.oks (LL.treeItems first is) = true
  | [], _, _, _ => by rw [treeItems_nil]; rfl
  | i :: r, o, h, first => by
    cases h with
    | cons hi hr => rw [treeItems_cons, GT.oks, tree_okI i o hi first, tree_okIs r o hr false]; rfl
end

/-! ### the chunks of a loose list, one after the other -/

theorem firstOK_it {m t : Str} {rest is : List LL} (h : LL.firstOK (.it m t rest :: is) = true) :
    rest ≠ [] ∨ is ≠ [] := by
  simp only [LL.firstOK, Bool.or_eq_true, Bool.not_eq_true', List.isEmpty_eq_false_iff] at h
  exact h

theorem adjOK_cons {pb pl : Bool} {b : LL} {r : List LL} (h : adjOK pb pl (b :: r) = true) :
    (b.isBq = true → pb = false) ∧ (b.isList = true → pl = false) ∧ adjOK b.isBq b.isList r = true := by
  simp only [adjOK, Bool.and_eq_true, Bool.not_eq_true', Bool.and_eq_false_iff] at h
  refine ⟨fun hb => ?_, fun hb => ?_, h.2⟩
  · rcases h.1.1 with h' | h'
    · exact h'
    · rw [hb] at h'; cases h'
  · rcases h.1.2 with h' | h'
    · exact h'
    · rw [hb] at h'; cases h'

section main
variable {esc : List Char}

mutual
/-- one further block of an open item -/
theorem eff_block (hE : EscOK esc) : (b : LL) → OkB esc b →
    ∀ (F : List (Node × Node)), TopOK F → ∀ (T : Node), isItemTag T = true →
    ∀ (first : Bool) (t : Str) (done : List GT), textToP T = liN first (pN esc t :: GT.srcs esc done) →
    GT.oks done = true → (b.isBq = true → lastBq done = false) → (b.isList = true → lastList done = false) →
    ∀ (st : List BState), isstate st .list = false → isstate st .detabbed = false →
    ∀ (refs : Refs) (cont : List Str) (res : Node × Refs),
    RunsE st refs (plug F (liN first (pN esc t :: GT.srcs esc (done ++ [b.tree false])))) cont res →
    RunsE st refs (plug F T) ((b.groups esc F.length).map joinLines ++ cont) res
  | .x g tr, h, F, hF, T, hT, first, t, done, hTP, hdone, hbq, hli, st, hl, hd, refs, cont, res, hr => by
    cases h with
    | x hg hsp heff hok hnl =>
      have hbq' : tr.isBqG = true → lastBq done = false := by simpa [LL.isBq, tree_x] using hbq
      have hli' : tr.isListG = true → lastList done = false := by simpa [LL.isList, tree_x] using hli
      have hpok : POK (textToP T) (tr.src esc) := by
        rw [hTP]
        exact pok_li esc first t done hdone _ (by rw [isTag_bq_gsrc]; exact hbq') (by rw [isListTag_gsrc]; exact hli')
      rw [tree_x, gsrcs_append, gsrcs_single, ← List.cons_append, ← liN_append, ← hTP] at hr
      have := step_x hF T hT st hl hd g hg hsp (tr.src esc) heff hpok refs cont res hr
      rw [groups_x]; exact this
  | .l o (.it m t1 rest :: is), h, F, hF, T, hT, first, t, done, hTP, hdone, _, hli, st, hl, hd, refs, cont, res, hr => by
    cases h with
    | l hitems hfirst =>
      cases hitems with
      | cons hi his =>
        cases hi with
        | it hm ht1 hrest hadj =>
          have hne1 := (lineText_facts ht1).1
          have hfinal : liN first (pN esc t :: GT.srcs esc (done ++ [(LL.l o (.it m t1 rest :: is)).tree false])) =
              (liN first (pN esc t :: GT.srcs esc done)).append
                { ulE o with children := ((ulE o).children ++
                    liN true (pN esc t1 :: GT.srcs esc (LL.trees rest)) :: GT.srcs esc (LL.treeItems false is)) } := by
            rw [gsrcs_append, gsrcs_single, src_l, treeItems_cons, ← List.cons_append, ← liN_append]
            simp [GT.srcs, src_it, ulE, Node.el]
          rw [hfinal] at hr
          have hctx : CtxOK F (liN first (pN esc t :: GT.srcs esc done)) :=
            Or.inr ⟨hF, rfl, by cases first <;> rfl⟩
          -- the remaining items
          have h3 := eff_items hE is o his F _ hctx (ulE o)
            (if rest = [] then liText esc t1 else liN true (pN esc t1 :: GT.srcs esc (LL.trees rest)))
            (liN true (pN esc t1 :: GT.srcs esc (LL.trees rest))) (isListTag_ulE o)
            (by by_cases hr0 : rest = []
                · simp [hr0, trees_nil, GT.srcs, textToP_liText hne1]
                · simp [hr0, textToP_liN])
            (tails_li esc true t1 _)
            (by intro his0
                rcases firstOK_it hfirst with h' | h'
                · simp [h']
                · exact absurd his0 h')
            st hl hd refs cont res hr
          -- the further blocks of the first item
          have h2 : RunsE st refs
              (plug F ((liN first (pN esc t :: GT.srcs esc done)).append ((ulE o).append (liText esc t1))))
              ((LL.groupsL esc (F.length + 1) rest).map joinLines ++
                ((LL.groupsL esc F.length is).map joinLines ++ cont)) res := by
            by_cases hr0 : rest = []
            · subst hr0
              simpa [groupsL_nil] using h3
            · have hF' : TopOK (F ++ [(liN first (pN esc t :: GT.srcs esc done), ulE o)]) :=
                topOK_snoc hctx (isListTag_ulE o)
              have := eff_blocks hE rest hrest hr0 _ hF' (liText esc t1) rfl true t1 []
                (by simp [GT.srcs, textToP_liText hne1]) rfl (by simpa [lastBq, lastList] using hadj)
                st hl hd refs _ res
                (by rw [plug_snoc]; simpa [hr0, plugF] using h3)
              rw [plug_snoc] at this
              simpa [plugF] using this
          -- the chunk that starts the list
          have hpok : POK (textToP T) ((ulE o).append (liText esc t1)) := by
            rw [hTP]
            refine pok_li esc first t done hdone _ ?_ ?_
            · intro hx; cases o <;> simp [ulE, Node.append, Node.isTag, Node.el] at hx
            · intro _; exact hli (isList_l o _)
          have hgood : GoodGroup [m ++ escAll esc t1] :=
            ⟨by simp, by intro l hl; simp only [List.mem_singleton] at hl; subst hl; exact goodLine_marker hE hm t1 ht1⟩
          obtain ⟨d, dr, hmr, hdsp, _⟩ := marker_head hm
          have h1 := step_x hF T hT st hl hd [m ++ escAll esc t1] hgood
            (by intro l hl; simp only [List.head?_cons, Option.some.injEq] at hl; subst hl; rw [hmr]; simpa using hdsp)
            _ (effX_first_item hE hm ht1) hpok refs _ res (by rw [hTP]; exact h2)
          rw [groups_l, groupsL_cons, groups_it]
          simpa [List.map_append, List.append_assoc] using h1
  | .l o [], h, _, _, _, _, _, _, _, _, _, _, _, _, _, _, _, _, _, _ => by
    cases h with
    | l _ hf => simp [LL.firstOK] at hf
  | .l o (.x _ _ :: _), h, _, _, _, _, _, _, _, _, _, _, _, _, _, _, _, _, _, _ => by
    cases h with
    | l _ hf => simp [LL.firstOK] at hf
  | .l o (.l _ _ :: _), h, _, _, _, _, _, _, _, _, _, _, _, _, _, _, _, _, _, _ => by
    cases h with
    | l _ hf => simp [LL.firstOK] at hf
  | .it _ _ _, h, _, _, _, _, _, _, _, _, _, _, _, _, _, _, _, _, _, _ => by cases h
/-- the further blocks of an open item -/
theorem eff_blocks (hE : EscOK esc) : (bs : List LL) → OkBs esc bs → bs ≠ [] →
    ∀ (F : List (Node × Node)), TopOK F → ∀ (T : Node), isItemTag T = true →
    ∀ (first : Bool) (t : Str) (done : List GT), textToP T = liN first (pN esc t :: GT.srcs esc done) →
    GT.oks done = true → adjOK (lastBq done) (lastList done) bs = true →
    ∀ (st : List BState), isstate st .list = false → isstate st .detabbed = false →
    ∀ (refs : Refs) (cont : List Str) (res : Node × Refs),
    RunsE st refs (plug F (liN first (pN esc t :: GT.srcs esc (done ++ LL.trees bs)))) cont res →
    RunsE st refs (plug F T) ((LL.groupsL esc F.length bs).map joinLines ++ cont) res
  | [], _, hne, _, _, _, _, _, _, _, _, _, _, _, _, _, _, _, _, _ => absurd rfl hne
  | b :: r, h, _, F, hF, T, hT, first, t, done, hTP, hdone, hadj, st, hl, hd, refs, cont, res, hr => by
    cases h with
    | cons hb hr' =>
      obtain ⟨hbq, hli, hadj'⟩ := adjOK_cons hadj
      have hokb := tree_okB b hb
      have hdone' : GT.oks (done ++ [b.tree false]) = true := goks_append hdone (by simp [GT.oks, hokb])
      by_cases hr0 : r = []
      · subst hr0
        rw [trees_cons, trees_nil] at hr
        rw [groupsL_cons, groupsL_nil, List.append_nil]
        exact eff_block hE b hb F hF T hT first t done hTP hdone hbq hli st hl hd refs cont res hr
      · have e : done ++ LL.trees (b :: r) = (done ++ [b.tree false]) ++ LL.trees r := by rw [trees_cons]; simp
        rw [e] at hr
        have h2 := eff_blocks hE r hr' hr0 F hF (liN first (pN esc t :: GT.srcs esc (done ++ [b.tree false]))) rfl first t
          (done ++ [b.tree false]) (textToP_liN _ _) hdone' (by rw [lastBq_snoc, lastList_snoc]; exact hadj')
          st hl hd refs cont res hr
        have h1 := eff_block hE b hb F hF T hT first t done hTP hdone hbq hli st hl hd refs _ res h2
        rw [groupsL_cons, List.map_append, List.append_assoc]; exact h1
/-- the later items of an open list -/
theorem eff_items (hE : EscOK esc) : (is : List LL) → (o : Bool) → OkIs esc o is →
    ∀ (F0 : List (Node × Node)) (Q : Node), CtxOK F0 Q → ∀ (Uq cur curF : Node), isListTag Uq = true →
    textToP cur = curF → (∀ c, curF.last? = some c → Node.truthy c.tail = false) → (is = [] → cur = curF) →
    ∀ (st : List BState), isstate st .list = false → isstate st .detabbed = false →
    ∀ (refs : Refs) (cont : List Str) (res : Node × Refs),
    RunsE st refs (plug F0 (Q.append
      { Uq with children := Uq.children ++ curF :: GT.srcs esc (LL.treeItems false is) })) cont res →
    RunsE st refs (plug F0 (Q.append (Uq.append cur))) ((LL.groupsL esc F0.length is).map joinLines ++ cont) res
  | [], o, _, F0, Q, hctx, Uq, cur, curF, hUq, hcur, htl, hfin, st, hl, hd, refs, cont, res, hr => by
    rw [hfin rfl]
    rw [treeItems_nil] at hr
    simpa [groupsL_nil, GT.srcs, Node.append] using hr
  | .it m t rest :: is', o, h, F0, Q, hctx, Uq, cur, curF, hUq, hcur, htl, _, st, hl, hd, refs, cont, res, hr => by
    cases h with
    | cons hi his =>
      cases hi with
      | it hm ht hrest hadj =>
        have hfinal : ({ Uq with children := (Uq.children ++
              curF :: GT.srcs esc (LL.treeItems false (.it m t rest :: is'))) } : Node) =
            { Uq.append curF with children := ((Uq.append curF).children ++
              liN false (pN esc t :: GT.srcs esc (LL.trees rest)) :: GT.srcs esc (LL.treeItems false is')) } := by
          rw [treeItems_cons]; simp [GT.srcs, src_it, Node.append]
        rw [hfinal] at hr
        have hUq' : isListTag (Uq.append curF) = true := hUq
        have h3 := eff_items hE is' o his F0 Q hctx (Uq.append curF) (liN false (pN esc t :: GT.srcs esc (LL.trees rest)))
          _ hUq' (textToP_liN _ _) (tails_li esc false t _) (fun _ => rfl) st hl hd refs cont res hr
        have h2 : RunsE st refs (plug F0 (Q.append ((Uq.append curF).append (liN false [pN esc t]))))
            ((LL.groupsL esc (F0.length + 1) rest).map joinLines ++
              ((LL.groupsL esc F0.length is').map joinLines ++ cont)) res := by
          by_cases hr0 : rest = []
          · subst hr0
            simpa [groupsL_nil, trees_nil, GT.srcs] using h3
          · have hF' : TopOK (F0 ++ [(Q, Uq.append curF)]) := topOK_snoc hctx hUq'
            have := eff_blocks hE rest hrest hr0 _ hF' (liN false [pN esc t]) rfl false t []
              (by simp [GT.srcs, textToP_liN]) rfl (by simpa [lastBq, lastList] using hadj)
              st hl hd refs _ res
              (by rw [plug_snoc]; simpa [plugF] using h3)
            rw [plug_snoc] at this
            simpa [plugF] using this
        have h1 := step_item hE hm t ht hctx Uq cur hUq (by rw [hcur]; exact htl) st hl hd refs _ res
          (by rw [hcur]; exact h2)
        rw [groupsL_cons, groups_it]
        simpa [List.map_append, List.append_assoc] using h1
  | .x _ _ :: _, _, h, _, _, _, _, _, _, _, _, _, _, _, _, _, _, _, _, _ => by
    cases h with
    | cons hi _ => cases hi
  | .l _ _ :: _, _, h, _, _, _, _, _, _, _, _, _, _, _, _, _, _, _, _, _ => by
    cases h with
    | cons hi _ => cases hi
end

end main

/-! ### a loose list as a block of the document -/

/-- the chunks append the element `n` to a parent that is not an item, in a state that is neither `list` nor
    `detabbed` (in the state `detabbed` an indented chunk would be a code block) -/
def EffN (chunks : List Str) (n : Node) : Prop :=
  ∀ (st : List BState) (refs : Refs) (parent : Node) (rest : List Str) (res : Node × Refs),
    isstate st .list = false → isstate st .detabbed = false → isItemTag parent = false → POK parent n →
    RunsE st refs (parent.append n) rest res → RunsE st refs parent (chunks ++ rest) res

theorem effN_of_effX {chunks : List Str} {n : Node} (h : EffX chunks n) : EffN chunks n :=
  fun st refs parent rest res hl _ _ hp hr => h st refs parent rest res hl hp hr

/-- **a loose list**, nested to any depth: its chunks append the `ul`/`ol` element with all its items -/
theorem effN_loose {esc : List Char} (hE : EscOK esc) (o : Bool) (items : List LL) (h : OkB esc (.l o items)) :
    EffN (((LL.l o items).groups esc 0).map joinLines) (((LL.l o items).tree false).src esc) := by
  intro st refs parent cont res hl hd hpi hpok hr
  cases h with
  | l hitems hfirst =>
    match items, hitems, hfirst with
    | .it m t1 rest :: is, hitems, hfirst =>
      cases hitems with
      | cons hi his =>
        cases hi with
        | it hm ht1 hrest hadj =>
          have hne1 := (lineText_facts ht1).1
          have hfinal : ((LL.l o (.it m t1 rest :: is)).tree false).src esc =
              { ulE o with children := ((ulE o).children ++
                liN true (pN esc t1 :: GT.srcs esc (LL.trees rest)) :: GT.srcs esc (LL.treeItems false is)) } := by
            rw [src_l, treeItems_cons]
            simp [GT.srcs, src_it, ulE, Node.el]
          have hctx : CtxOK [] parent := Or.inl ⟨rfl, hpi⟩
          rw [hfinal] at hr
          have h3 := eff_items hE is o his [] parent hctx (ulE o)
            (if rest = [] then liText esc t1 else liN true (pN esc t1 :: GT.srcs esc (LL.trees rest)))
            (liN true (pN esc t1 :: GT.srcs esc (LL.trees rest))) (isListTag_ulE o)
            (by by_cases hr0 : rest = []
                · simp [hr0, trees_nil, GT.srcs, textToP_liText hne1]
                · simp [hr0, textToP_liN])
            (tails_li esc true t1 _)
            (by intro his0
                rcases firstOK_it hfirst with h' | h'
                · simp [h']
                · exact absurd his0 h')
            st hl hd refs cont res hr
          have h2 : RunsE st refs (parent.append ((ulE o).append (liText esc t1)))
              ((LL.groupsL esc 1 rest).map joinLines ++ ((LL.groupsL esc 0 is).map joinLines ++ cont)) res := by
            by_cases hr0 : rest = []
            · subst hr0
              simpa [groupsL_nil, plug] using h3
            · have hF' : TopOK ([] ++ [(parent, ulE o)]) := topOK_snoc hctx (isListTag_ulE o)
              have := eff_blocks hE rest hrest hr0 _ hF' (liText esc t1) rfl true t1 []
                (by simp [GT.srcs, textToP_liText hne1]) rfl (by simpa [lastBq, lastList] using hadj)
                st hl hd refs _ res
                (by simpa [hr0, plug, plugF] using h3)
              simpa [plug, plugF] using this
          have hpok' : POK parent ((ulE o).append (liText esc t1)) := by
            refine ⟨hpok.1, fun sib hs => ?_⟩
            obtain ⟨p1, _, p3⟩ := hpok.2 sib hs
            refine ⟨p1, ?_, ?_⟩
            · intro hx; cases o <;> simp [ulE, Node.append, Node.isTag, Node.el] at hx
            · intro _; apply p3; rw [isListTag_gsrc]; exact isList_l o _
          have h1 := effX_first_item hE hm ht1 st refs parent _ res hl hpok' h2
          rw [groups_l, groupsL_cons, groups_it, ind_zero]
          simpa [List.map_append, List.append_assoc, joinLines_single] using h1

end MdVerif.DocParse
