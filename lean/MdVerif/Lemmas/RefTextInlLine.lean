/-
Helper lemmas for `Props/C06Links.lean` (inline links), part 2: the pattern loop on a line
`C₀ [T₁](d₁) C₁ … [Tₘ](dₘ) Cₘ` — mixed content around and inside `m` inline links with simple destinations.  The
passes are those of `Lemmas/RefTextLine.lean` with the other closing part `](dest)`; the reference pattern (2) finds
nothing, the link pattern (3) takes the links out left to right; the result has the shape of `lineRes`/`lineStash` of
`Lemmas/RefTextLoop.lean` for the uses `IUse.toR`.  Core Lean only.
-/
import MdVerif.Lemmas.RefTextInl

namespace MdVerif.RefText
open Py Inline Escape CodeLaw DocParse DocParse2

/-- an inline link in a line: the link text, the destination, the title with its quote character, and the content
    that follows -/
structure IUse where
  T : Chunk
  url : Str
  dtitle : Option (Char × Str)
  C : Chunk

/-- the same use as the later stages see it (`sp`, `label` are not looked at there) -/
def IUse.toR (i : IUse) : RUse := ⟨i.T, [], destSrc i.url i.dtitle, i.url, titleOf i.dtitle, i.C⟩

structure IUseOK (esc : List Char) (u : IUse) : Prop where
  text : ChunkOK esc u.T
  textNe : u.T.t0 ≠ [] ∨ u.T.segs ≠ []
  after : ChunkOK esc u.C
  dest : DestOK u.url u.dtitle

/-- `](dest)` -/
def closerI (u : IUse) : Str := ']' :: '(' :: (destSrc u.url u.dtitle ++ [')'])

def usStageI (esc : List Char) (lv : Nat) (pe : Bool) : Nat → Nat → List IUse → Str
  | _, _, [] => []
  | m, n0, u :: r =>
    '[' :: (u.T.stage esc lv pe m n0 0 0 ++ (']' :: '(' :: (destSrc u.url u.dtitle ++ (')' ::
      (u.C.stage esc lv pe (m + u.T.escs esc) (n0 + u.T.cnt 0) 0 0 ++
        usStageI esc lv pe (m + u.T.escs esc + u.C.escs esc) (n0 + u.T.cnt 0 + u.C.cnt 0) r)))))

theorem usStageI_cons (esc : List Char) (lv : Nat) (pe : Bool) (m n0 : Nat) (u : IUse) (r : List IUse) :
    usStageI esc lv pe m n0 (u :: r) =
      ['['] ++ (u.T.stage esc lv pe m n0 0 0 ++ (closerI u ++
        (u.C.stage esc lv pe (m + u.T.escs esc) (n0 + u.T.cnt 0) 0 0 ++
          usStageI esc lv pe (m + u.T.escs esc + u.C.escs esc) (n0 + u.T.cnt 0 + u.C.cnt 0) r))) := by
  simp [usStageI, closerI, List.append_assoc]

theorem usStageI_head (esc : List Char) (lv : Nat) (pe : Bool) (m n0 : Nat) (us : List IUse) :
    (usStageI esc lv pe m n0 us).head? ≠ some '`' := by
  cases us with
  | nil => simp [usStageI]
  | cons u r => simp [usStageI]

theorem dest_chars {url : Str} {title : Option (Char × Str)} (h : DestOK url title) :
    ∀ c ∈ destSrc url title, c ≠ '`' ∧ c ≠ '\\' ∧ c ≠ '[' ∧ c ≠ ']' ∧ c ≠ '!' := by
  obtain ⟨hu, _, _, htl⟩ := h
  have hd : ∀ c, NoCtl.destChar c = true → c ≠ '`' ∧ c ≠ '\\' ∧ c ≠ '[' ∧ c ≠ ']' := by
    intro c hc
    have hp := NoCtl.destChar_props hc
    refine ⟨?_, ?_, hp.2.2.2.2.2.2.2.1, hp.2.2.2.2.2.2.2.2⟩ <;>
      (intro e; subst e; revert hc; decide)
  intro c hc
  simp only [destSrc, List.mem_append] at hc
  rcases hc with hc | hc
  · have := urlCh_facts (hu c hc)
    exact ⟨(hd c this.1).1, (hd c this.1).2.1, (hd c this.1).2.2.1, (hd c this.1).2.2.2, this.2.2⟩
  · cases title with
    | none => cases hc
    | some qt =>
      obtain ⟨q, t⟩ := qt
      obtain ⟨hq, ht, _⟩ := htl
      have hqf : q ≠ '`' ∧ q ≠ '\\' ∧ q ≠ '[' ∧ q ≠ ']' ∧ q ≠ '!' := by
        rcases hq with e | e <;> rw [e] <;> decide
      simp only [List.mem_cons, List.mem_append, List.not_mem_nil, or_false] at hc
      rcases hc with rfl | rfl | hc | rfl
      · exact ⟨by decide, by decide, by decide, by decide, by decide⟩
      · exact hqf
      · have := titleCh_facts (ht c hc)
        exact ⟨(hd c this.1).1, (hd c this.1).2.1, (hd c this.1).2.2.1, (hd c this.1).2.2.2, this.2.2⟩
      · exact hqf

theorem closerI_chars {esc : List Char} {u : IUse} (h : IUseOK esc u) :
    ∀ c ∈ closerI u, c ≠ '`' ∧ c ≠ '\\' ∧ c ≠ '[' ∧ c ≠ '!' := by
  intro c hc
  simp only [closerI, List.mem_cons, List.mem_append, List.not_mem_nil, or_false] at hc
  rcases hc with rfl | rfl | hc | rfl
  · exact ⟨by decide, by decide, by decide, by decide⟩
  · exact ⟨by decide, by decide, by decide, by decide⟩
  · have := dest_chars h.dest c hc
    exact ⟨this.1, this.2.1, this.2.2.1, this.2.2.2.2⟩
  · exact ⟨by decide, by decide, by decide, by decide⟩

theorem noTickBs_closerI {esc : List Char} {u : IUse} (h : IUseOK esc u) : noTickBs (closerI u) :=
  fun c hc => ⟨(closerI_chars h c hc).1, (closerI_chars h c hc).2.1⟩

theorem bs_not_mem_closerI {esc : List Char} {u : IUse} (h : IUseOK esc u) : '\\' ∉ closerI u :=
  fun hc => (closerI_chars h _ hc).2.1 rfl

/-! ### patterns 0 and 1 -/

/-- **the backtick pass on the uses**: the code spans of all the chunks, left to right -/
theorem code_pass_usesI (cfg : Inline.Cfg) (hi : HI) (hb : '\\' ∈ cfg.esc) (ht : '`' ∈ cfg.esc) (us : List IUse) :
    ∀ (A : Str) (m n0 : Nat) (st : St) (g : Nat), BtOK A → (∀ u ∈ us, IUseOK cfg.esc u) →
      hiLoop (applyPattern cfg hi) (g + usCnt0 (us.map IUse.toR)) (A ++ usStageI cfg.esc 0 false m n0 us) 0 0 st =
        hiLoop (applyPattern cfg hi) g (A ++ usStageI cfg.esc 1 false m st.stash.length us) 0 0
          { st with stash := st.stash ++ usNodes0 (us.map IUse.toR) } ∧
      BtOK (A ++ usStageI cfg.esc 1 false m st.stash.length us) := by
  induction us with
  | nil => intro A m n0 st g hA _; simp [usStageI, usCnt0, usNodes0, hA]
  | cons u r ih =>
    intro A m n0 st g hA hus
    have hu := hus u List.mem_cons_self
    have hur : ∀ x ∈ r, IUseOK cfg.esc x := fun x hx => hus x (List.mem_cons_of_mem _ hx)
    -- the opening bracket
    have hA1 := btOK_item hA (show noTickBs ['['] from fun c hc => by simp at hc; subst hc; exact ⟨by decide, by decide⟩)
    have hA1l := hA1.2 (by simp)
    -- the text
    have e1 := code_pass_chunk cfg hi hb ht
      (closerI u ++ (u.C.stage cfg.esc 0 false (m + u.T.escs cfg.esc) (n0 + u.T.cnt 0) 0 0 ++
        usStageI cfg.esc 0 false (m + u.T.escs cfg.esc + u.C.escs cfg.esc) (n0 + u.T.cnt 0 + u.C.cnt 0) r))
      (by simp [closerI]) u.T (A ++ ['[']) m n0 0 0 st (g + usCnt0 (r.map IUse.toR) + u.C.cnt 0) hA1.1 hA1l hu.text.ok hu.text.junctions
    have hA2 := btOK_chunk1 hb ht u.T.segs (A ++ ['[']) u.T.t0 (m + escCount cfg.esc u.T.t0) st.stash.length 0 0
      hA1.1 hA1l hu.text.ok
    have hA3 := btOK_item hA2 (noTickBs_closerI hu)
    have hA3l := hA3.2 (by simp [closerI])
    -- the content after the use
    generalize hst1 : ({ st with stash := st.stash ++ nodesOf 0 u.T.segs } : St) = st1 at e1
    have hst1l : st1.stash.length = st.stash.length + u.T.cnt 0 := by rw [← hst1]; simp [Chunk.cnt]
    have e2 := code_pass_chunk cfg hi hb ht
      (usStageI cfg.esc 0 false (m + u.T.escs cfg.esc + u.C.escs cfg.esc) (n0 + u.T.cnt 0 + u.C.cnt 0) r)
      (usStageI_head _ _ _ _ _ _) u.C
      (A ++ ['['] ++ (escAll cfg.esc u.T.t0 ++ stageM cfg.esc 1 false (m + escCount cfg.esc u.T.t0) st.stash.length 0 0
        u.T.segs) ++ closerI u) (m + u.T.escs cfg.esc) (n0 + u.T.cnt 0) 0 0 st1 (g + usCnt0 (r.map IUse.toR)) hA3.1 hA3l
      hu.after.ok hu.after.junctions
    have hA4 := btOK_chunk1 hb ht u.C.segs _ u.C.t0 (m + u.T.escs cfg.esc + escCount cfg.esc u.C.t0) st1.stash.length 0 0
      hA3.1 hA3l hu.after.ok
    generalize hst2 : ({ st1 with stash := st1.stash ++ nodesOf 0 u.C.segs } : St) = st2 at e2
    have hst2l : st2.stash.length = st.stash.length + u.T.cnt 0 + u.C.cnt 0 := by
      rw [← hst2]; simp [Chunk.cnt, hst1l]
    obtain ⟨e3, hA5⟩ := ih (A ++ ['['] ++ (escAll cfg.esc u.T.t0 ++ stageM cfg.esc 1 false (m + escCount cfg.esc u.T.t0)
        st.stash.length 0 0 u.T.segs) ++ closerI u ++ (escAll cfg.esc u.C.t0 ++ stageM cfg.esc 1 false
        (m + u.T.escs cfg.esc + escCount cfg.esc u.C.t0) st1.stash.length 0 0 u.C.segs))
      (m + u.T.escs cfg.esc + u.C.escs cfg.esc) (n0 + u.T.cnt 0 + u.C.cnt 0) st2 g hA4 hur
    have hstage1T : u.T.stage cfg.esc 1 false m st.stash.length 0 0 =
        escAll cfg.esc u.T.t0 ++ stageM cfg.esc 1 false (m + escCount cfg.esc u.T.t0) st.stash.length 0 0 u.T.segs := by
      simp [Chunk.stage]
    have hstage1C : u.C.stage cfg.esc 1 false (m + u.T.escs cfg.esc) st1.stash.length 0 0 =
        escAll cfg.esc u.C.t0 ++ stageM cfg.esc 1 false (m + u.T.escs cfg.esc + escCount cfg.esc u.C.t0)
          st1.stash.length 0 0 u.C.segs := by
      simp [Chunk.stage]
    refine ⟨?_, ?_⟩
    · rw [usStageI_cons, usStageI_cons]
      rw [show g + usCnt0 ((u :: r).map IUse.toR) = g + usCnt0 (r.map IUse.toR) + u.C.cnt 0 + u.T.cnt 0 by simp [usCnt0, IUse.toR]; omega]
      simp only [List.append_assoc] at e1 e2 e3 ⊢
      rw [e1]
      rw [hstage1T]
      simp only [List.append_assoc]
      rw [e2, hstage1C]
      simp only [List.append_assoc]
      rw [e3, ← hst2, ← hst1]
      simp [usNodes0, IUse.toR, List.append_assoc, Chunk.cnt, Chunk.stage, Nat.add_assoc]
    · rw [usStageI_cons, hstage1T]
      rw [hst1l] at hstage1C
      rw [hstage1C]
      rw [hst2l] at hA5
      rw [hst1l] at hA5
      simpa only [List.append_assoc] using hA5


/-- **the escape pass on the uses** -/
theorem esc_pass_usesI (cfg : Inline.Cfg) (hi : HI) (hE : EscOK cfg.esc) (hrb : ']' ∈ cfg.esc) (us : List IUse) :
    ∀ (A : Str) (m n0 : Nat) (st : St) (g : Nat), '\\' ∉ A → (∀ u ∈ us, IUseOK cfg.esc u) →
      hiLoop (applyPattern cfg hi) (g + usEscs cfg.esc (us.map IUse.toR)) (A ++ usStageI cfg.esc 1 false m n0 us) 1 0 st =
        hiLoop (applyPattern cfg hi) g (A ++ usStageI cfg.esc 1 true st.stash.length n0 us) 1 0
          { st with stash := st.stash ++ usEscStash cfg.esc (us.map IUse.toR) } := by
  induction us with
  | nil => intro A m n0 st g _ _; simp [usStageI, usEscs, usEscStash]
  | cons u r ih =>
    intro A m n0 st g hA hus
    have hu := hus u List.mem_cons_self
    have hur : ∀ x ∈ r, IUseOK cfg.esc x := fun x hx => hus x (List.mem_cons_of_mem _ hx)
    have hA1 : '\\' ∉ A ++ ['['] := by
      intro h; rcases List.mem_append.1 h with h | h
      · exact hA h
      · simp at h
    have e1 := esc_pass_chunk cfg hi hE.bs 1 (by omega)
      (closerI u ++ (u.C.stage cfg.esc 1 false (m + u.T.escs cfg.esc) (n0 + u.T.cnt 0) 0 0 ++
        usStageI cfg.esc 1 false (m + u.T.escs cfg.esc + u.C.escs cfg.esc) (n0 + u.T.cnt 0 + u.C.cnt 0) r))
      u.T (A ++ ['[']) m n0 0 0 st (g + usEscs cfg.esc (r.map IUse.toR) + u.C.escs cfg.esc) hA1 hu.text.ok
    generalize hst1 : ({ st with stash := st.stash ++ u.T.escStash cfg.esc } : St) = st1 at e1
    have hst1l : st1.stash.length = st.stash.length + u.T.escs cfg.esc := by
      rw [← hst1]; simp [Chunk.escStash_length]
    have hA2 : '\\' ∉ A ++ ['['] ++ u.T.stage cfg.esc 1 true st.stash.length n0 0 0 ++ closerI u := by
      intro h
      rcases List.mem_append.1 h with h | h
      · rcases List.mem_append.1 h with h | h
        · exact hA1 h
        · exact bs_not_mem_stage hE hrb 1 (by omega) u.T hu.text.ok hu.text.plain _ _ _ _ h
      · exact bs_not_mem_closerI hu h
    have e2 := esc_pass_chunk cfg hi hE.bs 1 (by omega)
      (usStageI cfg.esc 1 false (m + u.T.escs cfg.esc + u.C.escs cfg.esc) (n0 + u.T.cnt 0 + u.C.cnt 0) r)
      u.C (A ++ ['['] ++ u.T.stage cfg.esc 1 true st.stash.length n0 0 0 ++ closerI u) (m + u.T.escs cfg.esc)
      (n0 + u.T.cnt 0) 0 0 st1 (g + usEscs cfg.esc (r.map IUse.toR)) hA2 hu.after.ok
    generalize hst2 : ({ st1 with stash := st1.stash ++ u.C.escStash cfg.esc } : St) = st2 at e2
    have hst2l : st2.stash.length = st.stash.length + u.T.escs cfg.esc + u.C.escs cfg.esc := by
      rw [← hst2]; simp [Chunk.escStash_length, hst1l]
    have hA3 : '\\' ∉ A ++ ['['] ++ u.T.stage cfg.esc 1 true st.stash.length n0 0 0 ++ closerI u ++
        u.C.stage cfg.esc 1 true st1.stash.length (n0 + u.T.cnt 0) 0 0 := by
      intro h
      rcases List.mem_append.1 h with h | h
      · exact hA2 h
      · exact bs_not_mem_stage hE hrb 1 (by omega) u.C hu.after.ok hu.after.plain _ _ _ _ h
    have e3 := ih _ (m + u.T.escs cfg.esc + u.C.escs cfg.esc) (n0 + u.T.cnt 0 + u.C.cnt 0) st2 g hA3 hur
    rw [usStageI_cons, usStageI_cons]
    rw [show g + usEscs cfg.esc ((u :: r).map IUse.toR) = g + usEscs cfg.esc (r.map IUse.toR) + u.C.escs cfg.esc + u.T.escs cfg.esc by
      simp [usEscs, IUse.toR]; omega]
    simp only [List.append_assoc] at e1 e2 e3 ⊢
    rw [e1, e2, e3, ← hst2, ← hst1]
    simp [usEscStash, IUse.toR, List.append_assoc, Chunk.escStash_length, Nat.add_assoc]


/-! ### pattern 2 finds nothing: every `[text]` is followed by `(` -/

theorem linkScan_nobracket (cfg : Inline.Cfg) (stash : List StashItem) (pi : Nat) (hpi : ¬ (pi = 4 ∨ pi = 5 ∨ pi = 7))
    (data : Str) (s : Str) (h : '[' ∉ s) : ∀ (prev : Option Char) (i : Nat),
    linkScan cfg stash pi data prev s i = none := by
  have himg : (decide (pi = 4) || decide (pi = 5) || decide (pi = 7)) = false := by
    simp only [not_or] at hpi; simp [hpi.1, hpi.2.1, hpi.2.2]
  induction s with
  | nil => intro _ _; rfl
  | cons c r ih =>
    intro prev i
    have hc : c ≠ '[' := fun e => h (e ▸ List.mem_cons_self)
    simp only [linkScan, himg, Bool.false_eq_true, if_false, hc, decide_false, Bool.false_and]
    exact ih (fun hh => h (List.mem_cons_of_mem _ hh)) _ _

theorem linkScan2_uses (cfg : Inline.Cfg) (hE : EscOK cfg.esc) (hrb : ']' ∈ cfg.esc) (stash : List StashItem)
    (us : List IUse) : ∀ (P A : Str) (m n0 : Nat) (prev : Option Char), '[' ∉ A → '!' ∉ A → prev ≠ some '!' →
      (∀ u ∈ us, IUseOK cfg.esc u) →
      linkScan cfg stash 2 (P ++ (A ++ usStageI cfg.esc 1 true m n0 us)) prev (A ++ usStageI cfg.esc 1 true m n0 us)
        P.length = none := by
  induction us with
  | nil =>
    intro P A m n0 prev hA1 _ _ _
    simp only [usStageI, List.append_nil]
    exact linkScan_nobracket cfg stash 2 (by decide) _ A hA1 _ _
  | cons u r ih =>
    intro P A m n0 prev hA1 hA2 hprev hus
    have hu := hus u List.mem_cons_self
    have hT := not_mem_of_charOK (charOK_stage hE hrb 1 (by omega) u.T hu.text.ok hu.text.plain m n0 0 0)
    have hC := not_mem_of_charOK (charOK_stage hE hrb 1 (by omega) u.C hu.after.ok hu.after.plain
      (m + u.T.escs cfg.esc) (n0 + u.T.cnt 0) 0 0)
    generalize hrest : usStageI cfg.esc 1 true (m + u.T.escs cfg.esc + u.C.escs cfg.esc) (n0 + u.T.cnt 0 + u.C.cnt 0) r = R
    have hscan := InlineRef.linkScan_link_at cfg stash 2 (by decide)
      (P ++ (A ++ usStageI cfg.esc 1 true m n0 (u :: r))) A
      (u.T.stage cfg.esc 1 true m n0 0 0 ++ (']' :: '(' :: (destSrc u.url u.dtitle ++ (')' ::
        (u.C.stage cfg.esc 1 true (m + u.T.escs cfg.esc) (n0 + u.T.cnt 0) 0 0 ++ R)))))
      prev P.length hA1 hA2 hprev
    have hdata : P ++ (A ++ usStageI cfg.esc 1 true m n0 (u :: r)) =
        (P ++ A ++ ['[']) ++ u.T.stage cfg.esc 1 true m n0 0 0 ++ ']' :: '(' :: (destSrc u.url u.dtitle ++ (')' ::
          (u.C.stage cfg.esc 1 true (m + u.T.escs cfg.esc) (n0 + u.T.cnt 0) 0 0 ++ R))) := by
      simp [usStageI, hrest, List.append_assoc]
    have hrej := linkHandle_ref_rejectParen cfg stash (P ++ A ++ ['[']) (u.T.stage cfg.esc 1 true m n0 0 0)
      (destSrc u.url u.dtitle ++ (')' :: (u.C.stage cfg.esc 1 true (m + u.T.escs cfg.esc) (n0 + u.T.cnt 0) 0 0 ++ R)))
      (P.length + A.length) hT.1 hT.2.1
    rw [← hdata] at hrej
    have hlen : (P ++ A ++ ['[']).length = P.length + A.length + 1 := by simp; omega
    rw [hlen] at hrej
    have hS : A ++ usStageI cfg.esc 1 true m n0 (u :: r) = A ++ '[' :: (u.T.stage cfg.esc 1 true m n0 0 0 ++
        (']' :: '(' :: (destSrc u.url u.dtitle ++ (')' ::
          (u.C.stage cfg.esc 1 true (m + u.T.escs cfg.esc) (n0 + u.T.cnt 0) 0 0 ++ R))))) := by
      simp [usStageI, hrest]
    rw [hS] at hscan ⊢
    rw [hscan, ← hS, hrej]
    simp only
    -- the rest: the text, the closing part and the content have no `[`
    have hA1' : '[' ∉ u.T.stage cfg.esc 1 true m n0 0 0 ++ (closerI u ++
        u.C.stage cfg.esc 1 true (m + u.T.escs cfg.esc) (n0 + u.T.cnt 0) 0 0) := by
      intro h
      rcases List.mem_append.1 h with h | h
      · exact hT.1 h
      · rcases List.mem_append.1 h with h | h
        · exact (closerI_chars hu _ h).2.2.1 rfl
        · exact hC.1 h
    have hA2' : '!' ∉ u.T.stage cfg.esc 1 true m n0 0 0 ++ (closerI u ++
        u.C.stage cfg.esc 1 true (m + u.T.escs cfg.esc) (n0 + u.T.cnt 0) 0 0) := by
      intro h
      rcases List.mem_append.1 h with h | h
      · exact hT.2.2.1 h
      · rcases List.mem_append.1 h with h | h
        · exact (closerI_chars hu _ h).2.2.2 rfl
        · exact hC.2.2.1 h
    have := ih (P ++ A ++ ['[']) (u.T.stage cfg.esc 1 true m n0 0 0 ++ (closerI u ++
        u.C.stage cfg.esc 1 true (m + u.T.escs cfg.esc) (n0 + u.T.cnt 0) 0 0))
      (m + u.T.escs cfg.esc + u.C.escs cfg.esc) (n0 + u.T.cnt 0 + u.C.cnt 0) (some '[') hA1' hA2' (by simp)
      (fun x hx => hus x (List.mem_cons_of_mem _ hx))
    rw [hrest, hlen] at this
    have e1 : P ++ A ++ ['['] ++ (u.T.stage cfg.esc 1 true m n0 0 0 ++ (closerI u ++
        u.C.stage cfg.esc 1 true (m + u.T.escs cfg.esc) (n0 + u.T.cnt 0) 0 0) ++ R) =
        P ++ (A ++ usStageI cfg.esc 1 true m n0 (u :: r)) := by
      simp [usStageI, closerI, hrest, List.append_assoc]
    have e2 : u.T.stage cfg.esc 1 true m n0 0 0 ++ (closerI u ++
        u.C.stage cfg.esc 1 true (m + u.T.escs cfg.esc) (n0 + u.T.cnt 0) 0 0) ++ R =
        u.T.stage cfg.esc 1 true m n0 0 0 ++ (']' :: '(' :: (destSrc u.url u.dtitle ++ (')' ::
          (u.C.stage cfg.esc 1 true (m + u.T.escs cfg.esc) (n0 + u.T.cnt 0) 0 0 ++ R)))) := by
      simp [closerI, List.append_assoc]
    rw [e1, e2] at this
    exact this

/-! ### pattern 3: the inline links, left to right -/

/-- **the link pass**: one turn of the pattern loop per inline link; the nested call on the link text takes its
    emphases out; the `<a>` element is stashed and a placeholder takes the place of the link -/
theorem link_pass_usesI (cfg : Inline.Cfg) (hE : EscOK cfg.esc) (hrb : ']' ∈ cfg.esc) (f : Nat) (us : List IUse) :
    ∀ (A : Str) (m n0 : Nat) (st : St) (g : Nat), '[' ∉ A → '!' ∉ A → (∀ u ∈ us, IUseOK cfg.esc u) →
      hiLoop (applyPattern cfg (fun d p s => handleInline cfg (f + 2) d p s)) (g + us.length)
        (A ++ usStageI cfg.esc 1 true m n0 us) 3 0 st =
      hiLoop (applyPattern cfg (fun d p s => handleInline cfg (f + 2) d p s)) g
        (A ++ outStage cfg.esc 1 0 0 (usOuter cfg.esc m n0 st.stash.length (us.map IUse.toR))) 3 0
        { st with stash := st.stash ++ usLinkStash cfg.esc m n0 st.stash.length (us.map IUse.toR) } := by
  induction us with
  | nil => intro A m n0 st g _ _ _; simp [usStageI, usOuter, outStage, usLinkStash]
  | cons u r ih =>
    intro A m n0 st g hA1 hA2 hus
    have hu := hus u List.mem_cons_self
    have hur : ∀ x ∈ r, IUseOK cfg.esc x := fun x hx => hus x (List.mem_cons_of_mem _ hx)
    have hT := not_mem_of_charOK (charOK_stage hE hrb 1 (by omega) u.T hu.text.ok hu.text.plain m n0 0 0)
    have hC := not_mem_of_charOK (charOK_stage hE hrb 1 (by omega) u.C hu.after.ok hu.after.plain
      (m + u.T.escs cfg.esc) (n0 + u.T.cnt 0) 0 0)
    have hnest := handleInline_tail cfg hE hrb f u.T m n0 0 0 st 4 (by omega) hu.text.ok hu.text.plain hu.text.under
    have hstep := applyPattern_inlAt cfg (fun d p s => handleInline cfg (f + 2) d p s) st
      { st with stash := st.stash ++ (nodesOf 1 u.T.segs ++ nodesOf 2 u.T.segs) } A
      (u.T.stage cfg.esc 1 true m n0 0 0)
      (u.T.stage cfg.esc 3 true m n0 st.stash.length (st.stash.length + u.T.cnt 1)) u.url
      (u.C.stage cfg.esc 1 true (m + u.T.escs cfg.esc) (n0 + u.T.cnt 0) 0 0 ++
        usStageI cfg.esc 1 true (m + u.T.escs cfg.esc + u.C.escs cfg.esc) (n0 + u.T.cnt 0 + u.C.cnt 0) r)
      u.dtitle hA1 hA2 hT.1 hT.2.1 hu.dest
      (stage_ne_nil cfg.esc 1 u.T m n0 0 0 hu.text.ok (by omega) hu.textNe) hnest
    have hA1' : '[' ∉ A ++ (placeholder (st.stash.length + u.T.cnt 1 + u.T.cnt 2) ++
        u.C.stage cfg.esc 1 true (m + u.T.escs cfg.esc) (n0 + u.T.cnt 0) 0 0) := by
      intro h
      rcases List.mem_append.1 h with h | h
      · exact hA1 h
      · rcases List.mem_append.1 h with h | h
        · exact InlineRef.not_mem_placeholder (by decide) h
        · exact hC.1 h
    have hA2' : '!' ∉ A ++ (placeholder (st.stash.length + u.T.cnt 1 + u.T.cnt 2) ++
        u.C.stage cfg.esc 1 true (m + u.T.escs cfg.esc) (n0 + u.T.cnt 0) 0 0) := by
      intro h
      rcases List.mem_append.1 h with h | h
      · exact hA2 h
      · rcases List.mem_append.1 h with h | h
        · exact InlineRef.not_mem_placeholder (by decide) h
        · exact hC.2.2.1 h
    have e3 := ih _ (m + u.T.escs cfg.esc + u.C.escs cfg.esc) (n0 + u.T.cnt 0 + u.C.cnt 0)
      { st with stash := st.stash ++ (nodesOf 1 u.T.segs ++ nodesOf 2 u.T.segs) ++
        [.node (InlineRef.linkEl u.url (titleOf u.dtitle) (u.T.stage cfg.esc 3 true m n0 st.stash.length
          (st.stash.length + u.T.cnt 1)))] } g hA1' hA2' hur
    have hlen2 : (st.stash ++ (nodesOf 1 u.T.segs ++ nodesOf 2 u.T.segs)).length =
        st.stash.length + u.T.cnt 1 + u.T.cnt 2 := by simp [Chunk.cnt]; omega
    have hlen3 : (st.stash ++ (nodesOf 1 u.T.segs ++ nodesOf 2 u.T.segs) ++
        [StashItem.node (InlineRef.linkEl u.url (titleOf u.dtitle) (u.T.stage cfg.esc 3 true m n0 st.stash.length
          (st.stash.length + u.T.cnt 1)))]).length = st.stash.length + u.T.cnt 1 + u.T.cnt 2 + 1 := by
      rw [List.length_append, hlen2]; rfl
    simp only [hlen3] at e3
    simp only [hlen2] at hstep
    rw [show g + (u :: r).length = (g + r.length) + 1 by simp; omega]
    simp only [usStageI, List.map_cons, IUse.toR, usOuter, outStage, usLinkStash]
    simp only [List.append_assoc, List.cons_append, List.nil_append] at hstep e3 ⊢
    rw [hiLoop_step _ _ _ 3 0 st (by omega) _ _ _ _ hstep]
    simp only [if_true]
    rw [e3, outStage1_indep cfg.esc _ (0 + u.C.cnt 1) (0 + u.C.cnt 2) 0 0]

end MdVerif.RefText
