/-
Lemmas for C05 on the extension model (`PipelineX.treeX`), well-formedness part 1: the extended block parser
(`BlockExt.parseBlocksXT`: core processors, `admonition`, `def_list`, `footnotes`, `abbr`, `sane_lists`, `tables`)
is a `Step` (`Lemmas/VocabXWFDefs.lean`): the result has the tag and the attributes of the parent and, unless the
parent is a void element, is `WF` (attribute names pairwise distinct, void elements empty) when the parent is.

One lemma per processor, as in `Lemmas/BlockVocab.lean` (core parser, invariant `BInv`); the walk through the extended
dispatcher is that of `Lemmas/VocabXBlock.lean`.  What is tracked here is non-voidness of every node something is
appended to.  As in the core proof the item loop of `OListProcessor.run` needs that the first item of a list block is
not indented (`getItemsX_first`; `lst[-1]` may be an `hr` when `lst` is the parent).

**The admonition processor does not preserve the invariant.**  `AdmonitionProcessor.parse_content` follows
`lastChild` links with a tag test on the list (`ul`/`ol`/`dl`) only, none on the last child of the list ("The
expectation is that we'll find an `<li>` or `<dt>`"); that child can be an `hr` (`- - x\n    - y\n    ***` builds
`ul > li > ul > (li, li, hr)`), and `run` then parses the block INTO the `hr`:

    "!!! note\n    - - x\n        - y\n        ***\n\n            text"      (tab 4)

gives `ul > (li, li, hr > p)` as a tree (`admonition_void_witness` below, kernel-checked); the xhtml
serializer drops the paragraph.  Hence `admonitionP_step` has, for the hit `.sib steps indent`, the hypothesis that
`nodeAt steps parent` is not void, and the theorems on the whole parser have the hypothesis `cfg.admonition = false`
(no hypothesis on the other flags, on `tables`, on `tab`).

Core Lean only.
-/
import MdVerif.Lemmas.VocabXWFDefs
import MdVerif.Lemmas.BlockVocab
import MdVerif.Lemmas.BlockExt
import MdVerif.Model.BlockExtT

namespace MdVerif.VocabXWF
open Py Block BlockExt

/-! ### small facts -/

theorem step_of_some {p : Node} {x : Node × Refs × List Str} {r : Node} {a : Refs} {b : List Str}
    (hx : Step p x.1) (h : some x = some (r, a, b)) : Step p r := by
  injection h with h; subst h; exact hx

theorem nv_isListTag {n : Node} (h : isListTag n = true) : voidT n.tag = false := by
  simp only [isListTag, Bool.or_eq_true] at h
  rcases h with h | h <;> exact voidT_isTag h (by decide)

theorem nv_isItemTag {n : Node} (h : isItemTag n = true) : voidT n.tag = false := voidT_isTag h (by decide)

theorem nv_isListTagD {n : Node} (h : isListTagD n = true) : voidT n.tag = false := by
  simp only [isListTagD, Bool.or_eq_true] at h
  rcases h with (h | h) | h <;> exact voidT_isTag h (by decide)

theorem nv_isItemTagD {n : Node} (h : isItemTagD n = true) : voidT n.tag = false := by
  simp only [isItemTagD, Bool.or_eq_true] at h
  rcases h with h | h <;> exact voidT_isTag h (by decide)

theorem nv_isSib {p : ListParams} {n : Node} (h : p.isSib n = true) : voidT n.tag = false := by
  simp only [ListParams.isSib, Bool.or_eq_true, Bool.and_eq_true] at h
  rcases h with h | h <;> exact voidT_isTag h.2 (by decide)

theorem nv_isAdmList {n : Node} (h : isAdmList n = true) : voidT n.tag = false := by
  simp only [isAdmList, Bool.or_eq_true] at h
  rcases h with (h | h) | h <;> exact voidT_isTag h (by decide)

/-- appending a well-formed child is a step -/
theorem Step.append (p : Node) {c : Node} (hc : WF c) : Step p (p.append c) :=
  ⟨rfl, rfl, fun hn hp => WF_append hp hn hc⟩

/-- replacing the last child `l` by a node that is well formed when `l` is, is a step -/
theorem Step.setLast {p l c : Node} (hl : p.last? = some l) (h : WF l → WF c) : Step p (p.setLast c) :=
  ⟨rfl, rfl, fun _ hp => WF_setLast hp hl (h (hp.last hl))⟩

theorem setLast_last (p k : Node) : (p.setLast k).last? = some k := by
  simp [Node.setLast, Node.last?]

theorem append_last (p k : Node) : (p.append k).last? = some k := by
  simp [Node.append, Node.last?]

theorem el_last (t : String) : (Node.el t).last? = none := rfl

/-- `WF_mk` for a non-void tag -/
theorem WF_mkNV {tag : Tag} {attrs : List (Str × Str)} {text : Option Str} {ta : Bool} {children : List Node}
    {tail : Option Str} {tla : Bool} (hk : Ser.keysNodup attrs = true) (hn : voidT tag = false)
    (hc : ∀ c ∈ children, WF c) : WF ⟨tag, attrs, text, ta, children, tail, tla⟩ :=
  WF_mk hk (fun hv => by rw [hn] at hv; cases hv) hc

/-- a fresh non-void element with one attribute -/
theorem WF_elAttr (t : String) (kv : Str × Str) (ht : Ser.isEmptyTag t.toList = false) :
    WF ({ Node.el t with attrs := [kv] } : Node) :=
  WF_mk (keysNodup_single kv) (fun hv => by
    have : Ser.isEmptyTag t.toList = true := hv
    rw [ht] at this; cases this) (by intro c hc; cases hc)

/-! ### the core processors that do not recurse -/

theorem setCodeText_step {parent sib code : Node} (t : Str) (hl : parent.last? = some sib)
    (hp : preCode sib = some code) : Step parent (setCodeText parent sib code t) := by
  obtain ⟨hpre, hcode, hmem⟩ := Block.preCode_some hp
  refine Step.setLast hl (fun hs => ?_)
  have hnp : voidT sib.tag = false := by rw [hpre]; decide
  have hnc : voidT code.tag = false := by rw [hcode]; decide
  refine WF_children hs hnp _ ?_
  intro x hx
  simp only [List.mem_cons] at hx
  rcases hx with hx | hx
  · rw [hx]
    exact WF_fields (hs.kids code hmem) hnc (some t) true code.tail code.tailAtomic
  · exact hs.kids x (List.mem_of_mem_drop hx)

theorem emptyP_step (refs : Refs) (parent : Node) (b : Str) (rest : List Str) :
    Step parent (emptyP refs parent b rest).1 := by
  simp only [emptyP]
  cases hl : parent.last? with
  | none => exact Step.refl _
  | some sib =>
    dsimp only
    cases hp : preCode sib with
    | none => exact Step.refl _
    | some code => exact setCodeText_step _ hl hp

theorem WF_preCode (esc : Str) : WF ({ Node.el "pre" with
      children := [{ Node.el "code" with text := some esc, textAtomic := true }] } : Node) := by
  refine WF_mkNV rfl (by decide) ?_
  intro c hc
  simp only [List.mem_singleton] at hc
  rw [hc]
  exact WF_mkNV rfl (by decide) (by intro c hc; cases hc)

theorem codeP_step (tab : Nat) (refs : Refs) (parent : Node) (b : Str) (rest : List Str) :
    Step parent (codeP tab refs parent b rest).1 := by
  simp only [codeP]
  cases hl : parent.last? with
  | none => exact Step.append _ (WF_preCode _)
  | some sib =>
    dsimp only
    cases hp : preCode sib with
    | none => exact Step.append _ (WF_preCode _)
    | some code => exact setCodeText_step _ hl hp

theorem WF_hTag (lv : Nat) (h : 1 ≤ lv ∧ lv ≤ 6) (text : Option Str) : WF ({ hTag lv with text := text } : Node) := by
  have : lv = 1 ∨ lv = 2 ∨ lv = 3 ∨ lv = 4 ∨ lv = 5 ∨ lv = 6 := by omega
  rcases this with e | e | e | e | e | e <;> subst e <;>
    exact WF_mkNV rfl (by decide) (by intro c hc; cases hc)

theorem hashP_step {tab : Nat} {pb : PB} (hpb : PBW pb) {state : List BState} {refs : Refs} {parent : Node} {b : Str}
    {rest : List Str} {m : Nat × Nat × Nat × Str} (hm : 1 ≤ m.2.2.1 ∧ m.2.2.1 ≤ 6)
    {r : Node} {refs' : Refs} {rest' : List Str}
    (h : hashP tab pb state refs parent b rest m = some (r, refs', rest')) : Step parent r := by
  obtain ⟨st, en, lv, header⟩ := m
  simp only [hashP] at h
  split at h
  · cases h
  · rename_i p1 refs1 h1
    injection h with h; injection h with h _; subst h
    have s1 : Step parent p1 := by
      split at h1
      · injection h1 with h1; injection h1 with h1 _; subst h1; exact Step.refl _
      · exact hpb _ _ _ _ _ _ h1
    exact s1.trans (Step.append _ (WF_hTag lv hm _))

theorem setextP_step (refs : Refs) (parent : Node) (b : Str) (rest : List Str) :
    Step parent (setextP refs parent b rest).1 := by
  simp only [setextP]
  refine Step.append _ ?_
  split
  · exact WF_hTag 1 (by omega) _
  · exact WF_hTag 2 (by omega) _

theorem hrP_step {pb : PB} (hpb : PBW pb) {state : List BState} {refs : Refs} {parent : Node} {b : Str}
    {rest : List Str} {m : Nat × Nat} {r : Node} {refs' : Refs} {rest' : List Str}
    (h : hrP pb state refs parent b rest m = some (r, refs', rest')) : Step parent r := by
  obtain ⟨st, en⟩ := m
  simp only [hrP] at h
  split at h
  · cases h
  · rename_i p1 refs1 h1
    injection h with h; injection h with h _; subst h
    have s1 : Step parent p1 := by
      split at h1
      · injection h1 with h1; injection h1 with h1 _; subst h1; exact Step.refl _
      · exact hpb _ _ _ _ _ _ h1
    exact s1.trans (Step.append _ (WF_el "hr"))

theorem referenceP_step (refs : Refs) (parent : Node) (b : Str) (rest : List Str)
    (m : Nat × Nat × Str × Str × Option Str × Option Str) :
    Step parent (referenceP refs parent b rest m).1 := by
  obtain ⟨st, en, ident, link, t5, t6⟩ := m
  exact Step.refl _

theorem paraP_step (state : List BState) (refs : Refs) (parent : Node) (b : Str) (rest : List Str) :
    Step parent (paraP state refs parent b rest).1 := by
  simp only [paraP]
  split
  · exact Step.refl _
  · split
    · cases hl : parent.last? with
      | none => exact ⟨rfl, rfl, fun hn hp => WF_fields hp hn _ _ _ _⟩
      | some sib => exact Step.setLast hl (fun hs => WF_tail hs _ _ _)
    · exact Step.append _ (WF_mkText _ _ (by decide))

theorem quoteP_step {pb : PB} (hpb : PBW pb) {state : List BState} {refs : Refs} {parent : Node} {b : Str}
    {rest : List Str} {q : Nat} {r : Node} {refs' : Refs} {rest' : List Str}
    (h : quoteP pb state refs parent b rest q = some (r, refs', rest')) : Step parent r := by
  simp only [quoteP, parseChunk] at h
  split at h
  · cases h
  · rename_i p1 refs1 h1
    have s1 : Step parent p1 := hpb _ _ _ _ _ _ h1
    refine s1.trans ?_
    split at h
    · rename_i sib hs
      split at h
      · rename_i quote refs2 h2
        injection h with h; injection h with h _; subst h
        have s2 := hpb _ _ _ _ _ _ h2
        cases hl : p1.last? with
        | none => rw [hl] at hs; cases hs
        | some sib' =>
          rw [hl] at hs
          dsimp only at hs
          split at hs
          · rename_i hq
            injection hs with hs; subst hs
            exact Step.setLast hl (s2.2.2 (voidT_isTag hq (by decide)))
          · cases hs
      · cases h
    · split at h
      · rename_i quote refs2 h2
        injection h with h; injection h with h _; subst h
        have s2 := hpb _ _ _ _ _ _ h2
        exact Step.append _ (s2.2.2 (by decide) (WF_el _))
      · cases h

/-! ### the list processors -/

/-- precondition of the item loop: the last child is not void, or the next item is not indented -/
def LoopPreW (tab : Nat) (lst : Node) (items : List Str) : Prop :=
  (∀ l, lst.last? = some l → voidT l.tag = false) ∨ (∀ i, items.head? = some i → startsWith i (spaces tab) = false)

theorem listItems_step {tab : Nat} {pb : PB} (hpb : PBW pb) (st2 : List BState) :
    ∀ (items : List Str) (refs : Refs) (lst r : Node) (refs' : Refs),
      listItems tab pb st2 refs lst items = some (r, refs') →
      r.tag = lst.tag ∧ r.attrs = lst.attrs ∧ (voidT lst.tag = false → LoopPreW tab lst items → WF lst → WF r)
  | [], refs, lst, r, refs', h => by
    simp only [listItems] at h
    injection h with h; injection h with h _; subst h
    exact ⟨rfl, rfl, fun _ _ hb => hb⟩
  | item :: items, refs, lst, r, refs', h => by
    simp only [listItems] at h
    split at h
    · rename_i hind
      cases hl : lst.last? with
      | none =>
        rw [hl] at h
        dsimp only at h
        have ih := listItems_step hpb st2 items refs lst r refs' h
        exact ⟨ih.1, ih.2.1, fun hn _ hb => ih.2.2 hn (Or.inl (fun l e => by rw [hl] at e; cases e)) hb⟩
      | some l =>
        rw [hl] at h
        dsimp only at h
        split at h
        · rename_i li refs1 h1
          have s1 := hpb _ _ _ _ _ _ h1
          have ih := listItems_step hpb st2 items refs1 (lst.setLast li) r refs' h
          refine ⟨ih.1, ih.2.1, fun hn hpre hb => ?_⟩
          have hl' : voidT l.tag = false := by
            rcases hpre with hpre | hpre
            · exact hpre l hl
            · have := hpre item rfl; rw [this] at hind; cases hind
          refine ih.2.2 hn (Or.inl ?_) (WF_setLast hb hl (s1.2.2 hl' (hb.last hl)))
          intro x hx
          rw [setLast_last] at hx; injection hx with hx; subst hx
          exact s1.nv hl'
        · cases h
    · split at h
      · rename_i li refs1 h1
        have s1 := hpb _ _ _ _ _ _ h1
        have ih := listItems_step hpb st2 items refs1 (lst.append li) r refs' h
        refine ⟨ih.1, ih.2.1, fun hn _ hb => ?_⟩
        refine ih.2.2 hn (Or.inl ?_) (WF_append hb hn (s1.2.2 (by decide) (WF_el _)))
        intro x hx
        rw [append_last] at hx; injection hx with hx; subst hx
        exact s1.nv (by decide)
      · cases h

/-- the "make sure the last item is in a `p`" step of `OListProcessor.run` (`Block.fixLast`) -/
theorem fixLast_WF {lst : Node} (hb : WF lst) : WF (fixLast lst) := by
  unfold fixLast
  cases hl : lst.last? with
  | none => exact hb
  | some li0 =>
    dsimp only
    refine WF_setLast hb hl ?_
    have h1 : WF (textToP li0) := WF_textToP (hb.last hl)
    cases hl1 : (textToP li0).last? with
    | none => exact h1
    | some lch =>
      dsimp only
      split
      · have hch := h1.last hl1
        exact WF_append (WF_setLast h1 hl1 (WF_tail hch _ _ _)) (h1.nv_of_last hl1) (WF_mkText _ _ (by decide))
      · exact h1

theorem fixLast_tag (lst : Node) : (fixLast lst).tag = lst.tag ∧ (fixLast lst).attrs = lst.attrs := by
  unfold fixLast; split <;> exact ⟨rfl, rfl⟩

/-! #### the first item of a list block is not indented (every `CHILD_RE`) -/

theorem getItemsStepX_good (p : ListParams) (tab : Nat) (line : Str) {items : List Str} (hg : GoodItems items) :
    GoodItems (getItemsStepX p tab items line) := by
  unfold getItemsStepX
  have happ : ∀ x, GoodItems (items ++ [x]) := by
    intro x
    obtain ⟨h, t, e, hh⟩ := hg
    exact ⟨h, t ++ [x], by simp [e], hh⟩
  split
  · exact happ _
  · split
    · split
      · split
        · exact modifyLast_good line hg
        · exact happ _
      · exact happ _
    · exact modifyLast_good line hg

theorem foldl_goodX (p : ListParams) (tab : Nat) : ∀ (ls : List Str) (items : List Str), GoodItems items →
    GoodItems (ls.foldl (getItemsStepX p tab) items)
  | [], _, hg => hg
  | l :: ls, _, hg => foldl_goodX p tab ls _ (getItemsStepX_good p tab l hg)

/-- the block was accepted by the `RE` of the processor, whose marker alternatives are among those of `CHILD_RE` -/
theorem getItemsX_good {p : ListParams} {tab : Nat} {b : Str}
    (h : (listItemMatch tab p.childOl p.childUl b).isSome = true) : GoodItems (getItemsX p tab b) := by
  obtain ⟨tl, e⟩ := lines_eq b
  have hb : b = b.takeWhile notNl ++ b.dropWhile notNl := (List.takeWhile_append_dropWhile).symm
  rw [hb, listItemMatch_append (nlHead_dropWhile b)] at h
  simp only [getItemsX, e, List.foldl_cons]
  refine foldl_goodX p tab tl _ ?_
  cases hm : listItemMatch tab p.childOl p.childUl (b.takeWhile notNl) with
  | none => rw [hm] at h; cases h
  | some mc =>
    obtain ⟨m, c⟩ := mc
    simp only [getItemsStepX, hm, List.nil_append]
    exact ⟨c, [], rfl, listItemMatch_content_v hm⟩

theorem getItemsX_first {p : ListParams} {tab : Nat} (htab : 0 < tab) {b : Str}
    (h : (listItemMatch tab p.childOl p.childUl b).isSome = true) :
    ∀ i, (getItemsX p tab b).head? = some i → startsWith i (spaces tab) = false := by
  obtain ⟨hd, t, e, hh⟩ := getItemsX_good h
  intro i hi
  rw [e] at hi
  simp only [List.head?_cons, Option.some.injEq] at hi
  subst hi
  obtain ⟨n, rfl⟩ : ∃ n, tab = n + 1 := ⟨tab - 1, by omega⟩
  cases hd with
  | nil => simp [spaces, List.replicate]
  | cons a r =>
    simp only [List.head?_cons, ne_eq, Option.some.injEq] at hh
    simp [spaces, List.replicate, hh]

/-- `OListProcessor.run` for every variant of the class attributes -/
theorem listPX_step {p : ListParams} {tab : Nat} {pb : PB} (hpb : PBW pb) {state : List BState} {refs : Refs}
    {parent : Node} {b : Str} {rest : List Str} {tag : String} (htag : Ser.isEmptyTag tag.toList = false)
    (hfirst : ∀ i, (getItemsX p tab b).head? = some i → startsWith i (spaces tab) = false)
    {r : Node} {refs' : Refs} {rest' : List Str}
    (h : listPX p tab pb state refs parent b rest tag = some (r, refs', rest')) : Step parent r := by
  simp only [listPX] at h
  split at h
  · -- the previous block was a list
    rename_i lst hs
    change (match pb (state ++ [.looselist]) refs (Node.el "li") [(getItemsX p tab b).headD []] with
      | none => none
      | some (newli, refs) =>
        match listItems tab pb (state ++ [.list]) refs ((fixLast lst).append newli) ((getItemsX p tab b).drop 1) with
        | some (lst, refs) => some (parent.setLast lst, refs, rest)
        | none => none) = some (r, refs', rest') at h
    cases hl : parent.last? with
    | none => rw [hl] at hs; cases hs
    | some sib =>
      rw [hl] at hs
      dsimp only at hs
      split at hs
      · rename_i hlist
        injection hs with hs; subst hs
        split at h
        · cases h
        · rename_i newli refs1 h1
          have s1 := hpb _ _ _ _ _ _ h1
          split at h
          · rename_i lstR refs2 h2
            injection h with h; injection h with h _; subst h
            have s2 := listItems_step hpb _ _ _ _ _ _ h2
            refine Step.setLast hl (fun hsib => ?_)
            have hn1 : voidT (fixLast sib).tag = false := by rw [(fixLast_tag sib).1]; exact nv_isSib hlist
            refine s2.2.2 hn1 (Or.inl ?_) ?_
            · intro x hx
              rw [append_last] at hx; injection hx with hx; subst hx
              exact s1.nv (by decide)
            · exact WF_append (fixLast_WF hsib) hn1 (s1.2.2 (by decide) (WF_el _))
          · cases h
      · cases hs
  · split at h
    · rename_i hlist
      split at h
      · rename_i lstR refs2 h2
        injection h with h; injection h with h _; subst h
        have s2 := listItems_step hpb _ _ _ _ _ _ h2
        exact ⟨s2.1, s2.2.1, fun hn hb => s2.2.2 hn (Or.inr hfirst) hb⟩
      · cases h
    · split at h
      · rename_i lstR refs2 h2
        injection h with h; injection h with h _; subst h
        have s2 := listItems_step hpb _ _ _ _ _ _ h2
        refine Step.append _ ?_
        refine s2.2.2 ?_ (Or.inl ?_) ?_
        · split <;> exact htag
        · intro l e; split at e <;> cases e
        · split
          · exact WF_elAttr _ _ htag
          · exact WF_el _
      · cases h

theorem listP_step {tab : Nat} {pb : PB} (hpb : PBW pb) {state : List BState} {refs : Refs} {parent : Node} {b : Str}
    {rest : List Str} {tag : String} (htag : Ser.isEmptyTag tag.toList = false)
    (hfirst : ∀ i, (getItems tab b).head? = some i → startsWith i (spaces tab) = false)
    {r : Node} {refs' : Refs} {rest' : List Str}
    (h : listP tab pb state refs parent b rest tag = some (r, refs', rest')) : Step parent r := by
  rw [← listPX_default] at h
  exact listPX_step hpb htag (by rw [getItemsX_default]; exact hfirst) h

/-! ### `ListIndentProcessor` with `LIST_TYPES` / `ITEM_TYPES` as parameters -/

/-- the node `get_level` stops at is the parent itself, a list or an item -/
def StopX (isL isI : Node → Bool) (s : Nat) (n : Node) : Prop :=
  s = 0 ∨ isL (nodeAt s n) = true ∨ isI (nodeAt s n) = true

mutual
theorem getLevelNodeX_stop (isL isI : Node → Bool) (il : Nat) :
    ∀ (level : Nat) (n : Node), StopX isL isI (getLevelNodeX isL isI il level n).2 n
  | level, ⟨tag, attrs, text, ta, children, tail, tla⟩ => by
    have h := getLevelKidsX_stop isL isI il level children
    simp only [getLevelNodeX]
    rcases h with h | ⟨c, s', hl, hs, hq⟩
    · exact Or.inl h
    · refine Or.inr ?_
      rw [hs]
      simp only [nodeAt, Node.last?, hl]
      exact hq
theorem getLevelKidsX_stop (isL isI : Node → Bool) (il : Nat) : ∀ (level : Nat) (kids : List Node),
    (getLevelKidsX isL isI il level kids).2 = 0 ∨
    ∃ c s', kids.getLast? = some c ∧ (getLevelKidsX isL isI il level kids).2 = s' + 1 ∧
      (isL (nodeAt s' c) = true ∨ isI (nodeAt s' c) = true)
  | level, [] => by simp [getLevelKidsX]
  | level, [c] => by
    simp only [getLevelKidsX]
    split
    · rename_i hc
      refine Or.inr ⟨c, _, rfl, rfl, ?_⟩
      rcases getLevelNodeX_stop isL isI il (if isL c then level + 1 else level) c with h | h
      · rw [h]; simp only [nodeAt]
        simp only [Bool.and_eq_true, Bool.or_eq_true] at hc
        exact hc.2
      · exact h
    · exact Or.inl rfl
  | level, c :: d :: r => by
    simp only [getLevelKidsX]
    rcases getLevelKidsX_stop isL isI il level (d :: r) with h | ⟨c', s', hl, hs, hq⟩
    · exact Or.inl h
    · exact Or.inr ⟨c', s', by simpa using hl, hs, hq⟩
end

theorem getLevelX_nv {isL isI : Node → Bool} (hL : ∀ n, isL n = true → voidT n.tag = false)
    (hI : ∀ n, isI n = true → voidT n.tag = false) (tab : Nat) (state : List BState) (parent : Node) (b : Str)
    (hn : voidT parent.tag = false) : voidT (nodeAt (getLevelX isL isI tab state parent b).2 parent).tag = false := by
  simp only [getLevelX]
  rcases getLevelNodeX_stop isL isI (if countSp b ≥ tab then countSp b / tab else 0)
    (if isstate state .list then 1 else 0) parent with h | h | h
  · rw [h]; exact hn
  · exact hL _ h
  · exact hI _ h

theorem indentPX_step {isL isI : Node → Bool} (hL : ∀ n, isL n = true → voidT n.tag = false)
    (hI : ∀ n, isI n = true → voidT n.tag = false) {itemTag : String} (hitem : Ser.isEmptyTag itemTag.toList = false)
    {tab : Nat} {pb : PB} (hpb : PBW pb) {state : List BState} {refs : Refs} {parent : Node} {b : Str}
    {rest : List Str} {r : Node} {refs' : Refs} {rest' : List Str}
    (h : indentPX isL isI itemTag tab pb state refs parent b rest = some (r, refs', rest')) : Step parent r := by
  simp only [indentPX, parseChunk] at h
  generalize hsib : nodeAt (getLevelX isL isI tab state parent b).2 parent = sibling at h
  split at h
  · -- the parent is an item
    split at h
    · rename_i c hc
      split at h
      · rename_i sub refs1 h1
        injection h with h; injection h with h _; subst h
        have s1 := hpb _ _ _ _ _ _ h1
        cases hl : parent.last? with
        | none => rw [hl] at hc; cases hc
        | some c' =>
          rw [hl] at hc
          dsimp only at hc
          split at hc
          · rename_i hlist
            injection hc with hc; subst hc
            exact Step.setLast hl (s1.2.2 (hL _ hlist))
          · cases hc
      · cases h
    · split at h
      · rename_i p1 refs1 h1
        injection h with h; injection h with h _; subst h
        exact hpb _ _ _ _ _ _ h1
      · cases h
  · split at h
    · -- the sibling is an item
      rename_i hitem'
      split at h
      · rename_i sub refs1 h1
        injection h with h; injection h with h _; subst h
        have s1 := hpb _ _ _ _ _ _ h1
        have ht := updPath_tag (fun _ => sub) (getLevelX isL isI tab state parent b).2 parent
          (by rw [hsib]; exact s1.1) (by rw [hsib]; exact s1.2.1)
        refine ⟨ht.1, ht.2, fun _ hp => WF_updPath _ _ hp ?_⟩
        rw [hsib]; exact s1.2.2 (hI _ hitem')
      · cases h
    · split at h
      · -- the last child of the sibling is an item
        rename_i li hli
        split at h
        · rename_i li' refs1 h1
          injection h with h; injection h with h _; subst h
          have s1 := hpb _ _ _ _ _ _ h1
          cases hl : sibling.last? with
          | none => rw [hl] at hli; cases hli
          | some c' =>
            rw [hl] at hli
            dsimp only at hli
            split at hli
            · rename_i hitem'
              injection hli with hli; subst hli
              have ht := updPath_tag (fun s => s.setLast li') (getLevelX isL isI tab state parent b).2 parent rfl rfl
              refine ⟨ht.1, ht.2, fun _ hp => WF_updPath _ _ hp ?_⟩
              rw [hsib]
              intro hs
              refine WF_setLast hs hl (s1.2.2 ?_ (WF_textToP (hs.last hl)))
              rw [(textToP_tag c').1]; exact hI _ hitem'
            · cases hli
        · cases h
      · -- `create_item`
        split at h
        · rename_i li' refs1 h1
          injection h with h; injection h with h _; subst h
          have s1 := hpb _ _ _ _ _ _ h1
          have ht := updPath_tag (fun s => s.append li') (getLevelX isL isI tab state parent b).2 parent rfl rfl
          refine ⟨ht.1, ht.2, fun hn hp => WF_updPath _ _ hp ?_⟩
          have hns : voidT sibling.tag = false := by rw [← hsib]; exact getLevelX_nv hL hI tab state parent b hn
          rw [hsib]
          intro hs
          exact WF_append hs hns (s1.2.2 hitem (WF_el _))
        · cases h

theorem indentP_step {tab : Nat} {pb : PB} (hpb : PBW pb) {state : List BState} {refs : Refs} {parent : Node} {b : Str}
    {rest : List Str} {r : Node} {refs' : Refs} {rest' : List Str}
    (h : indentP tab pb state refs parent b rest = some (r, refs', rest')) : Step parent r := by
  rw [← indentPX_core] at h
  exact indentPX_step (fun _ => nv_isListTag) (fun _ => nv_isItemTag) (by decide) hpb h

/-! ### admonition -/

/-- `AdmonitionProcessor.run`.  For the hit `.sib steps indent` (the block continues the admonition `div` of the
    previous block, or an item of a list at the end of it) the node the block is parsed into has to be known not to be
    void: the model (`admLstKids`, as `parse_content`) does not test its tag — see the header. -/
theorem admonitionP_step {tab : Nat} {pb : PB} (hpb : PBW pb) {state : List BState} {refs : Refs} {parent : Node}
    {b : Str} {rest : List Str} {hit : AdmHit}
    (hsib : ∀ steps indent, hit = .sib steps indent → voidT (nodeAt steps parent).tag = false)
    {r : Node} {refs' : Refs} {rest' : List Str}
    (h : admonitionP tab pb state refs parent b rest hit = some (r, refs', rest')) : Step parent r := by
  cases hit with
  | re st en g1 g2 =>
    simp only [admonitionP, parseChunk] at h
    split at h
    · cases h
    · rename_i p1 refs1 h1
      have s1 : Step parent p1 := by
        split at h1
        · exact hpb _ _ _ _ _ _ h1
        · injection h1 with h1; injection h1 with h1 _; subst h1; exact Step.refl _
      split at h
      · rename_i div refs2 h2
        injection h with h; injection h with h _; subst h
        have s2 := hpb _ _ _ _ _ _ h2
        refine s1.trans (Step.append _ (s2.2.2 ?_ ?_))
        · split <;> exact voidT_el "div" (by decide)
        · have hdiv : ∀ v, WF ({ Node.el "div" with attrs := [(strClass, v)] } : Node) :=
            fun v => WF_elAttr "div" _ (by decide)
          split
          · exact WF_append (hdiv _) (voidT_el "div" (by decide))
              (WF_mkNV (keysNodup_single _) (voidT_el "p" (by decide)) (by intro c hc; cases hc))
          · exact hdiv _
      · cases h
  | sib steps indent =>
    have hnv := hsib steps indent rfl
    simp only [admonitionP, parseChunk] at h
    split at h
    · rename_i div refs2 h2
      injection h with h; injection h with h _; subst h
      have s2 := hpb _ _ _ _ _ _ h2
      have ht := updPath_tag (fun _ => div) steps parent
        (by rw [s2.1]; split <;> rfl) (by rw [s2.2.1]; split <;> rfl)
      refine ⟨ht.1, ht.2, fun _ hp => WF_updPath _ _ hp (fun hs => s2.2.2 ?_ ?_)⟩
      · split
        · exact hnv
        · exact hnv
      · split
        · refine WF_mkNV hs.nodup hnv ?_
          intro c hc
          simp only [List.mem_append, List.mem_singleton] at hc
          rcases hc with hc | hc
          · exact hs.kids c hc
          · rw [hc]; exact WF_mkNV rfl (by decide) (by intro c hc; cases hc)
        · exact hs
    · cases h

/-! #### where `parse_content` stops -/

theorem nodeAt_succ_last {p c : Node} (h : p.last? = some c) (k : Nat) : nodeAt (k + 1) p = nodeAt k c := by
  simp only [nodeAt, h]

/-- one more last-child link -/
theorem nodeAt_succ (j : Nat) : ∀ (p : Node),
    nodeAt (j + 1) p = (match (nodeAt j p).last? with | some c => c | none => nodeAt j p) := by
  induction j with
  | zero => intro p; cases hl : p.last? <;> simp [nodeAt, hl]
  | succ j ih =>
    intro p
    cases hl : p.last? with
    | none => simp [nodeAt, hl]
    | some c => rw [nodeAt_succ_last hl, nodeAt_succ_last hl]; exact ih c

/-- the node `k` last-child links below `n` is `n` itself or the last child (if any) of a `ul`/`ol`/`dl` -/
def AdmStop (k : Nat) (n : Node) : Prop := k = 0 ∨ ∃ j, k = j + 1 ∧ isAdmList (nodeAt j n) = true

mutual
theorem admSibNode_stop (tab : Nat) : ∀ (n : Node) (block : Str) (indent k : Nat) (bl : Str) (ind : Nat),
    admSibNode tab block indent n = some (k, bl, ind) → AdmStop k n
  | ⟨tag, attrs, text, ta, children, tail, tla⟩, block, indent, k, bl, ind, h => by
    simp only [admSibNode] at h
    rcases admSibKids_stop tab children block indent k bl ind h with h0 | ⟨c, c2, k2, hl, hc, hl2, hk, hs⟩
    · exact Or.inl h0
    · refine Or.inr ?_
      have e1 : (⟨tag, attrs, text, ta, children, tail, tla⟩ : Node).last? = some c := hl
      rcases hs with h0 | ⟨j, hj, hq⟩
      · exact ⟨1, by omega, by rw [nodeAt_succ_last e1]; exact hc⟩
      · refine ⟨j + 2, by omega, ?_⟩
        rw [nodeAt_succ_last e1, nodeAt_succ_last hl2]; exact hq
theorem admSibKids_stop (tab : Nat) : ∀ (kids : List Node) (block : Str) (indent k : Nat) (bl : Str) (ind : Nat),
    admSibKids tab block indent kids = some (k, bl, ind) →
    k = 0 ∨ ∃ c c2 k2, kids.getLast? = some c ∧ isAdmList c = true ∧ c.last? = some c2 ∧ k = k2 + 2 ∧ AdmStop k2 c2
  | [], block, indent, k, bl, ind, h => by
    simp only [admSibKids] at h
    injection h with h; injection h with h _
    exact Or.inl h.symm
  | [c], block, indent, k, bl, ind, h => by
    simp only [admSibKids] at h
    split at h
    · rename_i hc
      obtain ⟨c2, k2, hl2, hk, hs⟩ := admLstNode_stop tab c _ _ k bl ind h
      simp only [Bool.and_eq_true] at hc
      exact Or.inr ⟨c, c2, k2, rfl, hc.2, hl2, hk, hs⟩
    · injection h with h; injection h with h _
      exact Or.inl h.symm
  | c :: d :: r, block, indent, k, bl, ind, h => by
    simp only [admSibKids] at h
    rcases admSibKids_stop tab (d :: r) block indent k bl ind h with h0 | ⟨c', c2, k2, hl, hx⟩
    · exact Or.inl h0
    · exact Or.inr ⟨c', c2, k2, by simpa using hl, hx⟩
theorem admLstNode_stop (tab : Nat) : ∀ (n : Node) (block : Str) (indent k : Nat) (bl : Str) (ind : Nat),
    admLstNode tab block indent n = some (k, bl, ind) → ∃ c2 k2, n.last? = some c2 ∧ k = k2 + 2 ∧ AdmStop k2 c2
  | ⟨tag, attrs, text, ta, children, tail, tla⟩, block, indent, k, bl, ind, h => by
    simp only [admLstNode] at h
    exact admLstKids_stop tab children block indent k bl ind h
theorem admLstKids_stop (tab : Nat) : ∀ (kids : List Node) (block : Str) (indent k : Nat) (bl : Str) (ind : Nat),
    admLstKids tab block indent kids = some (k, bl, ind) →
    ∃ c2 k2, kids.getLast? = some c2 ∧ k = k2 + 2 ∧ AdmStop k2 c2
  | [], block, indent, k, bl, ind, h => by simp [admLstKids] at h
  | [c], block, indent, k, bl, ind, h => by
    simp only [admLstKids] at h
    split at h
    · rename_i k2 bl2 ind2 hs
      injection h with h; injection h with h _
      exact ⟨c, k2, rfl, h.symm, admSibNode_stop tab c _ _ _ _ _ hs⟩
    · cases h
  | c :: d :: r, block, indent, k, bl, ind, h => by
    simp only [admLstKids] at h
    obtain ⟨c2, k2, hl, hx⟩ := admLstKids_stop tab (d :: r) block indent k bl ind h
    exact ⟨c2, k2, by simpa using hl, hx⟩
end

/-- **the exact condition for the admonition processor**: when `test` finds that the block continues the admonition
    of the previous block (`.sib steps indent`), the node the block is parsed into is the admonition `div` or the last
    child of a `ul`/`ol`/`dl` on the last-child spine of the parent; it is not void as soon as no such list ends with a
    void element -/
theorem admTest_sib_nv {tab : Nat} {parent : Node} {b : Str} {steps indent : Nat}
    (h : admTest tab parent b = some (.sib steps indent))
    (hlists : ∀ j l, isAdmList (nodeAt j parent) = true → (nodeAt j parent).last? = some l → voidT l.tag = false) :
    voidT (nodeAt steps parent).tag = false := by
  simp only [admTest] at h
  split at h
  · cases h
  · split at h
    · rename_i k ind hc
      injection h with h; injection h with h1 h2; subst h1
      simp only [admContent] at hc
      split at hc
      · cases hc
      · rename_i sib hl
        split at hc
        · rename_i hdiv
          split at hc
          · rename_i k0 bl ind0 hs
            split at hc
            · injection hc with hc; injection hc with hc _; subst hc
              rw [nodeAt_succ_last hl]
              rcases admSibNode_stop tab sib _ _ _ _ _ hs with h0 | ⟨j, hj, hq⟩
              · subst h0
                simp only [isAdmDiv, Bool.and_eq_true] at hdiv
                exact voidT_isTag hdiv.1 (by decide)
              · subst hj
                rw [← nodeAt_succ_last hl, nodeAt_succ]
                rw [← nodeAt_succ_last hl] at hq
                split
                · rename_i c hlc; exact hlists _ c hq hlc
                · exact nv_isAdmList hq
            · cases hc
          · cases hc
        · cases hc
    · cases h

/-! ### definition lists -/

theorem WF_addTerms {dl : Node} (terms : List Str) (h : WF dl) (hn : voidT dl.tag = false) :
    WF (addTerms dl terms) := by
  unfold addTerms
  refine WF_children h hn _ ?_
  intro c hc
  simp only [List.mem_append, List.mem_map] at hc
  rcases hc with hc | ⟨t, _, hc⟩
  · exact h.kids c hc
  · rw [← hc]; exact WF_mkText _ _ (by decide)

theorem defListP_step {tab : Nat} {pb : PB} (hpb : PBW pb) {state : List BState} {refs : Refs} {parent : Node}
    {b : Str} {rest : List Str} {m : Nat × Nat × Str} {r : Node} {refs' : Refs} {rest' : List Str}
    (h : defListP tab pb state refs parent b rest m = some (some (r, refs', rest'))) : Step parent r := by
  obtain ⟨st, en, g2⟩ := m
  simp only [defListP] at h
  generalize (List.filter (fun t => !List.isEmpty t) (List.map strip (lines (List.take st b)))) = terms0 at h
  generalize (if defNoIndent (List.drop en b) = true then (List.drop en b, [])
    else detab tab (List.drop en b)) = dt at h
  have hdd : ∀ {dd : Node}, Step (Node.el "dd") dd → WF dd := fun s => s.2.2 (by decide) (WF_el _)
  have hnew : ∀ (terms : List Str) {dd : Node}, Step (Node.el "dd") dd →
      WF ((addTerms (Node.el "dl") terms).append dd) :=
    fun terms _ s => WF_append (WF_addTerms _ (WF_el _) (by decide)) (voidT_el "dl" (by decide)) (hdd s)
  split at h
  · -- an empty parent
    split at h
    · cases h
    · injection h with h
      split at h
      · rename_i dd refs1 h1
        injection h with h; injection h with h _; subst h
        exact Step.append _ (hnew _ (hpb _ _ _ _ _ _ h1))
      · cases h
  · rename_i sibling hsib
    injection h with h
    generalize hpar : (if (terms0.isEmpty && sibling.isTag "p") = true then dropLastChild parent else parent) = par
      at h
    have spar : Step parent par := by
      rw [← hpar]; split
      · exact ⟨rfl, rfl, fun _ hp => WF_dropLastChild hp⟩
      · exact Step.refl _
    refine spar.trans ?_
    split at h
    · rename_i dl hdl
      split at h
      · rename_i dd refs1 h1
        injection h with h; injection h with h _; subst h
        have s1 := hpb _ _ _ _ _ _ h1
        cases hl : par.last? with
        | none => rw [hl] at hdl; cases hdl
        | some s' =>
          rw [hl] at hdl
          dsimp only at hdl
          split at hdl
          · rename_i hisdl
            injection hdl with hdl; subst hdl
            have hn : voidT s'.tag = false := voidT_isTag hisdl (by decide)
            exact Step.setLast hl (fun hs => WF_append (WF_addTerms _ hs hn) hn (hdd s1))
          · cases hdl
      · cases h
    · split at h
      · rename_i dd refs1 h1
        injection h with h; injection h with h _; subst h
        exact Step.append _ (hnew _ (hpb _ _ _ _ _ _ h1))
      · cases h

/-! ### the tail of the dispatcher -/

section tails
variable {cfg : XCfg} {tab : Nat} {pb : PB} {state : List BState} {refs : Refs} {parent : Node} {b : Str}
  {rest : List Str} {r : Node} {refs' : Refs} {rest' : List Str}

theorem tailRef_step (h : tailRef state refs parent b rest = some (r, refs', rest')) : Step parent r := by
  simp only [tailRef] at h
  split at h
  · exact step_of_some (referenceP_step _ _ _ _ _) h
  · exact step_of_some (paraP_step _ _ _ _ _) h

/-- `AbbrBlockprocessor.run` only writes to the table -/
theorem tailAbbr_step (h : tailAbbr cfg state refs parent b rest = some (r, refs', rest')) : Step parent r := by
  simp only [tailAbbr] at h
  split at h
  · split at h
    · injection h with h; injection h with h _; subst h; exact Step.refl _
    · cases h
    · exact tailRef_step h
  · exact tailRef_step h

/-- `FootnoteBlockProcessor.run` only writes to the table -/
theorem tailFootnote_step (h : tailFootnote cfg state refs parent b rest = some (r, refs', rest')) :
    Step parent r := by
  simp only [tailFootnote] at h
  split at h
  · split at h
    · injection h with h; injection h with h _; subst h; exact Step.refl _
    · exact tailAbbr_step h
  · exact tailAbbr_step h

theorem tailQuote_step (hpb : PBW pb) (h : tailQuote cfg pb state refs parent b rest = some (r, refs', rest')) :
    Step parent r := by
  simp only [tailQuote] at h
  split at h
  · exact quoteP_step hpb h
  · exact tailFootnote_step h

theorem tailDef_step (hpb : PBW pb) (h : tailDef cfg tab pb state refs parent b rest = some (r, refs', rest')) :
    Step parent r := by
  simp only [tailDef] at h
  split at h
  · split at h
    · split at h
      · rename_i res hres
        subst h
        exact defListP_step hpb hres
      · exact tailQuote_step hpb h
    · exact tailQuote_step hpb h
  · exact tailQuote_step hpb h

theorem tailList_step (hpb : PBW pb) (htab : 0 < tab)
    (h : tailList cfg tab pb state refs parent b rest = some (r, refs', rest')) : Step parent r := by
  simp only [tailList] at h
  split at h
  · rename_i hm
    split at h
    · exact listPX_step hpb (by decide) (getItemsX_first (p := .saneOl) htab hm) h
    · exact listP_step hpb (by decide) (Block.getItems_first htab hm) h
  · split at h
    · rename_i hm
      split at h
      · exact listPX_step hpb (by decide) (getItemsX_first (p := .saneUl) htab hm) h
      · exact listP_step hpb (by decide) (Block.getItems_first htab hm) h
    · exact tailDef_step hpb h

end tails

/-! ### the table processor -/

theorem WF_cellNode {tag : String} (htag : Ser.isEmptyTag tag.toList = false) (text : Str)
    (a : Option Tables.Align) : WF (cellNode tag text a) := by
  unfold cellNode
  cases a with
  | none => exact WF_mkNV rfl htag (by intro c hc; cases hc)
  | some al => exact WF_mkNV (keysNodup_single _) htag (by intro c hc; cases hc)

theorem WF_zipCells {tag : String} (htag : Ser.isEmptyTag tag.toList = false) :
    ∀ (ts : List Str) (as : List (Option Tables.Align)), ∀ c ∈ zipCells tag ts as, WF c := by
  intro ts
  induction ts with
  | nil => intro as c hc; simp [zipCells] at hc
  | cons t ts ih =>
    intro as c hc
    cases as with
    | nil => simp [zipCells] at hc
    | cons a as =>
      simp only [zipCells, List.mem_cons] at hc
      rcases hc with rfl | hc
      · exact WF_cellNode htag _ _
      · exact ih as c hc

theorem WF_tableNode (t : Tables.Table) : WF (tableNode t) := by
  have htr : ∀ l, (∀ c ∈ l, WF c) → WF ({ Node.el "tr" with children := l } : Node) :=
    fun l hl => WF_mkNV rfl (by decide) hl
  unfold tableNode
  refine WF_mkNV rfl (by decide) ?_
  intro c hc
  simp only [List.mem_cons, List.not_mem_nil, or_false] at hc
  rcases hc with rfl | rfl
  · refine WF_mkNV rfl (by decide) ?_
    intro c hc
    simp only [List.mem_singleton] at hc
    subst hc
    exact htr _ (WF_zipCells (by decide) _ _)
  · refine WF_mkNV rfl (by decide) ?_
    intro c hc
    simp only [List.mem_map] at hc
    obtain ⟨row, _, rfl⟩ := hc
    unfold bodyRow
    split
    · exact htr _ (WF_zipCells (by decide) _ _)
    · apply htr
      intro c hc
      simp only [List.mem_map] at hc
      obtain ⟨_, _, rfl⟩ := hc
      exact WF_el _

/-! ### the dispatcher -/

theorem tailEmptyT_step {tables : Bool} {cfg : XCfg} {tab : Nat} {pb : PB} (hpb : PBW pb) {state : List BState}
    {refs : Refs} {parent : Node} {b : Str} {rest : List Str} {r : Node} {refs' : Refs} {rest' : List Str}
    (h : tailEmptyT tables cfg tab pb state refs parent b rest = some (r, refs', rest')) : Step parent r := by
  unfold tailEmptyT at h
  cases hl : parent.last? <;> rw [hl] at h <;> dsimp only at h
  all_goals
    split at h
    · exact step_of_some (emptyP_step _ _ _ _) h
    · split at h
      · exact indentP_step hpb h
      · split at h
        · exact indentPX_step (fun _ => nv_isListTagD) (fun _ => nv_isItemTagD) (by decide) hpb h
        · split at h
          · exact step_of_some (codeP_step _ _ _ _ _) h
          · rename_i hsp
            have htab : 0 < tab := by
              cases tab with
              | zero => exact absurd (Block.startsWith_nil' b) hsp
              | succ n => omega
            split at h
            · injection h with h; injection h with h _; subst h
              exact Step.append _ (WF_tableNode _)
            · split at h
              · rename_i m hm
                obtain ⟨st, en, lv, hd⟩ := m
                exact hashP_step hpb (Block.hashSearch_level hm) h
              · split at h
                · exact step_of_some (setextP_step _ _ _ _) h
                · split at h
                  · exact hrP_step hpb h
                  · exact tailList_step hpb htab h

/-- one turn of the loop of `parseBlocks`.  `hadm`: when the admonition processor continues an admonition of the
    previous block, the node it parses the block into is not void (nothing to show when `admonition` is off). -/
theorem dispatchXT_step {tables : Bool} {cfg : XCfg} {tab : Nat} {pb : PB} (hpb : PBW pb) {state : List BState}
    {refs : Refs} {parent : Node} {b : Str} {rest : List Str}
    (hadm : cfg.admonition = true → ∀ steps indent, admTest tab parent b = some (.sib steps indent) →
      voidT (nodeAt steps parent).tag = false)
    {r : Node} {refs' : Refs} {rest' : List Str}
    (h : dispatchXT tables cfg tab pb state refs parent b rest = some (r, refs', rest')) : Step parent r := by
  simp only [dispatchXT] at h
  split at h
  · rename_i hit hh
    have hh' : cfg.admonition = true ∧ admTest tab parent b = some hit := by
      split at hh
      · rename_i hc; exact ⟨hc, hh⟩
      · cases hh
    exact admonitionP_step hpb (fun steps indent e => hadm hh'.1 steps indent (e ▸ hh'.2)) h
  · exact tailEmptyT_step hpb h

/-- `dispatchXT_step` with the condition on the tree: no `ul`/`ol`/`dl` on the last-child spine of the parent ends with
    a void element (needed when `admonition` is on only) -/
theorem dispatchXT_step_spine {tables : Bool} {cfg : XCfg} {tab : Nat} {pb : PB} (hpb : PBW pb) {state : List BState}
    {refs : Refs} {parent : Node} {b : Str} {rest : List Str}
    (hlists : cfg.admonition = true → ∀ j l, isAdmList (nodeAt j parent) = true →
      (nodeAt j parent).last? = some l → voidT l.tag = false)
    {r : Node} {refs' : Refs} {rest' : List Str}
    (h : dispatchXT tables cfg tab pb state refs parent b rest = some (r, refs', rest')) : Step parent r :=
  dispatchXT_step hpb (fun hc _ _ ht => admTest_sib_nv ht (hlists hc)) h

/-! ### the parser -/

/-- **the extended block parser is a step, for every fuel** (admonition off: see the header) -/
theorem parseBlocksXT_PBW (tables : Bool) {cfg : XCfg} (hadm : cfg.admonition = false) (tab : Nat) :
    ∀ fuel, PBW (parseBlocksXT tables cfg tab fuel)
  | 0 => by
    intro st refs p blocks r refs' h
    cases blocks with
    | nil => simp only [parseBlocksXT] at h; injection h with h; injection h with h _; subst h; exact Step.refl _
    | cons b rest => simp [parseBlocksXT] at h
  | f + 1 => by
    have ih := parseBlocksXT_PBW tables hadm tab f
    intro st refs p blocks
    induction blocks generalizing refs p with
    | nil =>
      intro r refs' h
      simp only [parseBlocksXT] at h; injection h with h; injection h with h _; subst h; exact Step.refl _
    | cons b rest _ =>
      intro r refs' h
      simp only [parseBlocksXT] at h
      split at h
      · rename_i p1 refs1 blocks1 hd
        exact (dispatchXT_step ih (fun e => by rw [hadm] at e; cases e) hd).trans (ih _ _ _ _ _ _ h)
      · cases h

/-- `parser.parseChunk(parent, text)` with the extended parser -/
theorem parseChunkXT_step (tables : Bool) {cfg : XCfg} (hadm : cfg.admonition = false) (tab fuel : Nat)
    (st : List BState) (log : Refs) (parent : Node) (text : Str) {n : Node} {r : Refs}
    (h : parseChunk (parseBlocksXT tables cfg tab fuel) st log parent text = some (n, r)) : Step parent n :=
  parseBlocksXT_PBW tables hadm tab fuel _ _ _ _ _ _ h

/-- **the block stage**: the tree of `parseDocumentXT` is well formed; its root is a `div` without attributes -/
theorem parseDocumentXT_WF {tables : Bool} {cfg : XCfg} (hadm : cfg.admonition = false) {tab : Nat} {text : Str}
    {root : Node} {log : Refs} (h : parseDocumentXT tables cfg tab text = some (root, log)) :
    WF root ∧ root.tag = .name "div".toList ∧ root.attrs = [] := by
  have s := parseChunkXT_step tables hadm tab _ [] [] (Node.el "div") text h
  exact ⟨s.2.2 (by decide) (WF_el _), s.1, s.2.1⟩

/-! ### with `admonition` the parser is not a step: a void element receives content -/

/-- an admonition whose content is a list that ends with an `hr` (`ul > li > ul > (li, li, hr)`), then a block
    indented deep enough to continue the innermost list.  The implementation (`markdown.markdown(…,
    extensions=['admonition'])`) answers `… <li>y</li>\n<hr />\n</ul> …`: the paragraph `text` is lost (xhtml);
    with `output_format='html'` it writes `<hr>\n<p>text</p>` (a void element has no end tag). -/
def admWitness : Str := "!!! note\n    - - x\n        - y\n        ***\n\n            text".toList

/-- the node five last-child links below the root is the `hr`, and it has the paragraph as a child (kernel
    evaluation of the model) -/
theorem admonition_void_witness_eval :
    (parseDocumentXT false { admonition := true } 4 admWitness).map
      (fun r => ((nodeAt 5 r.1).tag, (nodeAt 5 r.1).children.map (fun c => (c.tag, c.text)))) =
      some (.name "hr".toList, [(.name "p".toList, some "text".toList)]) := by
  decide +kernel

/-- **negative**: with `admonition` on, the tree of the block stage can contain an `hr` with a child -/
theorem admonition_void_witness :
    ∃ root log, parseDocumentXT false { admonition := true } 4 admWitness = some (root, log) ∧
      (nodeAt 5 root).tag = .name "hr".toList ∧ (nodeAt 5 root).children ≠ [] ∧ ¬ WF root := by
  have h := admonition_void_witness_eval
  generalize parseDocumentXT false { admonition := true } 4 admWitness = res at h ⊢
  cases res with
  | none => cases h
  | some rl =>
    obtain ⟨root, log⟩ := rl
    simp only [Option.map_some, Option.some.injEq, Prod.mk.injEq] at h
    obtain ⟨ht, hc⟩ := h
    have hne : (nodeAt 5 root).children ≠ [] := by intro e; rw [e] at hc; cases hc
    refine ⟨root, log, rfl, ht, hne, fun hwf => ?_⟩
    have := (WF_nodeAt 5 hwf).w.2 (by rw [ht]; decide)
    exact hne this.2

theorem PBW.chunk {pb : PB} (h : PBW pb) {st : List BState} {log : Refs} {parent : Node} {text : Str} {n : Node}
    {r : Refs} (hc : parseChunk pb st log parent text = some (n, r)) : Step parent n := h _ _ _ _ _ _ hc

/-- **negative**: `parseBlocksXT_PBW` does not hold with `admonition` on -/
theorem parseBlocksXT_not_PBW : ¬ ∀ fuel, PBW (parseBlocksXT false { admonition := true } 4 fuel) := by
  intro hall
  obtain ⟨root, log, hp, _, _, hn⟩ := admonition_void_witness
  have s : Step (Node.el "div") root := (hall (fuelForX admWitness.length)).chunk hp
  exact hn (s.2.2 (by decide) (WF_el _))

end MdVerif.VocabXWF
