/-
What the code does in the two known defect regions of C04 (negative results, text level), on the model:
* F-C04-3: a raw block indented by 1-3 spaces directly under a paragraph line (`extract_block_state_tx` with
  `atLineStart_indent`): the indentation stays behind as a line of spaces, so no blank line separates the paragraph from
  the placeholder;
* F-C04-6: an entity reference behind the closing tag on the same line: it goes to `_cache` and comes back as a stash
  entry of its own at the end of the document (`extract_tail_entity_state`) or glued in front of the next raw block
  (`extract_tail_entity_glued_state`).
Core Lean only.
-/
import MdVerif.Lemmas.HtmlTokMany

namespace MdVerif.HtmlTok
open Py Extract HtmlFrag
set_option linter.unusedSimpArgs false
set_option linter.unnecessarySimpa false

/-- the extractor state after a document `tx block ¶ p2`, where `tx` is plain text after which the tokenizer is at a
    line start in the sense of `at_line_start()` -/
theorem extract_block_state_tx (tx p2 name : Str) (attrs : List Attr) (trail : Str) (body : List Tok)
    (htx : plainOk tx = true) (htne : tx ≠ []) (hatx : ∀ s : Str, atLineStart (tx ++ s) (posOf tx) = true)
    (hp2 : plainOk p2 = true)
    (hopen : (Tok.open_ name attrs trail).ok = true) (hblock : isBlockLevelTag (lower name) = true)
    (hhr : lower name ≠ hrTag) (hbody : toksOk body = true) (hcl : closesOk (lower name) body = true) :
    extractText (tx ++ blockText name attrs trail body ++ nn ++ p2) =
      some { inraw := false, intail := false, stack := [], cache := [],
             cleandoc := [tx, ['\n'], placeholder 0, nn, nn ++ p2],
             stash := [blockText name attrs trail body ++ ['\n']] } := by
  -- the document as a token sequence
  let toks : List Tok := .text tx :: .open_ name attrs trail :: (body ++ (.close name :: [.text (nn ++ p2)]))
  have hnameok : nameOk name = true := by
    simp only [Tok.ok, Bool.and_eq_true] at hopen; exact hopen.1.1.1
  have hrender : renderToks toks = tx ++ blockText name attrs trail body ++ nn ++ p2 := by
    simp [toks, renderToks, renderToks_append, blockText, blockToks, Tok.render]
  have ht1 : (Tok.text tx).ok = true := plain_text_ok _ htx htne
  have ht2 : (Tok.text (nn ++ p2)).ok = true := plain_text_ok _ (plain_append_nn p2 hp2).2 (by simp [nn])
  have htoks : toksOk toks = true := by
    refine toksOk_cons_of ht1 (toksOk_cons_of hopen ?_ (by intro h; cases h)) (by intro _ u r h; cases h; rfl)
    exact toksOk_append_nontext body (.close name) [.text (nn ++ p2)] hbody
      (toksOk_close_text _ _ hnameok ht2) rfl
  have hev := events_of_toks toks htoks
  rw [hrender] at hev
  -- the events
  generalize hdoc : tx ++ blockText name attrs trail body ++ nn ++ p2 = doc at hev ⊢
  have hals : atLineStart doc (posOf (([] : Str) ++ (Tok.text tx).render)) = true := by
    have := hatx (blockText name attrs trail body ++ nn ++ p2)
    rw [← hdoc]; simpa [Tok.render, List.append_assoc] using this
  -- the prefix in front of the end tag
  have hlook : look doc (posOf (([] : Str) ++ (Tok.text tx).render ++ (Tok.open_ name attrs trail).render ++
      renderToks body)) (Tok.close name).render = true := by
    have : doc = (([] : Str) ++ (Tok.text tx).render ++ (Tok.open_ name attrs trail).render ++ renderToks body) ++
        ((Tok.close name).render ++ (nn ++ p2)) := by
      rw [← hdoc]; simp [blockText, blockToks, renderToks, renderToks_append, Tok.render]
    rw [this, look_posOf, blankLine_nn]
  obtain ⟨extra, hrun, hnot⟩ := closesOk_spec hcl
  have hcontent := content_of_stackRun doc body
    (([] : Str) ++ (Tok.text tx).render ++ (Tok.open_ name attrs trail).render) _ _ hrun
  -- the block's events form a balanced block
  have hbal : BalancedBlock (lower name)
      (tokEvent doc (posOf (([] : Str) ++ (Tok.text tx).render)) (.open_ name attrs trail) ::
        (toksEvents doc (([] : Str) ++ (Tok.text tx).render ++ (Tok.open_ name attrs trail).render) body ++
          [tokEvent doc (posOf (([] : Str) ++ (Tok.text tx).render ++ (Tok.open_ name attrs trail).render ++
            renderToks body)) (.close name)])) := by
    have hnhr : ¬ (lower name = ['h', 'r']) := hhr
    simp only [tokEvent, tagEvent, Bool.false_eq_true, if_false, hals, hblock, hnhr, decide_false]
    exact BalancedBlock.mk _ _ _ _ _ extra hcontent hnot
  have hblockText : evsText
      (tokEvent doc (posOf (([] : Str) ++ (Tok.text tx).render)) (.open_ name attrs trail) ::
        (toksEvents doc (([] : Str) ++ (Tok.text tx).render ++ (Tok.open_ name attrs trail).render) body ++
          [tokEvent doc (posOf (([] : Str) ++ (Tok.text tx).render ++ (Tok.open_ name attrs trail).render ++
            renderToks body)) (.close name)])) = blockText name attrs trail body := by
    have h1 := tokEvent_text doc (posOf (([] : Str) ++ (Tok.text tx).render)) _ hopen
    have h2 := evsText_toksEvents doc body
      (([] : Str) ++ (Tok.text tx).render ++ (Tok.open_ name attrs trail).render) hbody
    have h3 := tokEvent_text doc (posOf (([] : Str) ++ (Tok.text tx).render ++
      (Tok.open_ name attrs trail).render ++ renderToks body)) (.close name) hnameok
    simp only [evsText, List.map_cons, List.map_append, List.flatten_cons, List.flatten_append, List.map_nil,
      List.flatten_nil, List.append_nil] at h2 ⊢
    rw [h1, h2, h3]
    simp [blockText, blockToks, renderToks, renderToks_append]
  have hlast : lastBlankFollows
      (tokEvent doc (posOf (([] : Str) ++ (Tok.text tx).render)) (.open_ name attrs trail) ::
        (toksEvents doc (([] : Str) ++ (Tok.text tx).render ++ (Tok.open_ name attrs trail).render) body ++
          [tokEvent doc (posOf (([] : Str) ++ (Tok.text tx).render ++ (Tok.open_ name attrs trail).render ++
            renderToks body)) (.close name)])) = true := by
    rw [← List.cons_append]
    simp only [tokEvent]
    rw [lastBlankFollows_append_end, hlook]
  unfold extractText
  rw [hev]
  simp only [Option.map_some, Option.some.injEq]
  -- run the callbacks
  have hsplit : toksEvents doc [] toks ++ [Event.close []] =
      [.data tx] ++
      ((tokEvent doc (posOf (([] : Str) ++ (Tok.text tx).render)) (.open_ name attrs trail) ::
        (toksEvents doc (([] : Str) ++ (Tok.text tx).render ++ (Tok.open_ name attrs trail).render) body ++
          [tokEvent doc (posOf (([] : Str) ++ (Tok.text tx).render ++ (Tok.open_ name attrs trail).render ++
            renderToks body)) (.close name)])) ++ [.data (nn ++ p2), .close []]) := by
    simp [toks, toksEvents, toksEvents_append, tokEvent, List.append_assoc]
  rw [hsplit]
  unfold runEvents
  rw [runFrom_append, runFrom_append]
  have hst1 : runFrom init [.data tx] = { cleandoc := [tx] } := by
    simp [runFrom, step, handleData, init]
  rw [hst1, C04_block_once hbal _ rfl rfl rfl rfl, hblockText, hlast]
  simp [runFrom, step, handleData, handleClose, nn]


/-! ### indentation: `at_line_start()` allows up to three spaces -/

/-- `i` spaces -/
def sp (i : Nat) : Str := List.replicate i ' '

theorem col_spaces (q : Str) (i : Nat) : col (q ++ ['\n'] ++ sp i) = i := by
  have : (sp i).count '\n' = 0 := by simp [sp, List.count_replicate]
  rw [col_append_of_no_nl this, col_snoc_nl]; simp [sp]

/-- behind a line feed and at most three spaces the tokenizer is "at a line start" -/
theorem atLineStart_indent (q s : Str) (i : Nat) (hi : i ≤ 3) :
    atLineStart (q ++ ['\n'] ++ sp i ++ s) (posOf (q ++ ['\n'] ++ sp i)) = true := by
  have hoff : (posOf (q ++ ['\n'] ++ sp i)).offset = i := by rw [posOf_offset, col_spaces]
  have hlo := lineOffset_posOf (q ++ ['\n'] ++ sp i) s
  rw [hoff] at hlo
  unfold atLineStart
  rw [hoff]
  by_cases h0 : i = 0
  · simp [h0]
  · have h3 : ¬ i > 3 := by omega
    simp only [h0, h3, if_false]
    have hlen : (q ++ ['\n'] ++ sp i).length = q.length + 1 + i := by simp [sp]; omega
    have hl : lineOffset (q ++ ['\n'] ++ sp i ++ s) (posOf (q ++ ['\n'] ++ sp i)) = q.length + 1 := by omega
    rw [hl]
    have hsl : Extract.slice (q ++ ['\n'] ++ sp i ++ s) (q.length + 1) (q.length + 1 + i) = sp i := by
      unfold Extract.slice
      have h1 := drop_len_add (q ++ ['\n']) (sp i ++ s) 0
      simp only [List.length_append, List.length_cons, List.length_nil, Nat.add_zero, List.drop_zero] at h1
      rw [show q ++ ['\n'] ++ sp i ++ s = (q ++ ['\n']) ++ (sp i ++ s) by simp [List.append_assoc], h1]
      rw [show q.length + 1 + i - (q.length + 1) = (sp i).length by simp [sp]]
      exact List.take_left
    rw [hsl]
    have : strip (sp i) = [] := by
      unfold strip
      rw [stripP_eq_nil_iff]
      simp [sp, List.all_replicate]
    simp [this]

/-! ### F-C04-6: an entity reference behind the closing tag, on the same line -/

theorem blankLine_no_nl (t r : Str) (c : Char) (hc : c ≠ '\n') (hc2 : c ≠ ' ') (ht : '\n' ∉ t) :
    blankLine (t ++ c :: r) = false := by
  induction t with
  | nil =>
    simp only [List.nil_append, blankLine, spanLen_cons, hc2, decide_false, Bool.false_eq_true, if_false, List.drop_zero]
    split
    · rename_i t' h; simp at h; exact absurd h.1 hc
    · rfl
  | cons a t ih =>
    have ha : a ≠ '\n' := fun e => ht (e ▸ List.mem_cons_self)
    have ht' : '\n' ∉ t := fun h => ht (List.mem_cons_of_mem _ h)
    by_cases hsp : a = ' '
    · subst hsp
      have := ih ht'
      unfold blankLine at this ⊢
      simpa [spanLen_cons] using this
    · unfold blankLine
      simp only [List.cons_append, spanLen_cons, hsp, decide_false, Bool.false_eq_true, if_false, List.drop_zero]
      split
      · rename_i t' h; simp at h; exact absurd h.1 ha
      · rfl

/-- the text run between the closing tag and the entity reference, as a token list (nothing when it is empty) -/
def optText (t : Str) : List Tok := if t.isEmpty then [] else [.text t]

/-- **F-C04-6 on the model**: the extractor state after `p1 ¶ block t1 &name; t2 ¶ p2` -/
theorem extract_tail_entity_state (p1 p2 t1 t2 ename name : Str) (attrs : List Attr) (trail : Str) (body : List Tok)
    (hp1 : plainOk p1 = true) (hp2 : plainOk p2 = true)
    (ht1 : plainOk t1 = true) (ht1nl : '\n' ∉ t1) (ht2 : plainOk t2 = true) (hen : entityNameOk ename = true)
    (hopen : (Tok.open_ name attrs trail).ok = true) (hblock : isBlockLevelTag (lower name) = true)
    (hhr : lower name ≠ hrTag) (hbody : toksOk body = true) (hcl : closesOk (lower name) body = true) :
    extractText (p1 ++ nn ++ blockText name attrs trail body ++ t1 ++ ('&' :: ename ++ [';']) ++ t2 ++ nn ++ p2) =
      some { inraw := false, intail := false, stack := [], cache := [],
             cleandoc := [p1 ++ nn, ['\n'], placeholder 0, nn] ++ (if t1.isEmpty then [] else [t1]) ++
               [t2 ++ nn ++ p2, placeholder 1],
             stash := [blockText name attrs trail body, '&' :: ename ++ [';']] } := by
  let toks : List Tok := .text (p1 ++ nn) :: .open_ name attrs trail ::
    (body ++ (.close name :: (optText t1 ++ [.entity ename, .text (t2 ++ nn ++ p2)])))
  have hnameok : nameOk name = true := by
    simp only [Tok.ok, Bool.and_eq_true] at hopen; exact hopen.1.1.1
  have hrender : renderToks toks =
      p1 ++ nn ++ blockText name attrs trail body ++ t1 ++ ('&' :: ename ++ [';']) ++ t2 ++ nn ++ p2 := by
    cases h : t1.isEmpty
    · simp [toks, optText, h, renderToks, renderToks_append, blockText, blockToks, Tok.render, List.append_assoc]
    · have : t1 = [] := by simpa using h
      subst this
      simp [toks, optText, renderToks, renderToks_append, blockText, blockToks, Tok.render, List.append_assoc]
  have hta : (Tok.text (p1 ++ nn)).ok = true := plain_text_ok _ (plain_append_nn p1 hp1).1 (by simp [nn])
  have htb : (Tok.text (t2 ++ nn ++ p2)).ok = true := by
    apply plain_text_ok _ _ (by simp [nn])
    simp only [plainOk, Bool.and_eq_true, Bool.not_eq_true', List.contains_eq_mem, decide_eq_false_iff_not,
      List.mem_append, not_or] at ht2 hp2 ⊢
    exact ⟨⟨⟨ht2.1, by decide⟩, hp2.1⟩, ⟨⟨ht2.2, by decide⟩, hp2.2⟩⟩
  have htail : toksOk (.close name :: (optText t1 ++ [.entity ename, .text (t2 ++ nn ++ p2)])) = true := by
    have hent : (Tok.entity ename).ok = true := hen
    have hclose : (Tok.close name).ok = true := hnameok
    have htb' : (Tok.text (t2 ++ (nn ++ p2))).ok = true := by simpa [List.append_assoc] using htb
    cases h : t1.isEmpty
    · have hne : t1 ≠ [] := by intro e; rw [e] at h; cases h
      simp [optText, h, toksOk, isText, isBare, followOk, hclose, hent, plain_text_ok t1 ht1 hne, htb']
    · simp [optText, h, toksOk, isText, isBare, followOk, hclose, hent, htb']
  have htoks : toksOk toks = true := by
    refine toksOk_cons_of hta (toksOk_cons_of hopen ?_ (by intro h; cases h)) (by intro _ u r h; cases h; rfl)
    exact toksOk_append_nontext body (.close name) _ hbody htail rfl
  have hev := events_of_toks toks htoks
  rw [hrender] at hev
  generalize hdoc : p1 ++ nn ++ blockText name attrs trail body ++ t1 ++ ('&' :: ename ++ [';']) ++ t2 ++ nn ++ p2 = doc
    at hev ⊢
  have hpre1 : ([] : Str) ++ (Tok.text (p1 ++ nn)).render = (p1 ++ ['\n']) ++ ['\n'] := by simp [Tok.render, nn]
  have hals : atLineStart doc (posOf (([] : Str) ++ (Tok.text (p1 ++ nn)).render)) = true := by
    rw [hpre1]; exact atLineStart_after_nl doc _
  -- NO blank line behind the end tag
  have hlook : look doc (posOf (([] : Str) ++ (Tok.text (p1 ++ nn)).render ++ (Tok.open_ name attrs trail).render ++
      renderToks body)) (Tok.close name).render = false := by
    have : doc = (([] : Str) ++ (Tok.text (p1 ++ nn)).render ++ (Tok.open_ name attrs trail).render ++ renderToks body) ++
        ((Tok.close name).render ++ (t1 ++ '&' :: (ename ++ [';'] ++ t2 ++ nn ++ p2))) := by
      rw [← hdoc]; simp [blockText, blockToks, renderToks, renderToks_append, Tok.render, List.append_assoc]
    rw [this, look_posOf]
    exact blankLine_no_nl t1 _ '&' (by decide) (by decide) ht1nl
  obtain ⟨extra, hrun, hnot⟩ := closesOk_spec hcl
  have hcontent := content_of_stackRun doc body
    (([] : Str) ++ (Tok.text (p1 ++ nn)).render ++ (Tok.open_ name attrs trail).render) _ _ hrun
  have hbal : BalancedBlock (lower name)
      (tokEvent doc (posOf (([] : Str) ++ (Tok.text (p1 ++ nn)).render)) (.open_ name attrs trail) ::
        (toksEvents doc (([] : Str) ++ (Tok.text (p1 ++ nn)).render ++ (Tok.open_ name attrs trail).render) body ++
          [tokEvent doc (posOf (([] : Str) ++ (Tok.text (p1 ++ nn)).render ++ (Tok.open_ name attrs trail).render ++
            renderToks body)) (.close name)])) := by
    have hnhr : ¬ (lower name = ['h', 'r']) := hhr
    simp only [tokEvent, tagEvent, Bool.false_eq_true, if_false, hals, hblock, hnhr, decide_false]
    exact BalancedBlock.mk _ _ _ _ _ extra hcontent hnot
  have hblockText : evsText
      (tokEvent doc (posOf (([] : Str) ++ (Tok.text (p1 ++ nn)).render)) (.open_ name attrs trail) ::
        (toksEvents doc (([] : Str) ++ (Tok.text (p1 ++ nn)).render ++ (Tok.open_ name attrs trail).render) body ++
          [tokEvent doc (posOf (([] : Str) ++ (Tok.text (p1 ++ nn)).render ++ (Tok.open_ name attrs trail).render ++
            renderToks body)) (.close name)])) = blockText name attrs trail body := by
    have h1 := tokEvent_text doc (posOf (([] : Str) ++ (Tok.text (p1 ++ nn)).render)) _ hopen
    have h2 := evsText_toksEvents doc body
      (([] : Str) ++ (Tok.text (p1 ++ nn)).render ++ (Tok.open_ name attrs trail).render) hbody
    have h3 := tokEvent_text doc (posOf (([] : Str) ++ (Tok.text (p1 ++ nn)).render ++
      (Tok.open_ name attrs trail).render ++ renderToks body)) (.close name) hnameok
    simp only [evsText, List.map_cons, List.map_append, List.flatten_cons, List.flatten_append, List.map_nil,
      List.flatten_nil, List.append_nil] at h2 ⊢
    rw [h1, h2, h3]
    simp [blockText, blockToks, renderToks, renderToks_append]
  have hlast : lastBlankFollows
      (tokEvent doc (posOf (([] : Str) ++ (Tok.text (p1 ++ nn)).render)) (.open_ name attrs trail) ::
        (toksEvents doc (([] : Str) ++ (Tok.text (p1 ++ nn)).render ++ (Tok.open_ name attrs trail).render) body ++
          [tokEvent doc (posOf (([] : Str) ++ (Tok.text (p1 ++ nn)).render ++ (Tok.open_ name attrs trail).render ++
            renderToks body)) (.close name)])) = false := by
    rw [← List.cons_append]
    simp only [tokEvent]
    rw [lastBlankFollows_append_end, hlook]
  unfold extractText
  rw [hev]
  simp only [Option.map_some, Option.some.injEq]
  have hsplit : toksEvents doc [] toks ++ [Event.close []] =
      [.data (p1 ++ nn)] ++
      ((tokEvent doc (posOf (([] : Str) ++ (Tok.text (p1 ++ nn)).render)) (.open_ name attrs trail) ::
        (toksEvents doc (([] : Str) ++ (Tok.text (p1 ++ nn)).render ++ (Tok.open_ name attrs trail).render) body ++
          [tokEvent doc (posOf (([] : Str) ++ (Tok.text (p1 ++ nn)).render ++ (Tok.open_ name attrs trail).render ++
            renderToks body)) (.close name)])) ++
        ((if t1.isEmpty then [] else [Event.data t1]) ++ [.entityref ename, .data (t2 ++ nn ++ p2), .close []])) := by
    cases h : t1.isEmpty <;>
      simp [toks, toksEvents, toksEvents_append, tokEvent, List.append_assoc, optText, h]
  rw [hsplit]
  unfold runEvents
  rw [runFrom_append, runFrom_append]
  have hst1 : runFrom init [.data (p1 ++ nn)] = { cleandoc := [p1 ++ nn] } := by
    simp [runFrom, step, handleData, init]
  rw [hst1, C04_block_once hbal _ rfl rfl rfl rfl, hblockText, hlast]
  have hnl1 : t1.contains '\n' = false := by simpa using ht1nl
  have hnl2 : (t2 ++ nn ++ p2).contains '\n' = true := by simp [nn]
  cases h : t1.isEmpty <;>
    simp [runFrom, step, handleData, handleEmpty, handleClose, storeAppend, entityrefText, hnl1, hnl2, ht1nl, nn, h]

/-! ### F-C04-6, second form: the leftover is glued in front of the next raw block -/

/-- the events of a block element at a line start -/
theorem blockEvs_facts (raw pre name : Str) (attrs : List Attr) (trail : Str) (body : List Tok)
    (hopen : (Tok.open_ name attrs trail).ok = true) (hblock : isBlockLevelTag (lower name) = true)
    (hhr : lower name ≠ hrTag) (hbody : toksOk body = true) (hcl : closesOk (lower name) body = true)
    (hals : atLineStart raw (posOf pre) = true) :
    BalancedBlock (lower name) (toksEvents raw pre (blockToks name attrs trail body)) ∧
    evsText (toksEvents raw pre (blockToks name attrs trail body)) = blockText name attrs trail body ∧
    lastBlankFollows (toksEvents raw pre (blockToks name attrs trail body)) =
      look raw (posOf (pre ++ (Tok.open_ name attrs trail).render ++ renderToks body)) (Tok.close name).render := by
  have hnameok : nameOk name = true := by
    simp only [Tok.ok, Bool.and_eq_true] at hopen; exact hopen.1.1.1
  have hsplit : toksEvents raw pre (blockToks name attrs trail body) =
      tokEvent raw (posOf pre) (.open_ name attrs trail) ::
        (toksEvents raw (pre ++ (Tok.open_ name attrs trail).render) body ++
          [tokEvent raw (posOf (pre ++ (Tok.open_ name attrs trail).render ++ renderToks body)) (.close name)]) := by
    simp [blockToks, toksEvents, toksEvents_append]
  obtain ⟨extra, hrun, hnot⟩ := closesOk_spec hcl
  have hcontent := content_of_stackRun raw body (pre ++ (Tok.open_ name attrs trail).render) _ _ hrun
  refine ⟨?_, ?_, ?_⟩
  · rw [hsplit]
    have hnhr : ¬ (lower name = ['h', 'r']) := hhr
    simp only [tokEvent, tagEvent, Bool.false_eq_true, if_false, hals, hblock, hnhr, decide_false]
    exact BalancedBlock.mk _ _ _ _ _ extra hcontent hnot
  · have hok : toksOk (blockToks name attrs trail body) = true := by
      refine toksOk_cons_of hopen ?_ (by intro h; cases h)
      exact toksOk_append_nontext body (.close name) [] hbody
        (toksOk_single (t := .close name) hnameok) rfl
    rw [evsText_toksEvents raw _ pre hok]; rfl
  · rw [hsplit, ← List.cons_append]
    simp only [tokEvent]
    rw [lastBlankFollows_append_end]

theorem toksOk_block_append (n : Str) (a : List Attr) (tr : Str) (b R : List Tok)
    (ho : (Tok.open_ n a tr).ok = true) (hb : toksOk b = true) (hR : toksOk R = true) :
    toksOk (blockToks n a tr b ++ R) = true := by
  have hnok : (Tok.close n).ok = true := by simp only [Tok.ok, Bool.and_eq_true] at ho; exact ho.1.1.1
  have e : blockToks n a tr b ++ R = Tok.open_ n a tr :: (b ++ Tok.close n :: R) := by simp [blockToks]
  rw [e]
  refine toksOk_cons_of ho ?_ (by intro h; cases h)
  exact toksOk_append_nontext b (.close n) R hb (toksOk_cons_of hnok hR (by intro h; cases h)) rfl

/-- what the events between the two blocks do while `intail` is set: the text runs go to `cleandoc`, the entity
    reference goes to `_cache` -/
theorem run_mid (cd sh : List Str) (t1 ename d : Str) (hnl : '\n' ∉ t1) (hd : d.contains '\n' = true) :
    runFrom (⟨false, true, [], [], cd, sh⟩ : ExSt)
      ((if t1.isEmpty then [] else [Event.data t1]) ++ [.entityref ename, .data d]) =
      (⟨false, false, [], ['&' :: ename ++ [';']], cd ++ (if t1.isEmpty then [] else [t1]) ++ [d], sh⟩ : ExSt) := by
  have hnl1 : t1.contains '\n' = false := by simpa using hnl
  have hd' : '\n' ∈ d := by simpa using hd
  cases h : t1.isEmpty <;>
    simp [runFrom, step, handleData, handleEmpty, entityrefText, hnl1, hnl, hd, hd', h]

/-- **F-C04-6 on the model, with a second raw block**: `p1 ¶ block1 t1 &name; t2 ¶ block2 ¶ p3` -/
theorem extract_tail_entity_glued_state (p1 p3 t1 t2 ename : Str)
    (n1 : Str) (a1 : List Attr) (tr1 : Str) (b1 : List Tok) (n2 : Str) (a2 : List Attr) (tr2 : Str) (b2 : List Tok)
    (hp1 : plainOk p1 = true) (hp3 : plainOk p3 = true)
    (ht1 : plainOk t1 = true) (ht1nl : '\n' ∉ t1) (ht2 : plainOk t2 = true) (hen : entityNameOk ename = true)
    (ho1 : (Tok.open_ n1 a1 tr1).ok = true) (hb1 : isBlockLevelTag (lower n1) = true) (hh1 : lower n1 ≠ hrTag)
    (hbd1 : toksOk b1 = true) (hc1 : closesOk (lower n1) b1 = true)
    (ho2 : (Tok.open_ n2 a2 tr2).ok = true) (hb2 : isBlockLevelTag (lower n2) = true) (hh2 : lower n2 ≠ hrTag)
    (hbd2 : toksOk b2 = true) (hc2 : closesOk (lower n2) b2 = true) :
    extractText (p1 ++ nn ++ blockText n1 a1 tr1 b1 ++ t1 ++ ('&' :: ename ++ [';']) ++ t2 ++ nn ++
        blockText n2 a2 tr2 b2 ++ nn ++ p3) =
      some { inraw := false, intail := false, stack := [], cache := [],
             cleandoc := [p1 ++ nn, ['\n'], placeholder 0, nn] ++ (if t1.isEmpty then [] else [t1]) ++
               [t2 ++ nn, ['\n'], placeholder 1, nn, nn ++ p3],
             stash := [blockText n1 a1 tr1 b1, ('&' :: ename ++ [';']) ++ blockText n2 a2 tr2 b2 ++ ['\n']] } := by
  let mid : List Tok := optText t1 ++ [.entity ename, .text (t2 ++ nn)]
  let toks : List Tok := .text (p1 ++ nn) :: (blockToks n1 a1 tr1 b1 ++ (mid ++ (blockToks n2 a2 tr2 b2 ++ [.text (nn ++ p3)])))
  have hmidr : renderToks mid = t1 ++ ('&' :: ename ++ [';']) ++ t2 ++ nn := by
    cases h : t1.isEmpty
    · simp [mid, optText, h, renderToks, Tok.render, List.append_assoc]
    · have : t1 = [] := by simpa using h
      subst this; simp [mid, optText, renderToks, Tok.render, List.append_assoc]
  have hrender : renderToks toks = p1 ++ nn ++ blockText n1 a1 tr1 b1 ++ t1 ++ ('&' :: ename ++ [';']) ++ t2 ++ nn ++
      blockText n2 a2 tr2 b2 ++ nn ++ p3 := by
    simp only [toks, renderToks, renderToks_append, hmidr, blockText, Tok.render]
    simp [List.append_assoc]
  have hta : (Tok.text (p1 ++ nn)).ok = true := plain_text_ok _ (plain_append_nn p1 hp1).1 (by simp [nn])
  have htm : (Tok.text (t2 ++ nn)).ok = true := plain_text_ok _ (plain_append_nn t2 ht2).1 (by simp [nn])
  have htz : (Tok.text (nn ++ p3)).ok = true := plain_text_ok _ (plain_append_nn p3 hp3).2 (by simp [nn])
  have htoks : toksOk toks = true := by
    have h2 : toksOk (blockToks n2 a2 tr2 b2 ++ [.text (nn ++ p3)]) = true :=
      toksOk_block_append n2 a2 tr2 b2 _ ho2 hbd2 (toksOk_single htz)
    have hent : (Tok.entity ename).ok = true := hen
    have hhead2 : ∀ u r, blockToks n2 a2 tr2 b2 ++ [Tok.text (nn ++ p3)] = u :: r → isText u = false := by
      intro u r h; simp [blockToks] at h; rw [← h.1]; rfl
    have hmid : toksOk (mid ++ (blockToks n2 a2 tr2 b2 ++ [.text (nn ++ p3)])) = true := by
      have h3 : toksOk (Tok.text (t2 ++ nn) :: (blockToks n2 a2 tr2 b2 ++ [.text (nn ++ p3)])) = true :=
        toksOk_cons_of htm h2 (fun _ => hhead2)
      have h4 : toksOk (Tok.entity ename :: Tok.text (t2 ++ nn) :: (blockToks n2 a2 tr2 b2 ++ [.text (nn ++ p3)])) = true :=
        toksOk_cons_of hent h3 (by intro h; cases h)
      cases h : t1.isEmpty
      · have hne : t1 ≠ [] := by intro e; rw [e] at h; cases h
        simp only [mid, optText, h, Bool.false_eq_true, if_false, List.cons_append, List.nil_append]
        exact toksOk_cons_of (plain_text_ok t1 ht1 hne) h4 (by intro _ u r h; cases h; rfl)
      · simpa [mid, optText, h] using h4
    have hb1' := toksOk_block_append n1 a1 tr1 b1 _ ho1 hbd1 hmid
    exact toksOk_cons_of hta hb1' (by intro _ u r h; simp [blockToks] at h; rw [← h.1]; rfl)
  have hev := events_of_toks toks htoks
  rw [hrender] at hev
  generalize hdoc : p1 ++ nn ++ blockText n1 a1 tr1 b1 ++ t1 ++ ('&' :: ename ++ [';']) ++ t2 ++ nn ++
      blockText n2 a2 tr2 b2 ++ nn ++ p3 = doc at hev ⊢
  -- positions
  have hals1 : atLineStart doc (posOf (([] : Str) ++ (Tok.text (p1 ++ nn)).render)) = true := by
    have : ([] : Str) ++ (Tok.text (p1 ++ nn)).render = (p1 ++ ['\n']) ++ ['\n'] := by simp [Tok.render, nn]
    rw [this]; exact atLineStart_after_nl doc _
  obtain ⟨hbal1, htext1, hlast1⟩ := blockEvs_facts doc (([] : Str) ++ (Tok.text (p1 ++ nn)).render) n1 a1 tr1 b1 ho1 hb1 hh1
    hbd1 hc1 hals1
  have hlook1 : look doc (posOf (([] : Str) ++ (Tok.text (p1 ++ nn)).render ++ (Tok.open_ n1 a1 tr1).render ++
      renderToks b1)) (Tok.close n1).render = false := by
    have : doc = (([] : Str) ++ (Tok.text (p1 ++ nn)).render ++ (Tok.open_ n1 a1 tr1).render ++ renderToks b1) ++
        ((Tok.close n1).render ++ (t1 ++ '&' :: (ename ++ [';'] ++ t2 ++ nn ++ blockText n2 a2 tr2 b2 ++ nn ++ p3))) := by
      rw [← hdoc]; simp [blockText, blockToks, renderToks, renderToks_append, Tok.render, List.append_assoc]
    rw [this, look_posOf]
    exact blankLine_no_nl t1 _ '&' (by decide) (by decide) ht1nl
  rw [hlook1] at hlast1
  -- the second block
  have hpre2 : ([] : Str) ++ (Tok.text (p1 ++ nn)).render ++ renderToks (blockToks n1 a1 tr1 b1) ++ renderToks mid =
      (p1 ++ nn ++ blockText n1 a1 tr1 b1 ++ t1 ++ ('&' :: ename ++ [';']) ++ t2 ++ ['\n']) ++ ['\n'] := by
    rw [hmidr]; simp [Tok.render, blockText, nn, List.append_assoc]
  have hals2 : atLineStart doc (posOf (([] : Str) ++ (Tok.text (p1 ++ nn)).render ++ renderToks (blockToks n1 a1 tr1 b1) ++
      renderToks mid)) = true := by
    rw [hpre2]; exact atLineStart_after_nl doc _
  obtain ⟨hbal2, htext2, hlast2⟩ := blockEvs_facts doc (([] : Str) ++ (Tok.text (p1 ++ nn)).render ++
    renderToks (blockToks n1 a1 tr1 b1) ++ renderToks mid) n2 a2 tr2 b2 ho2 hb2 hh2 hbd2 hc2 hals2
  have hlook2 : look doc (posOf (([] : Str) ++ (Tok.text (p1 ++ nn)).render ++ renderToks (blockToks n1 a1 tr1 b1) ++
      renderToks mid ++ (Tok.open_ n2 a2 tr2).render ++ renderToks b2)) (Tok.close n2).render = true := by
    have : doc = (([] : Str) ++ (Tok.text (p1 ++ nn)).render ++ renderToks (blockToks n1 a1 tr1 b1) ++
        renderToks mid ++ (Tok.open_ n2 a2 tr2).render ++ renderToks b2) ++ ((Tok.close n2).render ++ (nn ++ p3)) := by
      rw [← hdoc, hmidr]
      simp [blockText, blockToks, renderToks, renderToks_append, Tok.render, List.append_assoc]
    rw [this, look_posOf, blankLine_nn]
  rw [hlook2] at hlast2
  unfold extractText
  rw [hev]
  simp only [Option.map_some, Option.some.injEq]
  have hsplit : toksEvents doc [] toks ++ [Event.close []] =
      [.data (p1 ++ nn)] ++ (toksEvents doc (([] : Str) ++ (Tok.text (p1 ++ nn)).render) (blockToks n1 a1 tr1 b1) ++
        (((if t1.isEmpty then [] else [Event.data t1]) ++ [.entityref ename, .data (t2 ++ nn)]) ++
          (toksEvents doc (([] : Str) ++ (Tok.text (p1 ++ nn)).render ++ renderToks (blockToks n1 a1 tr1 b1) ++
            renderToks mid) (blockToks n2 a2 tr2 b2) ++ [.data (nn ++ p3), .close []]))) := by
    have hm : ∀ pre, toksEvents doc pre mid =
        (if t1.isEmpty then [] else [Event.data t1]) ++ [.entityref ename, .data (t2 ++ nn)] := by
      intro pre
      cases h : t1.isEmpty <;> simp [mid, optText, h, toksEvents, tokEvent]
    simp only [toks, toksEvents, toksEvents_append, hm, tokEvent, List.append_assoc, List.cons_append,
      List.nil_append, List.singleton_append]
  rw [hsplit]
  unfold runEvents
  rw [runFrom_append, runFrom_append, runFrom_append, runFrom_append]
  have hst1 : runFrom init [.data (p1 ++ nn)] = { cleandoc := [p1 ++ nn] } := by
    simp [runFrom, step, handleData, init]
  rw [hst1, C04_block_once hbal1 _ rfl rfl rfl rfl, htext1, hlast1]
  simp only [Bool.not_false, Bool.false_eq_true, if_false, List.append_nil]
  rw [run_mid _ _ t1 ename (t2 ++ nn) ht1nl (by simp [nn])]
  rw [run_block hbal2 _ rfl rfl rfl, htext2, hlast2]
  cases h : t1.isEmpty <;> simp [runFrom, step, handleData, handleClose, nn, h]

end MdVerif.HtmlTok
