/-
Helper lemmas for C10 on the extension model (block stage), part 2: the extension processors that need no knowledge of
the tree below the last child — `defListP`, `footnoteP`, `abbrP` (the last two only write to the log), the table
processor `tableP` — and the dispatcher below the admonition test (`tailRef` … `tailEmptyT`).

What the recognisers return is an infix of the block (`defSearch_infix`, `fnSearch_infix`, `abbrSearch_infix`); the
cells of a table row are infixes of the row, or of the row without its closing border pipe (`splitRow_p`).
Core Lean only.
-/
import MdVerif.Lemmas.PlaceholdersXBlock

namespace MdVerif.NoCtl.BlkX
open Py Block Blk BlkB

/-! ### the search combinators -/

section search
variable {α : Type}

theorem nlSearchAux_some {f : Str → Option α} : ∀ (s : Str) (i : Nat) {r : Nat × Nat × α},
    BlockExt.nlSearchAux f i s = some r → ∃ t, t <:+ s ∧ f t = some r.2.2
  | [], _, _, h => by simp [BlockExt.nlSearchAux] at h
  | c :: s, i, r, h => by
    simp only [BlockExt.nlSearchAux] at h
    split at h
    · split at h
      · next a ha => cases h; exact ⟨s, List.suffix_cons _ _, ha⟩
      · obtain ⟨t, ht, hf⟩ := nlSearchAux_some s (i + 1) h
        exact ⟨t, ht.trans (List.suffix_cons _ _), hf⟩
    · obtain ⟨t, ht, hf⟩ := nlSearchAux_some s (i + 1) h
      exact ⟨t, ht.trans (List.suffix_cons _ _), hf⟩

theorem nlSearch_some {f : Str → Option α} {s : Str} {r : Nat × Nat × α} (h : BlockExt.nlSearch f s = some r) :
    ∃ t, t <:+ s ∧ f t = some r.2.2 := by
  simp only [BlockExt.nlSearch] at h
  split at h
  · next a ha => cases h; exact ⟨s, List.suffix_refl _, ha⟩
  · exact nlSearchAux_some s 0 h

theorem lineSearchAux_some {f : Str → Option α} : ∀ (s : Str) (at0 : Bool) (i : Nat) {r : Nat × α},
    BlockExt.lineSearchAux f at0 i s = some r → ∃ t, t <:+ s ∧ f t = some r.2
  | [], at0, i, r, h => by
    simp only [BlockExt.lineSearchAux] at h
    split at h
    · simp only [Option.map_eq_some_iff] at h
      obtain ⟨a, ha, rfl⟩ := h
      exact ⟨[], List.suffix_refl _, ha⟩
    · cases h
  | c :: s, at0, i, r, h => by
    simp only [BlockExt.lineSearchAux] at h
    split at h
    · next a ha =>
      cases h
      split at ha
      · exact ⟨c :: s, List.suffix_refl _, ha⟩
      · cases ha
    · obtain ⟨t, ht, hf⟩ := lineSearchAux_some s _ (i + 1) h
      exact ⟨t, ht.trans (List.suffix_cons _ _), hf⟩

theorem lineSearch_some {f : Str → Option α} {s : Str} {r : Nat × α} (h : BlockExt.lineSearch f s = some r) :
    ∃ t, t <:+ s ∧ f t = some r.2 := lineSearchAux_some s true 0 h

end search

/-! ### the recognisers of the extension processors -/

theorem takeWhile_drop_infix (f : Char → Bool) (n : Nat) (s : Str) : (s.drop n).takeWhile f <:+: s :=
  (List.takeWhile_prefix _).isInfix.trans (List.drop_suffix _ _).isInfix

theorem defAt_infix {s g : Str} {n : Nat} (h : BlockExt.defAt s = some (g, n)) : g <:+: s := by
  simp only [BlockExt.defAt] at h
  split at h
  · next c r hr =>
    split at h
    · split at h
      · cases h
      · cases h
        have hr' : r <:+ s := (List.suffix_cons c r).trans (hr ▸ List.drop_suffix _ s)
        exact (takeWhile_drop_infix _ _ r).trans hr'.isInfix
    · cases h
  · cases h

theorem defSearch_infix {b g : Str} {st en : Nat} (h : BlockExt.defSearch b = some (st, en, g)) : g <:+: b := by
  simp only [BlockExt.defSearch] at h
  split at h
  · next st' o g' n hs =>
    cases h
    obtain ⟨t, ht, hf⟩ := nlSearch_some hs
    exact (defAt_infix hf).trans ht.isInfix
  · cases h

theorem fnAt_infix {s id g : Str} {n : Nat} (h : BlockExt.fnAt s = some (id, g, n)) : id <:+: s ∧ g <:+: s := by
  simp only [BlockExt.fnAt] at h
  split at h
  · split at h
    · cases h
      refine ⟨?_, ?_⟩
      · exact (List.take_prefix _ _).isInfix.trans
          ((List.drop_suffix _ _).trans (List.drop_suffix _ _)).isInfix
      · exact (takeWhile_drop_infix _ _ _).trans
          ((List.drop_suffix _ _).trans ((List.drop_suffix _ _).trans (List.drop_suffix _ _))).isInfix
    · cases h
  · cases h

theorem fnSearch_infix {b id g : Str} {st n : Nat} (h : BlockExt.fnSearch b = some (st, id, g, n)) :
    id <:+: b ∧ g <:+: b := by
  obtain ⟨t, ht, hf⟩ := lineSearch_some h
  have := fnAt_infix hf
  exact ⟨this.1.trans ht.isInfix, this.2.trans ht.isInfix⟩

theorem abbrAt_infix {s ab t : Str} {n : Nat} (h : BlockExt.abbrAt s = some (ab, t, n)) : ab <:+: s ∧ t <:+: s := by
  simp only [BlockExt.abbrAt] at h
  split at h
  · split at h
    · cases h
    · cases h
      refine ⟨(List.take_prefix _ _).isInfix.trans (List.drop_suffix _ _).isInfix, ?_⟩
      exact (takeWhile_drop_infix _ _ _).trans
        ((List.drop_suffix _ _).trans ((List.drop_suffix _ _).trans
          ((List.drop_suffix _ _).trans (List.drop_suffix _ _)))).isInfix
  · cases h

theorem abbrSearch_infix {b ab t : Str} {st n : Nat} (h : BlockExt.abbrSearch b = some (st, ab, t, n)) :
    ab <:+: b ∧ t <:+: b := by
  obtain ⟨u, hu, hf⟩ := lineSearch_some h
  have := abbrAt_infix hf
  exact ⟨this.1.trans hu.isInfix, this.2.trans hu.isInfix⟩

section procs
variable {p q : Char → Bool} {P : Str → Prop}

theorem stripP_p (h : StrDom p q P) {s : Str} (hs : P s) (f : Char → Bool) : P (stripP f s) :=
  h.inf _ _ hs (stripP_infix f s)

/-- joining with a blank line -/
theorem joinPara (h : StrDom p q P) : ∀ {l : List Str}, PL P l → P (join ['\n', '\n'] l)
  | [], _ => h.nil
  | [a], hl => hl a (by simp)
  | a :: b :: r, hl => by
    have h1 := pl_cons.1 hl
    have ih := joinPara h h1.2
    rw [join_cons_cons]
    have : a ++ ['\n', '\n'] ++ join ['\n', '\n'] (b :: r) = a ++ '\n' :: ([] ++ '\n' :: join ['\n', '\n'] (b :: r)) := by
      simp
    rw [this]
    exact h.joinNl _ _ h1.1 (h.joinNl _ _ h.nil ih)

/-! ### definition lists -/

theorem dropLastChild_tx {n : Node} (h : TX p q P n) : TX p q P (BlockExt.dropLastChild n) := by
  have hn := h.nx
  refine tx_iff.2 ⟨⟨hn.tag, hn.attrs, hn.tailAt, hn.tail, hn.text, hn.atomCode, hn.codeAtom⟩, ?_⟩
  intro c hc
  exact h.child (List.dropLast_subset _ hc)

theorem addTerms_tx (hnil : P []) {dl : Node} (h : TX p q P dl) {terms : List Str} (ht : PL P terms) :
    TX p q P (BlockExt.addTerms dl terms) ∧ (BlockExt.addTerms dl terms).tag = dl.tag ∧
      (BlockExt.addTerms dl terms).textAtomic = dl.textAtomic := by
  have hn := h.nx
  refine ⟨tx_iff.2 ⟨⟨hn.tag, hn.attrs, hn.tailAt, hn.tail, hn.text, hn.atomCode, hn.codeAtom⟩, ?_⟩, rfl, rfl⟩
  intro c hc
  simp only [BlockExt.addTerms, List.mem_append, List.mem_map] at hc
  rcases hc with hc | ⟨t, ht', rfl⟩
  · exact h.child hc
  · exact ⟨tx_mkText hnil "dt" (by decide) (ht t ht'), fun h' => by cases h'⟩

theorem defListP_x (h : StrDom p q P) {tab : Nat} {pb : PB} (hpb : PresX p q P pb) {state : List BState}
    {refs : Refs} {parent : Node} {b : Str} {rest : List Str} {m : Nat × Nat × Str}
    (hP : TX p q P parent) (hA : parent.textAtomic = false) (hR : LogC p P refs) (hb : P b)
    (hrest : PL P rest) (hm : BlockExt.defSearch b = some m) {r : Node × Refs × List Str}
    (hr : BlockExt.defListP tab pb state refs parent b rest m = some (some r)) : ResX p q P r := by
  obtain ⟨st, en, g2⟩ := m
  have hg : P g2 := h.inf _ _ hb (defSearch_infix hm)
  have hterms0 : PL P (((lines (b.take st)).map strip).filter (fun t => !t.isEmpty)) :=
    (pl_map (h.lines (h.take hb st)) (fun s hs => h.strip hs)).mono (fun _ hx => (List.mem_filter.1 hx).1)
  -- the definition text and the rest
  have hdr : ∀ x : Str × Str, x = (if BlockExt.defNoIndent (b.drop en) then (b.drop en, []) else detab tab (b.drop en)) →
      P (if x.1.isEmpty then g2 else g2 ++ '\n' :: x.1) ∧ PL P (if x.2.isEmpty then rest else x.2 :: rest) := by
    intro x hx
    have hx12 : P x.1 ∧ P x.2 := by
      subst hx
      split
      · exact ⟨h.drop hb en, h.nil⟩
      · exact h.detab tab (h.drop hb en)
    refine ⟨?_, pl_consIf _ hx12.2 hrest⟩
    split
    · exact hg
    · exact h.joinNl _ _ hg hx12.1
  simp only [BlockExt.defListP] at hr
  generalize hxe : (if BlockExt.defNoIndent (b.drop en) then (b.drop en, []) else detab tab (b.drop en)) = x at hr
  obtain ⟨hd, hre⟩ := hdr x hxe.symm
  obtain ⟨x1, x2⟩ := x
  simp only [] at hr hd hre
  have hdd : TX p q P (Node.el "dd") := tx_el h.nil "dd" (by decide)
  have hdl : TX p q P (Node.el "dl") := tx_el h.nil "dl" (by decide)
  -- a fresh `dl` with the terms and the new `dd`
  have fresh : ∀ {terms : List Str} {dd : Node}, PL P terms → TX p q P dd → dd.textAtomic = false →
      TX p q P ((BlockExt.addTerms (Node.el "dl") terms).append dd) ∧
        ((BlockExt.addTerms (Node.el "dl") terms).append dd).textAtomic = false := by
    intro terms dd ht hdd' hna
    obtain ⟨a1, _, a3⟩ := addTerms_tx h.nil hdl ht
    exact ⟨a1.append hdd' hna, a3⟩
  split at hr
  · -- no sibling
    split at hr
    · cases hr
    · simp only [Option.some.injEq] at hr
      split at hr
      · next dd refs' hcall =>
        obtain ⟨o1, o2, o3⟩ := hpb _ _ _ _ _ hdd rfl hR (pl_one hd) hcall
        cases hr
        obtain ⟨f1, f2⟩ := fresh hterms0 o1 o2
        exact ⟨hP.append f1 f2, hA, o3, hre⟩
      · cases hr
  · next sibling hl =>
    simp only [Option.some.injEq] at hr
    have hsib := hP.last hl
    -- the terms and the parent after `if not terms and sibling.tag == 'p'`
    have hterms : PL P (if ((((lines (b.take st)).map strip).filter (fun t => !t.isEmpty)).isEmpty && sibling.isTag "p") = true
        then lines (sibling.text.getD []) else ((lines (b.take st)).map strip).filter (fun t => !t.isEmpty)) := by
      split
      · next hc =>
        simp only [Bool.and_eq_true] at hc
        have hna : sibling.textAtomic = false := by
          apply hsib.1.nx.notAtomic
          rw [isTag_iff.1 hc.2]; decide
        exact h.lines (hsib.1.nx.textP hna)
      · exact hterms0
    have hpar : TX p q P (if ((((lines (b.take st)).map strip).filter (fun t => !t.isEmpty)).isEmpty && sibling.isTag "p") = true
        then BlockExt.dropLastChild parent else parent) ∧
        (if ((((lines (b.take st)).map strip).filter (fun t => !t.isEmpty)).isEmpty && sibling.isTag "p") = true
        then BlockExt.dropLastChild parent else parent).textAtomic = false := by
      split
      · exact ⟨dropLastChild_tx hP, hA⟩
      · exact ⟨hP, hA⟩
    generalize (if ((((lines (b.take st)).map strip).filter (fun t => !t.isEmpty)).isEmpty && sibling.isTag "p") = true
        then lines (sibling.text.getD []) else ((lines (b.take st)).map strip).filter (fun t => !t.isEmpty)) = terms
        at hr hterms
    generalize (if ((((lines (b.take st)).map strip).filter (fun t => !t.isEmpty)).isEmpty && sibling.isTag "p") = true
        then BlockExt.dropLastChild parent else parent) = parent2 at hr hpar
    split at hr
    · next dl hs =>
      have hdl' : parent2.last? = some dl ∧ dl.isTag "dl" = true := by
        split at hs
        · next s hl' =>
          split at hs
          · next ht => cases hs; exact ⟨hl', ht⟩
          · cases hs
        · cases hs
      have hc := hpar.1.last hdl'.1
      have hdltag : dl.tag = .name "dl".toList := isTag_iff.1 hdl'.2
      split at hr
      · next dd refs' hcall =>
        obtain ⟨o1, o2, o3⟩ := hpb _ _ _ _ _ hdd rfl hR (pl_one hd) hcall
        cases hr
        obtain ⟨a1, a2, a3⟩ := addTerms_tx h.nil hc.1 hterms
        refine ⟨hpar.1.setLastNA (a1.append o1 o2) ?_, hpar.2, o3, hre⟩
        rw [append_textAtomic, a3]
        apply hc.1.nx.notAtomic
        rw [hdltag]; decide
      · cases hr
    · split at hr
      · next dd refs' hcall =>
        obtain ⟨o1, o2, o3⟩ := hpb _ _ _ _ _ hdd rfl hR (pl_one hd) hcall
        cases hr
        obtain ⟨f1, f2⟩ := fresh hterms o1 o2
        exact ⟨hpar.1.append f1 f2, hpar.2, o3, hre⟩
      · cases hr

end procs

end MdVerif.NoCtl.BlkX

namespace MdVerif.NoCtl.BlkX
open Py Block Blk BlkB
section procs2
variable {p q : Char → Bool} {P : Str → Prop}

theorem keyOf_fn (id : Str) (v : Str × Option Str) :
    keyOf (BlockExt.fnKey id, v) = id ∧ BlockExt.isFnEntry (BlockExt.fnKey id, v) = true := by
  simp [keyOf, BlockExt.isFnEntry, BlockExt.fnKey, startsWith]

theorem keyOf_ab (a : Str) (v : Str × Option Str) :
    keyOf (BlockExt.abKey a, v) = a ∧ BlockExt.isFnEntry (BlockExt.abKey a, v) = false := by
  simp [keyOf, BlockExt.isFnEntry, BlockExt.isAbEntry, BlockExt.abKey, startsWith]

theorem detectTabbed_p (h : StrDom p q P) : ∀ {l : List Str}, PL P l →
    PL P (BlockExt.detectTabbed l).1 ∧ PL P (BlockExt.detectTabbed l).2
  | [], _ => by simp [BlockExt.detectTabbed, pl_nil]
  | b :: r, hl => by
    have h1 := pl_cons.1 hl
    have ih := detectTabbed_p h h1.2
    simp only [BlockExt.detectTabbed]
    split
    · split
      · exact ⟨pl_one (h.looseDetab 4 (h.rstripC (h.take h1.1 _) '\n') 1), pl_cons.2 ⟨h.drop h1.1 _, h1.2⟩⟩
      · exact ⟨pl_cons.2 ⟨h.looseDetab 4 h1.1 1, ih.1⟩, ih.2⟩
    · exact ⟨pl_nil, hl⟩

theorem footnote_fin (h : StrDom p q P) {refs : Refs} (hR : LogC p P refs) {id b : Str} (hid : AllC p id) (hb : P b)
    {fb rest' : List Str} (hfb : PL P fb) (hrest' : PL P rest') (st : Nat) :
    LogC p P (refs ++ [(BlockExt.fnKey id, (rstrip (join ['\n', '\n'] fb), none))]) ∧
      PL P (if isBlank (b.take st) = true then rest' else rstripC '\n' (b.take st) :: rest') := by
  have hbody : P (rstrip (join ['\n', '\n'] fb)) := h.rstripP (joinPara h hfb) _
  refine ⟨hR.snoc ⟨?_, h.allc _ hbody, allC_nil, fun _ => hbody⟩, pl_consIf _ (h.rstripC (h.take hb st) '\n') hrest'⟩
  rw [(keyOf_fn id _).1]; exact hid

theorem footnoteP_x (h : StrDom p q P) {refs : Refs} {b : Str} {rest : List Str} (hR : LogC p P refs) (hb : P b)
    (hrest : PL P rest) {r : Refs × List Str} (hr : BlockExt.footnoteP refs b rest = some r) :
    LogC p P r.1 ∧ PL P r.2 := by
  simp only [BlockExt.footnoteP] at hr
  split at hr
  · cases hr
  · next st id g2 n hs =>
    obtain ⟨hid, hg⟩ := fnSearch_infix hs
    have hg2 := h.inf _ _ hb hg
    have hidc : AllC p id := (h.allc _ hb).mono hid.subset
    have hther : P (lstripC '\n' (b.drop (st + n))) := h.lstripC (h.drop hb _) _
    split at hr
    · next st2 _ _ =>
      cases hr
      exact footnote_fin h hR hidc hb
        (pl_one (h.lstripC (h.joinNl _ _ hg2 (h.looseDetab 4 (h.rstripC (h.take hther st2) '\n') 1)) '\n'))
        (pl_cons.2 ⟨h.drop hther st2, hrest⟩) st
    · cases hr
      have hdt := detectTabbed_p h hrest
      exact footnote_fin h hR hidc hb
        (pl_cons.2 ⟨stripP_p h (h.joinNl _ _ hg2 (h.looseDetab 4 hther 1)) _, hdt.1⟩) hdt.2 st

theorem abbrP_x (h : StrDom p q P) {refs : Refs} {b : Str} {rest : List Str} (hR : LogC p P refs) (hb : P b)
    (hrest : PL P rest) {r : Refs × List Str} (hr : BlockExt.abbrP refs b rest = .ok r) :
    LogC p P r.1 ∧ PL P r.2 := by
  simp only [BlockExt.abbrP] at hr
  split at hr
  · cases hr
  · next st abbr0 title0 n hs =>
    obtain ⟨hab, hti⟩ := abbrSearch_infix hs
    have hbc := h.allc _ hb
    have habc : AllC p (strip abbr0) := (hbc.mono hab.subset).strip
    have htic : AllC p (strip title0) := (hbc.mono hti.subset).strip
    have hre : PL P (if isBlank (b.take st) = true then
          (if isBlank (b.drop (st + n)) = true then rest else lstripC '\n' (b.drop (st + n)) :: rest)
        else rstripC '\n' (b.take st) ::
          (if isBlank (b.drop (st + n)) = true then rest else lstripC '\n' (b.drop (st + n)) :: rest)) :=
      pl_consIf _ (h.rstripC (h.take hb st) '\n') (pl_consIf _ (h.lstripC (h.drop hb _) '\n') hrest)
    split at hr
    · cases hr
    · split at hr
      · split at hr
        · cases hr
          refine ⟨hR.snoc ⟨?_, allC_nil, allC_nil, fun hf => ?_⟩, hre⟩
          · rw [(keyOf_ab _ _).1]; exact habc
          · rw [(keyOf_ab _ _).2] at hf; cases hf
        · cases hr
          exact ⟨hR, hre⟩
      · cases hr
        refine ⟨hR.snoc ⟨?_, htic, allC_nil, fun hf => ?_⟩, hre⟩
        · rw [(keyOf_ab _ _).1]; exact habc
        · rw [(keyOf_ab _ _).2] at hf; cases hf

end procs2
end MdVerif.NoCtl.BlkX
