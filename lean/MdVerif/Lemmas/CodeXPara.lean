/-
Helper lemmas for C03 with extensions enabled (`Props/C03X.lean`), continued: a paragraph line followed by an
indented code block through `PipelineX.convertX x` for every flag set `x`.  Core Lean only.

M. the extended block parser (`parse_codeBlockX`, `parseDocumentXT_paraCode`)
N. the inline processor and the tree processors of the extensions on the tree (`runX_paraCodeTree`,
   `attrList_paraCodeTreeP`, `toc_paraCodeTreeP`, `treeStages_paraCodeTree`)
O. `convertX_paraCode`
-/
import MdVerif.Lemmas.CodeXSpan

namespace MdVerif.CodeX
open Py Block BlockExt CodeLaw Pipeline PipelineX

/-! ### M. the extended block parser -/

open FencedPipe in
/-- the extended block parser on the blocks of a code block below any parent that is not a list item and whose last
    child is neither a list, an admonition nor a code block -/
theorem parse_codeBlockX (tables : Bool) (cfg : XCfg) (tab : Nat) (htab : 0 < tab) (refs : Refs) (parent : Node)
    (hp : ParentOk parent) (hl : ∀ sib, parent.last? = some sib → preCode sib = none)
    (first : List Str) (more : List (Nat × List Str)) (h1 : RunOk first) (h : ∀ er ∈ more, RunOk er.2) :
    ∃ f, parseBlocksXT tables cfg tab f [] refs parent (indentRun tab first :: restBlocks tab more) =
      some (parent.append (codePre (codeAccum first more ++ ['\n', '\n'])), refs) := by
  obtain ⟨f, hf⟩ := parse_restX tables cfg tab htab [] refs parent hp more h (runText first)
  refine ⟨f + 1, ?_⟩
  rw [parseBlocksXT_step, dispatchXT_run tables cfg tab htab _ [] refs _ first _ h1 hp]
  unfold indentRun
  rw [codeP_fresh tab refs _ _ _ h1.1 h1.nl hl]
  simpa [codeAccum] using hf

theorem isListTag_p (t : Str) : isListTag (mkText "p" t) = false := by
  simp [isListTag, Node.isTag, mkText, Node.el]

theorem isListTagD_p (t : Str) : isListTagD (mkText "p" t) = false := by
  simp [isListTagD, Node.isTag, mkText, Node.el]

theorem ParentOk.para {parent : Node} (h : ParentOk parent) (t : Str) : ParentOk (parent.append (mkText "p" t)) :=
  ⟨by rw [isItemTag_append]; exact h.item, by rw [isItemTagD_append]; exact h.itemD,
    fun sib hs => by
      rw [last_append] at hs; cases hs
      exact ⟨isListTag_p t, isListTagD_p t, FencedPipe.isAdmDiv_p t⟩⟩

open FencedPipe Escape Fuel in
theorem parseDocumentXT_paraCode (tables : Bool) (cfg : XCfg) (tab : Nat) (htab : 0 < tab) (c : Char) (r : Str)
    (hnl : '\n' ∉ c :: r) (hc : HeadOk c)
    (first : List Str) (more : List (Nat × List Str)) (h1 : RunOk first) (h : ∀ er ∈ more, RunOk er.2) :
    parseDocumentXT tables cfg tab (paraCodeSource tab (c :: r) first more ++ ['\n', '\n']) =
      some (((Node.el "div").append (mkText "p" (c :: r))).append (codePre (codeAccum first more ++ ['\n', '\n'])), []) := by
  have hv : startsVisible (c :: r) = true := by simpa [startsVisible] using hc.sp
  obtain ⟨f, hf⟩ := parse_codeBlockX tables cfg tab htab [] ((Node.el "div").append (mkText "p" (c :: r)))
    (parentOk_div.para _) (fun sib hs => by rw [last_append] at hs; cases hs; exact preCode_p _) first more h1 h
  have key : parseBlocksXT tables cfg tab (f + 1) [] [] (Node.el "div")
      (splitS ['\n', '\n'] (paraCodeSource tab (c :: r) first more ++ ['\n', '\n'])) =
      some (((Node.el "div").append (mkText "p" (c :: r))).append (codePre (codeAccum first more ++ ['\n', '\n'])), []) := by
    have e : paraCodeSource tab (c :: r) first more ++ ['\n', '\n'] =
        (c :: r) ++ '\n' :: '\n' :: (codeSource tab first more ++ ['\n', '\n']) := by
      simp [paraCodeSource]
    have hsp := splitS_codeSource tab first more h1 h
    simp only [splitS] at hsp ⊢
    rw [e, splitAux_tight true (c :: r) (noEmptyLine_of_no_nl c r hnl), hsp, parseBlocksXT_step,
      dispatchXT_head tables cfg tab htab _ [] _ c r _ hnl hc (fun sib hs => by simp [Node.last?, Node.el] at hs),
      paraP_visible _ _ _ _ hv]
    exact hf
  obtain ⟨res, hr⟩ := Option.isSome_iff_exists.1
    (parseDocumentXT_total tables cfg tab (fun _ => htab) (paraCodeSource tab (c :: r) first more ++ ['\n', '\n']))
  rw [hr]
  simp only [parseDocumentXT, parseChunk] at hr
  have a1 := parseBlocksXT_fuel_mono (fuelForX (paraCodeSource tab (c :: r) first more ++ ['\n', '\n']).length) key
  have a2 := parseBlocksXT_fuel_mono (f + 1) hr
  rw [Nat.add_comm] at a2
  rw [a2] at a1
  exact a1

/-! ### N. the stages after the block parser -/

open InlineX Inline FencedPipe in
theorem visitChildX_quietP (xc : InlineX.XCfg) (hcount : 1 ≤ xc.table.length) (data : Str) (v : VisitX) (hne : data ≠ [])
    (hq : Quiet data) (hs : STX ∉ data) :
    visitChildX xc (mkText "p" data) v = some (mkText "p" data, [], v) := by
  obtain ⟨c, r, rfl⟩ : ∃ c r, data = c :: r := by cases data <;> simp_all
  unfold visitChildX
  have h1 : Node.truthy (mkText "p" (c :: r)).text = true := rfl
  simp only [h1, show (mkText "p" (c :: r)).textAtomic = false from rfl, Bool.not_false, Bool.and_self, if_true]
  rw [show (mkText "p" (c :: r)).text.getD [] = c :: r from rfl, handleInlineTopX_quiet xc _ _ hq hcount]
  simp only
  rw [ppTop_plain v.x.st (c :: r) _ (by simp) hs rfl rfl]
  cases v
  simp [mkText, Node.el, Node.truthy]

open InlineX Inline in
theorem runX_paraCodeTree (xc : InlineX.XCfg) (hcount : 1 ≤ xc.table.length) (p t : Str) (hne : p ≠ []) (hq : Quiet p)
    (hs : STX ∉ p) :
    runX xc (((Node.el "div").append (mkText "p" p)).append (codePre t)) [] =
      some (((Node.el "div").append (mkText "p" p)).append (codePre t), { st := { html := [] } }) := by
  unfold runX
  generalize hf : Inline.runFuel (((Node.el "div").append (mkText "p" p)).append (codePre t)) = f
  obtain ⟨g, rfl⟩ : ∃ g, f = g + 3 := ⟨f - 3, by simp [Inline.runFuel] at hf; omega⟩
  have hv := fun v => visitChildX_quietP xc hcount p v hne hq hs
  have hi : ∀ v, visitChildX xc (codePre t) v = _ := fun v => visitChildX_inert xc (codePre t) v rfl
  have hi2 : ∀ v, visitChildX xc (codeSpan t) v = _ :=
    fun v => visitChildX_inert xc (codeSpan t) v (by simp [inertNode, codeSpan, Node.el, Node.truthy])
  have hc : (codePre t).children = [codeSpan t] := rfl
  have he : ({ codePre t with children := [codeSpan t] } : Node) = codePre t := rfl
  have hd : (Node.el "div").children = [] := rfl
  have hcs : (codeSpan t).children = [] := rfl
  simp [runLoopX, Inline.getAt, visitLoopX, Inline.withIdx, Node.append, hv, hi, hi2, hc, he, hd, hcs,
    Inline.setAt]

theorem duplicates_paraCodeTree (fn : Footnotes.State) (p t : Str) :
    FootnotesTree.duplicates fn (((Node.el "div").append (mkText "p" p)).append (codePre t)) =
      some (((Node.el "div").append (mkText "p" p)).append (codePre t)) := by
  simp [FootnotesTree.duplicates, FootnotesTree.duplicatesKids, Node.append, Node.el, codePre, mkText]

theorem paraCodeTreeP_eq (p t : Str) :
    paraCodeTreeP p t = ⟨.name ['d', 'i', 'v'], [], some ['\n'], false,
      [⟨.name ['p'], [], some p, false, [], some ['\n'], false⟩,
       ⟨.name ['p', 'r', 'e'], [], none, false,
        [⟨.name ['c', 'o', 'd', 'e'], [], some t, true, [], none, false⟩], some ['\n'], false⟩],
      some ['\n'], false⟩ := rfl

open FencedPipe in
theorem attrList_paraCodeTreeP (p t : Str) (hp : '\n' ∉ p) :
    AttrListTree.run TreeProc.defaultBlockLevel (paraCodeTreeP p t) = paraCodeTreeP p t := by
  have hbs : AttrList.blockSearch ['\n'] = none := by decide
  have hba := blockApply_none [] ['\n'] hbs
  have hbaP := blockApply_none [] p (blockSearch_none p hp)
  have hbl : TreeProc.isBlockLevel TreeProc.defaultBlockLevel (.name ['d', 'i', 'v']) = true := CodeLaw.bl_div
  have hbl1 : TreeProc.isBlockLevel TreeProc.defaultBlockLevel (.name ['p']) = true := CodeLaw.bl_p
  have hbl2 : TreeProc.isBlockLevel TreeProc.defaultBlockLevel (.name ['p', 'r', 'e']) = true := CodeLaw.bl_pre
  have hbl3 : TreeProc.isBlockLevel TreeProc.defaultBlockLevel (.name ['c', 'o', 'd', 'e']) = false := CodeLaw.bl_code
  have hh : AttrListTree.isCellTag (.name ['d', 'i', 'v']) = false := by decide
  have hh2 : AttrListTree.isHeaderTag (.name ['d', 'i', 'v']) = false := by decide
  have hli : (Tag.name ['d', 'i', 'v'] == Tag.name "li".toList) = false := by decide
  have hh' : AttrListTree.isCellTag (.name ['p', 'r', 'e']) = false := by decide
  have hh2' : AttrListTree.isHeaderTag (.name ['p', 'r', 'e']) = false := by decide
  have hli' : (Tag.name ['p', 'r', 'e'] == Tag.name "li".toList) = false := by decide
  have hh'' : AttrListTree.isCellTag (.name ['p']) = false := by decide
  have hh2'' : AttrListTree.isHeaderTag (.name ['p']) = false := by decide
  rw [paraCodeTreeP_eq]
  unfold AttrListTree.run
  cases p with
  | nil =>
    simp only [AttrListTree.attrNode, AttrListTree.attrKids, hbl, hbl1, hbl2, hbl3, if_true, AttrListTree.blockRule,
      List.isEmpty_cons, List.isEmpty_nil, Bool.not_false, Bool.not_true, Bool.true_and, Bool.false_and, Node.truthy,
      hh, hh2, hli, hh', hh2', hli', hh'', hh2'', Bool.or_self, hba, Bool.false_eq_true, if_false, Option.getD_some,
      List.getLast?_singleton, List.getLast?_cons_cons, Option.bind_some, List.length_cons, List.length_nil, Bool.and_false]
  | cons c r =>
    simp only [AttrListTree.attrNode, AttrListTree.attrKids, hbl, hbl1, hbl2, hbl3, if_true, AttrListTree.blockRule,
      List.isEmpty_cons, List.isEmpty_nil, Bool.not_false, Bool.not_true, Bool.true_and, Bool.false_and, Node.truthy,
      hh, hh2, hli, hh', hh2', hli', hh'', hh2'', Bool.or_self, hba, hbaP, Bool.false_eq_true, if_false,
      Option.getD_some, List.getLast?_singleton, List.getLast?_cons_cons, Option.bind_some, List.length_cons,
      List.length_nil, Bool.and_false]

open FencedPipe in
theorem toc_paraCodeTreeP (env : TocTree.Env) (p t : Str) (hp : '[' ∉ p) :
    TocTree.run env TreeProc.defaultBlockLevel (paraCodeTreeP p t) = .ok (paraCodeTreeP p t) := by
  unfold TocTree.run
  have hids : TocTree.usedIds (TocTree.idsOf (paraCodeTreeP p t)) = some [] := by
    rw [paraCodeTreeP_eq]
    simp [TocTree.idsOf, TocTree.idsOfKids, TocTree.usedIds]
  have h1 : ∀ st, TocTree.walkNode env (paraCodeTreeP p t) st = .ok (paraCodeTreeP p t, st) := by
    intro st
    rw [paraCodeTreeP_eq]
    simp [TocTree.walkNode, TocTree.walkKids, TocTree.isHeaderTag]
  have hm := stripMarker_ne p hp
  rw [hids]
  simp only
  rw [h1]
  simp only
  rw [paraCodeTreeP_eq]
  simp [TocTree.replNode, TocTree.replKids, TocTree.isHeaderTag, hm]

/-- the tree processors between the inline stage and the serializer, extensions included -/
theorem treeStages_paraCodeTree (x : Exts) (tab : Nat) (fmt : Ser.Fmt) (p t : Str) (post : Str → Option Str)
    (hp : '\n' ∉ p) (hp2 : '[' ∉ p) :
    (let u := TreeProc.prettify (((Node.el "div").append (mkText "p" p)).append (codePre t))
        ({ tab := tab, fmt := fmt } : Pipeline.Cfg).blockLevel
     let u := if x.attrList then AttrListTree.run ({ tab := tab, fmt := fmt } : Pipeline.Cfg).blockLevel u else u
     let u := if x.abbr then AbbrTree.run (BlockExt.abbrsOf []) u else u
     let tocStage : TocTree.R Node :=
       if x.toc then
         TocTree.run { fmt := ({ tab := tab, fmt := fmt } : Pipeline.Cfg).fmt, post := post }
           ({ tab := tab, fmt := fmt } : Pipeline.Cfg).blockLevel u
       else .ok u
     tocStage) = .ok (paraCodeTreeP p (rstrip t ++ ['\n'])) := by
  have h1 : TreeProc.prettify (((Node.el "div").append (mkText "p" p)).append (codePre t))
      ({ tab := tab, fmt := fmt } : Pipeline.Cfg).blockLevel = paraCodeTreeP p (rstrip t ++ ['\n']) :=
    prettify_paraCodeTree p t
  have h2 : AttrListTree.run ({ tab := tab, fmt := fmt } : Pipeline.Cfg).blockLevel (paraCodeTreeP p (rstrip t ++ ['\n'])) =
      paraCodeTreeP p (rstrip t ++ ['\n']) := attrList_paraCodeTreeP p _ hp
  have h3 : AbbrTree.run (BlockExt.abbrsOf []) (paraCodeTreeP p (rstrip t ++ ['\n'])) =
      paraCodeTreeP p (rstrip t ++ ['\n']) := rfl
  have h4 : ∀ env, TocTree.run env ({ tab := tab, fmt := fmt } : Pipeline.Cfg).blockLevel
      (paraCodeTreeP p (rstrip t ++ ['\n'])) = .ok (paraCodeTreeP p (rstrip t ++ ['\n'])) :=
    fun env => toc_paraCodeTreeP env p _ hp2
  simp only [h1]
  cases x.attrList <;> cases x.abbr <;> cases x.toc <;>
    simp only [Bool.false_eq_true, if_false, if_true, h2, h3, h4]

/-! ### O. `Markdown.convert` with extensions on a paragraph line followed by an indented code block -/

/-- **`Markdown.convert` with ANY set of the eleven modelled extensions on a paragraph line followed by an indented
    code block**: the answer of the core pipeline.  `hadm`: see `convertX_codeBlock`. -/
theorem convertX_paraCode (x : Exts) (tab : Nat) (htab : 0 < tab) (fmt : Ser.Fmt) (p : Str) (first : List Str)
    (more : List (Nat × List Str)) (hp : isSpanContext p = true) (hpne : p ≠ []) (h1 : isCodeRun first = true)
    (h2 : ∀ er ∈ more, isCodeRun er.2 = true)
    (hadm : (x.admonition && admNonAscii (paraCodeSource tab p first more ++ ['\n', '\n'])) = false) :
    convertX x { tab := tab, fmt := fmt } (paraCodeSource tab p first more) =
      .ok ("<p>".toList ++ p ++ "</p>\n<pre><code>".toList ++ Code.codeEscape (trimSpec first more) ++
        "\n</code></pre>".toList) := by
  obtain ⟨i1, r1, c1⟩ := isCodeRun_spec h1
  have hm : ∀ er ∈ more, RunInk er.2 ∧ RunRefs er.2 ∧ ∀ l ∈ er.2, ∀ c ∈ l, isCodeChar c = true :=
    fun er her => isCodeRun_spec (h2 er her)
  simp only [isSpanContext, Bool.and_eq_true, bne_iff_ne, ne_eq] at hp
  obtain ⟨hpw, hph⟩ := hp
  have hw : ∀ c ∈ p, isWordSp c = true := fun c hc => List.all_eq_true.1 hpw c hc
  obtain ⟨c0, r0, rfl⟩ : ∃ c0 r0, p = c0 :: r0 := by cases p <;> simp_all
  have hc0 : isAsciiAlpha c0 = true := by
    rcases wordSp_cases (hw c0 List.mem_cons_self) with h | h
    · exact h
    · exact absurd (by simp [h]) hph
  have hhead := headOk_of c0 (Or.inl hc0)
  have hc0s : isSpace c0 = false := hhead.sp
  have hpnl : '\n' ∉ c0 :: r0 := fun hm => wordSp_ne (hw _ hm) (by decide) rfl
  -- the characters of the source
  have hchars : ∀ c ∈ paraCodeSource tab (c0 :: r0) first more,
      c ≠ '<' ∧ c ≠ '\r' ∧ c ≠ '\t' ∧ c ≠ Char.ofNat 2 ∧ c ≠ Char.ofNat 3 := by
    intro c hc
    simp only [paraCodeSource, List.mem_append, List.mem_cons] at hc
    rcases hc with hc | rfl | rfl | hc
    · have := hw c (List.mem_cons.2 hc)
      exact ⟨wordSp_ne this (by decide), wordSp_ne this (by decide), wordSp_ne this (by decide),
        wordSp_ne this (by decide), wordSp_ne this (by decide)⟩
    · decide
    · decide
    · rcases mem_codeSource hc with rfl | rfl | ⟨l, hl, hcl⟩ | ⟨er, her, l, hl, hcl⟩
      · decide
      · decide
      · obtain ⟨a1, _, a3, a4, a5, a6⟩ := isCodeChar_spec (c1 l hl c hcl); exact ⟨a1, a3, a4, a5, a6⟩
      · obtain ⟨a1, _, a3, a4, a5, a6⟩ := isCodeChar_spec ((hm er her).2.2 l hl c hcl); exact ⟨a1, a3, a4, a5, a6⟩
  have hlt : (paraCodeSource tab (c0 :: r0) first more).contains '<' = false := by
    rw [Bool.eq_false_iff]; intro hc
    exact (hchars '<' (by simpa using hc)).1 rfl
  have hblank : Normalize.isBlankDoc (paraCodeSource tab (c0 :: r0) first more) = false := by
    rw [Normalize.isBlankDoc_eq_all]; simp [paraCodeSource, hc0s]
  have e : paraCodeSource tab (c0 :: r0) first more ++ ['\n', '\n'] =
      (c0 :: r0) ++ '\n' :: '\n' :: (codeSource tab first more ++ ['\n', '\n']) := by
    simp [paraCodeSource]
  have hnorm : Normalize.normalize tab (paraCodeSource tab (c0 :: r0) first more) =
      paraCodeSource tab (c0 :: r0) first more ++ ['\n', '\n'] :=
    normalize_of_clean tab _ (fun c hc => by
      obtain ⟨_, a2, a3, a4, a5⟩ := hchars c hc; exact ⟨a4, a5, a2, a3⟩)
      (by rw [e, ws_some_line_of_head c0 r0 _ hpnl hc0s, Normalize.wsLinesAux_nl,
            ws_codeSource_some tab first more i1 (fun er her => (hm er her).1)])
  have hrc : refsClosed (paraCodeSource tab (c0 :: r0) first more ++ ['\n', '\n']) = true := by
    rw [e]
    apply refsClosed_append _ '\n' _ (by decide)
      (refsClosed_of_no_amp _ (fun hm' => wordSp_ne (hw _ hm') (by decide) rfl))
    apply refsClosed_cons_of_ne (by decide)
    apply refsClosed_cons_of_ne (by decide)
    exact refsClosed_codeSource tab first more r1 (fun er her => (hm er her).2.1)
  have hfence : Fenced.fenceFindFrom (paraCodeSource tab (c0 :: r0) first more ++ ['\n', '\n']) 0 = none := by
    apply fenceFindFrom_noFence
    apply noFenceLine_of_heads
    rw [e, lineHeads_append_nl _ (by decide), lineHeads_nl _ (by decide),
      lineHeads_codeSource isFenceCh (by decide) (by decide) tab htab first more i1.ok (fun er her => (hm er her).1.ok),
      lineHeads_line _ (c0 :: r0) hpnl (fun d hd => by
        simp only [List.head?_cons, Option.some.injEq] at hd
        subst hd
        have h1 : c0 ≠ '`' := alpha_ne hc0 (by decide)
        have h2 : c0 ≠ '~' := alpha_ne hc0 (by decide)
        simp [isFenceCh, h1, h2])]
    rfl
  have hprep : prepareX x { tab := tab, fmt := fmt } (paraCodeSource tab (c0 :: r0) first more) =
      .ok (paraCodeSource tab (c0 :: r0) first more ++ ['\n', '\n'], []) :=
    prepareX_plain x tab fmt _ _ hnorm hadm hfence hrc
  have hq : Quiet (c0 :: r0) := quiet_wordSp _ hpw
  have hstx : Char.ofNat 2 ∉ c0 :: r0 := fun hm' => wordSp_ne (hw _ hm') (by decide) rfl
  have hbr : '[' ∉ c0 :: r0 := fun hm' => wordSp_ne (hw _ hm') (by decide) rfl
  have hmk : ∀ pc : Block.Refs → Str → Option (Node × Block.Refs),
      FootnotesTree.makeDiv pc fnCount (BlockExt.footnotesOf []) [] = .ok (none, []) := fun _ => rfl
  have htree : treeX x { tab := tab, fmt := fmt } (paraCodeSource tab (c0 :: r0) first more) =
      .ok (paraCodeTreeP (c0 :: r0) (Code.codeEscape (trimSpec first more) ++ ['\n'])) [] := by
    unfold treeX
    rw [hprep]
    simp only
    rw [parseDocumentXT_paraCode x.tables x.blockCfg tab htab c0 r0 hpnl hhead first more i1.ok
      (fun er her => (hm er her).1.ok)]
    simp only [hmk, ite_self]
    rw [runX_paraCodeTree _ (FencedPipe.table_length _ _ _) _ _ (by simp) hq hstx]
    simp only
    have hdup : (if x.footnotes then FootnotesTree.duplicates Footnotes.State.empty
          (((Node.el "div").append (mkText "p" (c0 :: r0))).append (codePre (codeAccum first more ++ ['\n', '\n'])))
        else some (((Node.el "div").append (mkText "p" (c0 :: r0))).append (codePre (codeAccum first more ++ ['\n', '\n'])))) =
        some (((Node.el "div").append (mkText "p" (c0 :: r0))).append (codePre (codeAccum first more ++ ['\n', '\n']))) := by
      split
      · exact duplicates_paraCodeTree _ _ _
      · rfl
    rw [hdup]
    simp only
    have hstages := treeStages_paraCodeTree x tab fmt (c0 :: r0) (codeAccum first more ++ ['\n', '\n'])
      (postX x { tab := tab, fmt := fmt } []) hpnl hbr
    simp only at hstages
    rw [hstages]
    simp only
    rw [prettified_codeAccum, unescape_paraCodeTree _ _ hstx]
  unfold convertX
  rw [hlt, hblank, htree]
  simp only [Exts.unsupported, Bool.false_eq_true, if_false]
  rw [serialize_paraCodeTree, escCdata_code_nl, escCdata_plain (c0 :: r0) (fun c hc =>
    ⟨wordSp_ne (hw c hc) (by decide), wordSp_ne (hw c hc) (by decide), wordSp_ne (hw c hc) (by decide)⟩)]
  have hs2 : Post.STX ∉ "\n<p>".toList ++ (c0 :: r0) ++ "</p>\n<pre><code>".toList ++
      (Code.codeEscape (trimSpec first more) ++ ['\n']) ++ "</code></pre>\n".toList := by
    intro hmem
    simp only [List.mem_append] at hmem
    rcases hmem with (((hmem | hmem) | hmem) | hmem | hmem) | hmem
    · revert hmem; decide
    · exact hstx hmem
    · revert hmem; decide
    · rcases mem_codeEscape hmem with hmem | hmem
      · rcases mem_trimSpec hmem with e' | ⟨l, hl, hcl⟩ | ⟨er, her, l, hl, hcl⟩
        · revert e'; decide
        · exact (isCodeChar_spec (c1 l hl _ hcl)).2.2.2.2.1 rfl
        · exact (isCodeChar_spec ((hm er her).2.2 l hl _ hcl)).2.2.2.2.1 rfl
      · revert hmem; decide
    · revert hmem; decide
    · revert hmem; decide
  rw [finishX_div _ _ _ hs2]
  have e2 : "\n<p>".toList ++ (c0 :: r0) ++ "</p>\n<pre><code>".toList ++
      (Code.codeEscape (trimSpec first more) ++ ['\n']) ++ "</code></pre>\n".toList =
      '\n' :: '<' :: ("p>".toList ++ (c0 :: r0) ++ "</p>\n<pre><code>".toList ++ Code.codeEscape (trimSpec first more) ++
        "\n</code></pre".toList) ++ ['>', '\n'] := by simp
  rw [e2, strip_tagged]
  have e3 : strip ('<' :: ("p>".toList ++ (c0 :: r0) ++ "</p>\n<pre><code>".toList ++
        Code.codeEscape (trimSpec first more) ++ "\n</code></pre".toList) ++ ['>']) =
      '<' :: ("p>".toList ++ (c0 :: r0) ++ "</p>\n<pre><code>".toList ++
        Code.codeEscape (trimSpec first more) ++ "\n</code></pre".toList) ++ ['>'] := by
    apply strip_eq_self
    · intro c hc
      simp at hc; subst hc; decide
    · intro c hc
      rw [List.getLast?_append] at hc
      simp at hc; subst hc; decide
  rw [e3]
  simp

end MdVerif.CodeX
