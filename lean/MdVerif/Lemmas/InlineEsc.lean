/-
Helper lemmas for C07, inline stage and the rest of the pipeline (`Props/C07.lean`).  Core Lean only.
-/
import MdVerif.Model.Pipeline
import MdVerif.Spec.EscapeFull
import MdVerif.Lemmas.PyBasic
import MdVerif.Lemmas.BlockEsc
import MdVerif.Lemmas.SerializerEsc

namespace MdVerif.Escape
open Py Inline

/-! ### pattern 0: `BACKTICK_RE` finds nothing in an escaped text -/

theorem countBs_cons_bs (s : Str) : countPrefix '\\' none ('\\' :: s) = countPrefix '\\' none s + 1 := by
  simp [countPrefix]

theorem countBs_cons_ne {c : Char} (h : c ≠ '\\') (s : Str) : countPrefix '\\' none (c :: s) = 0 := by
  simp [countPrefix, h]

/-- parity: in an escaped text a backtick that follows a run of backslashes follows an odd run -/
theorem tick_after_run_odd {esc : List Char} (hb : '\\' ∈ esc) (ht : '`' ∈ esc) (r : Str) :
    (escAll esc r)[countPrefix '\\' none (escAll esc r)]? = some '`' →
      countPrefix '\\' none (escAll esc r) % 2 = 1 := by
  induction r with
  | nil => simp [escAll]
  | cons c r ih =>
    by_cases h : c ∈ esc
    · rw [escAll_cons_mem h]
      by_cases hc : c = '\\'
      · subst hc
        rw [countBs_cons_bs, countBs_cons_bs]
        intro hh
        simp only [List.getElem?_cons_succ] at hh
        have := ih hh
        omega
      · rw [countBs_cons_bs, countBs_cons_ne hc]
        intro _; rfl
    · rw [escAll_cons_not_mem h]
      have hc : c ≠ '\\' := fun e => h (e ▸ hb)
      rw [countBs_cons_ne hc]
      intro hh
      have : c = '`' := by simpa using hh
      exact absurd (this ▸ ht) h

theorem head_escAll_ne_tick {esc : List Char} (ht : '`' ∈ esc) (r : Str) : (escAll esc r).head? ≠ some '`' := by
  cases r with
  | nil => simp [escAll]
  | cons c r =>
    by_cases h : c ∈ esc
    · rw [escAll_cons_mem h]; simp
    · rw [escAll_cons_not_mem h]
      intro hh
      have : c = '`' := by simpa using hh
      exact h (this ▸ ht)

theorem btAt_escAll {esc : List Char} (hb : '\\' ∈ esc) (ht : '`' ∈ esc) (prev : Option Char) (r : Str) (i : Nat) :
    btAt prev (escAll esc r) i = none := by
  unfold btAt
  by_cases hp : prev = some '\\'
  · simp [hp]
  · have hp' : (prev == some '\\') = false := by simpa using hp
    simp only [hp', Bool.false_eq_true, if_false]
    have hpar := tick_after_run_odd hb ht r
    have hhead := head_escAll_ne_tick ht r
    generalize escAll esc r = s at hpar hhead
    have h1 : (decide (countPrefix '\\' none s ≥ 2) && countPrefix '\\' none s % 2 == 0 &&
        s[countPrefix '\\' none s]? == some '`') = false := by
      cases hx : s[countPrefix '\\' none s]? == some '`' with
      | false => simp
      | true =>
        have := hpar (by simpa using hx)
        simp [this]
    simp only [h1, Bool.false_eq_true, if_false]
    cases s with
    | nil => rfl
    | cons c s' =>
      have hc : c ≠ '`' := by simpa using hhead
      split
      · rename_i heq
        exact absurd (List.cons.inj heq).1 hc
      · rfl

theorem btScan_escAll {esc : List Char} (hb : '\\' ∈ esc) (ht : '`' ∈ esc) (r : Str) (prev : Option Char) (i : Nat) :
    btScan prev (escAll esc r) i = none := by
  induction r generalizing prev i with
  | nil => simp [escAll, btScan, btAt, countPrefix]
  | cons c r ih =>
    have h0 := btAt_escAll hb ht prev (c :: r) i
    by_cases h : c ∈ esc
    · rw [escAll_cons_mem h] at h0 ⊢
      rw [btScan, h0]
      simp only
      rw [btScan]
      have : btAt (some '\\') (c :: escAll esc r) (i + 1) = none := by simp [btAt]
      rw [this]
      exact ih _ _
    · rw [escAll_cons_not_mem h] at h0 ⊢
      rw [btScan, h0]
      exact ih _ _

theorem btFind_escAll {esc : List Char} (hb : '\\' ∈ esc) (ht : '`' ∈ esc) (t : Str) :
    btFind (escAll esc t) 0 = none := by
  simp [btFind, btScan_escAll hb ht]

/-! ### pattern 1: the escape pass -/

theorem escScan_cons_ne {a : Char} (ha : a ≠ '\\') (d : Char) (s : Str) (i : Nat) :
    escScan (a :: d :: s) i = escScan (d :: s) (i + 1) := by
  simp [escScan, ha]

theorem escScan_noBs (A : Str) (h : '\\' ∉ A) (i : Nat) : escScan A i = none := by
  induction A generalizing i with
  | nil => rfl
  | cons a A ih =>
    cases A with
    | nil => rfl
    | cons d A' =>
      have ha : a ≠ '\\' := fun e => h (e ▸ List.mem_cons_self)
      rw [escScan_cons_ne ha]
      exact ih (fun hh => h (List.mem_cons_of_mem _ hh)) _

theorem escScan_found (A : Str) (h : '\\' ∉ A) (c : Char) (R : Str) (i : Nat) :
    escScan (A ++ '\\' :: c :: R) i = some (i + A.length, c) := by
  induction A generalizing i with
  | nil => simp [escScan]
  | cons a A ih =>
    have ha : a ≠ '\\' := fun e => h (e ▸ List.mem_cons_self)
    have ih' := ih (fun hh => h (List.mem_cons_of_mem _ hh)) (i + 1)
    cases A with
    | nil =>
      simp only [List.nil_append, List.cons_append] at ih' ⊢
      rw [escScan_cons_ne ha, ih']; simp <;> omega
    | cons d A' =>
      simp only [List.cons_append] at ih' ⊢
      rw [escScan_cons_ne ha, ih']; simp <;> omega

/-- number of escapable characters -/
def escCount (esc : List Char) (t : Str) : Nat := (stashOf esc t).length

theorem pyDrop_append (A B : Str) : pyDrop (A ++ B) (A.length : Int) = B := by
  have : ¬ ((A.length : Int) < 0) := by omega
  simp [pyDrop, pyIdx, this]

theorem applyPattern_zero_none (cfg : Inline.Cfg) (hi : HI) (data : Str) (st : St) (h : btFind data 0 = none) :
    applyPattern cfg hi 0 data 0 st = some (data, false, 0, st) := by
  simp [applyPattern, findMatch, h]

theorem applyPattern_esc_none (cfg : Inline.Cfg) (hi : HI) (A : Str) (st : St) (h : '\\' ∉ A) :
    applyPattern cfg hi 1 A 0 st = some (A, false, 0, st) := by
  simp [applyPattern, findMatch, escScan_noBs A h]

theorem applyPattern_esc_found (cfg : Inline.Cfg) (hi : HI) (A : Str) (st : St) (h : '\\' ∉ A) (c : Char) (R : Str)
    (hc : c ∈ cfg.esc) :
    applyPattern cfg hi 1 (A ++ '\\' :: c :: R) 0 st =
      some (A ++ placeholder st.stash.length ++ R, true, 0, { st with stash := st.stash ++ [.str (escCode c)] }) := by
  have hd : pyDrop (A ++ '\\' :: c :: R) ((A.length : Int) + 2) = R := by
    have := pyDrop_append (A ++ ['\\', c]) R
    simpa using this
  simp only [applyPattern, findMatch, List.drop_zero, escScan_found A h, Nat.zero_add]
  simp [hc, stashNode, escCode, hd]

theorem hiLoop_step (ap : Nat → Str → Nat → St → Option (Str × Bool × Nat × St)) (g : Nat) (data : Str)
    (pi si : Nat) (st : St) (hpi : pi < 16) (d : Str) (m : Bool) (si' : Nat) (st' : St)
    (h : ap pi data si st = some (d, m, si', st')) :
    hiLoop ap (g + 1) data pi si st = hiLoop ap g d (if m then pi else pi + 1) si' st' := by
  simp [hiLoop, patternCount, hpi, h]

theorem bs_not_mem_placeholder (n : Nat) : '\\' ∉ placeholder n := by
  intro h
  simp only [placeholder, List.mem_append] at h
  rcases h with (h | h) | h
  · exact absurd h (by decide)
  · exact absurd (pad4_digits n _ h) (by decide)
  · exact absurd h (by decide)

/-- the whole escape pass: every `\c` becomes a placeholder, one iteration of the pattern loop each -/
theorem escape_pass (cfg : Inline.Cfg) (hi : HI) (hb : '\\' ∈ cfg.esc) (r : Str) :
    ∀ (A : Str) (st : St) (g : Nat), '\\' ∉ A →
      hiLoop (applyPattern cfg hi) (g + escCount cfg.esc r + 1) (A ++ escAll cfg.esc r) 1 0 st =
      hiLoop (applyPattern cfg hi) g (A ++ resid cfg.esc st.stash.length r) 2 0
        { st with stash := st.stash ++ stashOf cfg.esc r } := by
  induction r with
  | nil =>
    intro A st g hA
    simp only [escAll, resid, stashOf, escCount, List.length_nil, Nat.add_zero, List.append_nil]
    rw [hiLoop_step _ g A 1 0 st (by omega) _ _ _ _ (applyPattern_esc_none cfg hi A st hA)]
    simp
  | cons c r ih =>
    intro A st g hA
    by_cases h : c ∈ cfg.esc
    · have hcount : escCount cfg.esc (c :: r) = escCount cfg.esc r + 1 := by simp [escCount, stashOf, h]
      rw [escAll_cons_mem h, hcount,
        show g + (escCount cfg.esc r + 1) + 1 = (g + escCount cfg.esc r + 1) + 1 by omega,
        hiLoop_step _ _ _ 1 0 st (by omega) _ _ _ _ (applyPattern_esc_found cfg hi A st hA c _ h)]
      have hA' : '\\' ∉ A ++ placeholder st.stash.length := by
        intro hh; rcases List.mem_append.1 hh with hh | hh
        · exact hA hh
        · exact bs_not_mem_placeholder _ hh
      have := ih (A ++ placeholder st.stash.length) { st with stash := st.stash ++ [.str (escCode c)] } g hA'
      simp only [if_true]
      rw [this]
      simp [resid, stashOf, h, List.append_assoc]
    · have hc : c ≠ '\\' := fun e => h (e ▸ hb)
      have hcount : escCount cfg.esc (c :: r) = escCount cfg.esc r := by simp [escCount, stashOf, h]
      have hA' : '\\' ∉ A ++ [c] := by
        intro hh; rcases List.mem_append.1 hh with hh | hh
        · exact hA hh
        · have e : '\\' = c := by simpa using hh
          exact hc e.symm
      have := ih (A ++ [c]) st g hA'
      rw [escAll_cons_not_mem h, hcount]
      simp only [List.append_assoc, List.singleton_append] at this
      rw [this]
      simp [resid, stashOf, h]

/-! ### patterns 2–15 find nothing in the residue -/

/-- no character that starts a match of one of the patterns 2–15 (other than the hard line break) -/
def Inert (D : Str) : Prop := ∀ c ∈ D, c ≠ '[' ∧ c ≠ '!' ∧ c ≠ '&' ∧ c ≠ '*' ∧ c ≠ '_'

theorem Inert.tail {c : Char} {D : Str} (h : Inert (c :: D)) : Inert D :=
  fun d hd => h d (List.mem_cons_of_mem _ hd)

theorem linkScan_inert (cfg : Inline.Cfg) (stash : List StashItem) (pi : Nat) (data : Str) (s : Str)
    (h : Inert s) (prev : Option Char) (i : Nat) : linkScan cfg stash pi data prev s i = none := by
  induction s generalizing prev i with
  | nil => rfl
  | cons c r ih =>
    have hc := h c List.mem_cons_self
    simp only [linkScan, hc.1, hc.2.1, decide_false, Bool.false_and, Bool.false_eq_true, if_false, ite_self]
    exact ih h.tail _ _

theorem entityScan_inert (s : Str) (h : Inert s) (i : Nat) : entityScan s i = none := by
  induction s generalizing i with
  | nil => rfl
  | cons c r ih =>
    have hc := h c List.mem_cons_self
    simp only [entityScan, hc.2.2.1, if_false]
    exact ih h.tail _

theorem nsRun_of_head_ne {c : Char} {s : Str} (h : s.head? ≠ some c) : nsRun c s = none := by
  simp [nsRun, countPrefix_eq_zero h]

theorem nsScan_inert (s : Str) (h : Inert s) (prev : Option Char) (i : Nat) : nsScan prev s i = none := by
  induction s generalizing prev i with
  | nil => rfl
  | cons c r ih =>
    have hc := h c List.mem_cons_self
    have h1 : nsRun '*' (c :: r) = none := nsRun_of_head_ne (by simpa using hc.2.2.2.1)
    have h2 : nsRun '_' (c :: r) = none := nsRun_of_head_ne (by simpa using hc.2.2.2.2)
    simp only [nsScan, h1, h2, Option.map_none, ite_self]
    exact ih h.tail _ _

theorem emScan_none (data : Str) (c : Char) (s : Str) (h : c ∉ s) (i : Nat) : emScan data c s i = some none := by
  induction s generalizing i with
  | nil => rfl
  | cons d r ih =>
    have hd : d ≠ c := fun e => h (e ▸ List.mem_cons_self)
    simp only [emScan, hd, if_false]
    exact ih (fun hh => h (List.mem_cons_of_mem _ hh)) _

theorem findMatch_inert (cfg : Inline.Cfg) (pi : Nat) (h2 : 2 ≤ pi) (h16 : pi < 16) (D : Str) (st : St)
    (hD : Inert D) (hbr : find [' ', ' ', '\n'] D = none) : findMatch cfg pi D 0 st = some (none, st) := by
  have hs : '*' ∉ D := fun h => (hD _ h).2.2.2.1 rfl
  have hu : '_' ∉ D := fun h => (hD _ h).2.2.2.2 rfl
  have : pi = 2 ∨ pi = 3 ∨ pi = 4 ∨ pi = 5 ∨ pi = 6 ∨ pi = 7 ∨ pi = 8 ∨ pi = 9 ∨ pi = 10 ∨ pi = 11 ∨ pi = 12 ∨
      pi = 13 ∨ pi = 14 ∨ pi = 15 := by omega
  rcases this with rfl | rfl | rfl | rfl | rfl | rfl | rfl | rfl | rfl | rfl | rfl | rfl | rfl | rfl <;>
    simp [findMatch, linkScan_inert cfg _ _ D D hD, hbr, entityFind, entityScan_inert D hD, nsFind,
      nsScan_inert D hD, emScan_none D _ D hs, emScan_none D _ D hu]

theorem applyPattern_inert (cfg : Inline.Cfg) (hi : HI) (pi : Nat) (h2 : 2 ≤ pi) (h16 : pi < 16) (D : Str) (st : St)
    (hD : Inert D) (hbr : find [' ', ' ', '\n'] D = none) :
    applyPattern cfg hi pi D 0 st = some (D, false, 0, st) := by
  simp [applyPattern, findMatch_inert cfg pi h2 h16 D st hD hbr]

theorem hiLoop_inert (cfg : Inline.Cfg) (hi : HI) (D : Str) (st : St) (hD : Inert D)
    (hbr : find [' ', ' ', '\n'] D = none) (g : Nat) :
    ∀ (k pi : Nat), pi + k = 16 → 2 ≤ pi → hiLoop (applyPattern cfg hi) (g + k + 1) D pi 0 st = some (D, st) := by
  intro k
  induction k with
  | zero =>
    intro pi h _
    have : pi = 16 := by omega
    subst this
    simp [hiLoop, patternCount]
  | succ k ih =>
    intro pi h h2
    rw [show g + (k + 1) + 1 = (g + k + 1) + 1 by omega,
      hiLoop_step _ _ D pi 0 st (by omega) _ _ _ _ (applyPattern_inert cfg hi pi h2 (by omega) D st hD hbr)]
    simp only [Bool.false_eq_true, if_false]
    exact ih (pi + 1) (by omega) (by omega)

/-! ### the residue of the escape pass is inert -/

/-- the characters of an inline placeholder -/
def phChar (c : Char) : Bool := phPrefix.contains c || isAsciiDigit c || c == ETX

theorem phChar_of_mem_placeholder {n : Nat} {c : Char} (h : c ∈ placeholder n) : phChar c = true := by
  simp only [placeholder, List.mem_append, List.mem_singleton] at h
  rcases h with (h | h) | h
  · simp [phChar, h]
  · simp [phChar, pad4_digits n c h]
  · simp [phChar, h]

theorem phChar_facts {c : Char} (h : phChar c = true) :
    c ≠ '[' ∧ c ≠ '!' ∧ c ≠ '&' ∧ c ≠ '*' ∧ c ≠ '_' ∧ c ≠ '\\' ∧ c ≠ ' ' ∧ c ≠ '\n' := by
  refine ⟨?_, ?_, ?_, ?_, ?_, ?_, ?_, ?_⟩ <;> (intro e; subst e; exact absurd h (by decide))

theorem mem_resid {esc : List Char} {c : Char} {t : Str} {n : Nat} (h : c ∈ resid esc n t) :
    (c ∈ t ∧ c ∉ esc) ∨ phChar c = true := by
  induction t generalizing n with
  | nil => simp [resid] at h
  | cons d r ih =>
    by_cases hd : d ∈ esc
    · simp only [resid, List.contains_eq_mem, hd, decide_true, if_true, List.mem_append] at h
      rcases h with h | h
      · exact Or.inr (phChar_of_mem_placeholder h)
      · rcases ih h with h | h
        · exact Or.inl ⟨List.mem_cons_of_mem _ h.1, h.2⟩
        · exact Or.inr h
    · simp only [resid, List.contains_eq_mem, hd, decide_false, Bool.false_eq_true, if_false, List.mem_cons] at h
      rcases h with rfl | h
      · exact Or.inl ⟨List.mem_cons_self, hd⟩
      · rcases ih h with h | h
        · exact Or.inl ⟨List.mem_cons_of_mem _ h.1, h.2⟩
        · exact Or.inr h

theorem inert_resid {esc : List Char} (m1 : '[' ∈ esc) (m2 : '!' ∈ esc) (m3 : '*' ∈ esc) (m4 : '_' ∈ esc)
    (t : Str) (hamp : '&' ∉ t) (n : Nat) : Inert (resid esc n t) := by
  intro c hc
  rcases mem_resid hc with ⟨hct, hce⟩ | h
  · refine ⟨?_, ?_, ?_, ?_, ?_⟩ <;> intro e <;> subst e
    · exact hce m1
    · exact hce m2
    · exact hamp hct
    · exact hce m3
    · exact hce m4
  · have := phChar_facts h
    exact ⟨this.1, this.2.1, this.2.2.1, this.2.2.2.1, this.2.2.2.2.1⟩

theorem find_cons_none_iff (pat : Str) (c : Char) (s : Str) :
    find pat (c :: s) = none ↔ startsWith (c :: s) pat = false ∧ find pat s = none := by
  rw [find_cons]
  by_cases h : startsWith (c :: s) pat = true
  · simp [h]
  · simp [h]

theorem find_append_none (ph : Char) (pt : Str) (A X : Str) (hA : ∀ a ∈ A, a ≠ ph)
    (h : find (ph :: pt) X = none) : find (ph :: pt) (A ++ X) = none := by
  induction A with
  | nil => exact h
  | cons a A ih =>
    rw [List.cons_append, find_cons_none_iff]
    refine ⟨?_, ih (fun b hb => hA b (List.mem_cons_of_mem _ hb))⟩
    simp [hA a List.mem_cons_self]

theorem startsWith_resid {esc : List Char} (q : Str) (hq : ∀ a ∈ q, phChar a = false) (r : Str) (n : Nat)
    (h : startsWith (resid esc n r) q = true) : startsWith r q = true := by
  induction q generalizing r n with
  | nil => simp
  | cons a q ih =>
    have ha : phChar a = false := hq a List.mem_cons_self
    cases r with
    | nil => simp [resid] at h
    | cons c r =>
      by_cases hc : c ∈ esc
      · simp only [resid, List.contains_eq_mem, hc, decide_true, if_true, placeholder, phPrefix,
          List.cons_append, startsWith_cons_cons, Bool.and_eq_true, decide_eq_true_eq] at h
        rw [← h.1] at ha
        exact absurd ha (by decide)
      · simp only [resid, List.contains_eq_mem, hc, decide_false, Bool.false_eq_true, if_false,
          startsWith_cons_cons, Bool.and_eq_true, decide_eq_true_eq] at h ⊢
        exact ⟨h.1, ih (fun b hb => hq b (List.mem_cons_of_mem _ hb)) r n h.2⟩

theorem find_break_resid {esc : List Char} (t : Str) (h : find [' ', ' ', '\n'] t = none) (n : Nat) :
    find [' ', ' ', '\n'] (resid esc n t) = none := by
  induction t generalizing n with
  | nil => simp [resid]
  | cons c r ih =>
    rw [find_cons_none_iff] at h
    by_cases hc : c ∈ esc
    · simp only [resid, List.contains_eq_mem, hc, decide_true, if_true]
      exact find_append_none ' ' _ _ _ (fun a ha => (phChar_facts (phChar_of_mem_placeholder ha)).2.2.2.2.2.2.1)
        (ih h.2 _)
    · simp only [resid, List.contains_eq_mem, hc, decide_false, Bool.false_eq_true, if_false]
      rw [find_cons_none_iff]
      refine ⟨?_, ih h.2 _⟩
      cases hsw : startsWith (c :: resid esc n r) [' ', ' ', '\n'] with
      | false => rfl
      | true =>
        have h1 := h.1
        simp only [startsWith_cons_cons, Bool.and_eq_true, decide_eq_true_eq] at hsw
        have := startsWith_resid [' ', '\n'] (by decide) r n (by simpa using hsw.2)
        simp [hsw.1, this] at h1

theorem escCount_le (esc : List Char) (t : Str) : escCount esc t ≤ (escAll esc t).length := by
  induction t with
  | nil => simp [escCount, stashOf]
  | cons c r ih =>
    by_cases h : c ∈ esc
    · rw [escAll_cons_mem h]; simp only [escCount, stashOf, List.contains_eq_mem, h, decide_true, if_true,
        List.length_cons] at ih ⊢; omega
    · rw [escAll_cons_not_mem h]; simp only [escCount, stashOf, List.contains_eq_mem, h, decide_false,
        Bool.false_eq_true, if_false, List.length_cons] at ih ⊢; omega

/-- **`__handleInline` on a fully escaped text**: patterns 0 and 2–15 find nothing, pattern 1 turns every `\c` into a
    placeholder -/
theorem handleInline_escAll (cfg : Inline.Cfg) (f : Nat) (t : Str) (st : St)
    (m0 : '\\' ∈ cfg.esc) (mt : '`' ∈ cfg.esc) (m1 : '[' ∈ cfg.esc) (m2 : '!' ∈ cfg.esc) (m3 : '*' ∈ cfg.esc)
    (m4 : '_' ∈ cfg.esc) (hamp : '&' ∉ t) (hbr : find [' ', ' ', '\n'] t = none) :
    handleInline cfg (f + 1) (escAll cfg.esc t) 0 st =
      some (resid cfg.esc st.stash.length t, { st with stash := st.stash ++ stashOf cfg.esc t }) := by
  have hle := escCount_le cfg.esc t
  obtain ⟨x, hx⟩ : ∃ x, loopFuel (escAll cfg.esc t).length = ((x + 15) + escCount cfg.esc t + 1) + 1 :=
    ⟨loopFuel (escAll cfg.esc t).length - escCount cfg.esc t - 17, by
      have hq : 16 * ((escAll cfg.esc t).length + 2) ≤ loopFuel (escAll cfg.esc t).length := by
        simp only [loopFuel]; exact Nat.le_mul_of_pos_right _ (by omega)
      omega⟩
  simp only [handleInline]
  rw [hx, hiLoop_step _ _ _ 0 0 st (by omega) _ _ _ _
    (applyPattern_zero_none cfg _ _ st (btFind_escAll m0 mt t))]
  simp only [Bool.false_eq_true, if_false, Nat.zero_add]
  have := escape_pass cfg (fun d p s => handleInline cfg f d p s) m0 t [] st (x + 15) (by simp)
  simp only [List.nil_append] at this
  rw [this]
  exact hiLoop_inert cfg _ _ _ (inert_resid m1 m2 m3 m4 t hamp _) (find_break_resid t hbr _) x 14 2 rfl (by omega)

/-! ### `__processPlaceholders` puts the stashed codes back -/

/-- `linkText` when nothing but text has been produced so far: append to the text of the parent -/
def appendText (p : Node) (x : Str) : Node :=
  if x.isEmpty then p
  else if Node.truthy p.text then { p with text := some (p.text.getD [] ++ x), textAtomic := false }
  else { p with text := some x, textAtomic := false }

theorem linkText_text (x : Str) (p : Node) : linkText x false true [] p = ([], appendText p x) := by
  unfold linkText appendText
  by_cases hx : x.isEmpty = true
  · simp [hx]
  · by_cases hp : Node.truthy p.text = true <;> simp [hx, hp]

theorem appendText_nil (p : Node) : appendText p [] = p := by simp [appendText]

theorem appendText_appendText (p : Node) (x y : Str) : appendText (appendText p x) y = appendText p (x ++ y) := by
  cases x with
  | nil => simp [appendText_nil]
  | cons a x =>
    cases y with
    | nil => simp [appendText_nil]
    | cons b y =>
      obtain ⟨tag, attrs, text, ta, children, tail, tla⟩ := p
      rcases text with _ | _ | ⟨h, tl⟩ <;> simp [appendText, Node.truthy]

theorem find_none_of_head {ph : Char} {pt : Str} {s : Str} (h : ph ∉ s) : find (ph :: pt) s = none := by
  have := find_append_none ph pt s [] (fun a ha e => h (e ▸ ha)) (by simp)
  simpa using this

theorem find_prefix_after {ph : Char} {pt : Str} (B X : Str) (h : ph ∉ B) :
    find (ph :: pt) (B ++ (ph :: pt) ++ X) = some B.length := by
  induction B with
  | nil => simp [find_cons]
  | cons b B ih =>
    have hb : b ≠ ph := fun e => h (e ▸ List.mem_cons_self)
    have := ih (fun hh => h (List.mem_cons_of_mem _ hh))
    simp only [List.cons_append, List.append_assoc] at this ⊢
    rw [find_cons, this]
    simp [hb]

theorem placeholder_eq (n : Nat) : placeholder n = phPrefix ++ (pad4 n ++ [ETX]) := by
  simp [placeholder, List.append_assoc]

theorem spanLen_pad4 (n : Nat) (X : Str) : spanLen isAsciiDigit (pad4 n ++ ETX :: X) = (pad4 n).length := by
  rw [spanLen_append_of_all (List.all_eq_true.2 (pad4_digits n))]
  simp [spanLen_cons, show isAsciiDigit ETX = false by decide]

theorem phAt_pad4 (n : Nat) (X : Str) : phAt (pad4 n ++ ETX :: X) = some (pad4 n, (pad4 n).length + 1) := by
  have hpos : 0 < (pad4 n).length := by have := pad4_length n; omega
  simp [phAt, spanLen_pad4, hpos]

theorem findPh_placeholder (Q : Str) (n : Nat) (X : Str) :
    findPh (Q ++ placeholder n ++ X) Q.length = (some (pad4 n), (Q ++ placeholder n).length) := by
  have hd : (Q ++ placeholder n ++ X).drop Q.length = placeholder n ++ X := by simp [List.append_assoc]
  have hle : ¬ Q.length > (Q ++ placeholder n ++ X).length := by simp
  simp only [findPh, hle, if_false, hd]
  have : findPhScan (placeholder n ++ X) Q.length = some (pad4 n, Q.length + phPrefixLen + ((pad4 n).length + 1)) := by
    rw [placeholder_eq]
    simp only [phPrefix, List.cons_append, findPhScan, startsWith_cons_cons, decide_true, Bool.true_and]
    have hsw : startsWith ("klzzwxh:".toList ++ (pad4 n ++ [ETX]) ++ X) "klzzwxh:".toList = true := by
      rw [List.append_assoc]; exact startsWith_append _ _
    have hdrop : (STX :: ("klzzwxh:".toList ++ (pad4 n ++ [ETX]) ++ X)).drop phPrefixLen = pad4 n ++ ETX :: X := by
      simp [phPrefixLen, List.append_assoc]
    simp only [hsw, if_true, hdrop, phAt_pad4]
  rw [this]
  simp [placeholder, phPrefix, phPrefixLen]; omega

theorem stashGet_pad4 (S : List StashItem) (n : Nat) : stashGet S (pad4 n) = S[n]? := by
  simp [stashGet]

/-- one turn of the `while data` loop at a placeholder whose stash entry is a string -/
theorem ppLoop_step (S : List StashItem) (nested : Node → Option Node) (data : Str) (g start : Nat) (parent : Node)
    (off : Nat) (id : Str) (phEnd : Nat) (s : Str) (h1 : start ≤ data.length)
    (h2 : find phPrefix (data.drop start) = some off) (h3 : findPh data (start + off) = (some id, phEnd))
    (h4 : stashGet S id = some (.str s)) :
    ppLoop S nested data false true (g + 1) start [] parent =
      ppLoop S nested data false true g phEnd []
        (appendText (appendText parent (Inline.slice data start (start + off))) s) := by
  have hle : ¬ start > data.length := by omega
  simp only [ppLoop, hle, if_false, h2, h3, Option.bind_some, h4, linkText_text]
  by_cases hi : start + off > 0
  · simp [hi, linkText_text]
  · have h0 : start = 0 ∧ off = 0 := by omega
    simp [h0.1, h0.2, Inline.slice, appendText_nil, linkText_text]

theorem ppLoop_end (S : List StashItem) (nested : Node → Option Node) (data : Str) (g start : Nat) (parent : Node)
    (h1 : start ≤ data.length) (h2 : find phPrefix (data.drop start) = none) :
    ppLoop S nested data false true (g + 1) start [] parent = some ([], appendText parent (data.drop start)) := by
  have hle : ¬ start > data.length := by omega
  simp [ppLoop, hle, h2, linkText_text]

theorem ppLoop_resid (esc : List Char) (S : List StashItem) (nested : Node → Option Node) (r : Str) :
    ∀ (P B : Str) (n : Nat) (parent : Node) (g : Nat), STX ∉ B → STX ∉ r → S.drop n = stashOf esc r →
      ppLoop S nested (P ++ B ++ resid esc n r) false true (g + escCount esc r + 1) P.length [] parent =
        some ([], appendText parent (B ++ coded esc r)) := by
  induction r with
  | nil =>
    intro P B n parent g hB _ _
    have hd : (P ++ B).drop P.length = B := by simp
    simp only [resid, List.append_nil, coded]
    rw [ppLoop_end _ _ _ _ _ _ (by simp) (by rw [hd]; exact find_none_of_head hB), hd]
  | cons c r ih =>
    intro P B n parent g hB hr hS
    have hr' : STX ∉ r := fun h => hr (List.mem_cons_of_mem _ h)
    by_cases hc : c ∈ esc
    · have hcount : escCount esc (c :: r) = escCount esc r + 1 := by simp [escCount, stashOf, hc]
      have hres : resid esc n (c :: r) = placeholder n ++ resid esc (n + 1) r := by simp [resid, hc]
      have hst : stashOf esc (c :: r) = .str (escCode c) :: stashOf esc r := by simp [stashOf, hc]
      rw [hst] at hS
      have hSn : S[n]? = some (.str (escCode c)) := by
        have := congrArg List.head? hS
        simpa [List.head?_drop] using this
      have hS' : S.drop (n + 1) = stashOf esc r := by
        have := congrArg List.tail hS
        simpa [List.tail_drop] using this
      generalize hX : resid esc (n + 1) r = X at *
      have hdata : P ++ B ++ resid esc n (c :: r) = (P ++ B) ++ placeholder n ++ X := by
        rw [hres]; simp [List.append_assoc]
      have hdrop : (P ++ B ++ placeholder n ++ X).drop P.length = B ++ phPrefix ++ ((pad4 n ++ [ETX]) ++ X) := by
        rw [placeholder_eq]; simp [List.append_assoc]
      have hfind : find phPrefix ((P ++ B ++ placeholder n ++ X).drop P.length) = some B.length := by
        rw [hdrop]; exact find_prefix_after B _ hB
      have hph := findPh_placeholder (P ++ B) n X
      rw [List.length_append] at hph
      have hslice : Inline.slice (P ++ B ++ placeholder n ++ X) P.length (P.length + B.length) = B := by
        have : (P ++ B ++ placeholder n ++ X).take (P.length + B.length) = P ++ B := by
          rw [← List.length_append, List.append_assoc (P ++ B)]; exact List.take_left' rfl
        rw [Inline.slice, this]; simp
      rw [hdata, hcount, show g + (escCount esc r + 1) + 1 = (g + escCount esc r + 1) + 1 by omega,
        ppLoop_step S nested _ _ P.length parent B.length (pad4 n) _ (escCode c) (by simp) hfind hph
          (by rw [stashGet_pad4]; exact hSn), hslice]
      have := ih (P ++ B ++ placeholder n) [] (n + 1) (appendText (appendText parent B) (escCode c)) g
        (by simp) hr' hS'
      simp only [List.append_nil, List.nil_append] at this
      rw [hX] at this
      rw [this, appendText_appendText, appendText_appendText]
      simp [coded, hc]
    · have hcs : c ≠ STX := fun e => hr (e ▸ List.mem_cons_self)
      have hcount : escCount esc (c :: r) = escCount esc r := by simp [escCount, stashOf, hc]
      have hB' : STX ∉ B ++ [c] := by
        intro hh; rcases List.mem_append.1 hh with hh | hh
        · exact hB hh
        · have e : STX = c := by simpa using hh
          exact hcs e.symm
      have hst : stashOf esc (c :: r) = stashOf esc r := by simp [stashOf, hc]
      rw [hst] at hS
      have := ih P (B ++ [c]) n parent g hB' hr' hS
      simp only [List.append_assoc, List.singleton_append] at this
      simp only [resid, coded, List.contains_eq_mem, hc, decide_false, Bool.false_eq_true, if_false, hcount,
        List.append_assoc]
      exact this

theorem placeholder_length_pos (n : Nat) : 0 < (placeholder n).length := by
  simp [placeholder, phPrefix]

theorem escCount_le_resid (esc : List Char) (t : Str) (n : Nat) : escCount esc t ≤ (resid esc n t).length := by
  induction t generalizing n with
  | nil => simp [escCount, stashOf]
  | cons c r ih =>
    have := ih n
    have := ih (n + 1)
    have := placeholder_length_pos n
    by_cases h : c ∈ esc <;>
      simp only [escCount, stashOf, resid, List.contains_eq_mem, h, decide_true, decide_false, if_true,
        Bool.false_eq_true, if_false, List.length_cons, List.length_append] at * <;> omega

theorem ppTop_resid (esc : List Char) (t : Str) (hstx : STX ∉ t) (html : List Str) (parent : Node) :
    ppTop { stash := stashOf esc t, html := html } (resid esc 0 t) false parent true =
      some ([], appendText parent (coded esc t)) := by
  simp only [ppTop]
  unfold processPlaceholders
  by_cases he : (resid esc 0 t).isEmpty = true
  · cases t with
    | nil => simp [resid, coded, appendText_nil]
    | cons c r =>
      have := placeholder_length_pos 0
      by_cases h : c ∈ esc <;> simp [resid, h] at he
      simp [he] at this
  · simp only [he, Bool.false_eq_true, if_false]
    have hle := escCount_le_resid esc t 0
    obtain ⟨g, hg⟩ : ∃ g, (resid esc 0 t).length + 2 = g + escCount esc t + 1 :=
      ⟨(resid esc 0 t).length + 1 - escCount esc t, by omega⟩
    rw [hg]
    have := ppLoop_resid esc (stashOf esc t)
      (procNode fun d a p t_1 => processPlaceholders (stashOf esc t) ((stashOf esc t).length + 1) d a p t_1)
      t [] [] 0 parent g (by simp) hstx (by simp)
    simp only [List.append_nil, List.nil_append, List.length_nil] at this
    exact this

theorem handleInlineTop_escAll (cfg : Inline.Cfg) (t : Str) (st : St)
    (m0 : '\\' ∈ cfg.esc) (mt : '`' ∈ cfg.esc) (m1 : '[' ∈ cfg.esc) (m2 : '!' ∈ cfg.esc) (m3 : '*' ∈ cfg.esc)
    (m4 : '_' ∈ cfg.esc) (hamp : '&' ∉ t) (hbr : find [' ', ' ', '\n'] t = none) :
    handleInlineTop cfg (escAll cfg.esc t) st =
      some (resid cfg.esc st.stash.length t, { st with stash := st.stash ++ stashOf cfg.esc t }) :=
  handleInline_escAll cfg _ t st m0 mt m1 m2 m3 m4 hamp hbr

theorem truthy_some {s : Str} (h : s ≠ []) : Node.truthy (some s) = true := by
  cases s with
  | nil => exact absurd rfl h
  | cons a b => rfl

theorem escAll_ne_nil {esc : List Char} {t : Str} (h : t ≠ []) : escAll esc t ≠ [] := by
  cases t with
  | nil => exact absurd rfl h
  | cons c r => by_cases hc : c ∈ esc <;> simp [escAll, hc]

theorem coded_ne_nil {esc : List Char} {t : Str} (h : t ≠ []) : coded esc t ≠ [] := by
  cases t with
  | nil => exact absurd rfl h
  | cons c r => by_cases hc : c ∈ esc <;> simp [coded, escCode, hc]

/-- the paragraph, visited as a child of the root -/
theorem visitChild_paragraph (cfg : Inline.Cfg) (t : Str) (ht : t ≠ [])
    (m0 : '\\' ∈ cfg.esc) (mt : '`' ∈ cfg.esc) (m1 : '[' ∈ cfg.esc) (m2 : '!' ∈ cfg.esc) (m3 : '*' ∈ cfg.esc)
    (m4 : '_' ∈ cfg.esc) (hamp : '&' ∉ t) (hbr : find [' ', ' ', '\n'] t = none) (hstx : STX ∉ t) :
    visitChild cfg (Block.mkText "p" (escAll cfg.esc t)) { st := { html := [] } } =
      some (Block.mkText "p" (coded cfg.esc t), [],
        { st := { stash := stashOf cfg.esc t, html := [] } }) := by
  have h1 := handleInlineTop_escAll cfg t { html := [] } m0 mt m1 m2 m3 m4 hamp hbr
  simp only [List.length_nil, List.nil_append] at h1
  have h2 := ppTop_resid cfg.esc t hstx [] { Block.mkText "p" (escAll cfg.esc t) with text := none, textAtomic := false }
  simp only [visitChild, Block.mkText, Node.el, truthy_some (escAll_ne_nil ht), Bool.not_false, Bool.and_self,
    if_true, Option.getD_some, h1] at h2 ⊢
  rw [h2]
  have hcn : (coded cfg.esc t).isEmpty = false := by
    cases hcd : coded cfg.esc t with
    | nil => exact absurd hcd (coded_ne_nil ht)
    | cons a b => rfl
  simp [appendText, hcn, Node.truthy]

/-- **`InlineProcessor.run`** on `<div><p>escaped text</p></div>` -/
theorem run_paragraph (cfg : Inline.Cfg) (t : Str) (ht : t ≠ [])
    (m0 : '\\' ∈ cfg.esc) (mt : '`' ∈ cfg.esc) (m1 : '[' ∈ cfg.esc) (m2 : '!' ∈ cfg.esc) (m3 : '*' ∈ cfg.esc)
    (m4 : '_' ∈ cfg.esc) (hamp : '&' ∉ t) (hbr : find [' ', ' ', '\n'] t = none) (hstx : STX ∉ t) :
    Inline.run cfg ((Node.el "div").append (Block.mkText "p" (escAll cfg.esc t))) =
      some ((Node.el "div").append (Block.mkText "p" (coded cfg.esc t)),
        { stash := stashOf cfg.esc t, html := [] }) := by
  have hv := visitChild_paragraph cfg t ht m0 mt m1 m2 m3 m4 hamp hbr hstx
  obtain ⟨n, hn⟩ : ∃ n, runFuel ((Node.el "div").append (Block.mkText "p" (escAll cfg.esc t))) = n + 2 :=
    ⟨runFuel ((Node.el "div").append (Block.mkText "p" (escAll cfg.esc t))) - 2, by simp only [runFuel]; omega⟩
  simp only [Inline.run, hn]
  simp only [runLoop, getAt, Node.append, Node.el, List.nil_append, withIdx, visitLoop]
  rw [hv]
  simp [setAt, visitLoop, runLoop]

/-! ### `PrettifyTreeprocessor`, `UnescapeTreeprocessor` -/

/-- `<div>\n<p>X</p>\n</div>\n` as a tree -/
def prettyDoc (X : Str) : Node :=
  { tag := .name "div".toList, text := some ['\n'],
    children := [{ tag := .name "p".toList, text := some X, tail := some ['\n'] }], tail := some ['\n'] }

theorem prettify_paragraph (X : Str) :
    TreeProc.prettify ((Node.el "div").append (Block.mkText "p" X)) = prettyDoc X := by
  have h1 : TreeProc.isBlockLevel TreeProc.defaultBlockLevel (.name "div".toList) = true := by decide
  have h2 : TreeProc.isBlockLevel TreeProc.defaultBlockLevel (.name "p".toList) = true := by decide
  have h3 : (Tag.name "div".toList == Tag.name "code".toList) = false := by decide
  have h4 : (Tag.name "div".toList == Tag.name "pre".toList) = false := by decide
  have h5 : (Tag.name "p".toList == Tag.name "code".toList) = false := by decide
  have h6 : (Tag.name "p".toList == Tag.name "pre".toList) = false := by decide
  have h7 : (Tag.name "div".toList == Tag.name "br".toList) = false := by decide
  have h8 : (Tag.name "p".toList == Tag.name "br".toList) = false := by decide
  simp only [TreeProc.prettify, Node.append, Node.el, Block.mkText, List.nil_append, TreeProc.prettifyETree,
    TreeProc.prettifyKids, h1, h2, h3, h4, h5, h6, TreeProc.blankOrNone, Node.truthy,
    Option.getD_some, Option.getD_none, isBlank, List.all_nil, Bool.not_false, Bool.not_true, Bool.and_true,
    Bool.or_true, Bool.true_and, if_true, Bool.false_eq_true, if_false, Bool.and_false,
    TreeProc.mapTree, TreeProc.mapKids, TreeProc.brRule, TreeProc.preRule, TreeProc.tagIs, h7, h8, prettyDoc]

theorem unescapeText_skip (A R : Str) : TreeProc.unescapeText A.length (A ++ R) = TreeProc.unescapeText 0 R := by
  induction A with
  | nil => rfl
  | cons a A ih => simpa [TreeProc.unescapeText] using ih

theorem char_toNat_lt (c : Char) : c.toNat < 0x110000 := by
  have := c.valid
  simp only [UInt32.isValidChar, Nat.isValidChar] at this
  have e : c.val.toNat = c.toNat := rfl
  omega

theorem spanLen_natToDec (n : Nat) (X : Str) :
    spanLen isDecimal (natToDec n ++ TreeProc.ETX :: X) = (natToDec n).length := by
  rw [spanLen_append_of_all (List.all_eq_true.2 (fun c hc => isDecimal_of_isAsciiDigit (natToDec_digits n c hc)))]
  simp [spanLen_cons, show isDecimal TreeProc.ETX = false by decide]

theorem unescapeText_escCode (c : Char) (R : Str) :
    TreeProc.unescapeText 0 (escCode c ++ R) = (TreeProc.unescapeText 0 R).map (c :: ·) := by
  have e1 : Inline.ETX = TreeProc.ETX := rfl
  have e2 : Inline.STX = TreeProc.STX := rfl
  have hshape : escCode c ++ R = TreeProc.STX :: (natToDec c.toNat ++ TreeProc.ETX :: R) := by
    simp [escCode, e1, e2, List.append_assoc]
  have hpos : 0 < (natToDec c.toNat).length := natToDec_length_pos _
  have hskip := unescapeText_skip (natToDec c.toNat ++ [TreeProc.ETX]) R
  simp only [List.length_append, List.length_cons, List.length_nil, List.append_assoc, List.singleton_append,
    Nat.zero_add] at hskip
  rw [hshape]
  simp only [TreeProc.unescapeText, if_true, spanLen_natToDec, hpos, decide_true, Bool.true_and]
  simp [char_toNat_lt c, hskip]

theorem unescapeText_coded {esc : List Char} (t : Str) (hstx : Inline.STX ∉ t) :
    TreeProc.unescapeText 0 (coded esc t) = some t := by
  induction t with
  | nil => rfl
  | cons c r ih =>
    have ih' := ih (fun h => hstx (List.mem_cons_of_mem _ h))
    by_cases hc : c ∈ esc
    · simp only [coded, List.contains_eq_mem, hc, decide_true, if_true]
      rw [unescapeText_escCode, ih']; rfl
    · have hcs : c ≠ TreeProc.STX := fun e => hstx (e ▸ List.mem_cons_self)
      simp only [coded, List.contains_eq_mem, hc, decide_false, Bool.false_eq_true, if_false,
        TreeProc.unescapeText, hcs, ih']
      rfl

theorem unescapeTree_prettyDoc (X t : Str) (hX : X ≠ []) (h : TreeProc.unescapeText 0 X = some t) :
    TreeProc.unescapeTree (prettyDoc X) = some (prettyDoc t) := by
  have hnl : TreeProc.unescapeText 0 ['\n'] = some ['\n'] := by decide
  obtain ⟨a, b, rfl⟩ : ∃ a b, X = a :: b := by
    cases X with
    | nil => exact absurd rfl hX
    | cons a b => exact ⟨a, b, rfl⟩
  simp [prettyDoc, TreeProc.unescapeTree, TreeProc.unescapeKids, TreeProc.unescAttrs, h, hnl, Node.truthy]

/-! ### serializer and the end of `convert` -/

theorem serialize_prettyDoc (fmt : Ser.Fmt) (t : Str) (ht : t ≠ []) :
    Ser.serialize fmt (prettyDoc t) =
      "<div>".toList ++ ('\n' :: "<p>".toList ++ Ser.escCdata t ++ "</p>".toList ++ ['\n']) ++ "</div>\n".toList := by
  obtain ⟨a, b, rfl⟩ : ∃ a b, t = a :: b := by
    cases t with
    | nil => exact absurd rfl ht
    | cons a b => exact ⟨a, b, rfl⟩
  have h1 : Ser.isEmptyTag "div".toList = false := by decide
  have h2 : Ser.isEmptyTag "p".toList = false := by decide
  have h3 : Ser.isRawTextTag "div".toList = false := by decide
  have h4 : Ser.isRawTextTag "p".toList = false := by decide
  have h5 : Ser.escCdata ['\n'] = ['\n'] := by decide
  simp only [prettyDoc, Ser.serialize, Ser.serializeList, Ser.element, Ser.sortAttrs, List.foldr_nil,
    Ser.writeAttrs, h1, h2, h3, h4, h5, Node.truthy, Option.getD_some, Bool.false_eq_true, if_false,
    if_true, List.append_nil]
  simp [List.append_assoc]

theorem topLevelStrip_div (M : Str) :
    Post.topLevelStrip ("<div>".toList ++ M ++ "</div>\n".toList) = some (strip M) := by
  have hf : find ('<' :: "div".toList ++ ['>']) ("<div>".toList ++ M ++ "</div>\n".toList) = some 0 := by
    simp [find_cons]
  have hr : Post.rfind ('<' :: '/' :: "div".toList ++ ['>']) ("<div>".toList ++ M ++ "</div>\n".toList) =
      some (5 + M.length) := by
    simp [Post.rfind, find_cons]
    omega
  simp only [Post.topLevelStrip, hf, hr]
  congr 1
  have : ("<div>".toList ++ M ++ "</div>\n".toList).take (5 + M.length) = "<div>".toList ++ M := by
    have hl : ("<div>".toList ++ M).length = 5 + M.length := by simp; omega
    rw [← hl]; exact List.take_left' rfl
  rw [Post.topLevelStrip.sl, this]; simp

theorem getLast_closeP (X : Str) : (X ++ "</p>".toList).getLast? = some '>' := by
  have : X ++ "</p>".toList = (X ++ "</p".toList) ++ ['>'] := by simp
  rw [this, List.getLast?_append]; rfl

theorem strip_paragraph (E : Str) :
    strip ('\n' :: "<p>".toList ++ E ++ "</p>".toList ++ ['\n']) = "<p>".toList ++ E ++ "</p>".toList := by
  have := strip_append_of_blank (a := ['\n']) (b := ['\n']) (by decide) (by decide) ("<p>".toList ++ E ++ "</p>".toList)
  have e : '\n' :: "<p>".toList ++ E ++ "</p>".toList ++ ['\n'] =
      ['\n'] ++ ("<p>".toList ++ E ++ "</p>".toList) ++ ['\n'] := by simp
  rw [e, this]
  apply strip_eq_self
  · intro c hc
    have : c = '<' := by simpa using hc.symm
    subst this; decide
  · intro c hc
    have : c = '>' := by
      have : ("<p>".toList ++ E ++ "</p>".toList).getLast? = some '>' := getLast_closeP _
      rw [this] at hc; exact (Option.some.inj hc).symm
    subst this; decide

theorem stx_not_mem_esc1 (q n : Bool) (s : Str) (h : Post.STX ∉ s) : Post.STX ∉ Ser.esc1 q n s := by
  induction s with
  | nil => simp [Ser.esc1]
  | cons c r ih =>
    have hc : c ≠ Post.STX := fun e => h (e ▸ List.mem_cons_self)
    have ih' := ih (fun hh => h (List.mem_cons_of_mem _ hh))
    have hlit : ∀ l : Str, (∀ x ∈ l, x ≠ Post.STX) → Post.STX ∉ l ++ Ser.esc1 q n r := by
      intro l hl hm
      rcases List.mem_append.1 hm with hm | hm
      · exact hl _ hm rfl
      · exact ih' hm
    simp only [Ser.esc1]
    repeat' split
    · exact hlit ['&'] (by decide)
    · exact hlit "&amp;".toList (by decide)
    · exact hlit "&lt;".toList (by decide)
    · exact hlit "&gt;".toList (by decide)
    · exact hlit "&quot;".toList (by decide)
    · exact hlit "&#10;".toList (by decide)
    · exact hlit [c] (by simpa using hc)

theorem ampSub_id (s : Str) (h : Post.STX ∉ s) : Post.ampSub s = s := by
  apply replace_id_of_not_contains
  rw [contains_eq_false_iff]
  intro pre post e
  apply h
  rw [e]
  simp [Post.ampSubstitute]

/-- the end of `convert` on the serialised document -/
theorem finish_paragraph (bl : List Str) (t : Str) (hstx : Post.STX ∉ t) :
    Post.finish bl []
      ("<div>".toList ++ ('\n' :: "<p>".toList ++ Ser.escCdata t ++ "</p>".toList ++ ['\n']) ++ "</div>\n".toList) =
      some (some ("<p>".toList ++ Ser.escCdata t ++ "</p>".toList)) := by
  have hE : Post.STX ∉ "<p>".toList ++ Ser.escCdata t ++ "</p>".toList := by
    intro hm
    rcases List.mem_append.1 hm with hm | hm
    · rcases List.mem_append.1 hm with hm | hm
      · exact absurd hm (by decide)
      · rw [Ser.onepass_cdata'] at hm; exact stx_not_mem_esc1 _ _ t hstx hm
    · exact absurd hm (by decide)
  have hs : strip ("<p>".toList ++ Ser.escCdata t ++ "</p>".toList) = "<p>".toList ++ Ser.escCdata t ++ "</p>".toList := by
    apply strip_eq_self
    · intro c hc
      have : c = '<' := by simpa using hc.symm
      subst this; decide
    · intro c hc
      have : c = '>' := by
        have : ("<p>".toList ++ Ser.escCdata t ++ "</p>".toList).getLast? = some '>' := getLast_closeP _
        rw [this] at hc; exact (Option.some.inj hc).symm
      subst this; decide
  simp only [Post.finish, topLevelStrip_div, strip_paragraph, Post.post, Post.rawHtmlFuel, List.length_nil,
    Post.rawHtml, List.isEmpty_nil, if_true, Option.map_some, ampSub_id _ hE, hs]

/-! ### the raw-HTML preprocessor on text without `&` -/

theorem goahead_no_amp (e : Bool) (s : Str) (h : '&' ∉ s) : ∀ f, s.length ≤ f → Extract.goahead e f s = (s, []) := by
  induction s with
  | nil => intro f _; cases f <;> rfl
  | cons c r ih =>
    intro f hf
    obtain ⟨f', rfl⟩ : ∃ f', f = f' + 1 := ⟨f - 1, by simp at hf; omega⟩
    have hc : c ≠ '&' := fun e => h (e ▸ List.mem_cons_self)
    have := ih (fun hh => h (List.mem_cons_of_mem _ hh)) f' (by simp at hf; omega)
    simp [Extract.goahead, hc, this]

/-- `HtmlBlockPreprocessor` leaves text without `&` (and `<`) alone -/
theorem extract_no_amp (s : Str) (h : '&' ∉ s) : Extract.extract s = s := by
  simp [Extract.extract, goahead_no_amp false s h (s.length + 1) (by omega), Extract.goahead]

/-! ### the facts that the domain gives -/

theorem domainFull_facts (t : Str) (h : EscDomainFull t = true) :
    EscDomain t = true ∧ t ≠ [] ∧ '<' ∉ t ∧ '&' ∉ t ∧ Inline.STX ∉ t ∧ find [' ', ' ', '\n'] t = none := by
  simp only [EscDomainFull, Bool.and_eq_true, Bool.not_eq_true', contains] at h
  obtain ⟨hd, hbr⟩ := h
  have hd' := hd
  simp only [EscDomain, Bool.and_eq_true, List.all_eq_true] at hd'
  obtain ⟨⟨⟨hp, _⟩, hv⟩, _⟩ := hd'
  refine ⟨hd, ?_, ?_, ?_, ?_, ?_⟩
  · intro e; subst e; simp [startsVisible] at hv
  · intro hm; exact absurd (hp _ hm) (by decide)
  · intro hm; exact absurd (hp _ hm) (by decide)
  · intro hm; exact absurd (hp _ hm) (by decide)
  · cases hf : find [' ', ' ', '\n'] t with
    | none => rfl
    | some i => simp [hf] at hbr

/-- **`Markdown.convert`** on a fully escaped text of the domain -/
theorem convert_escaped (cfg : Pipeline.Cfg) (htab : cfg.tab > 0)
    (hbl : cfg.blockLevel = TreeProc.defaultBlockLevel) (hnl : '\n' ∉ cfg.esc)
    (m0 : '\\' ∈ cfg.esc) (mt : '`' ∈ cfg.esc) (m1 : '#' ∈ cfg.esc) (m2 : '-' ∈ cfg.esc) (m3 : '_' ∈ cfg.esc)
    (m4 : '*' ∈ cfg.esc) (m5 : '+' ∈ cfg.esc) (m6 : '.' ∈ cfg.esc) (m7 : '>' ∈ cfg.esc) (m8 : '[' ∈ cfg.esc)
    (m9 : '!' ∈ cfg.esc) (t : Str) (h : EscDomainFull t = true) :
    Pipeline.convert cfg (escAll cfg.esc t) = .ok ("<p>".toList ++ Ser.escCdata t ++ "</p>".toList) := by
  obtain ⟨hd, hne, hlt, hamp, hstx, hbr⟩ := domainFull_facts t h
  have hdom := hd
  simp only [EscDomain, Bool.and_eq_true] at hdom
  -- the source is in the modelled domain and not blank
  have h1 : (escAll cfg.esc t).contains '<' = false := by
    cases hc : (escAll cfg.esc t).contains '<' with
    | false => rfl
    | true =>
      rcases mem_escAll (List.contains_iff_mem.1 hc) with e | hm
      · exact absurd e (by decide)
      · exact absurd hm hlt
  have hvis := startsVisible_escAll (esc := cfg.esc) t hdom.1.2
  have h2 : Normalize.isBlankDoc (escAll cfg.esc t) = false := by
    rw [Normalize.isBlankDoc_eq_all]
    exact isBlank_of_visible hvis
  -- normaliser, raw-HTML preprocessor, block parser
  have h3 : Pipeline.prepare cfg (escAll cfg.esc t) = escAll cfg.esc t ++ ['\n', '\n'] := by
    have hn := normalize_plain cfg.tab _ (plain_escAll (esc := cfg.esc) t hdom.1.1.1) (ink_escAll hnl t hdom.1.1.2)
    rw [Pipeline.prepare, hn]
    apply extract_no_amp
    intro hm
    rcases List.mem_append.1 hm with hm | hm
    · rcases mem_escAll hm with e | hm
      · exact absurd e (by decide)
      · exact hamp hm
    · exact absurd hm (by decide)
  have h4 := block_single_paragraph hnl m1 m2 m3 m4 m5 m6 m7 m8 cfg.tab htab t (blockDomain_of_domain t hd)
  -- inline processor
  have h5 := run_paragraph { esc := cfg.esc, refs := [] } t hne m0 mt m8 m9 m4 m3 hamp hbr hstx
  -- tree processors
  have hcoded : coded cfg.esc t ≠ [] := coded_ne_nil hne
  have h6 := unescapeTree_prettyDoc (coded cfg.esc t) t hcoded (unescapeText_coded t hstx)
  -- serializer and postprocessors
  have h7 := finish_paragraph cfg.blockLevel t hstx
  simp only [Pipeline.convert, h1, h2, Bool.false_eq_true, if_false, Pipeline.tree, h3, h4, List.reverse_nil, h5,
    hbl, prettify_paragraph, h6, serialize_prettyDoc cfg.fmt t hne]
  rw [hbl] at h7
  simp only [h7]

/-! ### extras for the statements of `Props/C07.lean` -/

/-- patterns 0 and 1 of the loop of `__handleInline` on an escaped text -/
theorem patterns01 (cfg : Inline.Cfg) (hi : HI) (m0 : '\\' ∈ cfg.esc) (mt : '`' ∈ cfg.esc) (t : Str) (st : St)
    (g : Nat) :
    hiLoop (applyPattern cfg hi) (g + escCount cfg.esc t + 2) (escAll cfg.esc t) 0 0 st =
      hiLoop (applyPattern cfg hi) g (resid cfg.esc st.stash.length t) 2 0
        { st with stash := st.stash ++ stashOf cfg.esc t } := by
  rw [show g + escCount cfg.esc t + 2 = (g + escCount cfg.esc t + 1) + 1 by omega,
    hiLoop_step _ _ _ 0 0 st (by omega) _ _ _ _ (applyPattern_zero_none cfg _ _ st (btFind_escAll m0 mt t))]
  simp only [Bool.false_eq_true, if_false, Nat.zero_add]
  have := escape_pass cfg hi m0 t [] st g (by simp)
  simpa using this

theorem escAll_of_no_esc {esc : List Char} (a : Str) (h : ∀ x ∈ a, x ∉ esc) : escAll esc a = a := by
  induction a with
  | nil => rfl
  | cons c r ih =>
    rw [escAll_cons_not_mem (h c List.mem_cons_self), ih (fun x hx => h x (List.mem_cons_of_mem _ hx))]

theorem escAll_append (esc : List Char) (a b : Str) : escAll esc (a ++ b) = escAll esc a ++ escAll esc b := by
  induction a with
  | nil => rfl
  | cons c r ih => by_cases hc : c ∈ esc <;> simp [escAll, hc, ih]

end MdVerif.Escape
