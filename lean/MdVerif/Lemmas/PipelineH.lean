/-
`PipelineH.convertH` (`Model/PipelineH.lean`, the pipeline model with the text-level raw-HTML preprocessor) versus
`Pipeline.convert`: on text without `<` the tokenizer model fires only data / charref / entityref events, whose texts
spell what `Extract.goahead` emits (`go1_ltfree`, `go2_ltfree`), so `extractText` is `Extract.extract` with an empty
stash (`extractText_ltfree`) and the two pipeline models agree (`convertH_eq_convert`).  Core Lean only.
-/
import MdVerif.Model.PipelineH
import MdVerif.Lemmas.HtmlTokDoc
import MdVerif.Lemmas.Normalize

namespace MdVerif.PipelineH
open Py Extract HtmlTok
set_option linter.unusedSimpArgs false
set_option linter.unnecessarySimpa false

/-! ### events of `<`-free text -/

/-- data, character reference or entity reference -/
def flatEv : Event → Bool
  | .data _ => true
  | .charref _ => true
  | .entityref _ => true
  | _ => false

theorem step_flat (st : ExSt) (e : Event) (he : flatEv e = true) (hraw : st.inraw = false) (htail : st.intail = false) :
    step st e = { st with cleandoc := st.cleandoc ++ [evText e] } := by
  cases e <;> simp [flatEv] at he <;> simp [step, handleData, handleEmpty, hraw, htail, evText]

theorem run_flat : ∀ (evs : List Event) (st : ExSt), evs.all flatEv = true → st.inraw = false → st.intail = false →
    runFrom st evs = { st with cleandoc := st.cleandoc ++ evs.map evText } := by
  intro evs
  induction evs with
  | nil => intro st _ _ _; simp [runFrom]
  | cons e es ih =>
    intro st hall hraw htail
    simp only [List.all_cons, Bool.and_eq_true] at hall
    rw [runFrom_cons, step_flat st e hall.1 hraw htail,
      ih { st with cleandoc := st.cleandoc ++ [evText e] } hall.2 hraw htail]
    simp

/-! ### the two formulations of the `&` scan -/

theorem goahead_succ_cons (e : Bool) (f : Nat) (c : Char) (r : Str) :
    Extract.goahead e (f + 1) (c :: r) =
      (if c != '&' then
        let (o, rest) := Extract.goahead e f r
        (c :: o, rest)
      else
        let s := c :: r
        if startsWith r ['#'] then
          match charrefAt s with
          | some en =>
            let k := if s[en - 1]? == some ';' then en else en - 1
            let (o, rest) := Extract.goahead e f (s.drop k)
            ('&' :: '#' :: slice s 2 (en - 1) ++ ';' :: o, rest)
          | none =>
            if s.contains ';' then leave e ['&', '#'] (s.drop 2) else leave e [] s
        else
          match entityrefAt s with
          | some en =>
            let (o, rest) := Extract.goahead e f (s.drop en)
            (s.take en ++ o, rest)
          | none =>
            if r.isEmpty then leave e [] s
            else
              let (o, rest) := Extract.goahead e f r
              ('&' :: o, rest)) := rfl

/-- a run of characters other than `&` is copied -/
theorem goahead_run (e : Bool) : ∀ (d : Str) (f : Nat) (s' : Str), d.all (· != '&') = true →
    Extract.goahead e (f + d.length) (d ++ s') = (d ++ (Extract.goahead e f s').1, (Extract.goahead e f s').2) := by
  intro d
  induction d with
  | nil => intro f s' _; simp
  | cons c d ih =>
    intro f s' h
    simp only [List.all_cons, Bool.and_eq_true] at h
    rw [List.cons_append, show f + (c :: d).length = (f + d.length) + 1 by simp; omega, goahead_succ_cons]
    simp only [h.1, if_true, ih f s' h.2]
    rfl

theorem charrefAt_ge {s : Str} {en : Nat} (h : charrefAt s = some en) : 3 ≤ en := by
  unfold charrefAt at h
  split at h
  · split at h
    · dsimp only at h
      split at h
      · simp at h; omega
      · split at h
        · split at h
          · split at h
            · simp at h; omega
            · cases h
          · cases h
        · cases h
    · cases h
  · cases h

theorem entityrefAt_ge {s : Str} {en : Nat} (h : entityrefAt s = some en) : 3 ≤ en := by
  unfold entityrefAt at h
  split at h
  · split at h
    · dsimp only at h
      split at h
      · simp at h; omega
      · cases h
    · cases h
  · cases h

/-- an entity reference match is `&`, the name, `;` -/
theorem entityrefAt_take {s : Str} {en : Nat} (h : entityrefAt s = some en) (hs : s.head? = some '&') :
    s.take en = '&' :: slice s 1 (en - 1) ++ [';'] := by
  unfold entityrefAt at h
  split at h
  · rename_i a c r
    simp at hs; subst hs
    split at h
    · dsimp only at h
      split at h
      · rename_i hsemi
        simp only [Option.some.injEq] at h; subst h
        have hq : r[spanLen (fun d => isAsciiAlnum d || d = '-' || d = '.') r]? = some ';' := by simpa using hsemi
        generalize spanLen (fun d => isAsciiAlnum d || d = '-' || d = '.') r = q at hq
        have hlt : q < r.length := by
          rcases Nat.lt_or_ge q r.length with h | h
          · exact h
          · rw [List.getElem?_eq_none h] at hq; cases hq
        unfold slice
        simp only [List.drop_succ_cons, List.drop_zero, Nat.add_sub_cancel]
        rw [show q + 3 = (q + 1) + 1 + 1 by omega, List.take_succ_cons, List.take_succ_cons,
          show q + 1 + 1 + 1 - 1 - 1 = q + 1 by omega, List.take_succ_cons]
        congr 2
        rw [List.take_add_one, hq]; simp
      · cases h
    · cases h
  · cases h

theorem mem_slice {s : Str} {a b : Nat} {c : Char} (h : c ∈ slice s a b) : c ∈ s :=
  List.mem_of_mem_drop (List.mem_of_mem_take h)

theorem evsText_cons (e : Event) (es : List Event) : evsText (e :: es) = evText e ++ evsText es := by
  simp [evsText]

theorem consEvs_some (a : List Event) (evs : List Event) (ex : ExSt) (rest : Str) :
    consEvs a (some (evs, ex, rest)) = some (a ++ evs, ex, rest) := rfl

/-- the first phase on `<`-free text: the model's events spell what `Extract.goahead false` emits, and the unread
    rest is the same -/
theorem go1_ltfree (raw : Str) : ∀ (g : Nat) (s : Str) (pos : Pos) (ex : ExSt) (f : Nat),
    s.length < g → '<' ∉ s → s.length < f →
    ∃ evs rest, go1 raw g s pos ex = some (evs, runFrom ex evs, rest) ∧ evs.all flatEv = true ∧
      Extract.goahead false f s = (evsText evs, rest) ∧ '<' ∉ rest ∧ '<' ∉ evsText evs := by
  intro g
  induction g with
  | zero => intro s _ _ _ h; omega
  | succ g ih =>
    intro s pos ex f hg hlt hf
    obtain ⟨f, rfl⟩ : ∃ f', f = f' + 1 := ⟨f - 1, by omega⟩
    cases s with
    | nil => exact ⟨[], [], rfl, rfl, rfl, by simp, by simp [evsText]⟩
    | cons c r =>
      have hc_lt : c ≠ '<' := fun e => hlt (e ▸ List.mem_cons_self)
      have hr_lt : '<' ∉ r := fun h => hlt (List.mem_cons_of_mem _ h)
      by_cases hamp : c = '&'
      · subst hamp
        rw [go1_succ_cons, goahead_succ_cons]
        simp only [show ('&' != '<' && '&' != '&') = false by decide, Bool.false_eq_true, if_false,
          show ('&' = '<') = False by decide, show ('&' != '&') = false by decide]
        by_cases hh : startsWith r ['#'] = true
        · simp only [hh, if_true]
          cases hcr : charrefAt ('&' :: r) with
          | some en =>
            simp only []
            have hen := charrefAt_ge hcr
            generalize hk : (if ('&' :: r)[en - 1]? == some ';' then en else en - 1) = k
            have hk1 : 1 ≤ k := by split at hk <;> omega
            have hlen : (List.drop k ('&' :: r)).length < ('&' :: r).length := by
              simp only [List.length_drop, List.length_cons]; omega
            obtain ⟨evs, rest, h1, h2, h3, h4, h5⟩ := ih (List.drop k ('&' :: r))
              (updatePos pos (List.take k ('&' :: r))) (step ex (.charref (slice ('&' :: r) 2 (en - 1)))) f
              (by simp only [List.length_cons] at hg hlen ⊢; omega)
              (fun h => hlt (List.mem_of_mem_drop h)) (by simp only [List.length_cons] at hf hlen ⊢; omega)
            refine ⟨.charref (slice ('&' :: r) 2 (en - 1)) :: evs, rest, ?_, ?_, ?_, h4, ?_⟩
            · rw [h1, consEvs_some]; rfl
            · simp [flatEv, h2]
            · rw [h3]; simp [evsText_cons, evText, charrefText]
            · have hsl : '<' ∉ slice ('&' :: r) 2 (en - 1) := fun h => hlt (mem_slice h)
              rw [evsText_cons]; simp [evText, charrefText, hsl, h5]
          | none =>
            simp only []
            by_cases hsemi : ('&' :: r).contains ';' = true
            · simp only [hsemi, if_true, leave, Bool.false_eq_true, if_false]
              refine ⟨[.data ['&', '#']], List.drop 2 ('&' :: r), rfl, rfl, by simp [evsText, evText],
                fun h => hlt (List.mem_of_mem_drop h), by simp [evsText, evText]⟩
            · simp only [hsemi, Bool.false_eq_true, if_false, leave]
              exact ⟨[], '&' :: r, rfl, rfl, rfl, hlt, by simp [evsText]⟩
        · simp only [hh, Bool.false_eq_true, if_false]
          cases her : entityrefAt ('&' :: r) with
          | some en =>
            simp only []
            have hen := entityrefAt_ge her
            have hlen : (List.drop en ('&' :: r)).length < ('&' :: r).length := by
              simp only [List.length_drop, List.length_cons]; omega
            obtain ⟨evs, rest, h1, h2, h3, h4, h5⟩ := ih (List.drop en ('&' :: r))
              (updatePos pos (List.take en ('&' :: r))) (step ex (.entityref (slice ('&' :: r) 1 (en - 1)))) f
              (by simp only [List.length_cons] at hg hlen ⊢; omega)
              (fun h => hlt (List.mem_of_mem_drop h)) (by simp only [List.length_cons] at hf hlen ⊢; omega)
            have htk := entityrefAt_take her rfl
            refine ⟨.entityref (slice ('&' :: r) 1 (en - 1)) :: evs, rest, ?_, ?_, ?_, h4, ?_⟩
            · rw [h1, consEvs_some]; rfl
            · simp [flatEv, h2]
            · rw [h3, htk]; simp [evsText_cons, evText, entityrefText]
            · have hsl : '<' ∉ slice ('&' :: r) 1 (en - 1) := fun h => hlt (mem_slice h)
              rw [evsText_cons]; simp [evText, entityrefText, hsl, h5]
          | none =>
            simp only []
            by_cases hre : r.isEmpty = true
            · simp only [hre, if_true, leave, Bool.false_eq_true, if_false]
              exact ⟨[], '&' :: r, rfl, rfl, rfl, hlt, by simp [evsText]⟩
            · simp only [hre, Bool.false_eq_true, if_false]
              obtain ⟨evs, rest, h1, h2, h3, h4, h5⟩ := ih r (updatePos pos ['&']) (step ex (.data ['&'])) f
                (by simp only [List.length_cons] at hg; omega) hr_lt (by simp only [List.length_cons] at hf; omega)
              refine ⟨.data ['&'] :: evs, rest, ?_, ?_, ?_, h4, ?_⟩
              · rw [h1, consEvs_some]; rfl
              · simp [flatEv, h2]
              · rw [h3]; simp [evsText_cons, evText]
              · rw [evsText_cons]; simp [evText, h5]
      · -- a run of data
        have hcc : (c != '<' && c != '&') = true := by simp [hc_lt, hamp]
        rw [go1_succ_cons]
        simp only [hcc, if_true]
        generalize hj : interesting (c :: r) = j
        have hj1 : 1 ≤ j := by
          rw [← hj]; unfold interesting; rw [spanLen_cons]; simp only [hcc, if_true]; omega
        have hjl : j ≤ (c :: r).length := by rw [← hj]; exact spanLen_le _ _
        have hd : (List.take j (c :: r)).all (· != '&') = true := by
          simp only [List.all_eq_true]; intro x hx
          have := spanLen_prefix_all (fun c => c != '<' && c != '&') (c :: r) x (by
            rw [show spanLen (fun c => c != '<' && c != '&') (c :: r) = j from hj]; exact hx)
          simp only [Bool.and_eq_true] at this; exact this.2
        have hlen : (List.drop j (c :: r)).length + j = (c :: r).length := by
          simp only [List.length_drop]; omega
        obtain ⟨evs, rest, h1, h2, h3, h4, h5⟩ := ih (List.drop j (c :: r))
          (updatePos pos (List.take j (c :: r))) (step ex (.data (List.take j (c :: r)))) (f + 1 - j)
          (by omega) (fun h => hlt (List.mem_of_mem_drop h)) (by omega)
        refine ⟨.data (List.take j (c :: r)) :: evs, rest, ?_, ?_, ?_, h4, ?_⟩
        · rw [h1, consEvs_some]; rfl
        · simp [flatEv, h2]
        · have hsplit : c :: r = List.take j (c :: r) ++ List.drop j (c :: r) := (List.take_append_drop j _).symm
          have hfuel : f + 1 = (f + 1 - j) + (List.take j (c :: r)).length := by
            simp only [List.length_take]; omega
          conv => lhs; rw [hsplit, hfuel]
          rw [goahead_run false _ _ _ hd, h3]
          simp [evsText_cons, evText]
        · rw [evsText_cons]; simp only [evText, List.mem_append, not_or]
          exact ⟨fun h => hlt (List.mem_of_mem_take h), h5⟩

theorem go2_succ_cons (f : Nat) (c : Char) (r : Str) :
    go2 (f + 1) (c :: r) =
      (let s := c :: r
       if c != '&' then
         let j := spanLen (· != '&') s
         .data (s.take j) :: go2 f (s.drop j)
       else if startsWith r ['#'] then
         match charrefAt s with
         | some e =>
           let k := if s[e - 1]? == some ';' then e else e - 1
           .charref (slice s 2 (e - 1)) :: go2 f (s.drop k)
         | none =>
           if s.contains ';' then [.data ['&', '#'], .data (s.drop 2)]
           else [.data s]
       else
         match entityrefAt s with
         | some e => .entityref (slice s 1 (e - 1)) :: go2 f (s.drop e)
         | none => if r.isEmpty then [.data s] else .data ['&'] :: go2 f r) := rfl

/-- the second phase: the model's events spell what `Extract.goahead true` emits plus its (empty) rest -/
theorem go2_ltfree : ∀ (g : Nat) (s : Str) (f : Nat), s.length < g → s.length < f →
    (go2 g s).all flatEv = true ∧
    evsText (go2 g s) = (Extract.goahead true f s).1 ++ (Extract.goahead true f s).2 ∧
    ('<' ∉ s → '<' ∉ evsText (go2 g s)) := by
  intro g
  induction g with
  | zero => intro s _ h; omega
  | succ g ih =>
    intro s f hg hf
    obtain ⟨f, rfl⟩ : ∃ f', f = f' + 1 := ⟨f - 1, by omega⟩
    cases s with
    | nil => exact ⟨rfl, rfl, fun _ => by simp [go2, evsText]⟩
    | cons c r =>
      by_cases hamp : c = '&'
      · subst hamp
        rw [go2_succ_cons, goahead_succ_cons]
        simp only [show ('&' != '&') = false by decide, Bool.false_eq_true, if_false]
        by_cases hh : startsWith r ['#'] = true
        · simp only [hh, if_true]
          cases hcr : charrefAt ('&' :: r) with
          | some en =>
            simp only []
            have hen := charrefAt_ge hcr
            generalize hk : (if ('&' :: r)[en - 1]? == some ';' then en else en - 1) = k
            have hk1 : 1 ≤ k := by split at hk <;> omega
            have hlen : (List.drop k ('&' :: r)).length < ('&' :: r).length := by
              simp only [List.length_drop, List.length_cons]; omega
            obtain ⟨h2, h3, h5⟩ := ih (List.drop k ('&' :: r)) f
              (by simp only [List.length_cons] at hg hlen ⊢; omega)
              (by simp only [List.length_cons] at hf hlen ⊢; omega)
            refine ⟨by simp [flatEv, h2], ?_, ?_⟩
            · rw [evsText_cons, h3]; simp [evText, charrefText]
            · intro hlt
              have hsl : '<' ∉ slice ('&' :: r) 2 (en - 1) := fun h => hlt (mem_slice h)
              have := h5 (fun h => hlt (List.mem_of_mem_drop h))
              rw [evsText_cons]; simp [evText, charrefText, hsl, this]
          | none =>
            simp only []
            by_cases hsemi : ('&' :: r).contains ';' = true
            · simp only [hsemi, if_true, leave]
              refine ⟨rfl, by simp [evsText, evText], fun hlt => ?_⟩
              have : '<' ∉ List.drop 2 ('&' :: r) := fun h => hlt (List.mem_of_mem_drop h)
              simp only [evsText, List.map_cons, List.map_nil, evText, List.flatten_cons, List.flatten_nil,
                List.append_nil, List.mem_append, not_or]
              exact ⟨by simp, this⟩
            · simp only [hsemi, Bool.false_eq_true, if_false, leave, if_true]
              exact ⟨rfl, by simp [evsText, evText], fun hlt => by simpa [evsText, evText] using hlt⟩
        · simp only [hh, Bool.false_eq_true, if_false]
          cases her : entityrefAt ('&' :: r) with
          | some en =>
            simp only []
            have hen := entityrefAt_ge her
            have hlen : (List.drop en ('&' :: r)).length < ('&' :: r).length := by
              simp only [List.length_drop, List.length_cons]; omega
            obtain ⟨h2, h3, h5⟩ := ih (List.drop en ('&' :: r)) f
              (by simp only [List.length_cons] at hg hlen ⊢; omega)
              (by simp only [List.length_cons] at hf hlen ⊢; omega)
            have htk := entityrefAt_take her rfl
            refine ⟨by simp [flatEv, h2], ?_, ?_⟩
            · rw [evsText_cons, h3, htk]; simp [evText, entityrefText]
            · intro hlt
              have hsl : '<' ∉ slice ('&' :: r) 1 (en - 1) := fun h => hlt (mem_slice h)
              have := h5 (fun h => hlt (List.mem_of_mem_drop h))
              rw [evsText_cons]; simp [evText, entityrefText, hsl, this]
          | none =>
            simp only []
            by_cases hre : r.isEmpty = true
            · simp only [hre, if_true, leave]
              exact ⟨rfl, by simp [evsText, evText], fun hlt => by simpa [evsText, evText] using hlt⟩
            · simp only [hre, Bool.false_eq_true, if_false]
              obtain ⟨h2, h3, h5⟩ := ih r f (by simp only [List.length_cons] at hg; omega)
                (by simp only [List.length_cons] at hf; omega)
              refine ⟨by simp [flatEv, h2], ?_, ?_⟩
              · rw [evsText_cons, h3]; simp [evText]
              · intro hlt
                have := h5 (fun h => hlt (List.mem_cons_of_mem _ h))
                rw [evsText_cons]; simp [evText, this]
      · have hcc : (c != '&') = true := by simp [hamp]
        rw [go2_succ_cons]
        simp only [hcc, if_true]
        generalize hj : spanLen (· != '&') (c :: r) = j
        have hj1 : 1 ≤ j := by
          rw [← hj, spanLen_cons]; simp only [hcc, if_true]; omega
        have hjl : j ≤ (c :: r).length := by rw [← hj]; exact spanLen_le _ _
        have hd : (List.take j (c :: r)).all (· != '&') = true := by
          simp only [List.all_eq_true]; intro x hx
          exact spanLen_prefix_all (· != '&') (c :: r) x (by rw [hj]; exact hx)
        have hlen : (List.drop j (c :: r)).length + j = (c :: r).length := by
          simp only [List.length_drop]; omega
        obtain ⟨h2, h3, h5⟩ := ih (List.drop j (c :: r)) (f + 1 - j) (by omega) (by omega)
        refine ⟨by simp [flatEv, h2], ?_, ?_⟩
        · have hsplit : c :: r = List.take j (c :: r) ++ List.drop j (c :: r) := (List.take_append_drop j _).symm
          have hfuel : f + 1 = (f + 1 - j) + (List.take j (c :: r)).length := by
            simp only [List.length_take]; omega
          conv => rhs; rw [hsplit, hfuel]
          rw [goahead_run true _ _ _ hd, evsText_cons, h3]
          simp [evText]
        · intro hlt
          have := h5 (fun h => hlt (List.mem_of_mem_drop h))
          rw [evsText_cons]; simp only [evText, List.mem_append, not_or]
          exact ⟨fun h => hlt (List.mem_of_mem_take h), this⟩

/-! ### the preprocessor on `<`-free text, and the two pipeline models -/

/-- on text without `<` the text-level preprocessor model is `Extract.extract`, and nothing is stashed -/
theorem extractText_ltfree (s : Str) (h : '<' ∉ s) :
    ∃ st, extractText s = some st ∧ cleanText st = Extract.extract s ∧ st.stash = [] ∧ '<' ∉ cleanText st := by
  obtain ⟨evs1, rest1, h1, hf1, hg1, hr1, hl1⟩ := go1_ltfree s (s.length + 1) s {} init (s.length + 1)
    (by omega) h (by omega)
  obtain ⟨hf2, hg2, hl2⟩ := go2_ltfree (rest1.length + 1) rest1 (rest1.length + 1) (by omega) (by omega)
  have hev : events s = some (evs1 ++ go2 (rest1.length + 1) rest1 ++ [.close []]) := by
    unfold events
    rw [h1]
    have : rest1.contains '<' = false := by simpa using hr1
    simp only [this, Bool.false_eq_true, if_false]
  have hflat : (evs1 ++ go2 (rest1.length + 1) rest1).all flatEv = true := by
    simp [List.all_append, hf1, hf2]
  have hrun : runEvents (evs1 ++ go2 (rest1.length + 1) rest1 ++ [.close []]) =
      { cleandoc := evs1.map evText ++ (go2 (rest1.length + 1) rest1).map evText } := by
    unfold runEvents
    rw [runFrom_append, run_flat _ init hflat rfl rfl]
    simp [runFrom, step, handleClose, init]
  refine ⟨_, by unfold extractText; rw [hev, Option.map_some, hrun], ?_, rfl, ?_⟩
  · have e1 : (evs1.map evText).flatten = evsText evs1 := rfl
    have e2 : ((go2 (rest1.length + 1) rest1).map evText).flatten = evsText (go2 (rest1.length + 1) rest1) := rfl
    simp only [cleanText, List.flatten_append, e1, e2, hg2]
    unfold Extract.extract
    simp only [hg1]
    simp [List.append_assoc]
  · have e1 : (evs1.map evText).flatten = evsText evs1 := rfl
    have e2 : ((go2 (rest1.length + 1) rest1).map evText).flatten = evsText (go2 (rest1.length + 1) rest1) := rfl
    simp only [cleanText, List.flatten_append, e1, e2, List.mem_append, not_or]
    exact ⟨hl1, hl2 hr1⟩

theorem normalize_ltfree (tab : Nat) (src : Str) (h : '<' ∉ src) : '<' ∉ Normalize.normalize tab src := by
  intro hm
  rcases (Normalize.mem_normalize hm).1 with h1 | h1 | h1
  · cases h1
  · cases h1
  · exact h h1

/-- **the pipeline model with the text-level preprocessor agrees with `Pipeline.convert` on every source without `<`** -/
theorem convertH_eq_convert (cfg : Pipeline.Cfg) (src : Str) (h : '<' ∉ src) :
    convertH cfg src = Pipeline.convert cfg src := by
  have hc : src.contains '<' = false := by simpa using h
  obtain ⟨st, hst, hclean, hstash, hlt⟩ := extractText_ltfree _ (normalize_ltfree cfg.tab src h)
  have hlt' : (cleanText st).contains '<' = false := by simpa using hlt
  unfold convertH Pipeline.convert prepareH
  simp only [hc, Bool.false_eq_true, if_false, hst, Option.map_some, hlt', hstash]
  split
  · rfl
  · unfold convertFrom Pipeline.tree Pipeline.prepare
    rw [hclean]
    cases Block.parseDocument cfg.tab (Extract.extract (Normalize.normalize cfg.tab src)) with
    | none => rfl
    | some rr =>
      obtain ⟨root, refs⟩ := rr
      simp only
      cases Inline.run { esc := cfg.esc, refs := refs.reverse } root [] with
      | none => rfl
      | some ts =>
        obtain ⟨t, ist⟩ := ts
        simp only
        cases TreeProc.unescapeTree (TreeProc.prettify t cfg.blockLevel) <;> rfl
end MdVerif.PipelineH
