/-
Helper lemmas for `Props/C09XCode.lean`, part 2: the tree stages of the extension pipeline between the block parser
and `prettify` do not read the text of a top-level code block.

Two roots `hdr[K]`, `hdr[K']` whose children agree except that some top-level code blocks `pre[code(t)]` of the first
are `pre[code(t')]` in the second (`All₂ (Rel t t') K K'`, any positions, any number):
1. the inline processor over the extended pattern table `InlineX.runX` makes the same steps on both (`runLoopX_rel`,
   `runX_rel`): same stack, same states, related results;
2. the footnote tree processor places the footnote `div` alike (`placeDiv_rel`) provided `t` and `t'` agree on holding
   the place marker; `FootnotePostTreeprocessor` (`duplicates_rel`) passes code blocks through;
3. `prettify` maps the two roots to the same tree when `rstrip t = rstrip t'` (`prettify_rel`).
Core Lean only.
-/
import MdVerif.Lemmas.NormalizeDocCode
import MdVerif.Lemmas.C02BigNRun
import MdVerif.Model.Ext.FootnotesTree

namespace MdVerif.C09XCode
open Py Inline InlineX InlineLocal NormDoc
set_option linter.unusedSimpArgs false
set_option linter.unusedVariables false

/-! ### the relation -/

/-- the same element, or the code block with the other text -/
def Rel (t t' : Str) (c c' : Node) : Prop := c' = c ∨ (c = cpre t ∧ c' = cpre t')

theorem Rel.refl (t t' : Str) (c : Node) : Rel t t' c c := Or.inl rfl

theorem Rel.symm {t t' : Str} {c c' : Node} (h : Rel t t' c c') : Rel t' t c' c := by
  rcases h with rfl | ⟨rfl, rfl⟩
  · exact Or.inl rfl
  · exact Or.inr ⟨rfl, rfl⟩

theorem all₂_refl (t t' : Str) (l : List Node) : All₂ (Rel t t') l l :=
  All₂.refl_of (P := fun _ => True) (fun a _ => Rel.refl t t' a) (fun _ _ => trivial)

theorem all₂_symm {t t' : Str} {l l' : List Node} (h : All₂ (Rel t t') l l') : All₂ (Rel t' t) l' l := by
  induction h with
  | nil => exact .nil
  | cons h _ ih => exact .cons h.symm ih

theorem Rel.tag {t t' : Str} {c c' : Node} (h : Rel t t' c c') : c'.tag = c.tag := by
  rcases h with rfl | ⟨rfl, rfl⟩ <;> rfl

/-! ### 1. the inline processor -/

section Lock

theorem visitChildX_leaf (xc : XCfg) (t : Str) (v : VisitX) : visitChildX xc (leaf t) v = some (leaf t, [], v) := by
  cases v
  simp [visitChildX, leaf, Node.el, Node.truthy]

theorem visitChildX_cpre (xc : XCfg) (t : Str) (v : VisitX) :
    visitChildX xc (cpre t) v = some (cpre t, [], { v with pushes := [v.done.length] :: v.pushes }) := by
  cases v
  simp [visitChildX, cpre, Node.el, Node.truthy]

/-- a visit of one child reads the record only through the number of elements done and the state -/
theorem visitChildX_spec {xc : XCfg} {child : Node} {v : VisitX} {c : Node} {tr : List Node} {v1 : VisitX}
    (h : visitChildX xc child v = some (c, tr, v1)) :
    ∃ n x', v1 = { v with pushes := newPushes v.done.length n child.children.isEmpty ++ v.pushes, x := x' } ∧
      ∀ v' : VisitX, v'.x = v.x → visitChildX xc child v' =
        some (c, tr, { v' with pushes := newPushes v'.done.length n child.children.isEmpty ++ v'.pushes, x := x' }) := by
  obtain ⟨d, pm, ps, st⟩ := v
  simp only [visitChildX] at h
  split at h
  · simp at h
  · next c1 lst st1 h1 =>
    split at h
    · simp at h
    · next c2 tr' st2 h2 =>
      simp only [Option.some.injEq, Prod.mk.injEq] at h
      obtain ⟨rfl, rfl, rfl⟩ := h
      refine ⟨lst.length, st2, ?_, ?_⟩
      · simp only [newPushes]; split <;> simp_all
      · rintro ⟨d', pm', ps', st'⟩ hst
        simp only at hst
        subst hst
        simp only [visitChildX, h1, h2]
        simp only [newPushes]; split <;> simp_all

/-- the work lists are related -/
def RelT (t t' : Str) (a a' : Node × Option Nat) : Prop := Rel t t' a.1 a'.1 ∧ a'.2 = a.2

theorem relT_withIdx {t t' : Str} {K K' : List Node} (h : All₂ (Rel t t') K K') (i : Nat) :
    All₂ (RelT t t') (withIdx K i) (withIdx K' i) := by
  induction h generalizing i with
  | nil => exact .nil
  | cons h _ ih => exact .cons ⟨h, rfl⟩ (ih (i + 1))

theorem relT_refl (t t' : Str) (l : List (Node × Option Nat)) : All₂ (RelT t t') l l :=
  All₂.refl_of (P := fun _ => True) (fun a _ => ⟨Rel.refl t t' a.1, rfl⟩) (fun _ _ => trivial)

/-- **the child loop on related work lists**: the same state, pushes and position map, related elements -/
theorem visitLoopX_rel (xc : XCfg) (t t' : Str) : ∀ (g : Nat) (todo todo' : List (Node × Option Nat))
    (v0 v0' v : VisitX), All₂ (RelT t t') todo todo' → v0'.x = v0.x → v0'.pushes = v0.pushes →
    v0'.posmap = v0.posmap → All₂ (Rel t t') v0.done v0'.done → visitLoopX xc g todo v0 = some v →
    ∃ v', visitLoopX xc g todo' v0' = some v' ∧ v'.x = v.x ∧ v'.pushes = v.pushes ∧ v'.posmap = v.posmap ∧
      All₂ (Rel t t') v.done v'.done := by
  intro g
  induction g with
  | zero => intro todo todo' v0 v0' v _ _ _ _ _ h; simp [visitLoopX] at h
  | succ g ih =>
    intro todo todo' v0 v0' v htodo hx hps hpm hd h
    cases htodo with
    | nil =>
      simp only [visitLoopX, Option.some.injEq] at h
      subst h
      exact ⟨v0', by simp [visitLoopX], hx, hps, hpm, hd⟩
    | @cons a a' todo1 todo1' ha htl =>
      obtain ⟨child, orig⟩ := a
      obtain ⟨child', orig'⟩ := a'
      obtain ⟨hrel, horig⟩ := ha
      simp only at hrel horig
      subst horig
      have hlen : v0'.done.length = v0.done.length := hd.length_eq.symm
      simp only [visitLoopX] at h ⊢
      rcases hrel with rfl | ⟨rfl, rfl⟩
      · -- the same child
        split at h
        · cases h
        · next c tr v1 hc =>
          obtain ⟨n, x', rfl, hv'⟩ := visitChildX_spec hc
          rw [hv' v0' hx]
          simp only
          refine ih _ _ _ _ v ?_ ?_ ?_ ?_ ?_ h
          · exact All₂.append (relT_refl t t' _) htl
          · rfl
          · simp [hlen, hps]
          · cases orig' <;> simp [hlen, hpm]
          · exact .cons (Rel.refl t t' c) hd
      · -- the code block
        rw [visitChildX_cpre] at h ⊢
        simp only [List.map_nil, List.nil_append] at h ⊢
        refine ih _ _ _ _ v ?_ ?_ ?_ ?_ ?_ h
        · exact htl
        · exact hx
        · simp [hlen, hps]
        · cases orig' <;> simp [hlen, hpm]
        · exact .cons (Or.inr ⟨rfl, rfl⟩) hd

/-- the child loop of a code block -/
theorem visitLoopX_cpre_kids (xc : XCfg) (g2 : Nat) (t : Str) (x : XSt) :
    visitLoopX xc g2 (withIdx (cpre t).children 0) { x := x } =
      if g2 < 2 then none else some { done := [leaf t], posmap := [(0, 0)], pushes := [], x := x } := by
  have : withIdx (cpre t).children 0 = [(leaf t, some 0)] := rfl
  rw [this]
  cases g2 with
  | zero => rfl
  | succ g2 =>
    cases g2 with
    | zero => simp [visitLoopX, visitChildX_leaf]
    | succ g2 => simp [visitLoopX, visitChildX_leaf]

/-- the child loop of its `code` element -/
theorem visitLoopX_leaf_kids (xc : XCfg) (g2 : Nat) (t : Str) (x : XSt) :
    visitLoopX xc g2 (withIdx (leaf t).children 0) { x := x } =
      if g2 < 1 then none else some { done := [], posmap := [], pushes := [], x := x } := by
  have : withIdx (leaf t).children 0 = [] := rfl
  rw [this]
  cases g2 with
  | zero => rfl
  | succ g2 => simp [visitLoopX]

/-- one turn of the stack loop at a path into a code block: nothing, or a visit that changes nothing -/
theorem cpre_turn (xc : XCfg) (g2 : Nat) (t t' : Str) (q : Path) (x : XSt) :
    (getAt (cpre t) q = none ∧ getAt (cpre t') q = none) ∨
    ∃ cur cur', getAt (cpre t) q = some cur ∧ getAt (cpre t') q = some cur' ∧
      ((visitLoopX xc g2 (withIdx cur.children 0) { x := x } = none ∧
        visitLoopX xc g2 (withIdx cur'.children 0) { x := x } = none) ∨
       ∃ v v', visitLoopX xc g2 (withIdx cur.children 0) { x := x } = some v ∧
        visitLoopX xc g2 (withIdx cur'.children 0) { x := x } = some v' ∧
        v'.x = v.x ∧ v'.pushes = v.pushes ∧ v'.posmap = v.posmap ∧ v.x = x ∧
        setAt (cpre t) q { cur with children := v.done.reverse } = cpre t ∧
        setAt (cpre t') q { cur' with children := v'.done.reverse } = cpre t') := by
  cases q with
  | nil =>
    refine Or.inr ⟨cpre t, cpre t', rfl, rfl, ?_⟩
    rw [visitLoopX_cpre_kids, visitLoopX_cpre_kids]
    by_cases hg : g2 < 2
    · exact Or.inl ⟨by simp [hg], by simp [hg]⟩
    · exact Or.inr ⟨{ done := [leaf t], posmap := [(0, 0)], pushes := [], x := x },
        { done := [leaf t'], posmap := [(0, 0)], pushes := [], x := x }, by simp [hg], by simp [hg],
        rfl, rfl, rfl, rfl, rfl, rfl⟩
  | cons k q' =>
    cases k with
    | zero =>
      cases q' with
      | nil =>
        refine Or.inr ⟨leaf t, leaf t', rfl, rfl, ?_⟩
        rw [visitLoopX_leaf_kids, visitLoopX_leaf_kids]
        by_cases hg : g2 < 1
        · exact Or.inl ⟨by simp [hg], by simp [hg]⟩
        · exact Or.inr ⟨{ done := [], posmap := [], pushes := [], x := x },
            { done := [], posmap := [], pushes := [], x := x }, by simp [hg], by simp [hg],
            rfl, rfl, rfl, rfl, rfl, rfl⟩
      | cons i q'' => exact Or.inl ⟨rfl, rfl⟩
    | succ k => exact Or.inl ⟨rfl, rfl⟩

/-- **the stack loop on related roots**: the same steps with the same fuels -/
theorem runLoopX_rel (xc : XCfg) (g2 : Nat) (hdr : Node) (t t' : Str) : ∀ (g : Nat) (K K' : List Node)
    (stack : List Path) (x : XSt) (r : Node) (s : XSt), All₂ (Rel t t') K K' →
    runLoopX xc g2 g (mk hdr K) stack x = some (r, s) →
    ∃ R R', r = mk hdr R ∧ All₂ (Rel t t') R R' ∧ runLoopX xc g2 g (mk hdr K') stack x = some (mk hdr R', s) := by
  intro g
  induction g with
  | zero => intro K K' stack x r s _ h; simp [runLoopX] at h
  | succ g ih =>
    intro K K' stack x r s hK h
    cases stack with
    | nil =>
      simp only [runLoopX, Option.some.injEq, Prod.mk.injEq] at h
      obtain ⟨rfl, rfl⟩ := h
      exact ⟨K, K', rfl, hK, by simp [runLoopX]⟩
    | cons p stack =>
      simp only [runLoopX] at h ⊢
      cases p with
      | nil =>
        -- the root itself
        simp only [getAt, mk_children] at h ⊢
        cases hv : visitLoopX xc g2 (withIdx K 0) { x := x } with
        | none => simp [hv] at h
        | some v =>
          obtain ⟨v', hv', e1, e2, e3, hd⟩ := visitLoopX_rel xc t t' g2 _ _ { x := x } { x := x } v
            (relT_withIdx hK 0) rfl rfl rfl .nil hv
          simp only [hv, hv', e1, e2, e3, setAt, with_mk] at h ⊢
          exact ih _ _ _ _ r s hd.reverse h
      | cons j q =>
        rw [getAt_cons, mk_children] at h
        rw [getAt_cons, mk_children]
        simp only [getF] at h ⊢
        cases hj : K[j]? with
        | none =>
          rw [hK.get_none hj]
          simp only [hj] at h
          exact ih K K' stack x r s hK h
        | some c =>
          obtain ⟨c', hj', hrel⟩ := hK.get_some hj
          simp only [hj, hj'] at h ⊢
          rcases hrel with rfl | ⟨rfl, rfl⟩
          · -- the same subtree
            cases hget : getAt c' q with
            | none =>
              simp only [hget] at h ⊢
              exact ih K K' stack x r s hK h
            | some cur =>
              simp only [hget] at h ⊢
              cases hv : visitLoopX xc g2 (withIdx cur.children 0) { x := x } with
              | none => simp [hv] at h
              | some v =>
                simp only [hv, setAt_cons, mk_children, mk_mk, setF, hj, hj'] at h ⊢
                exact ih _ _ _ _ r s (hK.set (Rel.refl t t' _) j) h
          · -- a code block
            rcases cpre_turn xc g2 t t' q x with ⟨h1, h2⟩ | ⟨cur, cur', h1, h2, hvis⟩
            · simp only [h1, h2] at h ⊢
              exact ih K K' stack x r s hK h
            · simp only [h1, h2] at h ⊢
              rcases hvis with ⟨hn, _⟩ | ⟨v, v', hv, hv', e1, e2, e3, e4, s1, s2⟩
              · simp [hn] at h
              · simp only [hv, hv', e1, e2, e3, setAt_cons, mk_children, mk_mk, setF, hj, hj', s1, s2] at h ⊢
                exact ih _ _ _ _ r s (hK.set (Or.inr ⟨rfl, rfl⟩) j) h

theorem sizeList_rel {t t' : Str} (hlen : t.length ≤ t'.length) {K K' : List Node} (h : All₂ (Rel t t') K K') :
    sizeList K ≤ sizeList K' := by
  induction h with
  | nil => exact Nat.le_refl _
  | cons h0 _ ih =>
    simp only [sizeList]
    rcases h0 with rfl | ⟨rfl, rfl⟩
    · omega
    · rw [size_cpre, size_cpre]; omega

/-- **`InlineProcessor.run` over the extended pattern table does not read the text of a top-level code block**: if
    it answers on the root with the shorter texts, it answers on the other root with the same states and a related
    tree -/
theorem runX_rel (xc : XCfg) (hdr : Node) (t t' : Str) (hlen : t.length ≤ t'.length) (K K' : List Node)
    (hK : All₂ (Rel t t') K K') (html : List Str) (r : Node) (s : XSt)
    (h : runX xc (mk hdr K) html = some (r, s)) :
    ∃ R R', r = mk hdr R ∧ All₂ (Rel t t') R R' ∧ runX xc (mk hdr K') html = some (mk hdr R', s) := by
  unfold runX at h ⊢
  obtain ⟨R, R', hr, hR, h'⟩ := runLoopX_rel xc _ hdr t t' _ K K' _ _ r s hK h
  refine ⟨R, R', hr, hR, ?_⟩
  have hf : runFuel (mk hdr K) ≤ runFuel (mk hdr K') := by
    have := sizeList_rel hlen hK
    simp only [runFuel, size_mk]; omega
  exact InlineN.runLoopX_mono xc hf _ _ _ _ _ _ hf h'

end Lock

/-! ### 2. the footnote tree processors -/

section Footnotes
open FootnotesTree

theorem placeNode_cpre (div : Node) (t : Str) :
    placeNode div (cpre t) =
      if hasMarker (some t) then some { Node.el "pre" with children := [div] } else none := by
  simp only [cpre, Node.el, placeNode, placeKids]
  have h1 : hasMarker (none : Option Str) = false := rfl
  by_cases hm : hasMarker (some t) = true
  · simp [hm]
  · simp [hm, h1]

/-- **`findFootnotesPlaceholder` / the insertion of the footnote `div`** on related lists of children -/
theorem placeKids_rel (div : Node) {t t' : Str} (hM : hasMarker (some t) = hasMarker (some t')) {K K' : List Node}
    (h : All₂ (Rel t t') K K') :
    (placeKids div K = none ∧ placeKids div K' = none) ∨
    ∃ R R', placeKids div K = some R ∧ placeKids div K' = some R' ∧ All₂ (Rel t t') R R' := by
  induction h with
  | nil => exact Or.inl ⟨rfl, rfl⟩
  | @cons c c' l l' h0 htl ih =>
    rcases h0 with rfl | ⟨rfl, rfl⟩
    · simp only [placeKids]
      by_cases h1 : hasMarker c'.text = true
      · exact Or.inr ⟨div :: l, div :: l', by simp [h1], by simp [h1], .cons (Rel.refl _ _ _) htl⟩
      · by_cases h2 : hasMarker c'.tail = true
        · exact Or.inr ⟨{ c' with tail := none, tailAtomic := false } :: div :: l,
            { c' with tail := none, tailAtomic := false } :: div :: l', by simp [h1, h2], by simp [h1, h2],
            .cons (Rel.refl _ _ _) (.cons (Rel.refl _ _ _) htl)⟩
        · cases h3 : placeNode div c' with
          | some c2 =>
            exact Or.inr ⟨c2 :: l, c2 :: l', by simp [h1, h2, h3], by simp [h1, h2, h3], .cons (Rel.refl _ _ _) htl⟩
          | none =>
            rcases ih with ⟨e1, e2⟩ | ⟨R, R', e1, e2, hR⟩
            · exact Or.inl ⟨by simp [h1, h2, h3, e1], by simp [h1, h2, h3, e2]⟩
            · exact Or.inr ⟨c' :: R, c' :: R', by simp [h1, h2, h3, e1], by simp [h1, h2, h3, e2],
                .cons (Rel.refl _ _ _) hR⟩
    · have h1 : hasMarker (cpre t).text = false := rfl
      have h2 : hasMarker (cpre t).tail = false := rfl
      have h1' : hasMarker (cpre t').text = false := rfl
      have h2' : hasMarker (cpre t').tail = false := rfl
      simp only [placeKids, h1, h2, h1', h2', placeNode_cpre, ← hM, Bool.false_eq_true, if_false]
      by_cases hm : hasMarker (some t) = true
      · exact Or.inr ⟨{ Node.el "pre" with children := [div] } :: l, { Node.el "pre" with children := [div] } :: l',
          by simp [hm], by simp [hm], .cons (Rel.refl _ _ _) htl⟩
      · rcases ih with ⟨e1, e2⟩ | ⟨R, R', e1, e2, hR⟩
        · exact Or.inl ⟨by simp [hm, e1], by simp [hm, e2]⟩
        · exact Or.inr ⟨cpre t :: R, cpre t' :: R', by simp [hm, e1], by simp [hm, e2], .cons (Or.inr ⟨rfl, rfl⟩) hR⟩

theorem placeNode_mk (div hdr : Node) (K : List Node) :
    placeNode div (mk hdr K) = (placeKids div K).map (mk hdr) := by
  cases hdr
  simp only [mk, placeNode]
  cases placeKids div K <;> rfl

/-- `FootnoteTreeprocessor.run` given the `div`, on related roots -/
theorem placeDiv_rel (div hdr : Node) {t t' : Str} (hM : hasMarker (some t) = hasMarker (some t')) {K K' : List Node}
    (h : All₂ (Rel t t') K K') :
    ∃ R R', placeDiv (mk hdr K) div = mk hdr R ∧ placeDiv (mk hdr K') div = mk hdr R' ∧ All₂ (Rel t t') R R' := by
  simp only [placeDiv, placeNode_mk]
  rcases placeKids_rel div hM h with ⟨e1, e2⟩ | ⟨R, R', e1, e2, hR⟩
  · refine ⟨K ++ [div], K' ++ [div], by simp [e1, Node.append, mk], by simp [e2, Node.append, mk], ?_⟩
    exact h.append (.cons (Rel.refl _ _ _) .nil)
  · exact ⟨R, R', by simp [e1], by simp [e2], hR⟩

theorem duplicates_cpre (fn : Footnotes.State) (t : Str) : duplicates fn (cpre t) = some (cpre t) := by
  have e1 : (Tag.name "pre".toList == Tag.name "div".toList) = false := by decide
  have e2 : (Tag.name "code".toList == Tag.name "div".toList) = false := by decide
  simp [cpre, Node.el, duplicates, duplicatesKids, e1, e2]

/-- `FootnotePostTreeprocessor.run` on the children: code blocks pass through -/
theorem duplicatesKids_rel (fn : Footnotes.State) {t t' : Str} {K K' : List Node} (h : All₂ (Rel t t') K K') :
    (duplicatesKids fn K = none ∧ duplicatesKids fn K' = none) ∨
    ∃ R R', duplicatesKids fn K = some R ∧ duplicatesKids fn K' = some R' ∧ All₂ (Rel t t') R R' := by
  induction h with
  | nil => exact Or.inr ⟨[], [], rfl, rfl, .nil⟩
  | @cons c c' l l' h0 htl ih =>
    simp only [duplicatesKids]
    rcases h0 with rfl | ⟨rfl, rfl⟩
    · cases h1 : duplicates fn c' with
      | none => exact Or.inl ⟨by simp, by simp⟩
      | some c2 =>
        rcases ih with ⟨e1, e2⟩ | ⟨R, R', e1, e2, hR⟩
        · exact Or.inl ⟨by simp [e1], by simp [e2]⟩
        · exact Or.inr ⟨c2 :: R, c2 :: R', by simp [e1], by simp [e2], .cons (Rel.refl _ _ _) hR⟩
    · rw [duplicates_cpre, duplicates_cpre]
      rcases ih with ⟨e1, e2⟩ | ⟨R, R', e1, e2, hR⟩
      · exact Or.inl ⟨by simp [e1], by simp [e2]⟩
      · exact Or.inr ⟨cpre t :: R, cpre t' :: R', by simp [e1], by simp [e2], .cons (Or.inr ⟨rfl, rfl⟩) hR⟩

/-- … on a root without attributes (it is not a `div.footnote` itself) -/
theorem duplicates_rel (fn : Footnotes.State) (hdr : Node) (hattrs : hdr.attrs = []) {t t' : Str} {K K' : List Node}
    (h : All₂ (Rel t t') K K') :
    (duplicates fn (mk hdr K) = none ∧ duplicates fn (mk hdr K') = none) ∨
    ∃ R R', duplicates fn (mk hdr K) = some (mk hdr R) ∧ duplicates fn (mk hdr K') = some (mk hdr R') ∧
      All₂ (Rel t t') R R' := by
  obtain ⟨tag, attrs, text, ta, ch, tail, tla⟩ := hdr
  simp only at hattrs
  subst hattrs
  have hc : ∀ x : Bool, (x && ((([] : List (Str × Str)).find? (fun kv => kv.1 = "class".toList)).map (·.2)).getD [] ==
      "footnote".toList) = false := by intro x; cases x <;> rfl
  simp only [mk, duplicates, hc, Bool.false_eq_true, if_false]
  rcases duplicatesKids_rel fn h with ⟨e1, e2⟩ | ⟨R, R', e1, e2, hR⟩
  · exact Or.inl ⟨by simp [e1], by simp [e2]⟩
  · exact Or.inr ⟨R, R', by simp [e1], by simp [e2], hR⟩

end Footnotes

/-! ### 3. `prettify` -/

section Pretty
open TreeProc

/-- the children of the root behind `_prettifyETree` and the two loops over `br` and `pre` -/
theorem kids_pretty_rel (bl : List Str) {t t' : Str} (hr : rstrip t = rstrip t') (blk : Bool) {K K' : List Node}
    (h : All₂ (Rel t t') K K') :
    mapKids preRule (mapKids brRule (if blk then prettifyKids bl K else K)) =
      mapKids preRule (mapKids brRule (if blk then prettifyKids bl K' else K')) := by
  induction h with
  | nil => rfl
  | @cons c c' l l' h0 _ ih =>
    rcases h0 with rfl | ⟨rfl, rfl⟩
    · cases blk
      · simp only [Bool.false_eq_true, if_false, mapKids] at ih ⊢; rw [ih]
      · simp only [if_true, prettifyKids, mapKids] at ih ⊢; rw [ih]
    · have e : (cpre t).tag = preTag := rfl
      have e' : (cpre t').tag = preTag := rfl
      cases blk
      · simp only [Bool.false_eq_true, if_false, mapKids] at ih ⊢
        rw [ih, ← cpreT_none t, ← cpreT_none t', mapTree_brRule_cpreT, mapTree_brRule_cpreT, mapTree_preRule_cpreT,
          mapTree_preRule_cpreT, hr]
      · simp only [if_true, prettifyKids, mapKids, e, e'] at ih ⊢
        rw [ih]
        congr 1
        split
        · rw [prettifyETree_cpre_self, prettifyETree_cpre_self, mapTree_brRule_cpreT, mapTree_brRule_cpreT,
            mapTree_preRule_cpreT, mapTree_preRule_cpreT, hr]
        · rw [← cpreT_none t, ← cpreT_none t', mapTree_brRule_cpreT, mapTree_brRule_cpreT, mapTree_preRule_cpreT,
            mapTree_preRule_cpreT, hr]

theorem headBlock_rel (bl : List Str) {t t' : Str} {K K' : List Node} (h : All₂ (Rel t t') K K') :
    (match K with | c :: _ => isBlockLevel bl c.tag | [] => false) =
      (match K' with | c :: _ => isBlockLevel bl c.tag | [] => false) := by
  cases h with
  | nil => rfl
  | cons h0 _ => simp only [h0.tag]

/-- **`prettify` removes the difference**: two roots (a `div`) whose children are related, with texts that agree up
    to trailing white space, are prettified to the same tree -/
theorem prettify_rel (bl : List Str) (hdr : Node) (hdiv : hdr.tag = .name "div".toList) {t t' : Str}
    (hr : rstrip t = rstrip t') {K K' : List Node} (h : All₂ (Rel t t') K K') :
    prettify (mk hdr K) bl = prettify (mk hdr K') bl := by
  obtain ⟨tag, attrs, text, ta, ch, tail, tla⟩ := hdr
  simp only at hdiv
  subst hdiv
  have e7 : (Tag.name "div".toList == Tag.name "br".toList) = false := by decide
  have e8 : (Tag.name "div".toList == Tag.name "pre".toList) = false := by decide
  cases h with
  | nil => rfl
  | @cons c c' l l' h0 htl =>
    simp only [prettify, mk, prettifyETree, mapTree, brRule, preRule, tagIs, e7, e8, Bool.false_eq_true, if_false]
    rw [kids_pretty_rel bl hr _ (.cons h0 htl), h0.tag]

end Pretty

end MdVerif.C09XCode
