/-
Helper lemmas for C17 (footnotes) on the tree functions of `Model/Ext/FootnotesTree.lean` and the footnote pattern of
`Model/InlineX.lean`.  Core Lean only.
-/
import MdVerif.Lemmas.TocTreeDoc
namespace MdVerif.FnTreeDoc
open MdVerif.Py MdVerif.TocTreeDoc MdVerif.PipelineX MdVerif.FootnotesTree MdVerif.InlineX

def classOf (attrs : List (Str × Str)) : Option Str := (attrs.find? (fun kv => kv.1 = "class".toList)).map (·.2)
def isA (cls : String) (p : Tag × List (Str × Str)) : Bool := p.1 == .name "a".toList && classOf p.2 == some cls.toList
def hrefsOfClass (cls : String) (l : List (Tag × List (Str × Str))) : List Str :=
  l.filterMap (fun p => if isA cls p then hrefOf p.2 else none)
def idsOfTag (tag : String) (l : List (Tag × List (Str × Str))) : List Str :=
  l.filterMap (fun p => if p.1 == .name tag.toList then idOf p.2 else none)

theorem hrefsOfClass_append (cls : String) (a b : List (Tag × List (Str × Str))) :
    hrefsOfClass cls (a ++ b) = hrefsOfClass cls a ++ hrefsOfClass cls b := by
  simp [hrefsOfClass]

theorem shapeKids_append (a b : List Node) : shapeKids (a ++ b) = shapeKids a ++ shapeKids b := by
  induction a with
  | nil => rfl
  | cons c r ih => simp [shapeKids, ih]

/-- the back-link that `makeFootnotesDiv` gives to the footnote `id`: `#fnref:ID` -/
def firstBacklink (id : Str) : Str := '#' :: (Footnotes.fnref ++ ':' :: id)

theorem backlink_shape (id : Str) (index : Nat) :
    hrefsOfClass "footnote-backref" (shape (backlink id index)) = [firstBacklink id] := rfl

theorem addBacklink_spec (li bl : Node) (li' : Node) (h : addBacklink li bl = some li') (cls : String) :
    li'.tag = li.tag ∧ li'.attrs = li.attrs ∧
    ((li.children = [] ∧ li'.children = []) ∨
     (li.children ≠ [] ∧ hrefsOfClass cls (shapeKids li'.children) =
        hrefsOfClass cls (shapeKids li.children) ++ hrefsOfClass cls (shape bl))) := by
  unfold addBacklink at h
  split at h
  · rename_i hl
    simp only [Option.some.injEq] at h
    subst h
    have : li.children = [] := by simpa [Node.last?] using hl
    exact ⟨rfl, rfl, Or.inl ⟨this, this⟩⟩
  · rename_i node hl
    have hne : li.children ≠ [] := by
      intro e; simp [Node.last?, e] at hl
    have hdec : li.children.dropLast ++ [node] = li.children := by
      have h1 : li.children.getLast? = some node := hl
      rw [List.getLast?_eq_some_getLast hne] at h1
      simp only [Option.some.injEq] at h1
      rw [← h1]; exact List.dropLast_concat_getLast hne
    split at h
    · rename_i hp
      split at h
      · rename_i t ht
        simp only [Option.some.injEq] at h
        subst h
        refine ⟨rfl, rfl, Or.inr ⟨hne, ?_⟩⟩
        simp only [Node.setLast]
        rw [shapeKids_append]
        conv => rhs; rw [← hdec, shapeKids_append]
        simp only [shapeKids, List.append_nil, hrefsOfClass_append, List.append_assoc]
        congr 1
        rw [shape_eq, shape_eq node]
        simp only [shapeKids_append, shapeKids, List.append_nil]
        rw [← List.cons_append, hrefsOfClass_append]
      · cases h
    · simp only [Option.some.injEq] at h
      subst h
      refine ⟨rfl, rfl, Or.inr ⟨hne, ?_⟩⟩
      simp only [Node.append, shapeKids_append, shapeKids, List.append_nil, el, hrefsOfClass_append]
      congr 1
      simp only [shape, shapeKids, List.append_nil]
      rfl

/-- `R a b` for the elements of two lists of the same length, position by position -/
def AllPairs {α β : Type} (R : α → β → Prop) : List α → List β → Prop
  | [], [] => True
  | a :: as, b :: bs => R a b ∧ AllPairs R as bs
  | _, _ => False

/-- one `li` of `makeFootnotesDiv` for the footnote `(id, text)`: its id is `fn:ID`; it carries the back-link
    `#fnref:ID` (after whatever the parsed text holds) exactly when the text produced at least one element -/
def LiOk (parse : Block.Refs → Str → Option (Node × Block.Refs)) (f : Str × Str) (li : Node) : Prop :=
  li.tag = .name "li".toList ∧ li.attrs = [("id".toList, Footnotes.footnoteId f.1)] ∧
  ∃ sur lg lg', parse lg f.2 = some (sur, lg') ∧
    ((sur.children = [] ∧ li.children = []) ∨
     (sur.children ≠ [] ∧ hrefsOfClass "footnote-backref" (shapeKids li.children) =
        hrefsOfClass "footnote-backref" (shapeKids sur.children) ++ [firstBacklink f.1]))

theorem makeLis_spec (parse : Block.Refs → Str → Option (Node × Block.Refs)) (fnCount : Block.Refs → Nat) :
    ∀ (fns : List (Str × Str)) (index : Nat) (log : Block.Refs) (lis : List Node) (log' : Block.Refs),
      makeLis parse fnCount fns index log = .ok (lis, log') → AllPairs (LiOk parse) fns lis := by
  intro fns
  induction fns with
  | nil =>
    intro index log lis log' h
    simp only [makeLis, R.ok.injEq, Prod.mk.injEq] at h
    rw [← h.1]; exact True.intro
  | cons f rest ih =>
    intro index log lis log' h
    obtain ⟨id, text⟩ := f
    simp only [makeLis] at h
    split at h
    · cases h
    · rename_i sur lg' hp
      split at h
      · cases h
      · split at h
        · cases h
        · rename_i li' hadd
          split at h
          · rename_i lis' log'' hrest
            simp only [R.ok.injEq, Prod.mk.injEq] at h
            rw [← h.1]
            refine ⟨?_, ih _ _ _ _ hrest⟩
            obtain ⟨h1, h2, h3⟩ := addBacklink_spec _ _ _ hadd "footnote-backref"
            refine ⟨h1, h2, sur, log, lg', hp, ?_⟩
            rcases h3 with ⟨ha, hb⟩ | ⟨ha, hb⟩
            · exact Or.inl ⟨ha, hb⟩
            · refine Or.inr ⟨ha, ?_⟩
              rw [hb, backlink_shape]
          · cases h
          · cases h

/-- `makeFootnotesDiv`: `div.footnote > hr, ol > li…`, one `li` per footnote in the order of the definitions -/
theorem makeDiv_spec (parse : Block.Refs → Str → Option (Node × Block.Refs)) (fnCount : Block.Refs → Nat)
    (fns : List (Str × Str)) (log log' : Block.Refs) (div : Node)
    (h : makeDiv parse fnCount fns log = .ok (some div, log')) :
    ∃ lis, div = { el "div" with attrs := [("class".toList, "footnote".toList)],
                                 children := [el "hr", { el "ol" with children := lis }] } ∧
      AllPairs (LiOk parse) fns lis := by
  unfold makeDiv at h
  split at h
  · cases h
  · split at h
    · rename_i lis lg hl
      simp only [R.ok.injEq, Prod.mk.injEq, Option.some.injEq] at h
      exact ⟨lis, h.1.symm, makeLis_spec parse fnCount _ _ _ _ _ hl⟩
    · cases h
    · cases h

/-! ### the footnote pattern -/

theorem fnRefScan_spec (keys : List Str) : ∀ (s : Str) (k i : Nat) (id : Str) (a b : Nat),
    fnRefScan keys k s i = some (id, a, b) → id ∈ keys := by
  intro s
  induction s with
  | nil => intro k i id a b h; cases k <;> simp [fnRefScan] at h
  | cons c r ih =>
    intro k i id a b h
    cases k with
    | succ k => simp only [fnRefScan] at h; exact ih _ _ _ _ _ h
    | zero =>
      simp only [fnRefScan] at h
      split at h
      · rename_i id' len hm
        split at h
        · rename_i hc
          simp only [Option.some.injEq, Prod.mk.injEq] at h
          rw [← h.1]
          simpa using hc
        · exact ih _ _ _ _ _ h
      · exact ih _ _ _ _ _ h

/-- the footnote pattern: a match is accepted only for a defined footnote; the element is the `sup` for the id that
    `makeFootnoteRefId(id, found=True)` hands out, and the reference bookkeeping moves on by exactly that call -/
theorem findX_footnote_spec (xc : XCfg) (data : Str) (si : Nat) (x x' : XSt) (f : Inline.Found)
    (h : findX xc .footnote data si x = some (some f, x')) :
    ∃ id, id ∈ xc.fnKeys ∧ f.node = .el (fnRefNode xc.fnKeys id (Footnotes.footnoteRefId id true x.fn).1) ∧
      x'.fn = (Footnotes.footnoteRefId id true x.fn).2 ∧ x'.st = x.st := by
  simp only [findX] at h
  split at h
  · simp at h
  · split at h
    · rename_i id s e hs
      simp only [Option.some.injEq, Prod.mk.injEq] at h
      obtain ⟨h1, h2⟩ := h
      subst h1; subst h2
      exact ⟨id, fnRefScan_spec _ _ _ _ _ _ _ hs, rfl, rfl, rfl⟩
    · simp at h

/-- the `sup` element of a reference: its id is the reference id, its link goes to `#fn:ID` -/
theorem fnRefNode_shape (keys : List Str) (id refId : Str) :
    idsOfTag "sup" (shape (fnRefNode keys id refId)) = [refId] ∧
    hrefsOfClass "footnote-ref" (shape (fnRefNode keys id refId)) = ['#' :: Footnotes.footnoteId id] := by
  constructor <;> rfl

/-! ### observations on a converted document -/

/-- the `href`s of the `a.footnote-ref` elements (the links of the references), document order -/
def refHrefs (n : Node) : List Str := hrefsOfClass "footnote-ref" (shape n)
/-- the `href`s of the `a.footnote-backref` elements (the back-links), document order -/
def backrefHrefs (n : Node) : List Str := hrefsOfClass "footnote-backref" (shape n)
/-- the ids of the `sup` elements (the references), document order -/
def supIds (n : Node) : List Str := idsOfTag "sup" (shape n)
/-- the ids of the `li` elements (the footnotes), document order -/
def liIds (n : Node) : List Str := idsOfTag "li" (shape n)

/-- every reference link is `#` + the id of an `li` of the tree -/
def refsResolve (n : Node) : Bool := (refHrefs n).all (fun h => (liIds n).any (fun i => h == '#' :: i))
/-- every back-link is `#` + the id of a `sup` of the tree -/
def backrefsResolve (n : Node) : Bool := (backrefHrefs n).all (fun h => (supIds n).any (fun i => h == '#' :: i))

/-- `(reference links, li ids, sup ids, back-links)` of the tree, `none` if `treeX` does not answer `ok` -/
def obsFn : TreeResult → Option (List Str × List Str × List Str × List Str)
  | .ok u _ => some (refHrefs u, liIds u, supIds u, backrefHrefs u)
  | _ => none

end MdVerif.FnTreeDoc
