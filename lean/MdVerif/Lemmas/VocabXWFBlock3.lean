/-
Lemmas for C05 on the extension model, block stage, part 3: **the text of the parent**.  The extended block parser
(`BlockExt.parseBlocksXT`, every `cfg`, with or without `tables`, any `tab`) does not touch the text (nor its atomic
flag) of the parent it works into, unless the parser state is `list`.

The text of the parent is written by `ParagraphProcessor.run` only (`paraP`: in state `list`, parent without a child).
Every other processor changes the children of the parent only; `textToP` is applied to an item found BELOW the parent
(`indentPX`: the last child of the sibling; `listPX`: the last item of the sibling list).  The recursive calls on the
SAME parent keep the state (`hashP`, `hrP`, first part of `quoteP` and of `admonitionP`) or push `.detabbed`
(`indentPX`).  One point needs care: `AdmonitionProcessor.run` for a continuation block (`.sib steps indent`) moves the
text of the node `steps` last-child links below the parent into a `p`; `test` only ever answers `steps ≥ 1`
(`admTest_sib_pos`: the sibling is the admonition `div` or below), so that node is never the parent itself.

Consequence (`parseChunkXT_text`, `parseDocumentXT_text`): the root of a chunk parsed in the empty state into a fresh
`div` has no text.

Core Lean only.
-/
import MdVerif.Lemmas.VocabXWFBlock2

namespace MdVerif.VocabXWF
open Py Block BlockExt

/-- the text and its atomic flag are those of `p` -/
def SameText (p r : Node) : Prop := r.text = p.text ∧ r.textAtomic = p.textAtomic

/-- unless the state is `list`, the recursive call keeps the text of the parent -/
def XStep (st : List BState) (p r : Node) : Prop := isstate st .list = false → SameText p r

def PBX (pb : PB) : Prop := ∀ st refs p blocks r refs', pb st refs p blocks = some (r, refs') → XStep st p r

theorem SameText.refl (p : Node) : SameText p p := ⟨rfl, rfl⟩

theorem SameText.trans {p q r : Node} (h1 : SameText p q) (h2 : SameText q r) : SameText p r :=
  ⟨h2.1.trans h1.1, h2.2.trans h1.2⟩

theorem SameText.append (p c : Node) : SameText p (p.append c) := ⟨rfl, rfl⟩
theorem SameText.setLast (p c : Node) : SameText p (p.setLast c) := ⟨rfl, rfl⟩

theorem XStep.of {st : List BState} {p r : Node} (h : SameText p r) : XStep st p r := fun _ => h

theorem XStep.refl (st : List BState) (p : Node) : XStep st p p := XStep.of (SameText.refl p)

theorem XStep.trans {st : List BState} {p q r : Node} (h1 : XStep st p q) (h2 : XStep st q r) : XStep st p r :=
  fun hs => (h1 hs).trans (h2 hs)

theorem XStep.then {st : List BState} {p q r : Node} (h1 : XStep st p q) (h2 : SameText q r) : XStep st p r :=
  fun hs => (h1 hs).trans h2

theorem xstep_of_some {st : List BState} {p : Node} {x : Node × Refs × List Str} {r : Node} {a : Refs}
    {b : List Str} (hx : XStep st p x.1) (h : some x = some (r, a, b)) : XStep st p r := by
  injection h with h; subst h; exact hx

/-! ### the core processors -/

theorem emptyP_x (st : List BState) (refs : Refs) (parent : Node) (b : Str) (rest : List Str) :
    XStep st parent (emptyP refs parent b rest).1 := by
  refine XStep.of ?_
  simp only [emptyP]
  cases hl : parent.last? with
  | none => exact SameText.refl _
  | some sib =>
    dsimp only
    cases hp : preCode sib with
    | none => exact SameText.refl _
    | some code => exact ⟨rfl, rfl⟩

theorem codeP_x (st : List BState) (tab : Nat) (refs : Refs) (parent : Node) (b : Str) (rest : List Str) :
    XStep st parent (codeP tab refs parent b rest).1 := by
  refine XStep.of ?_
  simp only [codeP]
  cases hl : parent.last? with
  | none => exact ⟨rfl, rfl⟩
  | some sib =>
    dsimp only
    cases hp : preCode sib with
    | none => exact ⟨rfl, rfl⟩
    | some code => exact ⟨rfl, rfl⟩

theorem hashP_x {tab : Nat} {pb : PB} (hpb : PBX pb) {state : List BState} {refs : Refs} {parent : Node} {b : Str}
    {rest : List Str} {m : Nat × Nat × Nat × Str} {r : Node} {refs' : Refs} {rest' : List Str}
    (h : hashP tab pb state refs parent b rest m = some (r, refs', rest')) : XStep state parent r := by
  obtain ⟨st, en, lv, header⟩ := m
  simp only [hashP] at h
  split at h
  · cases h
  · rename_i p1 refs1 h1
    injection h with h; injection h with h _; subst h
    have s1 : XStep state parent p1 := by
      split at h1
      · injection h1 with h1; injection h1 with h1 _; subst h1; exact XStep.refl _ _
      · exact hpb _ _ _ _ _ _ h1
    exact s1.then ⟨rfl, rfl⟩

theorem setextP_x (st : List BState) (refs : Refs) (parent : Node) (b : Str) (rest : List Str) :
    XStep st parent (setextP refs parent b rest).1 := XStep.of ⟨rfl, rfl⟩

theorem hrP_x {pb : PB} (hpb : PBX pb) {state : List BState} {refs : Refs} {parent : Node} {b : Str}
    {rest : List Str} {m : Nat × Nat} {r : Node} {refs' : Refs} {rest' : List Str}
    (h : hrP pb state refs parent b rest m = some (r, refs', rest')) : XStep state parent r := by
  obtain ⟨st, en⟩ := m
  simp only [hrP] at h
  split at h
  · cases h
  · rename_i p1 refs1 h1
    injection h with h; injection h with h _; subst h
    have s1 : XStep state parent p1 := by
      split at h1
      · injection h1 with h1; injection h1 with h1 _; subst h1; exact XStep.refl _ _
      · exact hpb _ _ _ _ _ _ h1
    exact s1.then ⟨rfl, rfl⟩

theorem referenceP_x (st : List BState) (refs : Refs) (parent : Node) (b : Str) (rest : List Str)
    (m : Nat × Nat × Str × Str × Option Str × Option Str) :
    XStep st parent (referenceP refs parent b rest m).1 := by
  obtain ⟨st', en, ident, link, t5, t6⟩ := m
  exact XStep.refl _ _

/-- `ParagraphProcessor.run`: the only place where the text of the parent is written — in state `list` -/
theorem paraP_x (state : List BState) (refs : Refs) (parent : Node) (b : Str) (rest : List Str) :
    XStep state parent (paraP state refs parent b rest).1 := by
  simp only [paraP]
  split
  · exact XStep.refl _ _
  · split
    · rename_i hst
      intro hn; rw [hst] at hn; cases hn
    · exact XStep.of ⟨rfl, rfl⟩

theorem quoteP_x {pb : PB} (hpb : PBX pb) {state : List BState} {refs : Refs} {parent : Node} {b : Str}
    {rest : List Str} {q : Nat} {r : Node} {refs' : Refs} {rest' : List Str}
    (h : quoteP pb state refs parent b rest q = some (r, refs', rest')) : XStep state parent r := by
  simp only [quoteP, parseChunk] at h
  split at h
  · cases h
  · rename_i p1 refs1 h1
    have s1 : XStep state parent p1 := hpb _ _ _ _ _ _ h1
    split at h
    · split at h
      · injection h with h; injection h with h _; subst h
        exact s1.then ⟨rfl, rfl⟩
      · cases h
    · split at h
      · injection h with h; injection h with h _; subst h
        exact s1.then ⟨rfl, rfl⟩
      · cases h

/-! ### the list processors (the recursive calls go into the items) -/

theorem listItems_x {tab : Nat} {pb : PB} (st2 : List BState) :
    ∀ (items : List Str) (refs : Refs) (lst r : Node) (refs' : Refs),
      listItems tab pb st2 refs lst items = some (r, refs') → SameText lst r
  | [], refs, lst, r, refs', h => by
    simp only [listItems] at h
    injection h with h; injection h with h _; subst h
    exact SameText.refl _
  | item :: items, refs, lst, r, refs', h => by
    simp only [listItems] at h
    split at h
    · cases hl : lst.last? with
      | none =>
        rw [hl] at h
        dsimp only at h
        exact listItems_x st2 items refs lst r refs' h
      | some l =>
        rw [hl] at h
        dsimp only at h
        split at h
        · rename_i li refs1 h1
          exact listItems_x st2 items refs1 (lst.setLast li) r refs' h
        · cases h
    · split at h
      · rename_i li refs1 h1
        exact listItems_x st2 items refs1 (lst.append li) r refs' h
      · cases h

theorem listPX_x {p : ListParams} {tab : Nat} {pb : PB} {state : List BState} {refs : Refs}
    {parent : Node} {b : Str} {rest : List Str} {tag : String} {r : Node} {refs' : Refs} {rest' : List Str}
    (h : listPX p tab pb state refs parent b rest tag = some (r, refs', rest')) : XStep state parent r := by
  refine XStep.of ?_
  simp only [listPX] at h
  split at h
  · split at h
    · cases h
    · split at h
      · injection h with h; injection h with h _; subst h
        exact ⟨rfl, rfl⟩
      · cases h
  · split at h
    · split at h
      · rename_i lstR refs2 h2
        injection h with h; injection h with h _; subst h
        exact listItems_x _ _ _ _ _ _ h2
      · cases h
    · split at h
      · injection h with h; injection h with h _; subst h
        exact ⟨rfl, rfl⟩
      · cases h

theorem listP_x {tab : Nat} {pb : PB} {state : List BState} {refs : Refs} {parent : Node} {b : Str}
    {rest : List Str} {tag : String} {r : Node} {refs' : Refs} {rest' : List Str}
    (h : listP tab pb state refs parent b rest tag = some (r, refs', rest')) : XStep state parent r := by
  rw [← listPX_default] at h
  exact listPX_x h

/-! ### `ListIndentProcessor` -/

/-- only an empty path reaches the parent itself -/
theorem updPath_text (f : Node → Node) : ∀ (k : Nat) (p : Node), (k = 0 → SameText p (f p)) →
    SameText p (updPath f k p)
  | 0, _, h => h rfl
  | k + 1, p, _ => by
    simp only [updPath]
    split
    · exact ⟨rfl, rfl⟩
    · exact SameText.refl _

theorem indentPX_x {isL isI : Node → Bool} {itemTag : String} {tab : Nat} {pb : PB} (hpb : PBX pb)
    {state : List BState} {refs : Refs} {parent : Node} {b : Str} {rest : List Str} {r : Node} {refs' : Refs}
    {rest' : List Str}
    (h : indentPX isL isI itemTag tab pb state refs parent b rest = some (r, refs', rest')) :
    XStep state parent r := by
  have hdet : isstate (state ++ [.detabbed]) .list = false := by rw [isstate_push]; rfl
  refine XStep.of ?_
  simp only [indentPX, parseChunk] at h
  generalize hk : (getLevelX isL isI tab state parent b).2 = k at h
  split at h
  · -- the parent is an item
    split at h
    · split at h
      · injection h with h; injection h with h _; subst h
        exact ⟨rfl, rfl⟩
      · cases h
    · split at h
      · rename_i p1 refs1 h1
        injection h with h; injection h with h _; subst h
        -- the same parent, in state `detabbed`
        exact hpb _ _ _ _ _ _ h1 hdet
      · cases h
  · split at h
    · -- the sibling is an item
      split at h
      · rename_i sub refs1 h1
        injection h with h; injection h with h _; subst h
        refine updPath_text _ _ _ (fun e => ?_)
        subst e
        exact hpb _ _ _ _ _ _ h1 hdet
      · cases h
    · split at h
      · split at h
        · injection h with h; injection h with h _; subst h
          exact updPath_text _ _ _ (fun _ => ⟨rfl, rfl⟩)
        · cases h
      · split at h
        · injection h with h; injection h with h _; subst h
          exact updPath_text _ _ _ (fun _ => ⟨rfl, rfl⟩)
        · cases h

theorem indentP_x {tab : Nat} {pb : PB} (hpb : PBX pb) {state : List BState} {refs : Refs} {parent : Node} {b : Str}
    {rest : List Str} {r : Node} {refs' : Refs} {rest' : List Str}
    (h : indentP tab pb state refs parent b rest = some (r, refs', rest')) : XStep state parent r := by
  rw [← indentPX_core] at h
  exact indentPX_x hpb h

/-! ### admonition -/

/-- `AdmonitionProcessor.test` never names the parent itself as the node to continue -/
theorem admTest_sib_pos {tab : Nat} {parent : Node} {b : Str} {steps indent : Nat}
    (h : admTest tab parent b = some (.sib steps indent)) : 0 < steps := by
  simp only [admTest] at h
  split at h
  · cases h
  · split at h
    · rename_i k ind hc
      injection h with h; injection h with h1 h2; subst h1
      simp only [admContent] at hc
      split at hc
      · cases hc
      · split at hc
        · split at hc
          · split at hc
            · injection hc with hc; injection hc with hc _; omega
            · cases hc
          · cases hc
        · cases hc
    · cases h

/-- `AdmonitionProcessor.run`; for a continuation block the node continued is not the parent itself (`run` moves the
    text of an `li`/`dd` it continues into a `p`) -/
theorem admonitionP_x {tab : Nat} {pb : PB} (hpb : PBX pb) {state : List BState} {refs : Refs} {parent : Node}
    {b : Str} {rest : List Str} {hit : AdmHit} (hsib : ∀ steps indent, hit = .sib steps indent → 0 < steps)
    {r : Node} {refs' : Refs} {rest' : List Str}
    (h : admonitionP tab pb state refs parent b rest hit = some (r, refs', rest')) : XStep state parent r := by
  cases hit with
  | re st en g1 g2 =>
    simp only [admonitionP, parseChunk] at h
    split at h
    · cases h
    · rename_i p1 refs1 h1
      have s1 : XStep state parent p1 := by
        split at h1
        · exact hpb _ _ _ _ _ _ h1
        · injection h1 with h1; injection h1 with h1 _; subst h1; exact XStep.refl _ _
      split at h
      · injection h with h; injection h with h _; subst h
        exact s1.then ⟨rfl, rfl⟩
      · cases h
  | sib steps indent =>
    have hpos := hsib steps indent rfl
    simp only [admonitionP, parseChunk] at h
    split at h
    · injection h with h; injection h with h _; subst h
      exact XStep.of (updPath_text _ _ _ (fun e => by omega))
    · cases h

/-! ### definition lists -/

theorem defListP_x {tab : Nat} {pb : PB} {state : List BState} {refs : Refs} {parent : Node}
    {b : Str} {rest : List Str} {m : Nat × Nat × Str} {r : Node} {refs' : Refs} {rest' : List Str}
    (h : defListP tab pb state refs parent b rest m = some (some (r, refs', rest'))) : XStep state parent r := by
  refine XStep.of ?_
  obtain ⟨st, en, g2⟩ := m
  simp only [defListP] at h
  generalize (List.filter (fun t => !List.isEmpty t) (List.map strip (lines (List.take st b)))) = terms0 at h
  split at h
  · split at h
    · cases h
    · injection h with h
      split at h
      · injection h with h; injection h with h _; subst h
        exact ⟨rfl, rfl⟩
      · cases h
  · rename_i sibling hsib
    injection h with h
    generalize hpar : (if (terms0.isEmpty && sibling.isTag "p") = true then dropLastChild parent else parent) = par
      at h
    have spar : SameText parent par := by
      rw [← hpar]; split
      · exact ⟨rfl, rfl⟩
      · exact SameText.refl _
    refine spar.trans ?_
    split at h
    · split at h
      · injection h with h; injection h with h _; subst h
        exact ⟨rfl, rfl⟩
      · cases h
    · split at h
      · injection h with h; injection h with h _; subst h
        exact ⟨rfl, rfl⟩
      · cases h

/-! ### the tail of the dispatcher -/

section tails
variable {cfg : XCfg} {tab : Nat} {pb : PB} {state : List BState} {refs : Refs} {parent : Node} {b : Str}
  {rest : List Str} {r : Node} {refs' : Refs} {rest' : List Str}

theorem tailRef_x (h : tailRef state refs parent b rest = some (r, refs', rest')) : XStep state parent r := by
  simp only [tailRef] at h
  split at h
  · exact xstep_of_some (referenceP_x _ _ _ _ _ _) h
  · exact xstep_of_some (paraP_x _ _ _ _ _) h

theorem tailAbbr_x (h : tailAbbr cfg state refs parent b rest = some (r, refs', rest')) : XStep state parent r := by
  simp only [tailAbbr] at h
  split at h
  · split at h
    · injection h with h; injection h with h _; subst h; exact XStep.refl _ _
    · cases h
    · exact tailRef_x h
  · exact tailRef_x h

theorem tailFootnote_x (h : tailFootnote cfg state refs parent b rest = some (r, refs', rest')) :
    XStep state parent r := by
  simp only [tailFootnote] at h
  split at h
  · split at h
    · injection h with h; injection h with h _; subst h; exact XStep.refl _ _
    · exact tailAbbr_x h
  · exact tailAbbr_x h

theorem tailQuote_x (hpb : PBX pb) (h : tailQuote cfg pb state refs parent b rest = some (r, refs', rest')) :
    XStep state parent r := by
  simp only [tailQuote] at h
  split at h
  · exact quoteP_x hpb h
  · exact tailFootnote_x h

theorem tailDef_x (hpb : PBX pb) (h : tailDef cfg tab pb state refs parent b rest = some (r, refs', rest')) :
    XStep state parent r := by
  simp only [tailDef] at h
  split at h
  · split at h
    · split at h
      · rename_i res hres
        subst h
        exact defListP_x hres
      · exact tailQuote_x hpb h
    · exact tailQuote_x hpb h
  · exact tailQuote_x hpb h

theorem tailList_x (hpb : PBX pb) (h : tailList cfg tab pb state refs parent b rest = some (r, refs', rest')) :
    XStep state parent r := by
  simp only [tailList] at h
  split at h
  · split at h
    · exact listPX_x h
    · exact listP_x h
  · split at h
    · split at h
      · exact listPX_x h
      · exact listP_x h
    · exact tailDef_x hpb h

end tails

/-! ### the dispatcher and the parser -/

theorem tailEmptyT_x {tables : Bool} {cfg : XCfg} {tab : Nat} {pb : PB} (hpb : PBX pb) {state : List BState}
    {refs : Refs} {parent : Node} {b : Str} {rest : List Str} {r : Node} {refs' : Refs} {rest' : List Str}
    (h : tailEmptyT tables cfg tab pb state refs parent b rest = some (r, refs', rest')) : XStep state parent r := by
  unfold tailEmptyT at h
  cases hl : parent.last? <;> rw [hl] at h <;> dsimp only at h
  all_goals
    split at h
    · exact xstep_of_some (emptyP_x _ _ _ _ _) h
    · split at h
      · exact indentP_x hpb h
      · split at h
        · exact indentPX_x hpb h
        · split at h
          · exact xstep_of_some (codeP_x _ _ _ _ _ _) h
          · split at h
            · injection h with h; injection h with h _; subst h
              exact XStep.of ⟨rfl, rfl⟩
            · split at h
              · exact hashP_x hpb h
              · split at h
                · exact xstep_of_some (setextP_x _ _ _ _ _) h
                · split at h
                  · exact hrP_x hpb h
                  · exact tailList_x hpb h

theorem dispatchXT_x {tables : Bool} {cfg : XCfg} {tab : Nat} {pb : PB} (hpb : PBX pb) {state : List BState}
    {refs : Refs} {parent : Node} {b : Str} {rest : List Str} {r : Node} {refs' : Refs} {rest' : List Str}
    (h : dispatchXT tables cfg tab pb state refs parent b rest = some (r, refs', rest')) : XStep state parent r := by
  simp only [dispatchXT] at h
  split at h
  · rename_i hit hh
    have hh' : admTest tab parent b = some hit := by
      split at hh
      · exact hh
      · cases hh
    exact admonitionP_x hpb (fun steps indent e => admTest_sib_pos (e ▸ hh')) h
  · exact tailEmptyT_x hpb h

/-- **outside state `list` the extended block parser keeps the text of the parent** (every `cfg`, every fuel) -/
theorem parseBlocksXT_PBX (tables : Bool) (cfg : XCfg) (tab : Nat) :
    ∀ fuel, PBX (parseBlocksXT tables cfg tab fuel)
  | 0 => by
    intro st refs p blocks r refs' h
    cases blocks with
    | nil => simp only [parseBlocksXT] at h; injection h with h; injection h with h _; subst h; exact XStep.refl _ _
    | cons b rest => simp [parseBlocksXT] at h
  | f + 1 => by
    have ih := parseBlocksXT_PBX tables cfg tab f
    intro st refs p blocks
    induction blocks generalizing refs p with
    | nil =>
      intro r refs' h
      simp only [parseBlocksXT] at h; injection h with h; injection h with h _; subst h; exact XStep.refl _ _
    | cons b rest _ =>
      intro r refs' h
      simp only [parseBlocksXT] at h
      split at h
      · rename_i p1 refs1 blocks1 hd
        exact (dispatchXT_x ih hd).trans (ih _ _ _ _ _ _ h)
      · cases h

/-- `parser.parseChunk(parent, text)` with the extended parser, any state and parent -/
theorem parseChunkXT_xstep (tables : Bool) (cfg : XCfg) (tab fuel : Nat) (st : List BState) (log : Refs)
    (parent : Node) (text : Str) {n : Node} {r : Refs}
    (h : parseChunk (parseBlocksXT tables cfg tab fuel) st log parent text = some (n, r)) : XStep st parent n :=
  parseBlocksXT_PBX tables cfg tab fuel _ _ _ _ _ _ h

/-- **the root of a chunk parsed (empty state) into a fresh `div` has no text** -/
theorem parseChunkXT_text (tables : Bool) (cfg : XCfg) (tab fuel : Nat) (log : Refs) (text : Str) {n : Node}
    {r : Refs} (h : parseChunk (parseBlocksXT tables cfg tab fuel) [] log (Node.el "div") text = some (n, r)) :
    n.text = none ∧ n.textAtomic = false :=
  parseChunkXT_xstep tables cfg tab fuel [] log _ text h (isstate_nil _)

/-- the document root has neither text nor tail -/
theorem parseDocumentXT_text {tables : Bool} {cfg : XCfg} {tab : Nat} {text : Str} {root : Node} {log : Refs}
    (h : parseDocumentXT tables cfg tab text = some (root, log)) : root.text = none ∧ root.tail = none :=
  ⟨(parseChunkXT_text tables cfg tab _ [] text h).1, parseChunkXT_tail_none tables cfg tab _ [] text h⟩

end MdVerif.VocabXWF
