/-
Helper lemmas for C10 on the extension model (block stage), part 3: the table processor `tableP` (cells are infixes of
their row, or of the row without its closing border pipe; `style` attributes are literals), the dispatcher below the
admonition test (`tailRef` … `tailEmptyT`), and the block stage with the admonition extension off
(`parseDocumentXT_strs_noadm`).  Core Lean only.
-/
import MdVerif.Lemmas.PlaceholdersXBlock2

namespace MdVerif.NoCtl.BlkX
open Py Block Blk BlkB

/-! ### the cells of a table row -/

section tables
variable {p q : Char → Bool} {P : Str → Prop}

theorem cut_infix : ∀ (ps : List Nat) (pos : Nat) (row : Str), ∀ cell ∈ Tables.cut pos row ps, cell <:+: row
  | [], _, row, cell, hc => by
    simp only [Tables.cut, List.mem_singleton] at hc
    subst hc; exact List.infix_refl _
  | pp :: ps, pos, row, cell, hc => by
    simp only [Tables.cut, List.mem_cons] at hc
    rcases hc with rfl | hc
    · exact (List.take_prefix _ _).isInfix
    · exact (cut_infix ps _ _ cell hc).trans (List.drop_suffix _ _).isInfix

theorem endBorderSub_p (h : StrDom p q P) {row r : Str} (hrow : P row) (he : Tables.endBorderSub row = some r) :
    P r := by
  -- `body.tail.reverse` is a prefix of `row`
  have hx : ∀ body : Str, body <:+ row.reverse → P (body.tail.reverse) := by
    intro body hb
    have h1 : body.tail <:+ row.reverse := (List.tail_suffix body).trans hb
    have h2 : body.tail.reverse <+: row := by
      have := List.reverse_prefix.2 h1
      rwa [List.reverse_reverse] at this
    exact h.inf _ _ hrow h2.isInfix
  simp only [Tables.endBorderSub] at he
  by_cases hnl : row.reverse.head? = some '\n'
  · simp only [hnl, if_true] at he
    split at he
    · split at he
      · cases he
        have := hx row.reverse.tail (List.tail_suffix _)
        have e : row.reverse.tail.tail.reverse ++ ['\n'] = row.reverse.tail.tail.reverse ++ '\n' :: [] := rfl
        rw [e]
        exact h.joinNl _ _ this h.nil
      · cases he
    · cases he
  · simp only [hnl, if_false] at he
    split at he
    · split at he
      · cases he
        simpa using hx row.reverse (List.suffix_refl _)
      · cases he
    · cases he

theorem splitRow_p (h : StrDom p q P) (border : Nat) {row : Str} (hrow : P row) :
    PL P (Tables.splitRow border row) := by
  have hsplit : ∀ r : Str, P r → PL P (Tables.split r) :=
    fun r hr cell hc => h.inf _ _ hr (cut_infix _ _ _ cell hc)
  simp only [Tables.splitRow]
  split
  · exact hsplit _ hrow
  · have h1 : P (if startsWith row ['|'] = true then row.tail else row) := by
      split
      · exact h.inf _ _ hrow (List.tail_suffix row).isInfix
      · exact hrow
    generalize (if startsWith row ['|'] = true then row.tail else row) = row1 at h1
    cases he : Tables.endBorderSub row1 with
    | none => exact hsplit _ h1
    | some r => exact hsplit _ (endBorderSub_p h h1 he)

theorem buildRow_p (h : StrDom p q P) (n border : Nat) {row : Str} (hrow : P row) :
    PL P (Tables.buildRow n row border) := by
  intro cell hc
  simp only [Tables.buildRow, List.mem_map] at hc
  obtain ⟨i, _, rfl⟩ := hc
  simp only [Tables.cellAt]
  split
  · next c hci => exact stripP_p h (splitRow_p h border hrow c (List.mem_of_getElem? hci)) _
  · exact h.nil

theorem splitC_p (h : StrDom p q P) (ch : Char) {s : Str} (hs : P s) : PL P (splitC ch s) := by
  obtain ⟨x, xs, h1, h2, h3⟩ := BlockExt.splitC_spec ch s
  rw [h1]
  intro l hl
  rcases List.mem_cons.1 hl with rfl | hl
  · exact h.inf _ _ hs h2.isInfix
  · exact h.inf _ _ hs (h3 l hl)

/-- the cell texts of the table `run` builds -/
theorem tableRun_p (h : StrDom p q P) (border : Nat) (sep : List Str) {b : Str} (hb : P b) :
    PL P (Tables.tableRun border sep b).head ∧
    ∀ row ∈ (Tables.tableRun border sep b).body, ∀ c ∈ row, ∀ t, c = some t → P t := by
  have hls := splitC_p h '\n' hb
  simp only [Tables.tableRun]
  refine ⟨buildRow_p h _ _ (stripP_p h (h.headD hls) _), ?_⟩
  intro row hrow c hc t ht
  split at hrow
  · simp only [List.mem_singleton] at hrow
    subst hrow
    rw [List.mem_replicate] at hc
    rw [hc.2] at ht; cases ht
  · simp only [List.mem_map] at hrow
    obtain ⟨r0, hr0, rfl⟩ := hrow
    simp only [List.mem_map] at hc
    obtain ⟨t', ht', hte⟩ := hc
    rw [ht] at hte
    cases hte
    exact buildRow_p h _ _ (stripP_p h (hls r0 (List.drop_subset _ _ hr0)) _) t ht'

/-! ### the element tree of a table -/

/-- elements that may be the children of an element that is not a `pre` -/
def KidsOK (p q : Char → Bool) (P : Str → Prop) (l : List Node) : Prop :=
  ∀ c ∈ l, TX p q P c ∧ c.textAtomic = false

theorem tx_parent (hnil : P []) (t : String) (ht : NoCtl t.toList ∧ Tag.name t.toList ≠ codeTag) {kids : List Node}
    (hk : KidsOK p q P kids) : TX p q P { Node.el t with children := kids } := by
  refine tx_iff.2 ⟨⟨tagNoCtl_el t ht.1, attrsC_nil, rfl, hnil, hnil, fun h' => (by cases h'), fun h' => absurd h' ht.2⟩,
    ?_⟩
  intro c hc
  exact ⟨(hk c hc).1, fun h' => by rw [(hk c hc).2] at h'; cases h'⟩

theorem lit_style : ∀ c ∈ "style".toList, litChar c = true := by decide

theorem lit_align (a : Tables.Align) :
    ∀ c ∈ "text-align: ".toList ++ BlockExt.alignName a ++ [';'], litChar c = true := by
  cases a <;> decide

theorem cellNode_tx (h : StrDomX p q P) (tag : String) (htag : NoCtl tag.toList ∧ Tag.name tag.toList ≠ codeTag)
    {text : Str} (ht : P text) (a : Option Tables.Align) :
    TX p q P (BlockExt.cellNode tag text a) ∧ (BlockExt.cellNode tag text a).textAtomic = false := by
  refine ⟨?_, rfl⟩
  unfold BlockExt.cellNode
  refine tx_fresh (txt := some text) h.nil (tagNoCtl_el tag htag.1) htag.2 ?_ ht
  cases a with
  | none => exact attrsC_nil
  | some al => exact attrsC_one (h.litC lit_style) (h.litC (lit_align al))

theorem zipCells_ok (h : StrDomX p q P) (tag : String) (htag : NoCtl tag.toList ∧ Tag.name tag.toList ≠ codeTag) :
    ∀ (ts : List Str) (as : List (Option Tables.Align)), PL P ts → KidsOK p q P (BlockExt.zipCells tag ts as)
  | [], _, _ => by intro c hc; simp [BlockExt.zipCells] at hc
  | _ :: _, [], _ => by intro c hc; simp [BlockExt.zipCells] at hc
  | t :: ts, a :: as, ht => by
    have h1 := pl_cons.1 ht
    intro c hc
    simp only [BlockExt.zipCells, List.mem_cons] at hc
    rcases hc with rfl | hc
    · exact cellNode_tx h tag htag h1.1 a
    · exact zipCells_ok h tag htag ts as h1.2 c hc

theorem bodyRow_tx (h : StrDomX p q P) (align : List (Option Tables.Align)) {cells : List (Option Str)}
    (hc : ∀ c ∈ cells, ∀ t, c = some t → P t) :
    TX p q P (BlockExt.bodyRow align cells) ∧ (BlockExt.bodyRow align cells).textAtomic = false := by
  unfold BlockExt.bodyRow
  split
  · refine ⟨tx_parent h.nil "tr" (by decide) (zipCells_ok h "td" (by decide) _ _ ?_), rfl⟩
    intro t ht
    simp only [List.mem_map] at ht
    obtain ⟨c, hcm, rfl⟩ := ht
    cases c with
    | none => exact h.nil
    | some t => exact hc _ hcm t rfl
  · refine ⟨tx_parent h.nil "tr" (by decide) ?_, rfl⟩
    intro c hcm
    simp only [List.mem_map] at hcm
    obtain ⟨_, _, rfl⟩ := hcm
    exact ⟨tx_el h.nil "td" (by decide), rfl⟩

theorem tableNode_tx (h : StrDomX p q P) {t : Tables.Table} (hh : PL P t.head)
    (hbody : ∀ row ∈ t.body, ∀ c ∈ row, ∀ s, c = some s → P s) :
    TX p q P (BlockExt.tableNode t) ∧ (BlockExt.tableNode t).textAtomic = false := by
  refine ⟨?_, rfl⟩
  unfold BlockExt.tableNode
  refine tx_parent h.nil "table" (by decide) ?_
  intro c hc
  simp only [List.mem_cons, List.not_mem_nil, or_false] at hc
  rcases hc with rfl | rfl
  · refine ⟨tx_parent h.nil "thead" (by decide) ?_, rfl⟩
    intro c hc
    simp only [List.mem_singleton] at hc
    subst hc
    exact ⟨tx_parent h.nil "tr" (by decide) (zipCells_ok h "th" (by decide) _ _ hh), rfl⟩
  · refine ⟨tx_parent h.nil "tbody" (by decide) ?_, rfl⟩
    intro c hc
    simp only [List.mem_map] at hc
    obtain ⟨row, hrow, rfl⟩ := hc
    exact bodyRow_tx h _ (hbody row hrow)

theorem tableP_x (h : StrDomX p q P) {refs : Refs} {parent : Node} {b : Str} {rest : List Str} (bs : Nat × List Str)
    (hP : TX p q P parent) (hA : parent.textAtomic = false) (hR : LogC p P refs) (hb : P b)
    (hrest : PL P rest) : ResX p q P (BlockExt.tableP refs parent b rest bs) := by
  obtain ⟨t1, t2⟩ := tableRun_p h.toStrDom bs.1 bs.2 hb
  obtain ⟨n1, n2⟩ := tableNode_tx h t1 t2
  exact ⟨hP.append n1 n2, hA, hR, hrest⟩

end tables

/-! ### the dispatcher below the admonition test -/

section dispatch
variable {p q : Char → Bool} {P : Str → Prop}

theorem tailRef_x (h : StrDomX p q P) {state : List BState} {refs : Refs} {parent : Node} {b : Str} {rest : List Str}
    (hP : TX p q P parent) (hA : parent.textAtomic = false) (hR : LogC p P refs) (hb : P b)
    (hrest : PL P rest) {r : Node × Refs × List Str}
    (hr : BlockExt.tailRef state refs parent b rest = some r) : ResX p q P r := by
  simp only [BlockExt.tailRef] at hr
  split at hr
  · next m hm => cases hr; exact referenceP_x h hP hA hR hb hrest hm
  · cases hr; exact paraP_x h.toStrDom hP hA hR hb hrest

theorem tailAbbr_x (h : StrDomX p q P) {cfg : BlockExt.XCfg} {state : List BState} {refs : Refs} {parent : Node}
    {b : Str} {rest : List Str}
    (hP : TX p q P parent) (hA : parent.textAtomic = false) (hR : LogC p P refs) (hb : P b)
    (hrest : PL P rest) {r : Node × Refs × List Str}
    (hr : BlockExt.tailAbbr cfg state refs parent b rest = some r) : ResX p q P r := by
  simp only [BlockExt.tailAbbr] at hr
  split at hr
  · split at hr
    · next refs' rest' ha =>
      cases hr
      obtain ⟨a1, a2⟩ := abbrP_x h.toStrDom hR hb hrest ha
      exact ⟨hP, hA, a1, a2⟩
    · cases hr
    · exact tailRef_x h hP hA hR hb hrest hr
  · exact tailRef_x h hP hA hR hb hrest hr

theorem tailFootnote_x (h : StrDomX p q P) {cfg : BlockExt.XCfg} {state : List BState} {refs : Refs} {parent : Node}
    {b : Str} {rest : List Str}
    (hP : TX p q P parent) (hA : parent.textAtomic = false) (hR : LogC p P refs) (hb : P b)
    (hrest : PL P rest) {r : Node × Refs × List Str}
    (hr : BlockExt.tailFootnote cfg state refs parent b rest = some r) : ResX p q P r := by
  simp only [BlockExt.tailFootnote] at hr
  split at hr
  · split at hr
    · next refs' rest' hf =>
      cases hr
      obtain ⟨a1, a2⟩ := footnoteP_x h.toStrDom hR hb hrest hf
      exact ⟨hP, hA, a1, a2⟩
    · exact tailAbbr_x h hP hA hR hb hrest hr
  · exact tailAbbr_x h hP hA hR hb hrest hr

theorem tailQuote_x (h : StrDomX p q P) {cfg : BlockExt.XCfg} {pb : PB} (hpb : PresX p q P pb) {state : List BState}
    {refs : Refs} {parent : Node} {b : Str} {rest : List Str}
    (hP : TX p q P parent) (hA : parent.textAtomic = false) (hR : LogC p P refs) (hb : P b)
    (hrest : PL P rest) {r : Node × Refs × List Str}
    (hr : BlockExt.tailQuote cfg pb state refs parent b rest = some r) : ResX p q P r := by
  simp only [BlockExt.tailQuote] at hr
  split at hr
  · exact quoteP_x h.toStrDom hpb hP hA hR hb hrest hr
  · exact tailFootnote_x h hP hA hR hb hrest hr

theorem tailDef_x (h : StrDomX p q P) {cfg : BlockExt.XCfg} {tab : Nat} {pb : PB} (hpb : PresX p q P pb)
    {state : List BState} {refs : Refs} {parent : Node} {b : Str} {rest : List Str}
    (hP : TX p q P parent) (hA : parent.textAtomic = false) (hR : LogC p P refs) (hb : P b)
    (hrest : PL P rest) {r : Node × Refs × List Str}
    (hr : BlockExt.tailDef cfg tab pb state refs parent b rest = some r) : ResX p q P r := by
  simp only [BlockExt.tailDef] at hr
  split at hr
  · split at hr
    · next m hm =>
      split at hr
      · next r' hd =>
        subst hr
        exact defListP_x h.toStrDom hpb hP hA hR hb hrest hm hd
      · exact tailQuote_x h hpb hP hA hR hb hrest hr
    · exact tailQuote_x h hpb hP hA hR hb hrest hr
  · exact tailQuote_x h hpb hP hA hR hb hrest hr

theorem tailList_x (h : StrDomX p q P) {cfg : BlockExt.XCfg} {tab : Nat} {pb : PB} (hpb : PresX p q P pb)
    {state : List BState} {refs : Refs} {parent : Node} {b : Str} {rest : List Str}
    (hP : TX p q P parent) (hA : parent.textAtomic = false) (hR : LogC p P refs) (hb : P b)
    (hrest : PL P rest) {r : Node × Refs × List Str}
    (hr : BlockExt.tailList cfg tab pb state refs parent b rest = some r) : ResX p q P r := by
  simp only [BlockExt.tailList] at hr
  split at hr
  · split at hr
    · exact listPX_x h _ hpb (by decide) (by decide) hP hA hR hb hrest hr
    · exact listP_x h hpb (by decide) (by decide) hP hA hR hb hrest hr
  · split at hr
    · split at hr
      · exact listPX_x h _ hpb (by decide) (by decide) hP hA hR hb hrest hr
      · exact listP_x h hpb (by decide) (by decide) hP hA hR hb hrest hr
    · exact tailDef_x h hpb hP hA hR hb hrest hr

theorem isListTagD_ne_code {n : Node} (h : BlockExt.isListTagD n = true) : n.tag ≠ codeTag := by
  simp only [BlockExt.isListTagD, Bool.or_eq_true, isTag_iff] at h
  rcases h with (h | h) | h <;> rw [h] <;> decide

theorem isItemTagD_ne_code {n : Node} (h : BlockExt.isItemTagD n = true) : n.tag ≠ codeTag := by
  simp only [BlockExt.isItemTagD, Bool.or_eq_true, isTag_iff] at h
  rcases h with h | h <;> rw [h] <;> decide

theorem tailEmptyT_eq (tables : Bool) (cfg : BlockExt.XCfg) (tab : Nat) (pb : PB) (state : List BState) (refs : Refs)
    (parent : Node) (b : Str) (rest : List Str) :
    BlockExt.tailEmptyT tables cfg tab pb state refs parent b rest =
    if b.isEmpty || startsWith b ['\n'] then some (emptyP refs parent b rest)
    else if indentTest tab state parent b then indentP tab pb state refs parent b rest
    else if cfg.defList && BlockExt.indentTestX BlockExt.isListTagD BlockExt.isItemTagD tab state parent b then
      BlockExt.indentPX BlockExt.isListTagD BlockExt.isItemTagD "dd" tab pb state refs parent b rest
    else if startsWith b (spaces tab) then some (codeP tab refs parent b rest)
    else
    match (if tables then Tables.tableTest b else none) with
    | some bs => some (BlockExt.tableP refs parent b rest bs)
    | none =>
    match hashSearch b with
    | some m => hashP tab pb state refs parent b rest m
    | none =>
    if setextMatch b then some (setextP refs parent b rest) else
    match hrSearch b with
    | some m => hrP pb state refs parent b rest m
    | none => BlockExt.tailList cfg tab pb state refs parent b rest := rfl

theorem tailEmptyT_x (h : StrDomX p q P) {tables : Bool} {cfg : BlockExt.XCfg} {tab : Nat} {pb : PB}
    (hpb : PresX p q P pb) {state : List BState} {refs : Refs} {parent : Node} {b : Str} {rest : List Str}
    (hP : TX p q P parent) (hA : parent.textAtomic = false) (hR : LogC p P refs) (hb : P b)
    (hrest : PL P rest) {r : Node × Refs × List Str}
    (hr : BlockExt.tailEmptyT tables cfg tab pb state refs parent b rest = some r) : ResX p q P r := by
  have hd := h.toStrDom
  rw [tailEmptyT_eq] at hr
  split at hr
  · cases hr; exact emptyP_x hd hP hA hR hb hrest
  · split at hr
    · exact indentP_x hd hpb hP hA hR hb hrest hr
    · split at hr
      · exact indentPX_x hd (fun _ => isListTagD_ne_code) (fun _ => isItemTagD_ne_code) (by decide) hpb hP hA hR hb
          hrest hr
      · split at hr
        · cases hr; exact codeP_x hd hP hA hR hb hrest
        · split at hr
          · next bs _ => cases hr; exact tableP_x h bs hP hA hR hb hrest
          · split at hr
            · next m hm => exact hashP_x hd hpb hP hA hR hb hrest hm hr
            · split at hr
              · cases hr; exact setextP_x hd hP hA hR hb hrest
              · split at hr
                · exact hrP_x hd hpb hP hA hR hb hrest hr
                · exact tailList_x h hpb hP hA hR hb hrest hr

/-- one turn of the loop, given the same for the admonition processor -/
theorem dispatchXT_x_of (h : StrDomX p q P) {tables : Bool} {cfg : BlockExt.XCfg} {tab : Nat} {pb : PB}
    (hpb : PresX p q P pb) {state : List BState} {refs : Refs} {parent : Node} {b : Str} {rest : List Str}
    (hadm : ∀ hit r, BlockExt.admTest tab parent b = some hit → cfg.admonition = true →
      BlockExt.admonitionP tab pb state refs parent b rest hit = some r → ResX p q P r)
    (hP : TX p q P parent) (hA : parent.textAtomic = false) (hR : LogC p P refs) (hb : P b)
    (hrest : PL P rest) {r : Node × Refs × List Str}
    (hr : BlockExt.dispatchXT tables cfg tab pb state refs parent b rest = some r) : ResX p q P r := by
  simp only [BlockExt.dispatchXT] at hr
  split at hr
  · next hit ht =>
    split at ht
    · next hc => exact hadm hit r ht hc hr
    · cases ht
  · exact tailEmptyT_x h hpb hP hA hR hb hrest hr

/-- the loop, given one turn -/
theorem parseBlocksXT_pres_of (tables : Bool) (cfg : BlockExt.XCfg) (tab : Nat)
    (hstep : ∀ (pb : PB), PresX p q P pb → ∀ state refs parent b rest r, TX p q P parent →
      parent.textAtomic = false → LogC p P refs → P b → PL P rest →
      BlockExt.dispatchXT tables cfg tab pb state refs parent b rest = some r → ResX p q P r) :
    ∀ f : Nat, PresX p q P (BlockExt.parseBlocksXT tables cfg tab f)
  | 0 => by
    intro state refs parent blocks r hP hA hR hB hr
    cases blocks with
    | nil => simp only [BlockExt.parseBlocksXT] at hr; cases hr; exact ⟨hP, hA, hR⟩
    | cons b rest => simp [BlockExt.parseBlocksXT] at hr
  | f + 1 => by
    intro state refs parent blocks r hP hA hR hB hr
    cases blocks with
    | nil => simp only [BlockExt.parseBlocksXT] at hr; cases hr; exact ⟨hP, hA, hR⟩
    | cons b rest =>
      have hB' := pl_cons.1 hB
      have ih := parseBlocksXT_pres_of tables cfg tab hstep f
      simp only [BlockExt.parseBlocksXT] at hr
      split at hr
      · next parent' refs' blocks' hd =>
        obtain ⟨d1, d2, d3, d4⟩ := hstep _ ih _ _ _ _ _ _ hP hA hR hB'.1 hB'.2 hd
        exact ih _ _ _ _ _ d1 d2 d3 d4 hr
      · cases hr

/-- the block stage, given the loop -/
theorem parseDocumentXT_of (h : StrDomX p q P) {tables : Bool} {xc : BlockExt.XCfg} {tab : Nat}
    (hpres : ∀ f, PresX p q P (BlockExt.parseBlocksXT tables xc tab f)) {text : Str} (hp : P text)
    {root : Node} {log : Refs} (hr : BlockExt.parseDocumentXT tables xc tab text = some (root, log)) :
    root.Forall (BNodeXP p q P) ∧ LogC p P log := by
  obtain ⟨o1, _, o3⟩ := parseChunk_x h.toStrDom (hpres _) (tx_el h.nil "div" (by decide)) rfl logC_nil hp hr
  exact ⟨forall_mono (fun _ hn => hn.1.bnodeXP h.toStrDom) root o1, o3⟩

/-- **the extended block stage with the admonition extension off** (tables, sane lists, definition lists,
    abbreviation and footnote definitions arbitrary) -/
theorem parseDocumentXT_strs_noadm (h : StrDomX p q P) (tables : Bool) (xc : BlockExt.XCfg) (hx : xc.admonition = false)
    (tab : Nat) (text : Str) (hp : P text) {root : Node} {log : Refs}
    (hr : BlockExt.parseDocumentXT tables xc tab text = some (root, log)) :
    root.Forall (BNodeXP p q P) ∧ LogC p P log := by
  refine parseDocumentXT_of h (parseBlocksXT_pres_of tables xc tab ?_) hp hr
  intro pb hpb state refs parent b rest r hP hA hR hb hrest hd
  refine dispatchXT_x_of h hpb ?_ hP hA hR hb hrest hd
  intro hit r _ hc
  rw [hx] at hc; cases hc

end dispatch

end MdVerif.NoCtl.BlkX
