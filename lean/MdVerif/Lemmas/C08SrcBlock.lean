/-
Helper lemmas for `Props/C08Src.lean`, block side: a source with a visible character (not white space, not STX/ETX) and
without `[`, `&`, `<` has a non-empty block tree.

* `mem_normalize_of_visible`: the normaliser keeps every visible character;
* `dispatch_nonempty`: one turn of the block parser's loop on a non-blank block without reference syntax, for a parent
  without children that is neither a list nor an item, outside the tight-list state: the parent gets a child, or a
  non-blank rest of the block goes back to the queue (`EmptyBlockProcessor`);
* `parseBlocks_nonempty`, `parseDocument_nonempty`: hence the tree is not empty.
Core Lean only.
-/
import MdVerif.Lemmas.BlockLocal
import MdVerif.Lemmas.BlockConserveStr
import MdVerif.Lemmas.Normalize
import MdVerif.Lemmas.PyBasic

namespace MdVerif.C08Src
open Py Block Block.Local Letters

/-! ### the normaliser keeps visible characters -/

/-- a character that `NormalizeWhitespace` and the blank tests do not touch: not white space, not STX, not ETX -/
def visible (c : Char) : Bool := !isSpace c && c != Normalize.STX && c != Normalize.ETX

/-- the source has a visible character -/
def hasVisible (s : Str) : Bool := s.any visible

theorem mem_nlAux_of_mem {c : Char} (hc : c ≠ '\r') (hn : c ≠ '\n') : ∀ (b : Bool) (s : Str), c ∈ s → c ∈ Normalize.nlAux b s
  | _, [], h => by cases h
  | b, d :: s, h => by
    simp only [Normalize.nlAux]
    rcases List.mem_cons.1 h with rfl | h
    · simp [hc, hn]
    · have ih := fun b => mem_nlAux_of_mem hc hn b s h
      split
      · exact List.mem_cons_of_mem _ (ih _)
      · split
        · split
          · exact ih _
          · exact List.mem_cons_of_mem _ (ih _)
        · exact List.mem_cons_of_mem _ (ih _)

theorem mem_wsLinesAux_of_mem {c : Char} (hs : c ≠ ' ') (hn : c ≠ '\n') :
    ∀ (st : Option Nat) (s : Str), c ∈ s → c ∈ Normalize.wsLinesAux st s
  | none, [], h => by cases h
  | some _, [], h => by cases h
  | none, d :: s, h => by
    simp only [Normalize.wsLinesAux]
    rcases List.mem_cons.1 h with rfl | h
    · simp [hn]
    · split
      · exact List.mem_cons_of_mem _ (mem_wsLinesAux_of_mem hs hn _ s h)
      · exact List.mem_cons_of_mem _ (mem_wsLinesAux_of_mem hs hn _ s h)
  | some n, d :: s, h => by
    simp only [Normalize.wsLinesAux]
    rcases List.mem_cons.1 h with rfl | h
    · simp [hs, hn]
    · split
      · exact mem_wsLinesAux_of_mem hs hn _ s h
      · split
        · exact List.mem_cons_of_mem _ (mem_wsLinesAux_of_mem hs hn _ s h)
        · exact List.mem_append_right _ (List.mem_cons_of_mem _ (mem_wsLinesAux_of_mem hs hn _ s h))

theorem mem_expandtabsAux_of_mem {c : Char} (ht : c ≠ '\t') (tab : Nat) :
    ∀ (n : Nat) (s : Str), c ∈ s → c ∈ expandtabsAux tab n s
  | _, [], h => by cases h
  | n, d :: s, h => by
    simp only [expandtabsAux]
    rcases List.mem_cons.1 h with rfl | h
    · rw [if_neg ht]; split <;> exact List.mem_cons_self
    · split
      · split
        · exact List.mem_append_right _ (mem_expandtabsAux_of_mem ht tab _ s h)
        · exact mem_expandtabsAux_of_mem ht tab _ s h
      · split <;> exact List.mem_cons_of_mem _ (mem_expandtabsAux_of_mem ht tab _ s h)

theorem visible_ne {c : Char} (h : visible c = true) :
    isSpace c = false ∧ c ≠ Normalize.STX ∧ c ≠ Normalize.ETX ∧ c ≠ ' ' ∧ c ≠ '\n' ∧ c ≠ '\t' ∧ c ≠ '\r' := by
  simp only [visible, Bool.and_eq_true, Bool.not_eq_true', bne_iff_ne, ne_eq] at h
  obtain ⟨⟨h1, h2⟩, h3⟩ := h
  refine ⟨h1, h2, h3, ?_, ?_, ?_, ?_⟩ <;> (intro e; subst e; revert h1; decide)

/-- **the normaliser keeps every visible character** -/
theorem mem_normalize_of_visible {c : Char} (hv : visible c = true) (tab : Nat) {s : Str} (h : c ∈ s) :
    c ∈ Normalize.normalize tab s := by
  obtain ⟨-, h2, h3, h4, h5, h6, h7⟩ := visible_ne hv
  rw [Normalize.normalize_eq]
  apply mem_wsLinesAux_of_mem h4 h5
  apply mem_expandtabsAux_of_mem h6
  apply List.mem_append_left
  apply mem_nlAux_of_mem h7 h5
  exact Normalize.mem_stripCtl.2 ⟨h, h2, h3⟩

theorem mem_join {c : Char} {sep : Str} : ∀ {l : List Str}, c ∈ join sep l → c ∈ sep ∨ ∃ b ∈ l, c ∈ b
  | [], h => by simp [join] at h
  | [a], h => Or.inr ⟨a, by simp, by simpa [join] using h⟩
  | a :: b :: r, h => by
    simp only [join, List.mem_append] at h
    rcases h with (h | h) | h
    · exact Or.inr ⟨a, by simp, h⟩
    · exact Or.inl h
    · rcases mem_join h with h | ⟨x, hx, hc⟩
      · exact Or.inl h
      · exact Or.inr ⟨x, List.mem_cons_of_mem _ hx, hc⟩

theorem mem_join_of_mem {c : Char} {sep : Str} {b : Str} : ∀ {l : List Str}, b ∈ l → c ∈ b → c ∈ join sep l
  | [], h, _ => by cases h
  | [a], h, hc => by
    simp only [List.mem_singleton] at h; subst h; simpa [join] using hc
  | a :: d :: r, h, hc => by
    simp only [join, List.mem_append]
    rcases List.mem_cons.1 h with rfl | h
    · exact Or.inl (Or.inl hc)
    · exact Or.inr (mem_join_of_mem h hc)

/-- a text with a visible character has a non-blank block -/
theorem exists_nonblank_block {T : Str} {c : Char} (hv : visible c = true) (h : c ∈ T) :
    ∃ b ∈ splitS nn T, isBlank b = false := by
  have hj : c ∈ join nn (splitS nn T) := by rw [join_splitS (by decide)]; exact h
  obtain ⟨h1, -, -, -, h5, -, -⟩ := visible_ne hv
  rcases mem_join hj with hn | ⟨b, hb, hc⟩
  · simp only [List.mem_cons, List.not_mem_nil, or_false, or_self] at hn; exact absurd hn h5
  · refine ⟨b, hb, ?_⟩
    simp only [isBlank, List.all_eq_false]
    exact ⟨c, hc, by simp [h1]⟩

/-! ### one turn of the loop -/

theorem indentTest_false {tab : Nat} {st : List BState} {p : Node} {b : Str} (hit : isItemTag p = false)
    (hk : p.children = []) : indentTest tab st p b = false := by
  simp [indentTest, hit, Node.last?, hk]

theorem append_children_ne' (p c : Node) : (p.append c).children ≠ [] := by simp [Node.append]
theorem setLast_children_ne (p c : Node) : (p.setLast c).children ≠ [] := by simp [Node.setLast]

/-- what a non-blank block without reference syntax does to a parent without children (not a list, not an item;
    not in the tight-list state): a child is added, or — `EmptyBlockProcessor` — the non-blank rest goes back -/
theorem dispatch_nonempty {tab : Nat} {pb : PB} {st : List BState} {refs : Refs} {p : Node} {b : Str}
    {rest : List Str} {q : Node} {r : Refs} {bs' : List Str}
    (hst : isstate st .list = false) (hit : isItemTag p = false) (hlt : isListTag p = false) (hk : p.children = [])
    (hnb : isBlank b = false) (hp : plain b = true)
    (hr : dispatch tab pb st refs p b rest = some (q, r, bs')) :
    q.children ≠ [] ∨ ∃ b' rest', bs' = b' :: rest' ∧ isBlank b' = false ∧ plain b' = true := by
  have hlast : p.last? = none := by simp [Node.last?, hk]
  rw [dispatch_eq] at hr
  unfold choose at hr
  split at hr
  · -- empty
    rename_i he
    right
    simp only [runChoice, emptyP, hlast, Option.some.injEq, Prod.mk.injEq] at hr
    obtain ⟨-, -, rfl⟩ := hr
    cases b with
    | nil => simp [isBlank] at hnb
    | cons c t =>
      have hc : c = '\n' := by simpa [startsWith] using he
      subst hc
      have hsp : isSpace '\n' = true := by decide
      have hnt : isBlank t = false := by simpa [isBlank, hsp] using hnb
      have hne : t.isEmpty = false := by cases t <;> simp_all [isBlank]
      have hpt : plain t = true := by
        simp only [plain, List.all_cons, Bool.and_eq_true] at hp; exact hp.2
      refine ⟨t, rest, by simp [hne], hnt, hpt⟩
  · rw [if_neg (by rw [indentTest_false hit hk]; simp)] at hr
    left
    unfold chooseText at hr
    split at hr
    · -- code
      simp only [runChoice, codeP, hlast, Option.some.injEq, Prod.mk.injEq] at hr
      rw [← hr.1]; exact append_children_ne' _ _
    · split at hr
      · -- hash
        rename_i m _
        obtain ⟨s, e, lv, hd⟩ := m
        simp only [runChoice, hashP] at hr
        split at hr
        · cases hr
        · simp only [Option.some.injEq, Prod.mk.injEq] at hr
          rw [← hr.1]; exact append_children_ne' _ _
      · split at hr
        · -- setext
          simp only [runChoice, setextP, Option.some.injEq, Prod.mk.injEq] at hr
          rw [← hr.1]; exact append_children_ne' _ _
        · split at hr
          · -- hr
            rename_i m _
            obtain ⟨s, e⟩ := m
            simp only [runChoice, hrP] at hr
            split at hr
            · cases hr
            · simp only [Option.some.injEq, Prod.mk.injEq] at hr
              rw [← hr.1]; exact append_children_ne' _ _
          · split at hr
            · -- ol
              simp only [runChoice, listP, hlast, hlt, Bool.false_eq_true, if_false] at hr
              split at hr
              · simp only [Option.some.injEq, Prod.mk.injEq] at hr
                rw [← hr.1]; exact append_children_ne' _ _
              · cases hr
            · split at hr
              · -- ul
                simp only [runChoice, listP, hlast, hlt, Bool.false_eq_true, if_false] at hr
                split at hr
                · simp only [Option.some.injEq, Prod.mk.injEq] at hr
                  rw [← hr.1]; exact append_children_ne' _ _
                · cases hr
              · split at hr
                · -- quote
                  simp only [runChoice, quoteP] at hr
                  split at hr
                  · cases hr
                  · split at hr
                    · split at hr
                      · simp only [Option.some.injEq, Prod.mk.injEq] at hr
                        rw [← hr.1]; exact setLast_children_ne _ _
                      · cases hr
                    · split at hr
                      · simp only [Option.some.injEq, Prod.mk.injEq] at hr
                        rw [← hr.1]; exact append_children_ne' _ _
                      · cases hr
                · split at hr
                  · -- reference: excluded
                    rename_i m hm
                    rw [refSearch_none_of_plain hp] at hm; cases hm
                  · -- paragraph
                    simp only [runChoice, paraP, hnb, hst, Bool.false_eq_true, if_false, Option.some.injEq,
                      Prod.mk.injEq] at hr
                    rw [← hr.1]; exact append_children_ne' _ _

/-! ### the loop -/

theorem tags_of_shell {p q : Node} (h : shell q = shell p) : isListTag q = isListTag p ∧ isItemTag q = isItemTag p := by
  have h1 : q.tag = p.tag := congrArg (fun n => n.tag) h
  simp only [isListTag, isItemTag, Node.isTag, h1, and_self]

/-- a block that may make the tree non-empty -/
def okBlock (b : Str) : Prop := isBlank b = false ∧ plain b = true

theorem parseBlocks_nonempty (tab : Nat) : ∀ (f : Nat) (st : List BState) (refs : Refs) (p : Node) (bs : List Str)
    (q : Node) (r : Refs), parseBlocks tab f st refs p bs = some (q, r) → isstate st .list = false →
    isItemTag p = false → isListTag p = false → (p.children ≠ [] ∨ ∃ b ∈ bs, okBlock b) → q.children ≠ [] := by
  intro f
  induction f with
  | zero =>
    intro st refs p bs q r hr _ _ _ hor
    cases bs with
    | nil =>
      simp only [parseBlocks, Option.some.injEq, Prod.mk.injEq] at hr
      rw [← hr.1]
      rcases hor with h | ⟨b, hb, _⟩
      · exact h
      · cases hb
    | cons b rest => simp [parseBlocks] at hr
  | succ f ih =>
    intro st refs p bs q r hr hst hit hlt hor
    cases bs with
    | nil =>
      simp only [parseBlocks, Option.some.injEq, Prod.mk.injEq] at hr
      rw [← hr.1]
      rcases hor with h | ⟨b, hb, _⟩
      · exact h
      · cases hb
    | cons b rest =>
      rw [parseBlocks] at hr
      split at hr
      · rename_i p' r' bs' hd
        have hg := dispatch_good (parseBlocks_good tab f) hd
        obtain ⟨hl', hi'⟩ := tags_of_shell (hg.2 hst)
        have step : ∀ h : (p'.children ≠ [] ∨ ∃ b ∈ bs', okBlock b), q.children ≠ [] :=
          fun h => ih st r' p' bs' q r hr hst (by rw [hi']; exact hit) (by rw [hl']; exact hlt) h
        by_cases hk : p.children = []
        · have hor' : ∃ b' ∈ b :: rest, okBlock b' := by
            rcases hor with h | h
            · exact absurd hk h
            · exact h
          obtain ⟨b', hb', hok⟩ := hor'
          rcases List.mem_cons.1 hb' with rfl | hin
          · rcases dispatch_nonempty hst hit hlt hk hok.1 hok.2 hd with h | ⟨b2, rest2, e, h1, h2⟩
            · exact step (Or.inl h)
            · exact step (Or.inr ⟨b2, by rw [e]; exact List.mem_cons_self, h1, h2⟩)
          · -- the block is further back in the queue: this turn leaves it there
            have hrest := dispatch_rest tab (parseBlocks tab f) st refs p b [] rest
            rw [List.nil_append, hd] at hrest
            cases hd0 : dispatch tab (parseBlocks tab f) st refs p b [] with
            | none => rw [hd0] at hrest; cases hrest
            | some x =>
              rw [hd0] at hrest
              simp only [Option.map_some, Option.some.injEq, addRest] at hrest
              have e : bs' = x.2.2 ++ rest := by simpa using congrArg (fun t => t.2.2) hrest
              exact step (Or.inr ⟨b', by rw [e]; exact List.mem_append_right _ hin, hok⟩)
        · exact step (Or.inl (hg.1 hk))
      · cases hr

/-- **a text with a visible character and without `[`, `&`, `<` has a non-empty block tree** -/
theorem parseDocument_nonempty {tab : Nat} {T : Str} (hp : plain T = true) {c : Char} (hv : visible c = true)
    (hc : c ∈ T) {rt : Node} {refs : Refs} (h : parseDocument tab T = some (rt, refs)) : rt.children ≠ [] := by
  obtain ⟨b, hb, hnb⟩ := exists_nonblank_block hv hc
  have hpb : plain b = true := by
    rw [plain_iff] at hp ⊢
    intro x hx
    apply hp
    rw [← join_splitS (sep := nn) (by decide) T]
    exact mem_join_of_mem hb hx
  exact parseBlocks_nonempty tab _ [] [] (Node.el "div") _ rt refs h (isstate_nil _) (by decide) (by decide)
    (Or.inr ⟨b, hb, hnb, hpb⟩)

/-- the same from the source: a visible character, no `[`, `&`, `<` -/
theorem tree_nonempty_of_visible {tab : Nat} {A : Str} (hv : hasVisible A = true)
    (hp : plain (Normalize.normalize tab A) = true) {rt : Node} {refs : Refs}
    (h : parseDocument tab (Normalize.normalize tab A) = some (rt, refs)) : rt.children ≠ [] := by
  simp only [hasVisible, List.any_eq_true] at hv
  obtain ⟨c, hc, hvc⟩ := hv
  exact parseDocument_nonempty hp hvc (mem_normalize_of_visible hvc tab hc) h

theorem not_blank_of_visible {A : Str} (hv : hasVisible A = true) : Normalize.isBlankDoc A = false := by
  simp only [hasVisible, List.any_eq_true] at hv
  obtain ⟨c, hc, hvc⟩ := hv
  rw [Normalize.isBlankDoc_eq_all, List.all_eq_false]
  exact ⟨c, hc, by simp [(visible_ne hvc).1]⟩

end MdVerif.C08Src
