/-
Helper lemmas for C10 (block stage): the block parser invents no characters.  Every text and tail of the block tree
is built from characters of the input, plus `' '`, `'\n'`, and — in the atomic text of `code` elements — the literals
of `code_escape` (`&amp;` `&lt;` `&gt;`) and of `'{}'.format(None)`.  Tags are literal names, attributes are never
set, only `code` elements directly under a `pre` carry an atomic text, tails are never atomic.  Reference definitions
take their url and title from the block, and none is recorded when the text has no `[`.

Structure (as in `Lemmas/BlockFuel.lean`): a hypothesis `PresPB p q pb` on the callback, one lemma per processor,
`dispatch`, then `parseBlocks` by induction on the fuel, `parseDocument`.

Core Lean only.
-/
import MdVerif.Spec.NoCtl
import MdVerif.Lemmas.PyBasic
import MdVerif.Lemmas.BlockFuel

namespace MdVerif.NoCtl.Blk
open Py Block

/-- `p`: predicate for the characters of ordinary (non-atomic) strings, `q`: for the characters of atomic (code)
    strings -/
structure CharDom (p q : Char → Bool) : Prop where
  sub : ∀ c, p c = true → q c = true
  sp : p ' ' = true
  nl : p '\n' = true
  /-- `code_escape` stays inside `q` (it inserts the literals `&amp;` `&lt;` `&gt;` — or nothing, when the string has
      none of `&`, `<`, `>`); see `CharDom.ofLits` for the instance "`q` contains the literals" -/
  esc : ∀ s : Str, (∀ c ∈ s, q c = true) → ∀ c ∈ codeEscape s, q c = true
  /-- the literal of `'{}'.format(None)` -/
  none : ∀ c ∈ "None".toList, q c = true

def AllC (p : Char → Bool) (s : Str) : Prop := ∀ c ∈ s, p c = true

/-- an element of the block tree -/
def BNode (p q : Char → Bool) (n : Node) : Prop :=
  tagNoCtl n.tag ∧ n.attrs = [] ∧ n.tailAtomic = false ∧ AllC p (n.tail.getD []) ∧
  (if n.textAtomic then AllC q (n.text.getD []) else AllC p (n.text.getD [])) ∧
  (n.textAtomic = true → n.tag = .name "code".toList) ∧
  (n.tag = .name "code".toList → n.textAtomic = true)

/-- an element with an atomic text only occurs directly under a `pre` -/
def AtomPre (n : Node) : Prop := ∀ c ∈ n.children, c.textAtomic = true → n.tag = .name "pre".toList

/-- the invariant of the block parser at one element (`BNode` alone is not preserved from an arbitrary tree:
    `ParagraphProcessor` appends to the text of the parent and `OListProcessor` moves the text of the last child of
    a list into a `p`, whatever these elements are) -/
def BInv (p q : Char → Bool) (n : Node) : Prop := BNode p q n ∧ AtomPre n

/-- url and title of every reference definition -/
def RefsC (p : Char → Bool) (refs : Block.Refs) : Prop :=
  ∀ r ∈ refs, AllC p r.2.1 ∧ AllC p (r.2.2.getD [])

/-! ### `AllC` and the string primitives -/

section strings
variable {p : Char → Bool}

theorem allC_nil : AllC p [] := by intro c hc; cases hc

theorem allC_cons {c : Char} {s : Str} : AllC p (c :: s) ↔ p c = true ∧ AllC p s := by
  simp [AllC]

theorem allC_append {a b : Str} : AllC p (a ++ b) ↔ AllC p a ∧ AllC p b := by
  simp only [AllC, List.mem_append]
  constructor
  · intro h; exact ⟨fun c hc => h c (Or.inl hc), fun c hc => h c (Or.inr hc)⟩
  · rintro ⟨h1, h2⟩ c (hc | hc)
    · exact h1 c hc
    · exact h2 c hc

theorem AllC.mono {s t : Str} (h : AllC p s) (hs : t ⊆ s) : AllC p t := fun c hc => h c (hs hc)

theorem AllC.take {s : Str} (h : AllC p s) (n : Nat) : AllC p (s.take n) := h.mono (List.take_subset _ _)
theorem AllC.drop {s : Str} (h : AllC p s) (n : Nat) : AllC p (s.drop n) := h.mono (List.drop_subset _ _)
theorem AllC.takeWhile {s : Str} (h : AllC p s) (f : Char → Bool) : AllC p (s.takeWhile f) :=
  h.mono (List.takeWhile_subset _)
theorem AllC.slice {s : Str} (h : AllC p s) (a b : Nat) : AllC p (slice s a b) := (h.drop a).take _
theorem AllC.lstripP {s : Str} (h : AllC p s) (f : Char → Bool) : AllC p (lstripP f s) :=
  h.mono (lstripP_suffix f s).subset
theorem AllC.rstripP {s : Str} (h : AllC p s) (f : Char → Bool) : AllC p (rstripP f s) :=
  h.mono (rstripP_prefix f s).subset
theorem AllC.stripP {s : Str} (h : AllC p s) (f : Char → Bool) : AllC p (stripP f s) :=
  h.mono (stripP_infix f s).subset
theorem AllC.strip {s : Str} (h : AllC p s) : AllC p (strip s) := h.stripP _
theorem AllC.lstrip {s : Str} (h : AllC p s) : AllC p (lstrip s) := h.lstripP _
theorem AllC.rstrip {s : Str} (h : AllC p s) : AllC p (rstrip s) := h.rstripP _
theorem AllC.lstripC {s : Str} (h : AllC p s) (ch : Char) : AllC p (lstripC ch s) := h.lstripP _
theorem AllC.rstripC {s : Str} (h : AllC p s) (ch : Char) : AllC p (rstripC ch s) := h.rstripP _

theorem AllC.getD {o : Option Str} : AllC p (o.getD []) ↔ ∀ s, o = some s → AllC p s := by
  cases o with
  | none => simp [allC_nil]
  | some s => simp

/-- strings of a list -/
def AllL (p : Char → Bool) (l : List Str) : Prop := ∀ s ∈ l, AllC p s

theorem allL_nil : AllL p [] := by intro s hs; cases hs

theorem allL_cons {s : Str} {l : List Str} : AllL p (s :: l) ↔ AllC p s ∧ AllL p l := by
  simp [AllL]

theorem allL_append {a b : List Str} : AllL p (a ++ b) ↔ AllL p a ∧ AllL p b := by
  simp only [AllL, List.mem_append]
  constructor
  · intro h; exact ⟨fun c hc => h c (Or.inl hc), fun c hc => h c (Or.inr hc)⟩
  · rintro ⟨h1, h2⟩ c (hc | hc)
    · exact h1 c hc
    · exact h2 c hc

theorem AllL.mono {a b : List Str} (h : AllL p a) (hs : b ⊆ a) : AllL p b := fun c hc => h c (hs hc)

theorem allC_join {sep : Str} (hsep : AllC p sep) : ∀ {l : List Str}, AllL p l → AllC p (join sep l)
  | [], _ => allC_nil
  | [a], h => by simpa using h a (by simp)
  | a :: b :: r, h => by
    rw [join_cons_cons]
    have h1 := (allL_cons.1 h)
    exact allC_append.2 ⟨allC_append.2 ⟨h1.1, hsep⟩, allC_join hsep h1.2⟩

theorem mem_join_of_mem {sep : Str} {c : Char} {s : Str} : ∀ {l : List Str}, s ∈ l → c ∈ s → c ∈ join sep l
  | [a], hs, hc => by simp at hs; subst hs; simpa using hc
  | a :: b :: r, hs, hc => by
    rw [join_cons_cons]
    rcases List.mem_cons.1 hs with rfl | hs
    · simp [hc]
    · have := mem_join_of_mem (sep := sep) hs hc
      simp [this]

theorem allL_of_join {sep : Str} {l : List Str} (h : AllC p (join sep l)) : AllL p l :=
  fun _ hs c hc => h c (mem_join_of_mem hs hc)

theorem AllC.nlStr (hnl : p '\n' = true) : AllC p ['\n'] := by simp [AllC, hnl]

theorem allC_joinLines (hnl : p '\n' = true) {l : List Str} (h : AllL p l) : AllC p (joinLines l) :=
  allC_join (AllC.nlStr hnl) h

theorem AllC.lines {s : Str} (h : AllC p s) : AllL p (lines s) := by
  apply allL_of_join (sep := ['\n'])
  have := lines_joinLines s
  simp only [joinLines] at this
  rw [this]; exact h

theorem AllC.splitS {s : Str} (h : AllC p s) {sep : Str} (hsep : sep ≠ []) : AllL p (splitS sep s) := by
  apply allL_of_join (sep := sep)
  rw [join_splitS hsep]; exact h

theorem allL_getD {l : List Str} (h : AllL p l) (i : Nat) : AllC p (l.getD i []) := by
  rw [List.getD_eq_getElem?_getD]
  cases hx : l[i]? with
  | none => exact allC_nil
  | some s => exact h s (List.mem_of_getElem? hx)

theorem allL_headD {l : List Str} (h : AllL p l) : AllC p (l.headD []) := by
  cases l with
  | nil => exact allC_nil
  | cons a r => exact h a (by simp)

theorem allL_map {l : List Str} (h : AllL p l) {f : Str → Str} (hf : ∀ s, AllC p s → AllC p (f s)) :
    AllL p (l.map f) := by
  intro s hs
  obtain ⟨a, ha, rfl⟩ := List.mem_map.1 hs
  exact hf a (h a ha)

theorem allL_detabLines (n : Nat) : ∀ {l : List Str}, AllL p l →
    AllL p (detabLines n l).1 ∧ AllL p (detabLines n l).2
  | [], _ => by simp [detabLines, allL_nil]
  | line :: r, h => by
    have h1 := allL_cons.1 h
    have ih := allL_detabLines n h1.2
    simp only [detabLines]
    split
    · exact ⟨allL_cons.2 ⟨h1.1.drop _, ih.1⟩, ih.2⟩
    · split
      · exact ⟨allL_cons.2 ⟨allC_nil, ih.1⟩, ih.2⟩
      · exact ⟨allL_nil, h⟩

theorem allC_detab (hnl : p '\n' = true) (n : Nat) {s : Str} (h : AllC p s) :
    AllC p (detab n s).1 ∧ AllC p (detab n s).2 := by
  have := allL_detabLines n h.lines
  simp only [detab]
  exact ⟨allC_joinLines hnl this.1, allC_joinLines hnl this.2⟩

theorem allC_looseDetab (hnl : p '\n' = true) (tab : Nat) {s : Str} (h : AllC p s) (level : Nat) :
    AllC p (looseDetab tab s level) := by
  simp only [looseDetab]
  apply allC_joinLines hnl
  apply allL_map h.lines
  intro l hl
  split
  · exact hl.drop _
  · exact hl

theorem allC_replaceAux {pat b : Str} (hb : AllC p b) : ∀ (k : Nat) {s : Str}, AllC p s → AllC p (replaceAux pat b k s)
  | _, [], _ => by simp [allC_nil]
  | k + 1, c :: s, h => by
    rw [replaceAux_succ_cons]; exact allC_replaceAux hb k (allC_cons.1 h).2
  | 0, c :: s, h => by
    rw [replaceAux_zero_cons]
    split
    · exact allC_append.2 ⟨hb, allC_replaceAux hb _ (allC_cons.1 h).2⟩
    · exact allC_cons.2 ⟨(allC_cons.1 h).1, allC_replaceAux hb _ (allC_cons.1 h).2⟩

theorem allC_replace {s pat b : Str} (h : AllC p s) (hb : AllC p b) : AllC p (replace s pat b) := by
  simp only [replace]
  split
  · exact h
  · exact allC_replaceAux hb 0 h

end strings

/-! ### recognisers -/

section recognisers
variable {p : Char → Bool}

theorem hashHeader_sub : ∀ (f : Nat) {s h : Str} {n : Nat}, hashHeader f s = some (h, n) → h ⊆ s
  | 0, _, _, _, hh => by simp [hashHeader] at hh
  | f + 1, s, h, n, hh => by
    simp only [hashHeader] at hh
    split at hh
    · cases hh; exact List.nil_subset _
    · split at hh
      · cases hh
      · next c r =>
        split at hh
        · split at hh
          · next d r' =>
            split at hh
            · cases hh
            · split at hh
              · next h' n' hr =>
                cases hh
                have := hashHeader_sub f hr
                intro x hx
                simp only [List.mem_cons] at hx ⊢
                rcases hx with hx | hx | hx
                · exact Or.inl hx
                · exact Or.inr (Or.inl hx)
                · exact Or.inr (Or.inr (this hx))
              · cases hh
          · cases hh
        · split at hh
          · next h' n' hr =>
            cases hh
            have := hashHeader_sub f hr
            intro x hx
            simp only [List.mem_cons] at hx ⊢
            rcases hx with hx | hx
            · exact Or.inl hx
            · exact Or.inr (this hx)
          · cases hh

theorem hashAt_sub {s : Str} {lv n : Nat} {hd : Str} (h : hashAt s = some (lv, hd, n)) : hd ⊆ s := by
  obtain ⟨x, _, _, h3⟩ := firstDown_some h
  split at h3
  · next hd' n' hh =>
    cases h3
    exact fun c hc => List.drop_subset _ _ (hashHeader_sub _ hh hc)
  · cases h3

theorem hashSearchNl_sub {i : Nat} {s : Str} {st en lv : Nat} {hd : Str}
    (h : hashSearchNl i s = some (st, en, lv, hd)) : hd ⊆ s := by
  induction s generalizing i with
  | nil => simp [hashSearchNl] at h
  | cons c s ih =>
    simp only [hashSearchNl] at h
    split at h
    · split at h
      · next hh => cases h; exact fun x hx => List.mem_cons_of_mem _ (hashAt_sub hh hx)
      · exact fun x hx => List.mem_cons_of_mem _ (ih h hx)
    · exact fun x hx => List.mem_cons_of_mem _ (ih h hx)

theorem hashSearch_sub {b : Str} {st en lv : Nat} {hd : Str} (h : hashSearch b = some (st, en, lv, hd)) :
    hd ⊆ b := by
  simp only [hashSearch] at h
  split at h
  · next hh => cases h; exact hashAt_sub hh
  · exact hashSearchNl_sub h

theorem olMarker_sub {s m r : Str} (h : olMarker s = some (m, r)) : r ⊆ s := by
  simp only [olMarker] at h
  split at h
  · cases h; exact List.drop_subset _ _
  · cases h

theorem ulMarker_sub {s m r : Str} (h : ulMarker s = some (m, r)) : r ⊆ s := by
  cases s with
  | nil => simp [ulMarker] at h
  | cons c t =>
    simp only [ulMarker] at h
    split at h
    · cases h; exact List.subset_cons_self _ _
    · cases h

theorem listItemMatch_sub {tab : Nat} {ol ul : Bool} {s m c : Str} (h : listItemMatch tab ol ul s = some (m, c)) :
    c ⊆ s := by
  rw [listItemMatch_eq] at h
  split at h
  · cases h
  · next marker r hm =>
    have hr : r ⊆ s := by
      have h0 : afterSp (some (tab - 1)) s ⊆ s := List.drop_subset _ _
      split at hm
      · next m' hm' =>
        cases hm
        split at hm'
        · exact fun x hx => h0 (olMarker_sub hm' hx)
        · cases hm'
      · split at hm
        · exact fun x hx => h0 (ulMarker_sub hm hx)
        · cases hm
    split at h
    · cases h
    · cases h
      exact fun x hx => hr (List.drop_subset _ _ (List.takeWhile_subset _ hx))

theorem allL_modifyLast {f : Str → Str} {items : List Str} (h : AllL p items) (hf : ∀ s, AllC p s → AllC p (f s)) :
    AllL p (modifyLast f items) := by
  simp only [modifyLast]
  split
  · next l hl =>
    exact allL_append.2 ⟨h.mono (List.dropLast_subset _),
      allL_cons.2 ⟨hf l (h l (List.mem_of_getLast? hl)), allL_nil⟩⟩
  · exact h

theorem allL_getItemsStep (hnl : p '\n' = true) (tab : Nat) {items : List Str} {line : Str} (h : AllL p items)
    (hl : AllC p line) : AllL p (getItemsStep tab items line) := by
  have hone : ∀ x : Str, AllC p x → AllL p (items ++ [x]) :=
    fun x hx => allL_append.2 ⟨h, allL_cons.2 ⟨hx, allL_nil⟩⟩
  have hmod : AllL p (modifyLast (fun l => l ++ '\n' :: line) items) :=
    allL_modifyLast h (fun s hs => allC_append.2 ⟨hs, allC_cons.2 ⟨hnl, hl⟩⟩)
  simp only [getItemsStep]
  split
  · next m content hm => exact hone _ (hl.mono (listItemMatch_sub hm))
  · split
    · split
      · split
        · exact hmod
        · exact hone _ hl
      · exact hone _ hl
    · exact hmod

theorem allL_foldl_getItemsStep (hnl : p '\n' = true) (tab : Nat) : ∀ (ls : List Str) {items : List Str},
    AllL p ls → AllL p items → AllL p (ls.foldl (getItemsStep tab) items)
  | [], _, _, h => h
  | l :: t, items, hls, h => by
    have h1 := allL_cons.1 hls
    exact allL_foldl_getItemsStep hnl tab t h1.2 (allL_getItemsStep hnl tab h h1.1)

theorem allL_getItems (hnl : p '\n' = true) (tab : Nat) {b : Str} (h : AllC p b) : AllL p (getItems tab b) :=
  allL_foldl_getItemsStep hnl tab _ h.lines allL_nil

theorem quoteLine_sub {s g : Str} (h : quoteLine s = some g) : g ⊆ s := by
  rw [quoteLine_eq] at h
  have h0 : afterSp (some 3) s ⊆ s := List.drop_subset _ _
  split at h
  · next c r hr =>
    rw [hr] at h0
    split at h
    · cases h
      have hr' : r ⊆ s := fun x hx => h0 (List.mem_cons_of_mem _ hx)
      split
      · next d r' =>
        split
        · exact fun x hx => hr' (List.mem_cons_of_mem _ (List.takeWhile_subset _ hx))
        · exact fun x hx => hr' (List.takeWhile_subset _ hx)
      · exact fun x hx => hr' (List.takeWhile_subset _ hx)
    · cases h
  · cases h

theorem quoteClean_sub (l : Str) : quoteClean l ⊆ l := by
  simp only [quoteClean]
  split
  · exact List.nil_subset _
  · simp only [quoteMatch]
    split
    · next g hg =>
      split at hg
      · next g' hg' => cases hg; exact quoteLine_sub hg'
      · split at hg
        · split at hg
          · exact fun x hx => List.mem_cons_of_mem _ (quoteLine_sub hg hx)
          · cases hg
        · cases hg
    · exact fun _ hx => hx

theorem allC_quoteBlock (hnl : p '\n' = true) {s : Str} (h : AllC p s) :
    AllC p (joinLines ((lines s).map quoteClean)) :=
  allC_joinLines hnl (allL_map h.lines (fun l hl => hl.mono (quoteClean_sub l)))

/-! reference definitions -/

theorem refDelimited_sub {s : Str} {b2 : Nat} {close : Char} {e : Nat} {t : Str}
    (h : refDelimited s b2 close = some (e, t)) : t ⊆ s := by
  simp only [refDelimited] at h
  obtain ⟨c, _, _, hc3⟩ := firstDown_some h
  split at hc3
  · obtain ⟨d2, _, _, hd3⟩ := firstDown_some hc3
    split at hd3
    · cases hd3
      exact fun x hx => List.drop_subset _ _ (List.take_subset _ _ hx)
    · cases hd3
  · cases hc3

theorem refTitleAt_sub {s : Str} {b2 e : Nat} {t5 t6 : Option Str}
    (h : refTitleAt s b2 = some (e, t5, t6)) : t5.getD [] ⊆ s ∧ t6.getD [] ⊆ s := by
  simp only [refTitleAt] at h
  split at h
  · next e' t hq =>
    cases h
    split at hq
    · split at hq
      · exact ⟨refDelimited_sub hq, List.nil_subset _⟩
      · cases hq
    · cases hq
  · split at h
    · next e' t hp =>
      cases h
      split at hp
      · exact ⟨List.nil_subset _, refDelimited_sub hp⟩
      · cases hp
    · split at h
      · cases h; exact ⟨List.nil_subset _, List.nil_subset _⟩
      · cases h

theorem refTail_sub {s : Str} {q e : Nat} {t5 t6 : Option Str}
    (h : refTail s q = some (e, t5, t6)) : t5.getD [] ⊆ s ∧ t6.getD [] ⊆ s := by
  simp only [refTail] at h
  obtain ⟨a2, _, _, ha3⟩ := firstDown_some h
  obtain ⟨b2, _, hb2⟩ := List.exists_of_findSome?_eq_some ha3
  exact refTitleAt_sub hb2

theorem refMatchAt_sub {s : Str} {p0 e : Nat} {ident url : Str} {t5 t6 : Option Str}
    (h : refMatchAt s p0 = some (e, ident, url, t5, t6)) :
    '[' ∈ s ∧ url ⊆ s ∧ t5.getD [] ⊆ s ∧ t6.getD [] ⊆ s := by
  unfold refMatchAt at h
  simp only [] at h
  split at h
  · cases h
  · next h1 =>
    have hbr : '[' ∈ s := by
      cases hx : s[p0 + countPrefix ' ' (some 3) (List.drop p0 s)]? with
      | none => simp [hx] at h1
      | some c =>
        simp [hx] at h1
        subst h1
        exact List.mem_of_getElem? hx
    split at h
    · cases h
    · split at h
      · cases h
      · obtain ⟨k2, _, _, hk3⟩ := firstDown_some h
        obtain ⟨u0, _, hu2⟩ := List.exists_of_findSome?_eq_some hk3
        obtain ⟨u2, _, _, hv3⟩ := firstDown_some hu2
        split at hv3
        · next e' t5' t6' ht =>
          cases hv3
          have := refTail_sub ht
          exact ⟨hbr, fun x hx => List.drop_subset _ _ (List.take_subset _ _ hx), this.1, this.2⟩
        · cases hv3

theorem refSearch_sub {s : Str} {st en : Nat} {ident url : Str} {t5 t6 : Option Str}
    (h : refSearch s = some (st, en, ident, url, t5, t6)) :
    '[' ∈ s ∧ url ⊆ s ∧ t5.getD [] ⊆ s ∧ t6.getD [] ⊆ s := by
  simp only [refSearch] at h
  obtain ⟨p0, _, hp⟩ := List.exists_of_findSome?_eq_some h
  split at hp
  · next hm => cases hp; exact refMatchAt_sub hm
  · cases hp

/-! code text -/

theorem allC_codeEscape {q : Char → Bool} (hl : ∀ c ∈ "&amp;ltgNone".toList, q c = true) {s : Str}
    (h : AllC q s) : AllC q (codeEscape s) := by
  have h1 : AllC q "&amp;".toList := fun c hc => hl c (by revert hc; revert c; decide)
  have h2 : AllC q "&lt;".toList := fun c hc => hl c (by revert hc; revert c; decide)
  have h3 : AllC q "&gt;".toList := fun c hc => hl c (by revert hc; revert c; decide)
  exact allC_replace (allC_replace (allC_replace h h1) h2) h3

theorem allC_fmtOpt {q : Char → Bool} (hl : ∀ c ∈ "None".toList, q c = true) {o : Option Str}
    (h : AllC q (o.getD [])) : AllC q (fmtOpt o) := by
  cases o with
  | none => exact fun c hc => hl c (by simpa only [fmtOpt] using hc)
  | some s => exact h

/-- the usual instance: `q` contains the literals of `code_escape` and of `'{}'.format(None)` -/
theorem CharDom.ofLits {p q : Char → Bool} (sub : ∀ c, p c = true → q c = true) (sp : p ' ' = true)
    (nl : p '\n' = true) (lits : ∀ c ∈ "&amp;ltgNone".toList, q c = true) : CharDom p q :=
  ⟨sub, sp, nl, fun _ h => allC_codeEscape lits h, fun c hc => lits c (by revert hc; revert c; decide)⟩

theorem fmtOpt_truthy {o : Option Str} (h : Node.truthy o = true) : fmtOpt o = o.getD [] := by
  cases o with
  | none => simp [Node.truthy] at h
  | some s => rfl

end recognisers

/-! ### trees -/

section trees

theorem forallL_iff {P : Node → Prop} : ∀ l : List Node, Node.ForallL P l ↔ ∀ c ∈ l, c.Forall P
  | [] => by simp [Node.ForallL]
  | c :: r => by simp [Node.ForallL, forallL_iff r]

theorem forall_iff {P : Node → Prop} (n : Node) : n.Forall P ↔ P n ∧ ∀ c ∈ n.children, c.Forall P := by
  cases n; simp [Node.Forall, forallL_iff]

mutual
theorem forall_mono {P Q : Node → Prop} (h : ∀ n, P n → Q n) : ∀ n : Node, n.Forall P → n.Forall Q
  | ⟨_, _, _, _, children, _, _⟩, hn => by
    simp only [Node.Forall] at hn ⊢
    exact ⟨h _ hn.1, forallL_mono h children hn.2⟩
theorem forallL_mono {P Q : Node → Prop} (h : ∀ n, P n → Q n) : ∀ l : List Node, Node.ForallL P l → Node.ForallL Q l
  | [], _ => by simp [Node.ForallL]
  | c :: r, hl => by
    simp only [Node.ForallL] at hl ⊢
    exact ⟨forall_mono h c hl.1, forallL_mono h r hl.2⟩
end

variable {p q : Char → Bool}

/-- the invariant of the block parser on a tree -/
def TInv (p q : Char → Bool) (n : Node) : Prop := n.Forall (BInv p q)

abbrev preTag : Tag := .name "pre".toList

theorem tinv_iff {n : Node} : TInv p q n ↔
    BNode p q n ∧ ∀ c ∈ n.children, TInv p q c ∧ (c.textAtomic = true → n.tag = preTag) := by
  simp only [TInv, forall_iff n, BInv, AtomPre]
  constructor
  · rintro ⟨⟨h1, h2⟩, h3⟩; exact ⟨h1, fun c hc => ⟨h3 c hc, h2 c hc⟩⟩
  · rintro ⟨h1, h2⟩; exact ⟨⟨h1, fun c hc => (h2 c hc).2⟩, fun c hc => (h2 c hc).1⟩

theorem TInv.bnode {n : Node} (h : TInv p q n) : BNode p q n := (tinv_iff.1 h).1

theorem TInv.child {n c : Node} (h : TInv p q n) (hc : c ∈ n.children) :
    TInv p q c ∧ (c.textAtomic = true → n.tag = preTag) := (tinv_iff.1 h).2 c hc

theorem TInv.last {n c : Node} (h : TInv p q n) (hl : n.last? = some c) :
    TInv p q c ∧ (c.textAtomic = true → n.tag = preTag) := h.child (List.mem_of_getLast? hl)

/-- same tag and children, other fields changed -/
theorem TInv.congr {n n' : Node} (h : TInv p q n) (hch : n'.children = n.children) (ht : n'.tag = n.tag)
    (hb : BNode p q n') : TInv p q n' := by
  refine tinv_iff.2 ⟨hb, ?_⟩
  rw [hch, ht]; exact (tinv_iff.1 h).2

theorem tinv_leaf {n : Node} (hb : BNode p q n) (hc : n.children = []) : TInv p q n := by
  refine tinv_iff.2 ⟨hb, ?_⟩
  rw [hc]; intro c hc; cases hc

theorem TInv.append {n c : Node} (h : TInv p q n) (hc : TInv p q c) (ha : c.textAtomic = false) :
    TInv p q (n.append c) := by
  refine tinv_iff.2 ⟨h.bnode, ?_⟩
  intro d hd
  simp only [Node.append, List.mem_append, List.mem_singleton] at hd
  rcases hd with hd | rfl
  · exact h.child hd
  · exact ⟨hc, fun h' => by simp [ha] at h'⟩

theorem TInv.setLast {n c : Node} (h : TInv p q n) (hc : TInv p q c) (ha : c.textAtomic = true → n.tag = preTag) :
    TInv p q (n.setLast c) := by
  refine tinv_iff.2 ⟨h.bnode, ?_⟩
  intro d hd
  simp only [Node.setLast, List.mem_append, List.mem_singleton] at hd
  rcases hd with hd | rfl
  · exact h.child (List.dropLast_subset _ hd)
  · exact ⟨hc, ha⟩

@[simp] theorem append_textAtomic (n c : Node) : (n.append c).textAtomic = n.textAtomic := rfl
@[simp] theorem setLast_textAtomic (n c : Node) : (n.setLast c).textAtomic = n.textAtomic := rfl
@[simp] theorem append_tag (n c : Node) : (n.append c).tag = n.tag := rfl
@[simp] theorem setLast_tag (n c : Node) : (n.setLast c).tag = n.tag := rfl

theorem isTag_iff {n : Node} {t : String} : n.isTag t = true ↔ n.tag = .name t.toList := by
  simp [Node.isTag]

/-- an element whose tag is not `code` has no atomic text -/
theorem BNode.notAtomic {n : Node} (h : BNode p q n) (ht : n.tag ≠ .name "code".toList) : n.textAtomic = false := by
  cases hx : n.textAtomic with
  | false => rfl
  | true => exact absurd (h.2.2.2.2.2.1 hx) ht

theorem isListTag_tag {n : Node} (h : isListTag n = true) : n.tag = .name "ul".toList ∨ n.tag = .name "ol".toList := by
  simpa [isListTag, isTag_iff] using h

theorem isListTag_notAtomic {n : Node} (hb : BNode p q n) (h : isListTag n = true) : n.textAtomic = false := by
  apply hb.notAtomic
  rcases isListTag_tag h with h | h <;> rw [h] <;> decide

theorem isListTag_notPre {n : Node} (h : isListTag n = true) : n.tag ≠ preTag := by
  rcases isListTag_tag h with h | h <;> rw [h] <;> decide

theorem isItemTag_notAtomic {n : Node} (hb : BNode p q n) (h : isItemTag n = true) : n.textAtomic = false := by
  apply hb.notAtomic
  rw [isItemTag, isTag_iff] at h
  rw [h]; decide

theorem tagNoCtl_el (t : String) (h : NoCtl t.toList) : tagNoCtl (Node.el t).tag := h

theorem tagNoCtl_hTag (lv : Nat) : tagNoCtl (hTag lv).tag := by
  show NoCtl ('h' :: natToDec lv)
  have hd := natToDec_digits lv
  constructor
  · intro hm
    rcases List.mem_cons.1 hm with h | h
    · revert h; decide
    · have := hd _ h; revert this; decide
  · intro hm
    rcases List.mem_cons.1 hm with h | h
    · revert h; decide
    · have := hd _ h; revert this; decide

/-- a fresh element without children, attributes and tail, with a non-atomic text -/
theorem tinv_text {t : Tag} (ht : tagNoCtl t) (hc : t ≠ .name "code".toList) {txt : Option Str}
    (hx : AllC p (txt.getD [])) : TInv p q { tag := t, text := txt } := by
  refine tinv_leaf ⟨ht, rfl, rfl, allC_nil, ?_, ?_, fun h => absurd h hc⟩ rfl
  · simpa using hx
  · intro h; cases h

theorem hTag_ne_code (lv : Nat) : (hTag lv).tag ≠ .name "code".toList := by
  show Tag.name ('h' :: natToDec lv) ≠ _
  intro h
  have := (List.cons.inj (Tag.name.inj h)).1
  revert this; decide

theorem tinv_el (t : String) (h : NoCtl t.toList ∧ Tag.name t.toList ≠ .name "code".toList) :
    TInv p q (Node.el t) :=
  tinv_text (txt := none) (tagNoCtl_el t h.1) h.2 allC_nil

theorem tinv_mkText (t : String) (h : NoCtl t.toList ∧ Tag.name t.toList ≠ .name "code".toList) {txt : Str}
    (hx : AllC p txt) : TInv p q (mkText t txt) :=
  tinv_text (txt := some txt) (tagNoCtl_el t h.1) h.2 hx

theorem nodeAt_tinv : ∀ (k : Nat) {n : Node}, TInv p q n → TInv p q (nodeAt k n)
  | 0, _, h => h
  | k + 1, n, h => by
    simp only [nodeAt]
    split
    · next c hc => exact nodeAt_tinv k (h.last hc).1
    · exact h

theorem updPath_tinv (f : Node → Node) : ∀ (k : Nat) {n : Node}, TInv p q n →
    (TInv p q (f (nodeAt k n)) ∧ (f (nodeAt k n)).textAtomic = (nodeAt k n).textAtomic) →
    TInv p q (updPath f k n) ∧ (updPath f k n).textAtomic = n.textAtomic
  | 0, _, _, hf => hf
  | k + 1, n, h, hf => by
    simp only [updPath]
    simp only [nodeAt] at hf
    split
    · next c hc =>
      simp only [hc] at hf
      have hl := h.last hc
      have ih := updPath_tinv f k hl.1 hf
      exact ⟨h.setLast ih.1 (fun ha => hl.2 (ih.2 ▸ ha)), rfl⟩
    · exact ⟨h, rfl⟩

end trees

/-! ### the processors -/

section processors
variable {p q : Char → Bool}

/-- what a call of the parser gives back -/
def Out (p q : Char → Bool) (refs : Refs) (r : Node × Refs) : Prop :=
  TInv p q r.1 ∧ r.1.textAtomic = false ∧ RefsC p r.2 ∧ (p '[' = false → r.2 = refs)

/-- the callback preserves the invariant -/
def PresPB (p q : Char → Bool) (pb : PB) : Prop :=
  ∀ state refs parent blocks r, TInv p q parent → parent.textAtomic = false → RefsC p refs → AllL p blocks →
    pb state refs parent blocks = some r → Out p q refs r

/-- what one turn of the loop gives back -/
def Res (p q : Char → Bool) (refs : Refs) (r : Node × Refs × List Str) : Prop :=
  TInv p q r.1 ∧ r.1.textAtomic = false ∧ RefsC p r.2.1 ∧ (p '[' = false → r.2.1 = refs) ∧ AllL p r.2.2

theorem allL_one {x : Str} (hx : AllC p x) : AllL p [x] := allL_cons.2 ⟨hx, allL_nil⟩

theorem BNode.textQ (h : CharDom p q) {n : Node} (hb : BNode p q n) : AllC q (n.text.getD []) := by
  have := hb.2.2.2.2.1
  split at this
  · exact this
  · exact fun c hc => h.sub c (this c hc)

theorem BNode.textP {n : Node} (hb : BNode p q n) (ha : n.textAtomic = false) : AllC p (n.text.getD []) := by
  have := hb.2.2.2.2.1
  rw [ha] at this; simpa using this

theorem BNode.tailP {n : Node} (hb : BNode p q n) : AllC p (n.tail.getD []) := hb.2.2.2.1

theorem preCode_some {sib code : Node} (h : preCode sib = some code) :
    sib.tag = preTag ∧ code.tag = .name "code".toList ∧ ∃ tl, sib.children = code :: tl := by
  simp only [preCode] at h
  split at h
  · next hs =>
    split at h
    · next c tl hch =>
      split at h
      · next hc => cases h; exact ⟨isTag_iff.1 hs, isTag_iff.1 hc, tl, hch⟩
      · cases h
    · cases h
  · cases h

theorem setCodeText_tinv {parent sib code : Node} {t : Str} (hP : TInv p q parent)
    (hl : parent.last? = some sib) (hc : preCode sib = some code) (ht : AllC q t) :
    TInv p q (setCodeText parent sib code t) := by
  obtain ⟨hs, hct, tl, hch⟩ := preCode_some hc
  have hsib := hP.last hl
  have hcode := (hsib.1.child (c := code) (by rw [hch]; simp)).1
  have hcb := hcode.bnode
  have hcode' : TInv p q { code with text := some t, textAtomic := true } :=
    hcode.congr rfl rfl ⟨hcb.1, hcb.2.1, hcb.2.2.1, hcb.2.2.2.1, by simpa using ht, fun _ => hct, fun _ => rfl⟩
  unfold setCodeText
  refine hP.setLast (tinv_iff.2 ⟨hsib.1.bnode, ?_⟩) hsib.2
  intro d hd
  simp only [hch, List.drop_succ_cons, List.drop_zero, List.mem_cons] at hd
  rcases hd with rfl | hd
  · exact ⟨hcode', fun _ => hs⟩
  · exact hsib.1.child (by rw [hch]; simp [hd])

theorem preCode_textQ (h : CharDom p q) {parent sib code : Node} (hP : TInv p q parent)
    (hl : parent.last? = some sib) (hc : preCode sib = some code) : AllC q (fmtOpt code.text) := by
  obtain ⟨_, _, tl, hch⟩ := preCode_some hc
  have hcode := ((hP.last hl).1.child (c := code) (by rw [hch]; simp)).1
  exact allC_fmtOpt h.none (hcode.bnode.textQ h)

theorem tinv_pre {t : Str} (ht : AllC q t) :
    TInv p q { Node.el "pre" with children := [{ Node.el "code" with text := some t, textAtomic := true }] } := by
  refine tinv_iff.2 ⟨⟨tagNoCtl_el "pre" (by decide), rfl, rfl, allC_nil, allC_nil, fun h => (by cases h),
    fun h => absurd h (show Tag.name "pre".toList ≠ Tag.name "code".toList by decide)⟩, ?_⟩
  intro c hc
  simp only [List.mem_singleton] at hc
  subst hc
  refine ⟨tinv_leaf ⟨tagNoCtl_el "code" (by decide), rfl, rfl, allC_nil, by simpa using ht, fun _ => rfl,
    fun _ => rfl⟩ rfl,
    fun _ => rfl⟩

theorem emptyP_chars (h : CharDom p q) {refs : Refs} {parent : Node} {b : Str} {rest : List Str}
    (hP : TInv p q parent) (hA : parent.textAtomic = false) (hR : RefsC p refs) (hb : AllC p b)
    (hrest : AllL p rest) : Res p q refs (emptyP refs parent b rest) := by
  have key : AllL p (if (b.drop 1).isEmpty then rest else b.drop 1 :: rest) := by
    split
    · exact hrest
    · exact allL_cons.2 ⟨hb.drop 1, hrest⟩
  have hfill : AllC q (if b.isEmpty then ['\n', '\n'] else ['\n']) := by
    have := h.sub _ h.nl
    split <;> simp [AllC, this]
  simp only [emptyP]
  split
  · next sib hl =>
    split
    · next code hc =>
      exact ⟨setCodeText_tinv hP hl hc (allC_append.2 ⟨preCode_textQ h hP hl hc, hfill⟩), hA, hR, fun _ => rfl, key⟩
    · exact ⟨hP, hA, hR, fun _ => rfl, key⟩
  · exact ⟨hP, hA, hR, fun _ => rfl, key⟩

theorem codeP_chars (h : CharDom p q) {tab : Nat} {refs : Refs} {parent : Node} {b : Str} {rest : List Str}
    (hP : TInv p q parent) (hA : parent.textAtomic = false) (hR : RefsC p refs) (hb : AllC p b)
    (hrest : AllL p rest) : Res p q refs (codeP tab refs parent b rest) := by
  have hd := allC_detab h.nl tab hb
  have key : AllL p (if (detab tab b).2.isEmpty then rest else (detab tab b).2 :: rest) := by
    split
    · exact hrest
    · exact allL_cons.2 ⟨hd.2, hrest⟩
  have hesc : AllC q (codeEscape (rstrip (detab tab b).1)) :=
    h.esc _ (fun c hc => h.sub c (hd.1.rstrip c hc))
  have hnl : AllC q ['\n'] := AllC.nlStr (h.sub _ h.nl)
  have hfresh := hP.append (tinv_pre (p := p) (allC_append.2 ⟨hesc, hnl⟩)) rfl
  simp only [codeP]
  split
  · next sib hl =>
    split
    · next code hc =>
      refine ⟨setCodeText_tinv hP hl hc (allC_append.2 ⟨allC_append.2 ⟨preCode_textQ h hP hl hc, ?_⟩, hnl⟩),
        hA, hR, fun _ => rfl, key⟩
      exact allC_cons.2 ⟨h.sub _ h.nl, hesc⟩
    · exact ⟨hfresh, hA, hR, fun _ => rfl, key⟩
  · exact ⟨hfresh, hA, hR, fun _ => rfl, key⟩

theorem optCall_chars {pb : PB} (hpb : PresPB p q pb) {state : List BState} {refs : Refs} {parent : Node}
    (hP : TInv p q parent) (hA : parent.textAtomic = false) (hR : RefsC p refs) {x : Str} (hx : AllC p x)
    {r : Node × Refs}
    (hc : (if x.isEmpty then some (parent, refs) else pb state refs parent [x]) = some r) : Out p q refs r := by
  split at hc
  · cases hc; exact ⟨hP, hA, hR, fun _ => rfl⟩
  · exact hpb _ _ _ _ _ hP hA hR (allL_one hx) hc

theorem hashP_chars (h : CharDom p q) {tab : Nat} {pb : PB} (hpb : PresPB p q pb) {state : List BState}
    {refs : Refs} {parent : Node} {b : Str} {rest : List Str} {m : Nat × Nat × Nat × Str}
    (hP : TInv p q parent) (hA : parent.textAtomic = false) (hR : RefsC p refs) (hb : AllC p b)
    (hrest : AllL p rest) (hm : hashSearch b = some m) {r : Node × Refs × List Str}
    (hr : hashP tab pb state refs parent b rest m = some r) : Res p q refs r := by
  obtain ⟨st, en, lv, header⟩ := m
  have hhd : AllC p header := hb.mono (hashSearch_sub hm)
  simp only [hashP] at hr
  split at hr
  · cases hr
  · next parent' refs' hcall =>
    obtain ⟨h1, h2, h3, h4⟩ := optCall_chars hpb hP hA hR (hb.take st) hcall
    cases hr
    refine ⟨h1.append (tinv_text (tagNoCtl_hTag lv) (hTag_ne_code lv) (txt := some (strip header)) hhd.strip) rfl, h2, h3, h4, ?_⟩
    show AllL p (if _ then _ else _)
    split
    · exact hrest
    · refine allL_cons.2 ⟨?_, hrest⟩
      split
      · exact allC_looseDetab h.nl tab (hb.drop en) 1
      · exact hb.drop en

theorem setextP_chars (h : CharDom p q) {refs : Refs} {parent : Node} {b : Str} {rest : List Str}
    (hP : TInv p q parent) (hA : parent.textAtomic = false) (hR : RefsC p refs) (hb : AllC p b)
    (hrest : AllL p rest) : Res p q refs (setextP refs parent b rest) := by
  simp only [setextP]
  refine ⟨hP.append (tinv_text (tagNoCtl_hTag _) (hTag_ne_code _) (txt := some (strip ((lines b).getD 0 [])))
    (allL_getD hb.lines 0).strip) rfl, hA, hR, fun _ => rfl, ?_⟩
  show AllL p (if _ then _ else _)
  split
  · exact allL_cons.2 ⟨allC_joinLines h.nl (hb.lines.mono (List.drop_subset _ _)), hrest⟩
  · exact hrest

theorem hrP_chars {pb : PB} (hpb : PresPB p q pb) {state : List BState}
    {refs : Refs} {parent : Node} {b : Str} {rest : List Str} {m : Nat × Nat}
    (hP : TInv p q parent) (hA : parent.textAtomic = false) (hR : RefsC p refs) (hb : AllC p b)
    (hrest : AllL p rest) {r : Node × Refs × List Str}
    (hr : hrP pb state refs parent b rest m = some r) : Res p q refs r := by
  obtain ⟨st, en⟩ := m
  simp only [hrP] at hr
  split at hr
  · cases hr
  · next parent' refs' hcall =>
    obtain ⟨h1, h2, h3, h4⟩ := optCall_chars hpb hP hA hR ((hb.take st).rstripC '\n') hcall
    cases hr
    refine ⟨h1.append (tinv_el "hr" (by decide)) rfl, h2, h3, h4, ?_⟩
    show AllL p (if _ then _ else _)
    split
    · exact hrest
    · exact allL_cons.2 ⟨(hb.drop en).lstripC '\n', hrest⟩

theorem referenceP_chars {refs : Refs} {parent : Node} {b : Str} {rest : List Str}
    {m : Nat × Nat × Str × Str × Option Str × Option Str}
    (hP : TInv p q parent) (hA : parent.textAtomic = false) (hR : RefsC p refs) (hb : AllC p b)
    (hrest : AllL p rest) (hm : refSearch b = some m) : Res p q refs (referenceP refs parent b rest m) := by
  obtain ⟨st, en, ident, link, t5, t6⟩ := m
  obtain ⟨hbr, hurl, ht5, ht6⟩ := refSearch_sub hm
  simp only [referenceP]
  refine ⟨hP, hA, ?_, ?_, ?_⟩
  · intro r hr
    rcases List.mem_append.1 hr with hr | hr
    · exact hR r hr
    · simp only [List.mem_singleton] at hr
      subst hr
      refine ⟨((hb.mono hurl).lstripC '<').rstripC '>', ?_⟩
      show AllC p ((if _ then t5 else t6).getD [])
      split
      · exact hb.mono ht5
      · exact hb.mono ht6
  · intro hp
    have := hb _ hbr
    rw [hp] at this; cases this
  · show AllL p (if _ then _ else _)
    have h1 : AllL p (if isBlank (b.drop en) then rest else lstripC '\n' (b.drop en) :: rest) := by
      split
      · exact hrest
      · exact allL_cons.2 ⟨(hb.drop en).lstripC '\n', hrest⟩
    split
    · exact h1
    · exact allL_cons.2 ⟨(hb.take st).rstripC '\n', h1⟩

theorem paraP_chars (h : CharDom p q) {state : List BState} {refs : Refs} {parent : Node} {b : Str} {rest : List Str}
    (hP : TInv p q parent) (hA : parent.textAtomic = false) (hR : RefsC p refs) (hb : AllC p b)
    (hrest : AllL p rest) : Res p q refs (paraP state refs parent b rest) := by
  simp only [paraP]
  split
  · exact ⟨hP, hA, hR, fun _ => rfl, hrest⟩
  · split
    · split
      · next sib hl =>
        have hs := hP.last hl
        have hsb := hs.1.bnode
        refine ⟨hP.setLast (hs.1.congr rfl rfl ?_) hs.2, hA, hR, fun _ => rfl, hrest⟩
        refine ⟨hsb.1, hsb.2.1, rfl, ?_, hsb.2.2.2.2.1, hsb.2.2.2.2.2⟩
        show AllC p (if _ then _ else _)
        split
        · next ht => rw [fmtOpt_truthy ht]; exact allC_append.2 ⟨hsb.tailP, allC_cons.2 ⟨h.nl, hb⟩⟩
        · exact allC_cons.2 ⟨h.nl, hb⟩
      · have hpb := hP.bnode
        refine ⟨hP.congr rfl rfl ?_, rfl, hR, fun _ => rfl, hrest⟩
        refine ⟨hpb.1, hpb.2.1, hpb.2.2.1, hpb.2.2.2.1, ?_, fun h' => (by cases h'),
          fun h' => by have := hpb.2.2.2.2.2.2 h'; rw [hA] at this; cases this⟩
        show AllC p (if _ then _ else _)
        split
        · next ht => rw [fmtOpt_truthy ht]; exact allC_append.2 ⟨hpb.textP hA, allC_cons.2 ⟨h.nl, hb⟩⟩
        · exact hb.lstrip
    · exact ⟨hP.append (tinv_mkText "p" (by decide) hb.lstrip) rfl, hA, hR, fun _ => rfl, hrest⟩

end processors

/-! ### lists, block quotes, list indentation -/

section recursive
variable {p q : Char → Bool}

theorem textToP_tinv {li : Node} (hL : TInv p q li) (hA : li.textAtomic = false) :
    TInv p q (textToP li) ∧ (textToP li).textAtomic = false ∧ (textToP li).tag = li.tag := by
  unfold textToP
  split
  · have hb := hL.bnode
    refine ⟨tinv_iff.2 ⟨⟨hb.1, hb.2.1, hb.2.2.1, hb.2.2.2.1, allC_nil, fun h => (by cases h),
      fun h' => by have := hb.2.2.2.2.2.2 h'; rw [hA] at this; cases this⟩, ?_⟩, rfl, rfl⟩
    intro c hc
    simp only [List.mem_cons] at hc
    rcases hc with rfl | hc
    · refine ⟨tinv_leaf ⟨tagNoCtl_el "p" (by decide), rfl, rfl, allC_nil, ?_, ?_,
        fun h' => absurd h' (show Tag.name "p".toList ≠ Tag.name "code".toList by decide)⟩ rfl, ?_⟩
      · simp only [hA]; simpa using hb.textP hA
      · intro h'; simp only [hA] at h'; cases h'
      · intro h'; simp only [hA] at h'; cases h'
    · exact hL.child hc
  · exact ⟨hL, hA, rfl⟩

/-- the `if sibling[-1].tail: …` step of `OListProcessor.run` -/
def tailFix (li : Node) : Node :=
  match li.last? with
  | some lch =>
    if Node.truthy lch.tail then
      (li.setLast { lch with tail := some [], tailAtomic := false }).append (mkText "p" (lstrip (lch.tail.getD [])))
    else li
  | none => li

/-- what `OListProcessor.run` does to the list it continues before it adds items -/
def fixLast (lst : Node) : Node :=
  match lst.last? with
  | some li => lst.setLast (tailFix (textToP li))
  | none => lst

/-- the sibling list of `OListProcessor.run` -/
def sibList (parent : Node) : Option Node :=
  match parent.last? with
  | some sib => if isListTag sib then some sib else none
  | none => none

theorem listP_eq (tab : Nat) (pb : PB) (state : List BState) (refs : Refs) (parent : Node) (b : Str)
    (rest : List Str) (tag : String) : listP tab pb state refs parent b rest tag =
    match sibList parent with
    | some lst =>
      match pb (state ++ [.looselist]) refs (Node.el "li") [(getItems tab b).headD []] with
      | none => none
      | some (newli, refs) =>
        match listItems tab pb (state ++ [.list]) refs ((fixLast lst).append newli) ((getItems tab b).drop 1) with
        | some (lst, refs) => some (parent.setLast lst, refs, rest)
        | none => none
    | none =>
      if isListTag parent then
        match listItems tab pb (state ++ [.list]) refs parent (getItems tab b) with
        | some (lst, refs) => some (lst, refs, rest)
        | none => none
      else
        match listItems tab pb (state ++ [.list]) refs (Node.el tag) (getItems tab b) with
        | some (lst, refs) => some (parent.append lst, refs, rest)
        | none => none := rfl

theorem sibList_some {parent sib : Node} (h : sibList parent = some sib) :
    parent.last? = some sib ∧ isListTag sib = true := by
  simp only [sibList] at h
  split at h
  · next s hl =>
    split at h
    · next ht => cases h; exact ⟨hl, ht⟩
    · cases h
  · cases h

theorem tailFix_tinv {li : Node} (hL : TInv p q li) :
    TInv p q (tailFix li) ∧ (tailFix li).textAtomic = li.textAtomic ∧ (tailFix li).tag = li.tag := by
  unfold tailFix
  split
  · next lch hl =>
    split
    · have hc := hL.last hl
      have hcb := hc.1.bnode
      have hlch : TInv p q { lch with tail := some [], tailAtomic := false } :=
        hc.1.congr rfl rfl ⟨hcb.1, hcb.2.1, rfl, allC_nil, hcb.2.2.2.2.1, hcb.2.2.2.2.2⟩
      exact ⟨(hL.setLast hlch hc.2).append (tinv_mkText "p" (by decide) hcb.tailP.lstrip) rfl, rfl, rfl⟩
    · exact ⟨hL, rfl, rfl⟩
  · exact ⟨hL, rfl, rfl⟩

theorem fixLast_tinv {lst : Node} (hL : TInv p q lst) (ht : lst.tag ≠ preTag) :
    TInv p q (fixLast lst) ∧ (fixLast lst).textAtomic = lst.textAtomic ∧ (fixLast lst).tag = lst.tag := by
  unfold fixLast
  split
  · next li hl =>
    have hc := hL.last hl
    have hna : li.textAtomic = false := by
      cases hx : li.textAtomic with
      | false => rfl
      | true => exact absurd (hc.2 hx) ht
    obtain ⟨t1, t2, t3⟩ := textToP_tinv hc.1 hna
    obtain ⟨f1, f2, f3⟩ := tailFix_tinv t1
    exact ⟨hL.setLast f1 (fun ha => by rw [f2, t2] at ha; cases ha), rfl, rfl⟩
  · exact ⟨hL, rfl, rfl⟩

theorem listItems_chars {tab : Nat} {pb : PB} (hpb : PresPB p q pb) {st2 : List BState} :
    ∀ (items : List Str) (refs : Refs) (lst : Node) (r : Node × Refs), TInv p q lst → lst.tag ≠ preTag →
      RefsC p refs → AllL p items → listItems tab pb st2 refs lst items = some r →
      TInv p q r.1 ∧ r.1.textAtomic = lst.textAtomic ∧ r.1.tag = lst.tag ∧ RefsC p r.2 ∧
        (p '[' = false → r.2 = refs)
  | [], refs, lst, r, hL, _, hR, _, hr => by
    simp only [listItems] at hr
    cases hr
    exact ⟨hL, rfl, rfl, hR, fun _ => rfl⟩
  | item :: items, refs, lst, r, hL, ht, hR, hI, hr => by
    have hI' := allL_cons.1 hI
    simp only [listItems] at hr
    split at hr
    · split at hr
      · next l hl =>
        split at hr
        · next li refs' hcall =>
          have hc := hL.last hl
          have hna : l.textAtomic = false := by
            cases hx : l.textAtomic with
            | false => rfl
            | true => exact absurd (hc.2 hx) ht
          obtain ⟨o1, o2, o3, o4⟩ := hpb _ _ _ _ _ hc.1 hna hR (allL_one hI'.1) hcall
          obtain ⟨i1, i2, i3, i4, i5⟩ := listItems_chars hpb items refs' (lst.setLast li) r
            (hL.setLast o1 (fun ha => by rw [o2] at ha; cases ha)) ht o3 hI'.2 hr
          exact ⟨i1, i2, i3, i4, fun hp => (i5 hp).trans (o4 hp)⟩
        · cases hr
      · exact listItems_chars hpb items refs lst r hL ht hR hI'.2 hr
    · split at hr
      · next li refs' hcall =>
        obtain ⟨o1, o2, o3, o4⟩ := hpb _ _ _ _ _ (tinv_el "li" (by decide)) rfl hR (allL_one hI'.1) hcall
        obtain ⟨i1, i2, i3, i4, i5⟩ := listItems_chars hpb items refs' (lst.append li) r
          (hL.append o1 o2) ht o3 hI'.2 hr
        exact ⟨i1, i2, i3, i4, fun hp => (i5 hp).trans (o4 hp)⟩
      · cases hr

theorem listP_chars (h : CharDom p q) {tab : Nat} {pb : PB} (hpb : PresPB p q pb) {state : List BState}
    {refs : Refs} {parent : Node} {b : Str} {rest : List Str} {tag : String}
    (htag : NoCtl tag.toList ∧ Tag.name tag.toList ≠ .name "code".toList)
    (htag' : Tag.name tag.toList ≠ preTag)
    (hP : TInv p q parent) (hA : parent.textAtomic = false) (hR : RefsC p refs) (hb : AllC p b)
    (hrest : AllL p rest) {r : Node × Refs × List Str}
    (hr : listP tab pb state refs parent b rest tag = some r) : Res p q refs r := by
  have hitems := allL_getItems h.nl tab hb
  rw [listP_eq] at hr
  split at hr
  · next lst hs =>
    obtain ⟨hl, hlt⟩ := sibList_some hs
    have hc := hP.last hl
    obtain ⟨f1, f2, f3⟩ := fixLast_tinv hc.1 (isListTag_notPre hlt)
    split at hr
    · cases hr
    · next newli refs' hcall =>
      obtain ⟨o1, o2, o3, o4⟩ := hpb _ _ _ _ _ (tinv_el "li" (by decide)) rfl hR (allL_one (allL_headD hitems)) hcall
      split at hr
      · next lst' refs'' hli =>
        obtain ⟨i1, i2, i3, i4, i5⟩ := listItems_chars hpb _ _ _ _ (f1.append o1 o2)
          (by rw [append_tag, f3]; exact isListTag_notPre hlt) o3 (hitems.mono (List.drop_subset _ _)) hli
        cases hr
        refine ⟨hP.setLast i1 (fun ha => ?_), hA, i4, fun hp => (i5 hp).trans (o4 hp), hrest⟩
        rw [i2, append_textAtomic, f2, isListTag_notAtomic hc.1.bnode hlt] at ha
        cases ha
      · cases hr
  · split at hr
    · next hlt =>
      split at hr
      · next lst' refs'' hli =>
        obtain ⟨i1, i2, i3, i4, i5⟩ := listItems_chars hpb _ _ _ _ hP (isListTag_notPre hlt) hR hitems hli
        cases hr
        exact ⟨i1, i2.trans hA, i4, i5, hrest⟩
      · cases hr
    · split at hr
      · next lst' refs'' hli =>
        obtain ⟨i1, i2, i3, i4, i5⟩ := listItems_chars hpb _ _ _ _ (tinv_el tag htag) htag' hR hitems hli
        cases hr
        exact ⟨hP.append i1 i2, hA, i4, i5, hrest⟩
      · cases hr

theorem parseChunk_chars {pb : PB} (hpb : PresPB p q pb) {state : List BState} {refs : Refs} {parent : Node}
    {text : Str} (hP : TInv p q parent) (hA : parent.textAtomic = false) (hR : RefsC p refs) (ht : AllC p text)
    {r : Node × Refs} (hr : parseChunk pb state refs parent text = some r) : Out p q refs r :=
  hpb _ _ _ _ _ hP hA hR (ht.splitS (by simp)) hr

theorem quoteP_chars (h : CharDom p q) {pb : PB} (hpb : PresPB p q pb) {state : List BState}
    {refs : Refs} {parent : Node} {b : Str} {rest : List Str} {q0 : Nat}
    (hP : TInv p q parent) (hA : parent.textAtomic = false) (hR : RefsC p refs) (hb : AllC p b)
    (hrest : AllL p rest) {r : Node × Refs × List Str}
    (hr : quoteP pb state refs parent b rest q0 = some r) : Res p q refs r := by
  have hblock := allC_quoteBlock h.nl (hb.drop q0)
  simp only [quoteP] at hr
  split at hr
  · cases hr
  · next parent' refs' hcall =>
    obtain ⟨h1, h2, h3, h4⟩ := hpb _ _ _ _ _ hP hA hR (allL_one (hb.take q0)) hcall
    split at hr
    · next sib hs =>
      have hsib : parent'.last? = some sib ∧ sib.isTag "blockquote" = true := by
        split at hs
        · next s hl =>
          split at hs
          · next ht => cases hs; exact ⟨hl, ht⟩
          · cases hs
        · cases hs
      have hc := h1.last hsib.1
      have hna : sib.textAtomic = false := by
        apply hc.1.bnode.notAtomic
        rw [isTag_iff.1 hsib.2]; decide
      split at hr
      · next quote refs'' hq =>
        obtain ⟨o1, o2, o3, o4⟩ := parseChunk_chars hpb hc.1 hna h3 hblock hq
        cases hr
        exact ⟨h1.setLast o1 (fun ha => by rw [o2] at ha; cases ha), h2, o3, fun hp => (o4 hp).trans (h4 hp), hrest⟩
      · cases hr
    · split at hr
      · next quote refs'' hq =>
        obtain ⟨o1, o2, o3, o4⟩ := parseChunk_chars hpb (tinv_el "blockquote" (by decide)) rfl h3 hblock hq
        cases hr
        exact ⟨h1.append o1 o2, h2, o3, fun hp => (o4 hp).trans (h4 hp), hrest⟩
      · cases hr

theorem indentP_chars (h : CharDom p q) {tab : Nat} {pb : PB} (hpb : PresPB p q pb) {state : List BState}
    {refs : Refs} {parent : Node} {b : Str} {rest : List Str}
    (hP : TInv p q parent) (hA : parent.textAtomic = false) (hR : RefsC p refs) (hb : AllC p b)
    (hrest : AllL p rest) {r : Node × Refs × List Str}
    (hr : indentP tab pb state refs parent b rest = some r) : Res p q refs r := by
  unfold indentP at hr
  generalize getLevel tab state parent b = ls at hr
  obtain ⟨level, steps⟩ := ls
  simp only [] at hr
  have hblock := allC_looseDetab h.nl tab hb level
  have hS := nodeAt_tinv steps hP
  split at hr
  · split at hr
    · next c hs =>
      have hc : parent.last? = some c ∧ isListTag c = true := by
        split at hs
        · next s hl =>
          split at hs
          · next ht => cases hs; exact ⟨hl, ht⟩
          · cases hs
        · cases hs
      have hl := hP.last hc.1
      split at hr
      · next sub refs' hq =>
        obtain ⟨o1, o2, o3, o4⟩ := hpb _ _ _ _ _ hl.1 (isListTag_notAtomic hl.1.bnode hc.2) hR (allL_one hblock) hq
        cases hr
        exact ⟨hP.setLast o1 (fun ha => by rw [o2] at ha; cases ha), hA, o3, o4, hrest⟩
      · cases hr
    · split at hr
      · next par' refs' hq =>
        obtain ⟨o1, o2, o3, o4⟩ := hpb _ _ _ _ _ hP hA hR (allL_one hblock) hq
        cases hr
        exact ⟨o1, o2, o3, o4, hrest⟩
      · cases hr
  · split at hr
    · next hit =>
      split at hr
      · next sub refs' hq =>
        have hna := isItemTag_notAtomic hS.bnode hit
        obtain ⟨o1, o2, o3, o4⟩ := hpb _ _ _ _ _ hS hna hR (allL_one hblock) hq
        cases hr
        obtain ⟨u1, u2⟩ := updPath_tinv (fun _ => sub) steps hP ⟨o1, o2.trans hna.symm⟩
        exact ⟨u1, u2.trans hA, o3, o4, hrest⟩
      · cases hr
    · split at hr
      · next li hs =>
        have hc : (nodeAt steps parent).last? = some li ∧ isItemTag li = true := by
          split at hs
          · next s hl =>
            split at hs
            · next ht => cases hs; exact ⟨hl, ht⟩
            · cases hs
          · cases hs
        have hl := hS.last hc.1
        obtain ⟨t1, t2, _⟩ := textToP_tinv hl.1 (isItemTag_notAtomic hl.1.bnode hc.2)
        split at hr
        · next li' refs' hq =>
          obtain ⟨o1, o2, o3, o4⟩ := parseChunk_chars hpb t1 t2 hR hblock hq
          cases hr
          obtain ⟨u1, u2⟩ := updPath_tinv (fun s => s.setLast li') steps hP
            ⟨hS.setLast o1 (fun ha => by rw [o2] at ha; cases ha), rfl⟩
          exact ⟨u1, u2.trans hA, o3, o4, hrest⟩
        · cases hr
      · split at hr
        · next li' refs' hq =>
          obtain ⟨o1, o2, o3, o4⟩ := hpb _ _ _ _ _ (tinv_el "li" (by decide)) rfl hR (allL_one hblock) hq
          cases hr
          obtain ⟨u1, u2⟩ := updPath_tinv (fun s => s.append li') steps hP ⟨hS.append o1 o2, rfl⟩
          exact ⟨u1, u2.trans hA, o3, o4, hrest⟩
        · cases hr

/-- **one turn of the loop preserves the invariant** -/
theorem dispatch_chars (h : CharDom p q) {tab : Nat} {pb : PB} (hpb : PresPB p q pb) {state : List BState}
    {refs : Refs} {parent : Node} {b : Str} {rest : List Str}
    (hP : TInv p q parent) (hA : parent.textAtomic = false) (hR : RefsC p refs) (hb : AllC p b)
    (hrest : AllL p rest) {r : Node × Refs × List Str}
    (hr : dispatch tab pb state refs parent b rest = some r) : Res p q refs r := by
  rw [dispatch_eq] at hr
  split at hr
  · cases hr; exact emptyP_chars h hP hA hR hb hrest
  · split at hr
    · exact indentP_chars h hpb hP hA hR hb hrest hr
    · split at hr
      · cases hr; exact codeP_chars h hP hA hR hb hrest
      · split at hr
        · next m hm => exact hashP_chars h hpb hP hA hR hb hrest hm hr
        · split at hr
          · cases hr; exact setextP_chars h hP hA hR hb hrest
          · split at hr
            · exact hrP_chars hpb hP hA hR hb hrest hr
            · split at hr
              · exact listP_chars h hpb (by decide) (by decide) hP hA hR hb hrest hr
              · split at hr
                · exact listP_chars h hpb (by decide) (by decide) hP hA hR hb hrest hr
                · split at hr
                  · exact quoteP_chars h hpb hP hA hR hb hrest hr
                  · split at hr
                    · next m hm => cases hr; exact referenceP_chars hP hA hR hb hrest hm
                    · cases hr; exact paraP_chars h hP hA hR hb hrest

theorem parseBlocks_pres (h : CharDom p q) (tab : Nat) : ∀ f : Nat, PresPB p q (parseBlocks tab f)
  | 0 => by
    intro state refs parent blocks r hP hA hR hB hr
    cases blocks with
    | nil => simp only [parseBlocks] at hr; cases hr; exact ⟨hP, hA, hR, fun _ => rfl⟩
    | cons b rest => simp [parseBlocks] at hr
  | f + 1 => by
    intro state refs parent blocks r hP hA hR hB hr
    cases blocks with
    | nil => simp only [parseBlocks] at hr; cases hr; exact ⟨hP, hA, hR, fun _ => rfl⟩
    | cons b rest =>
      have hB' := allL_cons.1 hB
      simp only [parseBlocks] at hr
      split at hr
      · next parent' refs' blocks' hd =>
        obtain ⟨d1, d2, d3, d4, d5⟩ := dispatch_chars h (parseBlocks_pres h tab f) hP hA hR hB'.1 hB'.2 hd
        obtain ⟨o1, o2, o3, o4⟩ := parseBlocks_pres h tab f _ _ _ _ _ d1 d2 d3 d5 hr
        exact ⟨o1, o2, o3, fun hp => (o4 hp).trans (d4 hp)⟩
      · cases hr

end recursive

/-! ### the statements -/

/-- **the block parser invents no characters**, from any tree that satisfies the invariant.  (`BNode` alone is not
    an invariant from an arbitrary tree, and the text of `parent` must not be atomic: see `BInv`.) -/
theorem parseBlocks_chars {p q : Char → Bool} (h : CharDom p q) (tab f : Nat) :
    ∀ state refs parent blocks r, parent.Forall (BInv p q) → parent.textAtomic = false → RefsC p refs →
      (∀ b ∈ blocks, AllC p b) → parseBlocks tab f state refs parent blocks = some r →
      r.1.Forall (BInv p q) ∧ r.1.textAtomic = false ∧ RefsC p r.2 ∧ (p '[' = false → r.2 = refs) :=
  parseBlocks_pres h tab f

theorem refsC_nil {p : Char → Bool} : RefsC p [] := by intro r hr; cases hr

/-- why `parent.textAtomic = false` is needed: in a list state `ParagraphProcessor` appends the block to the text of
    a childless parent and the result is an ordinary string -/
example : (parseBlocks 4 10 [.list] [] { Node.el "code" with text := some "&".toList, textAtomic := true }
      ["x".toList]).map (fun r => (r.1.text, r.1.textAtomic)) = some (some "&\nx".toList, false) := by
  decide +kernel

/-- why `AtomPre` is needed: `OListProcessor` moves the text of the last child of the list it continues into a `p`,
    atomic flag included, whatever that child is -/
example : (parseBlocks 4 10 [] []
      ((Node.el "div").append ((Node.el "ul").append { Node.el "code" with text := some "&".toList, textAtomic := true }))
      ["* x".toList]).map (fun r => ((r.1.children.flatMap (·.children)).flatMap (·.children)).map
        (fun c => (c.tag, c.textAtomic))) =
    some [(.name "p".toList, true), (.name "p".toList, false)] := by
  decide +kernel

/-- `parseDocumentWith` (any fuel) with the full invariant -/
theorem parseDocumentWith_inv {p q : Char → Bool} (h : CharDom p q) (tab fuel : Nat) (text : Str) (hp : AllC p text)
    {root : Node} {refs : Refs} (hr : parseDocumentWith tab fuel text = some (root, refs)) :
    root.Forall (BInv p q) ∧ root.textAtomic = false ∧ RefsC p refs ∧ (p '[' = false → refs = []) :=
  parseChunk_chars (parseBlocks_pres h tab fuel) (tinv_el "div" (by decide)) rfl refsC_nil hp hr

/-- `parseDocument` with the full invariant -/
theorem parseDocument_inv {p q : Char → Bool} (h : CharDom p q) (tab : Nat) (text : Str) (hp : AllC p text)
    {root : Node} {refs : Refs} (hr : parseDocument tab text = some (root, refs)) :
    root.Forall (BInv p q) ∧ root.textAtomic = false ∧ RefsC p refs ∧ (p '[' = false → refs = []) :=
  parseChunk_chars (parseBlocks_pres h tab _) (tinv_el "div" (by decide)) rfl refsC_nil hp hr

/-- **the block stage invents no characters** -/
theorem parseDocument_chars {p q : Char → Bool} (h : CharDom p q) (tab : Nat) (text : Str) (hp : AllC p text)
    {root : Node} {refs : Refs} (hr : parseDocument tab text = some (root, refs)) :
    root.Forall (BNode p q) ∧ RefsC p refs ∧ (p '[' = false → refs = []) := by
  obtain ⟨h1, _, h3, h4⟩ := parseDocument_inv h tab text hp hr
  exact ⟨forall_mono (fun _ hn => hn.1) root h1, h3, h4⟩

/-! ### instances -/

def okc (c : Char) : Bool := c != STX && c != ETX

theorem charDom_noctl : CharDom okc okc :=
  CharDom.ofLits (fun _ hc => hc) (by decide) (by decide) (by decide)

theorem charDom_dom (esc : Bool) : CharDom (fun c => okc c && domChar esc c) okc := by
  refine CharDom.ofLits (fun c hc => ?_) ?_ ?_ (by decide)
  · simp only [Bool.and_eq_true] at hc; exact hc.1
  · cases esc <;> decide
  · cases esc <;> decide

end MdVerif.NoCtl.Blk

