/-
The log invariant "every stored string (reference url, footnote text, abbreviation title) satisfies `Ok`" for a
`Closed` predicate `Ok`: the three writing processors store strings that are built from their block (and, for a
footnote, from the following blocks) by slicing, stripping, removal of indentation and joining with newlines.
Core Lean only.
-/
import MdVerif.Lemmas.PipelineXInertBlock

namespace MdVerif.BlockExt
open Py Block

variable {Ok : Str → Prop}

/-- every string stored in the log satisfies `Ok` -/
def LogOk (Ok : Str → Prop) (log : Refs) : Prop := ∀ e ∈ log, Ok e.2.1

theorem LogOk.nil : LogOk Ok [] := by intro e he; cases he

theorem LogOk.snoc {log : Refs} {e : Str × (Str × Option Str)} (h : LogOk Ok log) (he : Ok e.2.1) :
    LogOk Ok (log ++ [e]) := by
  intro x hx
  rcases List.mem_append.mp hx with hx | hx
  · exact h x hx
  · simp only [List.mem_singleton] at hx
    exact hx ▸ he

/-! ### what the searches return is part of the block -/

theorem firstDownFrom_some {α : Type} (f : Nat → Option α) (lo : Nat) : ∀ (c : Nat) {r : α},
    firstDownFrom f lo c = some r → ∃ x, f x = some r := by
  intro c
  induction c with
  | zero => intro r h; simp [firstDownFrom] at h
  | succ c ih =>
    intro r h
    simp only [firstDownFrom] at h
    split at h
    · rename_i r' hr
      injection h with h
      exact ⟨lo + c, h ▸ hr⟩
    · exact ih h

theorem firstDown_some {α : Type} {f : Nat → Option α} {lo hi : Nat} {r : α} (h : firstDown f lo hi = some r) :
    ∃ x, f x = some r := firstDownFrom_some f lo _ h

theorem slice_infix (s : Str) (a b : Nat) : Block.slice s a b <:+: s :=
  List.IsInfix.trans (List.take_prefix _ _).isInfix (List.drop_suffix a s).isInfix

theorem refMatchAt_url_infix {s : Str} {p e : Nat} {ident url : Str} {t5 t6 : Option Str}
    (h : refMatchAt s p = some (e, ident, url, t5, t6)) : url <:+: s := by
  simp only [refMatchAt] at h
  split at h
  · cases h
  · split at h
    · cases h
    · split at h
      · cases h
      · obtain ⟨k2, h⟩ := firstDown_some h
        obtain ⟨u0, _, h⟩ := List.exists_of_findSome?_eq_some h
        obtain ⟨u2, h⟩ := firstDown_some h
        split at h
        · injection h with h
          injection h with _ h
          injection h with _ h
          injection h with h _
          exact h ▸ slice_infix s u0 u2
        · cases h

theorem refSearch_url_infix {s : Str} {st en : Nat} {ident url : Str} {t5 t6 : Option Str}
    (h : refSearch s = some (st, en, ident, url, t5, t6)) : url <:+: s := by
  simp only [refSearch] at h
  obtain ⟨p, _, h⟩ := List.exists_of_findSome?_eq_some h
  split at h
  · rename_i e' ident' url' t5' t6' hm
    injection h with h
    injection h with _ h
    injection h with _ h
    injection h with _ h
    injection h with h _
    exact h ▸ refMatchAt_url_infix hm
  · cases h

theorem lineSearchAux_suffix {α : Type} (f : Str → Option α) : ∀ (s : Str) (atStart : Bool) (i : Nat) {j : Nat} {a : α},
    lineSearchAux f atStart i s = some (j, a) → ∃ t, t <:+ s ∧ f t = some a := by
  intro s
  induction s with
  | nil =>
    intro atStart i j a h
    simp only [lineSearchAux] at h
    split at h
    · cases hf : f [] with
      | none => simp [hf] at h
      | some a' =>
        simp only [hf, Option.map_some] at h
        injection h with h
        injection h with _ h
        exact ⟨[], List.suffix_refl _, h ▸ hf⟩
    · cases h
  | cons c r ih =>
    intro atStart i j a h
    simp only [lineSearchAux] at h
    split at h
    · rename_i a' ha
      injection h with h
      injection h with _ h
      split at ha
      · exact ⟨c :: r, List.suffix_refl _, h ▸ ha⟩
      · cases ha
    · obtain ⟨t, ht, hf⟩ := ih _ _ h
      exact ⟨t, List.IsSuffix.trans ht (List.suffix_cons c r), hf⟩

theorem lineSearch_suffix {α : Type} (f : Str → Option α) {s : Str} {j : Nat} {a : α}
    (h : lineSearch f s = some (j, a)) : ∃ t, t <:+ s ∧ f t = some a := lineSearchAux_suffix f s true 0 h

theorem fnAt_group_infix {s id g : Str} {n : Nat} (h : fnAt s = some (id, g, n)) : g <:+: s := by
  simp only [fnAt] at h
  split at h
  · split at h
    · injection h with h
      injection h with _ h
      injection h with h _
      rw [← h]
      exact List.IsInfix.trans (List.takeWhile_prefix _).isInfix
        (List.IsInfix.trans (List.drop_suffix _ _).isInfix
          (List.IsInfix.trans (List.drop_suffix _ _).isInfix
            (List.IsInfix.trans (List.drop_suffix _ _).isInfix (List.drop_suffix _ s).isInfix)))
    · cases h
  · cases h

theorem fnSearch_group_infix {b id g : Str} {st n : Nat} (h : fnSearch b = some (st, id, g, n)) : g <:+: b := by
  obtain ⟨t, ht, hf⟩ := lineSearch_suffix fnAt h
  exact List.IsInfix.trans (fnAt_group_infix hf) ht.isInfix

theorem abbrAt_title_infix {s a t : Str} {n : Nat} (h : abbrAt s = some (a, t, n)) : t <:+: s := by
  simp only [abbrAt] at h
  split at h
  · split at h
    · cases h
    · injection h with h
      injection h with _ h
      injection h with h _
      rw [← h]
      exact List.IsInfix.trans (List.takeWhile_prefix _).isInfix
        (List.IsInfix.trans (List.drop_suffix _ _).isInfix
          (List.IsInfix.trans (List.drop_suffix _ _).isInfix
            (List.IsInfix.trans (List.drop_suffix _ _).isInfix
              (List.IsInfix.trans (List.drop_suffix _ _).isInfix (List.drop_suffix _ s).isInfix))))
  · cases h

theorem abbrSearch_title_infix {b a t : Str} {st n : Nat} (h : abbrSearch b = some (st, a, t, n)) : t <:+: b := by
  obtain ⟨t', ht, hf⟩ := lineSearch_suffix abbrAt h
  exact List.IsInfix.trans (abbrAt_title_infix hf) ht.isInfix

/-! ### the strings stored -/

section closed
variable (hc : Closed Ok)
include hc

theorem ok_join2 {l : List Str} (h : AllOk Ok l) : Ok (join ['\n', '\n'] l) := by
  induction l with
  | nil => exact hc.nil
  | cons a r ih =>
    cases r with
    | nil => exact AllOk.head h
    | cons b r =>
      have e : join ['\n', '\n'] (a :: b :: r) = a ++ '\n' :: ([] ++ '\n' :: join ['\n', '\n'] (b :: r)) := by
        simp [join]
      rw [e]
      exact hc.joinNl (AllOk.head h) (hc.joinNl hc.nil (ih (AllOk.tail h)))

theorem detectTabbed_fst_ok : ∀ (bl : List Str), AllOk Ok bl → AllOk Ok (detectTabbed bl).1 := by
  intro bl
  induction bl with
  | nil => intro _; exact AllOk.nil
  | cons b r ih =>
    intro h
    simp only [detectTabbed]
    split
    · split
      · exact AllOk.single (ok_looseDetab hc _ _ (ok_rstripC hc _ (ok_take hc _ (AllOk.head h))))
      · exact AllOk.cons (ok_looseDetab hc _ _ (AllOk.head h)) (ih (AllOk.tail h))
    · exact AllOk.nil

theorem footnoteP_logOk {refs : Refs} {b : Str} {rest : List Str} {r : Refs × List Str} (hb : Ok b)
    (hr : AllOk Ok rest) (hq : LogOk Ok refs) (h : footnoteP refs b rest = some r) : LogOk Ok r.1 := by
  simp only [footnoteP] at h
  split at h
  · cases h
  · rename_i st id g2 n hs
    have hg2 : Ok g2 := hc.sub (fnSearch_group_infix hs) hb
    have htr : Ok (lstripC '\n' (b.drop (st + n))) := ok_lstripC hc _ (ok_drop hc _ hb)
    split at h
    · rename_i st2 x hs2
      injection h with h
      rw [← h]
      apply hq.snoc
      apply hc.sub (rstripP_infix _ _)
      apply ok_join2 hc
      apply AllOk.single
      exact ok_lstripC hc _ (hc.joinNl hg2 (ok_looseDetab hc _ _ (ok_rstripC hc _ (ok_take hc _ htr))))
    · injection h with h
      rw [← h]
      apply hq.snoc
      apply hc.sub (rstripP_infix _ _)
      apply ok_join2 hc
      apply AllOk.cons
      · exact hc.sub (stripP_infix _ _) (hc.joinNl hg2 (ok_looseDetab hc _ _ htr))
      · exact detectTabbed_fst_ok hc rest hr

theorem abbrP_logOk {refs : Refs} {b : Str} {rest : List Str} {r : Refs × List Str} (hb : Ok b)
    (hq : LogOk Ok refs) (h : abbrP refs b rest = .ok r) : LogOk Ok r.1 := by
  simp only [abbrP] at h
  split at h
  · cases h
  · rename_i st abbr0 title0 n hs
    have ht : Ok (strip title0) := hc.sub (stripP_infix _ _) (hc.sub (abbrSearch_title_infix hs) hb)
    split at h
    · cases h
    · split at h
      · split at h
        · injection h with h
          rw [← h]
          exact hq.snoc hc.nil
        · injection h with h
          rw [← h]
          exact hq
      · injection h with h
        rw [← h]
        exact hq.snoc ht

/-- the writing processors keep `LogOk` -/
theorem logStep_logOk (cfg : XCfg) : LogStep Ok (LogOk Ok) cfg where
  ref := by
    intro refs parent b rest m hb hq hm
    obtain ⟨st, en, ident, link, t5, t6⟩ := m
    simp only [referenceP]
    apply hq.snoc
    exact ok_rstripC hc _ (ok_lstripC hc _ (hc.sub (refSearch_url_infix hm) hb))
  fn := fun _ refs b rest r hb hr hq h => footnoteP_logOk hc hb hr hq h
  ab := fun _ refs b rest r hb hq h => abbrP_logOk hc hb hq h

end closed

/-- the values of the footnote table come from the log -/
theorem footnotesOf_ok {log : Refs} (h : LogOk Ok log) : ∀ kv ∈ footnotesOf log, Ok kv.2 := by
  simp only [footnotesOf]
  have key : ∀ (l : Refs) (d : List (Str × Str)), (∀ e ∈ l, Ok e.2.1) → (∀ kv ∈ d, Ok kv.2) →
      ∀ kv ∈ l.foldl (fun d e => if isFnEntry e then dictSet d (e.1.drop 2) e.2.1 else d) d, Ok kv.2 := by
    intro l
    induction l with
    | nil => intro d _ hd; exact hd
    | cons e l ih =>
      intro d hl hd
      simp only [List.foldl_cons]
      apply ih _ (fun x hx => hl x (List.mem_cons_of_mem _ hx))
      split
      · intro kv hkv
        simp only [dictSet] at hkv
        split at hkv
        · obtain ⟨kv0, hkv0, rfl⟩ := List.mem_map.mp hkv
          split
          · exact hl e List.mem_cons_self
          · exact hd kv0 hkv0
        · rcases List.mem_append.mp hkv with hkv | hkv
          · exact hd kv hkv
          · simp only [List.mem_singleton] at hkv
            exact hkv ▸ hl e List.mem_cons_self
      · exact hd
  exact key log [] h (by intro kv hkv; cases hkv)

end MdVerif.BlockExt
