/-
Helper lemmas for the C03 pipeline statements (`Props/C03.lean`): code text through the block parser, the inline
processor, the tree processors, the serializer and the postprocessors.  Core Lean only.
-/
import MdVerif.Spec.CodeLaw
import MdVerif.Model.Pipeline
import MdVerif.Lemmas.PyBasic
import MdVerif.Lemmas.Normalize
import MdVerif.Lemmas.BlockFuel
import MdVerif.Lemmas.BlockEsc
import MdVerif.Lemmas.Code

namespace MdVerif.CodeLaw
open Py Block

/-- the quadratic loop fuel is at least the linear one -/
theorem loopFuel_ge (n : Nat) : 16 * (n + 2) ≤ MdVerif.Inline.loopFuel n := by
  simp only [MdVerif.Inline.loopFuel]; exact Nat.le_mul_of_pos_right _ (by omega)

/-! ### the three copies of `util.code_escape` in the models are the same function -/

theorem blockEscape_eq (s : Str) : Block.codeEscape s = Code.codeEscape s := rfl
theorem inlineEscape_eq (s : Str) : Inline.codeEscape s = Code.codeEscape s := rfl

/-! ### `detab` gives indented lines back -/

theorem startsWith_append_self (p s : Str) : startsWith (p ++ s) p = true :=
  startsWith_iff_prefix.2 ⟨s, rfl⟩

theorem not_nl_mem_indentLine {tab : Nat} {l : Str} (h : '\n' ∉ l) : '\n' ∉ indentLine tab l := by
  unfold indentLine
  split
  · simp
  · intro hm
    rcases List.mem_append.1 hm with hm | hm
    · have := List.eq_of_mem_replicate hm
      exact absurd this (by decide)
    · exact h hm

theorem detabLines_indent (tab : Nat) (ls : List Str) :
    detabLines tab (indentLines tab ls) = (ls, []) := by
  induction ls with
  | nil => rfl
  | cons l ls ih =>
    simp only [indentLines, List.map_cons] at ih ⊢
    cases l with
    | nil =>
      simp only [indentLine, List.isEmpty_nil, if_true, detabLines]
      by_cases h : startsWith [] (spaces tab) = true
      · simp [h, ih]
      · simp [h, ih, isBlank]
    | cons c r =>
      simp only [indentLine, List.isEmpty_cons, Bool.false_eq_true, if_false, detabLines, startsWith_append_self,
        if_true, ih]
      simp [spaces]

theorem detab_indent (tab : Nat) (ls : List Str) (hne : ls ≠ []) (hnl : ∀ l ∈ ls, '\n' ∉ l) :
    detab tab (joinLines (indentLines tab ls)) = (joinLines ls, []) := by
  have h1 : lines (joinLines (indentLines tab ls)) = indentLines tab ls := by
    apply joinLines_lines
    · simpa [indentLines] using hne
    · intro p hp
      obtain ⟨l, hl, rfl⟩ := List.mem_map.1 hp
      exact not_nl_mem_indentLine (hnl l hl)
  simp only [detab, h1, detabLines_indent]
  rfl

/-! ### `CodeBlockProcessor` and `EmptyBlockProcessor` on a code block -/

theorem last_append (p c : Node) : (p.append c).last? = some c := by
  simp [Node.last?, Node.append]

theorem setLast_append (p c d : Node) : (p.append c).setLast d = p.append d := by
  simp [Node.setLast, Node.append]

theorem isItemTag_append (p c : Node) : isItemTag (p.append c) = isItemTag p := rfl

theorem preCode_codePre (t : Str) :
    preCode (codePre t) = some { Node.el "code" with text := some t, textAtomic := true } := rfl

theorem isListTag_codePre (t : Str) : isListTag (codePre t) = false := by
  simp only [isListTag, codePre, Node.isTag, Node.el]; decide

theorem setCodeText_codePre (p : Node) (t u : Str) :
    setCodeText (p.append (codePre t)) (codePre t) { Node.el "code" with text := some t, textAtomic := true } u =
      p.append (codePre u) := by
  simp only [setCodeText, setLast_append]
  rfl

/-- a first code block: a new `<pre><code>` with atomic text -/
theorem codeP_fresh (tab : Nat) (refs : Refs) (parent : Node) (r : List Str) (rest : List Str)
    (hne : r ≠ []) (hnl : ∀ l ∈ r, '\n' ∉ l) (hlast : ∀ sib, parent.last? = some sib → preCode sib = none) :
    codeP tab refs parent (joinLines (indentLines tab r)) rest = (parent.append (codePre (runText r)), refs, rest) := by
  simp only [codeP, detab_indent tab r hne hnl, List.isEmpty_nil, if_true]
  cases h : parent.last? with
  | none => rfl
  | some sib => simp only [hlast sib h]; rfl

/-- a further run of lines is appended to the code element: `"\n"`, the escaped run, `"\n"` -/
theorem codeP_more (tab : Nat) (refs : Refs) (parent : Node) (t : Str) (r : List Str) (rest : List Str)
    (hne : r ≠ []) (hnl : ∀ l ∈ r, '\n' ∉ l) :
    codeP tab refs (parent.append (codePre t)) (joinLines (indentLines tab r)) rest =
      (parent.append (codePre (t ++ '\n' :: runText r)), refs, rest) := by
  simp only [codeP, detab_indent tab r hne hnl, List.isEmpty_nil, if_true, last_append, preCode_codePre,
    setCodeText_codePre, fmtOpt]
  simp [runText, blockEscape_eq]

/-- an empty block after a code block: `"\n\n"` is appended to the code -/
theorem emptyP_nil (refs : Refs) (parent : Node) (t : Str) (rest : List Str) :
    emptyP refs (parent.append (codePre t)) [] rest = (parent.append (codePre (t ++ ['\n', '\n'])), refs, rest) := by
  simp only [emptyP, last_append, preCode_codePre, setCodeText_codePre, fmtOpt, List.isEmpty_nil, if_true,
    List.drop_nil]

/-- a block that starts with a line feed after a code block: `"\n"` is appended to the code and the rest of the
    block is put back -/
theorem emptyP_nl (refs : Refs) (parent : Node) (t : Str) (x : Str) (rest : List Str) (hx : x ≠ []) :
    emptyP refs (parent.append (codePre t)) ('\n' :: x) rest =
      (parent.append (codePre (t ++ ['\n'])), refs, x :: rest) := by
  have hx' : x.isEmpty = false := by cases x <;> simp_all
  simp only [emptyP, last_append, preCode_codePre, setCodeText_codePre, fmtOpt, List.isEmpty_cons, List.drop_one,
    List.tail_cons, hx', Bool.false_eq_true, if_false]

/-! ### the dispatch of the blocks of a code block -/

/-- an indented run starts with the indentation and a character of its first line -/
theorem indentRun_shape (tab : Nat) (c : Char) (l : Str) (ls : List Str) :
    ∃ t, joinLines (indentLines tab ((c :: l) :: ls)) = spaces tab ++ c :: t := by
  cases ls with
  | nil => exact ⟨l, by simp [indentLines, indentLine, joinLines]⟩
  | cons l2 ls =>
    exact ⟨l ++ '\n' :: joinLines (indentLines tab (l2 :: ls)), by
      simp [indentLines, indentLine, joinLines]⟩

theorem spaces_cons_shape (tab : Nat) (c : Char) (t : Str) (hc : c ≠ '\n') :
    ∃ d u, spaces tab ++ c :: t = d :: u ∧ d ≠ '\n' := by
  cases tab with
  | zero => exact ⟨c, t, by simp [spaces], hc⟩
  | succ n => exact ⟨' ', spaces n ++ c :: t, by simp [spaces, List.replicate_succ], by decide⟩

/-- the block of an indented run goes to `CodeBlockProcessor` (outside lists) -/
theorem dispatch_run (tab : Nat) (pb : PB) (state : List BState) (refs : Refs) (parent : Node) (c : Char) (l : Str)
    (ls : List Str) (rest : List Str) (hc : c ≠ '\n') (hp : isItemTag parent = false)
    (hl : ∀ sib, parent.last? = some sib → isListTag sib = false) :
    dispatch tab pb state refs parent (joinLines (indentLines tab ((c :: l) :: ls))) rest =
      some (codeP tab refs parent (joinLines (indentLines tab ((c :: l) :: ls))) rest) := by
  obtain ⟨t, ht⟩ := indentRun_shape tab c l ls
  obtain ⟨d, u, hdu, hd⟩ := spaces_cons_shape tab c t hc
  have e1 : ((joinLines (indentLines tab ((c :: l) :: ls))).isEmpty ||
      startsWith (joinLines (indentLines tab ((c :: l) :: ls))) ['\n']) = false := by
    rw [ht, hdu]; simp [startsWith, hd]
  have e2 : startsWith (joinLines (indentLines tab ((c :: l) :: ls))) (spaces tab) = true := by
    rw [ht]; exact startsWith_append_self _ _
  unfold dispatch
  cases h : parent.last? with
  | none => simp [e1, e2, hp]
  | some sib => simp [e1, e2, hp, hl sib h]

theorem dispatch_nil (tab : Nat) (pb : PB) (state : List BState) (refs : Refs) (parent : Node) (rest : List Str) :
    dispatch tab pb state refs parent [] rest = some (emptyP refs parent [] rest) := by
  unfold dispatch; simp

theorem dispatch_nl (tab : Nat) (pb : PB) (state : List BState) (refs : Refs) (parent : Node) (x : Str)
    (rest : List Str) :
    dispatch tab pb state refs parent ('\n' :: x) rest = some (emptyP refs parent ('\n' :: x) rest) := by
  unfold dispatch; simp [startsWith]

/-! ### the blocks of a code block -/

/-- what the lemmas need of a run: at least one line, every line non-empty and without line feed -/
def RunOk (r : List Str) : Prop := r ≠ [] ∧ ∀ l ∈ r, l ≠ [] ∧ '\n' ∉ l

theorem RunOk.shape {r : List Str} (h : RunOk r) : ∃ c l ls, r = (c :: l) :: ls ∧ c ≠ '\n' := by
  obtain ⟨hne, hl⟩ := h
  cases r with
  | nil => exact absurd rfl hne
  | cons a ls =>
    obtain ⟨h1, h2⟩ := hl a List.mem_cons_self
    cases a with
    | nil => exact absurd rfl h1
    | cons c l => exact ⟨c, l, ls, rfl, fun e => h2 (by simp [e])⟩

theorem RunOk.nl {r : List Str} (h : RunOk r) : ∀ l ∈ r, '\n' ∉ l := fun l hl => (h.2 l hl).2

/-- the indented text of a run -/
def indentRun (tab : Nat) (r : List Str) : Str := joinLines (indentLines tab r)

theorem indentLine_ne_nil (tab : Nat) {l : Str} (h : l ≠ []) : indentLine tab l ≠ [] := by
  cases l with
  | nil => exact absurd rfl h
  | cons c r => simp [indentLine]

theorem lines_indentRun (tab : Nat) {r : List Str} (h : RunOk r) : lines (indentRun tab r) = indentLines tab r := by
  apply joinLines_lines
  · simpa [indentLines] using h.1
  · intro p hp
    obtain ⟨l, hl, rfl⟩ := List.mem_map.1 hp
    exact not_nl_mem_indentLine (h.nl l hl)

open Escape in
/-- an indented run has no empty line -/
theorem tight_indentRun (tab : Nat) {r : List Str} (h : RunOk r) : noEmptyLineFrom true (indentRun tab r) = true := by
  rw [← lines_all_nonempty, lines_indentRun tab h, List.all_eq_true]
  intro p hp
  obtain ⟨l, hl, rfl⟩ := List.mem_map.1 hp
  have := indentLine_ne_nil tab (h.2 l hl).1
  cases hq : indentLine tab l with
  | nil => exact absurd hq this
  | cons => rfl

theorem indentRun_ne_nil (tab : Nat) {r : List Str} (h : RunOk r) : indentRun tab r ≠ [] := by
  obtain ⟨c, l, ls, rfl, hc⟩ := h.shape
  obtain ⟨t, ht⟩ := indentRun_shape tab c l ls
  obtain ⟨d, u, hdu, _⟩ := spaces_cons_shape tab c t hc
  unfold indentRun
  rw [ht, hdu]; simp

open Escape in
/-- `text.split("\n\n")`: a piece without empty line (after its first line when `b` is false) is split off -/
theorem splitAux_tight (b : Bool) (a : Str) (h : noEmptyLineFrom b a = true) (y : Str) :
    splitAux ['\n', '\n'] 0 (a ++ '\n' :: '\n' :: y) = a :: splitAux ['\n', '\n'] 0 y := by
  induction a generalizing b with
  | nil => simp [splitAux, startsWith]
  | cons c r ih =>
    by_cases hc : c = '\n'
    · subst hc
      simp only [noEmptyLineFrom, if_true, Bool.and_eq_true] at h
      have ih' := ih true h.2
      cases r with
      | nil => simp [noEmptyLineFrom] at h
      | cons d r' =>
        have hd : d ≠ '\n' := by
          intro e; subst e; simp [noEmptyLineFrom] at h
        simp only [List.cons_append] at ih' ⊢
        exact splitAux_step _ _ _ (by simp [startsWith, hd]) _ _ ih'
    · simp only [noEmptyLineFrom, hc, if_false] at h
      have ih' := ih false h
      simp only [List.cons_append]
      exact splitAux_step _ _ _ (by simp [startsWith, hc]) _ _ ih'

/-- the blocks that `e` further line feeds and a run give -/
def gapBlocks (tab : Nat) : Nat → List Str → List Str
  | 0, r => [indentRun tab r]
  | 1, r => ['\n' :: indentRun tab r]
  | e + 2, r => [] :: gapBlocks tab e r

/-- the text after the `"\n\n"` that ends the first run (with the `"\n\n"` that `NormalizeWhitespace` appends) -/
def restText (tab : Nat) : List (Nat × List Str) → Str
  | [] => []
  | er :: more => nls er.1 ++ indentRun tab er.2 ++ '\n' :: '\n' :: restText tab more

def restBlocks (tab : Nat) : List (Nat × List Str) → List Str
  | [] => [[]]
  | er :: more => gapBlocks tab er.1 er.2 ++ restBlocks tab more

open Escape in
theorem splitAux_gap (tab : Nat) (r : List Str) (h : RunOk r) (y : Str) :
    ∀ e, splitAux ['\n', '\n'] 0 (nls e ++ indentRun tab r ++ '\n' :: '\n' :: y) =
      gapBlocks tab e r ++ splitAux ['\n', '\n'] 0 y
  | 0 => by
    simp only [nls, List.replicate_zero, List.nil_append, gapBlocks, List.singleton_append]
    exact splitAux_tight true _ (tight_indentRun tab h) y
  | 1 => by
    have : noEmptyLineFrom false ('\n' :: indentRun tab r) = true := by
      simp [noEmptyLineFrom, tight_indentRun tab h]
    simpa [nls, gapBlocks] using splitAux_tight false _ this y
  | e + 2 => by
    have ih := splitAux_gap tab r h y e
    have h2 : nls (e + 2) ++ indentRun tab r ++ '\n' :: '\n' :: y =
        [] ++ '\n' :: '\n' :: (nls e ++ indentRun tab r ++ '\n' :: '\n' :: y) := by
      simp [nls, List.replicate_succ]
    rw [h2, splitAux_tight false [] rfl, ih]
    rfl

theorem splitS_restText (tab : Nat) (more : List (Nat × List Str)) (h : ∀ er ∈ more, RunOk er.2) :
    splitS ['\n', '\n'] (restText tab more) = restBlocks tab more := by
  induction more with
  | nil => rfl
  | cons er more ih =>
    have ih' := ih (fun x hx => h x (List.mem_cons_of_mem _ hx))
    simp only [splitS] at ih' ⊢
    simp only [restText, restBlocks]
    rw [splitAux_gap tab er.2 (h er List.mem_cons_self), ih']

open Escape in
/-- the blocks of the source of a code block (with the `"\n\n"` that `NormalizeWhitespace` appends) -/
theorem splitS_codeSource (tab : Nat) (first : List Str) (more : List (Nat × List Str)) (h1 : RunOk first)
    (h : ∀ er ∈ more, RunOk er.2) :
    splitS ['\n', '\n'] (codeSource tab first more ++ ['\n', '\n']) = indentRun tab first :: restBlocks tab more := by
  have e : ∀ more : List (Nat × List Str),
      more.flatMap (fun er => nls (er.1 + 2) ++ joinLines (indentLines tab er.2)) ++ ['\n', '\n'] =
        '\n' :: '\n' :: restText tab more := by
    intro more
    induction more with
    | nil => rfl
    | cons er more ih =>
      simp only [List.flatMap_cons, List.append_assoc, ih, restText, indentRun]
      simp [nls, List.replicate_succ]
  simp only [codeSource, runsText, List.append_assoc, e]
  rw [← splitS_restText tab more h]
  exact splitAux_tight true _ (tight_indentRun tab h1) _

/-! ### the block parser on the blocks of a code block -/

theorem parseBlocks_step (tab f : Nat) (state : List BState) (refs : Refs) (parent : Node) (b : Str)
    (rest : List Str) :
    parseBlocks tab (f + 1) state refs parent (b :: rest) =
      match dispatch tab (parseBlocks tab f) state refs parent b rest with
      | some (parent, refs, blocks) => parseBlocks tab f state refs parent blocks
      | none => none := rfl

/-- the blank lines before a further run and the run: fillers and the run are appended to the code text -/
theorem parse_gap (tab : Nat) (state : List BState) (refs : Refs) (parent : Node) (hp : isItemTag parent = false)
    (r : List Str) (h : RunOk r) (bs : List Str) :
    ∀ (e : Nat) (t : Str) (f : Nat), ∃ k,
      parseBlocks tab (f + k) state refs (parent.append (codePre t)) (gapBlocks tab e r ++ bs) =
        parseBlocks tab f state refs (parent.append (codePre (t ++ nls (e + 1) ++ runText r))) bs
  | 0, t, f => by
    obtain ⟨c, l, ls, rfl, hc⟩ := h.shape
    refine ⟨1, ?_⟩
    simp only [gapBlocks, List.singleton_append, parseBlocks_step, indentRun]
    rw [dispatch_run tab _ state refs _ c l ls bs hc (by rw [isItemTag_append]; exact hp)
      (fun sib hs => by rw [last_append] at hs; cases hs; exact isListTag_codePre t),
      codeP_more tab refs parent t _ bs h.1 h.nl]
    simp [nls]
  | 1, t, f => by
    obtain ⟨c, l, ls, rfl, hc⟩ := h.shape
    refine ⟨2, ?_⟩
    have hne := indentRun_ne_nil tab h
    simp only [gapBlocks, List.singleton_append, parseBlocks_step, dispatch_nl,
      emptyP_nl refs parent t _ bs hne]
    simp only [indentRun]
    rw [dispatch_run tab _ state refs _ c l ls bs hc (by rw [isItemTag_append]; exact hp)
      (fun sib hs => by rw [last_append] at hs; cases hs; exact isListTag_codePre _),
      codeP_more tab refs parent _ _ bs h.1 h.nl]
    simp [nls, List.replicate_succ]
  | e + 2, t, f => by
    obtain ⟨k, hk⟩ := parse_gap tab state refs parent hp r h bs e (t ++ ['\n', '\n']) f
    refine ⟨k + 1, ?_⟩
    rw [← Nat.add_assoc]
    simp only [gapBlocks, List.cons_append, parseBlocks_step, dispatch_nil, emptyP_nil]
    rw [hk]
    simp [nls, List.replicate_succ]

/-- all the further runs and the empty block at the end -/
theorem parse_rest (tab : Nat) (state : List BState) (refs : Refs) (parent : Node) (hp : isItemTag parent = false)
    (more : List (Nat × List Str)) (h : ∀ er ∈ more, RunOk er.2) (t : Str) :
    ∃ f, parseBlocks tab f state refs (parent.append (codePre t)) (restBlocks tab more) =
      some (parent.append (codePre (t ++ more.flatMap (fun er => nls (er.1 + 1) ++ runText er.2) ++ ['\n', '\n'])),
        refs) := by
  induction more generalizing t with
  | nil =>
    refine ⟨1, ?_⟩
    simp only [restBlocks, parseBlocks_step, dispatch_nil, emptyP_nil]
    simp [parseBlocks]
  | cons er more ih =>
    obtain ⟨f, hf⟩ := ih (fun x hx => h x (List.mem_cons_of_mem _ hx)) (t ++ nls (er.1 + 1) ++ runText er.2)
    obtain ⟨k, hk⟩ := parse_gap tab state refs parent hp er.2 (h er List.mem_cons_self) (restBlocks tab more) er.1 t f
    refine ⟨f + k, ?_⟩
    simp only [restBlocks]
    rw [hk, hf]
    simp [List.append_assoc]

/-- **the block parser on a code block**: one `<pre><code>` whose atomic text is `codeAccum` and `"\n\n"` -/
theorem parseDocument_code (tab : Nat) (first : List Str) (more : List (Nat × List Str)) (h1 : RunOk first)
    (h : ∀ er ∈ more, RunOk er.2) :
    parseDocument tab (codeSource tab first more ++ ['\n', '\n']) =
      some ((Node.el "div").append (codePre (codeAccum first more ++ ['\n', '\n'])), []) := by
  obtain ⟨c, l, ls, rfl, hc⟩ := h1.shape
  obtain ⟨f, hf⟩ := parse_rest tab [] [] (Node.el "div") rfl more h (runText ((c :: l) :: ls))
  have key : parseBlocks tab (f + 1) [] [] (Node.el "div")
      (splitS ['\n', '\n'] (codeSource tab ((c :: l) :: ls) more ++ ['\n', '\n'])) =
      some ((Node.el "div").append (codePre (codeAccum ((c :: l) :: ls) more ++ ['\n', '\n'])), []) := by
    rw [splitS_codeSource tab _ more h1 h, parseBlocks_step]
    simp only [indentRun]
    rw [dispatch_run tab _ [] [] _ c l ls _ hc rfl (fun sib hs => by simp [Node.last?, Node.el] at hs),
      codeP_fresh tab [] _ _ _ h1.1 h1.nl (fun sib hs => by simp [Node.last?, Node.el] at hs)]
    simpa [codeAccum] using hf
  obtain ⟨r, hr⟩ := Option.isSome_iff_exists.1 (parseDocument_total tab (codeSource tab ((c :: l) :: ls) more ++ ['\n', '\n']))
  rw [hr]
  simp only [parseDocument, parseDocumentWith, parseChunk] at hr
  have a1 := parseBlocks_fuel_mono (fuelFor (codeSource tab ((c :: l) :: ls) more ++ ['\n', '\n']).length) key
  have a2 := parseBlocks_fuel_mono (f + 1) hr
  rw [Nat.add_comm] at a2
  rw [a2] at a1
  exact a1

/-! ### `NormalizeWhitespace` on the source of a code block -/

open Normalize in
/-- a line without line feed read from the state "not after a line feed" is copied -/
theorem ws_none_line (z y : Str) (h : '\n' ∉ z) :
    wsLinesAux none (z ++ '\n' :: y) = z ++ '\n' :: wsLinesAux (some 0) y := by
  induction z with
  | nil => simp [wsLinesAux]
  | cons c z ih =>
    have hc : c ≠ '\n' := fun e => h (by simp [e])
    have hz : '\n' ∉ z := fun e => h (List.mem_cons_of_mem _ e)
    simp [wsLinesAux, hc, ih hz]

theorem ink_decomp (l : Str) (h : l.any (· != ' ') = true) :
    ∃ m c z, l = List.replicate m ' ' ++ c :: z ∧ c ≠ ' ' := by
  induction l with
  | nil => simp at h
  | cons d l ih =>
    by_cases hd : d = ' '
    · subst hd
      obtain ⟨m, c, z, hl, hc⟩ := ih (by simpa using h)
      exact ⟨m + 1, c, z, by simp [List.replicate_succ, hl], hc⟩
    · exact ⟨0, d, l, by simp, hd⟩

open Normalize in
/-- a line that is empty or has a character other than a space is copied after a line feed as well -/
theorem ws_some_line (l y : Str) (h : '\n' ∉ l) (hi : l = [] ∨ l.any (· != ' ') = true) :
    wsLinesAux (some 0) (l ++ '\n' :: y) = l ++ '\n' :: wsLinesAux (some 0) y := by
  rcases hi with rfl | hi
  · simp [wsLinesAux]
  · obtain ⟨m, c, z, rfl, hc⟩ := ink_decomp l hi
    have hcn : c ≠ '\n' := fun e => h (by simp [e])
    have hz : '\n' ∉ z := fun e => h (by simp [e])
    rw [List.append_assoc, List.cons_append, wsLinesAux_some_visible 0 m c hc hcn, ws_none_line z y hz]
    simp

open Normalize in
/-- a line whose first character is not white space is copied from a line start — the state in which
    `NormalizeWhitespace` starts since the repair a0e7e3c of F-C09-1 -/
theorem ws_some_line_of_head (c0 : Char) (r0 y : Str) (h : '\n' ∉ c0 :: r0) (hc : isSpace c0 = false) :
    wsLinesAux (some 0) ((c0 :: r0) ++ '\n' :: y) = (c0 :: r0) ++ '\n' :: wsLinesAux (some 0) y := by
  have hne : c0 ≠ ' ' := by intro e; subst e; revert hc; decide
  exact ws_some_line _ _ h (Or.inr (by simp [hne]))

open Normalize in
theorem ws_line (st : Option Nat) (hst : st = none ∨ st = some 0) (l y : Str) (h : '\n' ∉ l)
    (hi : l = [] ∨ l.any (· != ' ') = true) :
    wsLinesAux st (l ++ '\n' :: y) = l ++ '\n' :: wsLinesAux (some 0) y := by
  rcases hst with rfl | rfl
  · exact ws_none_line l y h
  · exact ws_some_line l y h hi

/-- what the normalisation lemmas need of a run -/
def RunInk (r : List Str) : Prop := r ≠ [] ∧ ∀ l ∈ r, '\n' ∉ l ∧ l.any (· != ' ') = true

theorem RunInk.ok {r : List Str} (h : RunInk r) : RunOk r :=
  ⟨h.1, fun l hl => ⟨by
    have := (h.2 l hl).2
    intro e; subst e; simp at this, (h.2 l hl).1⟩⟩

theorem ink_indentLine (tab : Nat) {l : Str} (h : l.any (· != ' ') = true) :
    (indentLine tab l).any (· != ' ') = true := by
  cases l with
  | nil => simp at h
  | cons c r =>
    simp only [indentLine, List.isEmpty_cons, Bool.false_eq_true, if_false, List.any_append, Bool.or_eq_true]
    exact Or.inr h

theorem not_nl_mem_indentLine' (tab : Nat) {l : Str} (h : '\n' ∉ l) : '\n' ∉ indentLine tab l :=
  not_nl_mem_indentLine h

open Normalize in
theorem ws_run (tab : Nat) (st : Option Nat) (hst : st = none ∨ st = some 0) (r : List Str) (h : RunInk r) (y : Str) :
    wsLinesAux st (indentRun tab r ++ '\n' :: y) = indentRun tab r ++ '\n' :: wsLinesAux (some 0) y := by
  obtain ⟨hne, hl⟩ := h
  induction r generalizing st with
  | nil => exact absurd rfl hne
  | cons a r ih =>
    have ha := hl a List.mem_cons_self
    cases r with
    | nil =>
      simp only [indentRun, indentLines, List.map_cons, List.map_nil, joinLines, join_singleton]
      exact ws_line st hst _ y (not_nl_mem_indentLine ha.1) (Or.inr (ink_indentLine tab ha.2))
    | cons b r =>
      have ih' := ih (some 0) (Or.inr rfl) (by simp) (fun l hl' => hl l (List.mem_cons_of_mem _ hl'))
      simp only [indentRun, indentLines, List.map_cons, joinLines, join_cons_cons, List.append_assoc,
        List.cons_append, List.nil_append] at ih' ⊢
      rw [ws_line st hst _ _ (not_nl_mem_indentLine ha.1) (Or.inr (ink_indentLine tab ha.2)), ih']

open Normalize in
theorem ws_nls (k : Nat) (y : Str) : wsLinesAux (some 0) (nls k ++ y) = nls k ++ wsLinesAux (some 0) y := by
  induction k with
  | zero => rfl
  | succ k ih => simp only [nls, List.replicate_succ, List.cons_append] at ih ⊢; rw [wsLinesAux_nl, ih]

open Normalize in
theorem ws_restText (tab : Nat) (more : List (Nat × List Str)) (h : ∀ er ∈ more, RunInk er.2) :
    wsLinesAux (some 0) (restText tab more) = restText tab more := by
  induction more with
  | nil => rfl
  | cons er more ih =>
    simp only [restText, List.append_assoc]
    rw [ws_nls, ws_run tab _ (Or.inr rfl) _ (h er List.mem_cons_self), wsLinesAux_nl,
      ih (fun x hx => h x (List.mem_cons_of_mem _ hx))]

theorem codeSource_nl2 (tab : Nat) (first : List Str) (more : List (Nat × List Str)) :
    codeSource tab first more ++ ['\n', '\n'] = indentRun tab first ++ '\n' :: '\n' :: restText tab more := by
  have e : ∀ more : List (Nat × List Str),
      more.flatMap (fun er => nls (er.1 + 2) ++ joinLines (indentLines tab er.2)) ++ ['\n', '\n'] =
        '\n' :: '\n' :: restText tab more := by
    intro more
    induction more with
    | nil => rfl
    | cons er more ih =>
      simp only [List.flatMap_cons, List.append_assoc, ih, restText, indentRun]
      simp [nls, List.replicate_succ]
  simp only [codeSource, runsText, List.append_assoc, e, indentRun]

open Normalize in
theorem ws_codeSource (tab : Nat) (first : List Str) (more : List (Nat × List Str)) (h1 : RunInk first)
    (h : ∀ er ∈ more, RunInk er.2) :
    wsLinesAux (some 0) (codeSource tab first more ++ ['\n', '\n']) = codeSource tab first more ++ ['\n', '\n'] := by
  -- from a line start (`some 0`): the start state of `NormalizeWhitespace` since the repair a0e7e3c of F-C09-1
  rw [codeSource_nl2, ws_run tab (some 0) (Or.inr rfl) first h1, wsLinesAux_nl, ws_restText tab more h]

/-- the characters of the source of a code block: those of its lines, spaces and line feeds -/
theorem mem_indentRun {tab : Nat} {r : List Str} {c : Char} (h : c ∈ indentRun tab r) :
    c = '\n' ∨ c = ' ' ∨ ∃ l ∈ r, c ∈ l := by
  induction r with
  | nil => simp [indentRun, indentLines, joinLines] at h
  | cons a r ih =>
    have hm : c ∈ indentLine tab a → c = ' ' ∨ c ∈ a := by
      intro hc
      unfold indentLine at hc
      split at hc
      · simp at hc
      · rcases List.mem_append.1 hc with hc | hc
        · exact Or.inl (List.eq_of_mem_replicate hc)
        · exact Or.inr hc
    cases r with
    | nil =>
      simp only [indentRun, indentLines, List.map_cons, List.map_nil, joinLines, join_singleton] at h
      rcases hm h with h | h
      · exact Or.inr (Or.inl h)
      · exact Or.inr (Or.inr ⟨a, List.mem_cons_self, h⟩)
    | cons b r =>
      simp only [indentRun, indentLines, List.map_cons, joinLines, join_cons_cons, List.mem_append,
        List.mem_singleton] at h ih
      rcases h with (h | h) | h
      · rcases hm h with h | h
        · exact Or.inr (Or.inl h)
        · exact Or.inr (Or.inr ⟨a, List.mem_cons_self, h⟩)
      · exact Or.inl h
      · rcases ih h with h | h | ⟨l, hl, hc⟩
        · exact Or.inl h
        · exact Or.inr (Or.inl h)
        · exact Or.inr (Or.inr ⟨l, List.mem_cons_of_mem _ hl, hc⟩)

theorem mem_codeSource {tab : Nat} {first : List Str} {more : List (Nat × List Str)} {c : Char}
    (h : c ∈ codeSource tab first more) :
    c = '\n' ∨ c = ' ' ∨ (∃ l ∈ first, c ∈ l) ∨ ∃ er ∈ more, ∃ l ∈ er.2, c ∈ l := by
  simp only [codeSource, runsText, List.mem_append, List.mem_flatMap] at h
  rcases h with h | ⟨er, her, h | h⟩
  · rcases mem_indentRun (tab := tab) h with h | h | h
    · exact Or.inl h
    · exact Or.inr (Or.inl h)
    · exact Or.inr (Or.inr (Or.inl h))
  · exact Or.inl (List.eq_of_mem_replicate h)
  · rcases mem_indentRun (tab := tab) h with h | h | h
    · exact Or.inl h
    · exact Or.inr (Or.inl h)
    · exact Or.inr (Or.inr (Or.inr ⟨er, her, h⟩))

/-- `NormalizeWhitespace` only appends `"\n\n"` to a text without STX, ETX, CR, tab whose scanner image is itself -/
theorem normalize_of_clean (tab : Nat) (s : Str)
    (hmem : ∀ c ∈ s, c ≠ Normalize.STX ∧ c ≠ Normalize.ETX ∧ c ≠ '\r' ∧ c ≠ '\t')
    (hws : Normalize.wsLinesAux (some 0) (s ++ ['\n', '\n']) = s ++ ['\n', '\n']) :
    Normalize.normalize tab s = s ++ ['\n', '\n'] := by
  have h1 : Normalize.stripCtl s = s := by
    rw [Normalize.stripCtl_eq_filter, List.filter_eq_self]
    intro c hc
    have := hmem c hc
    simp [Normalize.notCtl, this.1, this.2.1]
  have h2 : Normalize.nlAux false s = s := Normalize.nlAux_id _ (fun c hc => (hmem c hc).2.2.1)
  have h3 : expandtabsAux tab 0 (s ++ ['\n', '\n']) = s ++ ['\n', '\n'] := by
    apply Normalize.expandtabsAux_id
    intro c hc
    rcases List.mem_append.1 hc with hc | hc
    · exact (hmem c hc).2.2.2
    · have : c = '\n' := by simpa using hc
      subst this; decide
  rw [Normalize.normalize_eq, h1, h2, h3, hws]

/-! ### the raw-HTML preprocessor leaves a text with closed references alone -/

theorem refsClosed_cons {c : Char} {r : Str} (h : refsClosed (c :: r) = true) : refsClosed r = true := by
  simp only [refsClosed, Bool.and_eq_true] at h; exact h.2

theorem refsClosed_drop (k : Nat) {s : Str} (h : refsClosed s = true) : refsClosed (s.drop k) = true := by
  induction k generalizing s with
  | zero => simpa using h
  | succ k ih =>
    cases s with
    | nil => simpa using h
    | cons c r => simpa using ih (refsClosed_cons h)

/-- a reference that the parser recognises in a text with closed references ends with `;` -/
theorem charref_terminated (r : Str) (e : Nat) (hc : refClosedAt r = true)
    (he : Extract.charrefAt ('&' :: r) = some e) : 3 ≤ e ∧ ('&' :: r)[e - 1]? = some ';' := by
  cases r with
  | nil => simp [Extract.charrefAt] at he
  | cons h r1 =>
    by_cases hh : h = '#'
    case neg => simp [Extract.charrefAt, hh] at he
    subst hh
    simp only [Extract.charrefAt, decide_true, Bool.and_self, if_true] at he
    simp only [refClosedAt] at hc
    by_cases hq : spanLen isAsciiDigit r1 > 0
    · simp only [hq, if_true, decide_true, Bool.true_and] at he hc
      cases hx : r1[spanLen isAsciiDigit r1]? with
      | none => rw [hx] at hc; simp at hc
      | some c =>
        rw [hx] at hc
        have hn : Extract.nonHexAt r1 (spanLen isAsciiDigit r1) = !isHexDigit c := by
          simp [Extract.nonHexAt, hx]
        rw [hn] at he
        cases hhex : isHexDigit c with
        | true =>
          simp only [hhex, Bool.not_true, Bool.false_eq_true, if_false] at he
          cases r1 with
          | nil => simp at he
          | cons x r2 =>
            cases hxd : isAsciiDigit x with
            | false => simp [spanLen, hxd] at hq
            | true =>
              have : ¬ (x = 'x' ∨ x = 'X') := by
                rintro (rfl | rfl) <;> simp [isAsciiDigit] at hxd
              simp [this] at he
        | false =>
          have hc' : c = ';' := by simpa [hhex] using hc
          simp only [hhex, Bool.not_false, if_true, Option.some.injEq] at he
          subst he
          refine ⟨by omega, ?_⟩
          show ('&' :: '#' :: r1)[spanLen isAsciiDigit r1 + 2]? = some ';'
          simp [hx, hc']
    · have hq0 : spanLen isAsciiDigit r1 = 0 := by omega
      simp only [hq0, Nat.lt_irrefl, decide_false, Bool.false_and, Bool.false_eq_true, if_false] at he hc
      cases r1 with
      | nil => simp at he
      | cons x r2 =>
        simp only at he hc
        cases hx' : (decide (x = 'x') || decide (x = 'X')) with
        | false => simp [hx'] at he
        | true =>
          simp only [hx', if_true] at he hc
          by_cases hk : spanLen isHexDigit r2 > 0
          · simp only [hk, if_true, decide_true, Bool.true_and] at he hc
            split at he
            · simp only [Option.some.injEq] at he
              subst he
              refine ⟨by omega, ?_⟩
              show ('&' :: '#' :: x :: r2)[spanLen isHexDigit r2 + 3]? = some ';'
              simpa using hc
            · simp at he
          · have hk0 : spanLen isHexDigit r2 = 0 := by omega
            simp [hk0] at he

theorem take_charref (r : Str) (e : Nat) (he : 3 ≤ e) (hs : ('&' :: '#' :: r)[e - 1]? = some ';') :
    '&' :: '#' :: (Extract.slice ('&' :: '#' :: r) 2 (e - 1) ++ [';']) = ('&' :: '#' :: r).take e := by
  obtain ⟨n, rfl⟩ : ∃ n, e = n + 3 := ⟨e - 3, by omega⟩
  have h1 : n + 3 - 1 = n + 2 := by omega
  rw [h1] at hs ⊢
  have hs' : r[n]? = some ';' := by simpa using hs
  have h2 : n + 2 - 2 = n := by omega
  simp only [Extract.slice, List.drop_succ_cons, List.drop_zero, h2,
    show n + 3 = (n + 1) + 1 + 1 by omega, List.take_succ_cons]
  congr 2
  rw [List.take_add_one, hs']
  rfl

/-- `goahead` on a text with closed references splits it: the emitted text and the unread rest are the text -/
theorem goahead_split (end_ : Bool) (f : Nat) (s : Str) (h : refsClosed s = true) :
    ∃ k, Extract.goahead end_ f s = (s.take k, s.drop k) := by
  induction f generalizing s with
  | zero => exact ⟨0, by simp [Extract.goahead]⟩
  | succ f ih =>
    cases s with
    | nil => exact ⟨0, by simp [Extract.goahead]⟩
    | cons c r =>
      have hr := refsClosed_cons h
      by_cases hc : c = '&'
      · subst hc
        have hcl : refClosedAt r = true := by
          simp only [refsClosed, Bool.and_eq_true] at h; simpa using h.1
        simp only [Extract.goahead, bne_self_eq_false, Bool.false_eq_true, if_false]
        by_cases hs : startsWith r ['#'] = true
        · simp only [hs, if_true]
          cases he : Extract.charrefAt ('&' :: r) with
          | none =>
            simp only [Extract.leave]
            by_cases hsemi : ('&' :: r).contains ';' = true
            · simp only [hsemi, if_true]
              obtain ⟨t, rfl⟩ := startsWith_iff_prefix.1 hs
              cases end_
              · exact ⟨2, by simp⟩
              · exact ⟨('&' :: (['#'] ++ t)).length, by simp⟩
            · simp only [hsemi, Bool.false_eq_true, if_false]
              cases end_
              · exact ⟨0, by simp⟩
              · exact ⟨('&' :: r).length, by simp⟩
          | some e =>
            obtain ⟨h3, hsem⟩ := charref_terminated r e hcl he
            obtain ⟨t, rfl⟩ := startsWith_iff_prefix.1 hs
            simp only [List.singleton_append] at hsem he ⊢
            simp only [hsem, BEq.rfl, if_true]
            obtain ⟨k, hk⟩ := ih (('&' :: '#' :: t).drop e) (refsClosed_drop e h)
            rw [hk]
            refine ⟨e + k, ?_⟩
            simp only [Prod.mk.injEq]
            constructor
            · rw [List.take_add, ← take_charref t e h3 hsem]; simp
            · rw [List.drop_drop]
        · simp only [hs, Bool.false_eq_true, if_false]
          cases he : Extract.entityrefAt ('&' :: r) with
          | some e =>
            obtain ⟨k, hk⟩ := ih (('&' :: r).drop e) (refsClosed_drop e h)
            simp only [hk]
            exact ⟨e + k, by simp [List.take_add, List.drop_drop]⟩
          | none =>
            simp only
            by_cases hre : r.isEmpty = true
            · simp only [hre, if_true, Extract.leave]
              cases end_
              · exact ⟨0, by simp⟩
              · exact ⟨('&' :: r).length, by simp⟩
            · simp only [hre, Bool.false_eq_true, if_false]
              obtain ⟨k, hk⟩ := ih r hr
              simp only [hk]
              exact ⟨k + 1, by simp⟩
      · simp only [Extract.goahead, bne_iff_ne, ne_eq, hc, not_false_eq_true, if_true]
        obtain ⟨k, hk⟩ := ih r hr
        simp only [hk]
        exact ⟨k + 1, by simp⟩

/-- the raw-HTML preprocessor gives a `<`-free text with closed references back unchanged -/
theorem extract_id (s : Str) (h : refsClosed s = true) : Extract.extract s = s := by
  unfold Extract.extract
  obtain ⟨k1, h1⟩ := goahead_split false (s.length + 1) s h
  simp only [h1]
  obtain ⟨k2, h2⟩ := goahead_split true ((s.drop k1).length + 1) (s.drop k1) (refsClosed_drop k1 h)
  simp only [h2]
  rw [List.append_assoc, List.take_append_drop, List.take_append_drop]

/-! ### closed references are kept by concatenation at a neutral character -/

/-- a character that cannot continue a numeric character reference -/
def isNeutral (c : Char) : Bool := !isHexDigit c && c != '#' && c != 'x' && c != 'X'

theorem spanLen_append_stop (p : Char → Bool) (a : Str) (c : Char) (b : Str) (h : p c = false) :
    spanLen p (a ++ c :: b) = spanLen p a := by
  induction a with
  | nil => simp [spanLen, h]
  | cons d a ih =>
    by_cases hd : p d = true
    · simp [spanLen, hd, ih]
    · simp [spanLen, hd]

theorem getElem?_append_of_some {a : Str} {i : Nat} {c : Char} (h : a[i]? = some c) (b : Str) :
    (a ++ b)[i]? = some c := by
  have hi : i < a.length := by
    apply Decidable.by_contra
    intro hn
    rw [List.getElem?_eq_none (by omega)] at h
    cases h
  rw [List.getElem?_append_left hi, h]

theorem isNeutral_spec {c : Char} (h : isNeutral c = true) :
    isHexDigit c = false ∧ isAsciiDigit c = false ∧ c ≠ '#' ∧ c ≠ 'x' ∧ c ≠ 'X' := by
  simp only [isNeutral, Bool.and_eq_true, Bool.not_eq_true', bne_iff_ne, ne_eq] at h
  obtain ⟨⟨⟨h1, h2⟩, h3⟩, h4⟩ := h
  refine ⟨h1, ?_, h2, h3, h4⟩
  simp only [isHexDigit, Bool.or_eq_false_iff] at h1
  exact h1.1.1

theorem refClosedAt_append (r : Str) (c : Char) (b : Str) (hn : isNeutral c = true) (h : refClosedAt r = true) :
    refClosedAt (r ++ c :: b) = true := by
  obtain ⟨n1, n2, n3, n4, n5⟩ := isNeutral_spec hn
  cases r with
  | nil =>
    simp only [List.nil_append]
    unfold refClosedAt
    split
    · rename_i heq; simp only [List.cons.injEq] at heq; exact absurd heq.1 n3
    · rfl
  | cons h0 r1 =>
    by_cases hh : h0 = '#'
    case neg =>
      simp only [List.cons_append]
      unfold refClosedAt
      split
      · rename_i heq; simp only [List.cons.injEq] at heq; exact absurd heq.1 hh
      · rfl
    subst hh
    simp only [List.cons_append, refClosedAt] at h ⊢
    rw [spanLen_append_stop _ _ _ _ n2]
    by_cases hq : spanLen isAsciiDigit r1 > 0
    · simp only [hq, if_true] at h ⊢
      cases hx : r1[spanLen isAsciiDigit r1]? with
      | none => rw [hx] at h; simp at h
      | some ch =>
        rw [hx] at h
        rw [getElem?_append_of_some hx]
        exact h
    · simp only [hq, if_false] at h ⊢
      cases r1 with
      | nil =>
        simp only [List.nil_append]
        have : (decide (c = 'x') || decide (c = 'X')) = false := by simp [n4, n5]
        simp [this]
      | cons x r2 =>
        simp only [List.cons_append] at h ⊢
        cases hx' : (decide (x = 'x') || decide (x = 'X')) with
        | false => simp
        | true =>
          simp only [hx', if_true] at h ⊢
          rw [spanLen_append_stop _ _ _ _ n1]
          by_cases hk : spanLen isHexDigit r2 > 0
          · simp only [hk, if_true] at h ⊢
            have h' : r2[spanLen isHexDigit r2]? = some ';' := by simpa using h
            rw [getElem?_append_of_some h']
            simp
          · simp [hk]

theorem refsClosed_append (a : Str) (c : Char) (b : Str) (hn : isNeutral c = true) (ha : refsClosed a = true)
    (hb : refsClosed (c :: b) = true) : refsClosed (a ++ c :: b) = true := by
  induction a with
  | nil => exact hb
  | cons d a ih =>
    simp only [refsClosed, Bool.and_eq_true, Bool.or_eq_true, bne_iff_ne, ne_eq] at ha
    simp only [List.cons_append, refsClosed, Bool.and_eq_true, Bool.or_eq_true, bne_iff_ne, ne_eq]
    refine ⟨?_, ih ha.2⟩
    rcases ha.1 with h | h
    · exact Or.inl h
    · exact Or.inr (refClosedAt_append a c b hn h)

theorem refsClosed_cons_of_ne {c : Char} (hc : c ≠ '&') {r : Str} (h : refsClosed r = true) :
    refsClosed (c :: r) = true := by
  simp [refsClosed, hc, h]

theorem refsClosed_spaces (n : Nat) {r : Str} (h : refsClosed r = true) : refsClosed (spaces n ++ r) = true := by
  induction n with
  | zero => simpa [spaces] using h
  | succ n ih =>
    simp only [spaces, List.replicate_succ, List.cons_append] at ih ⊢
    exact refsClosed_cons_of_ne (by decide) ih

theorem refsClosed_nls (n : Nat) {r : Str} (h : refsClosed r = true) : refsClosed (nls n ++ r) = true := by
  induction n with
  | zero => simpa [nls] using h
  | succ n ih =>
    simp only [nls, List.replicate_succ, List.cons_append] at ih ⊢
    exact refsClosed_cons_of_ne (by decide) ih

theorem refsClosed_indentLine (tab : Nat) {l : Str} (h : refsClosed l = true) :
    refsClosed (indentLine tab l) = true := by
  unfold indentLine
  split
  · rfl
  · exact refsClosed_spaces tab h

/-- what the extractor lemmas need of a run -/
def RunRefs (r : List Str) : Prop := ∀ l ∈ r, refsClosed l = true

theorem refsClosed_indentRun_nl (tab : Nat) (r : List Str) (h : RunRefs r) (y : Str) (hy : refsClosed y = true) :
    refsClosed (indentRun tab r ++ '\n' :: y) = true := by
  induction r with
  | nil => simpa [indentRun, indentLines, joinLines] using refsClosed_cons_of_ne (by decide) hy
  | cons a r ih =>
    have ha := refsClosed_indentLine tab (h a List.mem_cons_self)
    have hy' : refsClosed ('\n' :: y) = true := refsClosed_cons_of_ne (by decide) hy
    cases r with
    | nil =>
      simp only [indentRun, indentLines, List.map_cons, List.map_nil, joinLines, join_singleton]
      exact refsClosed_append _ '\n' y (by decide) ha hy'
    | cons b r =>
      have ih' := ih (fun l hl => h l (List.mem_cons_of_mem _ hl))
      simp only [indentRun, indentLines, List.map_cons, joinLines, join_cons_cons, List.append_assoc,
        List.cons_append, List.nil_append] at ih' ⊢
      exact refsClosed_append _ '\n' _ (by decide) ha (refsClosed_cons_of_ne (by decide) ih')

theorem refsClosed_restText (tab : Nat) (more : List (Nat × List Str)) (h : ∀ er ∈ more, RunRefs er.2) :
    refsClosed (restText tab more) = true := by
  induction more with
  | nil => rfl
  | cons er more ih =>
    simp only [restText, List.append_assoc]
    apply refsClosed_nls
    apply refsClosed_indentRun_nl tab _ (h er List.mem_cons_self)
    exact refsClosed_cons_of_ne (by decide) (ih (fun x hx => h x (List.mem_cons_of_mem _ hx)))

theorem refsClosed_codeSource (tab : Nat) (first : List Str) (more : List (Nat × List Str)) (h1 : RunRefs first)
    (h : ∀ er ∈ more, RunRefs er.2) : refsClosed (codeSource tab first more ++ ['\n', '\n']) = true := by
  rw [codeSource_nl2]
  apply refsClosed_indentRun_nl tab _ h1
  exact refsClosed_cons_of_ne (by decide) (refsClosed_restText tab more h)

/-! ### algebra of `code_escape` -/

open Code in
theorem codeEscape_append (a b : Str) : Code.codeEscape (a ++ b) = Code.codeEscape a ++ Code.codeEscape b := by
  simp only [codeEscape_onepass, codeEscape1_eq_flatMap, List.flatMap_append]

open Code in
theorem codeEscape_plain (s : Str) (h : ∀ c ∈ s, c ≠ '&' ∧ c ≠ '<' ∧ c ≠ '>') : Code.codeEscape s = s := by
  rw [codeEscape_onepass]
  induction s with
  | nil => rfl
  | cons c r ih =>
    obtain ⟨h1, h2, h3⟩ := h c List.mem_cons_self
    simp [codeEscape1, esc1Char, h1, h2, h3, ih (fun d hd => h d (List.mem_cons_of_mem _ hd))]

theorem space_plain {c : Char} (h : isSpace c = true) : c ≠ '&' ∧ c ≠ '<' ∧ c ≠ '>' := by
  refine ⟨?_, ?_, ?_⟩ <;> (intro e; subst e; revert h; decide)

open Code in
theorem codeEscape_nls (n : Nat) : Code.codeEscape (nls n) = nls n :=
  codeEscape_plain _ (fun c hc => by
    have := List.eq_of_mem_replicate hc
    subst this; decide)

open Code in
/-- the last character of escaped code is white space only if the last character of the code is -/
theorem codeEscape_getLast (s : Str) (c : Char) (h : (Code.codeEscape s).getLast? = some c) :
    ∃ d, s.getLast? = some d ∧ (isSpace d = false → isSpace c = false) := by
  rcases List.eq_nil_or_concat s with rfl | ⟨a, d, rfl⟩
  · simp [Code.codeEscape, replace, replaceAux] at h
  · refine ⟨d, by simp, fun hd => ?_⟩
    rw [List.concat_eq_append, codeEscape_append, codeEscape_onepass [d]] at h
    simp only [codeEscape1, List.append_nil] at h
    have hne : esc1Char d ≠ [] := by
      unfold esc1Char; split
      · decide
      · split
        · decide
        · split
          · decide
          · simp
    have key : ∀ x, (esc1Char d).getLast? = some x → isSpace x = false := by
      intro x hx
      unfold esc1Char at hx
      split at hx
      · simp at hx; subst hx; decide
      · split at hx
        · simp at hx; subst hx; decide
        · split at hx
          · simp at hx; subst hx; decide
          · simp at hx; subst hx; exact hd
    cases hx : (esc1Char d).getLast? with
    | none => exact absurd (List.getLast?_eq_none_iff.1 hx) hne
    | some x =>
      rw [List.getLast?_append, hx] at h
      simp at h
      subst h
      exact key x hx

open Code in
/-- right-trimming commutes with the escaping -/
theorem rstrip_codeEscape (s : Str) : rstrip (Code.codeEscape s) = Code.codeEscape (rstrip s) := by
  obtain ⟨w, hw, hp⟩ := rstripP_decomp isSpace s
  have hwe : Code.codeEscape w = w :=
    codeEscape_plain w (fun c hc => space_plain (List.all_eq_true.1 hp c hc))
  show rstrip (Code.codeEscape s) = Code.codeEscape (rstripP isSpace s)
  conv => lhs; rw [hw, codeEscape_append, hwe]
  unfold rstrip
  rw [rstripP_append_of_all hp, rstripP_eq_self_iff]
  intro c hc
  obtain ⟨d, hd, himp⟩ := codeEscape_getLast _ c hc
  exact himp (rstripP_getLast hd)

open Code in
/-- the accumulated code text is the escaped trimmed code and a line feed -/
theorem codeAccum_eq (first : List Str) (more : List (Nat × List Str)) :
    codeAccum first more = Code.codeEscape (runsText (fun r => rstrip (joinLines r)) first more) ++ ['\n'] := by
  have e : ∀ (more : List (Nat × List Str)) (x : Str),
      Code.codeEscape x ++ '\n' :: more.flatMap (fun er => nls (er.1 + 1) ++ runText er.2) =
        Code.codeEscape (x ++ more.flatMap (fun er => nls (er.1 + 2) ++ rstrip (joinLines er.2))) ++ ['\n'] := by
    intro more
    induction more with
    | nil => intro x; simp
    | cons er more ih =>
      intro x
      have := ih (x ++ nls (er.1 + 2) ++ rstrip (joinLines er.2))
      simp only [List.flatMap_cons, runText, List.append_assoc, List.singleton_append] at this ⊢
      rw [← this]
      simp only [codeEscape_append, codeEscape_nls, List.append_assoc]
      simp [nls, List.replicate_succ]
  simp only [codeAccum, runsText, runText, List.append_assoc, List.singleton_append]
  exact e more _

open Code in
/-- what `PrettifyTreeprocessor` leaves of the code text: the escaped `trimSpec` and one line feed -/
theorem prettified_codeAccum (first : List Str) (more : List (Nat × List Str)) :
    rstrip (codeAccum first more ++ ['\n', '\n']) ++ ['\n'] = Code.codeEscape (trimSpec first more) ++ ['\n'] := by
  have h3 : (['\n'] ++ ['\n', '\n'] : Str).all isSpace = true := by decide
  rw [codeAccum_eq, List.append_assoc]
  unfold rstrip at *
  rw [rstripP_append_of_all h3]
  exact congrArg (· ++ ['\n']) (rstrip_codeEscape _)

/-! ### the inline processor has nothing to do on a code block -/

/-- nothing for the inline processor to do on this element itself: its text is absent or atomic, it has no tail -/
def inertNode (n : Node) : Bool := !(Node.truthy n.text && !n.textAtomic) && !Node.truthy n.tail

theorem visitChild_inert (cfg : Inline.Cfg) (child : Node) (v : Inline.Visit) (h : inertNode child = true) :
    Inline.visitChild cfg child v =
      some (child, [], { v with pushes := if child.children.isEmpty then v.pushes else [v.done.length] :: v.pushes }) := by
  simp only [inertNode, Bool.and_eq_true, Bool.not_eq_true'] at h
  simp only [Inline.visitChild, h.1, h.2, Bool.false_eq_true, if_false, List.length_nil, List.range_zero, List.map_nil,
    List.reverse_nil, List.nil_append]
  cases child
  simp

theorem run_codeTree (cfg : Inline.Cfg) (t : Str) :
    Inline.run cfg ((Node.el "div").append (codePre t)) = some ((Node.el "div").append (codePre t), {}) := by
  unfold Inline.run
  generalize hf : Inline.runFuel ((Node.el "div").append (codePre t)) = f
  obtain ⟨g, rfl⟩ : ∃ g, f = g + 3 := ⟨f - 3, by simp [Inline.runFuel] at hf; omega⟩
  simp [Inline.runLoop, Inline.getAt, Inline.visitLoop, Inline.withIdx, Node.append, Node.el, codePre,
    visitChild_inert, inertNode, Node.truthy, Inline.setAt]

/-! ### the tree processors on a code block -/

def nl1 : Str := ['\n']

/-- the tree of a code block after `PrettifyTreeprocessor` -/
def codeTreeP (t : Str) : Node :=
  { Node.el "div" with
    text := some nl1
    tail := some nl1
    children := [{ codePre t with tail := some nl1 }] }

theorem prettify_codeTree (t : Str) :
    TreeProc.prettify ((Node.el "div").append (codePre t)) = codeTreeP (rstrip t ++ ['\n']) := rfl

theorem unescape_codeTree (t : Str) : TreeProc.unescapeTree (codeTreeP t) = some (codeTreeP t) := by
  simp [codeTreeP, TreeProc.unescapeTree, TreeProc.unescapeKids, TreeProc.unescapeText, TreeProc.unescAttrs,
    codePre, Node.el, Node.truthy, nl1]

/-! ### the serializer -/

/-- the serialisation of an element without attributes whose tag is neither void nor raw-text -/
theorem serialize_plain (fmt : Ser.Fmt) (tag : Str) (text : Option Str) (ta : Bool) (kids : List Node)
    (tail : Option Str) (tla : Bool) (h1 : Ser.isEmptyTag tag = false) (h2 : Ser.isRawTextTag tag = false) :
    Ser.serialize fmt ⟨.name tag, [], text, ta, kids, tail, tla⟩ =
      '<' :: tag ++ ['>'] ++ (if Node.truthy text then Ser.escCdata (text.getD []) else []) ++
        Ser.serializeList fmt kids ++ "</".toList ++ tag ++ ['>'] ++
        (if Node.truthy tail then Ser.escCdata (tail.getD []) else []) := by
  simp [Ser.serialize, Ser.element, h1, h2, Ser.writeAttrs, Ser.sortAttrs]

theorem serialize_codeTree (fmt : Ser.Fmt) (t : Str) (ht : t ≠ []) :
    Ser.serialize fmt (codeTreeP t) =
      "<div>".toList ++ ("\n<pre><code>".toList ++ Ser.escCdata t ++ "</code></pre>\n".toList) ++
        "</div>\n".toList := by
  obtain ⟨c, r, rfl⟩ : ∃ c r, t = c :: r := by cases t <;> simp_all
  have e7 : Ser.escCdata ['\n'] = ['\n'] := by decide
  simp only [codeTreeP, codePre, Node.el]
  rw [serialize_plain fmt _ _ _ _ _ _ (by decide) (by decide)]
  simp only [Ser.serializeList]
  rw [serialize_plain fmt _ _ _ _ _ _ (by decide) (by decide)]
  simp only [Ser.serializeList]
  rw [serialize_plain fmt _ _ _ _ _ _ (by decide) (by decide)]
  simp [Node.truthy, Ser.serializeList, nl1, e7]

/-! ### the end of `convert` -/

theorem find_self_prefix (pat s : Str) : find pat (pat ++ s) = some 0 := by
  cases h : pat ++ s with
  | nil =>
    have : pat = [] := by
      cases pat with
      | nil => rfl
      | cons => simp at h
    subst this; rfl
  | cons c r =>
    rw [find_cons, ← h, startsWith_append_self]; rfl

/-- the stripping of the top-level `<div>`: whatever the body is -/
theorem topLevelStrip_div (body : Str) :
    Post.topLevelStrip ("<div>".toList ++ body ++ "</div>\n".toList) = some (strip body) := by
  have h1 : find ('<' :: "div".toList ++ ['>']) ("<div>".toList ++ body ++ "</div>\n".toList) = some 0 := by
    rw [List.append_assoc]; exact find_self_prefix "<div>".toList _
  have h2 : Post.rfind ('<' :: '/' :: "div".toList ++ ['>']) ("<div>".toList ++ body ++ "</div>\n".toList) =
      some (body.length + 5) := by
    have hr : ("<div>".toList ++ body ++ "</div>\n".toList).reverse =
        '\n' :: ("</div>".toList.reverse ++ (body.reverse ++ "<div>".toList.reverse)) := by
      simp
    unfold Post.rfind
    rw [hr, find_cons]
    have hs : startsWith ('\n' :: ("</div>".toList.reverse ++ (body.reverse ++ "<div>".toList.reverse)))
        ('<' :: '/' :: "div".toList ++ ['>']).reverse = false := by
      simp [startsWith]
    rw [hs]
    have := find_self_prefix "</div>".toList.reverse (body.reverse ++ "<div>".toList.reverse)
    simp only [Bool.false_eq_true, if_false]
    rw [show ('<' :: '/' :: "div".toList ++ ['>']).reverse = "</div>".toList.reverse from rfl, this]
    simp
  unfold Post.topLevelStrip
  simp only [h1, h2, Post.topLevelStrip.sl]
  congr 2
  have : "<div>".toList ++ body ++ "</div>\n".toList = ("<div>".toList ++ body) ++ "</div>\n".toList := rfl
  rw [this, List.take_left' (by simp)]
  simp

theorem postAmpSub_id (s : Str) (h : Post.STX ∉ s) : Post.ampSub s = s := by
  unfold Post.ampSub
  apply replace_id_of_not_contains
  rw [contains_eq_false_iff]
  intro pre post e
  apply h
  rw [e]
  simp [Post.ampSubstitute]

/-- the end of `convert` when nothing is in the HTML stash and the text has no STX -/
theorem finish_div (bl : List Str) (body : Str) (h : Post.STX ∉ body) :
    Post.finish bl [] ("<div>".toList ++ body ++ "</div>\n".toList) = some (some (strip body)) := by
  have hs : Post.STX ∉ strip body := fun hm => h ((strip_infix body).subset hm)
  unfold Post.finish
  rw [topLevelStrip_div]
  simp [Post.post, Post.rawHtml, Post.rawHtmlFuel, postAmpSub_id _ hs]

/-- white space around a `<…>` core is stripped -/
theorem strip_tagged (x : Str) : strip ('\n' :: '<' :: x ++ ['>', '\n']) = '<' :: x ++ ['>'] := by
  have e : '\n' :: '<' :: x ++ ['>', '\n'] = ['\n'] ++ ('<' :: x ++ ['>']) ++ ['\n'] := by simp
  rw [e, strip_append_of_blank (by decide) (by decide)]
  apply strip_eq_self
  · intro c hc
    simp at hc; subst hc; decide
  · intro c hc
    rw [List.getLast?_append] at hc
    simp at hc; subst hc; decide

open Code in
theorem mem_codeEscape {s : Str} {c : Char} (h : c ∈ Code.codeEscape s) : c ∈ s ∨ c ∈ "&amp;lt;gt;".toList := by
  rw [codeEscape_onepass] at h
  induction s with
  | nil => simp [codeEscape1] at h
  | cons d r ih =>
    simp only [codeEscape1, List.mem_append] at h
    rcases h with h | h
    · unfold esc1Char at h
      split at h
      · exact Or.inr (by revert h; simp; intro h; rcases h with h | h | h | h | h <;> simp [h])
      · split at h
        · exact Or.inr (by revert h; simp; intro h; rcases h with h | h | h | h <;> simp [h])
        · split at h
          · exact Or.inr (by revert h; simp; intro h; rcases h with h | h | h | h <;> simp [h])
          · simp at h; exact Or.inl (by simp [h])
    · rcases ih h with h | h
      · exact Or.inl (List.mem_cons_of_mem _ h)
      · exact Or.inr h

theorem mem_joinLines {r : List Str} {c : Char} (h : c ∈ joinLines r) : c = '\n' ∨ ∃ l ∈ r, c ∈ l := by
  induction r with
  | nil => simp [joinLines] at h
  | cons a r ih =>
    cases r with
    | nil => exact Or.inr ⟨a, List.mem_cons_self, by simpa [joinLines] using h⟩
    | cons b r =>
      simp only [joinLines, join_cons_cons, List.mem_append, List.mem_singleton] at h ih
      rcases h with (h | h) | h
      · exact Or.inr ⟨a, List.mem_cons_self, h⟩
      · exact Or.inl h
      · rcases ih h with h | ⟨l, hl, hc⟩
        · exact Or.inl h
        · exact Or.inr ⟨l, List.mem_cons_of_mem _ hl, hc⟩

/-- the characters of the trimmed code are line feeds and characters of the lines -/
theorem mem_trimSpec {first : List Str} {more : List (Nat × List Str)} {c : Char} (h : c ∈ trimSpec first more) :
    c = '\n' ∨ (∃ l ∈ first, c ∈ l) ∨ ∃ er ∈ more, ∃ l ∈ er.2, c ∈ l := by
  have h := (rstrip_prefix _).subset h
  simp only [runsText, List.mem_append, List.mem_flatMap] at h
  rcases h with h | ⟨er, her, h | h⟩
  · rcases mem_joinLines ((rstrip_prefix _).subset h) with h | h
    · exact Or.inl h
    · exact Or.inr (Or.inl h)
  · exact Or.inl (List.eq_of_mem_replicate h)
  · rcases mem_joinLines ((rstrip_prefix _).subset h) with h | h
    · exact Or.inl h
    · exact Or.inr (Or.inr ⟨er, her, h⟩)

open Code in
/-- the serializer leaves escaped code followed by a line feed alone -/
theorem escCdata_code_nl (t : Str) : Ser.escCdata (Code.codeEscape t ++ ['\n']) = Code.codeEscape t ++ ['\n'] := by
  have : Code.codeEscape t ++ ['\n'] = Code.codeEscape (t ++ ['\n']) := by
    rw [codeEscape_append]; rfl
  rw [this, codeEscape_onepass, escCdata_codeEscape1]

/-! ### `Markdown.convert` on a code block -/

/-- the hypotheses of the end-to-end statement, as propositions about the runs -/
structure CodeDoc (first : List Str) (more : List (Nat × List Str)) : Prop where
  hfirst : isCodeRun first = true
  hmore : ∀ er ∈ more, isCodeRun er.2 = true
  hvisible : (allLines first more).any (fun l => !isBlank l) = true

theorem isCodeRun_spec {r : List Str} (h : isCodeRun r = true) :
    RunInk r ∧ RunRefs r ∧ ∀ l ∈ r, ∀ c ∈ l, isCodeChar c = true := by
  simp only [isCodeRun, Bool.and_eq_true, Bool.not_eq_true', List.all_eq_true, isCodeLine] at h
  obtain ⟨hne, hl⟩ := h
  have hne' : r ≠ [] := by intro e; subst e; simp at hne
  refine ⟨⟨hne', fun l hl' => ⟨?_, (hl l hl').1.2⟩⟩, fun l hl' => (hl l hl').2, fun l hl' c hc => (hl l hl').1.1 c hc⟩
  intro hm
  have := (hl l hl').1.1 _ hm
  revert this; decide

theorem isCodeChar_spec {c : Char} (h : isCodeChar c = true) :
    c ≠ '<' ∧ c ≠ '\n' ∧ c ≠ '\r' ∧ c ≠ '\t' ∧ c ≠ Char.ofNat 2 ∧ c ≠ Char.ofNat 3 := by
  simp only [isCodeChar, Bool.and_eq_true, bne_iff_ne, ne_eq] at h
  obtain ⟨⟨⟨⟨⟨a, b⟩, c⟩, d⟩, e⟩, f⟩ := h
  exact ⟨a, b, c, d, e, f⟩

theorem mem_indentRun_of_mem {tab : Nat} {r : List Str} {l : Str} {c : Char} (hl : l ∈ r) (hc : c ∈ l) :
    c ∈ indentRun tab r := by
  induction r with
  | nil => simp at hl
  | cons a r ih =>
    have hm : ∀ x : Str, c ∈ x → c ∈ indentLine tab x := by
      intro x hx
      cases x with
      | nil => simp at hx
      | cons d x => simp only [indentLine, List.isEmpty_cons, Bool.false_eq_true, if_false]; exact List.mem_append_right _ hx
    cases r with
    | nil =>
      have : l = a := by simpa using hl
      subst this
      simpa [indentRun, indentLines, joinLines] using hm l hc
    | cons b r =>
      simp only [indentRun, indentLines, List.map_cons, joinLines, join_cons_cons, List.mem_append,
        List.mem_singleton] at ih ⊢
      rcases List.mem_cons.1 hl with rfl | hl
      · exact Or.inl (Or.inl (hm l hc))
      · exact Or.inr (ih hl)

theorem mem_codeSource_of_line {tab : Nat} {first : List Str} {more : List (Nat × List Str)} {l : Str} {c : Char}
    (hl : l ∈ allLines first more) (hc : c ∈ l) : c ∈ codeSource tab first more := by
  simp only [allLines, List.mem_append, List.mem_flatMap] at hl
  simp only [codeSource, runsText, List.mem_append, List.mem_flatMap]
  rcases hl with hl | ⟨er, her, hl | hl⟩
  · exact Or.inl (mem_indentRun_of_mem (tab := tab) hl hc)
  · have := List.eq_of_mem_replicate hl
    subst this; simp at hc
  · exact Or.inr ⟨er, her, Or.inr (mem_indentRun_of_mem (tab := tab) hl hc)⟩

/-- **`Markdown.convert` on an indented code block** -/
theorem convert_codeBlock (tab : Nat) (first : List Str) (more : List (Nat × List Str)) (h : CodeDoc first more) :
    Pipeline.convert { tab := tab } (codeSource tab first more) =
      .ok ("<pre><code>".toList ++ Code.codeEscape (trimSpec first more) ++ "\n</code></pre>".toList) := by
  obtain ⟨i1, r1, c1⟩ := isCodeRun_spec h.hfirst
  have hm : ∀ er ∈ more, RunInk er.2 ∧ RunRefs er.2 ∧ ∀ l ∈ er.2, ∀ c ∈ l, isCodeChar c = true :=
    fun er her => isCodeRun_spec (h.hmore er her)
  -- the characters of the source
  have hchars : ∀ c ∈ codeSource tab first more,
      c ≠ '<' ∧ c ≠ '\r' ∧ c ≠ '\t' ∧ c ≠ Char.ofNat 2 ∧ c ≠ Char.ofNat 3 := by
    intro c hc
    rcases mem_codeSource hc with rfl | rfl | ⟨l, hl, hcl⟩ | ⟨er, her, l, hl, hcl⟩
    · decide
    · decide
    · obtain ⟨a1, _, a3, a4, a5, a6⟩ := isCodeChar_spec (c1 l hl c hcl); exact ⟨a1, a3, a4, a5, a6⟩
    · obtain ⟨a1, _, a3, a4, a5, a6⟩ := isCodeChar_spec ((hm er her).2.2 l hl c hcl); exact ⟨a1, a3, a4, a5, a6⟩
  have hlt : (codeSource tab first more).contains '<' = false := by
    rw [Bool.eq_false_iff]; intro hc
    exact (hchars '<' (by simpa using hc)).1 rfl
  have hblank : Normalize.isBlankDoc (codeSource tab first more) = false := by
    rw [Normalize.isBlankDoc_eq_all, Bool.eq_false_iff]; intro ha
    obtain ⟨l, hl, hb⟩ := List.any_eq_true.1 h.hvisible
    have hb' : isBlank l = false := by simpa using hb
    have : ¬ (∀ c ∈ l, isSpace c = true) := fun hall => by
      rw [(isBlank_iff l).2 hall] at hb'; cases hb'
    apply this
    intro c hc
    exact List.all_eq_true.1 ha c (mem_codeSource_of_line (tab := tab) hl hc)
  have hprep : Pipeline.prepare { tab := tab } (codeSource tab first more) =
      codeSource tab first more ++ ['\n', '\n'] := by
    unfold Pipeline.prepare
    rw [normalize_of_clean tab _ (fun c hc => by
      obtain ⟨_, a2, a3, a4, a5⟩ := hchars c hc; exact ⟨a4, a5, a2, a3⟩)
      (ws_codeSource tab first more i1 (fun er her => (hm er her).1))]
    exact extract_id _ (refsClosed_codeSource tab first more r1 (fun er her => (hm er her).2.1))
  have htree : Pipeline.tree { tab := tab } (codeSource tab first more) =
      some (some (codeTreeP (Code.codeEscape (trimSpec first more) ++ ['\n']), [])) := by
    unfold Pipeline.tree
    rw [hprep, parseDocument_code tab first more i1.ok (fun er her => (hm er her).1.ok)]
    simp only [List.reverse_nil]
    rw [run_codeTree]
    simp only
    have : TreeProc.prettify ((Node.el "div").append (codePre (codeAccum first more ++ ['\n', '\n'])))
        ({ tab := tab } : Pipeline.Cfg).blockLevel = codeTreeP (rstrip (codeAccum first more ++ ['\n', '\n']) ++ ['\n']) :=
      prettify_codeTree _
    rw [this, prettified_codeAccum, unescape_codeTree]
  unfold Pipeline.convert
  rw [hlt, hblank, htree]
  simp only [Bool.false_eq_true, if_false]
  rw [serialize_codeTree _ _ (by simp)]
  rw [escCdata_code_nl]
  have hstx : Post.STX ∉ "\n<pre><code>".toList ++ (Code.codeEscape (trimSpec first more) ++ ['\n']) ++
      "</code></pre>\n".toList := by
    intro hmem
    simp only [List.mem_append] at hmem
    rcases hmem with (hmem | hmem | hmem) | hmem
    · revert hmem; decide
    · rcases mem_codeEscape hmem with hmem | hmem
      · rcases mem_trimSpec hmem with e | ⟨l, hl, hcl⟩ | ⟨er, her, l, hl, hcl⟩
        · revert e; decide
        · exact (isCodeChar_spec (c1 l hl _ hcl)).2.2.2.2.1 rfl
        · exact (isCodeChar_spec ((hm er her).2.2 l hl _ hcl)).2.2.2.2.1 rfl
      · revert hmem; decide
    · revert hmem; decide
    · revert hmem; decide
  rw [finish_div _ _ hstx]
  have e : "\n<pre><code>".toList ++ (Code.codeEscape (trimSpec first more) ++ ['\n']) ++ "</code></pre>\n".toList =
      '\n' :: '<' :: ("pre><code>".toList ++ Code.codeEscape (trimSpec first more) ++ "\n</code></pre".toList) ++
        ['>', '\n'] := by simp
  rw [e, strip_tagged]
  simp

/-! ### the backtick pattern on a code span -/

open Inline

theorem spanLen_append_of_not_all (p : Char → Bool) (s t : Str) (h : s.all p = false) :
    spanLen p (s ++ t) = spanLen p s := by
  induction s with
  | nil => simp at h
  | cons c s ih =>
    by_cases hc : p c = true
    · have : s.all p = false := by simpa [hc] using h
      simp [spanLen, hc, ih this]
    · simp [spanLen, hc]

theorem lastCh_mem (prev : Char) (x : Str) : lastCh prev x = prev ∧ x = [] ∨ lastCh prev x ∈ x := by
  induction x generalizing prev with
  | nil => exact Or.inl ⟨rfl, rfl⟩
  | cons c x ih =>
    rcases ih c with ⟨h, rfl⟩ | h
    · exact Or.inr (by simp [lastCh])
    · exact Or.inr (by simp only [lastCh]; exact List.mem_cons_of_mem _ h)

theorem not_all_of_lastCh (c : Char) (x : Str) (h : lastCh c x ≠ '`') : (c :: x).all (· = '`') = false := by
  induction x generalizing c with
  | nil => simpa [lastCh] using h
  | cons d x ih =>
    have := ih d (by simpa [lastCh] using h)
    simp only [List.all_cons, Bool.and_eq_false_iff] at this ⊢
    exact Or.inr this

theorem countPrefix_ticks (m : Nat) (y : Str) (hy : y.head? ≠ some '`') : countPrefix '`' none (ticks m ++ y) = m := by
  induction m with
  | zero =>
    cases y with
    | nil => rfl
    | cons c y =>
      have : c ≠ '`' := by simpa using hy
      simp [ticks, countPrefix, this]
  | succ m ih => simp only [ticks, List.replicate_succ, List.cons_append, countPrefix] at ih ⊢; simp [ih]

theorem btClose_find (m : Nat) (y : Str) (hy : y.head? ≠ some '`') (x : Str) :
    ∀ (prev : Char) (L : Nat), noCloser m prev x = true → lastCh prev x ≠ '`' →
      btClose m prev (x ++ (ticks m ++ y)) L = some (L + x.length) := by
  induction x with
  | nil =>
    intro prev L _ hl
    have hp : prev ≠ '`' := by simpa [lastCh] using hl
    unfold btClose
    simp [countPrefix_ticks m y hy, hp]
  | cons c x ih =>
    intro prev L hn hl
    simp only [noCloser, Bool.and_eq_true, Bool.not_eq_true'] at hn
    have hcp : countPrefix '`' none (c :: x ++ (ticks m ++ y)) = countPrefix '`' none (c :: x) := by
      rw [countPrefix_none, countPrefix_none]
      exact spanLen_append_of_not_all _ _ _ (not_all_of_lastCh c x (by simpa [lastCh] using hl))
    unfold btClose
    rw [hcp, hn.1]
    simp only [Bool.false_eq_true, if_false, List.cons_append]
    rw [ih c (L + 1) hn.2 (by simpa [lastCh] using hl)]
    simp; omega


/-- no backtick and no backslash -/
def noTickBs (s : Str) : Prop := ∀ c ∈ s, c ≠ '`' ∧ c ≠ '\\'

theorem countPrefix_zero_of_head (ch : Char) (lim : Option Nat) (s : Str) (h : s.head? ≠ some ch) :
    countPrefix ch lim s = 0 := by
  cases s with
  | nil => cases lim with
    | none => rfl
    | some n => cases n <;> rfl
  | cons c s =>
    have : c ≠ ch := by simpa using h
    cases lim with
    | none => simp [countPrefix, this]
    | some n => cases n <;> simp [countPrefix, this]

theorem btAt_plain (prev : Option Char) (c : Char) (r : Str) (i : Nat) (h1 : c ≠ '`') (h2 : c ≠ '\\') :
    btAt prev (c :: r) i = none := by
  unfold btAt
  split
  · rfl
  · have : countPrefix '\\' none (c :: r) = 0 := countPrefix_zero_of_head _ _ _ (by simpa using h2)
    simp only [this]
    simp only [show ((0 : Nat) ≥ 2) = False by simp, decide_false, Bool.false_and, Bool.false_eq_true, if_false]
    split
    · rename_i heq; simp only [List.cons.injEq] at heq; exact absurd heq.1 h1
    · rfl

theorem btAt_nil (prev : Option Char) (i : Nat) : btAt prev [] i = none := by
  unfold btAt
  split
  · rfl
  · simp [countPrefix]

theorem btScan_plain (s : Str) (h : noTickBs s) : ∀ (prev : Option Char) (i : Nat), btScan prev s i = none := by
  induction s with
  | nil => intro prev i; unfold btScan; simp [btAt_nil]
  | cons c r ih =>
    intro prev i
    obtain ⟨h1, h2⟩ := h c List.mem_cons_self
    unfold btScan
    rw [btAt_plain prev c r i h1 h2]
    exact ih (fun d hd => h d (List.mem_cons_of_mem _ hd)) _ _

/-- the opening fence of `k` backticks right after text without backtick or backslash is found, and the match is
    the whole span with the body as its group -/
theorem btScan_span (k : Nat) (body b : Str) (hb : spanBodyOk (k + 1) body = true) (hbh : b.head? ≠ some '`')
    (a : Str) (ha : noTickBs a) :
    ∀ (prev : Option Char) (i : Nat), prev ≠ some '\\' →
      btScan prev (a ++ (ticks (k + 1) ++ (body ++ (ticks (k + 1) ++ b)))) i =
        some ⟨.code, i + a.length, i + a.length + (k + 1) + body.length + (k + 1), body⟩ := by
  induction a with
  | nil =>
    intro prev i hp
    obtain ⟨c, r, rfl⟩ : ∃ c r, body = c :: r := by
      cases body with
      | nil => simp [spanBodyOk] at hb
      | cons c r => exact ⟨c, r, rfl⟩
    simp only [spanBodyOk, Bool.and_eq_true, bne_iff_ne, ne_eq] at hb
    obtain ⟨⟨hc, hl⟩, hn⟩ := hb
    have hcp : countPrefix '`' none (ticks (k + 1) ++ (c :: r ++ (ticks (k + 1) ++ b))) = k + 1 :=
      countPrefix_ticks _ _ (by simpa using hc)
    have hbs : countPrefix '\\' none (ticks (k + 1) ++ (c :: r ++ (ticks (k + 1) ++ b))) = 0 :=
      countPrefix_zero_of_head _ _ _ (by simp [ticks, List.replicate_succ])
    have hdrop : (ticks (k + 1) ++ (c :: r ++ (ticks (k + 1) ++ b))).drop (k + 1) = c :: (r ++ (ticks (k + 1) ++ b)) := by
      rw [List.drop_left' (by simp [ticks])]; rfl
    have hcode : btCode (ticks (k + 1) ++ (c :: r ++ (ticks (k + 1) ++ b))) (k + 1) = some (k + 1, 1 + r.length) := by
      simp only [btCode, hdrop]
      rw [btClose_find (k + 1) b hbh r c 1 hn hl]
    unfold btScan btAt
    have hp' : (prev == some '\\') = false := by
      cases prev with
      | none => rfl
      | some p => simpa using hp
    simp only [List.nil_append, hp', Bool.false_eq_true, if_false, hbs]
    simp only [show ((0 : Nat) ≥ 2) = False by simp, decide_false, Bool.false_and, Bool.false_eq_true, if_false]
    simp only [ticks, List.replicate_succ, List.cons_append] at hcp hcode hdrop ⊢
    simp only [hcp, hcode]
    simp only [List.length_nil, Nat.add_zero, List.length_cons]
    rw [hdrop, Nat.add_comm 1 r.length]
    simp
  | cons d a ih =>
    intro prev i hp
    obtain ⟨h1, h2⟩ := ha d List.mem_cons_self
    unfold btScan
    simp only [List.cons_append]
    rw [btAt_plain prev d _ i h1 h2]
    simp only
    rw [ih (fun e he => ha e (List.mem_cons_of_mem _ he)) (some d) (i + 1) (by simpa using h2)]
    simp only [List.length_cons]
    rw [show i + 1 + a.length = i + (a.length + 1) by omega]


/-- no character that any of the sixteen inline patterns could start or continue a match with (for `<`-free text) -/
def Quiet (s : Str) : Prop :=
  ∀ c ∈ s, c ≠ '`' ∧ c ≠ '\\' ∧ c ≠ '[' ∧ c ≠ '\n' ∧ c ≠ '&' ∧ c ≠ '*' ∧ c ≠ '_'

theorem Quiet.tail {c : Char} {s : Str} (h : Quiet (c :: s)) : Quiet s := fun d hd => h d (List.mem_cons_of_mem _ hd)

theorem escScan_quiet (s : Str) (h : Quiet s) (i : Nat) : escScan s i = none := by
  induction s generalizing i with
  | nil => rfl
  | cons c r ih =>
    cases r with
    | nil => rfl
    | cons d r =>
      have := (h c List.mem_cons_self).2.1
      simp only [escScan, this, if_false]
      exact ih h.tail _

theorem linkScan_quiet (cfg : Inline.Cfg) (stash : List StashItem) (pi : Nat) (data : Str) (s : Str) (h : Quiet s)
    (prev : Option Char) (i : Nat) : linkScan cfg stash pi data prev s i = none := by
  induction s generalizing prev i with
  | nil => rfl
  | cons c r ih =>
    have hc := (h c List.mem_cons_self).2.2.1
    have hr : r.head? ≠ some '[' := by
      cases r with
      | nil => simp
      | cons d r => simpa using (h d (by simp)).2.2.1
    have hr' : (r.head? == some '[') = false := by simpa using hr
    simp only [linkScan, hc, hr', decide_false, Bool.false_and, Bool.and_false, Bool.false_eq_true, if_false, ite_self]
    exact ih h.tail _ _

theorem find_brk_quiet (s : Str) (h : Quiet s) : find [' ', ' ', '\n'] s = none := by
  rw [find_none_iff]
  intro pre post e
  exact (h '\n' (by rw [e]; simp)).2.2.2.1 rfl

theorem entityScan_quiet (s : Str) (h : Quiet s) (i : Nat) : entityScan s i = none := by
  induction s generalizing i with
  | nil => rfl
  | cons c r ih =>
    have := (h c List.mem_cons_self).2.2.2.2.1
    simp only [entityScan, this, if_false]
    exact ih h.tail _

theorem nsRun_none (c : Char) (s : Str) (h : s.head? ≠ some c) : nsRun c s = none := by
  simp [nsRun, countPrefix_zero_of_head c (some 3) s h]

theorem nsScan_quiet (s : Str) (h : Quiet s) (prev : Option Char) (i : Nat) : nsScan prev s i = none := by
  induction s generalizing prev i with
  | nil => rfl
  | cons c r ih =>
    obtain ⟨_, _, _, _, _, h6, h7⟩ := h c List.mem_cons_self
    have e1 : nsRun '*' (c :: r) = none := nsRun_none _ _ (by simpa using h6)
    have e2 : nsRun '_' (c :: r) = none := nsRun_none _ _ (by simpa using h7)
    simp only [nsScan, e1, e2, Option.map_none, ite_self]
    exact ih h.tail _ _

theorem emScan_quiet (data : Str) (c : Char) (hc : c = '*' ∨ c = '_') (s : Str) (h : Quiet s) (i : Nat) :
    emScan data c s i = some none := by
  induction s generalizing i with
  | nil => rfl
  | cons d r ih =>
    obtain ⟨_, _, _, _, _, h6, h7⟩ := h d List.mem_cons_self
    have : d ≠ c := by rcases hc with rfl | rfl <;> assumption
    simp only [emScan, this, if_false]
    exact ih h.tail _

theorem Quiet.noTickBs {s : Str} (h : Quiet s) : noTickBs s := fun c hc => ⟨(h c hc).1, (h c hc).2.1⟩

/-- on quiet text none of the sixteen patterns matches -/
theorem findMatch_quiet (cfg : Inline.Cfg) (pi : Nat) (data : Str) (st : St) (h : Quiet data) :
    findMatch cfg pi data 0 st = some (none, st) := by
  unfold findMatch
  simp only [show ¬ (0 > data.length) by omega, if_false, List.drop_zero]
  split
  · simp [btFind, btScan_plain data h.noTickBs]
  · simp [escScan_quiet data h]
  · simp [find_brk_quiet data h]
  · simp [entityFind, entityScan_quiet data h]
  · simp [nsFind, nsScan_quiet data h]
  · simp [emScan_quiet data _ (Or.inl rfl) data h]
  · simp [emScan_quiet data _ (Or.inr rfl) data h]
  · rfl
  · rfl
  · rfl
  · simp [linkScan_quiet cfg st.stash pi data data h]


/-- the text of a paragraph with one code span, right-nested -/
def spanData (k : Nat) (a body b : Str) : Str := a ++ (ticks (k + 1) ++ (body ++ (ticks (k + 1) ++ b)))

theorem spanData_length (k : Nat) (a body b : Str) :
    (spanData k a body b).length = a.length + (k + 1) + body.length + (k + 1) + b.length := by
  simp [spanData, ticks]; omega

theorem findMatch_span (cfg : Inline.Cfg) (k : Nat) (a body b : Str) (st : St) (ha : noTickBs a)
    (hb : spanBodyOk (k + 1) body = true) (hbh : b.head? ≠ some '`') :
    findMatch cfg 0 (spanData k a body b) 0 st =
      some (some ⟨.el (codeSpan (Code.codeEscape (strip body))), a.length,
        ((a.length + (k + 1) + body.length + (k + 1) : Nat) : Int)⟩, st) := by
  unfold findMatch
  simp only [show ¬ (0 > (spanData k a body b).length) by omega, if_false]
  simp only [btFind, show ¬ (0 > (spanData k a body b).length) by omega, if_false, List.drop_zero, if_true]
  rw [show spanData k a body b = a ++ (ticks (k + 1) ++ (body ++ (ticks (k + 1) ++ b))) from rfl,
    btScan_span k body b hb hbh a ha none 0 (by simp)]
  simp only [Nat.zero_add]
  rfl

theorem applyPattern_span (cfg : Inline.Cfg) (hi : HI) (k : Nat) (a body b : Str) (st : St) (ha : noTickBs a)
    (hb : spanBodyOk (k + 1) body = true) (hbh : b.head? ≠ some '`') :
    applyPattern cfg hi 0 (spanData k a body b) 0 st =
      some (a ++ placeholder st.stash.length ++ b, true, 0,
        { st with stash := st.stash ++ [.node (codeSpan (Code.codeEscape (strip body)))] }) := by
  unfold applyPattern
  rw [findMatch_span cfg k a body b st ha hb hbh]
  have h1 : (spanData k a body b).take a.length = a := by simp [spanData]
  have h2 : pyDrop (spanData k a body b) ((a.length + (k + 1) + body.length + (k + 1) : Nat) : Int) = b := by
    unfold pyDrop pyIdx
    rw [spanData_length]
    have : ¬ (((a.length + (k + 1) + body.length + (k + 1) : Nat) : Int) < 0) := by omega
    simp only [this, if_false, Int.toNat_natCast]
    rw [Nat.min_eq_left (by omega)]
    unfold spanData
    rw [← List.append_assoc, ← List.append_assoc, ← List.append_assoc, List.drop_left' (by simp [ticks]; omega)]
  simp only [codeSpan, Option.isSome_some, Bool.and_self, if_true, stashNode, h1, h2]


theorem hiLoop_quiet (ap : Nat → Str → Nat → St → Option (Str × Bool × Nat × St)) (data : Str) (st : St)
    (hq : ∀ pi, ap pi data 0 st = some (data, false, 0, st)) :
    ∀ (n pi g : Nat), pi + n = 16 → n + 1 ≤ g → hiLoop ap g data pi 0 st = some (data, st) := by
  intro n
  induction n with
  | zero =>
    intro pi g hpi hg
    obtain ⟨g', rfl⟩ : ∃ g', g = g' + 1 := ⟨g - 1, by omega⟩
    have : ¬ pi < patternCount := by simp [patternCount]; omega
    simp [hiLoop, this]
  | succ n ih =>
    intro pi g hpi hg
    obtain ⟨g', rfl⟩ : ∃ g', g = g' + 1 := ⟨g - 1, by omega⟩
    have : pi < patternCount := by simp [patternCount]; omega
    simp only [hiLoop, this, if_true, hq, Bool.false_eq_true, if_false]
    exact ih (pi + 1) g' (by omega) (by omega)

theorem handleInlineTop_span (cfg : Inline.Cfg) (k : Nat) (a body b : Str) (st : St) (ha : noTickBs a)
    (hb : spanBodyOk (k + 1) body = true) (hbh : b.head? ≠ some '`')
    (hq : Quiet (a ++ placeholder st.stash.length ++ b)) :
    handleInlineTop cfg (spanData k a body b) st =
      some (a ++ placeholder st.stash.length ++ b,
        { st with stash := st.stash ++ [.node (codeSpan (Code.codeEscape (strip body)))] }) := by
  unfold handleInlineTop depthFuel
  rw [show (spanData k a body b).length + 20 = ((spanData k a body b).length + 19) + 1 from rfl]
  unfold handleInline
  obtain ⟨g, hg⟩ : ∃ g, loopFuel (spanData k a body b).length = g + 1 := ⟨loopFuel (spanData k a body b).length - 1, by
    have := loopFuel_ge (spanData k a body b).length; omega⟩
  have hg17 : 17 ≤ g := by have := loopFuel_ge (spanData k a body b).length; omega
  rw [hg]
  simp only [hiLoop, show (0 : Nat) < patternCount by decide, if_true,
    applyPattern_span cfg _ k a body b st ha hb hbh]
  apply hiLoop_quiet _ _ _ (fun pi => ?_) 16 0 g rfl hg17
  unfold applyPattern
  rw [findMatch_quiet cfg pi _ _ hq]

theorem linkText_text (text : Str) (parent : Node) (h1 : parent.text = none) (h2 : parent.textAtomic = false) :
    linkText text false true [] parent = ([], { parent with text := optStr text }) := by
  cases text with
  | nil => cases parent; simp_all [linkText, optStr]
  | cons c r => cases parent; simp_all [linkText, optStr, Node.truthy]

theorem linkText_tail (text : Str) (n parent : Node) (isText : Bool) (h1 : n.tail = none) (h2 : n.tailAtomic = false) :
    linkText text false isText [n] parent = ([{ n with tail := optStr text }], parent) := by
  cases text with
  | nil => cases n; simp_all [linkText, optStr]
  | cons c r => cases n; simp_all [linkText, optStr, Node.truthy]

theorem find_phPrefix_none (s : Str) (h : STX ∉ s) : find phPrefix s = none := by
  rw [find_none_iff]
  intro pre post e
  apply h
  rw [e]; simp [phPrefix]

theorem find_phPrefix (a rest : Str) (h : STX ∉ a) : find phPrefix (a ++ (phPrefix ++ rest)) = some a.length := by
  induction a with
  | nil => exact find_self_prefix _ _
  | cons c a ih =>
    have hc : c ≠ STX := fun e => h (by simp [e])
    have hs : startsWith (c :: (a ++ (phPrefix ++ rest))) phPrefix = false := by
      simp [phPrefix, hc]
    rw [List.cons_append, find_cons, hs, ih (fun e => h (List.mem_cons_of_mem _ e))]
    rfl


/-- `__processPlaceholders` on the text of a code element without STX: the text is put back, still atomic -/
theorem pp_codeText (stash : List StashItem) (f : Nat) (t : Str) (parent : Node) (ht : STX ∉ t) (hne : t ≠ [])
    (hp : parent.text = none) :
    processPlaceholders stash (f + 1) t true parent true =
      some ([], { parent with text := some t, textAtomic := true }) := by
  obtain ⟨c, r, rfl⟩ : ∃ c r, t = c :: r := by cases t <;> simp_all
  unfold processPlaceholders
  simp only [List.isEmpty_cons, Bool.false_eq_true, if_false, List.length_cons]
  rw [show r.length + 1 + 2 = (r.length + 2) + 1 from rfl]
  unfold ppLoop
  simp only [List.drop_zero, find_phPrefix_none _ ht]
  cases parent
  simp_all [linkText, Node.truthy]

theorem procNode_codeSpan (stash : List StashItem) (f' : Nat) (hf : 0 < f') (t : Str) (ht : STX ∉ t) :
    procNode (fun d a p i => processPlaceholders stash f' d a p i) (codeSpan t) = some (codeSpan t) := by
  obtain ⟨f, rfl⟩ : ∃ f, f' = f + 1 := ⟨f' - 1, by omega⟩
  unfold procNode
  have h1 : petTail (fun d a p i => processPlaceholders stash (f + 1) d a p i)
      { codeSpan t with children := [] } = some (codeSpan t, []) := by
    simp [petTail, codeSpan, Node.el, Node.truthy]
  simp only [h1]
  have h2 : petText (fun d a p i => processPlaceholders stash (f + 1) d a p i) (codeSpan t) = some (codeSpan t) := by
    unfold petText
    by_cases hc : (Node.truthy (codeSpan t).text && !blankOpt (codeSpan t).text) = true
    · have hne : t ≠ [] := by
        intro e; subst e; simp [codeSpan, Node.truthy] at hc
      simp only [hc, if_true]
      have : (codeSpan t).text.getD [] = t := rfl
      rw [this, show (codeSpan t).textAtomic = true from rfl, pp_codeText stash f t _ ht hne rfl]
      rfl
    · simp only [hc, Bool.false_eq_true, if_false]
  simp only [h2]
  simp [procKids, codeSpan, Node.el]


theorem placeholder_zero : placeholder 0 = phPrefix ++ ('0' :: '0' :: '0' :: '0' :: [ETX]) := by decide

/-- `__processPlaceholders` on the paragraph text after the span was stashed: the text before the placeholder stays
    the paragraph's text, the stashed `<code>` becomes a child and the text after it its tail -/
theorem ppTop_span (html : List Str) (a b t : Str) (parent : Node) (hp1 : parent.text = none)
    (hp2 : parent.textAtomic = false) (ha : STX ∉ a) (hb : STX ∉ b) (ht : STX ∉ t) :
    ppTop { stash := [.node (codeSpan t)], html := html } (a ++ placeholder 0 ++ b) false parent true =
      some ([{ codeSpan t with tail := optStr b }], { parent with text := optStr a }) := by
  unfold ppTop
  simp only [List.length_singleton]
  rw [show (1 : Nat) + 2 = 2 + 1 from rfl]
  unfold processPlaceholders
  have hne : (a ++ placeholder 0 ++ b).isEmpty = false := by
    rw [placeholder_zero]; simp [phPrefix]
  simp only [hne, Bool.false_eq_true, if_false]
  rw [show (a ++ placeholder 0 ++ b).length + 2 = (a ++ placeholder 0 ++ b).length + 1 + 1 from rfl]
  have hdata : a ++ placeholder 0 ++ b = a ++ (phPrefix ++ ('0' :: '0' :: '0' :: '0' :: ETX :: b)) := by
    rw [placeholder_zero]; simp
  -- first turn: the placeholder
  unfold ppLoop
  have hfind : find phPrefix ((a ++ placeholder 0 ++ b).drop 0) = some a.length := by
    rw [List.drop_zero, hdata]; exact find_phPrefix a _ ha
  have hph : findPh (a ++ placeholder 0 ++ b) (0 + a.length) = (some ['0', '0', '0', '0'], a.length + 14) := by
    unfold findPh
    have hle : ¬ (0 + a.length > (a ++ placeholder 0 ++ b).length) := by simp
    simp only [hle, if_false]
    rw [hdata, Nat.zero_add, List.drop_left]
    simp [findPhScan, phPrefix, startsWith, phAt, spanLen, isAsciiDigit, phPrefixLen, STX, ETX]
  have hget : stashGet [StashItem.node (codeSpan t)] ['0', '0', '0', '0'] = some (.node (codeSpan t)) := by
    rfl
  simp only [show ¬ (0 > (a ++ placeholder 0 ++ b).length) by omega, if_false, hfind, hph, Option.bind_some, hget]
  have hslice : Inline.slice (a ++ placeholder 0 ++ b) 0 (0 + a.length) = a := by
    simp [Inline.slice, List.append_assoc]
  have hlt : (if 0 + a.length > 0 then linkText (Inline.slice (a ++ placeholder 0 ++ b) 0 (0 + a.length)) false true [] parent
      else ([], parent)) = ([], { parent with text := optStr a }) := by
    rw [hslice, linkText_text a parent hp1 hp2]
    by_cases h0 : 0 + a.length > 0
    · rw [if_pos h0]
    · have : a = [] := by cases a <;> simp_all
      subst this
      rw [if_neg h0]
      cases parent; simp_all [optStr]
  simp only [hlt, procNode_codeSpan _ 2 (by omega) t ht]
  -- second turn: the rest
  unfold ppLoop
  have hle2 : ¬ (a.length + 14 > (a ++ placeholder 0 ++ b).length) := by
    rw [hdata]; simp [phPrefix]
  have hdrop : (a ++ placeholder 0 ++ b).drop (a.length + 14) = b := by
    rw [hdata, List.drop_append, List.drop_of_length_le (by omega)]
    simp [phPrefix]
  simp only [hle2, if_false, hdrop, find_phPrefix_none b hb]
  rw [linkText_tail b (codeSpan t) _ true rfl rfl]
  rfl


theorem visitChild_span (cfg : Inline.Cfg) (k : Nat) (a body b : Str) (html : List Str) (ha : noTickBs a)
    (hb : spanBodyOk (k + 1) body = true) (hbh : b.head? ≠ some '`')
    (hq : Quiet (a ++ placeholder 0 ++ b)) (hsa : STX ∉ a) (hsb : STX ∉ b) (hst : STX ∉ Code.codeEscape (strip body)) :
    visitChild cfg (Block.mkText "p" (spanData k a body b)) { st := { html := html } } =
      some (spanP a (Code.codeEscape (strip body)) b, [],
        { st := { stash := [.node (codeSpan (Code.codeEscape (strip body)))], html := html }, pushes := [[0, 0]] }) := by
  have hne : Node.truthy (Block.mkText "p" (spanData k a body b)).text = true := by
    obtain ⟨c, r, hcr⟩ : ∃ c r, spanData k a body b = c :: r := by
      cases h : spanData k a body b with
      | nil => have := congrArg List.length h; rw [spanData_length] at this; simp at this
      | cons c r => exact ⟨c, r, rfl⟩
    simp [Block.mkText, hcr, Node.truthy]
  unfold visitChild
  simp only [hne, show (Block.mkText "p" (spanData k a body b)).textAtomic = false from rfl, Bool.not_false,
    Bool.and_self, if_true]
  have h1 := handleInlineTop_span cfg k a body b { html := html } ha hb hbh hq
  simp only [List.length_nil, List.nil_append] at h1
  rw [show (Block.mkText "p" (spanData k a body b)).text.getD [] = spanData k a body b from rfl, h1]
  simp only
  rw [ppTop_span html a b _ _ rfl rfl hsa hsb hst]
  simp [Block.mkText, Node.el, Node.truthy, spanP, List.range_succ]


theorem run_spanTree (cfg : Inline.Cfg) (k : Nat) (a body b : Str) (ha : noTickBs a)
    (hb : spanBodyOk (k + 1) body = true) (hbh : b.head? ≠ some '`')
    (hq : Quiet (a ++ placeholder 0 ++ b)) (hsa : STX ∉ a) (hsb : STX ∉ b) (hst : STX ∉ Code.codeEscape (strip body)) :
    Inline.run cfg ((Node.el "div").append (Block.mkText "p" (spanData k a body b))) =
      some ((Node.el "div").append (spanP a (Code.codeEscape (strip body)) b),
        { stash := [.node (codeSpan (Code.codeEscape (strip body)))], html := [] }) := by
  unfold Inline.run
  generalize hf : Inline.runFuel ((Node.el "div").append (Block.mkText "p" (spanData k a body b))) = f
  obtain ⟨g, rfl⟩ : ∃ g, f = g + 3 := ⟨f - 3, by simp [Inline.runFuel] at hf; omega⟩
  have hv := visitChild_span cfg k a body b [] ha hb hbh hq hsa hsb hst
  simp [Inline.runLoop, Inline.getAt, Inline.visitLoop, Inline.withIdx, Node.append, Node.el, hv,
    Inline.setAt, spanP, codeSpan]

/-! ### a one-line paragraph through the block parser -/

theorem alpha_toNat {c : Char} (h : isAsciiAlpha c = true) :
    (97 ≤ c.toNat ∧ c.toNat ≤ 122) ∨ (65 ≤ c.toNat ∧ c.toNat ≤ 90) := by
  simp only [isAsciiAlpha, isAsciiLower, isAsciiUpper, Bool.or_eq_true, Bool.and_eq_true, decide_eq_true_eq,
    Char.le_def, UInt32.le_iff_toNat_le] at h
  exact h

theorem alpha_ne {c d : Char} (h : isAsciiAlpha c = true) (hd : isAsciiAlpha d = false) : c ≠ d := by
  intro e; subst e; rw [h] at hd; cases hd

theorem alpha_not_space {c : Char} (h : isAsciiAlpha c = true) : isSpace c = false := by
  have := alpha_toNat h
  have h128 : c.toNat < 128 := by omega
  simp only [isSpace, h128, if_true]
  have e : ∀ d : Char, c = d → c.toNat = d.toNat := fun d e => by rw [e]
  simp only [Bool.or_eq_false_iff, decide_eq_false_iff_not, Bool.and_eq_false_iff, Nat.not_le]
  refine ⟨⟨⟨⟨⟨⟨?_, ?_⟩, ?_⟩, ?_⟩, ?_⟩, ?_⟩, ?_⟩
  · intro e1; have := e _ e1; simp at this; omega
  · intro e1; have := e _ e1; simp at this; omega
  · intro e1; have := e _ e1; simp at this; omega
  · intro e1; have := e _ e1; simp at this; omega
  · omega
  · omega
  · omega

theorem alpha_not_decimal {c : Char} (h : isAsciiAlpha c = true) : isDecimal c = false := by
  have := alpha_toNat h
  have h128 : c.toNat < 128 := by omega
  simp only [isDecimal, h128, if_true, isAsciiDigit, Bool.and_eq_false_iff, decide_eq_false_iff_not, Char.le_def,
    UInt32.le_iff_toNat_le]
  have e1 : ('0' : Char).val.toNat = 48 := rfl
  have e2 : ('9' : Char).val.toNat = 57 := rfl
  have e3 : c.val.toNat = c.toNat := rfl
  omega

open Escape

/-- the characters that start a block construct -/
def lineEsc : List Char := ['#', '-', '_', '*', '+', '>', '[']

theorem startOk_of_head (c : Char) (r : Str) (hc : c ≠ ' ') (hm : c ∉ lineEsc) : startOk lineEsc (c :: r) = true := by
  have : (c == ' ') = false := by simpa using hc
  simp only [startOk, List.dropWhile_cons, this, Bool.false_eq_true, if_false]
  simp [hm]

theorem startsOkNl_of_no_nl (esc : List Char) (s : Str) (h : '\n' ∉ s) : startsOkNl esc s = true := by
  induction s with
  | nil => rfl
  | cons c r ih =>
    have hc : c ≠ '\n' := fun e => h (by simp [e])
    simp [startsOkNl, hc, ih (fun e => h (List.mem_cons_of_mem _ e))]

/-- a one-line block that starts with a character which begins no block construct is a paragraph -/
theorem dispatch_line (tab : Nat) (htab : 0 < tab) (pb : PB) (refs : Refs) (parent : Node) (c : Char) (r : Str)
    (rest : List Str) (hnl : '\n' ∉ c :: r) (hc1 : c ≠ ' ') (hc2 : c ∉ lineEsc) (hc3 : isDecimal c = false) :
    dispatch tab pb [] refs parent (c :: r) rest = some (paraP [] refs parent (c :: r) rest) := by
  have hl : LineStartsOk lineEsc (c :: r) = true := by
    simp only [LineStartsOk, startOk_of_head c r hc1 hc2, startsOkNl_of_no_nl _ _ hnl, Bool.and_self]
  have hcn : c ≠ '\n' := fun e => hnl (by simp [e])
  obtain ⟨n, rfl⟩ : ∃ n, tab = n + 1 := ⟨tab - 1, by omega⟩
  have e1 : ((c :: r).isEmpty || startsWith (c :: r) ['\n']) = false := by simp [startsWith, hcn]
  have e2 : startsWith (c :: r) (spaces (n + 1)) = false := by
    simp [spaces, List.replicate_succ, hc1]
  have e3 : setextMatch (c :: r) = false := by
    have : find ['\n'] (c :: r) = none := by
      rw [find_none_iff]; intro pre post e; apply hnl; rw [e]; simp
    simp [setextMatch, this]
  have hmem : ∀ d ∈ lineEsc, c ≠ d := fun d hd e => hc2 (e ▸ hd)
  have e4 : ∀ ol ul, listItemMatch (n + 1) ol ul (c :: r) = none := by
    intro ol ul
    have h0 : countPrefix ' ' (some (n + 1 - 1)) (c :: r) = 0 := countPrefix_eq_zero (by simpa using hc1) _
    have ho : olMarker (c :: r) = none := by simp [olMarker, spanLen, hc3]
    have hu : ulMarker (c :: r) = none := by
      simp [ulMarker, hmem '*' (by decide), hmem '+' (by decide), hmem '-' (by decide)]
    simp only [listItemMatch, h0, List.drop_zero, ho, hu]
    cases ol <;> cases ul <;> rfl
  unfold dispatch
  simp only [e1, e2, e3, e4, Bool.false_eq_true, if_false, Bool.false_and, Option.isSome_none,
    hashSearch_eq_none (esc := lineEsc) (by decide) _ hl, hrSearch_eq_none (esc := lineEsc) (by decide) (by decide) (by decide) _ hl,
    quoteSearch_eq_none (esc := lineEsc) (by decide) _ hl, refSearch_eq_none (esc := lineEsc) (by decide) _ hl]

theorem noEmptyLine_of_no_nl (c : Char) (r : Str) (h : '\n' ∉ c :: r) : noEmptyLineFrom true (c :: r) = true := by
  have hc : c ≠ '\n' := fun e => h (by simp [e])
  have : ∀ s : Str, '\n' ∉ s → noEmptyLineFrom false s = true := by
    intro s hs
    induction s with
    | nil => rfl
    | cons d s ih =>
      have hd : d ≠ '\n' := fun e => hs (by simp [e])
      simp [noEmptyLineFrom, hd, ih (fun e => hs (List.mem_cons_of_mem _ e))]
  simp [noEmptyLineFrom, hc, this r (fun e => h (List.mem_cons_of_mem _ e))]

/-- the block parser on a one-line document: one paragraph holding the line -/
theorem parseDocument_line (tab : Nat) (htab : 0 < tab) (c : Char) (r : Str) (hnl : '\n' ∉ c :: r) (hc0 : isSpace c = false)
    (hc2 : c ∉ lineEsc) (hc3 : isDecimal c = false) :
    parseDocument tab (c :: r ++ ['\n', '\n']) = some ((Node.el "div").append (mkText "p" (c :: r)), []) := by
  have hc1 : c ≠ ' ' := by intro e; subst e; revert hc0; decide
  exact parseDocument_paragraph tab (c :: r) (by simpa [startsVisible] using hc0) (noEmptyLine_of_no_nl c r hnl)
    (fun pb rest => dispatch_line tab htab pb [] _ c r rest hnl hc1 hc2 hc3)

/-! ### the tree processors and the serializer on a paragraph with a code span -/

/-- the tree of a paragraph with a code span after `PrettifyTreeprocessor` -/
def spanTreeP (a t b : Str) : Node :=
  { Node.el "div" with
    text := some nl1
    tail := some nl1
    children := [{ spanP a t b with tail := some nl1 }] }

theorem bl_div : TreeProc.isBlockLevel TreeProc.defaultBlockLevel (.name ['d', 'i', 'v']) = true := by decide
theorem bl_p : TreeProc.isBlockLevel TreeProc.defaultBlockLevel (.name ['p']) = true := by decide
theorem bl_code : TreeProc.isBlockLevel TreeProc.defaultBlockLevel (.name ['c', 'o', 'd', 'e']) = false := by decide

theorem prettify_spanTree (a t b : Str) :
    TreeProc.prettify ((Node.el "div").append (spanP a t b)) = spanTreeP a t b := by
  simp [TreeProc.prettify, TreeProc.prettifyETree, TreeProc.prettifyKids, TreeProc.mapTree, TreeProc.mapKids,
    TreeProc.brRule, TreeProc.preRule, TreeProc.tagIs, Node.append, Node.el, spanP, codeSpan, spanTreeP,
    bl_div, bl_p, bl_code, TreeProc.blankOrNone, Node.truthy, nl1]

theorem unescapeText_id (s : Str) (h : TreeProc.STX ∉ s) : TreeProc.unescapeText 0 s = some s := by
  induction s with
  | nil => rfl
  | cons c r ih =>
    have hc : c ≠ TreeProc.STX := fun e => h (by simp [e])
    simp [TreeProc.unescapeText, hc, ih (fun e => h (List.mem_cons_of_mem _ e))]

theorem unescape_spanTree (a t b : Str) (ha : TreeProc.STX ∉ a) (hb : TreeProc.STX ∉ b) :
    TreeProc.unescapeTree (spanTreeP a t b) = some (spanTreeP a t b) := by
  have h1 : ∀ s : Str, TreeProc.STX ∉ s →
      (if Node.truthy (optStr s) = true then (TreeProc.unescapeText 0 ((optStr s).getD [])).map some else some (optStr s)) =
        some (optStr s) := by
    intro s hs
    cases s with
    | nil => rfl
    | cons c r => simp [optStr, Node.truthy, unescapeText_id _ hs]
  have t1 : Node.truthy (some ['\n']) = true := rfl
  have t2 : Node.truthy none = false := rfl
  have t3 : TreeProc.unescapeText 0 ['\n'] = some ['\n'] := by decide
  simp [spanTreeP, spanP, codeSpan, TreeProc.unescapeTree, TreeProc.unescapeKids,
    TreeProc.unescAttrs, Node.el, nl1, h1 a ha, h1 b hb, t1, t3]

theorem escCdata_nil : Ser.escCdata [] = [] := by decide

theorem optEsc (s : Str) :
    (if Node.truthy (optStr s) = true then Ser.escCdata ((optStr s).getD []) else []) = Ser.escCdata s := by
  cases s with
  | nil => simp [optStr, Node.truthy, escCdata_nil]
  | cons c r => simp [optStr, Node.truthy]

theorem someEsc (t : Str) : (if Node.truthy (some t) = true then Ser.escCdata ((some t).getD []) else []) = Ser.escCdata t := by
  cases t with
  | nil => simp [Node.truthy, escCdata_nil]
  | cons c r => simp [Node.truthy]

theorem serialize_spanTree (fmt : Ser.Fmt) (a t b : Str) :
    Ser.serialize fmt (spanTreeP a t b) =
      "<div>".toList ++ ("\n<p>".toList ++ Ser.escCdata a ++ "<code>".toList ++ Ser.escCdata t ++ "</code>".toList ++
        Ser.escCdata b ++ "</p>\n".toList) ++ "</div>\n".toList := by
  have e7 : Ser.escCdata ['\n'] = ['\n'] := by decide
  have t1 : Node.truthy (some ['\n']) = true := rfl
  have t2 : Node.truthy none = false := rfl
  simp only [spanTreeP, spanP, codeSpan, Node.el]
  rw [serialize_plain fmt _ _ _ _ _ _ (by decide) (by decide)]
  simp only [Ser.serializeList]
  rw [serialize_plain fmt _ _ _ _ _ _ (by decide) (by decide)]
  simp only [Ser.serializeList]
  rw [serialize_plain fmt _ _ _ _ _ _ (by decide) (by decide)]
  simp only [optEsc, someEsc, Ser.serializeList, nl1, t1, if_true]
  simp [e7]

theorem escCdata_plain (s : Str) (h : ∀ c ∈ s, c ≠ '&' ∧ c ≠ '<' ∧ c ≠ '>') : Ser.escCdata s = s := by
  have h1 : Ser.ampSub s = s := by
    induction s with
    | nil => rfl
    | cons c r ih =>
      have := (h c List.mem_cons_self).1
      simp [Ser.ampSub, this, ih (fun d hd => h d (List.mem_cons_of_mem _ hd))]
  unfold Ser.escCdata
  rw [h1, Code.replace_single, Code.replace_single,
    Code.flatMap_sub1_id _ _ _ (fun c hc => (h c hc).2.1), Code.flatMap_sub1_id _ _ _ (fun c hc => (h c hc).2.2)]

/-! ### `Markdown.convert` on a paragraph with one code span -/

theorem refsClosed_of_no_amp (s : Str) (h : '&' ∉ s) : refsClosed s = true := by
  induction s with
  | nil => rfl
  | cons c r ih =>
    exact refsClosed_cons_of_ne (fun e => h (by simp [e])) (ih (fun e => h (List.mem_cons_of_mem _ e)))

theorem refsClosed_ticks (k : Nat) {r : Str} (h : refsClosed r = true) : refsClosed (ticks k ++ r) = true := by
  induction k with
  | zero => simpa [ticks] using h
  | succ n ih =>
    simp only [ticks, List.replicate_succ, List.cons_append] at ih ⊢
    exact refsClosed_cons_of_ne (by decide) ih

/-- letters and spaces -/
theorem wordSp_cases {c : Char} (h : isWordSp c = true) : isAsciiAlpha c = true ∨ c = ' ' := by
  simpa [isWordSp] using h

/-- a letter or a space is none of the characters `bad` when no letter and no space is -/
theorem wordSp_ne {c d : Char} (h : isWordSp c = true) (hd : isWordSp d = false) : c ≠ d := by
  intro e; subst e; rw [h] at hd; cases hd

theorem spanSource_eq (k : Nat) (a body b : Str) : spanSource (k + 1) a body b = spanData k a body b := by
  simp [spanSource, spanData]

theorem mem_spanData {k : Nat} {a body b : Str} {c : Char} (h : c ∈ spanData k a body b) :
    c ∈ a ∨ c = '`' ∨ c ∈ body ∨ c ∈ b := by
  simp only [spanData, List.mem_append, ticks] at h
  rcases h with h | h | h | h | h
  · exact Or.inl h
  · exact Or.inr (Or.inl (List.eq_of_mem_replicate h))
  · exact Or.inr (Or.inr (Or.inl h))
  · exact Or.inr (Or.inl (List.eq_of_mem_replicate h))
  · exact Or.inr (Or.inr (Or.inr h))

/-- the hypotheses of the end-to-end span statement -/
structure SpanDoc (k : Nat) (a body b : Str) : Prop where
  ha : isSpanContext a = true
  hb : b.all isWordSp = true
  hchars : body.all isCodeChar = true
  hrefs : refsClosed body = true
  hbody : spanBodyOk (k + 1) body = true

theorem quiet_placeholder0 : Quiet (placeholder 0) := by
  intro c hc
  have : placeholder 0 = [STX, 'k', 'l', 'z', 'z', 'w', 'x', 'h', ':', '0', '0', '0', '0', ETX] := by decide
  rw [this] at hc
  simp only [List.mem_cons, List.not_mem_nil, or_false] at hc
  rcases hc with rfl | rfl | rfl | rfl | rfl | rfl | rfl | rfl | rfl | rfl | rfl | rfl | rfl | rfl <;> decide

theorem quiet_wordSp (s : Str) (h : s.all isWordSp = true) : Quiet s := by
  intro c hc
  have hw := List.all_eq_true.1 h c hc
  exact ⟨wordSp_ne hw (by decide), wordSp_ne hw (by decide), wordSp_ne hw (by decide), wordSp_ne hw (by decide),
    wordSp_ne hw (by decide), wordSp_ne hw (by decide), wordSp_ne hw (by decide)⟩

theorem Quiet.append {s t : Str} (hs : Quiet s) (ht : Quiet t) : Quiet (s ++ t) := by
  intro c hc
  rcases List.mem_append.1 hc with h | h
  · exact hs c h
  · exact ht c h

theorem convert_span (tab : Nat) (htab : 0 < tab) (k : Nat) (a body b : Str) (h : SpanDoc k a body b) :
    Pipeline.convert { tab := tab } (spanSource (k + 1) a body b) =
      .ok ("<p>".toList ++ a ++ "<code>".toList ++ Code.codeEscape (strip body) ++ "</code>".toList ++ b ++
        "</p>".toList) := by
  obtain ⟨ha, hb, hchars, hrefs, hbody⟩ := h
  simp only [isSpanContext, Bool.and_eq_true, bne_iff_ne, ne_eq] at ha
  obtain ⟨haw, hah⟩ := ha
  have hbw := hb
  rw [spanSource_eq]
  have hw : ∀ s : Str, s.all isWordSp = true → ∀ c ∈ s, isWordSp c = true := fun s hs c hc => List.all_eq_true.1 hs c hc
  have hcc : ∀ c ∈ body, isCodeChar c = true := fun c hc => List.all_eq_true.1 hchars c hc
  -- characters of the source
  have hsrc : ∀ c ∈ spanData k a body b,
      c ≠ '<' ∧ c ≠ '\n' ∧ c ≠ '\r' ∧ c ≠ '\t' ∧ c ≠ Char.ofNat 2 ∧ c ≠ Char.ofNat 3 := by
    intro c hc
    rcases mem_spanData hc with h | rfl | h | h
    · have := hw a haw c h
      exact ⟨wordSp_ne this (by decide), wordSp_ne this (by decide), wordSp_ne this (by decide),
        wordSp_ne this (by decide), wordSp_ne this (by decide), wordSp_ne this (by decide)⟩
    · decide
    · exact isCodeChar_spec (hcc c h)
    · have := hw b hbw c h
      exact ⟨wordSp_ne this (by decide), wordSp_ne this (by decide), wordSp_ne this (by decide),
        wordSp_ne this (by decide), wordSp_ne this (by decide), wordSp_ne this (by decide)⟩
  have hnl : '\n' ∉ spanData k a body b := fun hm => (hsrc _ hm).2.1 rfl
  -- the first character
  obtain ⟨c0, r0, hcr, hc0⟩ : ∃ c0 r0, spanData k a body b = c0 :: r0 ∧ (isAsciiAlpha c0 = true ∨ c0 = '`') := by
    cases a with
    | nil => exact ⟨'`', _, rfl, Or.inr rfl⟩
    | cons d a' =>
      refine ⟨d, _, rfl, ?_⟩
      rcases wordSp_cases (hw _ haw d List.mem_cons_self) with h | h
      · exact Or.inl h
      · exact absurd (by simp [h]) hah
  have hc0s : isSpace c0 = false := by
    rcases hc0 with h | rfl
    · exact alpha_not_space h
    · decide
  have hc0e : c0 ∉ lineEsc := by
    rcases hc0 with h | rfl
    · intro hm
      simp only [lineEsc, List.mem_cons, List.not_mem_nil, or_false] at hm
      rcases hm with rfl | rfl | rfl | rfl | rfl | rfl | rfl <;> exact absurd h (by decide)
    · decide
  have hc0d : isDecimal c0 = false := by
    rcases hc0 with h | rfl
    · exact alpha_not_decimal h
    · decide
  -- the stages
  have hlt : (spanData k a body b).contains '<' = false := by
    rw [Bool.eq_false_iff]; intro hc
    exact (hsrc '<' (by simpa using hc)).1 rfl
  have hblank : Normalize.isBlankDoc (spanData k a body b) = false := by
    rw [Normalize.isBlankDoc_eq_all, hcr]; simp [hc0s]
  have hnorm : Normalize.normalize tab (spanData k a body b) = spanData k a body b ++ ['\n', '\n'] := by
    apply normalize_of_clean
    · intro c hc
      obtain ⟨_, _, a3, a4, a5, a6⟩ := hsrc c hc
      exact ⟨a5, a6, a3, a4⟩
    · have := ws_some_line_of_head c0 r0 ['\n'] (hcr ▸ hnl) hc0s
      rw [hcr]
      simpa [Normalize.wsLinesAux] using this
  have hrc : refsClosed (spanData k a body b ++ ['\n', '\n']) = true := by
    have hna : '&' ∉ a := fun hm => wordSp_ne (hw a haw _ hm) (by decide) rfl
    have hnb : '&' ∉ b ++ ['\n', '\n'] := by
      intro hm
      rcases List.mem_append.1 hm with hm | hm
      · exact wordSp_ne (hw b hbw _ hm) (by decide) rfl
      · revert hm; decide
    have e : spanData k a body b ++ ['\n', '\n'] =
        a ++ '`' :: (ticks k ++ (body ++ '`' :: (ticks k ++ (b ++ ['\n', '\n'])))) := by
      simp [spanData, ticks, List.replicate_succ]
    rw [e]
    apply refsClosed_append a '`' _ (by decide) (refsClosed_of_no_amp a hna)
    apply refsClosed_cons_of_ne (by decide)
    apply refsClosed_ticks
    apply refsClosed_append body '`' _ (by decide) hrefs
    apply refsClosed_cons_of_ne (by decide)
    apply refsClosed_ticks
    exact refsClosed_of_no_amp _ hnb
  have hprep : Pipeline.prepare { tab := tab } (spanData k a body b) = spanData k a body b ++ ['\n', '\n'] := by
    unfold Pipeline.prepare
    rw [hnorm]; exact extract_id _ hrc
  -- what the inline lemmas need
  have hstx : ∀ s : Str, s.all isWordSp = true → Char.ofNat 2 ∉ s := fun s hs hm => wordSp_ne (hw s hs _ hm) (by decide) rfl
  have hta : noTickBs a := fun c hc => ⟨wordSp_ne (hw a haw c hc) (by decide), wordSp_ne (hw a haw c hc) (by decide)⟩
  have hbh : b.head? ≠ some '`' := by
    cases b with
    | nil => simp
    | cons d b' =>
      have := hw _ hbw d List.mem_cons_self
      simpa using wordSp_ne this (by decide)
  have hq : Quiet (a ++ placeholder 0 ++ b) :=
    ((quiet_wordSp a haw).append quiet_placeholder0).append (quiet_wordSp b hbw)
  have hsc : Char.ofNat 2 ∉ Code.codeEscape (strip body) := by
    intro hm
    rcases mem_codeEscape hm with hm | hm
    · exact (isCodeChar_spec (hcc _ ((strip_infix body).subset hm))).2.2.2.2.1 rfl
    · revert hm; decide
  have htree : Pipeline.tree { tab := tab } (spanData k a body b) =
      some (some (spanTreeP a (Code.codeEscape (strip body)) b, [])) := by
    unfold Pipeline.tree
    rw [hprep, hcr, parseDocument_line tab htab c0 r0 (hcr ▸ hnl) hc0s hc0e hc0d, ← hcr]
    simp only [List.reverse_nil]
    rw [run_spanTree _ k a body b hta hbody hbh hq (hstx a haw) (hstx b hbw) hsc]
    simp only
    have : TreeProc.prettify ((Node.el "div").append (spanP a (Code.codeEscape (strip body)) b))
        ({ tab := tab } : Pipeline.Cfg).blockLevel = spanTreeP a (Code.codeEscape (strip body)) b :=
      prettify_spanTree _ _ _
    rw [this, unescape_spanTree _ _ _ (hstx a haw) (hstx b hbw)]
  unfold Pipeline.convert
  rw [hlt, hblank, htree]
  simp only [Bool.false_eq_true, if_false]
  rw [serialize_spanTree]
  have hpl : ∀ s : Str, s.all isWordSp = true → ∀ c ∈ s, c ≠ '&' ∧ c ≠ '<' ∧ c ≠ '>' := fun s hs c hc =>
    ⟨wordSp_ne (hw s hs c hc) (by decide), wordSp_ne (hw s hs c hc) (by decide), wordSp_ne (hw s hs c hc) (by decide)⟩
  rw [escCdata_plain a (hpl a haw), escCdata_plain b (hpl b hbw), Code.codeEscape_onepass, Code.escCdata_codeEscape1,
    ← Code.codeEscape_onepass]
  have hs2 : Post.STX ∉ "\n<p>".toList ++ a ++ "<code>".toList ++ Code.codeEscape (strip body) ++ "</code>".toList ++ b ++
      "</p>\n".toList := by
    intro hmem
    simp only [List.mem_append] at hmem
    rcases hmem with (((((hmem | hmem) | hmem) | hmem) | hmem) | hmem) | hmem
    · revert hmem; decide
    · exact hstx a haw hmem
    · revert hmem; decide
    · exact hsc hmem
    · revert hmem; decide
    · exact hstx b hbw hmem
    · revert hmem; decide
  rw [finish_div _ _ hs2]
  have e : "\n<p>".toList ++ a ++ "<code>".toList ++ Code.codeEscape (strip body) ++ "</code>".toList ++ b ++
      "</p>\n".toList = '\n' :: '<' :: ("p>".toList ++ a ++ "<code>".toList ++ Code.codeEscape (strip body) ++
        "</code>".toList ++ b ++ "</p".toList) ++ ['>', '\n'] := by simp
  rw [e, strip_tagged]
  simp

/-! ### node by node: no stage after the block parser touches code text -/

/-- `InlineProcessor.run` reads the text of an element only through `visitChild`; an atomic text is left alone:
    same text, still atomic, same tag and attributes, same children -/
theorem visitChild_atomic (cfg : Inline.Cfg) (child : Node) (v : Visit) (c' : Node) (tr : List Node) (v' : Visit)
    (h : visitChild cfg child v = some (c', tr, v')) (ha : child.textAtomic = true) :
    c'.text = child.text ∧ c'.textAtomic = true ∧ c'.tag = child.tag ∧ c'.attrs = child.attrs ∧
      c'.children = child.children := by
  unfold visitChild at h
  simp only [ha, Bool.not_true, Bool.and_false, Bool.false_eq_true, if_false] at h
  split at h
  · cases h
  · rename_i c2 tr2 st2 heq
    simp only [Option.some.injEq, Prod.mk.injEq] at h
    obtain ⟨rfl, _, _⟩ := h
    split at heq
    · split at heq
      · cases heq
      · rename_i data st3 hh
        split at heq
        · cases heq
        · rename_i tr3 dumby hpp
          simp only [Option.some.injEq, Prod.mk.injEq] at heq
          obtain ⟨rfl, _, _⟩ := heq
          split <;> simp
    · simp only [Option.some.injEq, Prod.mk.injEq] at heq
      obtain ⟨rfl, _, _⟩ := heq
      simp [ha]

/-- a matched element whose text is atomic goes into the stash as it is -/
theorem applyPattern_atomic (cfg : Inline.Cfg) (hi : HI) (pi : Nat) (data : Str) (si : Nat) (st st' : St) (n : Node)
    (s : Nat) (e : Int) (h : findMatch cfg pi data si st = some (some ⟨.el n, s, e⟩, st'))
    (h1 : n.text.isSome = true) (h2 : n.textAtomic = true) :
    applyPattern cfg hi pi data si st =
      some (data.take s ++ placeholder st'.stash.length ++ pyDrop data e, true, 0,
        { st' with stash := st'.stash ++ [.node n] }) := by
  unfold applyPattern
  rw [h]
  simp [h1, h2, stashNode]

/-- `UnescapeTreeprocessor` skips the text of a `code` element -/
theorem unescapeTree_code (n n' : Node) (ht : n.tag = .name "code".toList) (h : TreeProc.unescapeTree n = some n') :
    n'.text = n.text ∧ n'.textAtomic = n.textAtomic ∧ n'.tag = n.tag := by
  obtain ⟨tag, attrs, text, ta, children, tail, tla⟩ := n
  simp only at ht
  subst ht
  unfold TreeProc.unescapeTree at h
  simp only [BEq.rfl, Bool.not_true, Bool.and_false, Bool.false_eq_true, if_false] at h
  split at h
  · simp only [Option.some.injEq] at h
    rename_i t tl a ks heq1 _ _ _
    simp only [Option.some.injEq] at heq1
    subst h
    exact ⟨heq1.symm, rfl, rfl⟩
  · cases h

/-- `_prettifyETree` never writes the text of a `code` element -/
theorem prettifyETree_code (bl : List Str) (n : Node) (ht : n.tag = .name "code".toList) :
    (TreeProc.prettifyETree bl n).text = n.text ∧ (TreeProc.prettifyETree bl n).textAtomic = n.textAtomic ∧
      (TreeProc.prettifyETree bl n).children = n.children := by
  obtain ⟨tag, attrs, text, ta, children, tail, tla⟩ := n
  simp only at ht
  subst ht
  unfold TreeProc.prettifyETree
  simp

/-- the `pre` loop of `PrettifyTreeprocessor`: the code text is right-trimmed and gets one line feed, nothing else -/
theorem preRule_codePre (t : Str) (tl : Option Str) :
    TreeProc.preRule { codePre t with tail := tl } = { codePre (rstrip t ++ ['\n']) with tail := tl } := rfl

/-! ### a paragraph followed by a code block -/

/-- on quiet text the pattern loop does nothing -/
theorem handleInlineTop_quiet (cfg : Inline.Cfg) (data : Str) (st : St) (hq : Quiet data) :
    handleInlineTop cfg data st = some (data, st) := by
  unfold handleInlineTop depthFuel
  rw [show data.length + 20 = (data.length + 19) + 1 from rfl]
  unfold handleInline
  apply hiLoop_quiet _ _ _ (fun pi => ?_) 16 0 _ rfl (by have := loopFuel_ge data.length; omega)
  unfold applyPattern
  rw [findMatch_quiet cfg pi _ _ hq]

/-- `__processPlaceholders` on text without STX: the text is put back -/
theorem ppTop_plain (st : St) (data : Str) (parent : Node) (hne : data ≠ []) (hs : STX ∉ data)
    (hp1 : parent.text = none) (hp2 : parent.textAtomic = false) :
    ppTop st data false parent true = some ([], { parent with text := some data }) := by
  obtain ⟨c, r, rfl⟩ : ∃ c r, data = c :: r := by cases data <;> simp_all
  unfold ppTop
  rw [show st.stash.length + 2 = (st.stash.length + 1) + 1 from rfl]
  unfold processPlaceholders
  simp only [List.isEmpty_cons, Bool.false_eq_true, if_false, List.length_cons]
  rw [show r.length + 1 + 2 = (r.length + 2) + 1 from rfl]
  unfold ppLoop
  simp only [List.drop_zero, find_phPrefix_none _ hs]
  cases parent
  simp_all [linkText, Node.truthy]

theorem visitChild_quietP (cfg : Inline.Cfg) (data : Str) (v : Visit) (hne : data ≠ []) (hq : Quiet data)
    (hs : STX ∉ data) :
    visitChild cfg (mkText "p" data) v = some (mkText "p" data, [], v) := by
  obtain ⟨c, r, rfl⟩ : ∃ c r, data = c :: r := by cases data <;> simp_all
  unfold visitChild
  have h1 : Node.truthy (mkText "p" (c :: r)).text = true := rfl
  simp only [h1, show (mkText "p" (c :: r)).textAtomic = false from rfl, Bool.not_false, Bool.and_self, if_true]
  rw [show (mkText "p" (c :: r)).text.getD [] = c :: r from rfl, handleInlineTop_quiet cfg _ _ hq]
  simp only
  rw [ppTop_plain v.st (c :: r) _ (by simp) hs rfl rfl]
  cases v
  simp [mkText, Node.el, Node.truthy]


theorem run_paraCodeTree (cfg : Inline.Cfg) (p t : Str) (hne : p ≠ []) (hq : Quiet p) (hs : STX ∉ p) :
    Inline.run cfg (((Node.el "div").append (mkText "p" p)).append (codePre t)) =
      some (((Node.el "div").append (mkText "p" p)).append (codePre t), {}) := by
  unfold Inline.run
  generalize hf : Inline.runFuel (((Node.el "div").append (mkText "p" p)).append (codePre t)) = f
  obtain ⟨g, rfl⟩ : ∃ g, f = g + 3 := ⟨f - 3, by simp [Inline.runFuel] at hf; omega⟩
  have hv := fun v => visitChild_quietP cfg p v hne hq hs
  have hi : ∀ v, Inline.visitChild cfg (codePre t) v = _ := fun v => visitChild_inert cfg (codePre t) v rfl
  have hi2 : ∀ v, Inline.visitChild cfg (codeSpan t) v = _ :=
    fun v => visitChild_inert cfg (codeSpan t) v (by simp [inertNode, codeSpan, Node.el, Node.truthy])
  have hc : (codePre t).children = [codeSpan t] := rfl
  have he : ({ codePre t with children := [codeSpan t] } : Node) = codePre t := rfl
  have hd : (Node.el "div").children = [] := rfl
  have hcs : (codeSpan t).children = [] := rfl
  simp [Inline.runLoop, Inline.getAt, Inline.visitLoop, Inline.withIdx, Node.append, hv, hi, hi2, hc, he, hd, hcs,
    Inline.setAt]


open Escape in
/-- the block parser on the blocks of a code block below any parent that is not a list item and whose last child
    is neither a list nor a code block -/
theorem parse_codeBlock (tab : Nat) (refs : Refs) (parent : Node) (hp : isItemTag parent = false)
    (hl : ∀ sib, parent.last? = some sib → isListTag sib = false ∧ preCode sib = none)
    (first : List Str) (more : List (Nat × List Str)) (h1 : RunOk first) (h : ∀ er ∈ more, RunOk er.2) :
    ∃ f, parseBlocks tab f [] refs parent (indentRun tab first :: restBlocks tab more) =
      some (parent.append (codePre (codeAccum first more ++ ['\n', '\n'])), refs) := by
  obtain ⟨c, l, ls, rfl, hc⟩ := h1.shape
  obtain ⟨f, hf⟩ := parse_rest tab [] refs parent hp more h (runText ((c :: l) :: ls))
  refine ⟨f + 1, ?_⟩
  rw [parseBlocks_step]
  simp only [indentRun]
  rw [dispatch_run tab _ [] refs _ c l ls _ hc hp (fun sib hs => (hl sib hs).1),
    codeP_fresh tab refs _ _ _ h1.1 h1.nl (fun sib hs => (hl sib hs).2)]
  simpa [codeAccum] using hf

open Escape in
theorem parseDocument_paraCode (tab : Nat) (htab : 0 < tab) (c : Char) (r : Str) (hnl : '\n' ∉ c :: r)
    (hc0 : isSpace c = false) (hc2 : c ∉ lineEsc) (hc3 : isDecimal c = false)
    (first : List Str) (more : List (Nat × List Str)) (h1 : RunOk first) (h : ∀ er ∈ more, RunOk er.2) :
    parseDocument tab (paraCodeSource tab (c :: r) first more ++ ['\n', '\n']) =
      some (((Node.el "div").append (mkText "p" (c :: r))).append (codePre (codeAccum first more ++ ['\n', '\n'])), []) := by
  have hc1 : c ≠ ' ' := by intro e; subst e; revert hc0; decide
  have hv : startsVisible (c :: r) = true := by simpa [startsVisible] using hc0
  obtain ⟨f, hf⟩ := parse_codeBlock tab [] ((Node.el "div").append (mkText "p" (c :: r))) rfl
    (fun sib hs => by rw [last_append] at hs; cases hs; exact ⟨rfl, rfl⟩) first more h1 h
  have key : parseBlocks tab (f + 1) [] [] (Node.el "div")
      (splitS ['\n', '\n'] (paraCodeSource tab (c :: r) first more ++ ['\n', '\n'])) =
      some (((Node.el "div").append (mkText "p" (c :: r))).append (codePre (codeAccum first more ++ ['\n', '\n'])), []) := by
    have e : paraCodeSource tab (c :: r) first more ++ ['\n', '\n'] =
        (c :: r) ++ '\n' :: '\n' :: (codeSource tab first more ++ ['\n', '\n']) := by
      simp [paraCodeSource]
    have hsp := splitS_codeSource tab first more h1 h
    simp only [splitS] at hsp ⊢
    rw [e, splitAux_tight true (c :: r) (noEmptyLine_of_no_nl c r hnl), hsp, parseBlocks_step,
      dispatch_line tab htab _ [] _ c r _ hnl hc1 hc2 hc3, paraP_visible _ _ _ _ hv]
    exact hf
  obtain ⟨res, hr⟩ := Option.isSome_iff_exists.1
    (parseDocument_total tab (paraCodeSource tab (c :: r) first more ++ ['\n', '\n']))
  rw [hr]
  simp only [parseDocument, parseDocumentWith, parseChunk] at hr
  have a1 := parseBlocks_fuel_mono (fuelFor (paraCodeSource tab (c :: r) first more ++ ['\n', '\n']).length) key
  have a2 := parseBlocks_fuel_mono (f + 1) hr
  rw [Nat.add_comm] at a2
  rw [a2] at a1
  exact a1


/-- the tree of a paragraph and a code block after `PrettifyTreeprocessor` -/
def paraCodeTreeP (p t : Str) : Node :=
  { Node.el "div" with
    text := some nl1
    tail := some nl1
    children := [{ mkText "p" p with tail := some nl1 }, { codePre t with tail := some nl1 }] }

theorem bl_pre : TreeProc.isBlockLevel TreeProc.defaultBlockLevel (.name ['p', 'r', 'e']) = true := by decide

theorem prettify_paraCodeTree (p t : Str) :
    TreeProc.prettify (((Node.el "div").append (mkText "p" p)).append (codePre t)) =
      paraCodeTreeP p (rstrip t ++ ['\n']) := by
  simp [TreeProc.prettify, TreeProc.prettifyETree, TreeProc.prettifyKids, TreeProc.mapTree, TreeProc.mapKids,
    TreeProc.brRule, TreeProc.preRule, TreeProc.tagIs, Node.append, Node.el, mkText, codePre, paraCodeTreeP,
    bl_div, bl_p, bl_pre, TreeProc.blankOrNone, Node.truthy, nl1]

theorem unescape_paraCodeTree (p t : Str) (hp : TreeProc.STX ∉ p) :
    TreeProc.unescapeTree (paraCodeTreeP p t) = some (paraCodeTreeP p t) := by
  have t1 : Node.truthy (some ['\n']) = true := rfl
  have t3 : TreeProc.unescapeText 0 ['\n'] = some ['\n'] := by decide
  have t2 : Node.truthy none = false := rfl
  have h1 : (if Node.truthy (some p) = true then (TreeProc.unescapeText 0 p).map some else some (some p)) =
      some (some p) := by
    cases p with
    | nil => rfl
    | cons c r => simp [Node.truthy, unescapeText_id _ hp]
  simp [paraCodeTreeP, mkText, codePre, TreeProc.unescapeTree, TreeProc.unescapeKids,
    TreeProc.unescAttrs, Node.el, nl1, h1, t1, t2, t3]

theorem serialize_paraCodeTree (fmt : Ser.Fmt) (p t : Str) :
    Ser.serialize fmt (paraCodeTreeP p t) =
      "<div>".toList ++ ("\n<p>".toList ++ Ser.escCdata p ++ "</p>\n<pre><code>".toList ++ Ser.escCdata t ++
        "</code></pre>\n".toList) ++ "</div>\n".toList := by
  have e7 : Ser.escCdata ['\n'] = ['\n'] := by decide
  have t1 : Node.truthy (some ['\n']) = true := rfl
  simp only [paraCodeTreeP, mkText, codePre, Node.el]
  rw [serialize_plain fmt _ _ _ _ _ _ (by decide) (by decide)]
  simp only [Ser.serializeList]
  rw [serialize_plain fmt _ _ _ _ _ _ (by decide) (by decide)]
  rw [serialize_plain fmt _ _ _ _ _ _ (by decide) (by decide)]
  simp only [Ser.serializeList]
  rw [serialize_plain fmt _ _ _ _ _ _ (by decide) (by decide)]
  simp only [someEsc, Ser.serializeList, nl1, t1, if_true]
  simp [e7, Node.truthy]


open Normalize in
theorem ws_codeSource_some (tab : Nat) (first : List Str) (more : List (Nat × List Str)) (h1 : RunInk first)
    (h : ∀ er ∈ more, RunInk er.2) :
    wsLinesAux (some 0) (codeSource tab first more ++ ['\n', '\n']) = codeSource tab first more ++ ['\n', '\n'] := by
  rw [codeSource_nl2, ws_run tab (some 0) (Or.inr rfl) first h1, wsLinesAux_nl, ws_restText tab more h]

/-- **`Markdown.convert` on a paragraph line followed by an indented code block** -/
theorem convert_paraCode (tab : Nat) (htab : 0 < tab) (p : Str) (first : List Str) (more : List (Nat × List Str))
    (hp : isSpanContext p = true) (hpne : p ≠ []) (h1 : isCodeRun first = true)
    (h2 : ∀ er ∈ more, isCodeRun er.2 = true) :
    Pipeline.convert { tab := tab } (paraCodeSource tab p first more) =
      .ok ("<p>".toList ++ p ++ "</p>\n<pre><code>".toList ++ Code.codeEscape (trimSpec first more) ++
        "\n</code></pre>".toList) := by
  obtain ⟨i1, r1, c1⟩ := isCodeRun_spec h1
  have hm : ∀ er ∈ more, RunInk er.2 ∧ RunRefs er.2 ∧ ∀ l ∈ er.2, ∀ c ∈ l, isCodeChar c = true :=
    fun er her => isCodeRun_spec (h2 er her)
  simp only [isSpanContext, Bool.and_eq_true, bne_iff_ne, ne_eq] at hp
  obtain ⟨hpw, hph⟩ := hp
  have hw : ∀ c ∈ p, isWordSp c = true := fun c hc => List.all_eq_true.1 hpw c hc
  obtain ⟨c0, r0, rfl⟩ : ∃ c0 r0, p = c0 :: r0 := by cases p <;> simp_all
  have hc0 : isAsciiAlpha c0 = true := by
    rcases wordSp_cases (hw c0 List.mem_cons_self) with h | h
    · exact h
    · exact absurd (by simp [h]) hph
  have hc0s : isSpace c0 = false := alpha_not_space hc0
  have hc0e : c0 ∉ lineEsc := by
    intro hm
    simp only [lineEsc, List.mem_cons, List.not_mem_nil, or_false] at hm
    rcases hm with rfl | rfl | rfl | rfl | rfl | rfl | rfl <;> exact absurd hc0 (by decide)
  have hc0d : isDecimal c0 = false := alpha_not_decimal hc0
  have hpnl : '\n' ∉ c0 :: r0 := fun hm => wordSp_ne (hw _ hm) (by decide) rfl
  -- the characters of the source
  have hchars : ∀ c ∈ paraCodeSource tab (c0 :: r0) first more,
      c ≠ '<' ∧ c ≠ '\r' ∧ c ≠ '\t' ∧ c ≠ Char.ofNat 2 ∧ c ≠ Char.ofNat 3 := by
    intro c hc
    simp only [paraCodeSource, List.mem_append, List.mem_cons] at hc
    rcases hc with hc | rfl | rfl | hc
    · have := hw c (List.mem_cons.2 hc)
      exact ⟨wordSp_ne this (by decide), wordSp_ne this (by decide), wordSp_ne this (by decide),
        wordSp_ne this (by decide), wordSp_ne this (by decide)⟩
    · decide
    · decide
    · rcases mem_codeSource hc with rfl | rfl | ⟨l, hl, hcl⟩ | ⟨er, her, l, hl, hcl⟩
      · decide
      · decide
      · obtain ⟨a1, _, a3, a4, a5, a6⟩ := isCodeChar_spec (c1 l hl c hcl); exact ⟨a1, a3, a4, a5, a6⟩
      · obtain ⟨a1, _, a3, a4, a5, a6⟩ := isCodeChar_spec ((hm er her).2.2 l hl c hcl); exact ⟨a1, a3, a4, a5, a6⟩
  have hlt : (paraCodeSource tab (c0 :: r0) first more).contains '<' = false := by
    rw [Bool.eq_false_iff]; intro hc
    exact (hchars '<' (by simpa using hc)).1 rfl
  have hblank : Normalize.isBlankDoc (paraCodeSource tab (c0 :: r0) first more) = false := by
    rw [Normalize.isBlankDoc_eq_all]; simp [paraCodeSource, hc0s]
  have e : paraCodeSource tab (c0 :: r0) first more ++ ['\n', '\n'] =
      (c0 :: r0) ++ '\n' :: '\n' :: (codeSource tab first more ++ ['\n', '\n']) := by
    simp [paraCodeSource]
  have hprep : Pipeline.prepare { tab := tab } (paraCodeSource tab (c0 :: r0) first more) =
      paraCodeSource tab (c0 :: r0) first more ++ ['\n', '\n'] := by
    unfold Pipeline.prepare
    rw [normalize_of_clean tab _ (fun c hc => by
      obtain ⟨_, a2, a3, a4, a5⟩ := hchars c hc; exact ⟨a4, a5, a2, a3⟩)
      (by rw [e, ws_some_line_of_head c0 r0 _ hpnl hc0s, Normalize.wsLinesAux_nl,
            ws_codeSource_some tab first more i1 (fun er her => (hm er her).1)])]
    apply extract_id
    rw [e]
    apply refsClosed_append _ '\n' _ (by decide)
      (refsClosed_of_no_amp _ (fun hm' => wordSp_ne (hw _ hm') (by decide) rfl))
    apply refsClosed_cons_of_ne (by decide)
    apply refsClosed_cons_of_ne (by decide)
    exact refsClosed_codeSource tab first more r1 (fun er her => (hm er her).2.1)
  have hq : Quiet (c0 :: r0) := quiet_wordSp _ hpw
  have hstx : Char.ofNat 2 ∉ c0 :: r0 := fun hm' => wordSp_ne (hw _ hm') (by decide) rfl
  have htree : Pipeline.tree { tab := tab } (paraCodeSource tab (c0 :: r0) first more) =
      some (some (paraCodeTreeP (c0 :: r0) (Code.codeEscape (trimSpec first more) ++ ['\n']), [])) := by
    unfold Pipeline.tree
    rw [hprep, parseDocument_paraCode tab htab c0 r0 hpnl hc0s hc0e hc0d first more i1.ok
      (fun er her => (hm er her).1.ok)]
    simp only [List.reverse_nil]
    rw [run_paraCodeTree _ _ _ (by simp) hq hstx]
    simp only
    have : TreeProc.prettify (((Node.el "div").append (mkText "p" (c0 :: r0))).append
          (codePre (codeAccum first more ++ ['\n', '\n'])))
        ({ tab := tab } : Pipeline.Cfg).blockLevel =
          paraCodeTreeP (c0 :: r0) (rstrip (codeAccum first more ++ ['\n', '\n']) ++ ['\n']) :=
      prettify_paraCodeTree _ _
    rw [this, prettified_codeAccum, unescape_paraCodeTree _ _ hstx]
  unfold Pipeline.convert
  rw [hlt, hblank, htree]
  simp only [Bool.false_eq_true, if_false]
  rw [serialize_paraCodeTree, escCdata_code_nl, escCdata_plain (c0 :: r0) (fun c hc =>
    ⟨wordSp_ne (hw c hc) (by decide), wordSp_ne (hw c hc) (by decide), wordSp_ne (hw c hc) (by decide)⟩)]
  have hs2 : Post.STX ∉ "\n<p>".toList ++ (c0 :: r0) ++ "</p>\n<pre><code>".toList ++
      (Code.codeEscape (trimSpec first more) ++ ['\n']) ++ "</code></pre>\n".toList := by
    intro hmem
    simp only [List.mem_append] at hmem
    rcases hmem with (((hmem | hmem) | hmem) | hmem | hmem) | hmem
    · revert hmem; decide
    · exact hstx hmem
    · revert hmem; decide
    · rcases mem_codeEscape hmem with hmem | hmem
      · rcases mem_trimSpec hmem with e' | ⟨l, hl, hcl⟩ | ⟨er, her, l, hl, hcl⟩
        · revert e'; decide
        · exact (isCodeChar_spec (c1 l hl _ hcl)).2.2.2.2.1 rfl
        · exact (isCodeChar_spec ((hm er her).2.2 l hl _ hcl)).2.2.2.2.1 rfl
      · revert hmem; decide
    · revert hmem; decide
    · revert hmem; decide
  rw [finish_div _ _ hs2]
  have e2 : "\n<p>".toList ++ (c0 :: r0) ++ "</p>\n<pre><code>".toList ++
      (Code.codeEscape (trimSpec first more) ++ ['\n']) ++ "</code></pre>\n".toList =
      '\n' :: '<' :: ("p>".toList ++ (c0 :: r0) ++ "</p>\n<pre><code>".toList ++ Code.codeEscape (trimSpec first more) ++
        "\n</code></pre".toList) ++ ['>', '\n'] := by simp
  rw [e2, strip_tagged]
  simp

/-! ### the inline processor on a calm tree -/

theorem quiet_of_all {s : Str} (h : s.all isQuietCh = true) : Quiet s ∧ STX ∉ s := by
  constructor
  · intro c hc
    have := List.all_eq_true.1 h c hc
    simp only [isQuietCh, Bool.and_eq_true, bne_iff_ne, ne_eq] at this
    obtain ⟨⟨⟨⟨⟨⟨⟨a1, a2⟩, a3⟩, a4⟩, a5⟩, a6⟩, a7⟩, _⟩ := this
    exact ⟨a1, a2, a3, a4, a5, a6, a7⟩
  · intro hm
    have := List.all_eq_true.1 h _ hm
    simp only [isQuietCh, Bool.and_eq_true, bne_iff_ne, ne_eq] at this
    exact this.2 rfl

/-- `__processPlaceholders` on a tail without STX: the tail is put back with its flag -/
theorem ppTop_plain_tail (st : St) (data : Str) (atomic : Bool) (hne : data ≠ []) (hs : STX ∉ data) :
    ppTop st data atomic (mkEl "d") false = some ([], { mkEl "d" with tail := some data, tailAtomic := atomic }) := by
  obtain ⟨c, r, rfl⟩ : ∃ c r, data = c :: r := by cases data <;> simp_all
  unfold ppTop
  rw [show st.stash.length + 2 = (st.stash.length + 1) + 1 from rfl]
  unfold processPlaceholders
  simp only [List.isEmpty_cons, Bool.false_eq_true, if_false, List.length_cons]
  rw [show r.length + 1 + 2 = (r.length + 2) + 1 from rfl]
  unfold ppLoop
  simp only [List.drop_zero, find_phPrefix_none _ hs]
  simp [linkText, Node.truthy, mkEl]

theorem truthy_some_iff (s : Str) : Node.truthy (some s) = true ↔ s ≠ [] := by
  cases s <;> simp [Node.truthy]

theorem visitChild_calm (cfg : Inline.Cfg) (child : Node) (v : Visit) (h : calmNode child = true) :
    visitChild cfg child v =
      some (child, [], { v with pushes := if child.children.isEmpty then v.pushes else [v.done.length] :: v.pushes }) := by
  obtain ⟨tag, attrs, text, ta, children, tail, tla⟩ := child
  simp only [calmNode, Bool.and_eq_true] at h
  obtain ⟨h1, h2⟩ := h
  -- facts about the tail
  have tailFacts : ∀ s, tail = some s → s ≠ [] →
      (if tla = true then some (s, v.st) else handleInlineTop cfg s v.st) = some (s, v.st) ∧
      ppTop v.st s tla (mkEl "d") false = some ([], { mkEl "d" with tail := some s, tailAtomic := tla }) := by
    intro s hs hne
    subst hs
    have hq := quiet_of_all (by simpa using h2 : s.all isQuietCh = true)
    refine ⟨?_, ppTop_plain_tail v.st s tla hne hq.2⟩
    cases tla
    · simpa using handleInlineTop_quiet cfg s v.st hq.1
    · rfl
  have textFacts : ∀ s, text = some s → ta = false → s ≠ [] → ∀ (parent : Node), parent.text = none →
      parent.textAtomic = false →
      handleInlineTop cfg s v.st = some (s, v.st) ∧
      ppTop v.st s false parent true = some ([], { parent with text := some s }) := by
    intro s hs hta hne parent hp1 hp2
    subst hs; subst hta
    have hq := quiet_of_all (by simpa using h1 : s.all isQuietCh = true)
    exact ⟨handleInlineTop_quiet cfg s v.st hq.1, ppTop_plain v.st s parent hne hq.2 hp1 hp2⟩
  have t0 : Node.truthy none = false := rfl
  have tn : Node.truthy (some []) = false := rfl
  unfold visitChild
  cases text with
  | none =>
    cases tail with
    | none => simp [t0]
    | some s' =>
      by_cases hne' : s' = []
      · subst hne'; simp [t0, tn]
      · obtain ⟨f1, f2⟩ := tailFacts s' rfl hne'
        simp [t0, (truthy_some_iff s').2 hne', f1, f2]
  | some s =>
    by_cases hne : s = []
    · subst hne
      cases tail with
      | none => simp [t0, tn]
      | some s' =>
        by_cases hne' : s' = []
        · subst hne'; simp [tn]
        · obtain ⟨f1, f2⟩ := tailFacts s' rfl hne'
          simp [tn, (truthy_some_iff s').2 hne', f1, f2]
    · cases ta with
      | true =>
        cases tail with
        | none => simp [t0]
        | some s' =>
          by_cases hne' : s' = []
          · subst hne'; simp [tn]
          · obtain ⟨f1, f2⟩ := tailFacts s' rfl hne'
            simp [(truthy_some_iff s').2 hne', f1, f2]
      | false =>
        obtain ⟨g1, g2⟩ := textFacts s rfl rfl hne ⟨tag, attrs, none, false, children, tail, tla⟩ rfl rfl
        cases tail with
        | none => simp [(truthy_some_iff s).2 hne, g1, g2, t0]
        | some s' =>
          by_cases hne' : s' = []
          · subst hne'; simp [(truthy_some_iff s).2 hne, g1, g2, tn]
          · obtain ⟨f1, f2⟩ := tailFacts s' rfl hne'
            simp [(truthy_some_iff s).2 hne, (truthy_some_iff s').2 hne', g1, g2, f1, f2]


/-! the child loop on calm children -/

def vlStep (c : Node) (i : Nat) (v : Visit) : Visit :=
  { v with done := c :: v.done, posmap := (i, i) :: v.posmap,
           pushes := if c.children.isEmpty then v.pushes else [i] :: v.pushes }

def vl : List Node → Nat → Visit → Visit
  | [], _, v => v
  | c :: r, i, v => vl r (i + 1) (vlStep c i v)

theorem visitLoop_calm (cfg : Inline.Cfg) (kids : List Node) :
    ∀ (i : Nat) (v : Visit) (g : Nat), (∀ c ∈ kids, calmNode c = true) → v.done.length = i → kids.length + 1 ≤ g →
      visitLoop cfg g (withIdx kids i) v = some (vl kids i v) := by
  induction kids with
  | nil =>
    intro i v g _ _ hg
    obtain ⟨g', rfl⟩ : ∃ g', g = g' + 1 := ⟨g - 1, by simp at hg; omega⟩
    rfl
  | cons c r ih =>
    intro i v g hc hv hg
    obtain ⟨g', rfl⟩ : ∃ g', g = g' + 1 := ⟨g - 1, by simp at hg; omega⟩
    simp only [withIdx, visitLoop, visitChild_calm cfg c v (hc c List.mem_cons_self), List.map_nil, List.nil_append]
    have := ih (i + 1) (vlStep c i v) g' (fun d hd => hc d (List.mem_cons_of_mem _ hd))
      (by simp [vlStep, hv]) (by simp at hg ⊢; omega)
    simp only [vl]
    rw [← this]
    simp [vlStep, hv]

def pushesRev : List Node → Nat → List Path
  | [], _ => []
  | c :: r, i => pushesRev r (i + 1) ++ (if c.children.isEmpty then [] else [[i]])

theorem vl_spec (kids : List Node) : ∀ (i : Nat) (v : Visit),
    (vl kids i v).done = kids.reverse ++ v.done ∧ (vl kids i v).st = v.st ∧
    (vl kids i v).pushes = pushesRev kids i ++ v.pushes ∧
    ((∀ x ∈ v.posmap, x.1 = x.2) → ∀ x ∈ (vl kids i v).posmap, x.1 = x.2) := by
  induction kids with
  | nil => intro i v; simp [vl, pushesRev]
  | cons c r ih =>
    intro i v
    obtain ⟨h1, h2, h3, h4⟩ := ih (i + 1) (vlStep c i v)
    refine ⟨?_, ?_, ?_, ?_⟩
    · show (vl r (i + 1) (vlStep c i v)).done = _
      rw [h1]; simp [vlStep]
    · show (vl r (i + 1) (vlStep c i v)).st = _
      rw [h2]; rfl
    · show (vl r (i + 1) (vlStep c i v)).pushes = _
      rw [h3]
      simp only [pushesRev, vlStep]
      split <;> simp
    · intro hv
      show ∀ x ∈ (vl r (i + 1) (vlStep c i v)).posmap, x.1 = x.2
      apply h4
      intro x hx
      simp only [vlStep, List.mem_cons] at hx
      rcases hx with rfl | hx
      · rfl
      · exact hv x hx

/-! paths -/

theorem set_self {α : Type} (l : List α) (i : Nat) (c : α) (h : l[i]? = some c) : l.set i c = l := by
  induction l generalizing i with
  | nil => rfl
  | cons a l ih =>
    cases i with
    | zero => simp at h; subst h; rfl
    | succ i => simp at h; simp [ih i h]

theorem setAt_getAt (root : Node) (p : Path) (cur : Node) (h : getAt root p = some cur) : setAt root p cur = root := by
  induction p generalizing root with
  | nil => simp only [getAt, Option.some.injEq] at h; subst h; rfl
  | cons i q ih =>
    simp only [getAt] at h
    cases hc : root.children[i]? with
    | none => rw [hc] at h; cases h
    | some c =>
      rw [hc] at h
      simp only at h
      simp only [setAt, hc, ih c h]
      cases root
      simp only [Node.mk.injEq, true_and]
      simp only at hc
      exact ⟨set_self _ _ _ hc, trivial⟩

theorem getAt_append (root : Node) (p : Path) (cur : Node) (j : Nat) (h : getAt root p = some cur) :
    getAt root (p ++ [j]) = (cur.children[j]?) := by
  induction p generalizing root with
  | nil =>
    simp only [getAt, Option.some.injEq] at h; subst h
    simp only [List.nil_append, getAt]
    cases root.children[j]? <;> rfl
  | cons i q ih =>
    simp only [getAt] at h
    cases hc : root.children[i]? with
    | none => rw [hc] at h; cases h
    | some c =>
      rw [hc] at h
      simp only [List.cons_append, getAt, hc]
      exact ih c h

theorem startsWithPath_spec (q p : Path) (h : remap.startsWithPath q p = true) : q = p ++ q.drop p.length := by
  induction p generalizing q with
  | nil => simp
  | cons b p ih =>
    cases q with
    | nil => simp [remap.startsWithPath] at h
    | cons a q =>
      simp only [remap.startsWithPath, Bool.and_eq_true, decide_eq_true_eq] at h
      obtain ⟨rfl, h⟩ := h
      simp only [List.cons_append, List.length_cons, List.drop_succ_cons]
      rw [← ih q h]

theorem remap_id (p : Path) (posmap : List (Nat × Nat)) (hid : ∀ x ∈ posmap, x.1 = x.2) (q : Path) :
    remap p posmap q = q := by
  unfold remap
  split
  · rename_i hs
    have hq := startsWithPath_spec q p hs
    split
    · rename_i j rest hd
      split
      · rename_i a j' hf
        have hm := List.mem_of_find?_eq_some hf
        have hp := List.find?_some hf
        simp only [decide_eq_true_eq] at hp
        have := hid _ hm
        simp only at this hp
        rw [hq, hd, ← this, hp]
      · rfl
    · rfl
  · rfl


/-! the measure: elements below the paths on the stack -/

mutual
def below : Node → Nat
  | ⟨_, _, _, _, children, _, _⟩ => belowKids children
def belowKids : List Node → Nat
  | [] => 0
  | c :: r => 1 + below c + belowKids r
end

theorem below_eq (n : Node) : below n = belowKids n.children := by
  cases n; simp [below]

def wPath (root : Node) (p : Path) : Nat :=
  match getAt root p with
  | none => 1
  | some cur => 1 + below cur

def mStack (root : Node) (stack : List Path) : Nat := (stack.map (wPath root)).sum

theorem mStack_cons (root : Node) (p : Path) (stack : List Path) :
    mStack root (p :: stack) = wPath root p + mStack root stack := by
  simp [mStack]

theorem mStack_append (root : Node) (s1 s2 : List Path) :
    mStack root (s1 ++ s2) = mStack root s1 + mStack root s2 := by
  simp [mStack]

/-- the paths pushed for the children of `cur` weigh at most the elements below `cur` -/
theorem mStack_pushes (root : Node) (p : Path) (cur : Node) (hcur : getAt root p = some cur) :
    ∀ (kids : List Node) (i : Nat), (∀ j c, kids[j]? = some c → cur.children[i + j]? = some c) →
      mStack root ((pushesRev kids i).map (p ++ ·)) ≤ belowKids kids := by
  intro kids
  induction kids with
  | nil => intro i _; simp [pushesRev, mStack, belowKids]
  | cons c r ih =>
    intro i hk
    have ih' := ih (i + 1) (fun j d hj => by
      have := hk (j + 1) d (by simpa using hj)
      rwa [show i + (j + 1) = i + 1 + j by omega] at this)
    simp only [pushesRev, List.map_append, mStack_append, belowKids]
    have hc : cur.children[i]? = some c := by simpa using hk 0 c (by simp)
    have : mStack root (List.map (fun x => p ++ x) (if c.children.isEmpty = true then [] else [[i]])) ≤ 1 + below c := by
      split
      · simp [mStack]
      · simp [mStack, wPath, getAt_append root p cur i hcur, hc]
    omega

theorem calmTree_spec (n : Node) (h : calmTree n = true) : calmNode n = true ∧ calmKids n.children = true := by
  cases n
  simp only [calmTree, Bool.and_eq_true] at h
  simp only [calmNode, Bool.and_eq_true]
  exact ⟨⟨h.1.1, h.1.2⟩, h.2⟩

theorem calmKids_mem (kids : List Node) (h : calmKids kids = true) : ∀ c ∈ kids, calmTree c = true := by
  induction kids with
  | nil => simp
  | cons c r ih =>
    simp only [calmKids, Bool.and_eq_true] at h
    intro d hd
    rcases List.mem_cons.1 hd with rfl | hd
    · exact h.1
    · exact ih h.2 d hd

theorem calm_getAt (root : Node) (h : calmKids root.children = true) (p : Path) (cur : Node)
    (hp : getAt root p = some cur) : calmKids cur.children = true := by
  induction p generalizing root with
  | nil => simp only [getAt, Option.some.injEq] at hp; subst hp; exact h
  | cons i q ih =>
    simp only [getAt] at hp
    cases hc : root.children[i]? with
    | none => rw [hc] at hp; cases hp
    | some c =>
      rw [hc] at hp
      exact ih c (calmTree_spec c (calmKids_mem _ h c (List.mem_of_getElem? hc))).2 hp

/-- the stack loop on a tree whose elements below the root are all calm: the tree comes back unchanged -/
theorem runLoop_calm (cfg : Inline.Cfg) (g2 : Nat) (root : Node) (st : St) (hcalm : calmKids root.children = true)
    (hg2 : ∀ p cur, getAt root p = some cur → cur.children.length + 1 ≤ g2) :
    ∀ (g : Nat) (stack : List Path), mStack root stack + 1 ≤ g → runLoop cfg g2 g root stack st = some (root, st) := by
  intro g
  induction g with
  | zero => intro stack h; omega
  | succ g ih =>
    intro stack h
    cases stack with
    | nil => rfl
    | cons p stack =>
      rw [mStack_cons] at h
      cases hcur : getAt root p with
      | none =>
        simp only [runLoop, hcur]
        apply ih
        simp only [wPath, hcur] at h
        omega
      | some cur =>
        have hkids := calm_getAt root hcalm p cur hcur
        have hvl := visitLoop_calm cfg cur.children 0 { st := st } g2
          (fun c hc => (calmTree_spec c (calmKids_mem _ hkids c hc)).1) rfl (hg2 p cur hcur)
        obtain ⟨v1, v2, v3, v4⟩ := vl_spec cur.children 0 { st := st }
        simp only [runLoop, hcur, hvl, v1, v2, List.append_nil, List.reverse_reverse]
        have hroot : setAt root p cur = root := setAt_getAt root p cur hcur
        have e : (⟨cur.tag, cur.attrs, cur.text, cur.textAtomic, cur.children, cur.tail, cur.tailAtomic⟩ : Node) = cur := by
          cases cur; rfl
        rw [e]
        rw [hroot, v3]
        have hmap : stack.map (remap p (vl cur.children 0 { st := st }).posmap) = stack := by
          have hid := v4 (by simp)
          rw [show remap p (vl cur.children 0 { st := st }).posmap = id from funext (remap_id p _ hid)]
          simp
        rw [hmap]
        apply ih
        simp only [List.append_nil, mStack_append]
        have := mStack_pushes root p cur hcur cur.children 0 (fun j c hj => by simpa using hj)
        simp only [wPath, hcur, below_eq cur] at h
        omega


/-! fuel -/

mutual
theorem below_le_size : (n : Node) → below n + 1 ≤ Inline.size n
  | ⟨_, _, text, _, children, tail, _⟩ => by
    have := belowKids_le_size children
    simp only [below, Inline.size]
    omega
theorem belowKids_le_size : (kids : List Node) → belowKids kids ≤ Inline.sizeList kids
  | [] => by simp [belowKids, Inline.sizeList]
  | c :: r => by
    have h1 := below_le_size c
    have h2 := belowKids_le_size r
    simp only [belowKids, Inline.sizeList]
    omega
end

theorem size_pos (n : Node) : 1 ≤ Inline.size n := by
  have := below_le_size n; omega

theorem length_le_sizeList (kids : List Node) : kids.length ≤ Inline.sizeList kids := by
  induction kids with
  | nil => simp [Inline.sizeList]
  | cons c r ih => have := size_pos c; simp only [List.length_cons, Inline.sizeList]; omega

theorem size_mem_le (kids : List Node) (c : Node) (h : c ∈ kids) : Inline.size c ≤ Inline.sizeList kids := by
  induction kids with
  | nil => simp at h
  | cons d r ih =>
    simp only [Inline.sizeList]
    rcases List.mem_cons.1 h with rfl | h
    · omega
    · have := ih h; omega

theorem sizeList_le_size (n : Node) : Inline.sizeList n.children + 1 ≤ Inline.size n := by
  cases n; simp only [Inline.size]; omega

theorem size_getAt (root : Node) (p : Path) (cur : Node) (h : getAt root p = some cur) :
    Inline.size cur ≤ Inline.size root := by
  induction p generalizing root with
  | nil => simp only [getAt, Option.some.injEq] at h; subst h; exact Nat.le_refl _
  | cons i q ih =>
    simp only [getAt] at h
    cases hc : root.children[i]? with
    | none => rw [hc] at h; cases h
    | some c =>
      rw [hc] at h
      have h1 := ih c h
      have h2 := size_mem_le _ c (List.mem_of_getElem? hc)
      have h3 := sizeList_le_size root
      omega

/-- **the inline processor on a calm tree**: when every element below the root has only atomic text (code) or plain
    words as text and tail, `InlineProcessor.run` gives the tree back unchanged — every element, wherever it sits —
    and stashes nothing -/
theorem run_calm (cfg : Inline.Cfg) (root : Node) (h : calmKids root.children = true) :
    Inline.run cfg root = some (root, {}) := by
  unfold Inline.run
  apply runLoop_calm cfg _ root _ h
  · intro p cur hp
    have h1 := size_getAt root p cur hp
    have h2 := length_le_sizeList cur.children
    have h3 := sizeList_le_size cur
    simp only [Inline.runFuel]
    omega
  · have := below_le_size root
    simp only [mStack, List.map_cons, List.map_nil, List.sum_cons, List.sum_nil, wPath, getAt, Inline.runFuel]
    omega

end MdVerif.CodeLaw
